/-
  Helper lemmas for K6 (pub/sub): one API call on one host followed by a drain pass, as a
  function of the hosts' (id, room table) views.
-/
import Sio.Lemmas.PubSubDrain
namespace Sio.PubSub
open Sio.Rooms

abbrev View := HostId × Rooms.St

def Cluster.views (c : Cluster) : List View := c.hosts.map Host.view

/-- the channel is consumed up to `callback` entries -/
def Pending (hosts : List Host) (chan : List Msg) : Prop :=
  ∀ h ∈ hosts, h.cursor ≤ chan.length ∧ AllCb (chan.drop h.cursor)

theorem flatMap_if_id {β : Type} (hosts : List Host) (hnd : (hosts.map Host.id).Nodup) (hv : Host)
    (hin : hv ∈ hosts) (g : Host → List β) :
    hosts.flatMap (fun h => if h.id = hv.id then g h else []) = g hv := by
  induction hosts with
  | nil => cases hin
  | cons a l ih =>
    simp only [List.map_cons, List.nodup_cons] at hnd
    rw [List.flatMap_cons]
    rcases List.mem_cons.mp hin with rfl | hin'
    · have : l.flatMap (fun h => if h.id = hv.id then g h else []) = [] := by
        rw [List.flatMap_eq_nil_iff]
        intro x hx
        have : x.id ≠ hv.id := fun he => hnd.1 (he ▸ List.mem_map_of_mem hx)
        simp [this]
      simp [this]
    · have hne : a.id ≠ hv.id := fun he => hnd.1 (he ▸ List.mem_map_of_mem hin')
      simp only [hne, if_false, List.nil_append]
      exact ih hnd.2 hin'

theorem flatMap_if_none {β : Type} (hosts : List Host) (via : HostId)
    (hno : via ∉ hosts.map Host.id) (g : Host → List β) :
    hosts.flatMap (fun h => if h.id = via then g h else []) = [] := by
  rw [List.flatMap_eq_nil_iff]
  intro x hx
  have : x.id ≠ via := fun he => hno (he ▸ List.mem_map_of_mem hx)
  simp [this]

/-- what `f` must respect to be an API call on a host -/
structure ApiLike (f : Host → Res) (hosts : List Host) : Prop where
  id : ∀ h ∈ hosts, (f h).h.id = h.id
  cursor : ∀ h ∈ hosts, (f h).h.cursor = h.cursor
  inv : ∀ h ∈ hosts, Inv h.rooms → Inv (f h).h.rooms
  pubsOk : ∀ h ∈ hosts, EmitsOk (f h).pubs

/-- An API call `f` on host `hv`, then one drain pass. -/
theorem on_then_drain (c : Cluster) (hv : Host) (hin : hv ∈ c.hosts) (f : Host → Res)
    (hf : ApiLike f c.hosts)
    (hnd : (c.hosts.map Host.id).Nodup) (hinv : ∀ h ∈ c.hosts, Inv h.rooms)
    (hpend : Pending c.hosts c.chan) (hok : EmitsOk c.chan) :
    let r := c.on hv.id f
    let d := step r.1 .drain
    let P := (f hv).pubs
    d.1.views = c.hosts.map (fun h =>
      (h.id, roomsAfterL h.id (if h.id = hv.id then (f h).h.rooms else h.rooms) P)) ∧
    Pending d.1.hosts d.1.chan ∧ EmitsOk d.1.chan ∧ d.1.wo = c.wo ∧
    (∀ sid, seenBy sid (r.2 ++ d.2) = seenBy sid (f hv).outs ++
      c.hosts.flatMap (fun h =>
        seenAfterL h.id (if h.id = hv.id then (f h).h.rooms else h.rooms) sid P)) ∧
    discEvents (r.2 ++ d.2) = discEvents (f hv).outs ++
      c.hosts.flatMap (fun h =>
        discAfterL h.id (if h.id = hv.id then (f h).h.rooms else h.rooms) P) := by
  intro r d P
  -- the state after the API call
  have hpubs : c.hosts.flatMap (fun h => if h.id = hv.id then (f h).pubs else []) = P :=
    flatMap_if_id c.hosts hnd hv hin _
  have houts : c.hosts.flatMap (fun h => if h.id = hv.id then (f h).outs else []) = (f hv).outs :=
    flatMap_if_id c.hosts hnd hv hin _
  have hr1 : r.1.hosts = c.hosts.map (fun h => if h.id = hv.id then (f h).h else h) := rfl
  have hr1c : r.1.chan = c.chan ++ P := by
    show c.chan ++ c.hosts.flatMap (fun h => if h.id = hv.id then (f h).pubs else []) = _
    rw [hpubs]
  have hr2 : r.2 = (f hv).outs := houts
  -- preconditions of the drain
  have hinv1 : ∀ h ∈ r.1.hosts, Inv h.rooms := by
    intro h hh
    rw [hr1] at hh
    obtain ⟨x, hx, rfl⟩ := List.mem_map.mp hh
    split
    · exact hf.inv x hx (hinv x hx)
    · exact hinv x hx
  have hcur1 : ∀ h ∈ r.1.hosts, h.cursor ≤ r.1.chan.length := by
    intro h hh
    rw [hr1] at hh
    obtain ⟨x, hx, rfl⟩ := List.mem_map.mp hh
    rw [hr1c, List.length_append]
    have := (hpend x hx).1
    split
    · rw [hf.cursor x hx]; omega
    · omega
  have hok1 : EmitsOk r.1.chan := by rw [hr1c]; exact hok.append (hf.pubsOk hv hin)
  obtain ⟨⟨B, hB, hBeq⟩, e2, e3, e4, e5⟩ := drainHosts_effect r.1.chan r.1.hosts hinv1 hcur1 hok1
  have hd1h : d.1.hosts = (drainHosts r.1.chan r.1.hosts).1 := rfl
  have hd1c : d.1.chan = (drainHosts r.1.chan r.1.hosts).2.2 := rfl
  have hd2 : d.2 = (drainHosts r.1.chan r.1.hosts).2.1 := rfl
  -- the pending part of each host is `P` after callbacks
  have hdrop : ∀ x ∈ c.hosts, ∃ A, AllCb A ∧
      r.1.chan.drop (if x.id = hv.id then (f x).h else x).cursor = A ++ P := by
    intro x hx
    refine ⟨c.chan.drop x.cursor, (hpend x hx).2, ?_⟩
    have hc : (if x.id = hv.id then (f x).h else x).cursor = x.cursor := by
      split
      · exact hf.cursor x hx
      · rfl
    rw [hc, hr1c, drop_append_of_le _ _ _ (hpend x hx).1]
  have hidx : ∀ x ∈ c.hosts, (if x.id = hv.id then (f x).h else x).id = x.id := by
    intro x hx
    split
    · exact hf.id x hx
    · rfl
  have hrooms : ∀ x : Host, (if x.id = hv.id then (f x).h else x).rooms =
      (if x.id = hv.id then (f x).h.rooms else x.rooms) := by
    intro x; split <;> rfl
  refine ⟨?_, ?_, ?_, rfl, ?_, ?_⟩
  · show d.1.hosts.map Host.view = _
    rw [hd1h, e2, hr1, List.map_map]
    apply List.map_congr_left
    intro x hx
    obtain ⟨A, hA, hAeq⟩ := hdrop x hx
    simp only [Function.comp, hidx x hx, hAeq, hrooms]
    rw [roomsAfterL_append, roomsAfterL_allCb _ _ _ hA]
  · intro h' hh'
    rw [hd1h] at hh'
    rw [hd1c]
    exact e3 h' hh'
  · rw [hd1c, hBeq]
    exact hok1.append (EmitsOk.of_allCb hB)
  · intro sid
    rw [seenBy_append, hr2, hd2, e4 sid, hr1, List.flatMap_map]
    congr 1
    apply flatMap_congr'
    intro x hx
    obtain ⟨A, hA, hAeq⟩ := hdrop x hx
    simp only [hidx x hx, hAeq, hrooms]
    rw [seenAfterL_append, seenAfterL_allCb _ _ _ _ hA, roomsAfterL_allCb _ _ _ hA, List.nil_append]
  · rw [discEvents_append, hr2, hd2, e5, hr1, List.flatMap_map]
    congr 1
    apply flatMap_congr'
    intro x hx
    obtain ⟨A, hA, hAeq⟩ := hdrop x hx
    simp only [hidx x hx, hAeq, hrooms]
    rw [discAfterL_append, discAfterL_allCb _ _ _ hA, roomsAfterL_allCb _ _ _ hA, List.nil_append]

/-- A drain pass from a state whose channel is `chan ++ P` with everything before `P` consumed up to
    callbacks. -/
theorem drain_effect (c1 : Cluster) (chan P : List Msg) (hc : c1.chan = chan ++ P)
    (hinv : ∀ h ∈ c1.hosts, Inv h.rooms) (hpend : Pending c1.hosts chan) (hok : EmitsOk c1.chan) :
    let d := step c1 .drain
    d.1.views = c1.hosts.map (fun h => (h.id, roomsAfterL h.id h.rooms P)) ∧
    Pending d.1.hosts d.1.chan ∧ EmitsOk d.1.chan ∧ d.1.wo = c1.wo ∧
    (∀ sid, seenBy sid d.2 = c1.hosts.flatMap (fun h => seenAfterL h.id h.rooms sid P)) ∧
    discEvents d.2 = c1.hosts.flatMap (fun h => discAfterL h.id h.rooms P) := by
  intro d
  have hcur1 : ∀ h ∈ c1.hosts, h.cursor ≤ c1.chan.length := by
    intro h hh
    rw [hc, List.length_append]
    have := (hpend h hh).1
    omega
  obtain ⟨⟨B, hB, hBeq⟩, e2, e3, e4, e5⟩ := drainHosts_effect c1.chan c1.hosts hinv hcur1 hok
  have hd1h : d.1.hosts = (drainHosts c1.chan c1.hosts).1 := rfl
  have hd1c : d.1.chan = (drainHosts c1.chan c1.hosts).2.2 := rfl
  have hd2 : d.2 = (drainHosts c1.chan c1.hosts).2.1 := rfl
  have hdrop : ∀ x ∈ c1.hosts, ∃ A, AllCb A ∧ c1.chan.drop x.cursor = A ++ P := by
    intro x hx
    refine ⟨chan.drop x.cursor, (hpend x hx).2, ?_⟩
    rw [hc, drop_append_of_le _ _ _ (hpend x hx).1]
  refine ⟨?_, ?_, ?_, rfl, ?_, ?_⟩
  · show d.1.hosts.map Host.view = _
    rw [hd1h, e2]
    apply List.map_congr_left
    intro x hx
    obtain ⟨A, hA, hAeq⟩ := hdrop x hx
    rw [hAeq, roomsAfterL_append, roomsAfterL_allCb _ _ _ hA]
  · intro h' hh'
    rw [hd1h] at hh'
    rw [hd1c]
    exact e3 h' hh'
  · rw [hd1c, hBeq]
    exact hok.append (EmitsOk.of_allCb hB)
  · intro sid
    rw [hd2, e4 sid]
    apply flatMap_congr'
    intro x hx
    obtain ⟨A, hA, hAeq⟩ := hdrop x hx
    rw [hAeq, seenAfterL_append, seenAfterL_allCb _ _ _ _ hA, roomsAfterL_allCb _ _ _ hA,
      List.nil_append]
  · rw [hd2, e5]
    apply flatMap_congr'
    intro x hx
    obtain ⟨A, hA, hAeq⟩ := hdrop x hx
    rw [hAeq, discAfterL_append, discAfterL_allCb _ _ _ hA, roomsAfterL_allCb _ _ _ hA,
      List.nil_append]

end Sio.PubSub
