/-
  Helper lemmas for K6 (pub/sub), callback level of `sync_equiv` (C07), part 1: vocabulary
  (`cbEvents`, `askedOf`), the full host states after "one API call + one drain pass" from a drained
  cluster, what every listener step / API call does to the callback tables, and the per-key link
  relation `KL` between the callback tables of a cluster and of the single reference server with its
  preservation lemmas (on abstract tables: pure function-update reasoning).
-/
import Sio.Lemmas.PubSubDeliver
import Sio.Lemmas.PubSubSyncOps
namespace Sio.PubSub
open Sio.Rooms

/-! ### callback invocations among the outputs -/

/-- the application callbacks invoked in `outs`: (token, arguments), hosts forgotten -/
def cbEvents : List Out → List (Nat × List J)
  | [] => []
  | .callback _ t a :: rest => (t, a) :: cbEvents rest
  | _ :: rest => cbEvents rest

theorem cbEvents_append (a b : List Out) : cbEvents (a ++ b) = cbEvents a ++ cbEvents b := by
  induction a with
  | nil => rfl
  | cons o a ih => cases o <;> simp [cbEvents, ih]

theorem appEvents_of_no_cb {outs : List Out} (h : cbEvents outs = []) :
    appEvents outs = (discEvents outs).map (fun p => AppEv.disconnected p.1 p.2) := by
  induction outs with
  | nil => rfl
  | cons o outs ih =>
    cases o <;> simp_all [cbEvents, appEvents, discEvents]

theorem appEvents_of_no_disc {outs : List Out} (h : discEvents outs = []) :
    appEvents outs = (cbEvents outs).map (fun p => AppEv.callback p.1 p.2) := by
  induction outs with
  | nil => rfl
  | cons o outs ih =>
    cases o <;> simp_all [cbEvents, appEvents, discEvents]

/-- equal disconnect handlers, equal callbacks, and not both kinds in one step: equal application
    events -/
theorem appEvents_eq {a b : List Out} (hd : discEvents a = discEvents b) (hc : cbEvents a = cbEvents b)
    (hone : cbEvents b = [] ∨ discEvents b = []) : appEvents a = appEvents b := by
  rcases hone with h | h
  · rw [appEvents_of_no_cb h, appEvents_of_no_cb (hc.trans h), hd]
  · rw [appEvents_of_no_disc h, appEvents_of_no_disc (hd.trans h), hc]

theorem cbEvents_flatMap_nil {α : Type} (l : List α) (g : α → List Out) (h : ∀ x ∈ l, cbEvents (g x) = []) :
    cbEvents (l.flatMap g) = [] := by
  induction l with
  | nil => rfl
  | cons a l ih =>
    rw [List.flatMap_cons, cbEvents_append, h a List.mem_cons_self,
      ih (fun x hx => h x (List.mem_cons_of_mem _ hx))]
    rfl

/-! ### the ids one client has been asked to acknowledge -/

def askedOf (asked : List (Sid × Nat)) (sid : Sid) : List Nat :=
  (asked.filter (fun a => a.1 = sid)).map (·.2)

theorem nthAsked_eq (asked : List (Sid × Nat)) (sid : Sid) (n : Nat) :
    nthAsked asked sid n = (askedOf asked sid)[n]? := by
  simp [nthAsked, askedOf]

theorem askedOf_append (a b : List (Sid × Nat)) (x : Sid) :
    askedOf (a ++ b) x = askedOf a x ++ askedOf b x := by
  simp [askedOf]

@[simp] theorem askedOf_nil (x : Sid) : askedOf [] x = [] := rfl

theorem askedOf_eq_nil {asked : List (Sid × Nat)} {x : Sid} (h : ∀ a ∈ asked, a.1 ≠ x) :
    askedOf asked x = [] := by
  simp only [askedOf, List.map_eq_nil_iff, List.filter_eq_nil_iff, decide_eq_true_eq]
  exact h

def Seen.asks : Seen → Bool
  | .event _ _ _ w => w
  | _ => false

/-- outputs in which no client is asked for an acknowledgement -/
theorem askedIn_nil_of_seen (outs : List Out) (h : ∀ x, ∀ e ∈ seenBy x outs, e.asks = false) :
    askedIn outs = [] := by
  induction outs with
  | nil => rfl
  | cons o outs ih =>
    cases o with
    | send host sid eio f =>
      obtain ⟨ns, ev, args, id⟩ := f
      cases id with
      | none =>
        simp only [askedIn]
        apply ih
        intro x e he
        apply h x e
        simp only [seenBy]
        split
        · exact List.mem_cons_of_mem _ he
        · exact he
      | some i =>
        have := h sid (.event ns ev args true) (by simp [seenBy])
        cases this
    | sendDisc host sid eio ns =>
      simp only [askedIn]
      apply ih
      intro x e he
      apply h x e
      simp only [seenBy]
      split
      · exact List.mem_cons_of_mem _ he
      · exact he
    | _ =>
      simp only [askedIn]
      exact ih (fun x e he => h x e (by simpa [seenBy] using he))

/-! ### one API call and one drain pass from a drained cluster: the full host states -/

theorem catchUp_err (h : Host) (ms : List Msg) : (catchUp h ms).err = none := by
  cases ms <;> rfl

/-- a drain pass over hosts that have all consumed `A`, when applying the rest `P` publishes nothing -/
theorem drainHosts_quiet (A P : List Msg) (hosts : List Host)
    (hcur : ∀ h ∈ hosts, h.cursor = A.length)
    (hq : ∀ h ∈ hosts, (catchUp h P).pubs = []) :
    drainHosts (A ++ P) hosts =
      (hosts.map (fun h => { (catchUp h P).h with cursor := A.length + P.length }),
       hosts.flatMap (fun h => (catchUp h P).outs), A ++ P) := by
  induction hosts with
  | nil => rfl
  | cons h hs ih =>
    have hc := hcur h List.mem_cons_self
    have hb : ((A ++ P).drop A.length).take (A ++ P).length = P := by
      rw [List.drop_left]
      apply List.take_of_length_le
      simp
    have hd : deliverOn (A ++ P) (A ++ P).length h =
        { h := { (catchUp h P).h with cursor := A.length + P.length }, outs := (catchUp h P).outs,
          pubs := [] } := by
      simp only [deliverOn, hc, hb, hq h List.mem_cons_self, catchUp_err]
    simp only [drainHosts, hd, List.append_nil, List.map_cons, List.flatMap_cons]
    rw [ih (fun x hx => hcur x (List.mem_cons_of_mem _ hx)) (fun x hx => hq x (List.mem_cons_of_mem _ hx))]

/-- An API call `f` on host `hv` of a drained cluster, then one drain pass in which nobody
    publishes: every host has applied exactly what `f` published. -/
theorem on_drain_full (c : Cluster) (hnd : (c.hosts.map Host.id).Nodup)
    (hdr : ∀ h ∈ c.hosts, h.cursor = c.chan.length) (hv : Host) (hin : hv ∈ c.hosts) (f : Host → Res)
    (hcur : ∀ h ∈ c.hosts, (f h).h.cursor = h.cursor)
    (hq : ∀ h ∈ c.hosts, (catchUp (if h.id = hv.id then (f h).h else h) (f hv).pubs).pubs = []) :
    (step (c.on hv.id f).1 .drain).1.hosts = c.hosts.map (fun h =>
      { (catchUp (if h.id = hv.id then (f h).h else h) (f hv).pubs).h with
          cursor := c.chan.length + (f hv).pubs.length }) ∧
    (step (c.on hv.id f).1 .drain).1.chan = c.chan ++ (f hv).pubs ∧
    (step (c.on hv.id f).1 .drain).1.asked = c.asked ++ askedIn ((f hv).outs ++ c.hosts.flatMap (fun h =>
      (catchUp (if h.id = hv.id then (f h).h else h) (f hv).pubs).outs)) ∧
    (c.on hv.id f).2 ++ (step (c.on hv.id f).1 .drain).2 = (f hv).outs ++ c.hosts.flatMap (fun h =>
      (catchUp (if h.id = hv.id then (f h).h else h) (f hv).pubs).outs) ∧
    (step (c.on hv.id f).1 .drain).1.wo = c.wo := by
  have hpubs : c.hosts.flatMap (fun h => if h.id = hv.id then (f h).pubs else []) = (f hv).pubs :=
    flatMap_if_id c.hosts hnd hv hin _
  have houts : c.hosts.flatMap (fun h => if h.id = hv.id then (f h).outs else []) = (f hv).outs :=
    flatMap_if_id c.hosts hnd hv hin _
  have hr1 : (c.on hv.id f).1.hosts = c.hosts.map (fun h => if h.id = hv.id then (f h).h else h) := rfl
  have hr1c : (c.on hv.id f).1.chan = c.chan ++ (f hv).pubs := by
    show c.chan ++ c.hosts.flatMap (fun h => if h.id = hv.id then (f h).pubs else []) = _
    rw [hpubs]
  have hr2 : (c.on hv.id f).2 = (f hv).outs := houts
  have hr1a : (c.on hv.id f).1.asked = c.asked ++ askedIn (f hv).outs := by
    show c.asked ++ askedIn (c.hosts.flatMap (fun h => if h.id = hv.id then (f h).outs else [])) = _
    rw [houts]
  have hcur1 : ∀ h ∈ (c.on hv.id f).1.hosts, h.cursor = c.chan.length := by
    intro h hh
    rw [hr1] at hh
    obtain ⟨x, hx, rfl⟩ := List.mem_map.mp hh
    split
    · rw [hcur x hx]; exact hdr x hx
    · exact hdr x hx
  have hq1 : ∀ h ∈ (c.on hv.id f).1.hosts, (catchUp h (f hv).pubs).pubs = [] := by
    intro h hh
    rw [hr1] at hh
    obtain ⟨x, hx, rfl⟩ := List.mem_map.mp hh
    exact hq x hx
  have hdq := drainHosts_quiet c.chan (f hv).pubs (c.on hv.id f).1.hosts hcur1 hq1
  have hd : step (c.on hv.id f).1 .drain =
      ({ (c.on hv.id f).1 with
          hosts := (drainHosts (c.on hv.id f).1.chan (c.on hv.id f).1.hosts).1,
          chan := (drainHosts (c.on hv.id f).1.chan (c.on hv.id f).1.hosts).2.2,
          asked := (c.on hv.id f).1.asked ++
            askedIn (drainHosts (c.on hv.id f).1.chan (c.on hv.id f).1.hosts).2.1 },
        (drainHosts (c.on hv.id f).1.chan (c.on hv.id f).1.hosts).2.1) := rfl
  rw [hd, hr1c, hdq]
  refine ⟨?_, rfl, ?_, ?_, rfl⟩
  · show ((c.on hv.id f).1.hosts.map _) = _
    rw [hr1, List.map_map]
    rfl
  · show (c.on hv.id f).1.asked ++ askedIn ((c.on hv.id f).1.hosts.flatMap _) = _
    rw [hr1a, hr1, List.flatMap_map, askedIn_append, List.append_assoc]
  · show (c.on hv.id f).2 ++ ((c.on hv.id f).1.hosts.flatMap _) = _
    rw [hr2, hr1, List.flatMap_map]

/-! ### the link between the callback tables, for one key (a session id) -/

/-- One client `x` living on host `hid`.  `C o i` is the entry `callbacks[x][i]` of host `o`,
    `hctr` the counter `ack_counters[x]` of host `hid`; `Sx`, `sn` the same on the single server;
    `z` the ids the client has been asked to acknowledge, (cluster id, single-server id) in order.
    Every position is either spent on both sides, or the single server holds the user callback `t`
    and the cluster holds a relay on `hid` that points at a user entry `t` on the issuing host. -/
structure KL (C : HostId → Nat → Option Cb) (hctr : Nat) (Sx : Nat → Option Cb) (sn : Nat) (x : Sid)
    (hid : HostId) (z : List (Nat × Nat)) : Prop where
  cb : ∀ p ∈ z, p.1 ≤ hctr
  sb : ∀ p ∈ z, p.2 ≤ sn
  bij : ∀ p ∈ z, ∀ q ∈ z, (p.1 = q.1 ↔ p.2 = q.2)
  pair : ∀ p ∈ z, (Sx p.2 = none ∧ C hid p.1 = none) ∨
    ∃ t o n' id0, Sx p.2 = some (.user t) ∧ C hid p.1 = some (.relay (some o) x n' id0) ∧
      C o id0 = some (.user t)
  inj : ∀ p ∈ z, ∀ q ∈ z, ∀ o n1 n2 id0, C hid p.1 = some (.relay o x n1 id0) →
    C hid q.1 = some (.relay o x n2 id0) → p.1 = q.1

section kl
variable {C : HostId → Nat → Option Cb} {Sx : Nat → Option Cb} {sn : Nat} {x : Sid} {hid : HostId}
  {z : List (Nat × Nat)}

theorem KL.nil (C : HostId → Nat → Option Cb) (hctr : Nat) (Sx : Nat → Option Cb) (sn : Nat) (x : Sid)
    (hid : HostId) : KL C hctr Sx sn x hid [] :=
  ⟨fun _ h => (nomatch h), fun _ h => (nomatch h), fun _ h => (nomatch h), fun _ h => (nomatch h),
    fun _ h => (nomatch h)⟩

/-- `_generate_ack_id(x, cb)` on host `v` (any host, any entry): old positions are not disturbed -/
theorem KL.reg_host {N : HostId → Nat} (hk : KL C (N hid) Sx sn x hid z)
    (hb : ∀ o i, C o i ≠ none → i ≤ N o) (v : HostId) (cb : Cb) :
    KL (fun o i => if o = v ∧ i = N v + 1 then some cb else C o i)
      (if hid = v then N v + 1 else N hid) Sx sn x hid z := by
  have key : ∀ p ∈ z, (if hid = v ∧ p.1 = N v + 1 then some cb else C hid p.1) = C hid p.1 := by
    intro p hp
    have := hk.cb p hp
    split
    · rename_i h; obtain ⟨rfl, h2⟩ := h; omega
    · rfl
  refine ⟨?_, hk.sb, hk.bij, ?_, ?_⟩
  · intro p hp
    have := hk.cb p hp
    split
    · rename_i h; subst h; omega
    · exact this
  · intro p hp
    rcases hk.pair p hp with ⟨h1, h2⟩ | ⟨t, o, n', id0, h1, h2, h3⟩
    · exact Or.inl ⟨h1, by show (if _ then _ else _) = _; rw [key p hp]; exact h2⟩
    · refine Or.inr ⟨t, o, n', id0, h1, by show (if _ then _ else _) = _; rw [key p hp]; exact h2, ?_⟩
      have := hb o id0 (by rw [h3]; simp)
      show (if _ then _ else _) = _
      rw [if_neg]
      · exact h3
      · rintro ⟨rfl, h⟩; omega
  · intro p hp q hq o n1 n2 id0 e1 e2
    have e1' : (if hid = v ∧ p.1 = N v + 1 then some cb else C hid p.1) = _ := e1
    have e2' : (if hid = v ∧ q.1 = N v + 1 then some cb else C hid q.1) = _ := e2
    rw [key p hp] at e1'
    rw [key q hq] at e2'
    exact hk.inj p hp q hq o n1 n2 id0 e1' e2'

/-- the same on the single server -/
theorem KL.reg_single {hctr : Nat} (hk : KL C hctr Sx sn x hid z) (cb : Cb) :
    KL C hctr (fun i => if i = sn + 1 then some cb else Sx i) (sn + 1) x hid z := by
  have key : ∀ p ∈ z, (if p.2 = sn + 1 then some cb else Sx p.2) = Sx p.2 := by
    intro p hp
    have := hk.sb p hp
    rw [if_neg (by omega)]
  refine ⟨hk.cb, fun p hp => Nat.le_succ_of_le (hk.sb p hp), hk.bij, ?_, hk.inj⟩
  intro p hp
  rcases hk.pair p hp with ⟨h1, h2⟩ | ⟨t, o, n', id0, h1, h2, h3⟩
  · exact Or.inl ⟨by show (if _ then _ else _) = _; rw [key p hp]; exact h1, h2⟩
  · exact Or.inr ⟨t, o, n', id0, by show (if _ then _ else _) = _; rw [key p hp]; exact h1, h2, h3⟩

/-- a new position, linked, with ids above all earlier ones -/
theorem KL.snoc {hctr : Nat} (hk : KL C hctr Sx sn x hid z) (ic is : Nat) (hic : ic ≤ hctr) (his : is ≤ sn)
    (hlt1 : ∀ p ∈ z, p.1 < ic) (hlt2 : ∀ p ∈ z, p.2 < is) (t : Nat) (o : HostId) (n' : Ns) (id0 : Nat)
    (h1 : Sx is = some (.user t)) (h2 : C hid ic = some (.relay (some o) x n' id0))
    (h3 : C o id0 = some (.user t))
    (hnew : ∀ p ∈ z, ∀ n1, C hid p.1 ≠ some (.relay (some o) x n1 id0)) :
    KL C hctr Sx sn x hid (z ++ [(ic, is)]) := by
  have hm : ∀ p, p ∈ z ++ [(ic, is)] ↔ p ∈ z ∨ p = (ic, is) := by
    intro p; simp
  refine ⟨?_, ?_, ?_, ?_, ?_⟩
  · intro p hp
    rcases (hm p).mp hp with h | rfl
    · exact hk.cb p h
    · exact hic
  · intro p hp
    rcases (hm p).mp hp with h | rfl
    · exact hk.sb p h
    · exact his
  · intro p hp q hq
    rcases (hm p).mp hp with hp' | rfl <;> rcases (hm q).mp hq with hq' | rfl
    · exact hk.bij p hp' q hq'
    · have a := hlt1 p hp'; have b := hlt2 p hp'
      constructor <;> intro h <;> simp only at h <;> omega
    · have a := hlt1 q hq'; have b := hlt2 q hq'
      constructor <;> intro h <;> simp only at h <;> omega
    · exact ⟨fun _ => rfl, fun _ => rfl⟩
  · intro p hp
    rcases (hm p).mp hp with h | rfl
    · exact hk.pair p h
    · exact Or.inr ⟨t, o, n', id0, h1, h2, h3⟩
  · intro p hp q hq o' n1 n2 id0' e1 e2
    rcases (hm p).mp hp with hp' | rfl <;> rcases (hm q).mp hq with hq' | rfl
    · exact hk.inj p hp' q hq' o' n1 n2 id0' e1 e2
    · simp only at e2
      rw [h2] at e2
      cases e2
      exact absurd e1 (hnew p hp' n1)
    · simp only at e1
      rw [h2] at e1
      cases e1
      exact absurd e2 (hnew q hq' n2)
    · rfl

/-- the client acknowledges a linked position: relay, user entry and the single server's entry go -/
theorem KL.ack {hctr : Nat} (hk : KL C hctr Sx sn x hid z) (p : Nat × Nat) (hp : p ∈ z) (t : Nat)
    (o : HostId) (n' : Ns) (id0 : Nat)
    (h2 : C hid p.1 = some (.relay (some o) x n' id0)) (h3 : C o id0 = some (.user t)) :
    KL (fun o' i => if (o' = hid ∧ i = p.1) ∨ (o' = o ∧ i = id0) then none else C o' i) hctr
      (fun i => if i = p.2 then none else Sx i) sn x hid z := by
  refine ⟨hk.cb, hk.sb, hk.bij, ?_, ?_⟩
  · intro q hq
    by_cases hq1 : q.1 = p.1
    · have hq2 : q.2 = p.2 := (hk.bij q hq p hp).mp hq1
      exact Or.inl ⟨by simp [hq2], by simp [hq1]⟩
    · have hq2 : q.2 ≠ p.2 := fun h => hq1 ((hk.bij q hq p hp).mpr h)
      rcases hk.pair q hq with ⟨a1, a2⟩ | ⟨t', o', n'', id0', a1, a2, a3⟩
      · refine Or.inl ⟨by simp [hq2, a1], ?_⟩
        show (if _ then _ else _) = _
        split
        · rfl
        · exact a2
      · refine Or.inr ⟨t', o', n'', id0', by simp [hq2, a1], ?_, ?_⟩
        · show (if _ then _ else _) = _
          rw [if_neg]
          · exact a2
          · rintro (⟨_, h⟩ | ⟨h, h'⟩)
            · exact hq1 h
            · rw [h, h', h3] at a2; cases a2
        · show (if _ then _ else _) = _
          rw [if_neg]
          · exact a3
          · rintro (⟨h, h'⟩ | ⟨h, h'⟩)
            · rw [h, h', h2] at a3; cases a3
            · subst h h'
              exact hq1 (hk.inj q hq p hp _ _ _ _ a2 h2)
  · intro q hq r hr o' n1 n2 id0' e1 e2
    have e1' : (if _ then none else C hid q.1) = _ := e1
    have e2' : (if _ then none else C hid r.1) = _ := e2
    split at e1'
    · cases e1'
    · split at e2'
      · cases e2'
      · exact hk.inj q hq r hr o' n1 n2 id0' e1' e2'

end kl

/-! ### what the manager primitives do to the callback table of a host -/

/-- no entry above the counter of its key -/
def Host.Bounded (h : Host) : Prop := ∀ k i, h.cbs k i ≠ none → i ≤ h.ctr k

theorem register_cbs (h : Host) (k : Str) (cb : Cb) (k' : Str) (i : Nat) :
    (register h k cb).1.cbs k' i = if k' = k ∧ i = h.ctr k + 1 then some cb else h.cbs k' i := rfl

theorem register_ctr (h : Host) (k : Str) (cb : Cb) (k' : Str) :
    (register h k cb).1.ctr k' = if k' = k then h.ctr k + 1 else h.ctr k' := rfl

theorem register_bounded {h : Host} (hb : h.Bounded) (k : Str) (cb : Cb) : (register h k cb).1.Bounded := by
  intro k' i hne
  rw [register_cbs] at hne
  rw [register_ctr]
  split at hne
  · rename_i hc; obtain ⟨rfl, rfl⟩ := hc; simp
  · have := hb k' i hne
    split
    · rename_i hk; subst hk; omega
    · exact this

theorem delCb_bounded {h : Host} (hb : h.Bounded) (k : Str) (i : Nat) : (delCb h k i).Bounded := by
  intro k' j hne
  simp only [delCb] at hne ⊢
  split at hne
  · exact absurd rfl hne
  · exact hb k' j hne

theorem dropSid_bounded {h : Host} (hb : h.Bounded) (ns : Ns) (sid : Sid) : (dropSid h ns sid).Bounded := by
  intro k j hne
  simp only [dropSid] at hne ⊢
  split at hne
  · exact absurd rfl hne
  · rename_i hk
    rw [if_neg hk]
    exact hb k j hne

/-- the recipients of an emit to a personal room: nobody, or the owner -/
theorem recipients_personal {rooms : Rooms.St} (hinv : Inv rooms) (ns : Ns) (r : Room) (skip : List Sid)
    (hpers : ∀ e ∈ rooms, e.ns = ns → e.room = some r → e.sid = r) :
    recipients rooms ns (.one r) skip = [] ∨ ∃ eio, recipients rooms ns (.one r) skip = [(r, eio)] := by
  have hall : ∀ p ∈ recipients rooms ns (.one r) skip, p.1 = r := by
    intro p hp
    have hm : p ∈ roomMembers rooms ns (some r) := (List.mem_filter.mp hp).1
    have : (⟨ns, some r, p.1, p.2⟩ : Entry) ∈ rooms := mem_roomMembers.mp hm
    exact hpers _ this rfl rfl
  have hnd := recipients_fst_nodup hinv ns (.one r) skip
  generalize recipients rooms ns (.one r) skip = l at hall hnd
  match l, hall, hnd with
  | [], _, _ => exact Or.inl rfl
  | [p], hall, _ =>
    refine Or.inr ⟨p.2, ?_⟩
    have := hall p List.mem_cons_self
    rw [← this]
  | p :: q :: rest, hall, hnd =>
    have h1 := hall p List.mem_cons_self
    have h2 := hall q (List.mem_cons_of_mem _ List.mem_cons_self)
    simp only [List.map_cons, List.nodup_cons, List.mem_cons] at hnd
    exact absurd (Or.inl (h1.trans h2.symm)) hnd.1

/-- `Manager.emit` with a callback to a personal room on one host: nothing, or one id for the owner -/
theorem emitLocal_cb_personal (h : Host) (hinv : Inv h.rooms) (ns : Ns) (r : Room) (skip : List Sid)
    (ev : J) (args : List J) (cb : Cb)
    (hpers : ∀ e ∈ h.rooms, e.ns = ns → e.room = some r → e.sid = r) :
    (r ∉ (recipients h.rooms ns (.one r) skip).map Prod.fst ∧
      emitLocal h ns (.one r) skip ev args (some cb) = (h, [])) ∨
    (r ∈ (recipients h.rooms ns (.one r) skip).map Prod.fst ∧ ∃ eio,
      emitLocal h ns (.one r) skip ev args (some cb) =
        ((register h r cb).1, [.send h.id r eio ⟨ns, ev, args, some (h.ctr r + 1)⟩])) := by
  unfold emitLocal
  split
  · rename_i hn
    simp only [Bool.not_eq_true'] at hn
    left
    rw [recipients_nil_of_not_hasNs hn]
    exact ⟨by simp, rfl⟩
  · rcases recipients_personal hinv ns r skip hpers with he | ⟨eio, he⟩
    · left; rw [he]; exact ⟨by simp, rfl⟩
    · right; rw [he]; exact ⟨by simp, eio, rfl⟩

theorem emitLocal_none_host (h : Host) (ns : Ns) (t : Target) (skip : List Sid) (ev : J) (args : List J) :
    (emitLocal h ns t skip ev args none).1 = h ∧ cbEvents (emitLocal h ns t skip ev args none).2 = [] := by
  unfold emitLocal
  split
  · exact ⟨rfl, rfl⟩
  · refine ⟨rfl, ?_⟩
    simp only
    generalize recipients h.rooms ns t skip = l
    induction l with
    | nil => rfl
    | cons p ps ih => simp only [List.map_cons, cbEvents, ih]

/-! ### channel entries that leave the callback tables alone -/

/-- room bookkeeping, and emits without a callback -/
def Msg.plain : Msg → Prop
  | .enterRoom .. => True
  | .leaveRoom .. => True
  | .closeRoom .. => True
  | .emit _ _ _ _ to _ cb => cb = none ∧ Target.ok to
  | _ => False

theorem listenMsg_plain (h : Host) (m : Msg) (hm : m.plain) :
    (listenMsg h m).h.cbs = h.cbs ∧ (listenMsg h m).h.ctr = h.ctr ∧ (listenMsg h m).h.id = h.id ∧
    cbEvents (listenMsg h m).outs = [] ∧ (listenMsg h m).pubs = [] := by
  by_cases hown : m.origin = some h.id
  · have hcb : m.isCb = false := by cases m <;> first | rfl | exact absurd hm (by simp [Msg.plain])
    rw [listenMsg_own h m hcb hown]
    exact ⟨rfl, rfl, rfl, rfl, rfl⟩
  · cases m with
    | callback origin key ns id args => exact absurd hm (by simp [Msg.plain])
    | disconnect o sid ns => exact absurd hm (by simp [Msg.plain])
    | emit o ev d ns to skip cb =>
      obtain ⟨rfl, hok⟩ := hm
      have ho : o ≠ h.id := by simpa [Msg.origin] using hown
      have hd := dispatch_emit h o ev d ns to skip none ho hok
      rw [listenMsg_eq_dispatch (by rw [hd]), hd]
      have := emitLocal_none_host h ns to skip.toList (.str ev) d.pack
      refine ⟨?_, ?_, ?_, ?_, rfl⟩
      · show (emitLocal h ns to skip.toList (.str ev) d.pack none).1.cbs = _; rw [this.1]
      · show (emitLocal h ns to skip.toList (.str ev) d.pack none).1.ctr = _; rw [this.1]
      · show (emitLocal h ns to skip.toList (.str ev) d.pack none).1.id = _; rw [this.1]
      · exact this.2
    | enterRoom o sid ns room =>
      have ho : o ≠ h.id := by simpa [Msg.origin] using hown
      have hd := dispatch_enterRoom h o sid ns room ho
      have he : (dispatch h (Msg.enterRoom o sid ns room).toD).err = none := by rw [hd]; split <;> rfl
      rw [listenMsg_eq_dispatch he, hd]
      split <;> exact ⟨rfl, rfl, rfl, rfl, rfl⟩
    | leaveRoom o sid ns room =>
      have ho : o ≠ h.id := by simpa [Msg.origin] using hown
      have hd := dispatch_leaveRoom h o sid ns room ho
      have he : (dispatch h (Msg.leaveRoom o sid ns room).toD).err = none := by rw [hd]; split <;> rfl
      rw [listenMsg_eq_dispatch he, hd]
      split <;> exact ⟨rfl, rfl, rfl, rfl, rfl⟩
    | closeRoom o ns room =>
      have ho : o ≠ h.id := by simpa [Msg.origin] using hown
      have hd := dispatch_closeRoom h o ns room ho
      rw [listenMsg_eq_dispatch (by rw [hd]), hd]
      exact ⟨rfl, rfl, rfl, rfl, rfl⟩

/-- a published `disconnect`: `basic_disconnect` where the session lives, nothing elsewhere -/
theorem listenMsg_disconnect (h : Host) (o : HostId) (sid : Sid) (ns : Ns) :
    (listenMsg h (.disconnect o sid ns)).pubs = [] ∧ cbEvents (listenMsg h (.disconnect o sid ns)).outs = [] ∧
    (listenMsg h (.disconnect o sid ns)).h.id = h.id ∧
    ((listenMsg h (.disconnect o sid ns)).h = h ∨
      (o ≠ h.id ∧ h.connected ns sid = true ∧ (listenMsg h (.disconnect o sid ns)).h = dropSid h ns sid)) := by
  by_cases ho : o = h.id
  · rw [listenMsg_own h _ rfl (by simp [Msg.origin, ho])]
    exact ⟨rfl, rfl, rfl, Or.inl rfl⟩
  · have hd := dispatch_disconnect h o sid ns ho
    have he : (localDisconnect h sid ns).err = none := by unfold localDisconnect; split <;> rfl
    rw [listenMsg_eq_dispatch (by rw [hd]; exact he), hd]
    unfold localDisconnect
    cases hq : eioOf h.rooms ns sid with
    | none => exact ⟨rfl, rfl, rfl, Or.inl rfl⟩
    | some eio => exact ⟨rfl, rfl, rfl, Or.inr ⟨ho, by simp [Host.connected, hq], rfl⟩⟩

end Sio.PubSub
