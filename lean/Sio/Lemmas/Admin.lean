/-
  Helper lemmas for K10 (admin instrumentation): the algebra of `pyEq`, the registry overlay and
  the frame lemmas over the server model that C18 needs.
-/
import Sio.Model.Admin
namespace Sio.Admin
open Sio.Rooms (Ns Sid Eio)

/-! ### `lookup` -/

def keys (kvs : List (Str × J)) : List Str := kvs.map (·.1)

theorem lookup_some_mem {k : Str} {w : J} : ∀ {b : List (Str × J)}, lookup k b = some w → (k, w) ∈ b
  | [], h => by simp [lookup] at h
  | (k', v) :: rest, h => by
    simp only [lookup] at h
    split at h
    · next hk => simp at h; subst hk; subst h; simp
    · exact List.mem_cons_of_mem _ (lookup_some_mem h)

theorem lookup_isSome_iff {k : Str} : ∀ {b : List (Str × J)}, (lookup k b).isSome = true ↔ k ∈ keys b
  | [] => by simp [lookup, keys]
  | (k', v) :: rest => by
    simp only [lookup, keys, List.map_cons, List.mem_cons]
    split
    · next hk => simp [hk]
    · next hk =>
      have ih := lookup_isSome_iff (k := k) (b := rest)
      simp only [keys] at ih
      rw [ih]
      constructor
      · intro h; exact Or.inr h
      · rintro (h | h)
        · exact absurd h.symm hk
        · exact h

theorem lookup_of_mem_nodup {k : Str} {v : J} :
    ∀ {b : List (Str × J)}, (keys b).Nodup → (k, v) ∈ b → lookup k b = some v
  | [], _, h => by simp at h
  | (k', v') :: rest, nd, h => by
    simp only [keys, List.map_cons, List.nodup_cons] at nd
    simp only [lookup]
    rcases List.mem_cons.mp h with h | h
    · cases h; simp
    · split
      · next hk =>
        subst hk
        exact absurd (List.mem_map_of_mem (f := (·.1)) h) nd.1
      · exact lookup_of_mem_nodup (by simpa [keys] using nd.2) h

/-! ### pigeonhole on duplicate-free lists -/

theorem nodup_subset_length {α : Type} [DecidableEq α] :
    ∀ (xs ys : List α), xs.Nodup → (∀ x ∈ xs, x ∈ ys) → xs.length ≤ ys.length
  | [], _, _, _ => by simp
  | x :: xs, ys, nd, sub => by
    have hx : x ∈ ys := sub x (by simp)
    have nd' := (List.nodup_cons.mp nd)
    have sub' : ∀ z ∈ xs, z ∈ ys.erase x := by
      intro z hz
      have hne : z ≠ x := fun h => nd'.1 (h ▸ hz)
      exact (List.mem_erase_of_ne hne).mpr (sub z (List.mem_cons_of_mem _ hz))
    have ih := nodup_subset_length xs (ys.erase x) nd'.2 sub'
    have hl := List.length_erase_of_mem hx
    have hpos : 0 < ys.length := List.length_pos_of_mem hx
    simp only [List.length_cons]
    omega

theorem nodup_subset_surj {α : Type} [DecidableEq α] :
    ∀ (xs ys : List α), xs.Nodup → (∀ x ∈ xs, x ∈ ys) → ys.length ≤ xs.length → ∀ y ∈ ys, y ∈ xs
  | [], ys, _, _, hl, y, hy => by
    have : ys = [] := List.eq_nil_of_length_eq_zero (by simpa using hl)
    subst this; simp at hy
  | x :: xs, ys, nd, sub, hl, y, hy => by
    have hx : x ∈ ys := sub x (by simp)
    have nd' := (List.nodup_cons.mp nd)
    have sub' : ∀ z ∈ xs, z ∈ ys.erase x := by
      intro z hz
      have hne : z ≠ x := fun h => nd'.1 (h ▸ hz)
      exact (List.mem_erase_of_ne hne).mpr (sub z (List.mem_cons_of_mem _ hz))
    have hlen := List.length_erase_of_mem hx
    have hpos : 0 < ys.length := List.length_pos_of_mem hx
    have hl' : (ys.erase x).length ≤ xs.length := by
      simp only [List.length_cons] at hl; omega
    by_cases hyx : y = x
    · subst hyx; simp
    · have : y ∈ ys.erase x := (List.mem_erase_of_ne hyx).mpr hy
      exact List.mem_cons_of_mem _ (nodup_subset_surj xs (ys.erase x) nd'.2 sub' hl' y this)

/-! ### `pyEqO`, `pyEqL` as statements -/

theorem pyEqO_iff (b : List (Str × J)) : ∀ (a : List (Str × J)),
    pyEqO a b = true ↔ ∀ p ∈ a, ∃ w, lookup p.1 b = some w ∧ pyEq p.2 w = true
  | [] => by simp [pyEqO]
  | (k, v) :: rest => by
    simp only [pyEqO, Bool.and_eq_true, List.mem_cons, forall_eq_or_imp, pyEqO_iff b rest]
    constructor
    · rintro ⟨h1, h2⟩
      refine ⟨?_, h2⟩
      cases hl : lookup k b with
      | none => simp [hl] at h1
      | some w => exact ⟨w, rfl, by simpa [hl] using h1⟩
    · rintro ⟨⟨w, hl, hw⟩, h2⟩
      exact ⟨by simp [hl, hw], h2⟩

/-- Every key of the left dict is a key of the right one. -/
theorem pyEqO_keys_subset {a b : List (Str × J)} (h : pyEqO a b = true) :
    ∀ k ∈ keys a, k ∈ keys b := by
  intro k hk
  simp only [keys, List.mem_map] at hk
  obtain ⟨p, hp, rfl⟩ := hk
  obtain ⟨w, hl, _⟩ := (pyEqO_iff b a).mp h p hp
  exact lookup_isSome_iff.mp (by simp [hl])

theorem pyEq_obj_obj (a b : List (Str × J)) :
    pyEq (.obj a) (.obj b) = (a.length == b.length && pyEqO a b) := by
  simp [pyEq]

theorem pyEq_arr_arr (a b : List J) : pyEq (.arr a) (.arr b) = pyEqL a b := by
  simp [pyEq]

/-- A dict is `==` only to dicts. -/
theorem pyEq_obj_left {a : List (Str × J)} {b : J} (h : pyEq (.obj a) b = true) :
    ∃ b', b = .obj b' := by
  cases b <;> simp [pyEq] at h
  exact ⟨_, rfl⟩

theorem pyEq_obj_right {a : J} {b : List (Str × J)} (h : pyEq a (.obj b) = true) :
    ∃ a', a = .obj a' := by
  cases a <;> simp [pyEq, scalarEq] at h
  exact ⟨_, rfl⟩

theorem pyEq_arr_right {a : J} {b : List J} (h : pyEq a (.arr b) = true) :
    ∃ a', a = .arr a' := by
  cases a <;> simp [pyEq, scalarEq] at h
  exact ⟨_, rfl⟩

/-! ### symmetry of the scalar layer -/

theorem fltEq_comm (a b : Str) : fltEq a b = fltEq b a := by
  by_cases h : a = b
  · subst h; rfl
  · have h' : ¬ b = a := fun e => h e.symm
    simp only [fltEq, Bool.or_comm (isNan a), Bool.and_comm (isZeroLit a)]
    split
    · rfl
    · split
      · rfl
      · exact BEq.comm

theorem scalarEq_comm (a b : J) : scalarEq a b = scalarEq b a := by
  cases a <;> cases b <;> simp only [scalarEq] <;>
    first
    | rfl
    | exact BEq.comm
    | exact fltEq_comm _ _

/-- left operand not a container: `pyEq` is `scalarEq` -/
theorem pyEq_scalar_left {a : J} (ha : ∀ xs, a ≠ .arr xs) (ho : ∀ kvs, a ≠ .obj kvs) (b : J) :
    pyEq a b = scalarEq a b := by
  cases a with
  | arr xs => exact absurd rfl (ha xs)
  | obj kvs => exact absurd rfl (ho kvs)
  | null => simp [pyEq]
  | bool x => simp [pyEq]
  | int x => simp [pyEq]
  | flt x => simp [pyEq]
  | str x => simp [pyEq]
  | bin x => simp [pyEq]

theorem scalarEq_arr_right (a : J) (b : List J) : scalarEq a (.arr b) = false := by
  cases a <;> simp [scalarEq]

theorem scalarEq_obj_right (a : J) (b : List (Str × J)) : scalarEq a (.obj b) = false := by
  cases a <;> simp [scalarEq]

theorem scalarEq_arr_left (a : List J) (b : J) : scalarEq (.arr a) b = false := by
  cases b <;> simp [scalarEq]

theorem scalarEq_obj_left (a : List (Str × J)) (b : J) : scalarEq (.obj a) b = false := by
  cases b <;> simp [scalarEq]

end Sio.Admin
