/-
  Helper lemmas for K10 (admin instrumentation): the algebra of `pyEq`, the registry overlay and
  the frame lemmas over the server model that C18 needs.
-/
import Sio.Model.Admin
import Sio.Lemmas.Rooms
namespace Sio.Admin
open Sio.Rooms (Ns Sid Eio)

/-! ### `lookup` -/

def keys (kvs : List (Str × J)) : List Str := kvs.map (·.1)

theorem lookup_some_mem {k : Str} {w : J} : ∀ {b : List (Str × J)}, lookup k b = some w → (k, w) ∈ b
  | [], h => by simp [lookup] at h
  | (k', v) :: rest, h => by
    simp only [lookup] at h
    split at h
    · next hk => simp at h; subst hk; subst h; simp
    · exact List.mem_cons_of_mem _ (lookup_some_mem h)

theorem lookup_isSome_iff {k : Str} : ∀ {b : List (Str × J)}, (lookup k b).isSome = true ↔ k ∈ keys b
  | [] => by simp [lookup, keys]
  | (k', v) :: rest => by
    simp only [lookup, keys, List.map_cons, List.mem_cons]
    split
    · next hk => simp [hk]
    · next hk =>
      have ih := lookup_isSome_iff (k := k) (b := rest)
      simp only [keys] at ih
      rw [ih]
      constructor
      · intro h; exact Or.inr h
      · rintro (h | h)
        · exact absurd h.symm hk
        · exact h

theorem lookup_of_mem_nodup {k : Str} {v : J} :
    ∀ {b : List (Str × J)}, (keys b).Nodup → (k, v) ∈ b → lookup k b = some v
  | [], _, h => by simp at h
  | (k', v') :: rest, nd, h => by
    simp only [keys, List.map_cons, List.nodup_cons] at nd
    simp only [lookup]
    rcases List.mem_cons.mp h with h | h
    · cases h; simp
    · split
      · next hk =>
        subst hk
        exact absurd (List.mem_map_of_mem (f := (·.1)) h) nd.1
      · exact lookup_of_mem_nodup (by simpa [keys] using nd.2) h

/-! ### pigeonhole on duplicate-free lists -/

theorem nodup_subset_length {α : Type} [DecidableEq α] :
    ∀ (xs ys : List α), xs.Nodup → (∀ x ∈ xs, x ∈ ys) → xs.length ≤ ys.length
  | [], _, _, _ => by simp
  | x :: xs, ys, nd, sub => by
    have hx : x ∈ ys := sub x (by simp)
    have nd' := (List.nodup_cons.mp nd)
    have sub' : ∀ z ∈ xs, z ∈ ys.erase x := by
      intro z hz
      have hne : z ≠ x := fun h => nd'.1 (h ▸ hz)
      exact (List.mem_erase_of_ne hne).mpr (sub z (List.mem_cons_of_mem _ hz))
    have ih := nodup_subset_length xs (ys.erase x) nd'.2 sub'
    have hl := List.length_erase_of_mem hx
    have hpos : 0 < ys.length := List.length_pos_of_mem hx
    simp only [List.length_cons]
    omega

theorem nodup_subset_surj {α : Type} [DecidableEq α] :
    ∀ (xs ys : List α), xs.Nodup → (∀ x ∈ xs, x ∈ ys) → ys.length ≤ xs.length → ∀ y ∈ ys, y ∈ xs
  | [], ys, _, _, hl, y, hy => by
    have : ys = [] := List.eq_nil_of_length_eq_zero (by simpa using hl)
    subst this; simp at hy
  | x :: xs, ys, nd, sub, hl, y, hy => by
    have hx : x ∈ ys := sub x (by simp)
    have nd' := (List.nodup_cons.mp nd)
    have sub' : ∀ z ∈ xs, z ∈ ys.erase x := by
      intro z hz
      have hne : z ≠ x := fun h => nd'.1 (h ▸ hz)
      exact (List.mem_erase_of_ne hne).mpr (sub z (List.mem_cons_of_mem _ hz))
    have hlen := List.length_erase_of_mem hx
    have hpos : 0 < ys.length := List.length_pos_of_mem hx
    have hl' : (ys.erase x).length ≤ xs.length := by
      simp only [List.length_cons] at hl; omega
    by_cases hyx : y = x
    · subst hyx; simp
    · have : y ∈ ys.erase x := (List.mem_erase_of_ne hyx).mpr hy
      exact List.mem_cons_of_mem _ (nodup_subset_surj xs (ys.erase x) nd'.2 sub' hl' y this)

/-! ### `pyEqO`, `pyEqL` as statements -/

theorem pyEqO_iff (b : List (Str × J)) : ∀ (a : List (Str × J)),
    pyEqO a b = true ↔ ∀ p ∈ a, ∃ w, lookup p.1 b = some w ∧ pyEq p.2 w = true
  | [] => by simp [pyEqO]
  | (k, v) :: rest => by
    simp only [pyEqO, Bool.and_eq_true, List.mem_cons, forall_eq_or_imp, pyEqO_iff b rest]
    constructor
    · rintro ⟨h1, h2⟩
      refine ⟨?_, h2⟩
      cases hl : lookup k b with
      | none => simp [hl] at h1
      | some w => exact ⟨w, rfl, by simpa [hl] using h1⟩
    · rintro ⟨⟨w, hl, hw⟩, h2⟩
      exact ⟨by simp [hl, hw], h2⟩

/-- Every key of the left dict is a key of the right one. -/
theorem pyEqO_keys_subset {a b : List (Str × J)} (h : pyEqO a b = true) :
    ∀ k ∈ keys a, k ∈ keys b := by
  intro k hk
  simp only [keys, List.mem_map] at hk
  obtain ⟨p, hp, rfl⟩ := hk
  obtain ⟨w, hl, _⟩ := (pyEqO_iff b a).mp h p hp
  exact lookup_isSome_iff.mp (by simp [hl])

theorem pyEq_obj_obj (a b : List (Str × J)) :
    pyEq (.obj a) (.obj b) = (a.length == b.length && pyEqO a b) := by
  simp [pyEq]

theorem pyEq_arr_arr (a b : List J) : pyEq (.arr a) (.arr b) = pyEqL a b := by
  simp [pyEq]

/-- A dict is `==` only to dicts. -/
theorem pyEq_obj_left {a : List (Str × J)} {b : J} (h : pyEq (.obj a) b = true) :
    ∃ b', b = .obj b' := by
  cases b <;> simp [pyEq] at h
  exact ⟨_, rfl⟩

theorem pyEq_obj_right {a : J} {b : List (Str × J)} (h : pyEq a (.obj b) = true) :
    ∃ a', a = .obj a' := by
  cases a <;> simp [pyEq, scalarEq] at h
  exact ⟨_, rfl⟩

theorem pyEq_arr_right {a : J} {b : List J} (h : pyEq a (.arr b) = true) :
    ∃ a', a = .arr a' := by
  cases a <;> simp [pyEq, scalarEq] at h
  exact ⟨_, rfl⟩

/-! ### symmetry of the scalar layer -/

theorem fltEq_comm (a b : Str) : fltEq a b = fltEq b a := by
  by_cases h : a = b
  · subst h; rfl
  · have h' : ¬ b = a := fun e => h e.symm
    simp only [fltEq, Bool.or_comm (isNan a), Bool.and_comm (isZeroLit a)]
    split
    · rfl
    · split
      · rfl
      · exact BEq.comm

theorem scalarEq_comm (a b : J) : scalarEq a b = scalarEq b a := by
  cases a <;> cases b <;> simp only [scalarEq] <;>
    first
    | rfl
    | exact BEq.comm
    | exact fltEq_comm _ _

/-- left operand not a container: `pyEq` is `scalarEq` -/
theorem pyEq_scalar_left {a : J} (ha : ∀ xs, a ≠ .arr xs) (ho : ∀ kvs, a ≠ .obj kvs) (b : J) :
    pyEq a b = scalarEq a b := by
  cases a with
  | arr xs => exact absurd rfl (ha xs)
  | obj kvs => exact absurd rfl (ho kvs)
  | null => simp [pyEq]
  | bool x => simp [pyEq]
  | int x => simp [pyEq]
  | flt x => simp [pyEq]
  | str x => simp [pyEq]
  | bin x => simp [pyEq]

theorem scalarEq_arr_right (a : J) (b : List J) : scalarEq a (.arr b) = false := by
  cases a <;> simp [scalarEq]

theorem scalarEq_obj_right (a : J) (b : List (Str × J)) : scalarEq a (.obj b) = false := by
  cases a <;> simp [scalarEq]

theorem scalarEq_arr_left (a : List J) (b : J) : scalarEq (.arr a) b = false := by
  cases b <;> simp [scalarEq]

theorem scalarEq_obj_left (a : List (Str × J)) (b : J) : scalarEq (.obj a) b = false := by
  cases b <;> simp [scalarEq]

/-! ### the value domain: JSON-shaped values (unique dict keys, no NaN) -/

/-- What `json.loads` produces and what a credentials dict is made of: every dict has pairwise
    distinct keys (a Python dict cannot have anything else; the association-list representation
    can) and no float is NaN (`nan != nan`, the one JSON-decodable value on which `==` is not
    reflexive). -/
inductive Dom : J → Prop
  | null : Dom .null
  | bool (b : Bool) : Dom (.bool b)
  | int (i : Int) : Dom (.int i)
  | flt (l : Str) (h : isNan l = false) : Dom (.flt l)
  | str (s : Str) : Dom (.str s)
  | bin (b : Bytes) : Dom (.bin b)
  | arr (xs : List J) (h : ∀ x ∈ xs, Dom x) : Dom (.arr xs)
  | obj (kvs : List (Str × J)) (nd : (keys kvs).Nodup) (h : ∀ p ∈ kvs, Dom p.2) : Dom (.obj kvs)

theorem Dom.arr_inv {xs : List J} (h : Dom (.arr xs)) : ∀ x ∈ xs, Dom x := by
  cases h; assumption

theorem Dom.obj_nodup {kvs : List (Str × J)} (h : Dom (.obj kvs)) : (keys kvs).Nodup := by
  cases h; assumption

theorem Dom.obj_inv {kvs : List (Str × J)} (h : Dom (.obj kvs)) : ∀ p ∈ kvs, Dom p.2 := by
  cases h; assumption

theorem Dom.flt_inv {l : Str} (h : Dom (.flt l)) : isNan l = false := by
  cases h; assumption

/-! ### reflexivity -/

mutual
  theorem pyEq_refl : ∀ (a : J), Dom a → pyEq a a = true
    | .null, _ => by simp [pyEq, scalarEq]
    | .bool _, _ => by simp [pyEq, scalarEq]
    | .int _, _ => by simp [pyEq, scalarEq]
    | .str _, _ => by simp [pyEq, scalarEq]
    | .bin _, _ => by simp [pyEq, scalarEq]
    | .flt l, h => by simp [pyEq, scalarEq, fltEq, h.flt_inv]
    | .arr xs, h => by rw [pyEq_arr_arr]; exact pyEqL_refl xs h.arr_inv
    | .obj kvs, h => by
      rw [pyEq_obj_obj]
      have := pyEqO_refl kvs kvs (fun p hp => lookup_of_mem_nodup h.obj_nodup hp) h.obj_inv
      simp [this]
  theorem pyEqL_refl : ∀ (xs : List J), (∀ x ∈ xs, Dom x) → pyEqL xs xs = true
    | [], _ => by simp [pyEqL]
    | x :: xs, h => by
      simp [pyEqL, pyEq_refl x (h x (by simp)), pyEqL_refl xs (fun y hy => h y (by simp [hy]))]
  theorem pyEqO_refl : ∀ (rest b : List (Str × J)), (∀ p ∈ rest, lookup p.1 b = some p.2) →
      (∀ p ∈ rest, Dom p.2) → pyEqO rest b = true
    | [], _, _, _ => by simp [pyEqO]
    | (k, v) :: rest, b, hl, hd => by
      have h1 : lookup k b = some v := hl (k, v) (by simp)
      simp [pyEqO, h1, pyEq_refl v (hd (k, v) (by simp)),
        pyEqO_refl rest b (fun p hp => hl p (by simp [hp])) (fun p hp => hd p (by simp [hp]))]
end

/-! ### symmetry -/

/-- one direction of dict symmetry, from symmetry on the values -/
theorem pyEqO_flip {a b : List (Str × J)} (nda : (keys a).Nodup) (ndb : (keys b).Nodup)
    (hl : a.length = b.length)
    (sym : ∀ p ∈ a, ∀ q ∈ b, pyEq p.2 q.2 = true → pyEq q.2 p.2 = true)
    (h : pyEqO a b = true) : pyEqO b a = true := by
  rw [pyEqO_iff]
  intro q hq
  have hsub := pyEqO_keys_subset h
  have hlen : (keys b).length ≤ (keys a).length := by simp [keys, hl]
  have hk : q.1 ∈ keys a :=
    nodup_subset_surj (keys a) (keys b) nda hsub hlen q.1 (List.mem_map_of_mem (f := (·.1)) hq)
  have hs := lookup_isSome_iff.mpr hk
  cases hv : lookup q.1 a with
  | none => simp [hv] at hs
  | some v =>
    refine ⟨v, rfl, ?_⟩
    have hmem : (q.1, v) ∈ a := lookup_some_mem hv
    obtain ⟨w, hw, hvw⟩ := (pyEqO_iff b a).mp h (q.1, v) hmem
    have : lookup q.1 b = some q.2 := lookup_of_mem_nodup ndb (by simpa using hq)
    simp only [this, Option.some.injEq] at hw
    subst hw
    exact sym (q.1, v) hmem q hq hvw

mutual
  theorem pyEq_symm : ∀ (a b : J), Dom a → Dom b → pyEq a b = pyEq b a
    | .arr xs, b, ha, hb => by
      cases b with
      | arr ys => rw [pyEq_arr_arr, pyEq_arr_arr]; exact pyEqL_symm xs ys ha.arr_inv hb.arr_inv
      | obj kvs => simp [pyEq]
      | null => simp [pyEq, scalarEq]
      | bool _ => simp [pyEq, scalarEq]
      | int _ => simp [pyEq, scalarEq]
      | flt _ => simp [pyEq, scalarEq]
      | str _ => simp [pyEq, scalarEq]
      | bin _ => simp [pyEq, scalarEq]
    | .obj kvs, b, ha, hb => by
      cases b with
      | obj kvs' =>
        rw [pyEq_obj_obj, pyEq_obj_obj]
        by_cases hl : kvs.length = kvs'.length
        · have ih := pyEqO_symm kvs
          have e : pyEqO kvs kvs' = pyEqO kvs' kvs := by
            apply Bool.eq_iff_iff.mpr
            constructor
            · exact pyEqO_flip ha.obj_nodup hb.obj_nodup hl
                (fun p hp q hq hpq => by
                  rw [← ih p hp q.2 (ha.obj_inv p hp) (hb.obj_inv q hq)]; exact hpq)
            · exact pyEqO_flip hb.obj_nodup ha.obj_nodup hl.symm
                (fun q hq p hp hqp => by
                  rw [ih p hp q.2 (ha.obj_inv p hp) (hb.obj_inv q hq)]; exact hqp)
          simp [hl, e]
        · have hl' : ¬ kvs'.length = kvs.length := fun e => hl e.symm
          have b1 : (kvs.length == kvs'.length) = false := beq_eq_false_iff_ne.mpr hl
          have b2 : (kvs'.length == kvs.length) = false := beq_eq_false_iff_ne.mpr hl'
          rw [b1, b2]; rfl
      | arr ys => simp [pyEq]
      | null => simp [pyEq, scalarEq]
      | bool _ => simp [pyEq, scalarEq]
      | int _ => simp [pyEq, scalarEq]
      | flt _ => simp [pyEq, scalarEq]
      | str _ => simp [pyEq, scalarEq]
      | bin _ => simp [pyEq, scalarEq]
    | .null, b, _, _ => by
      cases b <;> simp [pyEq, scalarEq]
    | .bool x, b, _, _ => by
      cases b <;> simp [pyEq, scalarEq_comm (.bool x)] <;> simp [scalarEq]
    | .int x, b, _, _ => by
      cases b <;> simp [pyEq, scalarEq_comm (.int x)] <;> simp [scalarEq]
    | .flt x, b, _, _ => by
      cases b <;> simp [pyEq, scalarEq_comm (.flt x)] <;> simp [scalarEq]
    | .str x, b, _, _ => by
      cases b <;> simp [pyEq, scalarEq_comm (.str x)] <;> simp [scalarEq]
    | .bin x, b, _, _ => by
      cases b <;> simp [pyEq, scalarEq_comm (.bin x)] <;> simp [scalarEq]
  theorem pyEqL_symm : ∀ (xs ys : List J), (∀ x ∈ xs, Dom x) → (∀ y ∈ ys, Dom y) →
      pyEqL xs ys = pyEqL ys xs
    | [], [], _, _ => rfl
    | [], _ :: _, _, _ => by simp [pyEqL]
    | _ :: _, [], _, _ => by simp [pyEqL]
    | x :: xs, y :: ys, hx, hy => by
      simp only [pyEqL]
      rw [pyEq_symm x y (hx x (by simp)) (hy y (by simp)),
        pyEqL_symm xs ys (fun z hz => hx z (by simp [hz])) (fun z hz => hy z (by simp [hz]))]
  theorem pyEqO_symm : ∀ (kvs : List (Str × J)) (p : Str × J), p ∈ kvs → ∀ (w : J),
      Dom p.2 → Dom w → pyEq p.2 w = pyEq w p.2
    | [], _, hp, _, _, _ => by simp at hp
    | (k, v) :: rest, p, hp, w, h1, h2 => by
      rcases List.mem_cons.mp hp with e | hp'
      · subst e; exact pyEq_symm v w h1 h2
      · exact pyEqO_symm rest p hp' w h1 h2
end

open Sio.Server

/-- The application registered nothing on the admin namespace and no catch-all *namespace*
    (`'*'`) handlers. -/
structure AppClear (app : Registry) (adminNs : Ns) : Prop where
  fnNs : app.fnNs adminNs = false
  fn : ∀ e, app.fn adminNs e = false
  cls : app.cls adminNs = false
  starFn : app.fnNs star = false
  starCls : app.cls star = false

theorem registered_ro {mode : Str} {ro : Bool} (h : ro = true ∨ isDev mode = false) :
    registered mode ro = ["connect".toList] := by
  rcases h with h | h <;> simp [registered, h]

theorem resolve_ro_notHandled {app : Registry} {adminNs : Ns} {mode : Str} {ro : Bool}
    (hro : ro = true ∨ isDev mode = false) (hc : AppClear app adminNs) (hns : adminNs ≠ star)
    {ev : Str} (hev : ev ≠ "connect".toList) (args : List J) :
    resolve (instrumentReg app adminNs mode ro) adminNs (.str ev) args = .ok .notHandled := by
  have hstar : (star == adminNs) = false := by
    apply beq_eq_false_iff_ne.mpr; exact fun e => hns e.symm
  have hsc : ¬ star = ['c', 'o', 'n', 'n', 'e', 'c', 't'] := by decide
  have hev' : ¬ ev = ['c', 'o', 'n', 'n', 'e', 'c', 't'] := hev
  simp [resolve, instrumentReg, registered_ro hro, hashable, inDict, evStr, hc.fn, hc.starFn,
    hc.cls, hc.starCls, hev', hstar, hsc]

section frame
variable {app : Registry} {adminNs : Ns} {mode : Str} {ro : Bool} {cfg : Cfg}

theorem runHandler_ro (hreg : cfg.reg = instrumentReg app adminNs mode ro)
    (hro : ro = true ∨ isDev mode = false) (hc : AppClear app adminNs) (hns : adminNs ≠ star)
    {ev : Str} (hev : ev ≠ "connect".toList) (s : Srv) (b : Bg) (hb : b.ns = adminNs)
    (hf : b.first = .str ev) : runHandler cfg s b = (s, []) := by
  simp [runHandler, hreg, hb, hf, resolve_ro_notHandled hro hc hns hev]

theorem handleEvent_ro_sync (hreg : cfg.reg = instrumentReg app adminNs mode ro)
    (hro : ro = true ∨ isDev mode = false) (hc : AppClear app adminNs) (hns : adminNs ≠ star)
    {ev : Str} (hev : ev ≠ "connect".toList) (hsync : cfg.asyncHandlers = false)
    (s : Srv) (t : Eio) (id : Option Nat) {data : Option J} {rest : List J}
    (hd : splitEvent data = .ok (.str ev, rest)) :
    handleEvent cfg s t (some adminNs) id data = (s, []) := by
  simp only [handleEvent, hd, Option.getD_some]
  split
  · rfl
  · split
    · rfl
    · simp only [hsync, Bool.false_eq_true, if_false]
      exact runHandler_ro hreg hro hc hns hev s _ rfl rfl

theorem handleEvent_ro_async (hasync : cfg.asyncHandlers = true)
    (s : Srv) (t : Eio) (id : Option Nat) {data : Option J} {ev : Str} {rest : List J}
    (hd : splitEvent data = .ok (.str ev, rest)) :
    handleEvent cfg s t (some adminNs) id data = (s, []) ∨
    ∃ sid, handleEvent cfg s t (some adminNs) id data =
      ({ s with bg := s.bg ++ [⟨sid, t, .str ev, rest, adminNs, id⟩] }, []) := by
  simp only [handleEvent, hd, Option.getD_some]
  split
  · exact Or.inl rfl
  · next sid _ =>
    split
    · exact Or.inl rfl
    · exact Or.inr ⟨sid, rfl⟩

/-- The same through `Sio.Server.step`: an EVENT frame on the admin namespace. -/
theorem step_frame_ro_sync (dec : Str → Except Err (Packet × Nat))
    (hreg : cfg.reg = instrumentReg app adminNs mode ro)
    (hro : ro = true ∨ isDev mode = false) (hc : AppClear app adminNs) (hns : adminNs ≠ star)
    {ev : Str} (hev : ev ≠ "connect".toList) (hsync : cfg.asyncHandlers = false)
    (s : Srv) (t : Eio) (c : Char) (cs : Str) {p : Packet} {n : Nat} {rest : List J}
    (hbuf : s.binbuf.find? (fun e => e.1 = t) = none)
    (hdec : dec (c :: cs) = .ok (p, n)) (hty : p.type = EVENT) (hnsp : p.nsp = some adminNs)
    (hd : splitEvent p.data = .ok (.str ev, rest)) :
    step dec cfg s (.frame t (.str (c :: cs))) = (s, []) := by
  have hne : ¬ EVENT = CONNECT := by decide
  have hne2 : ¬ EVENT = DISCONNECT := by decide
  simp only [step, handleFrame, hbuf, hdec, dispatchPacket, hty, hne, hne2, if_false, if_true, hnsp]
  exact handleEvent_ro_sync hreg hro hc hns hev hsync s t p.id hd

/-- `async_handlers=True`: the frame only queues the handler; at `settle` it turns out to be
    nobody's.  State and outputs of the two steps together: nothing. -/
theorem run_frame_settle_ro_async (dec : Str → Except Err (Packet × Nat))
    (hreg : cfg.reg = instrumentReg app adminNs mode ro)
    (hro : ro = true ∨ isDev mode = false) (hc : AppClear app adminNs) (hns : adminNs ≠ star)
    {ev : Str} (hev : ev ≠ "connect".toList) (hasync : cfg.asyncHandlers = true)
    (s : Srv) (hbg : s.bg = []) (t : Eio) (c : Char) (cs : Str) {p : Packet} {n : Nat}
    {rest : List J}
    (hbuf : s.binbuf.find? (fun e => e.1 = t) = none)
    (hdec : dec (c :: cs) = .ok (p, n)) (hty : p.type = EVENT) (hnsp : p.nsp = some adminNs)
    (hd : splitEvent p.data = .ok (.str ev, rest)) :
    run dec cfg s [.frame t (.str (c :: cs)), .settle] = (s, []) := by
  have hne : ¬ EVENT = CONNECT := by decide
  have hne2 : ¬ EVENT = DISCONNECT := by decide
  have hs0 : { s with bg := [] } = s := by cases s; simp_all
  have hframe : step dec cfg s (.frame t (.str (c :: cs))) =
      handleEvent cfg s t (some adminNs) p.id p.data := by
    simp only [step, handleFrame, hbuf, hdec, dispatchPacket, hty, hne, hne2, if_false, if_true, hnsp]
  have hrun : ∀ a b, run dec cfg s [a, b] =
      ((step dec cfg (step dec cfg s a).1 b).1,
       (step dec cfg s a).2 ++ ((step dec cfg (step dec cfg s a).1 b).2 ++ [])) := by
    intro a b; simp only [run]
  rw [hrun, hframe]
  rcases handleEvent_ro_async (adminNs := adminNs) hasync s t p.id hd with h | ⟨sid, h⟩
  · rw [h]
    simp only [step, hbg, step.drain, hs0, List.append_nil]
  · rw [h]
    simp only [step, hbg, List.nil_append, step.drain, hs0, List.append_nil]
    rw [runHandler_ro hreg hro hc hns hev s _ rfl rfl]
end frame

/-! ### the connect handler on the admin namespace -/

theorem resolve_connect (app : Registry) {adminNs : Ns} (hadm : adminNs ≠ star) (mode : Str)
    (ro : Bool) (args : List J) :
    resolve (instrumentReg app adminNs mode ro) adminNs (.str "connect".toList) args =
      .ok (.fn (.fn adminNs "connect".toList) args) := by
  generalize hc : "connect".toList = c
  have hstar : (c == star) = false := by subst hc; decide
  have hfn : (instrumentReg app adminNs mode ro).fn adminNs c = true := by
    subst hc; simp [instrumentReg, registered]
  have hns : (instrumentReg app adminNs mode ro).fnNs adminNs = true := by
    simp [instrumentReg]
  have hne : (adminNs != star) = true := by simpa using hadm
  simp only [resolve, evStr, hashable, inDict, hstar, hfn, hns, hne, Bool.not_true, Bool.not_false,
    Bool.and_self, if_true, Bool.false_eq_true, if_false, Option.getD_some]

theorem disconnect_connect {r r' : Rooms.St} {ns : Ns} {t : Eio} {sid : Sid}
    (fresh : ∀ e ∈ r, e.sid ≠ sid) (h : Rooms.connect r ns t sid = some r') :
    Rooms.disconnect r' ns sid = r := by
  have hf : r.filter (fun e => !decide (e.ns = ns ∧ e.sid = sid)) = r :=
    List.filter_eq_self.mpr (fun e he => by simp [fresh e he])
  simp only [Rooms.connect] at h
  split at h
  · simp at h
  · simp only [Option.some.injEq] at h
    subst h
    simp only [Rooms.disconnect, Rooms.add]
    split <;> split <;> simp [List.filter_append] <;>
      exact fun a ha => Or.inr (fresh a ha)

section connect
variable {app : Registry} {adminNs : Ns} {mode : Str} {ro : Bool} {cfg : Cfg}

theorem handleConnect_refused (hreg : cfg.reg = instrumentReg app adminNs mode ro)
    (hadm : adminNs ≠ star)
    (s : Srv) (t : Eio) (payload : Option J) (acfg : AuthCfg)
    (hscript : cfg.script.onConnect s.nConn = connectOutcome acfg payload)
    (hrefuse : admitsWire acfg payload = false)
    (henv : s.environ.contains t = true)
    (hfresh : ∀ e ∈ s.rooms, e.sid ≠ sidName s.nextSid) :
    (handleConnect cfg s t (some adminNs) payload).1.rooms = s.rooms := by
  simp only [handleConnect, Option.getD_some]
  cases hc : (if isServed cfg adminNs = true then Rooms.connect s.rooms adminNs t (sidName s.nextSid) else none) with
  | none => simp
  | some rooms' =>
    have hconn : Rooms.connect s.rooms adminNs t (sidName s.nextSid) = some rooms' := by
      split at hc
      · exact hc
      · simp at hc
    have hback := disconnect_connect hfresh hconn
    simp only [henv, hreg, resolve_connect _ hadm, hscript, connectOutcome, hrefuse]
    simp [mgrDisconnect, hback]
    split <;> simp

theorem mem_sendTo {s : Srv} {t : Eio} {p : Packet} {o : Out} (h : o ∈ sendTo s (some t) p) :
    o = .send t p := by
  simp only [sendTo] at h
  split at h <;> simp at h
  exact h

/-- A refused attempt talks to nobody but the candidate. -/
theorem handleConnect_refused_outs (hreg : cfg.reg = instrumentReg app adminNs mode ro)
    (hadm : adminNs ≠ star)
    (s : Srv) (t : Eio) (payload : Option J) (acfg : AuthCfg)
    (hscript : cfg.script.onConnect s.nConn = connectOutcome acfg payload)
    (hrefuse : admitsWire acfg payload = false)
    (henv : s.environ.contains t = true) :
    ∀ o ∈ (handleConnect cfg s t (some adminNs) payload).2,
      (∃ p, o = .send t p) ∨ (∃ a, o = .invoke (.fn adminNs "connect".toList) a) := by
  intro o ho
  simp only [handleConnect, Option.getD_some] at ho
  cases hc : (if isServed cfg adminNs = true then Rooms.connect s.rooms adminNs t (sidName s.nextSid) else none) with
  | none =>
    simp only [hc] at ho
    exact Or.inl ⟨_, mem_sendTo ho⟩
  | some rooms' =>
    simp only [hc, henv, hreg, resolve_connect _ hadm, hscript, connectOutcome, hrefuse] at ho
    simp at ho
    cases hac : cfg.alwaysConnect <;> simp [hac] at ho
    · rcases ho with ho | ho
      · exact Or.inr ⟨_, ho⟩
      · exact Or.inl ⟨_, mem_sendTo ho⟩
    · rcases ho with ho | ho | ho
      · exact Or.inl ⟨_, mem_sendTo ho⟩
      · exact Or.inr ⟨_, ho⟩
      · exact Or.inl ⟨_, mem_sendTo ho⟩

/-- Contrast: an admitted attempt on a transport that has no admin session yet ends as a member
    of the admin namespace (so `refused_no_membership` is not true for trivial reasons). -/
theorem handleConnect_admitted (hreg : cfg.reg = instrumentReg app adminNs mode ro)
    (hadm : adminNs ≠ star)
    (s : Srv) (t : Eio) (payload : Option J) (acfg : AuthCfg)
    (hscript : cfg.script.onConnect s.nConn = connectOutcome acfg payload)
    (hadmit : admitsWire acfg payload = true)
    (henv : s.environ.contains t = true)
    (hnew : Rooms.sidOf s.rooms adminNs t = none) :
    Rooms.isMember (handleConnect cfg s t (some adminNs) payload).1.rooms adminNs none
      (sidName s.nextSid) = true := by
  have hserved : isServed cfg adminNs = true := by
    simp [isServed, hreg, instrumentReg]
  simp only [handleConnect, Option.getD_some, hserved, if_true, Rooms.connect, hnew, henv, hreg,
    resolve_connect _ hadm, hscript, connectOutcome, hadmit]
  have key : Rooms.isMember
      (Rooms.add (Rooms.add s.rooms ⟨adminNs, none, sidName s.nextSid, t⟩)
        ⟨adminNs, some (sidName s.nextSid), sidName s.nextSid, t⟩) adminNs none (sidName s.nextSid) = true :=
    Rooms.isMember_iff.mpr ⟨t, Rooms.mem_add.mpr (Or.inl (Rooms.mem_add.mpr (Or.inr rfl)))⟩
  simp [key]
end connect

/-! ### admin reports are invisible to the application (model level) -/

def isAdminOut (adminNs : Ns) : Out → Bool
  | .send _ p => p.nsp == some adminNs
  | _ => false

/-- what application clients and the application itself can observe of a list of outputs -/
def observeApp (adminNs : Ns) (outs : List Out) : List Out :=
  outs.filter (fun o => !isAdminOut adminNs o)

theorem mkOut_nsp (type : Nat) (ns : Ns) (id : Option Nat) (data : List J) :
    (mkOut type ns id data).nsp = some ns := by
  simp only [mkOut, mkPacket]
  split
  · next h =>
    split at h
    · split at h
      · simp at h; subst h; rfl
      · split at h
        · simp at h; subst h; rfl
        · simp at h
    · simp at h; subst h; rfl
  · rfl

/-- `sio.emit(event, data, namespace=admin_namespace)` without a callback — everything the
    reporting wrappers and the statistics task do — leaves the server state alone and produces
    only packets of the admin namespace. -/
theorem report_invisible (s : Srv) (ev : Str) (d : Data) (adminNs : Ns) (to : Rooms.Target)
    (skip : List Sid) :
    (emit s ev d adminNs to skip none).1 = s ∧
    observeApp adminNs (emit s ev d adminNs to skip none).2 = [] := by
  simp only [emit]
  split
  · simp [observeApp]
  · refine ⟨rfl, ?_⟩
    simp only [observeApp, List.filter_eq_nil_iff, List.mem_flatMap]
    rintro o ⟨r, _, ho⟩
    have := mem_sendTo ho
    subst this
    simp [isAdminOut, mkOut_nsp]

end Sio.Admin
