/-
  Helper lemmas for K6 (pub/sub), any consumption schedule: `Running` is kept by `Cluster.on`, and
  the bookkeeping of "copies of `ev` still owed to client `sid`".
-/
import Sio.Lemmas.PubSubOnce
namespace Sio.PubSub
open Sio.Rooms

/-- what every run keeps, whatever the schedule -/
structure Running (home : Sid → HostId) (c : Cluster) : Prop where
  ids : (c.hosts.map Host.id).Nodup
  inv : ∀ h ∈ c.hosts, Inv h.rooms
  home : ∀ h ∈ c.hosts, HomeOk home h.id h.rooms
  cur : ∀ h ∈ c.hosts, h.cursor ≤ c.chan.length
  chanOk : EmitsOk c.chan
  woRooms : c.wo.rooms = []

/-- the host with this id -/
def Cluster.host (c : Cluster) (hid : HostId) : Option Host := c.hosts.find? (fun h => h.id = hid)

/-- copies of `ev` that the host of `sid` has not consumed yet -/
def pendingEv (home : Sid → HostId) (ev : Str) (sid : Sid) (c : Cluster) : Nat :=
  match c.host (home sid) with
  | none => 0
  | some h => (c.chan.drop h.cursor).countP (isEmitEv ev h.id)

theorem find_map_id (hosts : List Host) (g : Host → Host) (hg : ∀ h, (g h).id = h.id) (x : HostId) :
    (hosts.map g).find? (fun h => h.id = x) = (hosts.find? (fun h => h.id = x)).map g := by
  induction hosts with
  | nil => rfl
  | cons a l ih =>
    simp only [List.map_cons, List.find?_cons, hg]
    split
    · rfl
    · exact ih

theorem find_map_mem (L : List Host) (g : Host → Host) (hg : ∀ h ∈ L, (g h).id = h.id) (x : HostId) :
    (L.map g).find? (fun h => h.id = x) = (L.find? (fun h => h.id = x)).map g := by
  induction L with
  | nil => rfl
  | cons a l ih =>
    simp only [List.map_cons, List.find?_cons]
    rw [hg a List.mem_cons_self]
    split
    · rfl
    · exact ih (fun h hh => hg h (List.mem_cons_of_mem _ hh))

theorem eq_of_id_eq {hosts : List Host} (hnd : (hosts.map Host.id).Nodup) {a b : Host}
    (ha : a ∈ hosts) (hb : b ∈ hosts) (h : a.id = b.id) : a = b := by
  induction hosts with
  | nil => cases ha
  | cons x l ih =>
    simp only [List.map_cons, List.nodup_cons] at hnd
    rcases List.mem_cons.mp ha with rfl | ha' <;> rcases List.mem_cons.mp hb with rfl | hb'
    · rfl
    · exact absurd (h ▸ List.mem_map_of_mem hb') hnd.1
    · exact absurd (h.symm ▸ List.mem_map_of_mem ha') hnd.1
    · exact ih hnd.2 ha' hb'

theorem find_mem {hosts : List Host} {x : HostId} {h : Host}
    (hf : hosts.find? (fun h => h.id = x) = some h) : h ∈ hosts ∧ h.id = x := by
  refine ⟨List.mem_of_find?_eq_some hf, ?_⟩
  have := List.find?_some hf
  simpa using this

theorem find_of_mem {hosts : List Host} (hnd : (hosts.map Host.id).Nodup) {h : Host} (hh : h ∈ hosts) :
    hosts.find? (fun x => x.id = h.id) = some h := by
  induction hosts with
  | nil => cases hh
  | cons a l ih =>
    simp only [List.map_cons, List.nodup_cons] at hnd
    rw [List.find?_cons]
    rcases List.mem_cons.mp hh with rfl | hh'
    · simp
    · have hne : a.id ≠ h.id := fun he => hnd.1 (he ▸ List.mem_map_of_mem hh')
      simp only [hne, decide_false]
      exact ih hnd.2 hh'

theorem find_none_of_not_mem {hosts : List Host} {x : HostId} (hx : x ∉ hosts.map Host.id) :
    hosts.find? (fun h => h.id = x) = none := by
  rw [List.find?_eq_none]
  intro h hh
  simp only [decide_eq_true_eq]
  exact fun he => hx (he ▸ List.mem_map_of_mem hh)

theorem countP_drop_append {α : Type} (p : α → Bool) (a b : List α) (n : Nat) (hn : n ≤ a.length) :
    ((a ++ b).drop n).countP p = (a.drop n).countP p + b.countP p := by
  rw [List.drop_append_of_le_length hn, List.countP_append]

/-- An API call (or a `deliver`) `f` on the host `hid`: `Running` is kept, and the copies of `ev`
    shown to `sid` plus those still owed do not exceed the budget `B` of the call plus those owed
    before. -/
theorem on_once {home : Sid → HostId} (c : Cluster) (hrun : Running home c) (hid : HostId)
    (f : Host → Res) (ev : Str) (sid : Sid) (B : Nat)
    (hf_id : ∀ h ∈ c.hosts, h.id = hid → (f h).h.id = h.id)
    (hf_inv : ∀ h ∈ c.hosts, h.id = hid → Inv (f h).h.rooms ∧ HomeOk home h.id (f h).h.rooms)
    (hf_pubs : ∀ h ∈ c.hosts, h.id = hid → EmitsOk (f h).pubs)
    (hf_cur : ∀ h ∈ c.hosts, h.id = hid → (f h).h.cursor ≤ c.chan.length)
    (hf_here : ∀ h ∈ c.hosts, h.id = hid → home sid = h.id →
      evCount ev (seenBy sid (f h).outs) +
        ((c.chan ++ (f h).pubs).drop (f h).h.cursor).countP (isEmitEv ev h.id) ≤
      B + (c.chan.drop h.cursor).countP (isEmitEv ev h.id))
    (hf_else : ∀ h ∈ c.hosts, h.id = hid → home sid ≠ h.id →
      evCount ev (seenBy sid (f h).outs) = 0 ∧ ∀ x, (f h).pubs.countP (isEmitEv ev x) ≤ B) :
    Running home (c.on hid f).1 ∧
    evCount ev (seenBy sid (c.on hid f).2) + pendingEv home ev sid (c.on hid f).1 ≤
      B + pendingEv home ev sid c := by
  by_cases hex : hid ∈ c.hosts.map Host.id
  · obtain ⟨hv, hin, rfl⟩ := List.mem_map.mp hex
    have hpubs : c.hosts.flatMap (fun h => if h.id = hv.id then (f h).pubs else []) = (f hv).pubs :=
      flatMap_if_id c.hosts hrun.ids hv hin _
    have houts : c.hosts.flatMap (fun h => if h.id = hv.id then (f h).outs else []) = (f hv).outs :=
      flatMap_if_id c.hosts hrun.ids hv hin _
    have hhosts : (c.on hv.id f).1.hosts = c.hosts.map (fun h => if h.id = hv.id then (f h).h else h) := rfl
    have hchan : (c.on hv.id f).1.chan = c.chan ++ (f hv).pubs := by
      show c.chan ++ c.hosts.flatMap (fun h => if h.id = hv.id then (f h).pubs else []) = _
      rw [hpubs]
    have hout : (c.on hv.id f).2 = (f hv).outs := houts
    have hgid : ∀ h : Host, h ∈ c.hosts → (if h.id = hv.id then (f h).h else h).id = h.id := by
      intro h hh; split
      · rename_i he; exact hf_id h hh he
      · rfl
    refine ⟨⟨?_, ?_, ?_, ?_, ?_, hrun.woRooms⟩, ?_⟩
    · rw [hhosts, List.map_map]
      have : c.hosts.map (Host.id ∘ fun h => if h.id = hv.id then (f h).h else h) = c.hosts.map Host.id :=
        List.map_congr_left (fun h hh => hgid h hh)
      rw [this]; exact hrun.ids
    · intro h' hh'
      rw [hhosts] at hh'
      obtain ⟨h, hh, rfl⟩ := List.mem_map.mp hh'
      split
      · rename_i he; exact (hf_inv h hh he).1
      · exact hrun.inv h hh
    · intro h' hh'
      rw [hhosts] at hh'
      obtain ⟨h, hh, rfl⟩ := List.mem_map.mp hh'
      split
      · rename_i he; rw [hf_id h hh he]; exact (hf_inv h hh he).2
      · exact hrun.home h hh
    · intro h' hh'
      rw [hhosts] at hh'
      obtain ⟨h, hh, rfl⟩ := List.mem_map.mp hh'
      rw [hchan, List.length_append]
      split
      · rename_i he; have := hf_cur h hh he; omega
      · have := hrun.cur h hh; omega
    · rw [hchan]; exact hrun.chanOk.append (hf_pubs hv hin rfl)
    · -- the counting
      rw [hout]
      have hhost' : (c.on hv.id f).1.host (home sid) =
          (c.host (home sid)).map (fun h => if h.id = hv.id then (f h).h else h) := by
        unfold Cluster.host
        rw [hhosts]
        exact find_map_mem c.hosts _ hgid _
      unfold pendingEv
      rw [hhost', hchan]
      cases hq : c.host (home sid) with
      | none =>
        simp only [Option.map_none]
        have hne : home sid ≠ hv.id := by
          intro he
          have := find_of_mem hrun.ids hin
          unfold Cluster.host at hq
          rw [he, this] at hq; cases hq
        rw [(hf_else hv hin rfl hne).1]
        omega
      | some hs =>
        obtain ⟨hsin, hsid⟩ := find_mem hq
        simp only [Option.map_some]
        by_cases he : hs.id = hv.id
        · have : hs = hv := eq_of_id_eq hrun.ids hsin hin he
          subst this
          rw [if_pos rfl, hf_id hs hin rfl]
          exact hf_here hs hin rfl hsid.symm
        · rw [if_neg he]
          have hne : home sid ≠ hv.id := by rw [← hsid]; exact he
          rw [(hf_else hv hin rfl hne).1, countP_drop_append _ _ _ _ (hrun.cur hs hsin)]
          have := (hf_else hv hin rfl hne).2 hs.id
          omega
  · -- no such host: nothing happens
    have hpubs : c.hosts.flatMap (fun h => if h.id = hid then (f h).pubs else []) = [] :=
      flatMap_if_none c.hosts hid hex _
    have houts : c.hosts.flatMap (fun h => if h.id = hid then (f h).outs else []) = [] :=
      flatMap_if_none c.hosts hid hex _
    have hhosts : (c.on hid f).1.hosts = c.hosts := by
      show c.hosts.map (fun h => if h.id = hid then (f h).h else h) = c.hosts
      have : c.hosts.map (fun h => if h.id = hid then (f h).h else h) = c.hosts.map id := by
        apply List.map_congr_left
        intro h hh
        have : h.id ≠ hid := fun he => hex (he ▸ List.mem_map_of_mem hh)
        simp [this]
      rw [this, List.map_id]
    have hchan : (c.on hid f).1.chan = c.chan := by
      show c.chan ++ c.hosts.flatMap (fun h => if h.id = hid then (f h).pubs else []) = _
      rw [hpubs, List.append_nil]
    have hout : (c.on hid f).2 = [] := houts
    have hwo : (c.on hid f).1.wo = c.wo := rfl
    refine ⟨⟨by rw [hhosts]; exact hrun.ids, by rw [hhosts]; exact hrun.inv, by rw [hhosts]; exact hrun.home,
      by rw [hhosts, hchan]; exact hrun.cur, by rw [hchan]; exact hrun.chanOk, by rw [hwo]; exact hrun.woRooms⟩, ?_⟩
    rw [hout]
    unfold pendingEv Cluster.host
    rw [hhosts, hchan]
    simp [seenBy, evCount]

end Sio.PubSub
