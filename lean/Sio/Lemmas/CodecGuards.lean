/-
  C01 — the two resource guards of the header scanner (reused by C12): whatever the input, an
  accepted header announces fewer than 10^10 attachments and carries an id below 10^100.
-/
import Sio.Lemmas.CodecDigits
namespace Sio

variable {cls : Char → DC}

theorem scanAtt_bound (hd : DecLt10 cls) {ep r : Str} {n : Nat}
    (h : scanAtt cls ep = .ok (n, r)) : n < 10 ^ 10 := by
  unfold scanAtt at h
  dsimp only at h
  split at h
  · split at h
    · cases h
    · rename_i hlen
      cases hp : pyInt cls (List.takeWhile (fun x => x != '-') ep) with
      | error e => rw [hp] at h; cases h
      | ok v =>
        rw [hp] at h
        have hv : v = n := by
          have : (Except.ok (v, _) : Except Err (Nat × Str)) = Except.ok (n, r) := h
          injection this with this; injection this
        subst hv
        have hb := pyInt_bound hd _ _ hp
        have hlim : attDigitLimit = 10 := rfl
        exact Nat.lt_of_lt_of_le hb (Nat.pow_le_pow_right (by decide) (by omega))
  · have : (Except.ok (0, ep) : Except Err (Nat × Str)) = Except.ok (n, r) := h
    injection this with this; injection this with h0 _
    subst h0; decide

theorem scanId_bound (hd : DecLt10 cls) {ep r : Str} {i : Nat}
    (h : scanId cls ep = .ok (some i, r)) : i < 10 ^ 100 := by
  unfold scanId at h
  split at h
  · rename_i c tl
    split at h
    · dsimp only at h
      generalize hk : min ((c :: tl).takeWhile (fun c => (cls c).isDigit)).length 100 = k at h
      have hk' : k ≤ 100 := by rw [← hk]; exact Nat.min_le_right _ _
      cases hp : pyInt cls ((c :: tl).take k) with
      | error e => rw [hp] at h; cases h
      | ok v =>
        rw [hp] at h
        have hb := pyInt_bound hd _ _ hp
        have hlen : ((c :: tl).take k).length ≤ 100 := by
          rw [List.length_take]; omega
        have hv : v < 10 ^ 100 := Nat.lt_of_lt_of_le hb (Nat.pow_le_pow_right (by decide) hlen)
        have : i = v := by
          simp only [bind, Except.bind] at h
          split at h
          · split at h
            · cases h
            · injection h with h; injection h with h _; injection h with h; exact h.symm
          · injection h with h; injection h with h _; injection h with h; exact h.symm
        rw [this]; exact hv
    · injection h with h; injection h with h _; cases h
  · injection h with h; injection h with h _; cases h

theorem decodeHdr_parts {s : Str} {h : Hdr} (hh : decodeHdr cls s = .ok h) :
    ∃ ep1 ep2, scanAtt cls (s.drop 1) = .ok (h.natt, ep1) ∧
      scanId cls (scanNs ep1).2 = .ok (h.id, ep2) := by
  unfold decodeHdr at hh
  cases h1 : pyInt cls (s.take 1) with
  | error e => rw [h1] at hh; cases hh
  | ok t =>
    rw [h1] at hh
    cases h2 : scanAtt cls (s.drop 1) with
    | error e => rw [h2] at hh; cases hh
    | ok na =>
      obtain ⟨natt, ep1⟩ := na
      rw [h2] at hh
      cases h3 : scanId cls (scanNs ep1).2 with
      | error e =>
        simp only [bind, Except.bind] at hh
        rw [h3] at hh; cases hh
      | ok ie =>
        obtain ⟨id, ep2⟩ := ie
        simp only [bind, Except.bind] at hh
        rw [h3] at hh
        injection hh with hh
        subst hh
        exact ⟨ep1, ep2, rfl, h3⟩

theorem decodeHdr_natt_bound (hd : DecLt10 cls) {s : Str} {h : Hdr}
    (hh : decodeHdr cls s = .ok h) : h.natt < 10 ^ 10 := by
  obtain ⟨_, _, h1, _⟩ := decodeHdr_parts hh
  exact scanAtt_bound hd h1

theorem decodeHdr_id_bound (hd : DecLt10 cls) {s : Str} {h : Hdr} {i : Nat}
    (hh : decodeHdr cls s = .ok h) (hi : h.id = some i) : i < 10 ^ 100 := by
  obtain ⟨_, _, _, h2⟩ := decodeHdr_parts hh
  rw [hi] at h2
  exact scanId_bound hd h2

end Sio
