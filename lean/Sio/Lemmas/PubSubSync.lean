/-
  Helper lemmas for K6 (pub/sub): the simulation between a cluster that drains after every
  operation and the single reference server — room tables, what every client sees, which
  disconnect handlers run.  (Callback bookkeeping is transparent here: `callback` entries change
  neither room tables nor packets.)
-/
import Sio.Lemmas.PubSubApi
namespace Sio.PubSub
open Sio.Rooms

theorem views_fst (c : Cluster) : c.views.map Prod.fst = c.hosts.map Host.id := by
  simp only [Cluster.views, List.map_map]; rfl

theorem hosts_map_views (c : Cluster) (g : View → Rooms.St) :
    c.hosts.map (fun h => (h.id, g h.view)) = c.views.map (fun v => (v.1, g v)) := by
  simp only [Cluster.views, List.map_map]; rfl

theorem hosts_flatMap_views {β : Type} (c : Cluster) (g : View → List β) :
    c.hosts.flatMap (fun h => g h.view) = c.views.flatMap g := by
  simp only [Cluster.views, List.flatMap_map]

theorem view_mem {c : Cluster} {h : Host} (hh : h ∈ c.hosts) : h.view ∈ c.views :=
  List.mem_map_of_mem hh

/-- the frames-level simulation relation -/
structure Sim (home : Sid → HostId) (ehome : Eio → HostId) (c : Cluster) (s : Single) : Prop where
  placed : Placed home ehome c.views
  sinv : Inv s.srv.rooms
  union : Union c.views s.srv.rooms
  pending : Pending c.hosts c.chan
  chanOk : EmitsOk c.chan
  woId : c.wo.id ∉ c.hosts.map Host.id
  woRooms : c.wo.rooms = []

section sim
variable {home : Sid → HostId} {ehome : Eio → HostId} {c : Cluster} {s : Single}

theorem Sim.ids (hs : Sim home ehome c s) : (c.hosts.map Host.id).Nodup := by
  rw [← views_fst]; exact hs.placed.ids

theorem Sim.hinv (hs : Sim home ehome c s) : ∀ h ∈ c.hosts, Inv h.rooms :=
  fun h hh => hs.placed.inv h.view (view_mem hh)

theorem host_eq_of_id (hs : Sim home ehome c s) {h hv : Host} (hh : h ∈ c.hosts) (hhv : hv ∈ c.hosts)
    (he : h.id = hv.id) : h.view = hv.view :=
  eq_of_fst_eq hs.placed.ids (view_mem hh) (view_mem hhv) he

theorem exists_host_of_id (c : Cluster) (hid : HostId) (h : hid ∈ c.hosts.map Host.id) :
    ∃ hv ∈ c.hosts, hv.id = hid := by
  obtain ⟨hv, hhv, rfl⟩ := List.mem_map.mp h
  exact ⟨hv, hhv, rfl⟩

/-- the generic step: an API call on `hv`, then a drain, against a step of the single server -/
theorem sim_api (hs : Sim home ehome c s) (op : Op)
    (hop : OpOk home ehome (c.views.map Prod.fst) op) (hv : Host) (hin : hv ∈ c.hosts)
    (f : Host → Res) (hf : ApiLike f c.hosts) (t : Single × List Out)
    (hrooms : ∀ h ∈ c.hosts, roomsAfterL h.id (if h.id = hv.id then (f h).h.rooms else h.rooms)
        (f hv).pubs = localRooms op h.view)
    (hsingle : t.1.srv.rooms = singleRooms op s.srv.rooms)
    (hseen : ∀ sid, seenBy sid (f hv).outs ++ c.hosts.flatMap (fun h =>
        seenAfterL h.id (if h.id = hv.id then (f h).h.rooms else h.rooms) sid (f hv).pubs) =
          seenBy sid t.2)
    (hdisc : discEvents (f hv).outs ++ c.hosts.flatMap (fun h =>
        discAfterL h.id (if h.id = hv.id then (f h).h.rooms else h.rooms) (f hv).pubs) =
          discEvents t.2) :
    Sim home ehome (step (c.on hv.id f).1 .drain).1 t.1 ∧
    (∀ sid, seenBy sid ((c.on hv.id f).2 ++ (step (c.on hv.id f).1 .drain).2) = seenBy sid t.2) ∧
    discEvents ((c.on hv.id f).2 ++ (step (c.on hv.id f).1 .drain).2) = discEvents t.2 ∧
    (step (c.on hv.id f).1 .drain).1.hosts.map Host.id = c.hosts.map Host.id := by
  obtain ⟨e1, e2, e3, e4, e5, e6⟩ :=
    on_then_drain c hv hin f hf hs.ids hs.hinv hs.pending hs.chanOk
  have hviews : (step (c.on hv.id f).1 .drain).1.views =
      c.views.map (fun v => (v.1, localRooms op v)) := by
    rw [e1, ← hosts_map_views]
    apply List.map_congr_left
    intro h hh
    rw [hrooms h hh]
  obtain ⟨p1, p2⟩ := local_preserves hs.placed hs.union hs.sinv op hop
  refine ⟨⟨?_, ?_, ?_, e2, e3, ?_, ?_⟩, ?_, ?_, ?_⟩
  · rw [hviews]; exact p1
  · rw [hsingle]; exact inv_singleRooms hs.sinv op
  · rw [hviews, hsingle]; exact p2
  · rw [e4, ← views_fst, hviews, map_fst_local, views_fst]; exact hs.woId
  · rw [e4]; exact hs.woRooms
  · intro sid; rw [e5 sid]; exact hseen sid
  · rw [e6]; exact hdisc
  · rw [← views_fst, hviews, map_fst_local, views_fst]

theorem singleEnter_rooms (h : Host) (ns : Ns) (sid : Sid) (room : Room) :
    (singleEnter h ns sid room).h.rooms = enterLocal h.rooms ns sid room := by
  unfold singleEnter enterLocal Rooms.enter
  cases hq : eioOf h.rooms ns sid with
  | none =>
    split
    · rename_i heq
      split at heq <;> cases heq
    · rfl
  | some eio =>
    have hn : hasNs h.rooms ns = true := hasNs_iff.mpr ⟨_, eioOf_some_mem hq, rfl⟩
    simp [hn]

theorem singleEnter_obs (h : Host) (ns : Ns) (sid : Sid) (room : Room) :
    (∀ x, seenBy x (singleEnter h ns sid room).outs = []) ∧
    discEvents (singleEnter h ns sid room).outs = [] ∧ askedIn (singleEnter h ns sid room).outs = [] := by
  unfold singleEnter
  split
  · exact ⟨fun _ => rfl, rfl, rfl⟩
  · exact ⟨fun _ => rfl, rfl, rfl⟩

/-- the room table of the single server after a step -/
theorem single_step_rooms (hsinv : Inv s.srv.rooms) (op : Op) :
    (s.step op).1.srv.rooms = singleRooms op s.srv.rooms := by
  cases op with
  | connect hid ns eio sid => rfl
  | enter via ns sid room => exact singleEnter_rooms _ _ _ _
  | leave via ns sid room => rfl
  | close via ns room => rfl
  | emit via ev d ns to skip cb =>
    exact (emitLocal_rooms s.srv ns to skip.toList (.str ev) d.pack (cb.map Cb.user)).1
  | disconnect via ns sid => exact localDisconnect_rooms s.srv hsinv sid ns
  | ack ns sid n args =>
    simp only [Single.step, singleRooms]
    split
    · split
      · exact (apiAck_effect _ _ _ _).1
      · rfl
    · rfl
  | deliver h k => rfl
  | drain => rfl

theorem seenAfterL_single (hid : HostId) (r : Rooms.St) (sid : Sid) (m : Msg) :
    seenAfterL hid r sid [m] = seenAfter hid r sid m := by
  simp [seenAfterL]

theorem discAfterL_single (hid : HostId) (r : Rooms.St) (m : Msg) :
    discAfterL hid r [m] = discAfter hid r m := by
  simp [discAfterL]

theorem roomsAfterL_single (hid : HostId) (r : Rooms.St) (m : Msg) :
    roomsAfterL hid r [m] = roomsAfter hid r m := rfl

theorem roomsAfterL_nil (hid : HostId) (r : Rooms.St) : roomsAfterL hid r [] = r := rfl

end sim

end Sio.PubSub
