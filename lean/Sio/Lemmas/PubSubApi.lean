/-
  Helper lemmas for K6 (pub/sub): what each public method of `PubSubManager` does on the host it is
  called on — room table, outputs as the clients see them, what it publishes.
-/
import Sio.Lemmas.PubSubLocal
namespace Sio.PubSub
open Sio.Rooms

theorem handleEmit_msg (h : Host) (o : HostId) (ev : Str) (d : Data) (ns : Ns) (to : Target)
    (skip : Skip) (cb : Option (Str × Ns × Nat)) (hok : Target.ok to) :
    handleEmit h (Msg.emit o ev d ns to skip cb).toD =
      { h := (emitLocal h ns to skip.toList (.str ev) d.pack (relayOf o cb)).1,
        outs := (emitLocal h ns to skip.toList (.str ev) d.pack (relayOf o cb)).2 } := by
  have htk := target_ok hok
  simp only [Msg.toD, handleEmit, htk]
  cases cb with
  | none =>
    simp only [relayOf]
    cases hn : hasNs h.rooms ns <;> simp [emitLocal, hn]
  | some c =>
    obtain ⟨k, n, i⟩ := c
    simp only [relayOf]
    cases hn : hasNs h.rooms ns <;> simp [emitLocal, hn]

/-- the token that `PubSubManager.emit` puts into the message -/
def emitToken (h : Host) (ns : Ns) (to : Target) : Option Nat → Option (Str × Ns × Nat)
  | none => none
  | some _ => match to with
    | .one r => some (r, ns, h.ctr r + 1)
    | _ => none

theorem apiEmit_nocb (h : Host) (srv : Bool) (ev : Str) (d : Data) (ns : Ns) (to : Target)
    (skip : Skip) (hok : Target.ok to) :
    apiEmit h srv ev d ns to skip none =
      { h := (emitLocal h ns to skip.toList (.str ev) d.pack none).1,
        outs := (emitLocal h ns to skip.toList (.str ev) d.pack none).2,
        pubs := [Msg.emit h.id ev d ns to skip none] } := by
  have he := handleEmit_msg h h.id ev d ns to skip none hok
  simp only [apiEmit, he, relayOf, List.nil_append]

theorem apiEmit_cb (h : Host) (ev : Str) (d : Data) (ns : Ns) (r : Room) (skip : Skip) (tok : Nat) :
    apiEmit h true ev d ns (.one r) skip (some tok) =
      { h := (emitLocal (register h r (.user tok)).1 ns (.one r) skip.toList (.str ev) d.pack
                (some (.relay (some h.id) r ns (h.ctr r + 1)))).1,
        outs := (emitLocal (register h r (.user tok)).1 ns (.one r) skip.toList (.str ev) d.pack
                (some (.relay (some h.id) r ns (h.ctr r + 1)))).2,
        pubs := [Msg.emit h.id ev d ns (.one r) skip (some (r, ns, h.ctr r + 1))] } := by
  have he := handleEmit_msg (register h r (.user tok)).1 h.id ev d ns (.one r) skip
    (some (r, ns, h.ctr r + 1)) trivial
  simp only [apiEmit, Bool.not_true, Bool.false_eq_true, if_false]
  have hreg : (register h r (.user tok)).2 = h.ctr r + 1 := rfl
  simp only [hreg, he, relayOf, List.nil_append]

/-- `emit` through a host that is attached to a server, for the targets the API accepts -/
theorem apiEmit_effect (h : Host) (hinv : Inv h.rooms) (ev : Str) (d : Data) (ns : Ns) (to : Target)
    (skip : Skip) (cb : Option Nat) (hok : Target.ok to) (hcb : cb.isSome → ∃ r, to = .one r) :
    (apiEmit h true ev d ns to skip cb).h.rooms = h.rooms ∧
    (apiEmit h true ev d ns to skip cb).h.id = h.id ∧
    (apiEmit h true ev d ns to skip cb).h.cursor = h.cursor ∧
    (apiEmit h true ev d ns to skip cb).pubs = [Msg.emit h.id ev d ns to skip (emitToken h ns to cb)] ∧
    (emitToken h ns to cb).isSome = cb.isSome ∧
    (∀ sid, seenBy sid (apiEmit h true ev d ns to skip cb).outs =
      seenEmit h.rooms ns to skip.toList (.str ev) d.pack cb.isSome sid) ∧
    discEvents (apiEmit h true ev d ns to skip cb).outs = [] := by
  cases cb with
  | none =>
    rw [apiEmit_nocb h true ev d ns to skip hok]
    have hr := emitLocal_rooms h ns to skip.toList (.str ev) d.pack none
    refine ⟨hr.1, hr.2.1, hr.2.2, rfl, rfl, ?_, ?_⟩
    · intro sid; exact seenBy_emitLocal h hinv ns to _ _ _ none sid
    · exact discEvents_emitLocal h ns to _ _ _ none
  | some tok =>
    obtain ⟨r, rfl⟩ := hcb rfl
    rw [apiEmit_cb]
    have hr := emitLocal_rooms (register h r (.user tok)).1 ns (.one r) skip.toList (.str ev) d.pack
      (some (.relay (some h.id) r ns (h.ctr r + 1)))
    refine ⟨hr.1, hr.2.1, hr.2.2, rfl, rfl, ?_, ?_⟩
    · intro sid
      exact seenBy_emitLocal (register h r (.user tok)).1 hinv ns (.one r) skip.toList (.str ev)
        d.pack _ sid
    · exact discEvents_emitLocal _ ns _ _ _ _ _

/-- `emit` through the write-only manager (no clients, no callbacks) -/
theorem apiEmit_wo (w : Host) (hw : w.rooms = []) (ev : Str) (d : Data) (ns : Ns) (to : Target)
    (skip : Skip) (hok : Target.ok to) :
    apiEmit w false ev d ns to skip none =
      { h := w, pubs := [Msg.emit w.id ev d ns to skip none] } := by
  have hn : hasNs w.rooms ns = false := by rw [hw]; rfl
  rw [apiEmit_nocb w false ev d ns to skip hok]
  simp [emitLocal, hn]

theorem trigger_inv (fuel : Nat) (h : Host) (key : Str) (id : Nat) (args : Option (List J))
    (hinv : Inv h.rooms) : Inv (trigger fuel h key id args).h.rooms := by
  rw [trigger_rooms]; exact hinv

theorem apiAck_effect (h : Host) (sid : Sid) (id : Nat) (args : List J) :
    (apiAck h sid id args).h.rooms = h.rooms ∧ (apiAck h sid id args).h.id = h.id ∧
    (apiAck h sid id args).h.cursor = h.cursor ∧ AllCb (apiAck h sid id args).pubs ∧
    (∀ x, seenBy x (apiAck h sid id args).outs = []) ∧
    discEvents (apiAck h sid id args).outs = [] ∧ askedIn (apiAck h sid id args).outs = [] := by
  have he := trigger_err_none chainFuel h sid id args
  have ht := trigger_seen chainFuel h sid id (some args)
  simp only [apiAck, he]
  exact ⟨trigger_rooms _ _ _ _ _, trigger_id _ _ _ _ _, trigger_cursor _ _ _ _ _, (ht []).2.2.1,
    fun x => (ht x).1, (ht []).2.1, (ht []).2.2.2⟩

theorem localDisconnect_effect (h : Host) (sid : Sid) (ns : Ns) :
    (localDisconnect h sid ns).h.rooms = Rooms.disconnect h.rooms ns sid ∨
      (eioOf h.rooms ns sid = none ∧ (localDisconnect h sid ns).h.rooms = h.rooms) := by
  unfold localDisconnect
  split
  · rename_i hq; exact Or.inr ⟨hq, rfl⟩
  · exact Or.inl rfl

theorem localDisconnect_rooms (h : Host) (hinv : Inv h.rooms) (sid : Sid) (ns : Ns) :
    (localDisconnect h sid ns).h.rooms = Rooms.disconnect h.rooms ns sid := by
  rcases localDisconnect_effect h sid ns with h1 | ⟨hq, h1⟩
  · exact h1
  · rw [h1, disconnect_noop_of_not_connected hinv hq]

theorem localDisconnect_obs (h : Host) (sid : Sid) (ns : Ns) :
    (localDisconnect h sid ns).h.id = h.id ∧ (localDisconnect h sid ns).h.cursor = h.cursor ∧
    (localDisconnect h sid ns).pubs = [] ∧
    (∀ x, seenBy x (localDisconnect h sid ns).outs =
      if sid = x ∧ (eioOf h.rooms ns sid).isSome then [.disconnect ns] else []) ∧
    discEvents (localDisconnect h sid ns).outs =
      (if (eioOf h.rooms ns sid).isSome then [(sid, ns)] else []) := by
  unfold localDisconnect
  cases hq : eioOf h.rooms ns sid with
  | none => simp [seenBy, discEvents]
  | some eio =>
    refine ⟨rfl, rfl, rfl, ?_, by simp [discEvents]⟩
    intro x
    by_cases hx : sid = x
    · subst hx; simp [seenBy]
    · simp [seenBy, hx]

end Sio.PubSub
