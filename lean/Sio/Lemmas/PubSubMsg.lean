/-
  Helper lemmas for K6 (pub/sub): what one well-formed channel entry does to a host — to its room
  table, to what each client sees, to what it publishes — and the same for a batch (`catchUp`).
-/
import Sio.Lemmas.PubSubListen
import Sio.Lemmas.RoomsEmit
namespace Sio.PubSub
open Sio.Rooms

/-! ### vocabulary -/

def Msg.isCb : Msg → Bool
  | .callback .. => true
  | _ => false

/-- a list of channel entries that are all `callback` messages -/
def AllCb (ms : List Msg) : Prop := ∀ m ∈ ms, m.isCb = true

theorem AllCb.nil : AllCb [] := by intro m hm; cases hm

theorem AllCb.append {a b : List Msg} (ha : AllCb a) (hb : AllCb b) : AllCb (a ++ b) := by
  intro m hm
  rcases List.mem_append.mp hm with h | h
  · exact ha m h
  · exact hb m h

/-- `to=[]` is not a target an application can name (it is falsy: "everybody") -/
def Target.ok : Target → Prop
  | .many [] => False
  | _ => True

theorem target_ok {t : Target} (h : Target.ok t) : (targetFld t).target = .ok t := by
  cases t with
  | all => rfl
  | one r => rfl
  | many rs =>
    cases rs with
    | nil => exact absurd h (by simp [Target.ok])
    | cons r rs => rfl

/-- the disconnect-handler invocations among the outputs -/
def discEvents : List Out → List (Sid × Ns)
  | [] => []
  | .discHandler _ sid ns :: rest => (sid, ns) :: discEvents rest
  | _ :: rest => discEvents rest

theorem seenBy_append (sid : Sid) (a b : List Out) :
    seenBy sid (a ++ b) = seenBy sid a ++ seenBy sid b := by
  induction a with
  | nil => rfl
  | cons o a ih =>
    cases o <;> simp only [List.cons_append, seenBy, ih] <;> split <;> simp

theorem discEvents_append (a b : List Out) : discEvents (a ++ b) = discEvents a ++ discEvents b := by
  induction a with
  | nil => rfl
  | cons o a ih => cases o <;> simp [discEvents, ih]

theorem appEvents_append (a b : List Out) : appEvents (a ++ b) = appEvents a ++ appEvents b := by
  induction a with
  | nil => rfl
  | cons o a ih => cases o <;> simp [appEvents, ih]

theorem askedIn_append (a b : List Out) : askedIn (a ++ b) = askedIn a ++ askedIn b := by
  induction a with
  | nil => rfl
  | cons o a ih =>
    cases o with
    | send host sid eio f =>
      obtain ⟨ns, ev, args, id⟩ := f
      cases id <;> simp [askedIn, ih]
    | _ => simp [askedIn, ih]

/-! ### `register`, `sendCb`, `emitLocal` leave the room table alone -/

@[simp] theorem register_rooms (h : Host) (k : Str) (cb : Cb) : (register h k cb).1.rooms = h.rooms := rfl
@[simp] theorem register_id (h : Host) (k : Str) (cb : Cb) : (register h k cb).1.id = h.id := rfl
@[simp] theorem register_cursor (h : Host) (k : Str) (cb : Cb) : (register h k cb).1.cursor = h.cursor := rfl

theorem sendCb_rooms (cb : Cb) (ns : Ns) (ev : J) (args : List J) (h : Host) (l : List (Sid × Eio)) :
    (sendCb cb ns ev args h l).1.rooms = h.rooms ∧ (sendCb cb ns ev args h l).1.id = h.id ∧
    (sendCb cb ns ev args h l).1.cursor = h.cursor := by
  induction l generalizing h with
  | nil => exact ⟨rfl, rfl, rfl⟩
  | cons p ps ih =>
    simp only [sendCb]
    have := ih (register h p.1 cb).1
    simpa using this

theorem emitLocal_rooms (h : Host) (ns : Ns) (t : Target) (skip : List Sid) (ev : J) (args : List J)
    (cb : Option Cb) :
    (emitLocal h ns t skip ev args cb).1.rooms = h.rooms ∧
    (emitLocal h ns t skip ev args cb).1.id = h.id ∧
    (emitLocal h ns t skip ev args cb).1.cursor = h.cursor := by
  unfold emitLocal
  split
  · exact ⟨rfl, rfl, rfl⟩
  · cases cb with
    | none => exact ⟨rfl, rfl, rfl⟩
    | some c => exact sendCb_rooms c ns ev args h _

/-! ### what the clients see of an emit -/

/-- what client `sid` sees of one emit applied to a room table -/
def seenEmit (rooms : Rooms.St) (ns : Ns) (t : Target) (skip : List Sid) (ev : J) (args : List J)
    (wantsAck : Bool) (sid : Sid) : List Seen :=
  if sid ∈ (recipients rooms ns t skip).map Prod.fst then [.event ns ev args wantsAck] else []

theorem seenBy_map_send (hid : HostId) (ns : Ns) (ev : J) (args : List J) (sid : Sid)
    (l : List (Sid × Eio)) (hnd : (l.map Prod.fst).Nodup) :
    seenBy sid (l.map (fun p => Out.send hid p.1 p.2 ⟨ns, ev, args, none⟩)) =
      if sid ∈ l.map Prod.fst then [.event ns ev args false] else [] := by
  induction l with
  | nil => rfl
  | cons p ps ih =>
    simp only [List.map_cons, List.nodup_cons] at hnd
    simp only [List.map_cons, seenBy, List.mem_cons]
    by_cases hp : p.1 = sid
    · subst hp
      have hnot : p.1 ∉ ps.map Prod.fst := hnd.1
      rw [ih hnd.2, if_pos rfl, if_neg hnot, if_pos (Or.inl rfl)]; rfl
    · have hp' : ¬ sid = p.1 := fun h => hp h.symm
      rw [if_neg hp, ih hnd.2]
      by_cases hin : sid ∈ ps.map Prod.fst
      · rw [if_pos hin, if_pos (Or.inr hin)]
      · rw [if_neg hin, if_neg (by rintro (h | h); exact hp' h; exact hin h)]

theorem seenBy_sendCb (cb : Cb) (ns : Ns) (ev : J) (args : List J) (sid : Sid) (h : Host)
    (l : List (Sid × Eio)) (hnd : (l.map Prod.fst).Nodup) :
    seenBy sid (sendCb cb ns ev args h l).2 =
      if sid ∈ l.map Prod.fst then [.event ns ev args true] else [] := by
  induction l generalizing h with
  | nil => rfl
  | cons p ps ih =>
    simp only [List.map_cons, List.nodup_cons] at hnd
    simp only [sendCb, seenBy, List.map_cons, List.mem_cons]
    by_cases hp : p.1 = sid
    · subst hp
      have hnot : p.1 ∉ ps.map Prod.fst := hnd.1
      rw [ih _ hnd.2, if_pos rfl, if_neg hnot, if_pos (Or.inl rfl)]; rfl
    · have hp' : ¬ sid = p.1 := fun h => hp h.symm
      rw [if_neg hp, ih _ hnd.2]
      by_cases hin : sid ∈ ps.map Prod.fst
      · rw [if_pos hin, if_pos (Or.inr hin)]
      · rw [if_neg hin, if_neg (by rintro (h | h); exact hp' h; exact hin h)]

theorem recipients_nil_of_not_hasNs {s : Rooms.St} {ns : Ns} (hn : hasNs s ns = false) (t : Target)
    (skip : List Sid) : recipients s ns t skip = [] := by
  have hno : ∀ room, roomMembers s ns room = [] := by
    intro room
    unfold roomMembers
    rw [List.map_eq_nil_iff, List.filter_eq_nil_iff]
    intro e he
    simp only [decide_eq_true_eq, not_and]
    intro h1
    exfalso
    have : hasNs s ns = true := hasNs_iff.mpr ⟨e, he, h1⟩
    rw [hn] at this; cases this
  unfold recipients participants
  cases t with
  | all => simp [hno]
  | one r => simp [hno]
  | many rs =>
    have : ∀ acc, rs.foldl (fun acc r => mergeBySid acc (roomMembers s ns (some r))) acc = acc := by
      induction rs with
      | nil => intro acc; rfl
      | cons r rs ih => intro acc; rw [List.foldl_cons, hno, mergeBySid, ih]
    simp [this]

theorem recipients_fst_nodup {s : Rooms.St} (h : Inv s) (ns : Ns) (t : Target) (skip : List Sid) :
    ((recipients s ns t skip).map Prod.fst).Nodup := by
  unfold recipients
  have := h.participants_nodup ns t
  rw [List.nodup_iff_pairwise_ne] at this ⊢
  rw [List.pairwise_map] at this ⊢
  exact this.filter _

/-- each client sees an emit at most once, and exactly when it is a recipient -/
theorem seenBy_emitLocal (h : Host) (hinv : Inv h.rooms) (ns : Ns) (t : Target) (skip : List Sid)
    (ev : J) (args : List J) (cb : Option Cb) (sid : Sid) :
    seenBy sid (emitLocal h ns t skip ev args cb).2 =
      seenEmit h.rooms ns t skip ev args cb.isSome sid := by
  unfold emitLocal seenEmit
  split
  · rename_i hn
    simp only [Bool.not_eq_true'] at hn
    simp [recipients_nil_of_not_hasNs hn, seenBy]
  · cases cb with
    | none => exact seenBy_map_send h.id ns ev args sid _ (recipients_fst_nodup hinv ns t skip)
    | some c => exact seenBy_sendCb c ns ev args sid h _ (recipients_fst_nodup hinv ns t skip)

theorem discEvents_sendCb (cb : Cb) (ns : Ns) (ev : J) (args : List J) (h : Host)
    (l : List (Sid × Eio)) : discEvents (sendCb cb ns ev args h l).2 = [] := by
  induction l generalizing h with
  | nil => rfl
  | cons p ps ih => simp only [sendCb, discEvents, ih]

theorem discEvents_emitLocal (h : Host) (ns : Ns) (t : Target) (skip : List Sid) (ev : J)
    (args : List J) (cb : Option Cb) : discEvents (emitLocal h ns t skip ev args cb).2 = [] := by
  unfold emitLocal
  split
  · rfl
  · cases cb with
    | none =>
      simp only
      generalize recipients h.rooms ns t skip = l
      induction l with
      | nil => rfl
      | cons p ps ih => simp only [List.map_cons, discEvents, ih]
    | some c => exact discEvents_sendCb c ns ev args h _

/-! ### `trigger_callback` touches neither rooms nor clients -/

theorem trigger_seen (fuel : Nat) (h : Host) (key : Str) (id : Nat) (args : Option (List J))
    (sid : Sid) : seenBy sid (trigger fuel h key id args).outs = [] ∧
      discEvents (trigger fuel h key id args).outs = [] ∧
      AllCb (trigger fuel h key id args).pubs ∧ askedIn (trigger fuel h key id args).outs = [] := by
  induction fuel generalizing h key id with
  | zero => exact ⟨rfl, rfl, AllCb.nil, rfl⟩
  | succ n ih =>
    unfold trigger
    split
    · exact ⟨rfl, rfl, AllCb.nil, rfl⟩
    · rename_i cb _
      cases args with
      | none => exact ⟨rfl, rfl, AllCb.nil, rfl⟩
      | some xs =>
        cases cb with
        | user tok => exact ⟨rfl, rfl, AllCb.nil, rfl⟩
        | relay origin key' ns' id' =>
          simp only
          split
          · exact ih _ _ _
          · refine ⟨rfl, rfl, ?_, rfl⟩
            intro m hm
            simp only [List.mem_singleton] at hm
            subst hm; rfl

/-! ### one well-formed entry through the listener -/

theorem listenMsg_eq_dispatch {h : Host} {m : Msg} (he : (dispatch h m.toD).err = none) :
    listenMsg h m = dispatch h m.toD := by
  unfold listenMsg
  simp only [he]

theorem dispatch_callback (h : Host) (origin : Option HostId) (key : Str) (ns : Ns) (id : Nat)
    (args : List J) :
    dispatch h (Msg.callback origin key ns id args).toD =
      if origin = some h.id then trigger chainFuel h key id (some args) else { h := h } := by
  by_cases hq : origin = some h.id <;> simp [Msg.toD, dispatch, handleCallback, hq]

theorem listenMsg_callback (h : Host) (origin : Option HostId) (key : Str) (ns : Ns) (id : Nat)
    (args : List J) :
    listenMsg h (.callback origin key ns id args) =
      if origin = some h.id then trigger chainFuel h key id (some args) else { h := h } := by
  have hd := dispatch_callback h origin key ns id args
  have he : (dispatch h (Msg.callback origin key ns id args).toD).err = none := by
    rw [hd]
    split
    · exact trigger_err_none _ _ _ _ _
    · rfl
  rw [listenMsg_eq_dispatch he, hd]

/-- the relay that `_handle_emit` builds from the token in the message -/
def relayOf (o : HostId) : Option (Str × Ns × Nat) → Option Cb
  | none => none
  | some (k, n, i) => some (.relay (some o) k n i)

theorem dispatch_own (h : Host) (m : DMsg) (hown : m.hostId = some h.id)
    (hm : m.method ≠ some mCallback) : dispatch h m = { h := h } := by
  simp [dispatch, hm, hown]

theorem dispatch_emit (h : Host) (o : HostId) (ev : Str) (d : Data) (ns : Ns) (to : Target)
    (skip : Skip) (cb : Option (Str × Ns × Nat)) (ho : o ≠ h.id) (hok : Target.ok to) :
    dispatch h (Msg.emit o ev d ns to skip cb).toD =
      { h := (emitLocal h ns to skip.toList (.str ev) d.pack (relayOf o cb)).1,
        outs := (emitLocal h ns to skip.toList (.str ev) d.pack (relayOf o cb)).2 } := by
  have ho' : ¬ (some o = some h.id) := by simpa using ho
  have htk := target_ok hok
  simp only [Msg.toD, dispatch, Option.some.injEq, mEmit_ne_mCallback, if_false, ho', if_true,
    handleEmit, htk]
  cases cb with
  | none =>
    simp only [relayOf]
    cases hn : hasNs h.rooms ns <;> simp [emitLocal, hn]
  | some c =>
    obtain ⟨k, n, i⟩ := c
    simp only [relayOf]
    cases hn : hasNs h.rooms ns <;> simp [emitLocal, hn]

theorem dispatch_disconnect (h : Host) (o : HostId) (sid : Sid) (ns : Ns) (ho : o ≠ h.id) :
    dispatch h (Msg.disconnect o sid ns).toD = localDisconnect h sid ns := by
  have ho' : ¬ (some o = some h.id) := by simpa using ho
  simp only [Msg.toD, dispatch, Option.some.injEq, mDisconnect_ne_mCallback, mDisconnect_ne_mEmit, if_false, if_true, ho',
    handleDisconnect, connectedFld, Host.connected]
  by_cases hc : (eioOf h.rooms ns sid).isSome = true
  · simp only [hc, if_true]
  · have hn : eioOf h.rooms ns sid = none := by simpa using hc
    simp [hn, localDisconnect]

theorem dispatch_enterRoom (h : Host) (o : HostId) (sid : Sid) (ns : Ns) (room : Room)
    (ho : o ≠ h.id) :
    dispatch h (Msg.enterRoom o sid ns room).toD =
      match eioOf h.rooms ns sid with
      | some eio => { h := { h with rooms := add h.rooms ⟨ns, some room, sid, eio⟩ } }
      | none => { h := h } := by
  have ho' : ¬ (some o = some h.id) := by simpa using ho
  simp only [Msg.toD, dispatch, Option.some.injEq, mEnterRoom_ne_mCallback, mEnterRoom_ne_mEmit, mEnterRoom_ne_mDisconnect,
    if_false, if_true, ho', handleEnterRoom, connectedFld, Host.connected]
  by_cases hc : (eioOf h.rooms ns sid).isSome = true
  · simp only [hc, if_true]
    cases hq : eioOf h.rooms ns sid <;> rfl
  · have hn : eioOf h.rooms ns sid = none := by simpa using hc
    simp [hn]

theorem dispatch_leaveRoom (h : Host) (o : HostId) (sid : Sid) (ns : Ns) (room : Room)
    (ho : o ≠ h.id) :
    dispatch h (Msg.leaveRoom o sid ns room).toD =
      if h.connected ns sid then { h := { h with rooms := Rooms.leave h.rooms ns sid (some room) } }
      else { h := h } := by
  have ho' : ¬ (some o = some h.id) := by simpa using ho
  simp only [Msg.toD, dispatch, Option.some.injEq, mLeaveRoom_ne_mCallback, mLeaveRoom_ne_mEmit, mLeaveRoom_ne_mDisconnect,
    mLeaveRoom_ne_mEnterRoom, if_false, if_true, ho', handleLeaveRoom, connectedFld]
  cases hq : h.connected ns sid <;> simp

theorem dispatch_closeRoom (h : Host) (o : HostId) (ns : Ns) (room : Room) (ho : o ≠ h.id) :
    dispatch h (Msg.closeRoom o ns room).toD =
      { h := { h with rooms := Rooms.closeRoom h.rooms ns room } } := by
  have ho' : ¬ (some o = some h.id) := by simpa using ho
  simp only [Msg.toD, dispatch, Option.some.injEq, mCloseRoom_ne_mCallback, mCloseRoom_ne_mEmit, mCloseRoom_ne_mDisconnect,
    mCloseRoom_ne_mEnterRoom, mCloseRoom_ne_mLeaveRoom, if_false, if_true, ho', handleCloseRoom]

/-- the host id that published a (non-`callback`) entry -/
def Msg.origin : Msg → Option HostId
  | .emit o .. => some o
  | .callback o .. => o
  | .disconnect o .. => some o
  | .enterRoom o .. => some o
  | .leaveRoom o .. => some o
  | .closeRoom o .. => some o

/-- a host skips its own entries (all but `callback`) -/
theorem listenMsg_own (h : Host) (m : Msg) (hm : m.isCb = false) (ho : m.origin = some h.id) :
    listenMsg h m = { h := h } := by
  have key : dispatch h m.toD = { h := h } := by
    apply dispatch_own
    · cases m <;> simp_all [Msg.toD, Msg.origin]
    · cases m <;> simp_all [Msg.toD, Msg.isCb]
  rw [listenMsg_eq_dispatch, key]
  rw [key]

/-- the room table after a host has applied a channel entry -/
def roomsAfter (hid : HostId) (r : Rooms.St) : Msg → Rooms.St
  | .emit .. => r
  | .callback .. => r
  | .disconnect o sid ns => if o = hid then r else Rooms.disconnect r ns sid
  | .enterRoom o sid ns room =>
    if o = hid then r else
      match eioOf r ns sid with
      | some eio => add r ⟨ns, some room, sid, eio⟩
      | none => r
  | .leaveRoom o sid ns room => if o = hid then r else Rooms.leave r ns sid (some room)
  | .closeRoom o ns room => if o = hid then r else Rooms.closeRoom r ns room

/-- what client `sid` sees when a host applies a channel entry -/
def seenAfter (hid : HostId) (r : Rooms.St) (sid : Sid) : Msg → List Seen
  | .emit o ev d ns to skip cb =>
    if o = hid then [] else seenEmit r ns to skip.toList (.str ev) d.pack cb.isSome sid
  | .disconnect o sid' ns =>
    if o = hid then [] else if sid' = sid ∧ (eioOf r ns sid').isSome then [.disconnect ns] else []
  | _ => []

/-- the disconnect handlers that run when a host applies a channel entry -/
def discAfter (hid : HostId) (r : Rooms.St) : Msg → List (Sid × Ns)
  | .disconnect o sid ns => if o = hid then [] else if (eioOf r ns sid).isSome then [(sid, ns)] else []
  | _ => []

theorem disconnect_noop_of_not_connected {s : Rooms.St} (hinv : Inv s) {ns : Ns} {sid : Sid}
    (hn : eioOf s ns sid = none) : Rooms.disconnect s ns sid = s := by
  unfold Rooms.disconnect
  rw [List.filter_eq_self]
  intro e he
  have := hinv.no_entry_of_eioOf_none hn e he
  simp only [Bool.not_eq_true', decide_eq_false_iff_not, not_and]
  exact this

theorem leave_noop_of_not_connected {s : Rooms.St} (hinv : Inv s) {ns : Ns} {sid : Sid}
    (room : Option Room) (hn : eioOf s ns sid = none) : Rooms.leave s ns sid room = s := by
  unfold Rooms.leave
  rw [List.filter_eq_self]
  intro e he
  have := hinv.no_entry_of_eioOf_none hn e he
  simp only [Bool.not_eq_true', decide_eq_false_iff_not, not_and]
  intro h1 _
  exact this h1

theorem relayOf_isSome (o : HostId) (cb : Option (Str × Ns × Nat)) :
    (relayOf o cb).isSome = cb.isSome := by
  cases cb with
  | none => rfl
  | some c => obtain ⟨k, n, i⟩ := c; rfl

/-- everything one non-`callback` entry does to a host -/
theorem listenMsg_effect (h : Host) (hinv : Inv h.rooms) (m : Msg) (hm : m.isCb = false)
    (hok : ∀ o ev d ns to skip cb, m = .emit o ev d ns to skip cb → Target.ok to) :
    (listenMsg h m).h.rooms = roomsAfter h.id h.rooms m ∧
    (listenMsg h m).h.id = h.id ∧ (listenMsg h m).h.cursor = h.cursor ∧
    (listenMsg h m).pubs = [] ∧
    (∀ sid, seenBy sid (listenMsg h m).outs = seenAfter h.id h.rooms sid m) ∧
    discEvents (listenMsg h m).outs = discAfter h.id h.rooms m := by
  by_cases hown : m.origin = some h.id
  · rw [listenMsg_own h m hm hown]
    cases m <;> simp_all [Msg.origin, roomsAfter, seenAfter, discAfter, seenBy, discEvents]
  · cases m with
    | callback origin key ns id args => cases hm
    | emit o ev d ns to skip cb =>
      have ho : o ≠ h.id := by simpa [Msg.origin] using hown
      have hd := dispatch_emit h o ev d ns to skip cb ho (hok o ev d ns to skip cb rfl)
      rw [listenMsg_eq_dispatch (by rw [hd]), hd]
      have hr := emitLocal_rooms h ns to skip.toList (.str ev) d.pack (relayOf o cb)
      refine ⟨hr.1, hr.2.1, hr.2.2, rfl, ?_, ?_⟩
      · intro sid
        simp only [seenAfter, ho, if_false]
        rw [seenBy_emitLocal h hinv, relayOf_isSome]
      · exact discEvents_emitLocal h ns to _ _ _ _
    | disconnect o sid ns =>
      have ho : o ≠ h.id := by simpa [Msg.origin] using hown
      have hd := dispatch_disconnect h o sid ns ho
      have he : (localDisconnect h sid ns).err = none := by
        unfold localDisconnect; split <;> rfl
      rw [listenMsg_eq_dispatch (by rw [hd]; exact he), hd]
      simp only [roomsAfter, seenAfter, discAfter, ho, if_false, localDisconnect]
      cases hq : eioOf h.rooms ns sid with
      | none => simp [seenBy, discEvents, disconnect_noop_of_not_connected hinv hq]
      | some eio =>
        refine ⟨rfl, rfl, rfl, rfl, ?_, ?_⟩
        · intro x
          by_cases hx : sid = x
          · subst hx; simp [seenBy]
          · simp [seenBy, hx]
        · simp [discEvents]
    | enterRoom o sid ns room =>
      have ho : o ≠ h.id := by simpa [Msg.origin] using hown
      have hd := dispatch_enterRoom h o sid ns room ho
      have he : (dispatch h (Msg.enterRoom o sid ns room).toD).err = none := by
        rw [hd]; split <;> rfl
      rw [listenMsg_eq_dispatch he, hd]
      simp only [roomsAfter, seenAfter, discAfter, ho, if_false]
      cases hq : eioOf h.rooms ns sid <;> simp [seenBy, discEvents]
    | leaveRoom o sid ns room =>
      have ho : o ≠ h.id := by simpa [Msg.origin] using hown
      have hd := dispatch_leaveRoom h o sid ns room ho
      have he : (dispatch h (Msg.leaveRoom o sid ns room).toD).err = none := by
        rw [hd]; split <;> rfl
      rw [listenMsg_eq_dispatch he, hd]
      simp only [roomsAfter, seenAfter, discAfter, ho, if_false, Host.connected]
      by_cases hc : (eioOf h.rooms ns sid).isSome = true
      · simp [hc, seenBy, discEvents]
      · have hq : eioOf h.rooms ns sid = none := by simpa using hc
        simp [hq, seenBy, discEvents, leave_noop_of_not_connected hinv (some room) hq]
    | closeRoom o ns room =>
      have ho : o ≠ h.id := by simpa [Msg.origin] using hown
      have hd := dispatch_closeRoom h o ns room ho
      rw [listenMsg_eq_dispatch (by rw [hd]), hd]
      simp [roomsAfter, seenAfter, discAfter, ho, seenBy, discEvents]

/-- everything a `callback` entry does to a host, as far as rooms and clients are concerned -/
theorem listenMsg_cb_effect (h : Host) (m : Msg) (hm : m.isCb = true) :
    (listenMsg h m).h.rooms = h.rooms ∧ (listenMsg h m).h.id = h.id ∧
    (listenMsg h m).h.cursor = h.cursor ∧ AllCb (listenMsg h m).pubs ∧
    (∀ sid, seenBy sid (listenMsg h m).outs = []) ∧ discEvents (listenMsg h m).outs = [] := by
  cases m with
  | callback origin key ns id args =>
    rw [listenMsg_callback]
    split
    · have := trigger_seen chainFuel h key id (some args)
      exact ⟨trigger_rooms _ _ _ _ _, trigger_id _ _ _ _ _, trigger_cursor _ _ _ _ _,
        (this []).2.2.1, fun sid => (this sid).1, (this []).2.1⟩
    · exact ⟨rfl, rfl, rfl, AllCb.nil, fun _ => rfl, rfl⟩
  | _ => cases hm

end Sio.PubSub
