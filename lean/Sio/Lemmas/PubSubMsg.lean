/-
  Helper lemmas for K6 (pub/sub): what one well-formed channel entry does to a host — to its room
  table, to what each client sees, to what it publishes — and the same for a batch (`catchUp`).
-/
import Sio.Lemmas.PubSubListen
import Sio.Lemmas.RoomsEmit
namespace Sio.PubSub
open Sio.Rooms

/-! ### vocabulary -/

def Msg.isCb : Msg → Bool
  | .callback .. => true
  | _ => false

/-- a list of channel entries that are all `callback` messages -/
def AllCb (ms : List Msg) : Prop := ∀ m ∈ ms, m.isCb = true

theorem AllCb.nil : AllCb [] := by intro m hm; cases hm

theorem AllCb.append {a b : List Msg} (ha : AllCb a) (hb : AllCb b) : AllCb (a ++ b) := by
  intro m hm
  rcases List.mem_append.mp hm with h | h
  · exact ha m h
  · exact hb m h

/-- `to=[]` is not a target an application can name (it is falsy: "everybody") -/
def Target.ok : Target → Prop
  | .many [] => False
  | _ => True

theorem target_ok {t : Target} (h : Target.ok t) : (targetFld t).target = .ok t := by
  cases t with
  | all => rfl
  | one r => rfl
  | many rs =>
    cases rs with
    | nil => exact absurd h (by simp [Target.ok])
    | cons r rs => rfl

/-- the disconnect-handler invocations among the outputs -/
def discEvents : List Out → List (Sid × Ns)
  | [] => []
  | .discHandler _ sid ns :: rest => (sid, ns) :: discEvents rest
  | _ :: rest => discEvents rest

theorem seenBy_append (sid : Sid) (a b : List Out) :
    seenBy sid (a ++ b) = seenBy sid a ++ seenBy sid b := by
  induction a with
  | nil => rfl
  | cons o a ih =>
    cases o <;> simp only [List.cons_append, seenBy, ih] <;> split <;> simp

theorem discEvents_append (a b : List Out) : discEvents (a ++ b) = discEvents a ++ discEvents b := by
  induction a with
  | nil => rfl
  | cons o a ih => cases o <;> simp [discEvents, ih]

theorem appEvents_append (a b : List Out) : appEvents (a ++ b) = appEvents a ++ appEvents b := by
  induction a with
  | nil => rfl
  | cons o a ih => cases o <;> simp [appEvents, ih]

theorem askedIn_append (a b : List Out) : askedIn (a ++ b) = askedIn a ++ askedIn b := by
  induction a with
  | nil => rfl
  | cons o a ih =>
    cases o with
    | send host sid eio f =>
      obtain ⟨ns, ev, args, id⟩ := f
      cases id <;> simp [askedIn, ih]
    | _ => simp [askedIn, ih]

/-! ### `register`, `sendCb`, `emitLocal` leave the room table alone -/

@[simp] theorem register_rooms (h : Host) (k : Str) (cb : Cb) : (register h k cb).1.rooms = h.rooms := rfl
@[simp] theorem register_id (h : Host) (k : Str) (cb : Cb) : (register h k cb).1.id = h.id := rfl
@[simp] theorem register_cursor (h : Host) (k : Str) (cb : Cb) : (register h k cb).1.cursor = h.cursor := rfl

theorem sendCb_rooms (cb : Cb) (ns : Ns) (ev : J) (args : List J) (h : Host) (l : List (Sid × Eio)) :
    (sendCb cb ns ev args h l).1.rooms = h.rooms ∧ (sendCb cb ns ev args h l).1.id = h.id ∧
    (sendCb cb ns ev args h l).1.cursor = h.cursor := by
  induction l generalizing h with
  | nil => exact ⟨rfl, rfl, rfl⟩
  | cons p ps ih =>
    simp only [sendCb]
    have := ih (register h p.1 cb).1
    simpa using this

theorem emitLocal_rooms (h : Host) (ns : Ns) (t : Target) (skip : List Sid) (ev : J) (args : List J)
    (cb : Option Cb) :
    (emitLocal h ns t skip ev args cb).1.rooms = h.rooms ∧
    (emitLocal h ns t skip ev args cb).1.id = h.id ∧
    (emitLocal h ns t skip ev args cb).1.cursor = h.cursor := by
  unfold emitLocal
  split
  · exact ⟨rfl, rfl, rfl⟩
  · cases cb with
    | none => exact ⟨rfl, rfl, rfl⟩
    | some c => exact sendCb_rooms c ns ev args h _

/-! ### what the clients see of an emit -/

/-- what client `sid` sees of one emit applied to a room table -/
def seenEmit (rooms : Rooms.St) (ns : Ns) (t : Target) (skip : List Sid) (ev : J) (args : List J)
    (wantsAck : Bool) (sid : Sid) : List Seen :=
  if sid ∈ (recipients rooms ns t skip).map Prod.fst then [.event ns ev args wantsAck] else []

theorem seenBy_map_send (hid : HostId) (ns : Ns) (ev : J) (args : List J) (sid : Sid)
    (l : List (Sid × Eio)) (hnd : (l.map Prod.fst).Nodup) :
    seenBy sid (l.map (fun p => Out.send hid p.1 p.2 ⟨ns, ev, args, none⟩)) =
      if sid ∈ l.map Prod.fst then [.event ns ev args false] else [] := by
  induction l with
  | nil => rfl
  | cons p ps ih =>
    simp only [List.map_cons, List.nodup_cons] at hnd
    simp only [List.map_cons, seenBy, List.mem_cons]
    by_cases hp : p.1 = sid
    · subst hp
      have hnot : p.1 ∉ ps.map Prod.fst := hnd.1
      rw [ih hnd.2]
      simp [hnot]
    · have hp' : ¬ sid = p.1 := fun h => hp h.symm
      rw [if_neg hp, ih hnd.2]
      simp [hp']

theorem seenBy_sendCb (cb : Cb) (ns : Ns) (ev : J) (args : List J) (sid : Sid) (h : Host)
    (l : List (Sid × Eio)) (hnd : (l.map Prod.fst).Nodup) :
    seenBy sid (sendCb cb ns ev args h l).2 =
      if sid ∈ l.map Prod.fst then [.event ns ev args true] else [] := by
  induction l generalizing h with
  | nil => rfl
  | cons p ps ih =>
    simp only [List.map_cons, List.nodup_cons] at hnd
    simp only [sendCb, seenBy, List.map_cons, List.mem_cons]
    by_cases hp : p.1 = sid
    · subst hp
      have hnot : p.1 ∉ ps.map Prod.fst := hnd.1
      rw [ih _ hnd.2]
      simp [hnot]
    · have hp' : ¬ sid = p.1 := fun h => hp h.symm
      rw [if_neg hp, ih _ hnd.2]
      simp [hp']

theorem recipients_nil_of_not_hasNs {s : Rooms.St} {ns : Ns} (hn : hasNs s ns = false) (t : Target)
    (skip : List Sid) : recipients s ns t skip = [] := by
  have hno : ∀ room, roomMembers s ns room = [] := by
    intro room
    unfold roomMembers
    rw [List.map_eq_nil_iff, List.filter_eq_nil_iff]
    intro e he
    simp only [decide_eq_true_eq, not_and]
    intro h1
    exfalso
    have : hasNs s ns = true := hasNs_iff.mpr ⟨e, he, h1⟩
    rw [hn] at this; cases this
  unfold recipients participants
  cases t with
  | all => simp [hno]
  | one r => simp [hno]
  | many rs =>
    have : ∀ acc, rs.foldl (fun acc r => mergeBySid acc (roomMembers s ns (some r))) acc = acc := by
      induction rs with
      | nil => intro acc; rfl
      | cons r rs ih => intro acc; simp only [List.foldl_cons, hno, mergeBySid, ih]
    simp [this]

theorem recipients_fst_nodup {s : Rooms.St} (h : Inv s) (ns : Ns) (t : Target) (skip : List Sid) :
    ((recipients s ns t skip).map Prod.fst).Nodup := by
  unfold recipients
  have := h.participants_nodup ns t
  rw [List.nodup_iff_pairwise_ne] at this ⊢
  rw [List.pairwise_map] at this ⊢
  exact this.filter _

/-- each client sees an emit at most once, and exactly when it is a recipient -/
theorem seenBy_emitLocal (h : Host) (hinv : Inv h.rooms) (ns : Ns) (t : Target) (skip : List Sid)
    (ev : J) (args : List J) (cb : Option Cb) (sid : Sid) :
    seenBy sid (emitLocal h ns t skip ev args cb).2 =
      seenEmit h.rooms ns t skip ev args cb.isSome sid := by
  unfold emitLocal seenEmit
  split
  · rename_i hn
    simp only [Bool.not_eq_true'] at hn
    simp [recipients_nil_of_not_hasNs hn, seenBy]
  · cases cb with
    | none => exact seenBy_map_send h.id ns ev args sid _ (recipients_fst_nodup hinv ns t skip)
    | some c => exact seenBy_sendCb c ns ev args sid h _ (recipients_fst_nodup hinv ns t skip)

theorem discEvents_sendCb (cb : Cb) (ns : Ns) (ev : J) (args : List J) (h : Host)
    (l : List (Sid × Eio)) : discEvents (sendCb cb ns ev args h l).2 = [] := by
  induction l generalizing h with
  | nil => rfl
  | cons p ps ih => simp only [sendCb, discEvents, ih]

theorem discEvents_emitLocal (h : Host) (ns : Ns) (t : Target) (skip : List Sid) (ev : J)
    (args : List J) (cb : Option Cb) : discEvents (emitLocal h ns t skip ev args cb).2 = [] := by
  unfold emitLocal
  split
  · rfl
  · cases cb with
    | none =>
      simp only
      generalize recipients h.rooms ns t skip = l
      induction l with
      | nil => rfl
      | cons p ps ih => simp only [List.map_cons, discEvents, ih]
    | some c => exact discEvents_sendCb c ns ev args h _

/-! ### `trigger_callback` touches neither rooms nor clients -/

theorem trigger_seen (fuel : Nat) (h : Host) (key : Str) (id : Nat) (args : Option (List J))
    (sid : Sid) : seenBy sid (trigger fuel h key id args).outs = [] ∧
      discEvents (trigger fuel h key id args).outs = [] ∧
      AllCb (trigger fuel h key id args).pubs ∧ askedIn (trigger fuel h key id args).outs = [] := by
  induction fuel generalizing h key id with
  | zero => exact ⟨rfl, rfl, AllCb.nil, rfl⟩
  | succ n ih =>
    unfold trigger
    split
    · exact ⟨rfl, rfl, AllCb.nil, rfl⟩
    · rename_i cb _
      cases args with
      | none => exact ⟨rfl, rfl, AllCb.nil, rfl⟩
      | some xs =>
        cases cb with
        | user tok => exact ⟨rfl, rfl, AllCb.nil, rfl⟩
        | relay origin key' ns' id' =>
          simp only
          split
          · exact ih _ _ _
          · refine ⟨rfl, rfl, ?_, rfl⟩
            intro m hm
            simp only [List.mem_singleton] at hm
            subst hm; rfl

/-! ### one well-formed entry through the listener -/

theorem listenMsg_callback (h : Host) (origin : Option HostId) (key : Str) (ns : Ns) (id : Nat)
    (args : List J) :
    listenMsg h (.callback origin key ns id args) =
      if origin = some h.id then trigger chainFuel h key id (some args) else { h := h } := by
  unfold listenMsg
  simp only [Msg.toD, dispatch, if_true, handleCallback]
  split
  · simp only [trigger_err_none]
  · rfl

/-- the room table after a host has applied a channel entry -/
def roomsAfter (hid : HostId) (r : Rooms.St) : Msg → Rooms.St
  | .emit .. => r
  | .callback .. => r
  | .disconnect o sid ns => if o = hid then r else Rooms.disconnect r ns sid
  | .enterRoom o sid ns room =>
    if o = hid then r else
      match eioOf r ns sid with
      | some eio => add r ⟨ns, some room, sid, eio⟩
      | none => r
  | .leaveRoom o sid ns room => if o = hid then r else Rooms.leave r ns sid (some room)
  | .closeRoom o ns room => if o = hid then r else Rooms.closeRoom r ns room

/-- what client `sid` sees when a host applies a channel entry -/
def seenAfter (hid : HostId) (r : Rooms.St) (sid : Sid) : Msg → List Seen
  | .emit o ev d ns to skip cb =>
    if o = hid then [] else seenEmit r ns to skip.toList (.str ev) d.pack cb.isSome sid
  | .disconnect o sid' ns =>
    if o = hid then [] else if sid' = sid ∧ (eioOf r ns sid').isSome then [.disconnect ns] else []
  | _ => []

/-- the disconnect handlers that run when a host applies a channel entry -/
def discAfter (hid : HostId) (r : Rooms.St) : Msg → List (Sid × Ns)
  | .disconnect o sid ns => if o = hid then [] else if (eioOf r ns sid).isSome then [(sid, ns)] else []
  | _ => []

theorem disconnect_noop_of_not_connected {s : Rooms.St} (hinv : Inv s) {ns : Ns} {sid : Sid}
    (hn : eioOf s ns sid = none) : Rooms.disconnect s ns sid = s := by
  unfold Rooms.disconnect
  rw [List.filter_eq_self]
  intro e he
  have := hinv.no_entry_of_eioOf_none hn e he
  simp only [Bool.not_eq_true', decide_eq_false_iff_not, not_and]
  exact this

theorem leave_noop_of_not_connected {s : Rooms.St} (hinv : Inv s) {ns : Ns} {sid : Sid}
    (room : Option Room) (hn : eioOf s ns sid = none) : Rooms.leave s ns sid room = s := by
  unfold Rooms.leave
  rw [List.filter_eq_self]
  intro e he
  have := hinv.no_entry_of_eioOf_none hn e he
  simp only [Bool.not_eq_true', decide_eq_false_iff_not, not_and]
  intro h1 _
  exact this h1

/-- everything one non-`callback` entry does to a host -/
theorem listenMsg_effect (h : Host) (hinv : Inv h.rooms) (m : Msg) (hm : m.isCb = false)
    (hok : ∀ o ev d ns to skip cb, m = .emit o ev d ns to skip cb → Target.ok to) :
    (listenMsg h m).h.rooms = roomsAfter h.id h.rooms m ∧
    (listenMsg h m).h.id = h.id ∧ (listenMsg h m).h.cursor = h.cursor ∧
    (listenMsg h m).pubs = [] ∧
    (∀ sid, seenBy sid (listenMsg h m).outs = seenAfter h.id h.rooms sid m) ∧
    discEvents (listenMsg h m).outs = discAfter h.id h.rooms m := by
  cases m with
  | callback origin key ns id args => cases hm
  | emit o ev d ns to skip cb =>
    have htk := target_ok (hok o ev d ns to skip cb rfl)
    unfold listenMsg
    simp only [Msg.toD, dispatch, mEmit_ne_mCallback, if_false, roomsAfter, seenAfter, discAfter]
    by_cases ho : o = h.id
    · subst ho; simp [seenBy, discEvents]
    · have ho' : ¬ (some o = some h.id) := by simpa using ho
      simp only [ho', ho, if_false, if_true, handleEmit, htk]
      cases cb with
      | none =>
        simp only
        split
        · rename_i hn
          simp only [Bool.not_eq_true'] at hn
          simp [seenBy, discEvents, seenEmit, recipients_nil_of_not_hasNs hn]
        · have hr := emitLocal_rooms h ns to skip.toList (.str ev) d.pack none
          refine ⟨hr.1, hr.2.1, hr.2.2, rfl, ?_, ?_⟩
          · intro sid; exact seenBy_emitLocal h hinv ns to _ _ _ none sid
          · exact discEvents_emitLocal h ns to _ _ _ none
      | some c =>
        obtain ⟨k, n, i⟩ := c
        simp only
        split
        · rename_i hn
          simp only [Bool.not_eq_true'] at hn
          simp [seenBy, discEvents, seenEmit, recipients_nil_of_not_hasNs hn]
        · have hr := emitLocal_rooms h ns to skip.toList (.str ev) d.pack (some (.relay (some o) k n i))
          refine ⟨hr.1, hr.2.1, hr.2.2, rfl, ?_, ?_⟩
          · intro sid; exact seenBy_emitLocal h hinv ns to _ _ _ _ sid
          · exact discEvents_emitLocal h ns to _ _ _ _
  | disconnect o sid ns =>
    unfold listenMsg
    simp only [Msg.toD, dispatch, mDisconnect_ne_mCallback, mDisconnect_ne_mEmit, if_false, if_true,
      roomsAfter, seenAfter, discAfter]
    by_cases ho : o = h.id
    · subst ho; simp [seenBy, discEvents]
    · have ho' : ¬ (some o = some h.id) := by simpa using ho
      simp only [ho', ho, if_false, handleDisconnect, connectedFld, Host.connected]
      cases hq : eioOf h.rooms ns sid with
      | none =>
        simp [seenBy, discEvents, disconnect_noop_of_not_connected hinv hq]
      | some eio =>
        simp only [Option.isSome_some, if_true, localDisconnect, hq, dropSid]
        refine ⟨rfl, rfl, rfl, rfl, ?_, ?_⟩
        · intro x
          by_cases hx : sid = x
          · subst hx; simp [seenBy]
          · simp [seenBy, hx]
        · simp [discEvents]
  | enterRoom o sid ns room =>
    unfold listenMsg
    simp only [Msg.toD, dispatch, mEnterRoom_ne_mCallback, mEnterRoom_ne_mEmit, mEnterRoom_ne_mDisconnect,
      if_false, if_true, roomsAfter, seenAfter, discAfter]
    by_cases ho : o = h.id
    · subst ho; simp [seenBy, discEvents]
    · have ho' : ¬ (some o = some h.id) := by simpa using ho
      simp only [ho', ho, if_false, handleEnterRoom, connectedFld, Host.connected]
      cases hq : eioOf h.rooms ns sid with
      | none => simp [seenBy, discEvents]
      | some eio => simp [seenBy, discEvents, hq]
  | leaveRoom o sid ns room =>
    unfold listenMsg
    simp only [Msg.toD, dispatch, mLeaveRoom_ne_mCallback, mLeaveRoom_ne_mEmit, mLeaveRoom_ne_mDisconnect,
      mLeaveRoom_ne_mEnterRoom, if_false, if_true, roomsAfter, seenAfter, discAfter]
    by_cases ho : o = h.id
    · subst ho; simp [seenBy, discEvents]
    · have ho' : ¬ (some o = some h.id) := by simpa using ho
      simp only [ho', ho, if_false, handleLeaveRoom, connectedFld, Host.connected]
      cases hq : eioOf h.rooms ns sid with
      | none => simp [seenBy, discEvents, leave_noop_of_not_connected hinv (some room) hq]
      | some eio => simp [seenBy, discEvents]
  | closeRoom o ns room =>
    unfold listenMsg
    simp only [Msg.toD, dispatch, mCloseRoom_ne_mCallback, mCloseRoom_ne_mEmit, mCloseRoom_ne_mDisconnect,
      mCloseRoom_ne_mEnterRoom, mCloseRoom_ne_mLeaveRoom, if_false, if_true, roomsAfter, seenAfter,
      discAfter]
    by_cases ho : o = h.id
    · subst ho; simp [seenBy, discEvents]
    · have ho' : ¬ (some o = some h.id) := by simpa using ho
      simp [ho', ho, handleCloseRoom, seenBy, discEvents]

/-- everything a `callback` entry does to a host, as far as rooms and clients are concerned -/
theorem listenMsg_cb_effect (h : Host) (m : Msg) (hm : m.isCb = true) :
    (listenMsg h m).h.rooms = h.rooms ∧ (listenMsg h m).h.id = h.id ∧
    (listenMsg h m).h.cursor = h.cursor ∧ AllCb (listenMsg h m).pubs ∧
    (∀ sid, seenBy sid (listenMsg h m).outs = []) ∧ discEvents (listenMsg h m).outs = [] := by
  cases m with
  | callback origin key ns id args =>
    rw [listenMsg_callback]
    split
    · have := trigger_seen chainFuel h key id (some args)
      exact ⟨trigger_rooms _ _ _ _ _, trigger_id _ _ _ _ _, trigger_cursor _ _ _ _ _,
        (this []).2.2.1, fun sid => (this sid).1, (this []).2.1⟩
    · exact ⟨rfl, rfl, rfl, AllCb.nil, fun _ => rfl, rfl⟩
  | _ => cases hm

end Sio.PubSub
