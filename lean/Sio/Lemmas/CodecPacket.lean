/-
  C01 — packet level: `decode ∘ encode`, the attachment hand-back, the constructor.
-/
import Sio.Lemmas.CodecBin
import Sio.Lemmas.CodecHdr
namespace Sio

variable {cls : Char → DC}

/-! ### what may follow a header -/

theorem bodyOK_nil (nsp : Option Str) (id natt : Option Nat) : BodyOK cls nsp id natt [] = true := rfl

theorem bodyOK_of_startOK (hcls : AsciiCls cls) (nsp : Option Str) (id natt : Option Nat) {s : Str}
    (h : StartOK s = true) : BodyOK cls nsp id natt s = true := by
  cases s with
  | nil => rfl
  | cons c r =>
    simp only [StartOK, Bool.and_eq_true, decide_eq_true_eq, Bool.not_eq_eq_eq_not, Bool.not_true,
      bne_iff_ne, ne_eq] at h
    obtain ⟨⟨⟨h1, h2⟩, h3⟩, h4⟩ := h
    have : (cls c).isDigit = false := by rw [cls_of_ascii_nondigit hcls h1 h2]; rfl
    simp [BodyOK, this, h3, h4]

theorem startOK_ne_nil {s : Str} (h : StartOK s = true) : s.isEmpty = false := by
  cases s with
  | nil => cases h
  | cons _ _ => rfl

/-! ### `add_attachment` -/

theorem addAttachment_more {pk : Packet} {need : Nat} {got : List J} (b : J)
    (h : got.length + 1 < need) :
    addAttachment ⟨pk, need, got⟩ b = .ok (.more ⟨pk, need, got ++ [b]⟩) := by
  have h1 : ¬ need ≤ got.length := by omega
  have h2 : ¬ need = got.length + 1 := by omega
  simp [addAttachment, h1, h2]; rfl

theorem addAttachment_extra {pk : Packet} {need : Nat} {got : List J} (b : J)
    (h : need ≤ got.length) : addAttachment ⟨pk, need, got⟩ b = .error .valueError := by
  simp [addAttachment, h]

theorem addAttachment_last {pk : Packet} {need : Nat} {got : List J} (b : J) {d r : J}
    (h : got.length + 1 = need) (hd : pk.data = some d) (hr : recon (got ++ [b]) d = .ok r) :
    addAttachment ⟨pk, need, got⟩ b = .ok (.complete { pk with data := some r }) := by
  subst h
  simp [addAttachment, hd, hr, Functor.map, Except.map]

theorem feed_all {pk : Packet} {d r : J} (hd : pk.data = some d) (bs got : List J) (hne : bs ≠ [])
    (hr : recon (got ++ bs) d = .ok r) :
    feed ⟨pk, got.length + bs.length, got⟩ bs = .ok (.inr { pk with data := some r }) := by
  induction bs generalizing got with
  | nil => exact absurd rfl hne
  | cons b bs ih =>
    cases bs with
    | nil =>
      simp only [feed, List.length_cons, List.length_nil]
      rw [addAttachment_last b (by simp) hd hr]; rfl
    | cons b' rest =>
      simp only [feed]
      rw [addAttachment_more b (by simp)]
      have := ih (got ++ [b]) (by simp) (by simpa using hr)
      simp only [List.length_append, List.length_cons, List.length_nil] at this ⊢
      have e : got.length + (rest.length + 1 + 1) = got.length + (0 + 1) + (rest.length + 1) := by
        omega
      rw [e]; exact this

/-! ### encode, then decode -/

theorem isBinType_cases {t : Nat} (h : isBinType t = true) : t = 5 ∨ t = 6 := by
  simp only [isBinType, BINARY_EVENT, BINARY_ACK, Bool.or_eq_true] at h
  rcases h with h | h
  · exact Or.inl (of_decide_eq_true h)
  · exact Or.inr (of_decide_eq_true h)

section
variable {dumps : J → Str} {loads : Str → Except Err J}

theorem decode_of_hdr {s : Str} {h : Hdr} (hh : decodeHdr cls s = .ok h) :
    decode cls loads s = (do
      let d ← (if h.rest.isEmpty then pure none else do let j ← loads h.rest; pure (some j))
      pure (⟨h.type, h.nsp, h.id, d⟩, h.natt)) := by
  simp only [decode, hh]; rfl

/-- decoding a header followed by nothing -/
theorem decode_hdr_nil (hcls : AsciiCls cls) {t : Nat} {nsp : Option Str} {id natt : Option Nat}
    (hwf : WFHdr t nsp id natt = true) :
    decode cls loads (encodeHdr t nsp id natt ++ []) = .ok (⟨t, normNs nsp, id, none⟩, natt.getD 0) := by
  rw [decode_of_hdr (hdr_roundtrip_lem hcls hwf (bodyOK_nil _ _ _))]; rfl

/-- decoding a header followed by the JSON text of `j` -/
theorem decode_hdr_json (hcls : AsciiCls cls) {t : Nat} {nsp : Option Str} {id natt : Option Nat}
    (hwf : WFHdr t nsp id natt = true) {j : J} (hne : (dumps j).isEmpty = false)
    (hs : BodyOK cls nsp id natt (dumps j) = true) (hl : loads (dumps j) = .ok j) :
    decode cls loads (encodeHdr t nsp id natt ++ dumps j)
      = .ok (⟨t, normNs nsp, id, some j⟩, natt.getD 0) := by
  rw [decode_of_hdr (hdr_roundtrip_lem hcls hwf hs)]
  simp only [hne, hl]; rfl

theorem wfHdr_natt {t : Nat} {nsp : Option Str} {id : Option Nat} {n : Nat}
    (h : WFHdr t nsp id none = true) (hn : n < 10 ^ 10) : WFHdr t nsp id (some n) = true := by
  simp only [WFHdr, Bool.and_eq_true, decide_eq_true_eq] at h ⊢
  exact ⟨h.1, hn⟩

theorem wf_unpack {p : Packet} (h : WFCore p = true) :
    WFHdr p.type p.nsp p.id none = true ∧
    optAll NoReservedKey p.data = true ∧ (isBinType p.type = true ∨ optAll NoBin p.data = true) ∧
    optAll (fun j => decide ((binLeaves j).length < 10 ^ 10)) p.data = true := by
  simp only [WFCore, Bool.and_eq_true, Bool.or_eq_true] at h
  obtain ⟨⟨⟨h1, h3⟩, h4⟩, h5⟩ := h
  exact ⟨h1, h3, h4, h5⟩

theorem wf_core {p : Packet} (h : WF p = true) : WFCore p = true := by
  simp only [WF, Bool.and_eq_true] at h; exact h.1

theorem wf_topOK {p : Packet} (h : WF p = true) : optAll TopOK p.data = true := by
  simp only [WF, Bool.and_eq_true] at h; exact h.2

/-- `encode` spelled out on well-formed packets -/
theorem encode_plain {p : Packet} (h : isBinType p.type = false) :
    encode dumps p = (encodeHdr p.type p.nsp p.id none
      ++ (match p.data with | some j => dumps j | none => []), none) := by
  simp [encode, h]; rfl

theorem encode_bin_some {p : Packet} (h : isBinType p.type = true) {j : J} (hd : p.data = some j) :
    encode dumps p = (encodeHdr p.type p.nsp p.id (some (binLeaves j).length)
      ++ dumps (decon j []).1, some (binLeaves j)) := by
  simp [encode, h, hd, decon_snd]

theorem encode_bin_none {p : Packet} (h : isBinType p.type = true) (hd : p.data = none) :
    encode dumps p = (encodeHdr p.type p.nsp p.id (some 0) ++ [], some []) := by
  simp [encode, h, hd]

theorem wire_data_plain {p : Packet} (h : isBinType p.type = false) : p.wire.data = p.data := by
  simp [Packet.wire, h]

theorem wire_data_bin {p : Packet} (h : isBinType p.type = true) :
    p.wire.data = p.data.map (fun j => (decon j []).1) := by
  simp [Packet.wire, h]

/-- the text frame decodes to the wire packet and announces the right number of attachments.
    The JSON layer enters only at the one value that is printed: the wire payload. -/
theorem decode_encode (hcls : AsciiCls cls) {p : Packet}
    (hrt : ∀ j, p.wire.data = some j → loads (dumps j) = .ok j)
    (hbody : ∀ j, p.wire.data = some j → PayloadOK cls p (dumps j) = true)
    (hwf : WFCore p = true) :
    decode cls loads (encode dumps p).1 = .ok (p.wire, ((encode dumps p).2.getD []).length) := by
  obtain ⟨hh, _, _, hlen⟩ := wf_unpack hwf
  have hb' : ∀ j, p.wire.data = some j →
      (dumps j).isEmpty = false ∧ BodyOK cls p.nsp p.id p.nattField (dumps j) = true := by
    intro j h
    have := hbody j h
    simp only [PayloadOK, Bool.and_eq_true, Bool.not_eq_eq_eq_not, Bool.not_true] at this
    exact this
  cases hb : isBinType p.type with
  | false =>
    have hwd := wire_data_plain (p := p) (by simpa using hb)
    have hnf : p.nattField = none := by simp [Packet.nattField, hb]
    rw [encode_plain (by simpa using hb)]
    cases hd : p.data with
    | none =>
      have : p.wire = ⟨p.type, normNs p.nsp, p.id, none⟩ := by
        simp [Packet.wire, Packet.norm, hb, hd]
      rw [this]; exact decode_hdr_nil hcls hh
    | some j =>
      have : p.wire = ⟨p.type, normNs p.nsp, p.id, some j⟩ := by
        simp [Packet.wire, Packet.norm, hb, hd]
      rw [this]
      rw [hd] at hwd
      have := hb' j hwd
      rw [hnf] at this
      exact decode_hdr_json hcls hh this.1 this.2 (hrt j hwd)
  | true =>
    have hwd := wire_data_bin (p := p) (by simpa using hb)
    cases hd : p.data with
    | none =>
      rw [encode_bin_none (by simpa using hb) hd]
      have : p.wire = ⟨p.type, normNs p.nsp, p.id, none⟩ := by
        simp [Packet.wire, Packet.norm, hb, hd]
      rw [this]
      exact decode_hdr_nil hcls (wfHdr_natt hh (by decide))
    | some j =>
      have hnf : p.nattField = some (binLeaves j).length := by simp [Packet.nattField, hb, hd]
      rw [encode_bin_some (by simpa using hb) hd]
      rw [hd] at hlen hwd
      simp only [optAll, decide_eq_true_eq] at hlen
      have : p.wire = ⟨p.type, normNs p.nsp, p.id, some (decon j []).1⟩ := by
        simp [Packet.wire, Packet.norm, hb, hd]
      rw [this]
      simp only [Option.getD_some]
      have := hb' _ hwd
      rw [hnf] at this
      exact decode_hdr_json hcls (wfHdr_natt hh hlen) this.1 this.2 (hrt _ hwd)

/-- `StartOK` texts may follow any header -/
theorem payloadOK_of_startOK (hcls : AsciiCls cls) (p : Packet) {s : Str} (h : StartOK s = true) :
    PayloadOK cls p s = true := by
  simp [PayloadOK, startOK_ne_nil h, bodyOK_of_startOK hcls _ _ _ h]

/-- the global form of the two JSON hypotheses implies the pointwise one used above -/
theorem wire_json_hyps {p : Packet} (hwf : WF p = true) {j : J} (h : p.wire.data = some j) :
    NoBin j = true ∧ TopOK j = true := by
  obtain ⟨_, _, hbin, _⟩ := wf_unpack (wf_core hwf)
  have htop := wf_topOK hwf
  cases hb : isBinType p.type with
  | false =>
    rw [wire_data_plain (by simpa using hb)] at h
    simp only [hb, Bool.false_eq_true, false_or] at hbin
    rw [h] at hbin htop
    exact ⟨hbin, htop⟩
  | true =>
    rw [wire_data_bin (by simpa using hb)] at h
    cases hd : p.data with
    | none => rw [hd] at h; cases h
    | some j' =>
      rw [hd] at h htop
      simp only [Option.map_some, Option.some.injEq] at h
      subst h
      exact ⟨noBin_decon j' [], topOK_decon j' [] htop⟩

/-- the attachments of a well-formed packet rebuild its payload -/
theorem recon_wire {p : Packet} (hwf : WFCore p = true) {j : J} (hd : p.data = some j) :
    recon ((binLeaves j).map J.bin) (decon j []).1 = .ok j := by
  obtain ⟨_, hres, _, _⟩ := wf_unpack hwf
  simp only [hd, optAll] at hres
  have := recon_decon_gen j [] [] hres
  simpa [decon_snd] using this

theorem encode_atts_nil_of_plain {p : Packet} (h : isBinType p.type = false) :
    (encode dumps p).2.getD [] = [] := by
  rw [encode_plain h]; rfl

/-- `roundtrip`, second half: feeding the attachments -/
theorem feed_encode {p : Packet} (hwf : WFCore p = true) :
    feed ⟨p.wire, ((encode dumps p).2.getD []).length, []⟩ (((encode dumps p).2.getD []).map J.bin)
      = .ok (if (encode dumps p).2.getD [] = [] then .inl ⟨p.norm, 0, []⟩ else .inr p.norm) := by
  cases hb : isBinType p.type with
  | false =>
    have hw : p.wire = p.norm := by simp [Packet.wire, hb, Packet.norm]
    rw [encode_plain (by simpa using hb), hw]; rfl
  | true =>
    cases hd : p.data with
    | none =>
      have hw : p.wire = p.norm := by simp [Packet.wire, hb, hd, Packet.norm]
      rw [encode_bin_none (by simpa using hb) hd, hw]; rfl
    | some j =>
      rw [encode_bin_some (by simpa using hb) hd]
      simp only [Option.getD_some]
      by_cases hl : binLeaves j = []
      · have hnb : NoBin j = true := (noBin_iff_leaves j).mpr hl
        have hw : p.wire = p.norm := by
          simp [Packet.wire, hb, hd, Packet.norm, decon_noBin j [] hnb]
        simp only [hl, hw, if_true]; rfl
      · have hwd : p.wire.data = some (decon j []).1 := by simp [Packet.wire, hb, hd]
        have hne : (binLeaves j).map J.bin ≠ [] := by simpa using hl
        have := feed_all (pk := p.wire) hwd ((binLeaves j).map J.bin) [] hne
          (by simpa using recon_wire hwf hd)
        simp only [List.length_nil, Nat.zero_add, List.length_map] at this
        rw [this]
        simp only [hl, if_false]
        congr 2
        simp [Packet.wire, Packet.norm, hd]

/-- `handback`: each attachment but the last is answered "more", the last one "complete". -/
theorem handback_split {p : Packet} (hwf : WFCore p = true) (pre post : List J) (b : J)
    (hsplit : ((encode dumps p).2.getD []).map J.bin = pre ++ b :: post) :
    addAttachment ⟨p.wire, ((encode dumps p).2.getD []).length, pre⟩ b
      = .ok (if post = [] then .complete p.norm
             else .more ⟨p.wire, ((encode dumps p).2.getD []).length, pre ++ [b]⟩) := by
  have hlen : ((encode dumps p).2.getD []).length = pre.length + (post.length + 1) := by
    have := congrArg List.length hsplit
    simpa using this
  cases hb : isBinType p.type with
  | false =>
    rw [encode_atts_nil_of_plain (by simpa using hb)] at hsplit
    simp at hsplit
  | true =>
    cases hd : p.data with
    | none =>
      rw [encode_bin_none (by simpa using hb) hd] at hsplit
      simp at hsplit
    | some j =>
      rw [hlen]
      rw [encode_bin_some (by simpa using hb) hd] at hsplit
      simp only [Option.getD_some] at hsplit
      cases post with
      | nil =>
        have hwd : p.wire.data = some (decon j []).1 := by simp [Packet.wire, hb, hd]
        have hr : recon (pre ++ [b]) (decon j []).1 = .ok j := by
          rw [← hsplit]; exact recon_wire hwf hd
        rw [addAttachment_last b (by simp) hwd hr]
        simp only [if_true]
        congr 2
        simp [Packet.wire, Packet.norm, hd]
      | cons b' rest =>
        rw [addAttachment_more b (by simp)]
        simp

theorem handback_extra (pk : Packet) (atts : List J) (x : J) :
    addAttachment ⟨pk, atts.length, atts⟩ x = .error .valueError :=
  addAttachment_extra x (Nat.le_refl _)

end

/-! ### the constructor -/

theorem mkPacket_error_iff (t : Nat) (d : Option J) (nsp : Option Str) (id : Option Nat) :
    (∃ e, mkPacket true t d nsp id none = .error e) ↔
      ((∃ j, d = some j ∧ binLeaves j ≠ []) ∧ t ≠ EVENT ∧ t ≠ ACK) := by
  cases d with
  | none => simp [mkPacket]
  | some j =>
    by_cases hb : j.isBinary = true
    · have hl := (isBinary_iff_leaves j).mp hb
      by_cases h1 : t = EVENT
      · simp [mkPacket, hb, h1]
      · by_cases h2 : t = ACK
        · subst h2; simp [mkPacket, hb, ACK, EVENT]
        · simp [mkPacket, hb, h1, h2, hl]
    · have hl : binLeaves j = [] :=
        Classical.byContradiction fun hne => hb ((isBinary_iff_leaves j).mpr hne)
      simp [mkPacket, hb, hl]

theorem mkPacket_error_valueError (t : Nat) (d : Option J) (nsp : Option Str) (id : Option Nat)
    (b : Option Bool) (e : Err) (h : mkPacket true t d nsp id b = .error e) : e = .valueError := by
  simp only [mkPacket] at h
  repeat' (split at h)
  all_goals simp_all

theorem wf_of_mkPacket {t : Nat} {d : Option J} {nsp : Option Str} {id : Option Nat} {p : Packet}
    (hargs : WFArgs t d nsp id = true) (hmk : mkPacket true t d nsp id none = .ok p) :
    WF p = true := by
  simp only [WFArgs, Bool.and_eq_true] at hargs
  obtain ⟨⟨⟨h1, h2⟩, h3⟩, h4⟩ := hargs
  have h1' := h1
  simp only [WFHdr, Bool.and_eq_true, decide_eq_true_eq] at h1'
  cases d with
  | none =>
    simp [mkPacket] at hmk; subst hmk
    simp [WF, WFCore, h1, optAll]
  | some j =>
    by_cases hb : j.isBinary = true
    · by_cases e1 : t = EVENT
      · simp [mkPacket, hb, e1] at hmk; subst hmk
        simp_all [WF, WFCore, WFHdr, isBinType, BINARY_EVENT, BINARY_ACK, EVENT]
      · by_cases e2 : t = ACK
        · subst e2
          simp [mkPacket, hb, ACK, EVENT] at hmk; subst hmk
          simp_all [WF, WFCore, WFHdr, isBinType, BINARY_EVENT, BINARY_ACK, ACK]
        · simp [mkPacket, hb, e1, e2] at hmk
    · simp [mkPacket, hb] at hmk; subst hmk
      have hnb : NoBin j = true := by
        have := isBinary_eq_not_noBin j
        cases hn : NoBin j with
        | true => rfl
        | false => rw [hn] at this; exact absurd this hb
      simp only [optAll] at h2 h3 h4
      simp [WF, WFCore, h1, h2, h3, h4, optAll, hnb]

end Sio
