/-
  K4 — noninterference (property C12), part 1: `strip t s` — the state without everything of
  transport `t` and without the script counters — is a well-formed state; hostile inputs change it
  only by advancing the session-id counter; what a bystander's frame reads from the state it reads
  from `strip t s` just as well.
-/
import Sio.Lemmas.ServerSess
namespace Sio.Server
open Sio.Rooms

/-- handler outcomes that do not depend on how many handlers ran before (what the C12 harness
    uses: constant scripts) -/
structure Script.Stable (sc : Script) : Prop where
  conn : ∀ n m, sc.onConnect n = sc.onConnect m
  ev : ∀ n m, sc.onEvent n = sc.onEvent m
  disc : ∀ n m, sc.onDisconnect n = sc.onDisconnect m

/-- the state without transport `t`: its room entries, the callbacks and counters of its sessions,
    its environ, socket, partial packet, user sessions; and without script counters, background
    queue and `call()` bookkeeping (which frames never read).  The session-id counter is kept. -/
def strip (t : Eio) (s : Srv) : Srv :=
  { rooms := s.rooms.filter (fun e => e.eio != t),
    pending := s.pending,
    cbs := s.cbs.filter (fun c => !onT s.rooms t c.1),
    ctr := s.ctr.filter (fun c => !onT s.rooms t c.1),
    environ := s.environ.filter (· != t),
    binbuf := s.binbuf.filter (fun e => e.1 != t),
    sess := s.sess.filter (fun e => e.1 != t),
    socks := s.socks.filter (· != t),
    bg := [], nextSid := s.nextSid, nConn := 0, nEv := 0, nDisc := 0, nCall := 0, callDone := [] }

theorem strip_congr {t : Eio} {s s' : Srv}
    (h1 : s'.rooms.filter (fun e => e.eio != t) = s.rooms.filter (fun e => e.eio != t))
    (h2 : s'.pending = s.pending)
    (h3 : s'.cbs.filter (fun c => !onT s'.rooms t c.1) = s.cbs.filter (fun c => !onT s.rooms t c.1))
    (h4 : s'.ctr.filter (fun c => !onT s'.rooms t c.1) = s.ctr.filter (fun c => !onT s.rooms t c.1))
    (h5 : s'.environ.filter (· != t) = s.environ.filter (· != t))
    (h6 : s'.binbuf.filter (fun e => e.1 != t) = s.binbuf.filter (fun e => e.1 != t))
    (h7 : s'.sess.filter (fun e => e.1 != t) = s.sess.filter (fun e => e.1 != t))
    (h8 : s'.socks.filter (· != t) = s.socks.filter (· != t))
    (h9 : s'.nextSid = s.nextSid) : strip t s' = strip t s := by
  simp only [strip, h1, h2, h3, h4, h5, h6, h7, h8, h9]

/-- a state that advanced only its session-id counter -/
def bump (n : Nat) (s : Srv) : Srv := { s with nextSid := s.nextSid + n }

theorem strip_bump (t : Eio) (n : Nat) (s : Srv) : strip t (bump n s) = bump n (strip t s) := rfl

theorem bump_zero (s : Srv) : bump 0 s = s := rfl

theorem bump_bump (a b : Nat) (s : Srv) : bump a (bump b s) = bump (b + a) s := by
  simp [bump, Nat.add_assoc]

theorem WF.bump {s : Srv} (h : WF s) (n : Nat) : WF (bump n s) :=
  ⟨⟨h.rooms, fun e he => by
      obtain ⟨k, hk, hs⟩ := h.sidAlloc e he
      exact ⟨k, Nat.lt_of_lt_of_le hk (Nat.le_add_right _ _), hs⟩,
    h.sidNs, h.cbsLive, h.ctrLive, h.cbsLe, h.cbsNodup, h.binNodup, h.envSocks, h.sessOpen⟩,
    h.pendingNil⟩

/-- equal views and equal `pending`: equal strips up to the session-id counter -/
theorem strip_of_view {t : Eio} {s s' : Srv} (hv : view t s' = view t s)
    (hp : s'.pending = s.pending) (hn : s.nextSid ≤ s'.nextSid) :
    strip t s' = bump (s'.nextSid - s.nextSid) (strip t s) := by
  have v1 : (view t s').rooms = (view t s).rooms := by rw [hv]
  have v2 : (view t s').cbs = (view t s).cbs := by rw [hv]
  have v3 : (view t s').ctr = (view t s).ctr := by rw [hv]
  have v4 : (view t s').environ = (view t s).environ := by rw [hv]
  have v5 : (view t s').socks = (view t s).socks := by rw [hv]
  have v6 : (view t s').binbuf = (view t s).binbuf := by rw [hv]
  have v7 : (view t s').sess = (view t s).sess := by rw [hv]
  simp only [view] at v1 v2 v3 v4 v5 v6 v7
  simp only [strip, bump, v1, v2, v3, v4, v5, v6, v7, hp]
  congr 1
  omega

/-! ### `strip t s` is a well-formed state -/

theorem onT_strip (t : Eio) (r : Rooms.St) (sid : Sid) :
    onT (r.filter (fun e => e.eio != t)) t sid = false := by
  apply not_onT_of_no_entry
  intro e he
  simpa using (List.mem_filter.mp he).2

theorem sidLive_strip {s : Srv} {t : Eio} {sid : Sid} (hl : sidLive s.rooms sid)
    (hon : onT s.rooms t sid = false) : sidLive (s.rooms.filter (fun e => e.eio != t)) sid := by
  obtain ⟨ns, eio, he⟩ := hl
  refine ⟨ns, eio, List.mem_filter.mpr ⟨he, ?_⟩⟩
  have : eio ≠ t := by
    rintro rfl
    have := onT_iff.mpr ⟨_, he, rfl, rfl⟩
    rw [hon] at this; cases this
  simp [this]

theorem WF.strip {s : Srv} (h : WF s) (t : Eio) : WF (strip t s) := by
  have hsub : ∀ e ∈ (Server.strip t s).rooms, e ∈ s.rooms := fun e he =>
    (List.mem_filter.mp (show e ∈ s.rooms.filter (fun e => e.eio != t) from he)).1
  refine ⟨⟨?_, fun e he => h.sidAlloc e (hsub e he),
    fun e₁ h₁ e₂ h₂ => h.sidNs e₁ (hsub e₁ h₁) e₂ (hsub e₂ h₂), ?_, ?_, ?_, ?_, ?_, ?_, ?_⟩,
    h.pendingNil⟩
  · exact h.rooms.filter _ (fun e _ hp => hp)
  · intro c hc
    simp only [Server.strip, List.mem_filter] at hc
    exact sidLive_strip (h.cbsLive c hc.1) (by simpa using hc.2)
  · intro c hc
    simp only [Server.strip, List.mem_filter] at hc
    exact sidLive_strip (h.ctrLive c hc.1) (by simpa using hc.2)
  · intro c hc
    simp only [Server.strip, List.mem_filter] at hc
    have := h.cbsLe c hc.1
    simp only [Server.strip]
    rw [ctrOf_filter_onT (by simpa using hc.2)]
    exact this
  · exact h.cbsNodup.sublist (List.Sublist.map _ List.filter_sublist)
  · exact h.binNodup.sublist (List.Sublist.map _ List.filter_sublist)
  · simp only [Server.strip, h.envSocks]
  · intro e he
    simp only [Server.strip, List.mem_filter] at he ⊢
    exact ⟨h.sessOpen e he.1, he.2⟩

/-! ### what a frame of another transport reads -/

theorem sidOf_strip {r : Rooms.St} {t t' : Eio} (hne : t' ≠ t) (ns : Ns) :
    sidOf (r.filter (fun e => e.eio != t)) ns t' = sidOf r ns t' := by
  unfold sidOf
  congr 1
  induction r with
  | nil => rfl
  | cons a r ih =>
    simp only [List.filter_cons]
    by_cases ha : a.eio = t
    · have hs : ¬ (a.ns = ns ∧ a.room = none ∧ a.eio = t') :=
        fun hq => hne (hq.2.2.symm.trans ha)
      simp only [ha, bne_self_eq_false, Bool.false_eq_true, if_false, List.find?_cons]
      rw [ih]
      have : decide (a.ns = ns ∧ a.room = none ∧ t = t') = false :=
        decide_eq_false (fun hq => hne hq.2.2.symm)
      rw [this]
    · have : (a.eio != t) = true := by simp [ha]
      simp only [this, if_true, List.find?_cons]
      rw [ih]

theorem contains_strip {l : List Eio} {t t' : Eio} (hne : t' ≠ t) :
    (l.filter (· != t)).contains t' = l.contains t' := by
  rw [Bool.eq_iff_iff, List.contains_iff_mem, List.contains_iff_mem, List.mem_filter]
  constructor
  · exact fun h => h.1
  · exact fun h => ⟨h, by simp [hne]⟩

theorem sendTo_strip {t t' : Eio} (hne : t' ≠ t) (s : Srv) (p : Packet) :
    sendTo (strip t s) (some t') p = sendTo s (some t') p := by
  unfold sendTo
  simp only [strip, contains_strip hne]

theorem not_onT_of_sidOf {s : Srv} (h : WF s) {t t' : Eio} (hne : t' ≠ t) {ns : Ns} {sid : Sid}
    (hs : sidOf s.rooms ns t' = some sid) : onT s.rooms t sid = false := by
  obtain ⟨k, rfl, hb⟩ := boundTo_of_eioOf h (sidOf_eioOf h.rooms hs)
  exact not_onT_of_boundTo hb hne

/-! ### inputs of the hostile transport are invisible in `strip t`, up to the id counter -/

theorem lostGo_nextSid {s : Srv} (cfg : Cfg) (t : Eio) (reason : Str) (outs : List Out)
    (nss : List Ns) : (handleLost.go cfg t reason s outs nss).1.nextSid = s.nextSid := by
  induction nss generalizing s outs with
  | nil => rfl
  | cons ns rest ih =>
    unfold handleLost.go
    rw [ih]
    rcases handleDisconnect_state cfg s t ns reason with ⟨h1, _⟩ | ⟨sid, k, _, _, h1⟩ <;>
      rw [h1] <;> rfl

theorem strip_dropTransport (t : Eio) (s : Srv) : strip t (dropTransport s t) = strip t s := by
  simp only [strip, dropTransport, List.filter_filter, Bool.and_self]

/-- the hostile transport's own inputs: its frames, and engine.io opening / losing it -/
def ofT (t : Eio) : Input → Bool
  | .eioConnect t' => t' == t
  | .frame t' _ => t' == t
  | .eioLost t' _ => t' == t
  | _ => false

theorem strip_hostile {s : Srv} (h : WF s) (dec : Str → Except Err (Packet × Nat)) (cfg : Cfg)
    {t : Eio} {i : Input} (hi : ofT t i = true) :
    ∃ d, strip t (step dec cfg s i).1 = bump d (strip t s) := by
  cases i with
  | eioConnect t' =>
    have ht : t = t' := (eq_of_beq hi).symm; subst ht
    refine ⟨0, ?_⟩
    rw [step]
    simp [strip, bump, List.filter_append]
  | frame t' v =>
    have ht : t = t' := (eq_of_beq hi).symm; subst ht
    have hw := h.step dec cfg (.frame t v)
    have hn : s.nextSid ≤ (step dec cfg s (.frame t v)).1.nextSid := by
      have := nextSid_mono h dec cfg [.frame t v]
      rwa [run_cons, run_nil] at this
    refine ⟨_, strip_of_view ?_ (hw.pendingNil.trans h.pendingNil.symm) hn⟩
    rw [step]; exact view_handleFrame h dec cfg t v
  | eioLost t' r =>
    have ht : t = t' := (eq_of_beq hi).symm; subst ht
    refine ⟨0, ?_⟩
    rw [step, handleLost_eq]
    split
    · rfl
    · dsimp only
      rw [strip_dropTransport]
      have hw := h.lostGo cfg t r [] (namespacesOf s.rooms)
      have := strip_of_view (view_lostGo h cfg t r [] (namespacesOf s.rooms))
        (hw.pendingNil.trans h.pendingNil.symm) (Nat.le_of_eq (lostGo_nextSid ..).symm)
      rw [this, lostGo_nextSid, Nat.sub_self]
  | emit _ _ _ _ _ _ | call _ _ _ _ _ | apiDisconnect _ _ | enterRoom _ _ _ | leaveRoom _ _ _
  | closeRoom _ _ | rooms _ _ | getSession _ _ | saveSession _ _ _ | sessionBlock _ _ _ _
  | settle => cases hi

end Sio.Server
