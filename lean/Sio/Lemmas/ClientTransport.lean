/-
  K7 — what never survives the transport (`TInv`), for arbitrary histories.
-/
import Sio.Lemmas.ClientStep
namespace Sio.Client

/-! ### what never survives the transport, in any history whatsoever -/

/-- no session id and no half-received binary packet without a live transport -/
def TInv (c : Cli) : Prop := c.eio = .disconnected → c.binbuf = none ∧ c.sid = none

theorem TInv_init : TInv init := fun _ => ⟨rfl, rfl⟩

theorem tinv_onEioDisconnect (cfg : Cfg) (c : Cli) (r : Str) :
    (onEioDisconnect cfg c r).1.binbuf = none ∧ (onEioDisconnect cfg c r).1.sid = none := by
  unfold onEioDisconnect
  split <;> exact ⟨rfl, rfl⟩

theorem tinv_eioDisconnect (cfg : Cfg) (c : Cli) (r : Str) (h : TInv c) : TInv (eioDisconnect cfg c r).1 := by
  unfold eioDisconnect
  split
  · intro _; exact tinv_onEioDisconnect cfg c r
  · exact h

theorem tinv_onLost (cfg : Cfg) (c : Cli) (h : TInv c) : TInv (onLost cfg c).1 := by
  unfold onLost
  split
  · intro _
    simp only
    have h0 := tinv_onEioDisconnect cfg c rTransport
    rcases startEffort_eq { (onEioDisconnect cfg c rTransport).1 with eio := .disconnected } with he | he <;>
      rw [he] <;> exact h0
  · exact h

theorem tinv_of_fields {c c' : Cli} (h : TInv c) (h1 : c'.eio = c.eio) (h2 : c'.binbuf = c.binbuf)
    (h3 : c'.sid = c.sid) : TInv c' := by
  intro he; rw [h2, h3]; exact h (h1 ▸ he)

theorem handleAck_tfields (c : Cli) (ns : Option Ns) (id : Option Nat) (data : Option J) :
    (handleAck c ns id data).1.eio = c.eio ∧ (handleAck c ns id data).1.binbuf = c.binbuf
    ∧ (handleAck c ns id data).1.sid = c.sid := by
  unfold handleAck
  split
  · simp
  · split <;> simp

theorem tinv_handlePkt (cfg : Cfg) (c : Cli) (p : Packet) (h : TInv c) : TInv (handlePkt cfg c p).1 := by
  unfold handlePkt
  split
  · unfold handleConnect
    simp only
    split
    · exact h
    · split
      · exact h
      · exact tinv_of_fields h rfl rfl rfl
  · split
    · unfold handleDisconnect
      split
      · exact h
      · simp only
        split
        · exact tinv_eioDisconnect cfg _ rClient (tinv_of_fields h rfl rfl rfl)
        · exact tinv_of_fields h rfl rfl rfl
    · split
      · rw [handleEvent_state']; exact h
      · split
        · have f := handleAck_tfields c p.nsp p.id p.data
          exact tinv_of_fields h f.1 f.2.1 f.2.2
        · split
          · unfold handleError
            simp only
            split <;> exact tinv_of_fields h rfl rfl rfl
          · exact h

theorem tinv_deliver (cfg : Cfg) (c : Cli) (e : Ev) (h : TInv c) : TInv (deliver cfg c e).1 := by
  cases e with
  | lost => exact tinv_onLost cfg c h
  | close => exact tinv_eioDisconnect cfg c rServer h
  | msg raw d =>
    simp only [deliver]
    split
    · rename_i he
      unfold onMessage
      split
      · split
        · exact h
        · intro hd; rw [he] at hd; cases hd
        · split
          · rw [handleEvent_state']; intro hd; rw [he] at hd; cases hd
          · have f := handleAck_tfields { c with binbuf := none } ‹Packet›.nsp ‹Packet›.id ‹Packet›.data
            intro hd; rw [f.1, he] at hd; cases hd
      · split
        · exact h
        · split
          · intro hd; rw [he] at hd; cases hd
          · exact tinv_handlePkt cfg c _ h
    · exact h

theorem tinv_deliverAll (cfg : Cfg) (es : List Ev) : ∀ c, TInv c → TInv (deliverAll cfg c es).1 := by
  induction es with
  | nil => intro c h; exact h
  | cons e es ih => intro c h; simp only [deliverAll]; exact ih _ (tinv_deliver cfg c e h)

theorem tinv_apiDisconnect (cfg : Cfg) (c : Cli) (h : TInv c) : TInv (apiDisconnect cfg c).1 := by
  unfold apiDisconnect; exact tinv_eioDisconnect cfg c rClient h

theorem tinv_connectLoop (cfg : Cfg) (auth : J) (nss : List Ns) : ∀ (c : Cli) (rs : List (List Ev)),
    TInv c → TInv (connectLoop cfg auth c nss rs).1 := by
  induction nss with
  | nil => intro c rs h; exact h
  | cons n ns ih =>
    intro c rs h
    simp only [connectLoop]
    split
    · exact ih _ _ (tinv_deliverAll cfg _ c h)
    · exact h

theorem tinv_emitCore (cfg : Cfg) (c : Cli) (ev : Str) (d : Data) (ns : Option Ns) (cb : Option Cb)
    (reacts : List Ev) (h : TInv c) : TInv (emitCore cfg c ev d ns cb reacts).1 := by
  unfold emitCore
  simp only
  split
  · exact h
  · cases cb with
    | none =>
      simp only
      split
      · exact tinv_deliverAll cfg reacts c h
      · exact h
    | some k =>
      simp only
      have hg : TInv (genId c (nsOr ns) k).1 := tinv_of_fields h rfl rfl rfl
      split
      · exact tinv_deliverAll cfg reacts _ hg
      · exact hg

theorem tinv_connect (cfg : Cfg) (c : Cli) (nss : List Ns) (auth : Auth) (wait : Bool) (oc : Outcome)
    (reacts : List (List Ev)) (h : TInv c) : TInv (connect cfg c nss auth wait oc reacts).1 := by
  unfold connect
  split
  · exact h
  · simp only
    split
    · exact tinv_of_fields h rfl rfl rfl
    · cases oc with
      | refuse arg => exact tinv_of_fields h rfl rfl rfl
      | accept es =>
        simp only
        have h1 : TInv { c with requested := nss, namespaces := [], eio := .connected, sid := some es } := by
          intro hd; cases hd
        have h2 := tinv_connectLoop cfg auth.real nss _ reacts h1
        split
        · exact tinv_of_fields (tinv_apiDisconnect cfg _ h2) rfl rfl rfl
        · exact tinv_of_fields h2 rfl rfl rfl

theorem tinv_step (cfg : Cfg) (c : Cli) (i : Input) (h : TInv c) : TInv (step cfg c i).1 := by
  cases i with
  | connect nss auth wait oc reacts => exact tinv_connect cfg c nss auth wait oc reacts h
  | emit ev d ns cb reacts => exact tinv_emitCore cfg c ev d ns cb reacts h
  | send d ns cb reacts => exact tinv_emitCore cfg c sMessage d ns cb reacts h
  | call ev d ns tok reacts =>
    simp only [step, call]
    split
    · exact tinv_emitCore cfg c ev d ns _ reacts h
    · split <;> exact tinv_emitCore cfg c ev d ns _ reacts h
  | disconnect => exact tinv_apiDisconnect cfg c h
  | ev e => exact tinv_deliver cfg c e h

theorem tinv_run (cfg : Cfg) (is : List Input) : ∀ c, TInv c → TInv (run cfg c is).1 := by
  induction is with
  | nil => intro c h; exact h
  | cons i is ih => intro c h; simp only [run]; exact ih _ (tinv_step cfg c i h)

end Sio.Client
