/-
  K4 — noninterference (property C12), part 2: locality.  What a frame of a transport `t' ≠ t`
  does, it does to `strip t s` just as well: same outputs, same successor up to `strip t`.
-/
import Sio.Lemmas.ServerNI
namespace Sio.Server
open Sio.Rooms

set_option linter.unusedSimpArgs false

/-- same outputs, and successor states that agree outside transport `t` -/
def Loc (t : Eio) (x y : Srv × List Out) : Prop := x.2 = y.2 ∧ strip t x.1 = strip t y.1

theorem Loc.refl (t : Eio) (x : Srv × List Out) : Loc t x x := ⟨rfl, rfl⟩

theorem Loc.trans {t : Eio} {x y z : Srv × List Out} (h1 : Loc t x y) (h2 : Loc t y z) : Loc t x z :=
  ⟨h1.1.trans h2.1, h1.2.trans h2.2⟩

theorem Loc.symm {t : Eio} {x y : Srv × List Out} (h : Loc t x y) : Loc t y x := ⟨h.1.symm, h.2.symm⟩

/-! ### filters -/

theorem filter_all_of_no_t {α : Type} {r : Rooms.St} {t : Eio} (h : ∀ e ∈ r, e.eio ≠ t)
    (l : List α) (f : α → Sid) : l.filter (fun c => !onT r t (f c)) = l := by
  rw [List.filter_eq_self]
  intro c _
  simp [not_onT_of_no_entry h]

theorem no_t_strip (t : Eio) (r : Rooms.St) : ∀ e ∈ r.filter (fun e => e.eio != t), e.eio ≠ t := by
  intro e he; simpa using (List.mem_filter.mp he).2

theorem filter_swap {α : Type} (l : List α) (g : α → Bool) {p q : α → Bool}
    (h : ∀ c ∈ l, g c = true → p c = q c) : (l.filter g).filter p = (l.filter q).filter g := by
  rw [List.filter_filter, List.filter_filter]
  apply List.filter_congr
  intro c hc
  by_cases hg : g c = true
  · rw [h c hc hg, hg]; simp
  · simp [hg]

theorem find_filter_of_imp {α : Type} (l : List α) (p q : α → Bool) (h : ∀ x ∈ l, p x = true → q x = true) :
    (l.filter q).find? p = l.find? p := by
  induction l with
  | nil => rfl
  | cons a l ih =>
    have ih' := ih (fun x hx => h x (List.mem_cons_of_mem _ hx))
    simp only [List.filter_cons]
    by_cases hq : q a = true
    · simp only [hq, if_true, List.find?_cons]; rw [ih']
    · have hp : p a = false := by
        rw [Bool.eq_false_iff]; intro hp; exact hq (h a List.mem_cons_self hp)
      simp only [hq, Bool.false_eq_true, if_false, List.find?_cons, hp]; exact ih'

theorem strip_strip (t : Eio) (s : Srv) : strip t (strip t s) = strip t s := by
  have h := no_t_strip t s.rooms
  simp only [strip, List.filter_filter, Bool.and_self, filter_all_of_no_t h]

/-! ### state changes made on behalf of another transport commute with `strip t` -/

theorem strip_counters (t : Eio) (s : Srv) (a b c d : Nat) (bg : List Bg) (cd : List (Nat × List J)) :
    strip t { s with nConn := a, nEv := b, nDisc := c, nCall := d, bg := bg, callDone := cd } =
      strip t s := rfl

theorem filter_add_ne {r : Rooms.St} {t : Eio} {e : Entry} (he : e.eio ≠ t) :
    (Rooms.add r e).filter (fun e => e.eio != t) = Rooms.add (r.filter (fun e => e.eio != t)) e := by
  have hm : e ∈ r.filter (fun e => e.eio != t) ↔ e ∈ r := by
    rw [List.mem_filter]; simp [he]
  unfold Rooms.add
  by_cases h : e ∈ r
  · rw [if_pos h, if_pos (hm.mpr h)]
  · rw [if_neg h, if_neg (fun hh => h (hm.mp hh)), List.filter_append]
    simp [he]

theorem filter_rAC {r : Rooms.St} {t t' : Eio} (hne : t' ≠ t) (ns : Ns) (sid : Sid) :
    (roomsAfterConnect r ns t' sid).filter (fun e => e.eio != t) =
      roomsAfterConnect (r.filter (fun e => e.eio != t)) ns t' sid := by
  unfold roomsAfterConnect
  rw [filter_add_ne (by exact hne), filter_add_ne (by exact hne)]

theorem onT_rAC {r : Rooms.St} {t t' : Eio} (hne : t' ≠ t) (ns : Ns) (sid x : Sid) :
    onT (roomsAfterConnect r ns t' sid) t x = onT r t x := by
  rw [Bool.eq_iff_iff, onT_iff, onT_iff]
  unfold roomsAfterConnect
  constructor
  · rintro ⟨e, he, h1, h2⟩
    rcases mem_add.mp he with he | rfl
    · rcases mem_add.mp he with he | rfl
      · exact ⟨e, he, h1, h2⟩
      · exact absurd h2 hne
    · exact absurd h2 hne
  · rintro ⟨e, he, h1, h2⟩
    exact ⟨e, mem_add.mpr (Or.inl (mem_add.mpr (Or.inl he))), h1, h2⟩

theorem strip_connected {t t' : Eio} (hne : t' ≠ t) (s : Srv) (ns : Ns) (sid : Sid) :
    strip t (connected s (roomsAfterConnect s.rooms ns t' sid)) =
      strip t (connected (strip t s) (roomsAfterConnect (strip t s).rooms ns t' sid)) := by
  apply strip_congr
  · simp only [connected, strip, filter_rAC hne, List.filter_filter, Bool.and_self]
  · rfl
  · simp only [connected, strip, onT_rAC hne, filter_all_of_no_t (no_t_strip t _)]
  · simp only [connected, strip, onT_rAC hne, filter_all_of_no_t (no_t_strip t _)]
  · simp only [connected, strip, List.filter_filter, Bool.and_self]
  · simp only [connected, strip, List.filter_filter, Bool.and_self]
  · simp only [connected, strip, List.filter_filter, Bool.and_self]
  · simp only [connected, strip, List.filter_filter, Bool.and_self]
  · rfl

theorem strip_mgrDisconnect {t : Eio} (s : Srv) (sid : Sid) (ns : Ns) :
    strip t (mgrDisconnect s sid ns) = strip t (mgrDisconnect (strip t s) sid ns) := by
  have hno : ∀ e ∈ Rooms.disconnect (s.rooms.filter (fun e => e.eio != t)) ns sid, e.eio ≠ t := by
    intro e he
    exact no_t_strip t _ e (List.mem_filter.mp he).1
  have hon : ∀ (α : Type) (l : List (Sid × α)), ∀ c ∈ l, (c.1 != sid) = true →
      (!onT (Rooms.disconnect s.rooms ns sid) t c.1) = (!onT s.rooms t c.1) := by
    intro α l c _ hc
    rw [onT_disconnect_ne (by simpa using hc)]
  apply strip_congr
  · simp only [mgrDisconnect, strip, Rooms.disconnect, List.filter_filter]
    apply List.filter_congr; intro e _
    cases (e.eio != t) <;> simp
  · rfl
  · simp only [mgrDisconnect, strip]
    rw [filter_swap _ _ (hon _ s.cbs), filter_all_of_no_t hno]
  · simp only [mgrDisconnect, strip]
    rw [filter_swap _ _ (hon _ s.ctr), filter_all_of_no_t hno]
  · simp only [mgrDisconnect, strip, List.filter_filter, Bool.and_self]
  · simp only [mgrDisconnect, strip, List.filter_filter, Bool.and_self]
  · simp only [mgrDisconnect, strip, List.filter_filter, Bool.and_self]
  · simp only [mgrDisconnect, strip, List.filter_filter, Bool.and_self]
  · rfl

theorem strip_popCb {t : Eio} (s : Srv) (sid : Sid) (i : Nat) :
    strip t (popCb s sid i) = strip t (popCb (strip t s) sid i) := by
  apply strip_congr
  · simp only [popCb, strip, List.filter_filter, Bool.and_self]
  · rfl
  · simp only [popCb, strip]
    rw [filter_swap _ _ (fun _ _ _ => rfl), filter_all_of_no_t (no_t_strip t _)]
  · simp only [popCb, strip, filter_all_of_no_t (no_t_strip t _)]
  · simp only [popCb, strip, List.filter_filter, Bool.and_self]
  · simp only [popCb, strip, List.filter_filter, Bool.and_self]
  · simp only [popCb, strip, List.filter_filter, Bool.and_self]
  · simp only [popCb, strip, List.filter_filter, Bool.and_self]
  · rfl

/-- a change of the reassembly buffer that commutes with dropping `t`'s entry -/
theorem strip_binbuf {t : Eio} (s : Srv) (f : List (Eio × Partial) → List (Eio × Partial))
    (hf : (f s.binbuf).filter (fun e => e.1 != t) =
      (f (s.binbuf.filter (fun e => e.1 != t))).filter (fun e => e.1 != t)) :
    strip t { s with binbuf := f s.binbuf } =
      strip t { strip t s with binbuf := f (strip t s).binbuf } := by
  have h := no_t_strip t s.rooms
  apply strip_congr
  · simp only [strip, List.filter_filter, Bool.and_self]
  · rfl
  · simp only [strip, filter_all_of_no_t h]
  · simp only [strip, filter_all_of_no_t h]
  · simp only [strip, List.filter_filter, Bool.and_self]
  · simp only [strip]; exact hf
  · simp only [strip, List.filter_filter, Bool.and_self]
  · simp only [strip, List.filter_filter, Bool.and_self]
  · rfl

/-! ### the handlers -/

theorem loc_id (t : Eio) (s : Srv) (o : List Out) : Loc t (s, o) (strip t s, o) :=
  ⟨rfl, (strip_strip t s).symm⟩

theorem loc_handleAck {s : Srv} (h : WF s) {t t' : Eio} (hne : t' ≠ t) (nsp : Option Str)
    (id : Option Nat) (data : Option J) :
    Loc t (handleAck s t' nsp id data) (handleAck (strip t s) t' nsp id data) := by
  have hsid : sidOf (strip t s).rooms (nsp.getD ['/']) t' = sidOf s.rooms (nsp.getD ['/']) t' :=
    sidOf_strip hne _
  unfold handleAck
  dsimp only
  rw [hsid]
  cases hs : sidOf s.rooms (nsp.getD ['/']) t' with
  | none => exact loc_id t s []
  | some sid =>
    cases id with
    | none => exact loc_id t s []
    | some i =>
      dsimp only
      have hon := not_onT_of_sidOf h hne hs
      have hfind : (strip t s).cbs.find? (fun c => c.1 = sid ∧ c.2.1 = i) =
          s.cbs.find? (fun c => c.1 = sid ∧ c.2.1 = i) := by
        apply find_filter_of_imp
        intro x _ hx
        simp only [decide_eq_true_eq] at hx
        rw [hx.1, hon]; rfl
      rw [hfind]
      cases hf : s.cbs.find? (fun c => c.1 = sid ∧ c.2.1 = i) with
      | none => exact loc_id t s []
      | some c =>
        obtain ⟨a, b, tok⟩ := c
        dsimp only
        cases starArgs data with
        | error e => exact ⟨rfl, strip_popCb s sid i⟩
        | ok args =>
          cases tok with
          | user n => exact ⟨rfl, strip_popCb s sid i⟩
          | call n => exact ⟨rfl, strip_popCb s sid i⟩

theorem ackFor_strip {t t' : Eio} (hne : t' ≠ t) (s : Srv) (a b : Nat) (ns : Ns) (id : Option Nat)
    (d : Data) :
    ackFor { strip t s with nEv := a } t' ns id d = ackFor { s with nEv := b } t' ns id d := by
  unfold ackFor
  cases id with
  | none => rfl
  | some i =>
    dsimp only
    exact (sendTo_core (s' := { strip t s with nEv := a }) (s := strip t s) rfl _ _).trans
      ((sendTo_strip hne s _).trans
        (sendTo_core (s' := { s with nEv := b }) (s := s) rfl _ _).symm)

theorem ackFor_strip' {t t' : Eio} (hne : t' ≠ t) (s : Srv) (ns : Ns) (id : Option Nat) (d : Data) :
    ackFor (strip t s) t' ns id d = ackFor s t' ns id d := by
  unfold ackFor
  cases id with
  | none => rfl
  | some i => dsimp only; rw [sendTo_strip hne]

theorem loc_runHandler {cfg : Cfg} (hst : cfg.script.Stable) {t : Eio} (s : Srv) (b : Bg)
    (hne : b.eio ≠ t) : Loc t (runHandler cfg s b) (runHandler cfg (strip t s) b) := by
  have hs1 : ∀ a, strip t { s with nEv := a } = strip t { strip t s with nEv := 0 + 1 } := by
    intro a; exact (strip_strip t s).symm
  cases hr : resolve cfg.reg b.ns b.first (.str b.sid :: b.rest) with
  | error e => rw [runHandler_error cfg s b hr, runHandler_error cfg _ b hr]; exact loc_id t s _
  | ok r =>
    cases r with
    | fn slot a =>
      rw [runHandler_handled cfg s b (Or.inl hr), runHandler_handled cfg _ b (Or.inl hr)]
      refine ⟨?_, hs1 _⟩
      dsimp only
      rw [hst.ev (strip t s).nEv s.nEv]
      cases cfg.script.onEvent s.nEv with
      | ret d => dsimp only; rw [ackFor_strip hne]
      | raise => rfl
    | clsCall slot a =>
      rw [runHandler_handled cfg s b (Or.inr hr), runHandler_handled cfg _ b (Or.inr hr)]
      refine ⟨?_, hs1 _⟩
      dsimp only
      rw [hst.ev (strip t s).nEv s.nEv]
      cases cfg.script.onEvent s.nEv with
      | ret d => dsimp only; rw [ackFor_strip hne]
      | raise => rfl
    | clsNoMethod =>
      rw [runHandler_noMethod cfg s b hr, runHandler_noMethod cfg _ b hr, ackFor_strip' hne]
      exact loc_id t s _
    | notHandled =>
      rw [runHandler_notHandled cfg s b hr, runHandler_notHandled cfg _ b hr]
      exact loc_id t s _

theorem loc_handleEvent {cfg : Cfg} (hst : cfg.script.Stable) {s : Srv} (h : WF s) {t t' : Eio}
    (hne : t' ≠ t) (nsp : Option Str) (id : Option Nat) (data : Option J) :
    Loc t (handleEvent cfg s t' nsp id data) (handleEvent cfg (strip t s) t' nsp id data) := by
  have hsid : sidOf (strip t s).rooms (nsp.getD ['/']) t' = sidOf s.rooms (nsp.getD ['/']) t' :=
    sidOf_strip hne _
  cases hd : splitEvent data with
  | error e =>
    have : ∀ s', handleEvent cfg s' t' nsp id data = (s', [.raised e]) := by
      intro s'; unfold handleEvent; rw [hd]
    rw [this, this]; exact loc_id t s _
  | ok p =>
    obtain ⟨first, rest⟩ := p
    cases hs : sidOf s.rooms (nsp.getD ['/']) t' with
    | none =>
      rw [handleEvent_not_connected cfg id hs hd,
        handleEvent_not_connected cfg id (hsid.trans hs) hd]
      exact loc_id t s _
    | some sid =>
      rw [handleEvent_connected h cfg id hs hd,
        handleEvent_connected (h.strip t) cfg id (hsid.trans hs) hd]
      cases cfg.asyncHandlers with
      | true => exact ⟨rfl, (strip_strip t s).symm⟩
      | false => exact loc_runHandler hst s _ hne

/-- what the disconnect path (without the DISCONNECT packet) does, as a function of the handler
    outcome only -/
def discRes (cfg : Cfg) (ns : Ns) (sid : Sid) (reason : Str) (c : DiscRes) : Nat × List Out × Bool :=
  match resolve cfg.reg ns (.str "disconnect".toList) [.str sid, .str reason] with
  | .error _ => (0, [.raised .typeError], true)
  | .ok r =>
    match r with
    | .fn slot a | .clsCall slot a =>
      match c with
      | .ok => (1, [.invoke slot a], false)
      | .raise => (1, [.invoke slot a, .raised .other], true)
    | _ => (0, [], false)

theorem endSession_false_eq (cfg : Cfg) (s : Srv) (sid : Sid) (ns : Ns) (reason : Str) :
    endSession cfg s sid ns reason false =
      (ending s sid ns (discRes cfg ns sid reason (cfg.script.onDisconnect s.nDisc)).1,
        (discRes cfg ns sid reason (cfg.script.onDisconnect s.nDisc)).2.1,
        (discRes cfg ns sid reason (cfg.script.onDisconnect s.nDisc)).2.2) := by
  unfold endSession discRes ending
  dsimp only
  cases resolve cfg.reg ns (.str "disconnect".toList) [.str sid, .str reason] with
  | error e => rfl
  | ok r =>
    cases r <;> dsimp only <;> (try cases cfg.script.onDisconnect s.nDisc) <;> rfl

theorem strip_ending {t : Eio} (s : Srv) (sid : Sid) (ns : Ns) (k k' : Nat) :
    strip t (ending s sid ns k) = strip t (ending (strip t s) sid ns k') := by
  unfold ending
  rw [strip_mgrDisconnect, strip_mgrDisconnect (s := { strip t s with pending := _, nDisc := _ })]
  have : strip t { s with pending := s.pending ++ [(ns, sid)], nDisc := s.nDisc + k } =
      strip t { strip t s with pending := (strip t s).pending ++ [(ns, sid)],
                               nDisc := (strip t s).nDisc + k' } := by
    have h := no_t_strip t s.rooms
    simp only [strip, List.filter_filter, Bool.and_self, filter_all_of_no_t h]
  rw [this]

theorem loc_handleDisconnect {cfg : Cfg} (hst : cfg.script.Stable) {s : Srv} (h : WF s)
    {t t' : Eio} (hne : t' ≠ t) (ns : Ns) (reason : Str) :
    Loc t ((handleDisconnect cfg s t' ns reason).1, (handleDisconnect cfg s t' ns reason).2.1)
      ((handleDisconnect cfg (strip t s) t' ns reason).1,
        (handleDisconnect cfg (strip t s) t' ns reason).2.1) := by
  have hsid : sidOf (strip t s).rooms ns t' = sidOf s.rooms ns t' := sidOf_strip hne _
  unfold handleDisconnect
  rw [hsid]
  cases hs : sidOf s.rooms ns t' with
  | none => exact loc_id t s []
  | some sid =>
    dsimp only
    rw [isConnected_of_sidOf h hs, isConnected_of_sidOf (h.strip t) (hsid.trans hs)]
    simp only [Bool.not_true, Bool.false_eq_true, if_false]
    rw [endSession_false_eq, endSession_false_eq, hst.disc (strip t s).nDisc s.nDisc]
    exact ⟨rfl, strip_ending s sid ns _ _⟩

theorem mem_socks_strip {t t' : Eio} (hne : t' ≠ t) (s : Srv) :
    t' ∈ (strip t s).socks ↔ t' ∈ s.socks := by
  simp only [strip, List.mem_filter]
  constructor
  · exact fun h => h.1
  · exact fun h => ⟨h, by simp [hne]⟩

theorem strip_connectedN {t t' : Eio} (hne : t' ≠ t) (s : Srv) (ns : Ns) (a b : Nat) :
    strip t { connected s (roomsAfterConnect s.rooms ns t' (sidName s.nextSid)) with nConn := a } =
      strip t { connected (strip t s)
        (roomsAfterConnect (strip t s).rooms ns t' (sidName (strip t s).nextSid)) with nConn := b } :=
  strip_connected hne s ns (sidName s.nextSid)

theorem strip_refused {t : Eio} (s : Srv) (a b : Nat) :
    strip t { s with nextSid := s.nextSid + 1, nConn := a } =
      strip t { strip t s with nextSid := (strip t s).nextSid + 1, nConn := b } := by
  have h := no_t_strip t s.rooms
  simp only [strip, List.filter_filter, Bool.and_self, filter_all_of_no_t h]

theorem loc_handleConnect {cfg : Cfg} (hst : cfg.script.Stable) {s : Srv} (h : WF s) {t t' : Eio}
    (hne : t' ≠ t) (nsp : Option Str) (data : Option J) :
    Loc t (handleConnect cfg s t' nsp data) (handleConnect cfg (strip t s) t' nsp data) := by
  have hu := h.strip t
  have hsid : sidOf (strip t s).rooms (nsp.getD ['/']) t' = sidOf s.rooms (nsp.getD ['/']) t' :=
    sidOf_strip hne _
  by_cases hearly : isServed cfg (nsp.getD ['/']) = false ∨
      (sidOf s.rooms (nsp.getD ['/']) t').isSome = true
  · rw [handleConnect_refused_early cfg s t' nsp data hearly,
      handleConnect_refused_early cfg (strip t s) t' nsp data (by rw [hsid]; exact hearly),
      sendTo_strip hne]
    exact loc_id t s _
  · have hs : isServed cfg (nsp.getD ['/']) = true := by
      cases hq : isServed cfg (nsp.getD ['/']) with
      | true => rfl
      | false => exact absurd (Or.inl hq) hearly
    have hn : sidOf s.rooms (nsp.getD ['/']) t' = none := by
      cases hq : sidOf s.rooms (nsp.getD ['/']) t' with
      | none => rfl
      | some x => exact absurd (Or.inr (by rw [hq]; rfl)) hearly
    have hn' := hsid.trans hn
    by_cases ht : t' ∈ s.socks
    · have ht' := (mem_socks_strip hne s).mpr ht
      cases hr : resolve cfg.reg (nsp.getD ['/']) (.str "connect".toList)
          (.str (sidName s.nextSid) :: authArgs data) with
      | error e =>
        rw [handleConnect_resolve_error h cfg data hs hn ht hr,
          handleConnect_resolve_error hu cfg data hs hn' ht' hr]
        exact ⟨rfl, strip_connected hne s _ _⟩
      | ok r =>
        cases r with
        | fn slot a =>
          rw [handleConnect_handler h cfg data hs hn ht (Or.inl hr),
            handleConnect_handler hu cfg data hs hn' ht' (Or.inl hr),
            hst.conn (strip t s).nConn s.nConn]
          cases cfg.script.onConnect s.nConn
          · exact ⟨rfl, strip_connectedN hne s _ _ _⟩
          · exact ⟨rfl, strip_refused s _ _⟩
          · exact ⟨rfl, strip_refused s _ _⟩
          · exact ⟨rfl, strip_connectedN hne s _ _ _⟩
        | clsCall slot a =>
          rw [handleConnect_handler h cfg data hs hn ht (Or.inr hr),
            handleConnect_handler hu cfg data hs hn' ht' (Or.inr hr),
            hst.conn (strip t s).nConn s.nConn]
          cases cfg.script.onConnect s.nConn
          · exact ⟨rfl, strip_connectedN hne s _ _ _⟩
          · exact ⟨rfl, strip_refused s _ _⟩
          · exact ⟨rfl, strip_refused s _ _⟩
          · exact ⟨rfl, strip_connectedN hne s _ _ _⟩
        | clsNoMethod =>
          rw [handleConnect_no_handler h cfg data hs hn ht (Or.inr hr),
            handleConnect_no_handler hu cfg data hs hn' ht' (Or.inr hr)]
          exact ⟨rfl, strip_connected hne s _ _⟩
        | notHandled =>
          rw [handleConnect_no_handler h cfg data hs hn ht (Or.inl hr),
            handleConnect_no_handler hu cfg data hs hn' ht' (Or.inl hr)]
          exact ⟨rfl, strip_connected hne s _ _⟩
    · have ht' : t' ∉ (strip t s).socks := fun hh => ht ((mem_socks_strip hne s).mp hh)
      rw [handleConnect_no_environ h cfg data hs hn ht,
        handleConnect_no_environ hu cfg data hs hn' ht']
      exact ⟨rfl, strip_connected hne s _ _⟩

/-! ### frames -/

theorem handleFrame_tooMany (dec : Str → Except Err (Packet × Nat)) (cfg : Cfg) {s : Srv}
    {t t0 : Eio} {v : J} {part : Partial}
    (hf : s.binbuf.find? (fun e => e.1 = t) = some (t0, part)) (h1 : part.need ≤ part.got.length) :
    handleFrame dec cfg s t v = (s, [.raised .valueError]) := by
  unfold handleFrame; rw [hf]; dsimp only; rw [if_pos h1]

theorem handleFrame_more (dec : Str → Except Err (Packet × Nat)) (cfg : Cfg) {s : Srv}
    {t t0 : Eio} {v : J} {part : Partial}
    (hf : s.binbuf.find? (fun e => e.1 = t) = some (t0, part)) (h1 : ¬ part.need ≤ part.got.length)
    (h2 : part.need ≠ (part.got ++ [v]).length) :
    handleFrame dec cfg s t v = (storeBin s t part v, []) := by
  unfold handleFrame; rw [hf]; dsimp only; rw [if_neg h1, if_neg h2]; rfl

theorem handleFrame_reconErr (dec : Str → Except Err (Packet × Nat)) (cfg : Cfg) {s : Srv}
    {t t0 : Eio} {v : J} {part : Partial} {e : Err}
    (hf : s.binbuf.find? (fun e => e.1 = t) = some (t0, part)) (h1 : ¬ part.need ≤ part.got.length)
    (h2 : part.need = (part.got ++ [v]).length) (h3 : reconData part (part.got ++ [v]) = .error e) :
    handleFrame dec cfg s t v = (storeBin s t part v, [.raised e]) := by
  unfold handleFrame
  rw [hf]
  dsimp only
  rw [if_neg h1, if_pos h2]
  unfold reconData at h3
  cases hd : part.pkt.data with
  | none => rw [hd] at h3; cases h3
  | some j => rw [hd] at h3; dsimp only at h3 ⊢; rw [h3]; rfl

theorem dropBin_strip (t t' : Eio) (s : Srv) : dropBin (strip t s) t' = strip t (dropBin s t') := by
  simp only [dropBin, strip, List.filter_filter, Bool.and_comm]

theorem strip_storeBin {t t' : Eio} (hne : t' ≠ t) (s : Srv) (part : Partial) (v : J) :
    strip t (storeBin s t' part v) = strip t (storeBin (strip t s) t' part v) := by
  refine strip_binbuf s (fun b => setBin b t' { part with got := part.got ++ [v] }) ?_
  have key : ∀ b : List (Eio × Partial),
      (setBin b t' { part with got := part.got ++ [v] }).filter (fun e => e.1 != t) =
        setBin (b.filter (fun e => e.1 != t)) t' { part with got := part.got ++ [v] } := by
    intro b
    induction b with
    | nil => rfl
    | cons a b ih =>
      unfold setBin at ih ⊢
      simp only [List.map_cons, List.filter_cons]
      by_cases ha : a.1 = t'
      · have : (t' != t) = true := by simp [hne]
        have h2 : (a.1 != t) = true := by rw [ha]; exact this
        simp only [ha, if_true, this, h2, List.map_cons, ih]
      · simp only [ha, if_false]
        by_cases hb : (a.1 != t) = true
        · simp only [hb, if_true, List.map_cons, ha, if_false, ih]
        · simp only [hb, if_false, ih]
          rfl
  show (setBin s.binbuf t' _).filter _ = (setBin (s.binbuf.filter _) t' _).filter _
  rw [key, key, List.filter_filter]
  simp only [Bool.and_self]

theorem strip_pushBin {t : Eio} (s : Srv) (x : Eio × Partial) :
    strip t { s with binbuf := s.binbuf ++ [x] } =
      strip t { strip t s with binbuf := (strip t s).binbuf ++ [x] } := by
  refine strip_binbuf s (fun b => b ++ [x]) ?_
  simp only [List.filter_append, List.filter_filter, Bool.and_self]

theorem loc_dispatchPacket {cfg : Cfg} (hst : cfg.script.Stable) {s : Srv} (h : WF s) {t t' : Eio}
    (hne : t' ≠ t) (p : Packet) (n : Nat) :
    Loc t (dispatchPacket cfg s t' p n) (dispatchPacket cfg (strip t s) t' p n) := by
  unfold dispatchPacket
  by_cases h0 : p.type = CONNECT
  · simp only [h0, if_true]; exact loc_handleConnect hst h hne _ _
  · by_cases h1 : p.type = DISCONNECT
    · simp only [h0, h1, if_false, if_true]; exact loc_handleDisconnect hst h hne _ _
    · by_cases h2 : p.type = EVENT
      · simp only [h0, h1, h2, if_false, if_true]; exact loc_handleEvent hst h hne _ _ _
      · by_cases h3 : p.type = ACK
        · simp only [h0, h1, h2, h3, if_false, if_true]; exact loc_handleAck h hne _ _ _
        · by_cases h4 : (p.type = BINARY_EVENT || p.type = BINARY_ACK) = true
          · simp only [h0, h1, h2, h3, h4, if_false, if_true]
            exact ⟨rfl, strip_pushBin s _⟩
          · simp only [h0, h1, h2, h3, h4, if_false]
            exact loc_id t s _

theorem loc_handleFrame {dec : Str → Except Err (Packet × Nat)} {cfg : Cfg} (hst : cfg.script.Stable)
    {s : Srv} (h : WF s) {t t' : Eio} (hne : t' ≠ t) (v : J) :
    Loc t (handleFrame dec cfg s t' v) (handleFrame dec cfg (strip t s) t' v) := by
  have hfind : (strip t s).binbuf.find? (fun e => e.1 = t') = s.binbuf.find? (fun e => e.1 = t') :=
    find_filter_ne _ (fun hh => hne hh.symm)
  cases hf : s.binbuf.find? (fun e => e.1 = t') with
  | none =>
    rw [handleFrame_text dec cfg hf, handleFrame_text dec cfg (hfind.trans hf)]
    cases frameDecode dec v with
    | error e => exact loc_id t s _
    | ok pn => exact loc_dispatchPacket hst h hne pn.1 pn.2
  | some x =>
    obtain ⟨t0, part⟩ := x
    have hf' := hfind.trans hf
    by_cases h1 : part.need ≤ part.got.length
    · rw [handleFrame_tooMany dec cfg hf h1, handleFrame_tooMany dec cfg hf' h1]
      exact loc_id t s _
    · by_cases h2 : part.need = (part.got ++ [v]).length
      · cases h3 : reconData part (part.got ++ [v]) with
        | error e =>
          rw [handleFrame_reconErr dec cfg hf h1 h2 h3, handleFrame_reconErr dec cfg hf' h1 h2 h3]
          exact ⟨rfl, strip_storeBin hne s part v⟩
        | ok d =>
          rw [handleFrame_last dec cfg hf h1 h2 h3, handleFrame_last dec cfg hf' h1 h2 h3,
            dropBin_strip]
          have hw : WF (dropBin s t') := ⟨h.toWF0.filterBin _, h.pendingNil⟩
          by_cases h4 : part.pkt.type = BINARY_EVENT
          · rw [if_pos h4, if_pos h4]; exact loc_handleEvent hst hw hne _ _ _
          · rw [if_neg h4, if_neg h4]; exact loc_handleAck hw hne _ _ _
      · rw [handleFrame_more dec cfg hf h1 h2, handleFrame_more dec cfg hf' h1 h2]
        exact ⟨rfl, strip_storeBin hne s part v⟩

/-- inputs of a bystander transport -/
def ofOther (t : Eio) : Input → Bool
  | .eioConnect t' => t' != t
  | .frame t' _ => t' != t
  | _ => false

/-- **locality**: an input of another transport does to `strip t s` what it does to `s` -/
theorem loc_step {dec : Str → Except Err (Packet × Nat)} {cfg : Cfg} (hst : cfg.script.Stable)
    {s : Srv} (h : WF s) {t : Eio} {i : Input} (hi : ofOther t i = true) :
    Loc t (step dec cfg s i) (step dec cfg (strip t s) i) := by
  cases i with
  | eioConnect t' =>
    rw [step, step]
    refine ⟨rfl, ?_⟩
    have hno := no_t_strip t s.rooms
    simp only [strip, List.filter_append, List.filter_filter, Bool.and_self,
      filter_all_of_no_t hno]
  | frame t' v => rw [step, step]; exact loc_handleFrame hst h (by simpa [ofOther] using hi) v
  | eioLost _ _ | emit _ _ _ _ _ _ | call _ _ _ _ _ | apiDisconnect _ _ | enterRoom _ _ _
  | leaveRoom _ _ _ | closeRoom _ _ | rooms _ _ | getSession _ _ | saveSession _ _ _
  | sessionBlock _ _ _ _ | settle => cases hi

end Sio.Server
