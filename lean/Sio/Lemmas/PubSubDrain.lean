/-
  Helper lemmas for K6 (pub/sub): what a batch of channel entries (`catchUp`, `deliverOn`) and a
  whole drain pass (`drainHosts`) do to the room tables and to what the clients see.  Callback
  entries are transparent for both, so everything is a function of (host id, room table).
-/
import Sio.Lemmas.PubSubMsg
namespace Sio.PubSub
open Sio.Rooms

/-! ### the effect functions over a batch -/

def roomsAfterL (hid : HostId) (r : Rooms.St) (ms : List Msg) : Rooms.St :=
  ms.foldl (roomsAfter hid) r

def seenAfterL (hid : HostId) (r : Rooms.St) (sid : Sid) : List Msg → List Seen
  | [] => []
  | m :: ms => seenAfter hid r sid m ++ seenAfterL hid (roomsAfter hid r m) sid ms

def discAfterL (hid : HostId) (r : Rooms.St) : List Msg → List (Sid × Ns)
  | [] => []
  | m :: ms => discAfter hid r m ++ discAfterL hid (roomsAfter hid r m) ms

/-- every emit in the list names a proper target -/
def EmitsOk (ms : List Msg) : Prop :=
  ∀ m ∈ ms, ∀ o ev d ns to skip cb, m = .emit o ev d ns to skip cb → Target.ok to

theorem EmitsOk.nil : EmitsOk [] := by intro m hm; cases hm

theorem EmitsOk.append {a b : List Msg} (ha : EmitsOk a) (hb : EmitsOk b) : EmitsOk (a ++ b) := by
  intro m hm
  rcases List.mem_append.mp hm with h | h
  · exact ha m h
  · exact hb m h

theorem EmitsOk.of_allCb {a : List Msg} (ha : AllCb a) : EmitsOk a := by
  intro m hm o ev d ns to skip cb he
  have := ha m hm
  subst he; cases this

theorem EmitsOk.sub {a b : List Msg} (ha : EmitsOk a) (hs : ∀ m ∈ b, m ∈ a) : EmitsOk b :=
  fun m hm => ha m (hs m hm)

theorem roomsAfter_cb (hid : HostId) (r : Rooms.St) (m : Msg) (hm : m.isCb = true) :
    roomsAfter hid r m = r := by
  cases m <;> first | rfl | cases hm

theorem seenAfter_cb (hid : HostId) (r : Rooms.St) (sid : Sid) (m : Msg) (hm : m.isCb = true) :
    seenAfter hid r sid m = [] := by
  cases m <;> first | rfl | cases hm

theorem discAfter_cb (hid : HostId) (r : Rooms.St) (m : Msg) (hm : m.isCb = true) :
    discAfter hid r m = [] := by
  cases m <;> first | rfl | cases hm

theorem roomsAfterL_allCb (hid : HostId) (r : Rooms.St) (ms : List Msg) (h : AllCb ms) :
    roomsAfterL hid r ms = r := by
  induction ms generalizing r with
  | nil => rfl
  | cons m ms ih =>
    simp only [roomsAfterL, List.foldl_cons]
    rw [roomsAfter_cb hid r m (h m List.mem_cons_self)]
    exact ih r (fun x hx => h x (List.mem_cons_of_mem _ hx))

theorem seenAfterL_allCb (hid : HostId) (r : Rooms.St) (sid : Sid) (ms : List Msg) (h : AllCb ms) :
    seenAfterL hid r sid ms = [] := by
  induction ms generalizing r with
  | nil => rfl
  | cons m ms ih =>
    simp only [seenAfterL]
    rw [seenAfter_cb hid r sid m (h m List.mem_cons_self),
      roomsAfter_cb hid r m (h m List.mem_cons_self)]
    exact ih r (fun x hx => h x (List.mem_cons_of_mem _ hx))

theorem discAfterL_allCb (hid : HostId) (r : Rooms.St) (ms : List Msg) (h : AllCb ms) :
    discAfterL hid r ms = [] := by
  induction ms generalizing r with
  | nil => rfl
  | cons m ms ih =>
    simp only [discAfterL]
    rw [discAfter_cb hid r m (h m List.mem_cons_self),
      roomsAfter_cb hid r m (h m List.mem_cons_self)]
    exact ih r (fun x hx => h x (List.mem_cons_of_mem _ hx))

theorem roomsAfterL_append (hid : HostId) (r : Rooms.St) (a b : List Msg) :
    roomsAfterL hid r (a ++ b) = roomsAfterL hid (roomsAfterL hid r a) b := by
  simp [roomsAfterL, List.foldl_append]

theorem seenAfterL_append (hid : HostId) (r : Rooms.St) (sid : Sid) (a b : List Msg) :
    seenAfterL hid r sid (a ++ b) =
      seenAfterL hid r sid a ++ seenAfterL hid (roomsAfterL hid r a) sid b := by
  induction a generalizing r with
  | nil => rfl
  | cons m ms ih =>
    simp only [List.cons_append, seenAfterL, ih, List.append_assoc]
    rfl

theorem discAfterL_append (hid : HostId) (r : Rooms.St) (a b : List Msg) :
    discAfterL hid r (a ++ b) = discAfterL hid r a ++ discAfterL hid (roomsAfterL hid r a) b := by
  induction a generalizing r with
  | nil => rfl
  | cons m ms ih =>
    simp only [List.cons_append, discAfterL, ih, List.append_assoc]
    rfl

/-- callbacks before, the interesting part, callbacks after -/
theorem roomsAfterL_sandwich (hid : HostId) (r : Rooms.St) (a p b : List Msg) (ha : AllCb a)
    (hb : AllCb b) : roomsAfterL hid r (a ++ p ++ b) = roomsAfterL hid r p := by
  rw [roomsAfterL_append, roomsAfterL_append, roomsAfterL_allCb hid r a ha, roomsAfterL_allCb _ _ b hb]

theorem seenAfterL_sandwich (hid : HostId) (r : Rooms.St) (sid : Sid) (a p b : List Msg)
    (ha : AllCb a) (hb : AllCb b) : seenAfterL hid r sid (a ++ p ++ b) = seenAfterL hid r sid p := by
  rw [seenAfterL_append, seenAfterL_append, seenAfterL_allCb hid r sid a ha,
    roomsAfterL_allCb hid r a ha, seenAfterL_allCb _ _ sid b hb]
  simp

theorem discAfterL_sandwich (hid : HostId) (r : Rooms.St) (a p b : List Msg) (ha : AllCb a)
    (hb : AllCb b) : discAfterL hid r (a ++ p ++ b) = discAfterL hid r p := by
  rw [discAfterL_append, discAfterL_append, discAfterL_allCb hid r a ha,
    roomsAfterL_allCb hid r a ha, discAfterL_allCb _ _ b hb]
  simp

/-! ### the room invariant survives every entry -/

theorem inv_roomsAfter (hid : HostId) {r : Rooms.St} (hinv : Inv r) (m : Msg) :
    Inv (roomsAfter hid r m) := by
  cases m with
  | emit => exact hinv
  | callback => exact hinv
  | disconnect o sid ns =>
    simp only [roomsAfter]; split
    · exact hinv
    · exact hinv.disconnect ns sid
  | enterRoom o sid ns room =>
    simp only [roomsAfter]; split
    · exact hinv
    · split
      · rename_i eio hq; exact hinv.add (eioOf_some_mem hq)
      · exact hinv
  | leaveRoom o sid ns room =>
    simp only [roomsAfter]; split
    · exact hinv
    · exact hinv.leave ns sid room
  | closeRoom o ns room =>
    simp only [roomsAfter]; split
    · exact hinv
    · exact hinv.closeRoom ns room

theorem inv_roomsAfterL (hid : HostId) {r : Rooms.St} (hinv : Inv r) (ms : List Msg) :
    Inv (roomsAfterL hid r ms) := by
  induction ms generalizing r with
  | nil => exact hinv
  | cons m ms ih => exact ih (inv_roomsAfter hid hinv m)

/-! ### a batch through the listener -/

theorem catchUp_effect (h : Host) (hinv : Inv h.rooms) (ms : List Msg) (hok : EmitsOk ms) :
    (catchUp h ms).h.rooms = roomsAfterL h.id h.rooms ms ∧
    (catchUp h ms).h.id = h.id ∧ (catchUp h ms).h.cursor = h.cursor ∧
    AllCb (catchUp h ms).pubs ∧
    (∀ sid, seenBy sid (catchUp h ms).outs = seenAfterL h.id h.rooms sid ms) ∧
    discEvents (catchUp h ms).outs = discAfterL h.id h.rooms ms := by
  induction ms generalizing h with
  | nil => exact ⟨rfl, rfl, rfl, AllCb.nil, fun _ => rfl, rfl⟩
  | cons m ms ih =>
    have hok' : EmitsOk ms := fun x hx => hok x (List.mem_cons_of_mem _ hx)
    simp only [catchUp]
    cases hcb : m.isCb with
    | true =>
      obtain ⟨e1, e2, e3, e4, e5, e6⟩ := listenMsg_cb_effect h m hcb
      have hinv' : Inv (listenMsg h m).h.rooms := by rw [e1]; exact hinv
      obtain ⟨f1, f2, f3, f4, f5, f6⟩ := ih (listenMsg h m).h hinv' hok'
      refine ⟨?_, by rw [f2, e2], by rw [f3, e3], e4.append f4, ?_, ?_⟩
      · rw [f1, e1, e2]
        simp only [roomsAfterL, List.foldl_cons, roomsAfter_cb h.id h.rooms m hcb]
      · intro sid
        rw [seenBy_append, e5, f5, e1, e2]
        simp only [seenAfterL, seenAfter_cb h.id h.rooms sid m hcb, roomsAfter_cb h.id h.rooms m hcb,
          List.nil_append]
      · rw [discEvents_append, e6, f6, e1, e2]
        simp only [discAfterL, discAfter_cb h.id h.rooms m hcb, roomsAfter_cb h.id h.rooms m hcb,
          List.nil_append]
    | false =>
      obtain ⟨e1, e2, e3, e4, e5, e6⟩ := listenMsg_effect h hinv m hcb (hok m List.mem_cons_self)
      have hinv' : Inv (listenMsg h m).h.rooms := by rw [e1]; exact inv_roomsAfter h.id hinv m
      obtain ⟨f1, f2, f3, f4, f5, f6⟩ := ih (listenMsg h m).h hinv' hok'
      refine ⟨?_, by rw [f2, e2], by rw [f3, e3], ?_, ?_, ?_⟩
      · rw [f1, e1, e2]; rfl
      · rw [e4]; exact AllCb.nil.append f4
      · intro sid
        rw [seenBy_append, e5, f5, e1, e2]; rfl
      · rw [discEvents_append, e6, f6, e1, e2]; rfl

/-- `deliver(h, k)` with `k` at least what is pending: everything pending is applied and the
    cursor is at the end -/
theorem deliverOn_all (chan : List Msg) (h : Host) (hinv : Inv h.rooms) (hcur : h.cursor ≤ chan.length)
    (hok : EmitsOk chan) :
    (deliverOn chan chan.length h).h.rooms = roomsAfterL h.id h.rooms (chan.drop h.cursor) ∧
    (deliverOn chan chan.length h).h.id = h.id ∧
    (deliverOn chan chan.length h).h.cursor = chan.length ∧
    AllCb (deliverOn chan chan.length h).pubs ∧
    (∀ sid, seenBy sid (deliverOn chan chan.length h).outs =
      seenAfterL h.id h.rooms sid (chan.drop h.cursor)) ∧
    discEvents (deliverOn chan chan.length h).outs = discAfterL h.id h.rooms (chan.drop h.cursor) := by
  have hb : (chan.drop h.cursor).take chan.length = chan.drop h.cursor := by
    apply List.take_of_length_le
    simp only [List.length_drop]; omega
  have hok' : EmitsOk (chan.drop h.cursor) := hok.sub (fun m hm => List.mem_of_mem_drop hm)
  obtain ⟨e1, e2, e3, e4, e5, e6⟩ := catchUp_effect h hinv (chan.drop h.cursor) hok'
  simp only [deliverOn, hb]
  refine ⟨e1, e2, ?_, e4, e5, e6⟩
  simp only [List.length_drop]; omega

/-! ### a whole drain pass -/

/-- (id, room table) of a host: all that rooms and clients depend on -/
def Host.view (h : Host) : HostId × Rooms.St := (h.id, h.rooms)

theorem drop_append_of_le {α : Type} (a b : List α) (n : Nat) (h : n ≤ a.length) :
    (a ++ b).drop n = a.drop n ++ b := by
  rw [List.drop_append_of_le_length h]

theorem flatMap_congr' {α β : Type} {l : List α} {f g : α → List β} (h : ∀ x ∈ l, f x = g x) :
    l.flatMap f = l.flatMap g := by
  induction l with
  | nil => rfl
  | cons a l ih =>
    rw [List.flatMap_cons, List.flatMap_cons, h a List.mem_cons_self,
      ih (fun x hx => h x (List.mem_cons_of_mem _ hx))]

theorem drainHosts_effect (chan : List Msg) (hosts : List Host)
    (hinv : ∀ h ∈ hosts, Inv h.rooms) (hcur : ∀ h ∈ hosts, h.cursor ≤ chan.length)
    (hok : EmitsOk chan) :
    (∃ B, AllCb B ∧ (drainHosts chan hosts).2.2 = chan ++ B) ∧
    (drainHosts chan hosts).1.map Host.view =
      hosts.map (fun h => (h.id, roomsAfterL h.id h.rooms (chan.drop h.cursor))) ∧
    (∀ h' ∈ (drainHosts chan hosts).1, h'.cursor ≤ (drainHosts chan hosts).2.2.length ∧
      AllCb ((drainHosts chan hosts).2.2.drop h'.cursor)) ∧
    (∀ sid, seenBy sid (drainHosts chan hosts).2.1 =
      hosts.flatMap (fun h => seenAfterL h.id h.rooms sid (chan.drop h.cursor))) ∧
    discEvents (drainHosts chan hosts).2.1 =
      hosts.flatMap (fun h => discAfterL h.id h.rooms (chan.drop h.cursor)) := by
  induction hosts generalizing chan with
  | nil =>
    refine ⟨⟨[], AllCb.nil, by simp [drainHosts]⟩, rfl, ?_, fun _ => rfl, rfl⟩
    intro h' hh; cases hh
  | cons h hs ih =>
    have hinvh := hinv h List.mem_cons_self
    have hcurh := hcur h List.mem_cons_self
    obtain ⟨e1, e2, e3, e4, e5, e6⟩ := deliverOn_all chan h hinvh hcurh hok
    have hok' : EmitsOk (chan ++ (deliverOn chan chan.length h).pubs) :=
      hok.append (EmitsOk.of_allCb e4)
    have hcur' : ∀ x ∈ hs, x.cursor ≤ (chan ++ (deliverOn chan chan.length h).pubs).length := by
      intro x hx
      have := hcur x (List.mem_cons_of_mem _ hx)
      simp only [List.length_append]; omega
    obtain ⟨⟨B, hB, hBeq⟩, f2, f3, f4, f5⟩ :=
      ih (chan ++ (deliverOn chan chan.length h).pubs)
        (fun x hx => hinv x (List.mem_cons_of_mem _ hx)) hcur' hok'
    have hdrop : ∀ x ∈ hs, (chan ++ (deliverOn chan chan.length h).pubs).drop x.cursor =
        chan.drop x.cursor ++ (deliverOn chan chan.length h).pubs := by
      intro x hx
      exact drop_append_of_le _ _ _ (hcur x (List.mem_cons_of_mem _ hx))
    simp only [drainHosts]
    refine ⟨⟨(deliverOn chan chan.length h).pubs ++ B, e4.append hB, ?_⟩, ?_, ?_, ?_, ?_⟩
    · rw [hBeq, List.append_assoc]
    · rw [List.map_cons, List.map_cons, f2]
      congr 1
      · show ((deliverOn chan chan.length h).h.id, (deliverOn chan chan.length h).h.rooms) = _
        rw [e1, e2]
      · apply List.map_congr_left
        intro x hx
        rw [hdrop x hx, roomsAfterL_append, roomsAfterL_allCb _ _ _ e4]
    · intro h' hh'
      rcases List.mem_cons.mp hh' with rfl | hh'
      · rw [hBeq, e3]
        refine ⟨by simp only [List.length_append]; omega, ?_⟩
        rw [List.append_assoc, List.drop_left]
        exact e4.append hB
      · exact f3 h' hh'
    · intro sid
      rw [seenBy_append, e5, f4 sid, List.flatMap_cons]
      congr 1
      apply flatMap_congr'
      intro x hx
      rw [hdrop x hx, seenAfterL_append, seenAfterL_allCb _ _ _ _ e4, List.append_nil]
    · rw [discEvents_append, e6, f5, List.flatMap_cons]
      congr 1
      apply flatMap_congr'
      intro x hx
      rw [hdrop x hx, discAfterL_append, discAfterL_allCb _ _ _ e4, List.append_nil]

end Sio.PubSub
