/-
  C02 — proofs.  Built on the C01 lemmas (`decode_encode`, `feed_encode`, `wf_of_mkPacket`).
-/
import Sio.Lemmas.ArgsDefs
import Sio.Lemmas.CodecPacket
import Sio.Lemmas.CodecJson
namespace Sio
namespace Args

variable {cls : Char → DC} {loads : Str → Except Err J} {dumps : J → Str}

/-! ### the receiver against `feed` -/

theorem receiveFrom_nil (st : Option Partial) :
    receiveFrom cls loads st [] = .ok ([], st) := rfl

theorem receiveFrom_cons (st : Option Partial) (f : Frame) (fs : List Frame) :
    receiveFrom cls loads st (f :: fs) = (do
      let (st', out) ← rxStep cls loads st f
      let (rest, fin) ← receiveFrom cls loads st' fs
      pure ((match out with | some p => p :: rest | none => rest), fin)) := rfl

/-- prepend a completed packet to the outcome of the rest of the run -/
def consOut (pk : Packet) (r : Except Err (List Packet × Option Partial)) :
    Except Err (List Packet × Option Partial) :=
  r.map (fun x => (pk :: x.1, x.2))

/-- if handing the attachments `bs` back completes `pk` (C01's `feed`), then a receiver that has
    the partial packet parked and sees those frames delivers `pk` and goes on with nothing parked -/
theorem receiveFrom_feed (bs : List Frame) (pt : Partial) (pk : Packet) (rest : List Frame)
    (h : feed pt (bs.map Frame.toJ) = .ok (.inr pk)) :
    receiveFrom cls loads (some pt) (bs ++ rest) = consOut pk (receiveFrom cls loads none rest) := by
  induction bs generalizing pt with
  | nil => simp [feed] at h
  | cons b bs ih =>
    simp only [List.map_cons, feed] at h
    cases ha : addAttachment pt b.toJ with
    | error e => simp [ha, bind, Except.bind] at h
    | ok r =>
      cases r with
      | more pt' =>
        simp only [ha, bind, Except.bind] at h
        have := ih pt' h
        simp only [List.cons_append, receiveFrom_cons, rxStep, ha, bind, Except.bind, pure,
          Except.pure, this, consOut, Except.map]
        cases receiveFrom cls loads none rest <;> rfl
      | complete pk' =>
        simp only [ha, bind, Except.bind] at h
        cases bs with
        | nil =>
          simp only [List.map_nil, pure, Except.pure, Except.ok.injEq, Sum.inr.injEq] at h
          subst h
          simp only [List.cons_append, List.nil_append, receiveFrom_cons, rxStep, ha, bind,
            Except.bind, pure, Except.pure, consOut, Except.map]
        | cons c cs => simp at h

/-- one frame group, followed by anything: the packet is delivered (namespace normalised), nothing
    stays parked, the run goes on -/
theorem receive_send (hcls : AsciiCls cls) {p : Packet} (hs : Sendable cls loads dumps p)
    (rest : List Frame) :
    receiveFrom cls loads none (send dumps p ++ rest)
      = consOut p.norm (receiveFrom cls loads none rest) := by
  have hcore := wf_core hs.wf
  have hdec := decode_encode (cls := cls) (loads := loads) (dumps := dumps) hcls hs.rt
    (fun j h => payloadOK_of_startOK hcls p (hs.start j h)) hcore
  have hfeed := feed_encode (dumps := dumps) hcore
  simp only [send, List.cons_append, receiveFrom_cons, rxStep, hdec, bind, Except.bind]
  have hty : p.wire.type = p.type := by simp [Packet.wire, Packet.norm]
  cases hb : isBinType p.type with
  | true =>
    simp only [hty, hb, if_true, pure, Except.pure]
    have hne := hs.bin hb
    simp only [hne, if_false] at hfeed
    have hmap : ((encode dumps p).2.getD []).map J.bin
        = (((encode dumps p).2.getD []).map Frame.bin).map Frame.toJ := by
      simp [Frame.toJ, Function.comp_def]
    rw [hmap] at hfeed
    have := receiveFrom_feed (cls := cls) (loads := loads) _ _ _ rest hfeed
    rw [this]
    simp only [consOut, Except.map]
    cases receiveFrom cls loads none rest <;> rfl
  | false =>
    have hnil : (encode dumps p).2.getD [] = [] := encode_atts_nil_of_plain (by simpa using hb)
    have hw : p.wire = p.norm := by simp [Packet.wire, hb, Packet.norm]
    have hb' : isBinType p.norm.type = false := by rw [← hw, hty]; exact hb
    simp only [hnil, List.map_nil, List.nil_append, pure, Except.pure, hw, hb', consOut,
      Except.map, Bool.false_eq_true, if_false]

/-- order: the concatenation of frame groups is received as the list of packets, in order -/
theorem receive_sendAll (hcls : AsciiCls cls) (ps : List Packet)
    (hs : ∀ p ∈ ps, Sendable cls loads dumps p) :
    receive cls loads (sendAll dumps ps) = .ok (ps.map Packet.norm, none) := by
  unfold receive sendAll
  induction ps with
  | nil => rfl
  | cons p ps ih =>
    have hp := hs p (by simp)
    have ih' := ih (fun q hq => hs q (by simp [hq]))
    simp only [List.flatMap_cons, receive_send hcls hp, ih', consOut, Except.map, List.map_cons]

/-! ### the constructor on application messages -/

theorem mkEvent_eq (ub : Bool) (ev : Str) (d : Data) (ns : Str) (id : Option Nat) :
    mkEvent ub ev d ns id = .ok (Msg.packet ub (.event ev d ns id)) := by
  simp only [mkEvent, mkPacket, Msg.packet, Msg.payload, Msg.baseType, Msg.ns, Msg.id]
  cases ub <;> by_cases h : (eventPayload ev d).isBinary = true <;> simp [h]

theorem mkAck_eq (ub : Bool) (ret : Data) (ns : Str) (id : Nat) :
    mkAck ub ret ns id = .ok (Msg.packet ub (.ack ret ns id)) := by
  simp only [mkAck, mkPacket, Msg.packet, Msg.payload, Msg.baseType, Msg.ns, Msg.id]
  cases ub <;> by_cases h : (ackPayload ret).isBinary = true <;> simp [h, ACK, EVENT]

theorem mkPacket_msg (m : Msg) :
    mkPacket true m.baseType (some m.payload) (some m.ns) m.id none = .ok (m.packet true) := by
  cases m with
  | event ev d ns id => exact mkEvent_eq true ev d ns id
  | ack ret ns id => exact mkAck_eq true ret ns id

theorem msg_wire_data (m : Msg) : ((m.packet true).wire).data = some m.wireJson := by
  cases hb : m.payload.isBinary with
  | true =>
    have : isBinType (m.packet true).type = true := by
      cases m <;> simp [Msg.packet, hb, Msg.baseType, isBinType, BINARY_EVENT, BINARY_ACK, EVENT, ACK]
    rw [wire_data_bin this]; rfl
  | false =>
    have ht : isBinType (m.packet true).type = false := by
      cases m <;> simp [Msg.packet, hb, Msg.baseType, isBinType, BINARY_EVENT, BINARY_ACK, EVENT, ACK]
    rw [wire_data_plain ht]
    have hnb : NoBin m.payload = true := by
      have := isBinary_eq_not_noBin m.payload
      rw [hb] at this
      cases hn : NoBin m.payload with
      | true => rfl
      | false => rw [hn] at this; cases this
    simp [Msg.packet, Msg.wireJson, decon_noBin _ [] hnb]

theorem msg_topOK (m : Msg) : TopOK m.payload = true := by
  cases m <;> rfl

/-- a message of the domain, with the JSON layer faithful at the one value printed for it, makes
    a packet that `send`/`receive` transport -/
theorem msg_sendable (m : Msg) (hdom : m.InDomain = true)
    (hrt : loads (J.dumps m.wireJson) = .ok m.wireJson) :
    Sendable cls loads J.dumps (m.packet true) := by
  simp only [Msg.InDomain, Bool.and_eq_true] at hdom
  have hwf : WF (m.packet true) = true := wf_of_mkPacket hdom.1 (mkPacket_msg m)
  refine ⟨hwf, ?_, ?_, ?_⟩
  · intro j hj
    rw [msg_wire_data] at hj
    cases hj; exact hrt
  · intro j hj
    exact dumps_startOK j (wire_json_hyps hwf hj).2
  · intro hb
    cases hbin : m.payload.isBinary with
    | false =>
      exfalso
      cases m <;> simp [Msg.packet, hbin, Msg.baseType, isBinType, BINARY_EVENT, BINARY_ACK, EVENT, ACK] at hb
    | true =>
      have hl := (isBinary_iff_leaves m.payload).mp hbin
      rw [encode_bin_some hb (j := m.payload) rfl]
      simpa using hl

/-- a path without query string is what decoding yields -/
theorem takeWhile_no_query (ns : Str) (h : ns.contains '?' = false) :
    ns.takeWhile (· != '?') = ns := by
  induction ns with
  | nil => rfl
  | cons c cs ih =>
    simp only [List.contains_cons, Bool.or_eq_false_iff] at h
    have hc : (c != '?') = true := by
      have := h.1
      simp only [bne_iff_ne, ne_eq]
      intro he; subst he; simp at this
    simp [hc, ih h.2]

theorem msg_norm_ns (m : Msg) (hdom : m.InDomain = true) :
    ((m.packet true).norm.nsp).getD ['/'] = m.ns := by
  simp only [Msg.InDomain, Bool.and_eq_true, Bool.not_eq_true'] at hdom
  simp only [Packet.norm, Msg.packet, normNs]
  by_cases h : m.ns = ['/']
  · simp [h]
  · simp [h, takeWhile_no_query _ hdom.2]

/-- dispatch of the received packet invokes exactly what was asked for -/
theorem dispatch_msg (m : Msg) (hdom : m.InDomain = true) :
    dispatch (m.packet true).norm = .ok m.expected := by
  have hns := msg_norm_ns m hdom
  cases m with
  | event ev d ns id =>
    cases hb : (eventPayload ev d).isBinary <;>
      simp_all [dispatch, Msg.packet, Msg.payload, Msg.baseType, Packet.norm, handlerArgs, splitArgs,
        eventPayload, Msg.expected, Msg.id, Msg.ns, EVENT, BINARY_EVENT, bind, Except.bind, pure,
        Except.pure]
  | ack ret ns id =>
    cases hb : (ackPayload ret).isBinary <;>
      simp_all [dispatch, Msg.packet, Msg.payload, Msg.baseType, Packet.norm, callbackArgs, starArgs,
        ackPayload, Msg.expected, Msg.id, Msg.ns, EVENT, BINARY_EVENT, ACK, BINARY_ACK, bind,
        Except.bind, pure, Except.pure]

theorem mapM_dispatch (ms : List Msg) (hdom : ∀ m ∈ ms, m.InDomain = true) :
    (ms.map (fun m => (m.packet true).norm)).mapM dispatch = .ok (ms.map Msg.expected) := by
  induction ms with
  | nil => rfl
  | cons m ms ih =>
    have h1 := dispatch_msg m (hdom m (by simp))
    have h2 := ih (fun q hq => hdom q (by simp [hq]))
    simp [List.mapM_cons, h1, h2, bind, Except.bind, pure, Except.pure]

/-- sequences of application messages: deliveries in the order sent -/
theorem deliver_msgs (hcls : AsciiCls cls) (ms : List Msg)
    (hdom : ∀ m ∈ ms, m.InDomain = true)
    (hrt : ∀ m ∈ ms, loads (J.dumps m.wireJson) = .ok m.wireJson) :
    deliver cls loads (sendAll J.dumps (ms.map (Msg.packet true)))
      = .ok (ms.map Msg.expected, none) := by
  have hs : ∀ p ∈ ms.map (Msg.packet true), Sendable cls loads J.dumps p := by
    intro p hp
    obtain ⟨m, hm, rfl⟩ := List.mem_map.mp hp
    exact msg_sendable m (hdom m hm) (hrt m hm)
  have hr := receive_sendAll hcls _ hs
  have hd := mapM_dispatch ms hdom
  simp only [List.map_map, Function.comp_def] at hr
  simp only [deliver, hr, bind, Except.bind, hd, pure, Except.pure]

/-! ### msgpack -/

theorem lookup_kType (t d n : J) (rest : List (Str × J)) :
    lookup kType ((kType, t) :: (kData, d) :: (kNsp, n) :: rest) = some t := by
  simp [lookup]

theorem lookup_kData (t d n : J) (rest : List (Str × J)) :
    lookup kData ((kType, t) :: (kData, d) :: (kNsp, n) :: rest) = some d := by
  simp [lookup, kType, kData]

theorem lookup_kNsp (t d n : J) (rest : List (Str × J)) :
    lookup kNsp ((kType, t) :: (kData, d) :: (kNsp, n) :: rest) = some n := by
  simp [lookup, kType, kData, kNsp]

theorem lookup_kId_some (t d n i : J) :
    lookup kId [(kType, t), (kData, d), (kNsp, n), (kId, i)] = some i := by
  simp [lookup, kType, kData, kNsp, kId]

theorem lookup_kId_none (t d n : J) :
    lookup kId [(kType, t), (kData, d), (kNsp, n)] = none := by
  simp [lookup, kType, kData, kNsp, kId]

/-- reading back `_to_dict`: the same packet, for a packet with a namespace and a payload that is
    not `None` -/
theorem ofDict_toDict (t : Nat) (ns : Str) (id : Option Nat) (j : J) (hj : j ≠ .null) :
    ofDict (toDict ⟨t, some ns, id, some j⟩) = .ok ⟨t, some ns, id, some j⟩ := by
  cases id with
  | none =>
    simp only [toDict, Option.getD_some, List.append_nil, ofDict, lookup_kType, lookup_kNsp,
      lookup_kData, lookup_kId_none]
    have : ¬ ((t : Int) < 0) := by omega
    simp only [this, if_false]
    cases j <;> first | (exact absurd rfl hj) | (simp [bind, Except.bind, pure, Except.pure])
  | some i =>
    simp only [toDict, Option.getD_some, List.cons_append, List.nil_append, ofDict, lookup_kType,
      lookup_kNsp, lookup_kData, lookup_kId_some]
    have h1 : ¬ ((t : Int) < 0) := by omega
    have h2 : ¬ ((i : Int) < 0) := by omega
    simp only [h1, if_false, h2]
    cases j <;> first | (exact absurd rfl hj) | (simp [bind, Except.bind, pure, Except.pure])

theorem msg_packet_mp (m : Msg) :
    m.packet false = ⟨m.baseType, some m.ns, m.id, some m.payload⟩ := by
  simp [Msg.packet]

theorem msg_payload_ne_null (m : Msg) : m.payload ≠ .null := by
  cases m <;> simp [Msg.payload, eventPayload, ackPayload]

/-- msgpack does not touch the namespace: dispatch on the packet as sent -/
theorem dispatch_msg_mp (m : Msg) : dispatch (m.packet false) = .ok m.expected := by
  cases m with
  | event ev d ns id =>
    simp [dispatch, Msg.packet, Msg.payload, Msg.baseType, handlerArgs, splitArgs,
      eventPayload, Msg.expected, Msg.id, Msg.ns, EVENT, bind, Except.bind, pure, Except.pure]
  | ack ret ns id =>
    simp [dispatch, Msg.packet, Msg.payload, Msg.baseType, callbackArgs, starArgs,
      ackPayload, Msg.expected, Msg.id, Msg.ns, EVENT, BINARY_EVENT, ACK, bind,
      Except.bind, pure, Except.pure]

theorem receiveMP_msgs {ser : J → Bytes} {deser : Bytes → Except Err J} (ms : List Msg)
    (hser : ∀ m ∈ ms, deser (ser (toDict (m.packet false))) = .ok (toDict (m.packet false))) :
    receiveMP deser (sendAllMP ser (ms.map (Msg.packet false))) = .ok (ms.map (Msg.packet false)) := by
  induction ms with
  | nil => rfl
  | cons m ms ih =>
    have h1 := hser m (by simp)
    have h2 := ih (fun q hq => hser q (by simp [hq]))
    have h3 : ofDict (toDict (m.packet false)) = .ok (m.packet false) := by
      rw [msg_packet_mp]; exact ofDict_toDict _ _ _ _ (msg_payload_ne_null m)
    simp only [sendAllMP] at h2
    simp only [sendAllMP, List.map_cons, List.flatMap_cons, sendMP, List.cons_append,
      List.nil_append, receiveMP, h1, bind, Except.bind, h3, h2, pure, Except.pure]

theorem mapM_dispatch_mp (ms : List Msg) :
    (ms.map (Msg.packet false)).mapM dispatch = .ok (ms.map Msg.expected) := by
  induction ms with
  | nil => rfl
  | cons m ms ih =>
    simp [List.mapM_cons, dispatch_msg_mp m, ih, bind, Except.bind, pure, Except.pure]

theorem deliverMP_msgs {ser : J → Bytes} {deser : Bytes → Except Err J} (ms : List Msg)
    (hser : ∀ m ∈ ms, deser (ser (toDict (m.packet false))) = .ok (toDict (m.packet false))) :
    deliverMP deser (sendAllMP ser (ms.map (Msg.packet false))) = .ok (ms.map Msg.expected) := by
  simp only [deliverMP, receiveMP_msgs ms hser, bind, Except.bind, mapM_dispatch_mp]

/-! ### `call()` -/

theorem callResult_pack (ret : Data) : callResult ret.pack = normalise ret := by
  cases ret with
  | none => rfl
  | one j => rfl
  | tuple xs =>
    match xs with
    | [] => rfl
    | [x] => rfl
    | x :: y :: r => rfl

end Args
end Sio
