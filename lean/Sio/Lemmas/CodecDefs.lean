/-
  C01 — the predicates and specification-level functions that occur in the *statements* of the
  property theorems (Sio/Props/C01.lean).  Everything here is part of what a reader has to trust
  when reading a theorem, so it is kept small, structural and executable (`Bool`-valued where it
  is a test) and separate from the proofs (Sio/Lemmas/Codec*.lean).
-/
import Sio.Model.Codec
namespace Sio

/-! ### shape predicates over the value type -/

/-- The reserved dictionary key of the Socket.IO binary placeholder. -/
def reservedKey : Str := "_placeholder".toList

/-- (use this, not `simp [reservedKey]`: the auto-generated unfolding lemma is very slow) -/
theorem reservedKey_eq : reservedKey = "_placeholder".toList := rfl

mutual
  /-- No dictionary anywhere in the tree uses the reserved key `"_placeholder"`. -/
  def NoReservedKey : J → Bool
    | .arr xs => NoReservedKeyL xs
    | .obj kvs => NoReservedKeyO kvs
    | _ => true
  def NoReservedKeyL : List J → Bool
    | [] => true
    | x :: xs => NoReservedKey x && NoReservedKeyL xs
  def NoReservedKeyO : List (Str × J) → Bool
    | [] => true
    | (k, x) :: xs => k != reservedKey && NoReservedKey x && NoReservedKeyO xs
end

mutual
  /-- The tree contains no byte-string leaf (it is plain JSON). -/
  def NoBin : J → Bool
    | .bin _ => false
    | .arr xs => NoBinL xs
    | .obj kvs => NoBinO kvs
    | _ => true
  def NoBinL : List J → Bool
    | [] => true
    | x :: xs => NoBin x && NoBinL xs
  def NoBinO : List (Str × J) → Bool
    | [] => true
    | (_, x) :: xs => NoBin x && NoBinO xs
end

mutual
  /-- The byte-string leaves of a tree in depth-first (document) order. -/
  def binLeaves : J → List Bytes
    | .bin b => [b]
    | .arr xs => binLeavesL xs
    | .obj kvs => binLeavesO kvs
    | _ => []
  def binLeavesL : List J → List Bytes
    | [] => []
    | x :: xs => binLeaves x ++ binLeavesL xs
  def binLeavesO : List (Str × J) → List Bytes
    | [] => []
    | (_, x) :: xs => binLeaves x ++ binLeavesO xs
end

/-- `some n` iff the dictionary is literally `{"_placeholder": true, "num": n}` with `n ≥ 0`. -/
def asPlaceholder : List (Str × J) → Option Nat
  | [(k₁, .bool true), (k₂, .int (.ofNat n))] =>
    if k₁ = reservedKey ∧ k₂ = "num".toList then some n else none
  | _ => none

mutual
  /-- The numbers carried by the placeholder objects of a tree, in depth-first order. -/
  def phNums : J → List Nat
    | .arr xs => phNumsL xs
    | .obj kvs =>
      match asPlaceholder kvs with
      | some n => [n]
      | none => phNumsO kvs
    | _ => []
  def phNumsL : List J → List Nat
    | [] => []
    | x :: xs => phNums x ++ phNumsL xs
  def phNumsO : List (Str × J) → List Nat
    | [] => []
    | (_, x) :: xs => phNums x ++ phNumsO xs
end

/-- Top-level payloads the wire format can carry unambiguously: anything but a bare number
    (`Packet(CONNECT, data=5)` encodes to `"05"`, which reads as id 5 — DESIGN §5 C01). -/
def TopOK : J → Bool
  | .int _ => false
  | .flt _ => false
  | _ => true

/-! ### header well-formedness -/

/-- `none` and `"/"` both denote the default namespace. -/
def isDefaultNs : Option Str → Bool
  | none => true
  | some ns => ns = ['/']

/-- What decoding yields for a namespace: default namespace ↦ `None`, query string dropped. -/
def normNs : Option Str → Option Str
  | none => none
  | some ns => if ns = ['/'] then none else some (ns.takeWhile (· != '?'))

/-- Namespace as a path, `"/"` being the implied default. -/
def nsPath (o : Option Str) : Str := o.getD ['/']

/-- A namespace is `None` or starts with `/` and contains no `,`. -/
def WFNs : Option Str → Bool
  | none => true
  | some ns => ns.head? == some '/' && !ns.contains ','

/-- The header fields of the property's quantifier: type a single digit (`0..6`), namespace
    well-formed, `id < 10^100`, attachment count `< 10^10`. -/
def WFHdr (t : Nat) (nsp : Option Str) (id : Option Nat) (natt : Option Nat) : Bool :=
  decide (t ≤ 6) && WFNs nsp
    && (match id with | none => true | some i => decide (i < 10 ^ 100))
    && (match natt with | none => true | some n => decide (n < 10 ^ 10))

/-- What may follow the header (weakest form, relative to the header it follows).
    The body is empty, or its first character
    * is not a digit (else it would be read as part of / as the id),
    * is not `/` when neither a namespace nor an id precedes it (else it would be read as a
      namespace),
    * is not `-` when an id, but neither an attachment count nor a namespace, precedes it (else
      the id would be read as an attachment count). -/
def BodyOK (cls : Char → DC) (nsp : Option Str) (id : Option Nat) (natt : Option Nat) : Str → Bool
  | [] => true
  | c :: _ =>
    !(cls c).isDigit
      && (!(isDefaultNs nsp && id.isNone) || c != '/')
      && (!(natt.isNone && isDefaultNs nsp && id.isSome) || c != '-')

/-- Header-independent sufficient form: an ASCII character other than a digit, `-` and `/`
    (every JSON text that is not a number starts like this: `[ { " t f n`). -/
def StartOK : Str → Bool
  | [] => false
  | c :: _ => decide (c.toNat < 128) && !c.isDigit && c != '-' && c != '/'

/-! ### packets -/

def Packet.norm (p : Packet) : Packet := { p with nsp := normNs p.nsp }

def optAll (f : J → Bool) : Option J → Bool
  | none => true
  | some j => f j

/-- What travels in the text frame: the packet with its namespace normalised and, for the two
    binary types, the byte strings of the payload replaced by numbered placeholders. -/
def Packet.wire (p : Packet) : Packet :=
  { p.norm with data := if isBinType p.type then p.data.map (fun j => (decon j []).1) else p.data }

/-- Well-formedness without the restriction on the top-level payload: header fields
    well-formed, no reserved key, byte strings only under the two binary types, and fewer than
    `10^10` of them (the decoder refuses an attachment count of more than ten digits). -/
def WFCore (p : Packet) : Bool :=
  WFHdr p.type p.nsp p.id none
    && optAll NoReservedKey p.data
    && (isBinType p.type || optAll NoBin p.data)
    && optAll (fun j => decide ((binLeaves j).length < 10 ^ 10)) p.data

/-- Well-formed packet (the property's quantifier): `WFCore` and the payload is not a bare
    number. -/
def WF (p : Packet) : Bool := WFCore p && optAll TopOK p.data

/-- The attachment-count field `encode` writes: present exactly for the two binary types. -/
def Packet.nattField (p : Packet) : Option Nat :=
  if isBinType p.type then
    some (match p.data with | some j => (binLeaves j).length | none => 0)
  else none

/-- The JSON text `s` of the payload may follow the header of `p` (weakest form): it is not
    empty and cannot be mistaken for a header field *of this header* (`BodyOK`). -/
def PayloadOK (cls : Char → DC) (p : Packet) (s : Str) : Bool :=
  !s.isEmpty && BodyOK cls p.nsp p.id p.nattField s

/-- The same for the arguments of the constructor `Packet(type, data, namespace, id)`
    (before the promotion EVENT→BINARY_EVENT, ACK→BINARY_ACK). -/
def WFArgs (t : Nat) (d : Option J) (nsp : Option Str) (id : Option Nat) : Bool :=
  WFHdr t nsp id none && optAll TopOK d && optAll NoReservedKey d
    && optAll (fun j => decide ((binLeaves j).length < 10 ^ 10)) d

end Sio
