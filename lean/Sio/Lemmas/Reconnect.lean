/-
  Helper lemmas about the back-off loop of Sio.Model.Reconnect (all by induction on the fuel,
  generalising the iteration index and the current delay).
-/
import Sio.Model.Reconnect
namespace Sio.Reconnect

variable (cfg : Cfg) (o : Nat → Bool) (r : Nat → Q) (a : Option Nat)

theorem capped_eq_min (cur : Q) : capped cfg cur = min cur cfg.delayMax := by
  unfold capped
  by_cases h : cur > cfg.delayMax
  · simp only [h, if_true]
    have : ¬ cur ≤ cfg.delayMax := Rat.not_le.mpr h
    grind
  · simp only [h, if_false]
    have : cur ≤ cfg.delayMax := Rat.not_lt.mp h
    grind

theorem loop_waits (fuel : Nat) : ∀ (k : Nat) (cur : Q) (i : Nat) (w : Q),
    (loop cfg o r a fuel k cur).waits[i]? = some w → w = waitOf cfg (cur * 2 ^ i) (r (k + i)) := by
  induction fuel with
  | zero => intro k cur i w h; simp [loop] at h
  | succ n ih =>
    intro k cur i w h
    unfold loop at h
    simp only at h
    split at h
    · cases i <;> simp_all
    · split at h
      · cases i <;> simp_all
      · split at h
        · cases i <;> simp_all
        · cases i with
          | zero => simp_all
          | succ j =>
            simp only [List.getElem?_cons_succ] at h
            have := ih (k + 1) (cur * 2) j w h
            rw [this]
            have e1 : cur * 2 * 2 ^ j = cur * 2 ^ (j + 1) := by grind
            have e2 : k + 1 + j = k + (j + 1) := by omega
            rw [e1, e2]


/-- every result counts at least the attempts already made -/
theorem loop_attempts_ge (fuel : Nat) : ∀ (k : Nat) (cur : Q),
    k ≤ (loop cfg o r a fuel k cur).attempts := by
  induction fuel with
  | zero => intro k cur; simp [loop]
  | succ n ih =>
    intro k cur
    unfold loop
    simp only
    split
    · simp
    · split
      · simp
      · split
        · simp
        · have := ih (k + 1) (cur * 2)
          simp only
          omega

/-- with a limit `N ≠ 0` and fewer than `N` attempts made so far, never more than `N` -/
theorem loop_attempts_le (hN : cfg.attempts ≠ 0) (fuel : Nat) : ∀ (k : Nat) (cur : Q),
    k < cfg.attempts → (loop cfg o r a fuel k cur).attempts ≤ cfg.attempts := by
  induction fuel with
  | zero => intro k cur hk; simp [loop]; omega
  | succ n ih =>
    intro k cur hk
    unfold loop
    simp only
    split
    · simp; omega
    · split
      · simp; omega
      · split
        · simp; omega
        · rename_i hg
          have : k + 1 < cfg.attempts := by
            have : ¬ cfg.attempts ≤ k + 1 := fun h => hg ⟨hN, h⟩
            omega
          exact ih (k + 1) (cur * 2) this

/-- one wait per attempt, plus the interrupted one when aborted -/
theorem loop_waits_length (fuel : Nat) : ∀ (k : Nat) (cur : Q),
    (loop cfg o r a fuel k cur).waits.length + k =
      (loop cfg o r a fuel k cur).attempts +
        (if (loop cfg o r a fuel k cur).final = .aborted then 1 else 0) := by
  induction fuel with
  | zero => intro k cur; simp [loop]
  | succ n ih =>
    intro k cur
    unfold loop
    simp only
    split
    · simp; omega
    · split
      · simp; omega
      · split
        · simp; omega
        · have := ih (k + 1) (cur * 2)
          simp only [List.length_cons]
          omega

/-- no limit, nothing succeeds, nobody aborts: the loop is still running after any number of
    iterations, having made one attempt per iteration -/
theorem loop_unbounded (h0 : cfg.attempts = 0) (ho : ∀ k, o k = false) (fuel : Nat) :
    ∀ (k : Nat) (cur : Q),
      (loop cfg o r none fuel k cur).attempts = k + fuel ∧
      (loop cfg o r none fuel k cur).final = .running ∧
      (loop cfg o r none fuel k cur).waits.length = fuel := by
  induction fuel with
  | zero => intro k cur; simp [loop]
  | succ n ih =>
    intro k cur
    unfold loop
    obtain ⟨h1, h2, h3⟩ := ih (k + 1) (cur * 2)
    simp only [ho, h0, h1, h2]
    simp
    omega

/-- the effort ends connected at the first success `j`, if nothing stops it before -/
theorem loop_first_success (fuel : Nat) : ∀ (k : Nat) (cur : Q) (j : Nat),
    k ≤ j → j - k < fuel →
    (∀ i, k ≤ i → i < j → o i = false) → o j = true →
    (∀ i, k ≤ i → i ≤ j → a ≠ some i) →
    (cfg.attempts = 0 ∨ j < cfg.attempts) →
      (loop cfg o r a fuel k cur).attempts = j + 1 ∧
      (loop cfg o r a fuel k cur).final = .connected ∧
      (loop cfg o r a fuel k cur).waits.length = j - k + 1 := by
  induction fuel with
  | zero => intro k cur j _ h; omega
  | succ n ih =>
    intro k cur j hkj hf hfail hsucc hab hN
    unfold loop
    simp only
    have hak : a ≠ some k := hab k (Nat.le_refl k) hkj
    simp only [hak, if_false]
    by_cases hk : k = j
    · subst hk
      simp [hsucc]
    · have hlt : k < j := by omega
      have hok : o k = false := hfail k (Nat.le_refl k) hlt
      have hng : ¬ (cfg.attempts ≠ 0 ∧ cfg.attempts ≤ k + 1) := by
        intro ⟨h1, h2⟩
        cases hN with
        | inl h => exact h1 h
        | inr h => omega
      simp only [hok, hng, if_false, Bool.false_eq_true]
      obtain ⟨h1, h2, h3⟩ := ih (k + 1) (cur * 2) j (by omega) (by omega)
        (fun i h1 h2 => hfail i (by omega) h2) hsucc (fun i h1 h2 => hab i (by omega) h2) hN
      refine ⟨h1, h2, ?_⟩
      simp only [List.length_cons, h3]
      omega

/-- an effort that ended connected made its last attempt successfully and all earlier ones failed -/
theorem loop_connected_sound (fuel : Nat) : ∀ (k : Nat) (cur : Q),
    (loop cfg o r a fuel k cur).final = .connected →
      k < (loop cfg o r a fuel k cur).attempts ∧
      o ((loop cfg o r a fuel k cur).attempts - 1) = true ∧
      ∀ i, k ≤ i → i + 1 < (loop cfg o r a fuel k cur).attempts → o i = false := by
  induction fuel with
  | zero => intro k cur h; simp [loop] at h
  | succ n ih =>
    intro k cur
    unfold loop
    simp only
    split
    · intro h; simp at h
    · split
      · rename_i hs
        intro _
        simp [hs]
        intro i h1 h2; omega
      · split
        · intro h; simp at h
        · rename_i hs _
          intro h
          have ⟨h1, h2, h3⟩ := ih (k + 1) (cur * 2) h
          refine ⟨Nat.lt_of_succ_lt h1, h2, ?_⟩
          intro i hki hi
          by_cases hik : i = k
          · subst hik; simpa using hs
          · exact h3 i (by omega) hi

/-- an abort observed by wait `j`: exactly `j` attempts were made -/
theorem loop_abort (fuel : Nat) : ∀ (k : Nat) (cur : Q) (j : Nat),
    a = some j → k ≤ j → j - k < fuel →
    (∀ i, k ≤ i → i < j → o i = false) →
    (cfg.attempts = 0 ∨ j < cfg.attempts) →
      (loop cfg o r a fuel k cur).attempts = j ∧
      (loop cfg o r a fuel k cur).final = .aborted ∧
      (loop cfg o r a fuel k cur).waits.length = j - k + 1 := by
  induction fuel with
  | zero => intro k cur j _ _ h; omega
  | succ n ih =>
    intro k cur j ha hkj hf hfail hN
    unfold loop
    simp only
    by_cases hk : k = j
    · subst hk
      simp [ha]
    · have hlt : k < j := by omega
      have hak : a ≠ some k := by rw [ha]; intro h; injection h with h; omega
      have hok : o k = false := hfail k (Nat.le_refl k) hlt
      have hng : ¬ (cfg.attempts ≠ 0 ∧ cfg.attempts ≤ k + 1) := by
        intro ⟨h1, h2⟩
        cases hN with
        | inl h => exact h1 h
        | inr h => omega
      simp only [hak, hok, hng, if_false, Bool.false_eq_true]
      obtain ⟨h1, h2, h3⟩ := ih (k + 1) (cur * 2) j ha (by omega) (by omega)
        (fun i h1 h2 => hfail i (by omega) h2) hN
      refine ⟨h1, h2, ?_⟩
      simp only [List.length_cons, h3]
      omega

/-- whatever else happens, an abort at wait `j` caps the number of attempts at `j` -/
theorem loop_abort_le (fuel : Nat) : ∀ (k : Nat) (cur : Q) (j : Nat),
    a = some j → k ≤ j → (loop cfg o r a fuel k cur).attempts ≤ j := by
  induction fuel with
  | zero => intro k cur j _ h; simpa [loop] using h
  | succ n ih =>
    intro k cur j ha hkj
    unfold loop
    simp only
    by_cases hk : k = j
    · subst hk; simp [ha]
    · have hak : a ≠ some k := by rw [ha]; intro h; injection h with h; omega
      simp only [hak, if_false]
      split
      · simp; omega
      · split
        · simp; omega
        · exact ih (k + 1) (cur * 2) j ha (by omega)

/-- how an effort can end, read backwards -/
theorem loop_final_sound (fuel : Nat) : ∀ (k : Nat) (cur : Q),
    ((loop cfg o r a fuel k cur).final = .aborted → a = some (loop cfg o r a fuel k cur).attempts) ∧
    ((loop cfg o r a fuel k cur).final = .gaveUp →
      cfg.attempts ≠ 0 ∧ cfg.attempts ≤ (loop cfg o r a fuel k cur).attempts) := by
  induction fuel with
  | zero => intro k cur; simp [loop]
  | succ n ih =>
    intro k cur
    unfold loop
    simp only
    split
    · rename_i h; simp [h]
    · split
      · simp
      · split
        · rename_i h; simp; exact h
        · exact ih (k + 1) (cur * 2)

end Sio.Reconnect

namespace Sio.Reconnect

/-- every `attempt` event of the layout carries the stored parameters -/
theorem body_attempts {P : Type} (cfg : Cfg) (s : Stored P) (outs : Nat → Outcome) (n : Nat)
    (ws : List Q) : ∀ (k : Nat) (p : Stored P), Ev.attempt p ∈ body cfg s outs n k ws → p = s := by
  induction ws with
  | nil => intro k p h; simp [body] at h
  | cons w ws ih =>
    intro k p h
    unfold body at h
    rw [List.mem_append] at h
    cases h with
    | inr h => exact ih (k + 1) p h
    | inl h =>
      simp only [List.mem_cons] at h
      cases h with
      | inl h => cases h
      | inr h =>
        split at h
        · simp only [List.mem_cons] at h
          cases h with
          | inl h => injection h
          | inr h =>
            cases ho : outs k <;> simp [attemptEvents, ho] at h
        · simp at h

theorem final_no_attempt {P : Type} (nss : List Ns) (f : Final) (p : Stored P) :
    Ev.attempt p ∉ (finalEvents nss f : List (Ev P)) := by
  cases f <;> simp [finalEvents]

/-- number of `attempt` events in the layout = number of attempts counted by the policy, as long
    as every attempt has its wait -/
def countAttempts {P : Type} : List (Ev P) → Nat
  | [] => 0
  | .attempt _ :: es => countAttempts es + 1
  | _ :: es => countAttempts es

theorem countAttempts_append {P : Type} (xs ys : List (Ev P)) :
    countAttempts (xs ++ ys) = countAttempts xs + countAttempts ys := by
  induction xs with
  | nil => simp [countAttempts]
  | cons x xs ih => cases x <;> simp [countAttempts, ih]; omega

theorem countAttempts_attemptEvents {P : Type} (cfg : Cfg) (nss : List Ns) (o : Outcome) :
    countAttempts (attemptEvents cfg nss o : List (Ev P)) = 0 := by
  cases o with
  | served acc =>
    simp only [attemptEvents, countAttempts_append]
    have h1 : ∀ l : List (Nat × Ns), countAttempts (l.map (fun (p : Nat × Ns) =>
        (Ev.handler (if accepted acc p.1 then HName.connect else HName.connectError) p.2 : Ev P))) = 0 := by
      intro l
      induction l with
      | nil => rfl
      | cons x xs ih => simp [countAttempts, ih]
    rw [h1]
    split <;> simp [countAttempts]
  | transport =>
    simp only [attemptEvents]
    induction nss with
    | nil => rfl
    | cons x xs ih => simp [countAttempts, ih]
  | lost => simp [attemptEvents, countAttempts]

theorem countAttempts_final {P : Type} (nss : List Ns) (f : Final) :
    countAttempts (finalEvents nss f : List (Ev P)) = 0 := by
  have hm : ∀ l : List Ns, countAttempts (l.map (fun n => (Ev.handler .disconnectFinal n : Ev P))) = 0 := by
    intro l; induction l with
    | nil => rfl
    | cons x xs ih => simp [countAttempts, ih]
  cases f <;> simp [finalEvents, countAttempts_append, hm, countAttempts]

theorem countAttempts_body {P : Type} (cfg : Cfg) (s : Stored P) (outs : Nat → Outcome) (n : Nat)
    (ws : List Q) : ∀ k, k ≤ n → n ≤ k + ws.length →
      countAttempts (body cfg s outs n k ws) = n - k := by
  induction ws with
  | nil => intro k h1 h2; simp at h2; simp [body, countAttempts]; omega
  | cons w ws ih =>
    intro k h1 h2
    unfold body
    simp only [List.length_cons] at h2
    rw [countAttempts_append]
    by_cases hk : k < n
    · simp only [hk, if_true, countAttempts, countAttempts_attemptEvents]
      rw [ih (k + 1) (by omega) (by omega)]
      omega
    · have : k = n := by omega
      subst this
      simp only [Nat.lt_irrefl, if_false, countAttempts]
      -- no further attempts: all later indices are ≥ n
      have hz : ∀ (ws : List Q) (j : Nat), k ≤ j → countAttempts (body cfg s outs k j ws) = 0 := by
        intro ws
        induction ws with
        | nil => intro j _; simp [body, countAttempts]
        | cons w ws ih2 =>
          intro j hj
          unfold body
          have : ¬ j < k := by omega
          simp only [this, if_false, countAttempts_append, countAttempts]
          simpa using ih2 (j + 1) (by omega)
      rw [hz ws (k + 1) (by omega)]
      omega

theorem pow2_pos (k : Nat) : (0:Q) < 2 ^ k := by
  induction k with
  | zero => decide +kernel
  | succ n ih => rw [Rat.pow_succ]; grind

/-- no input changes the configuration -/
theorem step_cfg {P : Type} (c c' : Cli P) (i : Input P) (evs : List (Ev P))
    (h : step c i = some (c', evs)) : c'.cfg = c.cfg := by
  cases i with
  | connect s =>
    simp only [step] at h
    split at h <;> simp at h
    rw [← h.1]
  | connectNoWait s acc =>
    simp only [step] at h
    split at h <;> simp at h
    rw [← h.1]
  | nsEnd n =>
    simp only [step] at h
    split at h <;> simp at h
    rw [← h.1]
  | lose cause sc =>
    simp only [step] at h
    cases hc : c.connected <;> cases hs : c.stored <;> simp only [hc, hs] at h <;>
      try (simp at h; done)
    split at h <;> simp only [Option.some.injEq, Prod.mk.injEq] at h <;> rw [← h.1]

theorem run_cfg {P : Type} (is : List (Input P)) : ∀ (c0 c : Cli P) (evs : List (Ev P)),
    run c0 is = some (c, evs) → c.cfg = c0.cfg := by
  induction is with
  | nil =>
    intro c0 c evs hrun
    simp only [run, Option.some.injEq, Prod.mk.injEq] at hrun
    rw [← hrun.1]
  | cons i is ih =>
    intro c0 c evs hrun
    unfold run at hrun
    cases hst : step c0 i with
    | none => simp [hst] at hrun
    | some p =>
      obtain ⟨c1, e1⟩ := p
      simp only [hst] at hrun
      cases hr : run c1 is with
      | none => simp [hr] at hrun
      | some q =>
        obtain ⟨c2, e2⟩ := q
        simp only [hr, Option.some.injEq, Prod.mk.injEq] at hrun
        rw [← hrun.1, ih c1 c2 e2 hr, step_cfg c0 c1 i e1 hst]

end Sio.Reconnect
