/-
  Helper lemmas for K3 (rooms): membership characterisations of the model's queries, the model
  invariant and its preservation, recipient-list lemmas.
-/
import Sio.Model.RoomsSpec
namespace Sio.Rooms

/-! ### Queries as statements about membership in the relation -/

theorem isMember_iff {s : St} {ns : Ns} {room : Option Room} {sid : Sid} :
    isMember s ns room sid = true ↔ ∃ eio, (⟨ns, room, sid, eio⟩ : Entry) ∈ s := by
  simp only [isMember, List.any_eq_true, decide_eq_true_eq]
  constructor
  · rintro ⟨e, he, h1, h2, h3⟩
    exact ⟨e.eio, by subst h1 h2 h3; exact he⟩
  · rintro ⟨eio, he⟩
    exact ⟨_, he, rfl, rfl, rfl⟩

theorem isMember_false_iff {s : St} {ns : Ns} {room : Option Room} {sid : Sid} :
    isMember s ns room sid = false ↔ ∀ eio, (⟨ns, room, sid, eio⟩ : Entry) ∉ s := by
  rw [← Bool.not_eq_true, isMember_iff]; simp

theorem hasNs_iff {s : St} {ns : Ns} : hasNs s ns = true ↔ ∃ e ∈ s, e.ns = ns := by
  simp [hasNs]

theorem eioOf_none_iff {s : St} {ns : Ns} {sid : Sid} :
    eioOf s ns sid = none ↔ ∀ eio, (⟨ns, none, sid, eio⟩ : Entry) ∉ s := by
  simp only [eioOf, Option.map_eq_none_iff, List.find?_eq_none, decide_eq_true_eq]
  constructor
  · intro h eio he
    exact h _ he ⟨rfl, rfl, rfl⟩
  · rintro h ⟨a, b, c, d⟩ he ⟨h1, h2, h3⟩
    simp only at h1 h2 h3
    subst h1 h2 h3; exact h d he

theorem sidOf_none_iff {s : St} {ns : Ns} {eio : Eio} :
    sidOf s ns eio = none ↔ ∀ sid, (⟨ns, none, sid, eio⟩ : Entry) ∉ s := by
  simp only [sidOf, Option.map_eq_none_iff, List.find?_eq_none, decide_eq_true_eq]
  constructor
  · intro h sid he
    exact h _ he ⟨rfl, rfl, rfl⟩
  · rintro h ⟨a, b, c, d⟩ he ⟨h1, h2, h3⟩
    simp only at h1 h2 h3
    subst h1 h2 h3; exact h c he

theorem eioOf_some_mem {s : St} {ns : Ns} {sid : Sid} {eio : Eio}
    (h : eioOf s ns sid = some eio) : (⟨ns, none, sid, eio⟩ : Entry) ∈ s := by
  simp only [eioOf, Option.map_eq_some_iff] at h
  obtain ⟨⟨a, b, c, d⟩, hf, rfl⟩ := h
  have hm := List.mem_of_find?_eq_some hf
  have hp := List.find?_some hf
  simp only [decide_eq_true_eq] at hp
  obtain ⟨h1, h2, h3⟩ := hp
  subst h1 h2 h3; exact hm

theorem sidOf_some_mem {s : St} {ns : Ns} {sid : Sid} {eio : Eio}
    (h : sidOf s ns eio = some sid) : (⟨ns, none, sid, eio⟩ : Entry) ∈ s := by
  simp only [sidOf, Option.map_eq_some_iff] at h
  obtain ⟨⟨a, b, c, d⟩, hf, rfl⟩ := h
  have hm := List.mem_of_find?_eq_some hf
  have hp := List.find?_some hf
  simp only [decide_eq_true_eq] at hp
  obtain ⟨h1, h2, h3⟩ := hp
  subst h1 h2 h3; exact hm

/-! ### The invariant -/

/-- What every reachable state satisfies. -/
structure Inv (s : St) : Prop where
  /-- no duplicate entries -/
  nodup : s.Nodup
  /-- every member of any room of a namespace is in room `None` of that namespace, with the same
      transport -/
  inNone : ∀ e ∈ s, (⟨e.ns, none, e.sid, e.eio⟩ : Entry) ∈ s
  /-- within a namespace a session has one transport ... -/
  sidEio : ∀ e₁ ∈ s, ∀ e₂ ∈ s, e₁.ns = e₂.ns → e₁.sid = e₂.sid → e₁.eio = e₂.eio
  /-- ... and a transport has one session -/
  eioSid : ∀ e₁ ∈ s, ∀ e₂ ∈ s, e₁.ns = e₂.ns → e₁.eio = e₂.eio → e₁.sid = e₂.sid

theorem Inv.nil : Inv [] := ⟨List.nodup_nil, by simp, by simp, by simp⟩

theorem Inv.eioOf_iff {s : St} (h : Inv s) {ns : Ns} {sid : Sid} {eio : Eio} :
    eioOf s ns sid = some eio ↔ (⟨ns, none, sid, eio⟩ : Entry) ∈ s := by
  refine ⟨eioOf_some_mem, fun hm => ?_⟩
  cases hq : eioOf s ns sid with
  | none => exact absurd hm (eioOf_none_iff.mp hq eio)
  | some x =>
    have := h.sidEio _ (eioOf_some_mem hq) _ hm rfl rfl
    simp at this; simp [this]

theorem Inv.sidOf_iff {s : St} (h : Inv s) {ns : Ns} {sid : Sid} {eio : Eio} :
    sidOf s ns eio = some sid ↔ (⟨ns, none, sid, eio⟩ : Entry) ∈ s := by
  refine ⟨sidOf_some_mem, fun hm => ?_⟩
  cases hq : sidOf s ns eio with
  | none => exact absurd hm (sidOf_none_iff.mp hq sid)
  | some x =>
    have := h.eioSid _ (sidOf_some_mem hq) _ hm rfl rfl
    simp at this; simp [this]

/-- under the invariant, membership of any room implies being connected with that transport -/
theorem Inv.eioOf_of_mem {s : St} (h : Inv s) {e : Entry} (he : e ∈ s) :
    eioOf s e.ns e.sid = some e.eio :=
  h.eioOf_iff.mpr (h.inNone e he)

theorem Inv.sidOf_of_mem {s : St} (h : Inv s) {e : Entry} (he : e ∈ s) :
    sidOf s e.ns e.eio = some e.sid :=
  h.sidOf_iff.mpr (h.inNone e he)

/-! ### Preservation -/

theorem mem_add {s : St} {e x : Entry} : x ∈ add s e ↔ x ∈ s ∨ x = e := by
  unfold add
  split
  · constructor
    · exact Or.inl
    · rintro (h | rfl) <;> assumption
  · simp

theorem nodup_add {s : St} {e : Entry} (h : s.Nodup) : (add s e).Nodup := by
  unfold add
  split
  · exact h
  · rename_i hn
    rw [List.nodup_append]
    refine ⟨h, by simp, ?_⟩
    intro a ha b hb
    simp at hb; subst hb
    rintro rfl; exact hn ha

/-- adding a room entry for a session that is connected with that transport -/
theorem Inv.add {s : St} (h : Inv s) {e : Entry}
    (he : (⟨e.ns, none, e.sid, e.eio⟩ : Entry) ∈ s) : Inv (add s e) where
  nodup := nodup_add h.nodup
  inNone := by
    intro x hx
    rcases mem_add.mp hx with hx | rfl
    · exact mem_add.mpr (Or.inl (h.inNone x hx))
    · exact mem_add.mpr (Or.inl he)
  sidEio := by
    intro a ha b hb
    rcases mem_add.mp ha with ha' | rfl <;> rcases mem_add.mp hb with hb' | rfl
    · exact h.sidEio a ha' b hb'
    · intro h1 h2; have := h.sidEio a ha' _ he; exact this h1 h2
    · intro h1 h2; have := h.sidEio _ he b hb'; exact this h1 h2
    · intros; rfl
  eioSid := by
    intro a ha b hb
    rcases mem_add.mp ha with ha' | rfl <;> rcases mem_add.mp hb with hb' | rfl
    · exact h.eioSid a ha' b hb'
    · intro h1 h2; have := h.eioSid a ha' _ he; exact this h1 h2
    · intro h1 h2; have := h.eioSid _ he b hb'; exact this h1 h2
    · intros; rfl

/-- adding the room-`None` entry of a fresh session on a transport that has no session on the
    namespace -/
theorem Inv.addNone {s : St} (h : Inv s) {ns : Ns} {sid : Sid} {eio : Eio}
    (hf : ∀ x ∈ s, x.ns = ns → x.sid ≠ sid ∧ x.eio ≠ eio) :
    Inv (Rooms.add s ⟨ns, none, sid, eio⟩) where
  nodup := nodup_add h.nodup
  inNone := by
    intro x hx
    rcases mem_add.mp hx with hx | rfl
    · exact mem_add.mpr (Or.inl (h.inNone x hx))
    · exact mem_add.mpr (Or.inr rfl)
  sidEio := by
    intro a ha b hb
    rcases mem_add.mp ha with ha | rfl <;> rcases mem_add.mp hb with hb | rfl
    · exact h.sidEio a ha b hb
    · intro h1 h2; exact absurd h2 (hf a ha h1).1
    · intro h1 h2; exact absurd h2.symm (hf b hb h1.symm).1
    · intros; rfl
  eioSid := by
    intro a ha b hb
    rcases mem_add.mp ha with ha | rfl <;> rcases mem_add.mp hb with hb | rfl
    · exact h.eioSid a ha b hb
    · intro h1 h2; exact absurd h2 (hf a ha h1).2
    · intro h1 h2; exact absurd h2.symm (hf b hb h1.symm).2
    · intros; rfl

/-- removing entries, as long as a session's room-`None` entry goes last -/
theorem Inv.filter {s : St} (h : Inv s) (p : Entry → Bool)
    (hp : ∀ e ∈ s, p e = true → p ⟨e.ns, none, e.sid, e.eio⟩ = true) : Inv (s.filter p) where
  nodup := h.nodup.filter _
  inNone := by
    intro e he
    rw [List.mem_filter] at he ⊢
    exact ⟨h.inNone e he.1, hp e he.1 he.2⟩
  sidEio := by
    intro a ha b hb
    exact h.sidEio a (List.mem_filter.mp ha).1 b (List.mem_filter.mp hb).1
  eioSid := by
    intro a ha b hb
    exact h.eioSid a (List.mem_filter.mp ha).1 b (List.mem_filter.mp hb).1

/-- nothing at all is recorded on a namespace for a session that is not connected to it -/
theorem Inv.no_entry_of_eioOf_none {s : St} (h : Inv s) {ns : Ns} {sid : Sid}
    (hn : eioOf s ns sid = none) : ∀ x ∈ s, x.ns = ns → x.sid ≠ sid := by
  intro x hx h1 h2
  have := h.inNone x hx
  rw [h1, h2] at this
  exact eioOf_none_iff.mp hn _ this

theorem Inv.no_entry_of_sidOf_none {s : St} (h : Inv s) {ns : Ns} {eio : Eio}
    (hn : sidOf s ns eio = none) : ∀ x ∈ s, x.ns = ns → x.eio ≠ eio := by
  intro x hx h1 h2
  have := h.inNone x hx
  rw [h1, h2] at this
  exact sidOf_none_iff.mp hn _ this

theorem Inv.connect {s s' : St} (h : Inv s) {ns : Ns} {eio : Eio} {sid : Sid}
    (hfresh : eioOf s ns sid = none) (hc : Rooms.connect s ns eio sid = some s') : Inv s' := by
  unfold Rooms.connect at hc
  split at hc
  · cases hc
  · rename_i hs
    cases hc
    refine Inv.add (Inv.addNone h ?_) (mem_add.mpr (Or.inr rfl))
    intro x hx hns
    exact ⟨h.no_entry_of_eioOf_none hfresh x hx hns, h.no_entry_of_sidOf_none hs x hx hns⟩

theorem Inv.enter {s s' : St} (h : Inv s) {ns : Ns} {sid : Sid} {room : Room}
    (he : Rooms.enter s ns sid room = .ok s') : Inv s' := by
  unfold Rooms.enter at he
  split at he
  · cases he
  · split at he
    · cases he
    · rename_i eio hq
      cases he
      exact Inv.add h (eioOf_some_mem hq)

theorem Inv.leave {s : St} (h : Inv s) (ns : Ns) (sid : Sid) (room : Room) :
    Inv (Rooms.leave s ns sid (some room)) := by
  unfold Rooms.leave
  apply h.filter
  intro e _ _; simp

theorem Inv.closeRoom {s : St} (h : Inv s) (ns : Ns) (room : Room) :
    Inv (Rooms.closeRoom s ns room) := by
  unfold Rooms.closeRoom
  apply h.filter
  intro e _ _; simp

theorem Inv.disconnect {s : St} (h : Inv s) (ns : Ns) (sid : Sid) :
    Inv (Rooms.disconnect s ns sid) := by
  unfold Rooms.disconnect
  apply h.filter
  intro e _ hp; simpa using hp

theorem Inv.lost {s : St} (h : Inv s) (eio : Eio) : Inv (Rooms.lost s eio) := by
  unfold Rooms.lost
  apply h.filter
  intro e _ hp; simpa using hp

theorem Inv.apply {s : St} (h : Inv s) (op : Op) : Inv (Rooms.apply s op) := by
  cases op with
  | connect ns eio sid =>
    simp only [Rooms.apply]
    split
    · exact h
    · rename_i hf
      cases hc : Rooms.connect s ns eio sid with
      | none => simpa using h
      | some s' =>
        simp only [Option.getD_some]
        exact h.connect (by simpa using hf) hc
  | enter ns sid room =>
    simp only [Rooms.apply]
    split
    · rename_i s' he; exact h.enter he
    · exact h
  | leave ns sid room => exact h.leave ns sid room
  | closeRoom ns room => exact h.closeRoom ns room
  | disconnect ns sid => exact h.disconnect ns sid
  | lost eio => exact h.lost eio

theorem Inv.run {s : St} (h : Inv s) (ops : List Op) : Inv (Rooms.run s ops) := by
  induction ops generalizing s with
  | nil => exact h
  | cons op ops ih => exact ih (h.apply op)

end Sio.Rooms
