/-
  C02 — the notions that occur in the *statements* of the property theorems
  (Sio/Props/C02.lean): application-level messages, their domain, the packet the constructor
  makes of them, the JSON value that is printed for them, and what the peer is expected to
  invoke.  Small, structural, executable; separate from the proofs (Sio/Lemmas/Args.lean).
-/
import Sio.Model.Args
import Sio.Lemmas.CodecDefs
namespace Sio
namespace Args

/-- What an application asks one side to transmit. -/
inductive Msg where
  /-- `emit(ev, d, namespace=ns[, callback])` / `send` / `call`; `id` is the acknowledgement id
      the library allotted when a callback was given -/
  | event (ev : Str) (d : Data) (ns : Str) (id : Option Nat)
  /-- a handler invoked for an event that carried `id` on `ns` returned `ret` -/
  | ack (ret : Data) (ns : Str) (id : Nat)
  deriving Repr

def Msg.payload : Msg → J
  | .event ev d _ _ => eventPayload ev d
  | .ack ret _ _ => ackPayload ret

def Msg.ns : Msg → Str
  | .event _ _ ns _ => ns
  | .ack _ ns _ => ns

def Msg.id : Msg → Option Nat
  | .event _ _ _ id => id
  | .ack _ _ id => some id

def Msg.baseType : Msg → Nat
  | .event .. => EVENT
  | .ack .. => ACK

/-- The packet the constructor makes (`Args.mkEvent_eq`, `Args.mkAck_eq`): EVENT/ACK promoted to
    the binary type exactly when the payload contains a byte string; with the msgpack class
    (`usesBinary = false`) never. -/
def Msg.packet (usesBinary : Bool) (m : Msg) : Packet :=
  ⟨if usesBinary && m.payload.isBinary then
      (if m.baseType = EVENT then BINARY_EVENT else BINARY_ACK) else m.baseType,
   some m.ns, m.id, some m.payload⟩

/-- The one JSON value that is printed for the message: the payload with its byte strings
    replaced by numbered placeholders (the payload itself when it has none). -/
def Msg.wireJson (m : Msg) : J := (decon m.payload []).1

/-- The domain of the property: the namespace is a path (`/…`, no `,`, no query string — it is
    one the client is connected to), the id is below `10^100`, no dictionary of the payload uses
    the reserved key `"_placeholder"`, fewer than `10^10` byte strings.  Event name and values
    are arbitrary (`Str` excludes lone surrogates, `J` has finite floats as literals, string keys,
    no tuples below the top level — by construction). -/
def Msg.InDomain (m : Msg) : Bool :=
  WFArgs m.baseType (some m.payload) (some m.ns) m.id && !m.ns.contains '?'

/-- What the receiving side must invoke. -/
def Msg.expected : Msg → Delivery
  | .event ev d ns id => .event ns id (.str ev) d.pack
  | .ack ret ns id => .ack ns (some id) ret.pack

/-- A packet `send`/`receive` transport faithfully (hypotheses of `C01.roundtrip`, plus: a packet
    of a binary type really has an attachment — the constructor guarantees it). -/
structure Sendable (cls : Char → DC) (loads : Str → Except Err J) (dumps : J → Str) (p : Packet) :
    Prop where
  wf : WF p = true
  rt : ∀ j, p.wire.data = some j → loads (dumps j) = .ok j
  start : ∀ j, p.wire.data = some j → StartOK (dumps j) = true
  bin : isBinType p.type = true → (encode dumps p).2.getD [] ≠ []

end Args
end Sio
