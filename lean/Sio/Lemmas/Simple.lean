/-
  Invariants of the SimpleClient hand-off model (K9), by induction over the schedule.
-/
import Sio.Model.Simple
namespace Sio.Simple

/-- consumer pcs between the empty-buffer test and the next one -/
def CPc.inLoop : CPc → Bool
  | .r1 | .r1w | .r2 | .r3 | .r3w | .r4 => true
  | _ => false

/-- consumer pcs after the empty-buffer test and before the call of `input_event.wait` returns -/
def CPc.preInput : CPc → Bool
  | .r1 | .r1w | .r2 | .r3 => true
  | _ => false

/-- about to read `self.connected` -/
def CPc.readsConn : CPc → Bool
  | .r2 | .e2 => true
  | _ => false

/-- What may be said about a finished call from the snapshot taken when it finished. -/
def Good (e : Outcome × View) : Prop :=
  match e.1 with
  | .returned x => e.2.pc = .r5 ∧ e.2.buf.head? = some x ∧ x = e.2.returnedN
  | .sent => e.2.pc = .e3
  | .timeoutErr =>
      e.2.tmo = true ∧ e.2.woken = false ∧
      ((e.2.pc = .r3w ∧ e.2.signalled ≤ e.2.returnedN ∧ e.2.iev = false) ∨
       (e.2.pc = .r1w ∧ e.2.cev = false))
  | .disconnectedErr =>
      e.2.ended = true ∧ e.2.conn = false ∧ e.2.fresh = false ∧
      ((e.2.pc = .r2 ∧ e.2.returnedN = e.2.seen ∧ e.2.seen ≤ e.2.arrivedN ∧
        e.2.buf.length + e.2.returnedN = e.2.arrivedN) ∨ e.2.pc = .e2)
  | .indexErr => False

def LogOK (l : List (Outcome × View)) : Prop := ∀ e ∈ l, Good e

theorem LogOK.nil : LogOK [] := by intro e he; cases he

theorem LogOK.snoc {l : List (Outcome × View)} {e : Outcome × View} (h : LogOK l) (he : Good e) :
    LogOK (l ++ [e]) := by
  intro x hx
  rcases List.mem_append.mp hx with hx | hx
  · exact h x hx
  · have : x = e := by simpa using hx
    exact this ▸ he

structure Inv (s : State) : Prop where
  conserve : s.arrived = s.returned ++ s.buf
  ids : s.arrived = List.range s.arrived.length
  r5ne : s.cpc = .r5 → s.buf ≠ []
  sigIdle : s.ppc = .idle → s.signalled = s.arrived.length
  sigMid : s.ppc = .appended → s.signalled + 1 = s.arrived.length
  seenEq : s.cpc.inLoop = true → s.returned.length = s.seen
  seenLe : s.seen ≤ s.arrived.length
  unsig : s.cpc.preInput = true → s.iev = false → s.signalled ≤ s.returned.length
  unsigW : s.cpc = .r3w → s.woken = false → s.signalled ≤ s.returned.length ∧ s.iev = false
  connEnded : s.conn = true → s.ended = false
  notConn : s.conn = false → s.ended = true ∨ s.fresh = true
  freshC : s.fresh = true → s.cev = false ∧ s.kpc = .idle ∧ s.conn = false
  pastWait : s.cpc.readsConn = true → s.fresh = false
  wokenNF : s.cpc.waitsConn = true → s.woken = true → s.fresh = false
  reconC : s.recon = true → s.cev = false
  parkedC : s.cpc.waitsConn = true → s.woken = false → s.cev = false
  logOK : LogOK s.log

theorem inv_init : Inv init := by
  refine ⟨?_, ?_, ?_, ?_, ?_, ?_, ?_, ?_, ?_, ?_, ?_, ?_, ?_, ?_, ?_, ?_, ?_⟩ <;>
    simp [init, CPc.inLoop, CPc.preInput, CPc.readsConn, CPc.waitsConn, LogOK.nil]

theorem range_split {l r : List Nat} {x n : Nat} (h : l ++ x :: r = List.range n) : x = l.length := by
  have h1 : (l ++ x :: r)[l.length]? = some x := by simp
  rw [h] at h1
  rcases Nat.lt_or_ge l.length n with hlt | hge
  · rw [List.getElem?_range hlt] at h1
    exact (Option.some.inj h1).symm
  · rw [List.getElem?_eq_none (by simpa using hge)] at h1
    cases h1

end Sio.Simple
