/-
  Invariants of the SimpleClient hand-off model (K9), by induction over the schedule.
-/
import Sio.Model.Simple
namespace Sio.Simple

/-- consumer pcs between the empty-buffer test and the next one -/
def CPc.inLoop : CPc → Bool
  | .r1 | .r1w | .r2 | .r2b | .r3 | .r3w | .r4 => true
  | _ => false

/-- consumer pcs after the empty-buffer test and before the call of `input_event.wait` returns -/
def CPc.preInput : CPc → Bool
  | .r1 | .r1w | .r2 | .r3 => true
  | _ => false

/-- past the wait on `connected_event`: about to read `self.connected`, or (receive) having read it
    `False` and about to test the buffer -/
def CPc.readsConn : CPc → Bool
  | .r2 | .r2b | .e2 => true
  | _ => false

/-- What may be said about a finished call from the snapshot taken when it finished. -/
def Good (e : Outcome × View) : Prop :=
  match e.1 with
  | .returned x => e.2.pc = .r5 ∧ e.2.buf.head? = some x ∧ x = e.2.returnedN
  | .sent => e.2.pc = .e3
  | .timeoutErr =>
      e.2.tmo = true ∧ e.2.woken = false ∧
      ((e.2.pc = .r3w ∧ e.2.signalled ≤ e.2.returnedN ∧ e.2.iev = false) ∨
       (e.2.pc = .r1w ∧ e.2.cev = false))
  | .disconnectedErr =>
      e.2.fresh = false ∧ (e.2.conn = false → e.2.ended = true) ∧
      (e.2.revived = false → e.2.ended = true ∧ e.2.conn = false) ∧
      ((e.2.pc = .r2b ∧ e.2.buf = [] ∧ e.2.returnedN = e.2.arrivedN ∧ e.2.signalled ≤ e.2.returnedN ∧
        e.2.endedRd = true) ∨
       (e.2.pc = .e2 ∧ e.2.ended = true ∧ e.2.conn = false))
  | .indexErr => False

def LogOK (l : List (Outcome × View)) : Prop := ∀ e ∈ l, Good e

theorem LogOK.nil : LogOK [] := by intro e he; cases he

theorem LogOK.snoc {l : List (Outcome × View)} {e : Outcome × View} (h : LogOK l) (he : Good e) :
    LogOK (l ++ [e]) := by
  intro x hx
  rcases List.mem_append.mp hx with hx | hx
  · exact h x hx
  · have : x = e := by simpa using hx
    exact this ▸ he

structure Inv (s : State) : Prop where
  conserve : s.arrived = s.returned ++ s.buf
  ids : s.arrived = List.range s.arrived.length
  r5ne : s.cpc = .r5 → s.buf ≠ []
  sigIdle : s.ppc = .idle → s.signalled = s.arrived.length
  sigMid : s.ppc = .appended → s.signalled + 1 = s.arrived.length
  sigLe : s.signalled ≤ s.arrived.length
  seenEq : s.cpc.inLoop = true → s.returned.length = s.seen
  seenLe : s.seen ≤ s.arrived.length
  unsig : s.cpc.preInput = true → s.iev = false → s.signalled ≤ s.returned.length
  unsigW : s.cpc = .r3w → s.woken = false → s.signalled ≤ s.returned.length ∧ s.iev = false
  connEnded : s.conn = true → s.ended = false
  notConn : s.conn = false → s.ended = true ∨ s.fresh = true
  freshC : s.fresh = true → s.cev = false ∧ s.kpc = .idle ∧ s.conn = false
  pastWait : s.cpc.readsConn = true → s.fresh = false
  wokenNF : s.cpc.waitsConn = true → s.woken = true → s.fresh = false
  reconC : s.recon = true → s.cev = false
  parkedC : s.cpc.waitsConn = true → s.woken = false → s.cev = false
  r2bEnded : s.cpc = .r2b → s.endedRd = true
  r2bConn : s.cpc = .r2b → s.revived = false → s.conn = false
  logOK : LogOK s.log

theorem inv_init : Inv init := by
  refine ⟨?_, ?_, ?_, ?_, ?_, ?_, ?_, ?_, ?_, ?_, ?_, ?_, ?_, ?_, ?_, ?_, ?_, ?_, ?_, ?_⟩ <;>
    simp [init, CPc.inLoop, CPc.preInput, CPc.readsConn, CPc.waitsConn, LogOK.nil]

macro "inv_fields" : tactic =>
  `(tactic| refine ⟨?_, ?_, ?_, ?_, ?_, ?_, ?_, ?_, ?_, ?_, ?_, ?_, ?_, ?_, ?_, ?_, ?_, ?_, ?_, ?_⟩)

macro "inv_auto" : tactic => `(tactic| (
  first
  | (simp only [finish]; refine LogOK.snoc ‹LogOK _› ?_;
     simp_all [Good, view, CPc.waitsConn, CPc.preInput, CPc.inLoop, CPc.readsConn]; try omega)
  | (simp_all [finish, setInput, setConn, CPc.waitsConn, CPc.preInput, CPc.inLoop, CPc.readsConn];
     try omega)))

theorem range_split {l r : List Nat} {x n : Nat} (h : l ++ x :: r = List.range n) : x = l.length := by
  have h1 : (l ++ x :: r)[l.length]? = some x := by simp
  rw [h] at h1
  rcases Nat.lt_or_ge l.length n with hlt | hge
  · rw [List.getElem?_range hlt] at h1
    exact (Option.some.inj h1).symm
  · rw [List.getElem?_eq_none (by simpa using hge)] at h1
    cases h1


theorem inv_cons_idle {s : State} (ok : Bool) (h : Inv s) (hc : s.cpc = .idle) : Inv (consStep s ok) := by
  obtain ⟨h1, h2, h3, h4, h5, h5b, h6, h7, h8, h9, h10, h11, h12, h13, h14, h15, h16, h18, h19, h17⟩ := h
  simp only [consStep, hc]
  skip
  all_goals
    inv_fields
    · simpa [finish] using h1
    · simpa [finish] using h2
    all_goals clear h2
    all_goals inv_auto

theorem inv_cons_r0 {s : State} (ok : Bool) (h : Inv s) (hc : s.cpc = .r0) : Inv (consStep s ok) := by
  obtain ⟨h1, h2, h3, h4, h5, h5b, h6, h7, h8, h9, h10, h11, h12, h13, h14, h15, h16, h18, h19, h17⟩ := h
  simp only [consStep, hc]
  all_goals (try split)
  all_goals
    inv_fields
    · simpa [finish] using h1
    · simpa [finish] using h2
    all_goals clear h2
    all_goals inv_auto

theorem inv_cons_r1 {s : State} (ok : Bool) (h : Inv s) (hc : s.cpc = .r1) : Inv (consStep s ok) := by
  obtain ⟨h1, h2, h3, h4, h5, h5b, h6, h7, h8, h9, h10, h11, h12, h13, h14, h15, h16, h18, h19, h17⟩ := h
  simp only [consStep, hc]
  all_goals (try split)
  all_goals
    inv_fields
    · simpa [finish] using h1
    · simpa [finish] using h2
    all_goals clear h2
    all_goals inv_auto

theorem inv_cons_r1w {s : State} (ok : Bool) (h : Inv s) (hc : s.cpc = .r1w) : Inv (consStep s ok) := by
  obtain ⟨h1, h2, h3, h4, h5, h5b, h6, h7, h8, h9, h10, h11, h12, h13, h14, h15, h16, h18, h19, h17⟩ := h
  simp only [consStep, hc]
  all_goals (try split)
  all_goals
    inv_fields
    · simpa [finish] using h1
    · simpa [finish] using h2
    all_goals clear h2
    all_goals inv_auto

theorem inv_cons_r2 {s : State} (ok : Bool) (h : Inv s) (hc : s.cpc = .r2) : Inv (consStep s ok) := by
  obtain ⟨h1, h2, h3, h4, h5, h5b, h6, h7, h8, h9, h10, h11, h12, h13, h14, h15, h16, h18, h19, h17⟩ := h
  simp only [consStep, hc]
  all_goals (try split)
  all_goals
    inv_fields
    · simpa [finish] using h1
    · simpa [finish] using h2
    all_goals clear h2
    all_goals inv_auto

theorem inv_cons_r2b {s : State} (ok : Bool) (h : Inv s) (hc : s.cpc = .r2b) : Inv (consStep s ok) := by
  obtain ⟨h1, h2, h3, h4, h5, h5b, h6, h7, h8, h9, h10, h11, h12, h13, h14, h15, h16, h18, h19, h17⟩ := h
  simp only [consStep, hc]
  all_goals (try split)
  all_goals
    inv_fields
    · simpa [finish] using h1
    · simpa [finish] using h2
    all_goals clear h2
    all_goals inv_auto

theorem inv_cons_r3 {s : State} (ok : Bool) (h : Inv s) (hc : s.cpc = .r3) : Inv (consStep s ok) := by
  obtain ⟨h1, h2, h3, h4, h5, h5b, h6, h7, h8, h9, h10, h11, h12, h13, h14, h15, h16, h18, h19, h17⟩ := h
  simp only [consStep, hc]
  all_goals (try split)
  all_goals
    inv_fields
    · simpa [finish] using h1
    · simpa [finish] using h2
    all_goals clear h2
    all_goals inv_auto

theorem inv_cons_r3w {s : State} (ok : Bool) (h : Inv s) (hc : s.cpc = .r3w) : Inv (consStep s ok) := by
  obtain ⟨h1, h2, h3, h4, h5, h5b, h6, h7, h8, h9, h10, h11, h12, h13, h14, h15, h16, h18, h19, h17⟩ := h
  simp only [consStep, hc]
  all_goals (try split)
  all_goals
    inv_fields
    · simpa [finish] using h1
    · simpa [finish] using h2
    all_goals clear h2
    all_goals inv_auto

theorem inv_cons_r4 {s : State} (ok : Bool) (h : Inv s) (hc : s.cpc = .r4) : Inv (consStep s ok) := by
  obtain ⟨h1, h2, h3, h4, h5, h5b, h6, h7, h8, h9, h10, h11, h12, h13, h14, h15, h16, h18, h19, h17⟩ := h
  simp only [consStep, hc]
  skip
  all_goals
    inv_fields
    · simpa [finish] using h1
    · simpa [finish] using h2
    all_goals clear h2
    all_goals inv_auto

theorem inv_cons_e1 {s : State} (ok : Bool) (h : Inv s) (hc : s.cpc = .e1) : Inv (consStep s ok) := by
  obtain ⟨h1, h2, h3, h4, h5, h5b, h6, h7, h8, h9, h10, h11, h12, h13, h14, h15, h16, h18, h19, h17⟩ := h
  simp only [consStep, hc]
  all_goals (try split)
  all_goals
    inv_fields
    · simpa [finish] using h1
    · simpa [finish] using h2
    all_goals clear h2
    all_goals inv_auto

theorem inv_cons_e1w {s : State} (ok : Bool) (h : Inv s) (hc : s.cpc = .e1w) : Inv (consStep s ok) := by
  obtain ⟨h1, h2, h3, h4, h5, h5b, h6, h7, h8, h9, h10, h11, h12, h13, h14, h15, h16, h18, h19, h17⟩ := h
  simp only [consStep, hc]
  all_goals (try split)
  all_goals
    inv_fields
    · simpa [finish] using h1
    · simpa [finish] using h2
    all_goals clear h2
    all_goals inv_auto

theorem inv_cons_e2 {s : State} (ok : Bool) (h : Inv s) (hc : s.cpc = .e2) : Inv (consStep s ok) := by
  obtain ⟨h1, h2, h3, h4, h5, h5b, h6, h7, h8, h9, h10, h11, h12, h13, h14, h15, h16, h18, h19, h17⟩ := h
  simp only [consStep, hc]
  all_goals (try split)
  all_goals
    inv_fields
    · simpa [finish] using h1
    · simpa [finish] using h2
    all_goals clear h2
    all_goals inv_auto

theorem inv_cons_e3 {s : State} (ok : Bool) (h : Inv s) (hc : s.cpc = .e3) : Inv (consStep s ok) := by
  obtain ⟨h1, h2, h3, h4, h5, h5b, h6, h7, h8, h9, h10, h11, h12, h13, h14, h15, h16, h18, h19, h17⟩ := h
  simp only [consStep, hc]
  all_goals (try split)
  all_goals
    inv_fields
    · simpa [finish] using h1
    · simpa [finish] using h2
    all_goals clear h2
    all_goals inv_auto

theorem inv_cons_r5 {s : State} (ok : Bool) (h : Inv s) (hc : s.cpc = .r5) : Inv (consStep s ok) := by
  obtain ⟨h1, h2, h3, h4, h5, h5b, h6, h7, h8, h9, h10, h11, h12, h13, h14, h15, h16, h18, h19, h17⟩ := h
  simp only [consStep, hc]
  split
  next x rest hb =>
    have hx : x = s.returned.length := by
      have := h1 ▸ h2; rw [hb] at this; exact range_split this
    inv_fields
    · simp [finish, h1, hb]
    · simpa [finish] using h2
    · simp [finish]
    all_goals clear h2
    iterate 16 (simp_all [finish, CPc.waitsConn, CPc.preInput, CPc.inLoop, CPc.readsConn]; try omega)
    · simp only [finish]
      refine LogOK.snoc h17 ?_
      simp [Good, view, hc, hb, hx]
  next hb => exact absurd hb (h3 hc)

theorem inv_cons {s : State} (ok : Bool) (h : Inv s) : Inv (consStep s ok) := by
  cases hc : s.cpc
  · exact inv_cons_idle ok h hc
  · exact inv_cons_r0 ok h hc
  · exact inv_cons_r1 ok h hc
  · exact inv_cons_r1w ok h hc
  · exact inv_cons_r2 ok h hc
  · exact inv_cons_r2b ok h hc
  · exact inv_cons_r3 ok h hc
  · exact inv_cons_r3w ok h hc
  · exact inv_cons_r4 ok h hc
  · exact inv_cons_r5 ok h hc
  · exact inv_cons_e1 ok h hc
  · exact inv_cons_e1w ok h hc
  · exact inv_cons_e2 ok h hc
  · exact inv_cons_e3 ok h hc

theorem inv_prod {s : State} (h : Inv s) : Inv (prodStep s) := by
  obtain ⟨h1, h2, h3, h4, h5, h5b, h6, h7, h8, h9, h10, h11, h12, h13, h14, h15, h16, h18, h19, h17⟩ := h
  unfold prodStep
  split
  next hp =>
    inv_fields
    · simp [h1]
    · simp only [List.length_append, List.length_singleton, List.range_succ]; rw [← h2]
    all_goals clear h2
    all_goals simp_all
    all_goals omega
  next hp =>
    inv_fields
    · simpa [setInput] using h1
    · simpa [setInput] using h2
    all_goals clear h2
    all_goals simp_all [setInput]
    all_goals (cases hc : s.cpc <;> simp_all [CPc.waitsConn, CPc.preInput, CPc.inLoop, CPc.readsConn])

theorem inv_timeout {s : State} (h : Inv s) : Inv (timeoutStep s) := by
  obtain ⟨h1, h2, h3, h4, h5, h5b, h6, h7, h8, h9, h10, h11, h12, h13, h14, h15, h16, h18, h19, h17⟩ := h
  unfold timeoutStep
  split
  next hct =>
    simp only [canTimeout, Bool.and_eq_true, Bool.or_eq_true, decide_eq_true_eq, Bool.not_eq_true'] at hct
    inv_fields
    · simpa [finish] using h1
    · simpa [finish] using h2
    all_goals clear h2
    all_goals (rcases hct with ⟨⟨hpc | hpc, htm⟩, hw⟩ <;> inv_auto)
  next => exact ⟨h1, h2, h3, h4, h5, h5b, h6, h7, h8, h9, h10, h11, h12, h13, h14, h15, h16, h18, h19, h17⟩

theorem inv_start {s : State} (op : Op) (h : Inv s) : Inv (startStep s op) := by
  obtain ⟨h1, h2, h3, h4, h5, h5b, h6, h7, h8, h9, h10, h11, h12, h13, h14, h15, h16, h18, h19, h17⟩ := h
  unfold startStep
  split
  next hc =>
    cases op <;>
    · inv_fields
      · simpa using h1
      · simpa using h2
      all_goals clear h2
      all_goals inv_auto
  next => exact ⟨h1, h2, h3, h4, h5, h5b, h6, h7, h8, h9, h10, h11, h12, h13, h14, h15, h16, h18, h19, h17⟩

theorem inv_conn_idle {s : State} (k : Conn) (h : Inv s) (hk : s.kpc = .idle) : Inv (connStep s k) := by
  obtain ⟨h1, h2, h3, h4, h5, h5b, h6, h7, h8, h9, h10, h11, h12, h13, h14, h15, h16, h18, h19, h17⟩ := h
  simp only [connStep, hk]
  cases k <;> simp only []
  all_goals
    inv_fields
    · simpa [setConn] using h1
    · simpa [setConn] using h2
    all_goals clear h2
    all_goals (first | (inv_auto; done) | (cases hc : s.cpc <;> inv_auto))

theorem inv_conn_cmid {s : State} (k : Conn) (h : Inv s) (hk : s.kpc = .connectMid) : Inv (connStep s k) := by
  obtain ⟨h1, h2, h3, h4, h5, h5b, h6, h7, h8, h9, h10, h11, h12, h13, h14, h15, h16, h18, h19, h17⟩ := h
  simp only [connStep, hk]
  skip
  all_goals
    inv_fields
    · simpa [setConn] using h1
    · simpa [setConn] using h2
    all_goals clear h2
    all_goals (first | (inv_auto; done) | (cases hc : s.cpc <;> inv_auto))

theorem inv_conn_fmid {s : State} (k : Conn) (h : Inv s) (hk : s.kpc = .finalMid) : Inv (connStep s k) := by
  obtain ⟨h1, h2, h3, h4, h5, h5b, h6, h7, h8, h9, h10, h11, h12, h13, h14, h15, h16, h18, h19, h17⟩ := h
  simp only [connStep, hk]
  skip
  all_goals
    inv_fields
    · simpa [setConn] using h1
    · simpa [setConn] using h2
    all_goals clear h2
    all_goals (first | (inv_auto; done) | (cases hc : s.cpc <;> inv_auto))

theorem inv_conn {s : State} (k : Conn) (h : Inv s) : Inv (connStep s k) := by
  cases hk : s.kpc
  · exact inv_conn_idle k h hk
  · exact inv_conn_cmid k h hk
  · exact inv_conn_fmid k h hk

theorem inv_step {s : State} (c : Choice) (h : Inv s) : Inv (step s c) := by
  cases c with
  | prod => exact inv_prod h
  | cons ok => exact inv_cons ok h
  | timeout => exact inv_timeout h
  | conn k => exact inv_conn k h
  | start op => exact inv_start op h

theorem inv_run (sched : List Choice) {s : State} (h : Inv s) : Inv (run s sched) := by
  induction sched generalizing s with
  | nil => exact h
  | cons c cs ih => exact ih (inv_step c h)

theorem inv_reach (sched : List Choice) : Inv (run init sched) := inv_run sched inv_init

/-! ### steps of the consumer's environment -/

theorem run_append (s : State) (a b : List Choice) : run s (a ++ b) = run (run s a) b := by
  simp [run, List.foldl_append]

/-- a step of the environment of the consumer: producer or connection-handler thread -/
def isEnv : Choice → Bool
  | .prod | .conn _ => true
  | _ => false

theorem env_run (env : List Choice) (henv : ∀ c ∈ env, isEnv c = true) (s : State) :
    (run s env).cpc = s.cpc ∧ (run s env).log = s.log ∧ ∃ extra, (run s env).buf = s.buf ++ extra := by
  induction env generalizing s with
  | nil => exact ⟨rfl, rfl, [], by simp [run]⟩
  | cons c cs ih =>
    have hc := henv c (by simp)
    obtain ⟨h1, h2, ex, h3⟩ := ih (fun c' hc' => henv c' (by simp [hc'])) (step s c)
    have hs : (step s c).cpc = s.cpc ∧ (step s c).log = s.log ∧ ∃ e, (step s c).buf = s.buf ++ e := by
      cases c with
      | prod =>
        simp only [step, prodStep]; split
        · exact ⟨rfl, rfl, _, rfl⟩
        · exact ⟨rfl, rfl, [], by simp [setInput]⟩
      | conn k =>
        simp only [step, connStep]; split
        · cases k <;> exact ⟨rfl, rfl, [], by simp⟩
        · exact ⟨rfl, rfl, [], by simp [setConn]⟩
        · exact ⟨rfl, rfl, [], by simp [setConn]⟩
      | cons ok => simp [isEnv] at hc
      | timeout => simp [isEnv] at hc
      | start op => simp [isEnv] at hc
    obtain ⟨g1, g2, e0, g3⟩ := hs
    refine ⟨?_, ?_, e0 ++ ex, ?_⟩
    · show (run (step s c) cs).cpc = s.cpc
      rw [h1, g1]
    · show (run (step s c) cs).log = s.log
      rw [h2, g2]
    · show (run (step s c) cs).buf = s.buf ++ (e0 ++ ex)
      rw [h3, g3, List.append_assoc]

/-! ### asyncio variant: every step is a block of thread steps -/

theorem consRun_is_run (fuel : Nat) (s : State) : ∃ l, Async.consRun fuel s = run s l := by
  induction fuel generalizing s with
  | zero => exact ⟨[], rfl⟩
  | succ n ih =>
    unfold Async.consRun
    split
    · exact ⟨[], rfl⟩
    · obtain ⟨l, hl⟩ := ih (consStep s true)
      exact ⟨.cons true :: l, by rw [hl]; rfl⟩

theorem astep_is_run (s : State) (c : Choice) : ∃ l, Async.step s c = run s l := by
  cases c with
  | prod => exact ⟨[.prod, .prod], rfl⟩
  | cons ok =>
    obtain ⟨l, hl⟩ := consRun_is_run Async.fuel (consStep s ok)
    exact ⟨.cons ok :: l, by simp only [Async.step]; rw [hl]; rfl⟩
  | timeout => exact ⟨[.timeout], rfl⟩
  | conn k =>
    cases k with
    | connect => exact ⟨[.conn .connect, .conn .connect], rfl⟩
    | disconnect => exact ⟨[.conn .disconnect], rfl⟩
    | final => exact ⟨[.conn .final, .conn .final], rfl⟩
  | start op => exact ⟨[.start op], rfl⟩

theorem arun_is_run (sched : List Choice) (s : State) : ∃ l, Async.run s sched = run s l := by
  induction sched generalizing s with
  | nil => exact ⟨[], rfl⟩
  | cons c cs ih =>
    obtain ⟨l1, h1⟩ := astep_is_run s c
    obtain ⟨l2, h2⟩ := ih (Async.step s c)
    refine ⟨l1 ++ l2, ?_⟩
    rw [run_append, ← h1, ← h2]
    rfl

/-- the fuel of `Async.consRun` is never what ends a block: from ANY state the consumer reaches a
    suspension point (call over, awaiting client.emit, or parked and not notified) within it. -/
theorem consRun_stops (s : State) : Async.stop (Async.consRun Async.fuel s) = true := by
  cases hc : s.cpc <;> cases hi : s.iev <;> cases hv : s.cev <;> cases hn : s.conn <;>
    cases hw : s.woken <;> cases hb : s.buf <;>
    simp [Async.fuel, Async.consRun, Async.stop, blocked, consStep, finish, *]

theorem inv_areach (sched : List Choice) : Inv (Async.run init sched) := by
  obtain ⟨l, hl⟩ := arun_is_run sched init
  rw [hl]
  exact inv_reach l

end Sio.Simple
