/-
  K4 — acknowledgements of server-initiated events (property C06): which frames complete an ACK,
  when a callback fires, and that nothing else fires one.
-/
import Sio.Lemmas.ServerOut
namespace Sio.Server
open Sio.Rooms

/-- Frame `v` from transport `t` completes an ACK packet `(nsp, id, data)` in state `s`; `s₀` is
    the state in which `_handle_ack` then runs (a completed binary packet has left the buffer). -/
inductive CompletesAck (dec : Str → Except Err (Packet × Nat)) (s : Srv) (t : Eio) (v : J) :
    Option Str → Option Nat → Option J → Srv → Prop where
  | text {p : Packet} {n : Nat} : s.binbuf.find? (fun e => e.1 = t) = none →
      frameDecode dec v = .ok (p, n) → p.type = ACK → CompletesAck dec s t v p.nsp p.id p.data s
  | binary {t' : Eio} {part : Partial} {d : Option J} :
      s.binbuf.find? (fun e => e.1 = t) = some (t', part) → ¬ part.need ≤ part.got.length →
      part.need = (part.got ++ [v]).length → reconData part (part.got ++ [v]) = .ok d →
      part.pkt.type ≠ BINARY_EVENT →
      CompletesAck dec s t v part.pkt.nsp part.pkt.id d (dropBin s t)

theorem dispatch_ack (cfg : Cfg) (s : Srv) (t : Eio) {p : Packet} (n : Nat) (h : p.type = ACK) :
    dispatchPacket cfg s t p n = handleAck s t p.nsp p.id p.data := by
  unfold dispatchPacket
  simp [h, ACK, CONNECT, DISCONNECT, EVENT]

theorem handleFrame_text (dec : Str → Except Err (Packet × Nat)) (cfg : Cfg) {s : Srv} {t : Eio}
    {v : J} (hf : s.binbuf.find? (fun e => e.1 = t) = none) :
    handleFrame dec cfg s t v =
      match frameDecode dec v with
      | .error e => (s, [.raised e])
      | .ok (p, n) => dispatchPacket cfg s t p n := by
  unfold handleFrame frameDecode
  rw [hf]
  rfl

theorem handleFrame_last (dec : Str → Except Err (Packet × Nat)) (cfg : Cfg) {s : Srv} {t t' : Eio}
    {v : J} {part : Partial} {d : Option J}
    (hf : s.binbuf.find? (fun e => e.1 = t) = some (t', part)) (h1 : ¬ part.need ≤ part.got.length)
    (h2 : part.need = (part.got ++ [v]).length) (h3 : reconData part (part.got ++ [v]) = .ok d) :
    handleFrame dec cfg s t v =
      if part.pkt.type = BINARY_EVENT then handleEvent cfg (dropBin s t) t part.pkt.nsp part.pkt.id d
      else handleAck (dropBin s t) t part.pkt.nsp part.pkt.id d := by
  unfold handleFrame
  rw [hf]
  dsimp only
  rw [if_neg h1, if_pos h2]
  unfold reconData at h3
  cases hd : part.pkt.data with
  | none => rw [hd] at h3; cases h3; rfl
  | some j => rw [hd] at h3; dsimp only at h3 ⊢; rw [h3]; rfl

theorem handleFrame_of_completesAck {dec : Str → Except Err (Packet × Nat)} (cfg : Cfg) {s s₀ : Srv}
    {t : Eio} {v : J} {nsp : Option Str} {id : Option Nat} {data : Option J}
    (h : CompletesAck dec s t v nsp id data s₀) :
    handleFrame dec cfg s t v = handleAck s₀ t nsp id data := by
  cases h with
  | text hf hd ht => rw [handleFrame_text dec cfg hf, hd]; exact dispatch_ack cfg s t _ ht
  | binary hf h1 h2 h3 h4 => rw [handleFrame_last dec cfg hf h1 h2 h3, if_neg h4]

theorem CompletesAck.state {dec : Str → Except Err (Packet × Nat)} {s s₀ : Srv} {t : Eio} {v : J}
    {nsp : Option Str} {id : Option Nat} {data : Option J}
    (h : CompletesAck dec s t v nsp id data s₀) : s₀ = s ∨ s₀ = dropBin s t := by
  cases h with
  | text => exact Or.inl rfl
  | binary => exact Or.inr rfl

theorem CompletesAck.rooms {dec : Str → Except Err (Packet × Nat)} {s s₀ : Srv} {t : Eio} {v : J}
    {nsp : Option Str} {id : Option Nat} {data : Option J}
    (h : CompletesAck dec s t v nsp id data s₀) : s₀.rooms = s.rooms ∧ s₀.cbs = s.cbs := by
  rcases h.state with rfl | rfl <;> exact ⟨rfl, rfl⟩

/-- the callback `n` fires with `args`: frame `v` from `t` in state `s` completes an ACK for an
    id that is outstanding for the session `t` has on that namespace; the entry is popped -/
def Fires (dec : Str → Except Err (Packet × Nat)) (cfg : Cfg) (s : Srv) (t : Eio) (v : J)
    (n : Nat) (args : List J) : Prop :=
  ∃ nsp id data s₀ sid i, CompletesAck dec s t v nsp id data s₀ ∧
    sidOf s.rooms (nsp.getD ['/']) t = some sid ∧ id = some i ∧
    (sid, i, CbTok.user n) ∈ s.cbs ∧ starArgs data = .ok args ∧
    handleFrame dec cfg s t v = (popCb s₀ sid i, [.callback n args])

theorem not_cb_of_confined {t : Eio} {ok : List J → Prop} {l : List Out}
    (h : ∀ o ∈ l, o.confined t ok) (n : Nat) (args : List J) : Out.callback n args ∉ l :=
  fun hm => h _ hm

theorem fires_of_handleAck {dec : Str → Except Err (Packet × Nat)} {cfg : Cfg} {s s₀ : Srv}
    {t : Eio} {v : J} {nsp : Option Str} {id : Option Nat} {data : Option J}
    (hc : CompletesAck dec s t v nsp id data s₀) {n : Nat} {args : List J}
    (hm : Out.callback n args ∈ (handleAck s₀ t nsp id data).2) : Fires dec cfg s t v n args := by
  rcases handleAck_outs s₀ t nsp id data _ hm with ⟨e, he⟩ | ⟨sid, i, n', args', h1, h2, h3, h4, h5, h6⟩
  · cases he
  · cases h5
    rw [hc.rooms.1] at h1
    rw [hc.rooms.2] at h3
    exact ⟨nsp, id, data, s₀, sid, i, hc, h1, h2, h3, h4,
      (handleFrame_of_completesAck cfg hc).trans h6⟩

/-- a callback in the output of a frame: the frame completes a matching ACK -/
theorem fires_of_frame {dec : Str → Except Err (Packet × Nat)} {cfg : Cfg} {s : Srv} (hw : WF s)
    {t : Eio} {v : J} {n : Nat} {args : List J}
    (hm : Out.callback n args ∈ (handleFrame dec cfg s t v).2) : Fires dec cfg s t v n args := by
  have hfc := frameCase dec cfg s t v
  generalize handleFrame dec cfg s t v = r at hfc hm
  cases hfc with
  | tooMany _ _ => simp at hm
  | reconErr _ _ _ _ => simp at hm
  | binEvent _ _ _ _ _ => exact absurd hm (not_cb_of_confined (handleEvent_outs _ _ _ _ _ _) n args)
  | binAck hf h1 h2 h3 h4 => exact fires_of_handleAck (.binary hf h1 h2 h3 h4) hm
  | more _ _ _ => simp at hm
  | undecodable _ _ => simp at hm
  | packet hf hd =>
    rename_i p natt
    have hdc := dispatchCase cfg s t p natt
    generalize dispatchPacket cfg s t p natt = r at hdc hm
    cases hdc with
    | connect _ => exact absurd hm (not_cb_of_confined (handleConnect_outs _ _ _ _ _) n args)
    | disconnect _ => exact absurd hm (not_cb_of_confined (handleDisconnect_outs hw _ _ _ _) n args)
    | event _ => exact absurd hm (not_cb_of_confined (handleEvent_outs _ _ _ _ _ _) n args)
    | ack ht => exact fires_of_handleAck (.text hf hd ht) hm
    | binHeader _ => simp at hm
    | other => simp at hm

/-- an ACK whose `(sid, id)` is not outstanding does nothing -/
theorem handleAck_inert {s : Srv} {t : Eio} {nsp : Option Str} {id : Option Nat} {data : Option J}
    (h : ∀ sid i, sidOf s.rooms (nsp.getD ['/']) t = some sid → id = some i →
      ∀ tok, (sid, i, tok) ∉ s.cbs) : handleAck s t nsp id data = (s, []) := by
  unfold handleAck
  dsimp only
  split
  · rename_i sid i hs
    split
    · rfl
    · rename_i a b tok hf
      have hm := List.mem_of_find?_eq_some hf
      have hp := List.find?_some hf
      simp only [decide_eq_true_eq] at hp
      obtain ⟨rfl, rfl⟩ := hp
      exact absurd hm (h _ _ hs rfl tok)
  · rfl

/-! ### where frames are executed in a history -/

/-- frame `v` from `t` is handled in state `s₀` during the history `is` started in `s`
    (at top level, or inside the wait of a `call()`) -/
inductive FrameAt (dec : Str → Except Err (Packet × Nat)) (cfg : Cfg) :
    Srv → List Input → Srv → Eio → J → Prop where
  | here {s : Srv} {t : Eio} {v : J} {is : List Input} : FrameAt dec cfg s (.frame t v :: is) s t v
  | later {s s₀ : Srv} {i : Input} {is : List Input} {t : Eio} {v : J} :
      FrameAt dec cfg (step dec cfg s i).1 is s₀ t v → FrameAt dec cfg s (i :: is) s₀ t v
  | inCall {s s₀ : Srv} {ev : Str} {d : Data} {ns : Ns} {sid : Sid} {during is : List Input}
      {t : Eio} {v : J} : cfg.asyncHandlers = true →
      FrameAt dec cfg (callStart s ev d ns sid).1 during s₀ t v →
      FrameAt dec cfg s (.call ev d ns sid during :: is) s₀ t v

/-! ### outputs of the inputs that are not frames -/

theorem lostGo_outs {s : Srv} (h : WF s) (cfg : Cfg) (t : Eio) (reason : Str) (outs : List Out)
    (nss : List Ns) (P : Out → Prop) (hP : ∀ o, o.confined t (fun _ => True) → P o)
    (ho : ∀ o ∈ outs, P o) : ∀ o ∈ (handleLost.go cfg t reason s outs nss).2, P o := by
  induction nss generalizing s outs with
  | nil => exact ho
  | cons ns rest ih =>
    unfold handleLost.go
    apply ih (h.handleDisconnect cfg t ns reason)
    rw [all_append]
    exact ⟨ho, fun o hm => hP o ((handleDisconnect_outs h cfg t ns reason o hm).mono (fun _ _ => trivial))⟩

theorem drain_outs (cfg : Cfg) (s : Srv) (outs : List Out) (bs : List Bg) (P : Out → Prop)
    (hP : ∀ t o, o.confined t (fun _ => True) → P o) (ho : ∀ o ∈ outs, P o) :
    ∀ o ∈ (step.drain cfg s outs bs).2, P o := by
  induction bs generalizing s outs with
  | nil => exact ho
  | cons b rest ih =>
    unfold step.drain
    apply ih
    rw [all_append]
    exact ⟨ho, fun o hm => hP _ o ((runHandler_outs cfg s b o hm).mono (fun _ _ => trivial))⟩

theorem emitFold_outs (ns : Ns) (payload : List J) (tok : CbTok) (s : Srv) (o : List Out)
    (rs : List (Sid × Eio)) (P : Out → Prop) (hP : ∀ t p, P (.send t p)) (ho : ∀ x ∈ o, P x) :
    ∀ x ∈ (rs.foldl (emitOne ns payload tok) (s, o)).2, P x := by
  induction rs generalizing s o with
  | nil => exact ho
  | cons r rs ih =>
    simp only [List.foldl_cons]
    apply ih
    rw [all_append]
    refine ⟨ho, fun x hx => ?_⟩
    obtain ⟨t', _, _, rfl⟩ := mem_sendTo hx
    exact hP _ _

theorem emit_outs (s : Srv) (ev : Str) (d : Data) (ns : Ns) (to : Target) (skip : List Sid)
    (cb : Option CbTok) (P : Out → Prop) (hP : ∀ t p, P (.send t p)) :
    ∀ x ∈ (emit s ev d ns to skip cb).2, P x := by
  cases cb with
  | none =>
    unfold emit
    split
    · simp
    · dsimp only
      intro x hx
      simp only [List.mem_flatMap] at hx
      obtain ⟨r, _, hx⟩ := hx
      obtain ⟨t', _, _, rfl⟩ := mem_sendTo hx
      exact hP _ _
  | some tok =>
    rw [emit_cb_eq]
    split
    · simp
    · exact emitFold_outs ns _ tok s [] _ P hP (by simp)

theorem emitFold_callDone (ns : Ns) (payload : List J) (tok : CbTok) (s : Srv) (o : List Out)
    (rs : List (Sid × Eio)) :
    (rs.foldl (emitOne ns payload tok) (s, o)).1.callDone = s.callDone := by
  induction rs generalizing s o with
  | nil => rfl
  | cons r rs ih => simp only [List.foldl_cons]; rw [ih]; rfl

theorem emit_callDone (s : Srv) (ev : Str) (d : Data) (ns : Ns) (to : Target) (skip : List Sid)
    (cb : Option CbTok) : (emit s ev d ns to skip cb).1.callDone = s.callDone := by
  cases cb with
  | none => rw [emit_nocb_state]
  | some tok =>
    rw [emit_cb_eq]
    split
    · rfl
    · exact emitFold_callDone ..

theorem callStart_callDone (s : Srv) (ev : Str) (d : Data) (ns : Ns) (sid : Sid) :
    (callStart s ev d ns sid).1.callDone = s.callDone := by
  unfold callStart; rw [emit_callDone]

theorem handleConnect_callDone (cfg : Cfg) (s : Srv) (t : Eio) (nsp : Option Str) (data : Option J) :
    (handleConnect cfg s t nsp data).1.callDone = s.callDone := by
  rcases handleConnect_state cfg s t nsp data with h1 | ⟨rooms', k, _, _, h1 | ⟨p, _, h1⟩⟩ <;>
    rw [h1] <;> rfl

theorem handleDisconnect_callDone (cfg : Cfg) (s : Srv) (t : Eio) (ns : Ns) (reason : Str) :
    (handleDisconnect cfg s t ns reason).1.callDone = s.callDone := by
  rcases handleDisconnect_state cfg s t ns reason with ⟨h1, _⟩ | ⟨sid, k, _, _, h1⟩ <;>
    rw [h1] <;> rfl

/-- a `call()` result is delivered by a frame only when the frame completes an ACK that matches
    an outstanding internal callback of the session the transport has on that namespace -/
def Delivers (dec : Str → Except Err (Packet × Nat)) (cfg : Cfg) (s : Srv) (t : Eio) (v : J)
    (n : Nat) (args : List J) : Prop :=
  ∃ nsp id data s₀ sid i, CompletesAck dec s t v nsp id data s₀ ∧
    sidOf s.rooms (nsp.getD ['/']) t = some sid ∧ id = some i ∧
    (sid, i, CbTok.call n) ∈ s.cbs ∧ starArgs data = .ok args ∧
    (handleFrame dec cfg s t v).1.callDone = s.callDone ++ [(n, args)]

theorem delivers_of_handleAck {dec : Str → Except Err (Packet × Nat)} {cfg : Cfg} {s s₀ : Srv}
    {t : Eio} {v : J} {nsp : Option Str} {id : Option Nat} {data : Option J}
    (hc : CompletesAck dec s t v nsp id data s₀) :
    (handleAck s₀ t nsp id data).1.callDone = s.callDone ∨
      ∃ n args, Delivers dec cfg s t v n args := by
  have h0 : s₀.callDone = s.callDone := by rcases hc.state with rfl | rfl <;> rfl
  rcases handleAck_state s₀ t nsp id data with h1 | ⟨sid, i, tok, hs, hi, hm, h1 | ⟨n, args, rfl, ha, h1⟩⟩
  · left; rw [h1, h0]
  · left; rw [h1]; exact h0
  · right
    rw [hc.rooms.1] at hs
    rw [hc.rooms.2] at hm
    refine ⟨n, args, nsp, id, data, s₀, sid, i, hc, hs, hi, hm, ha, ?_⟩
    rw [handleFrame_of_completesAck cfg hc, h1, ← h0]

theorem callDone_of_frame {dec : Str → Except Err (Packet × Nat)} {cfg : Cfg} {s : Srv}
    (t : Eio) (v : J) :
    (handleFrame dec cfg s t v).1.callDone = s.callDone ∨
      ∃ n args, Delivers dec cfg s t v n args := by
  have hfc := frameCase dec cfg s t v
  have key : ∀ r, FrameCase dec cfg s t v r → r = handleFrame dec cfg s t v →
      r.1.callDone = s.callDone ∨ ∃ n args, Delivers dec cfg s t v n args := by
    intro r hfc hr
    cases hfc with
    | tooMany _ _ => exact Or.inl rfl
    | reconErr _ _ _ _ => exact Or.inl rfl
    | binEvent _ _ _ _ _ => exact Or.inl (core_fields (handleEvent_core ..)).callDone
    | binAck hf h1 h2 h3 h4 => exact delivers_of_handleAck (.binary hf h1 h2 h3 h4)
    | more _ _ _ => exact Or.inl rfl
    | undecodable _ _ => exact Or.inl rfl
    | packet hf hd =>
      rename_i p natt
      have hdc := dispatchCase cfg s t p natt
      generalize dispatchPacket cfg s t p natt = r' at hdc hr
      cases hdc with
      | connect _ => exact Or.inl (handleConnect_callDone ..)
      | disconnect _ => exact Or.inl (handleDisconnect_callDone ..)
      | event _ => exact Or.inl (core_fields (handleEvent_core ..)).callDone
      | ack ht => exact delivers_of_handleAck (.text hf hd ht)
      | binHeader _ => exact Or.inl rfl
      | other => exact Or.inl rfl
  exact key _ hfc rfl

/-! ### every callback in any history comes from a frame that completes a matching ACK -/

theorem FrameAt.of_single {dec : Str → Except Err (Packet × Nat)} {cfg : Cfg} {s s₀ : Srv}
    {i : Input} {t : Eio} {v : J} (h : FrameAt dec cfg s [i] s₀ t v) (is : List Input) :
    FrameAt dec cfg s (i :: is) s₀ t v := by
  cases h with
  | here => exact .here
  | later h' => cases h'
  | inCall ha h' => exact .inCall ha h'

def Out.isCb : Out → Prop
  | .callback _ _ => True
  | _ => False

theorem not_isCb_of_confined {t : Eio} {ok : List J → Prop} {o : Out} (h : o.confined t ok) :
    ¬ o.isCb := by
  cases o <;> simp_all [Out.confined, Out.isCb]

/-- inputs other than frames and `call()` never fire a callback -/
theorem no_cb_other {dec : Str → Except Err (Packet × Nat)} {cfg : Cfg} {s : Srv} (hw : WF s)
    {i : Input} (h1 : ∀ ev d ns sid during, i ≠ .call ev d ns sid during)
    (h2 : ∀ t v, i ≠ .frame t v) : ∀ o ∈ (step dec cfg s i).2, ¬ o.isCb := by
  cases i with
  | eioConnect t => rw [step]; simp
  | frame t v => exact absurd rfl (h2 t v)
  | eioLost t r =>
    rw [step, handleLost_eq]
    split
    · simp
    · exact lostGo_outs hw cfg t r [] _ _ (fun o ho => not_isCb_of_confined ho) (by simp)
  | emit ev d ns to skip cb =>
    rw [step]; exact emit_outs _ _ _ _ _ _ _ (fun o => ¬ o.isCb) (fun _ _ h => h)
  | call ev d ns sid during => exact absurd rfl (h1 ev d ns sid during)
  | apiDisconnect sid ns =>
    rw [step]; unfold apiDisconnect
    split
    · simp
    · rename_i hc
      obtain ⟨t, ht⟩ := isConnected_eioOf (by simpa using hc)
      exact fun o ho => not_isCb_of_confined (endSession_outs cfg s sid ns _ true ht o ho)
  | enterRoom sid ns room => rw [step]; split <;> simp [Out.isCb]
  | leaveRoom sid ns room => rw [step]; simp
  | closeRoom ns room => rw [step]; simp
  | rooms sid ns => rw [step]; simp [Out.isCb]
  | getSession sid ns => rw [step]; split <;> (try split) <;> simp [Out.isCb]
  | saveSession sid ns v => rw [step]; split <;> simp [Out.isCb]
  | sessionBlock sid ns k v => rw [step]; split <;> simp [Out.isCb]
  | settle =>
    rw [step]
    exact drain_outs cfg _ [] _ _ (fun _ o ho => not_isCb_of_confined ho) (by simp)

theorem callback_source (dec : Str → Except Err (Packet × Nat)) (cfg : Cfg) :
    (∀ (s : Srv) (i : Input), WF s → ∀ n args, Out.callback n args ∈ (step dec cfg s i).2 →
      ∃ s₀ t v, FrameAt dec cfg s [i] s₀ t v ∧ WF s₀ ∧ Fires dec cfg s₀ t v n args) ∧
    (∀ (s : Srv) (is : List Input), WF s → ∀ n args, Out.callback n args ∈ (run dec cfg s is).2 →
      ∃ s₀ t v, FrameAt dec cfg s is s₀ t v ∧ WF s₀ ∧ Fires dec cfg s₀ t v n args) := by
  apply step_run_induct dec cfg
    (P := fun s i => WF s → ∀ n args, Out.callback n args ∈ (step dec cfg s i).2 →
      ∃ s₀ t v, FrameAt dec cfg s [i] s₀ t v ∧ WF s₀ ∧ Fires dec cfg s₀ t v n args)
    (Q := fun s is => WF s → ∀ n args, Out.callback n args ∈ (run dec cfg s is).2 →
      ∃ s₀ t v, FrameAt dec cfg s is s₀ t v ∧ WF s₀ ∧ Fires dec cfg s₀ t v n args)
  · intro s i hi hw n args hm
    by_cases hf : ∃ t v, i = .frame t v
    · obtain ⟨t, v, rfl⟩ := hf
      rw [step] at hm
      exact ⟨s, t, v, .here, hw, fires_of_frame hw hm⟩
    · exact absurd trivial (no_cb_other hw hi (fun t v h => hf ⟨t, v, h⟩) _ hm)
  · intro s ev d ns sid during ih hw n args hm
    rw [step_call] at hm
    split at hm
    · simp at hm
    · rename_i hc
      have ha : cfg.asyncHandlers = true := by simpa using hc
      simp only [List.mem_append, List.mem_singleton] at hm
      rcases hm with (hm | hm) | hm
      · exact absurd trivial (emit_outs _ _ _ _ _ _ _ (fun o => ¬ o.isCb) (fun _ _ h => h) _ hm)
      · obtain ⟨s₀, t, v, h1, h2, h3⟩ := ih ha (hw.callStart ev d ns sid) n args hm
        exact ⟨s₀, t, v, .inCall ha h1, h2, h3⟩
      · unfold callOutcome at hm; split at hm <;> cases hm
  · intro s hw n args hm; rw [run_nil] at hm; cases hm
  · intro s i is h1 h2 hw n args hm
    rw [run_cons] at hm
    simp only [List.mem_append] at hm
    rcases hm with hm | hm
    · obtain ⟨s₀, t, v, a, b, c⟩ := h1 hw n args hm
      exact ⟨s₀, t, v, a.of_single is, b, c⟩
    · obtain ⟨s₀, t, v, a, b, c⟩ := h2 (hw.step dec cfg i) n args hm
      exact ⟨s₀, t, v, .later a, b, c⟩

end Sio.Server
