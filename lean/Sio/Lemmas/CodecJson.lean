/-
  C01 — facts about the concrete Lean JSON printer `J.dumps`.
-/
import Sio.Lemmas.CodecDefs
namespace Sio

/-- A JSON text that is not a number starts with one of `n t f " < [ {`, none of which can be
    mistaken for a header field. -/
theorem dumps_startOK (j : J) (h : TopOK j = true) : StartOK (J.dumps j) = true := by
  cases j with
  | null => rfl
  | bool b => cases b <;> rfl
  | int i => cases h
  | flt l => cases h
  | str s => rfl
  | bin b => rfl
  | arr xs => rfl
  | obj kvs => rfl

end Sio
