/-
  C01 — the specification codec (Sio/Model/CodecSpec.lean) against the model of the implementation.
-/
import Sio.Model.CodecSpec
import Sio.Lemmas.CodecPacket
namespace Sio

/-! ### numbers -/

theorem spec_digitChar (d : Nat) (h : d < 10) : Spec.digitChar d = Nat.digitChar d := by
  revert d; decide

theorem spec_dec_eq (n : Nat) : Spec.dec n = natStr n := by
  induction n using Nat.strongRecOn with
  | _ n ih =>
    rw [Spec.dec, natStr, Nat.toDigits_eq_if (by decide)]
    split
    · rw [spec_digitChar n ‹_›]
    · rw [ih (n / 10) (by omega), spec_digitChar _ (Nat.mod_lt n (by decide))]; rfl

theorem spec_isDigit (c : Char) : Spec.isDigit c = c.isDigit := by
  simp [Spec.isDigit, Char.isDigit, Char.le_def, UInt32.le_iff_toNat_le]

/-! ### binary payloads -/

mutual
  theorem spec_blobs (j : J) : Spec.blobs j = binLeaves j := by
    cases j with
    | arr xs => simp [Spec.blobs, binLeaves, spec_blobsL xs]
    | obj kvs => simp [Spec.blobs, binLeaves, spec_blobsO kvs]
    | bin b => simp [Spec.blobs, binLeaves]
    | null => simp [Spec.blobs, binLeaves]
    | bool b => simp [Spec.blobs, binLeaves]
    | int i => simp [Spec.blobs, binLeaves]
    | flt l => simp [Spec.blobs, binLeaves]
    | str s => simp [Spec.blobs, binLeaves]
  theorem spec_blobsL (xs : List J) : Spec.blobsL xs = binLeavesL xs := by
    cases xs with
    | nil => simp [Spec.blobsL, binLeavesL]
    | cons x xs => simp [Spec.blobsL, binLeavesL, spec_blobs x, spec_blobsL xs]
  theorem spec_blobsO (kvs : List (Str × J)) : Spec.blobsO kvs = binLeavesO kvs := by
    match kvs with
    | [] => simp [Spec.blobsO, binLeavesO]
    | (k, x) :: xs => simp [Spec.blobsO, binLeavesO, spec_blobs x, spec_blobsO xs]
end

theorem spec_ph (k : Nat) : Spec.ph k = placeholder k := rfl

mutual
  theorem spec_strip (j : J) (acc : List Bytes) : Spec.strip acc.length j = (decon j acc).1 := by
    cases j with
    | arr xs => simp [Spec.strip, decon, spec_stripL xs acc]
    | obj kvs => simp [Spec.strip, decon, spec_stripO kvs acc]
    | bin b => simp [Spec.strip, decon, spec_ph]
    | null => simp [Spec.strip, decon]
    | bool b => simp [Spec.strip, decon]
    | int i => simp [Spec.strip, decon]
    | flt l => simp [Spec.strip, decon]
    | str s => simp [Spec.strip, decon]
  theorem spec_stripL (xs : List J) (acc : List Bytes) :
      Spec.stripL acc.length xs = (deconL xs acc).1 := by
    cases xs with
    | nil => simp [Spec.stripL, deconL]
    | cons x xs =>
      have := spec_stripL xs (decon x acc).2
      simp only [decon_snd, List.length_append] at this
      simp [Spec.stripL, deconL, spec_strip x acc, spec_blobs, this, decon_snd]
  theorem spec_stripO (kvs : List (Str × J)) (acc : List Bytes) :
      Spec.stripO acc.length kvs = (deconO kvs acc).1 := by
    match kvs with
    | [] => simp [Spec.stripO, deconO]
    | (k, x) :: xs =>
      have := spec_stripO xs (decon x acc).2
      simp only [decon_snd, List.length_append] at this
      simp [Spec.stripO, deconO, spec_strip x acc, spec_blobs, this, decon_snd]
end

theorem spec_isBinaryType (t : Nat) : Spec.isBinaryType t = isBinType t := by
  rw [Bool.eq_iff_iff]
  simp only [Spec.isBinaryType, isBinType, Bool.or_eq_true, decide_eq_true_eq, beq_iff_eq]
  rfl

/-! ### `encode` writes exactly the frame the specification prescribes -/

theorem encode_is_spec_lem (dumps : J → Str) (p : Packet) :
    encode dumps p = ((Spec.frame dumps p).1,
      if isBinType p.type then some (Spec.frame dumps p).2 else none) := by
  obtain ⟨t, nsp, id, data⟩ := p
  cases nsp <;> cases id <;> cases hb : isBinType t with
  | false =>
    rw [encode_plain (by simpa using hb)]
    simp only [Spec.frame, spec_isBinaryType, hb, spec_dec_eq, encodeHdr, nspPart, idPart]
    cases data <;> simp
  | true =>
    cases data with
    | none =>
      rw [encode_bin_none (by simpa using hb) rfl]
      simp only [Spec.frame, spec_isBinaryType, hb, spec_dec_eq, encodeHdr, nspPart, idPart]
      simp
    | some j =>
      rw [encode_bin_some (by simpa using hb) rfl]
      have hs : Spec.strip 0 j = (decon j []).1 := spec_strip j []
      simp only [Spec.frame, spec_isBinaryType, hb, spec_dec_eq, encodeHdr, nspPart, idPart,
        spec_blobs, Option.map_some, hs]
      simp

/-! ### the grammar-directed parser on the image of `encodeHdr` -/

theorem spec_digits_run (ds rest : Str) (hds : ∀ c ∈ ds, c.isDigit = true)
    (hrest : rest = [] ∨ ∃ c r, rest = c :: r ∧ c.isDigit = false) (acc : Nat) :
    Spec.digits acc (ds ++ rest) = (Nat.ofDigitChars 10 ds acc, rest) := by
  induction ds generalizing acc with
  | nil =>
    rcases hrest with rfl | ⟨c, r, rfl, hc⟩
    · simp [Spec.digits]
    · simp [Spec.digits, spec_isDigit, hc]
  | cons d ds ih =>
    have hd := hds d (by simp)
    simp only [List.cons_append, Spec.digits, spec_isDigit, hd, if_true, Nat.ofDigitChars_cons]
    rw [ih (fun c hc => hds c (by simp [hc])), Nat.mul_comm]; rfl

theorem spec_number_natStr (n : Nat) (rest : Str)
    (hrest : rest = [] ∨ ∃ c r, rest = c :: r ∧ c.isDigit = false) :
    Spec.number (natStr n ++ rest) = some (n, rest) := by
  obtain ⟨d, ds, hd, hdd⟩ := natStr_cons n
  have hds : ∀ c ∈ ds, c.isDigit = true := fun c hc => natStr_isDigit (by rw [hd]; simp [hc])
  have hv : Nat.ofDigitChars 10 ds (Spec.digitVal d) = n := by
    have := Nat.ofDigitChars_ten_toDigits (n := n)
    rw [show Nat.toDigits 10 n = d :: ds from hd, Nat.ofDigitChars_cons] at this
    simpa [Spec.digitVal] using this
  rw [hd]
  simp only [List.cons_append, Spec.number, spec_isDigit, hdd, if_true]
  rw [spec_digits_run ds rest hds hrest, hv]

theorem spec_number_none_nil : Spec.number [] = none := rfl

theorem spec_number_none {c : Char} {r : Str} (hc : c.isDigit = false) :
    Spec.number (c :: r) = none := by
  simp [Spec.number, spec_isDigit, hc]

theorem spec_ptype {t : Nat} (ht : t ≤ 6) (r : Str) : Spec.ptype (natStr t ++ r) = some (t, r) := by
  have h10 : t < 10 := by omega
  have hv : Spec.digitVal (Nat.digitChar t) = t := Nat.toNat_digitChar_sub_48_of_lt_ten h10
  have hd : (Nat.digitChar t).isDigit = true := by rw [Nat.isDigit_digitChar]; simpa using h10
  rw [natStr_of_lt_ten h10]
  simp [Spec.ptype, spec_isDigit, hd, hv, ht]

theorem spec_attachments (n : Nat) (r : Str) :
    Spec.attachments (natStr n ++ '-' :: r) = some (n, r) := by
  simp only [Spec.attachments]
  rw [spec_number_natStr n ('-' :: r) (Or.inr ⟨'-', r, rfl, by decide⟩)]
  simp [Spec.lit]

theorem spec_nsChars (tl r : Str) (h : ',' ∉ tl) : Spec.nsChars (tl ++ ',' :: r) = (tl, ',' :: r) := by
  induction tl with
  | nil => simp [Spec.nsChars]
  | cons c tl ih =>
    have hc : c ≠ ',' := fun e => h (by simp [e])
    simp [Spec.nsChars, hc, ih (fun hm => h (by simp [hm]))]

theorem spec_nspace (tl r : Str) (h : ',' ∉ ('/' :: tl)) :
    Spec.nspace (('/' :: tl) ++ ',' :: r) = some (('/' :: tl).takeWhile (· != '?'), r) := by
  have h' : ',' ∉ tl := fun hm => h (by simp [hm])
  simp only [List.cons_append, Spec.nspace, spec_nsChars tl r h']
  simp [Spec.lit]

theorem spec_nspace_nil : Spec.nspace [] = none := rfl

theorem spec_nspace_none {c : Char} {r : Str} (hc : c ≠ '/') : Spec.nspace (c :: r) = none := by
  unfold Spec.nspace
  split
  · rename_i h; injection h with h1 _; exact absurd h1 hc
  · rfl

/-- what the specification parser needs of the text after the header: it is empty or starts
    with neither a digit nor `/` (in particular: any `StartOK` text) -/
def SpecBodyOK : Str → Bool
  | [] => true
  | c :: _ => !c.isDigit && c != '/'

theorem specBodyOK_of_startOK {s : Str} (h : StartOK s = true) : SpecBodyOK s = true := by
  cases s with
  | nil => rfl
  | cons c r =>
    simp only [StartOK, Bool.and_eq_true] at h
    simp [SpecBodyOK, h.1.1.2, h.2]

theorem specBodyOK_cons {c : Char} {r : Str} (h : SpecBodyOK (c :: r) = true) :
    c.isDigit = false ∧ c ≠ '/' := by
  simpa [SpecBodyOK] using h

/-- the last production (`[ payload ]`) of `Spec.parse` -/
def specTail (loads : Str → Except Err J) (t : Nat) (ns : Option Str) (id : Option Nat) (n : Nat)
    (body : Str) : Except Err (Packet × Nat) :=
  match body with
  | [] => .ok (⟨t, ns, id, none⟩, n)
  | _ => match loads body with
    | .ok j => .ok (⟨t, ns, id, some j⟩, n)
    | .error e => .error e

theorem spec_parse_hdr (loads : Str → Except Err J) {t : Nat} {nsp : Option Str}
    {id natt : Option Nat} {body : Str} (hwf : WFHdr t nsp id natt = true)
    (hatt : natt.isSome = isBinType t) (hb : SpecBodyOK body = true) :
    Spec.parse loads (encodeHdr t nsp id natt ++ body) =
      specTail loads t (normNs nsp) id (natt.getD 0) body := by
  have hwf' := hwf
  simp only [WFHdr, Bool.and_eq_true, decide_eq_true_eq] at hwf'
  obtain ⟨⟨⟨ht, hns⟩, _⟩, _⟩ := hwf'
  have hbody : body = [] ∨ ∃ c r, body = c :: r ∧ c.isDigit = false := by
    cases body with
    | nil => left; rfl
    | cons c r => right; exact ⟨c, r, rfl, (specBodyOK_cons hb).1⟩
  -- attachments
  have h1 : (if Spec.isBinaryType t then Spec.attachments (attPart natt ++ (nspPart nsp ++ (idPart id ++ body)))
        else some (0, attPart natt ++ (nspPart nsp ++ (idPart id ++ body))))
      = some (natt.getD 0, nspPart nsp ++ (idPart id ++ body)) := by
    rw [spec_isBinaryType, ← hatt]
    cases natt with
    | none => rfl
    | some n =>
      simp only [attPart, List.append_assoc, List.singleton_append, Option.isSome_some, if_true,
        Option.getD_some]
      exact spec_attachments n _
  -- namespace
  have h2 : Spec.opt Spec.nspace (nspPart nsp ++ (idPart id ++ body)) = (normNs nsp, idPart id ++ body) := by
    rcases nspPart_cases hns with ⟨hd, hn, hnorm⟩ | ⟨tl, _, hn, hc, hnorm⟩
    · rw [hn, hnorm, List.nil_append]
      have : Spec.nspace (idPart id ++ body) = none := by
        cases id with
        | some i =>
          obtain ⟨d, ds, hd', hdd⟩ := natStr_cons i
          simp only [idPart, hd', List.cons_append]
          exact spec_nspace_none (isDigit_ne hdd (by decide))
        | none =>
          simp only [idPart, List.nil_append]
          cases body with
          | nil => rfl
          | cons c r => exact spec_nspace_none (specBodyOK_cons hb).2
      simp [Spec.opt, this]
    · rw [hn, hnorm, List.append_assoc, List.singleton_append]
      have e := spec_nspace tl (idPart id ++ body) hc
      simp only [List.cons_append] at e
      simp [Spec.opt, e]
  -- id
  have h3 : Spec.opt Spec.number (idPart id ++ body) = (id, body) := by
    cases id with
    | some i => simp [Spec.opt, idPart, spec_number_natStr i body hbody]
    | none =>
      simp only [idPart, List.nil_append]
      rcases hbody with rfl | ⟨c, r, rfl, hc⟩
      · rfl
      · simp [Spec.opt, spec_number_none hc]
  rw [encodeHdr_eq]
  simp only [Spec.parse, spec_ptype ht, h1, h2, h3]
  cases body <;> rfl

/-! ### the specification parser accepts what `encode` writes -/

theorem spec_frame_fst (dumps : J → Str) (p : Packet) :
    (Spec.frame dumps p).1 = (encode dumps p).1 := by
  rw [encode_is_spec_lem]

theorem spec_frame_snd (dumps : J → Str) (p : Packet) :
    (Spec.frame dumps p).2 = (encode dumps p).2.getD [] := by
  rw [encode_is_spec_lem]
  cases hb : isBinType p.type with
  | true => simp
  | false =>
    have : Spec.isBinaryType p.type = false := by rw [spec_isBinaryType, hb]
    simp [Spec.frame, this]

theorem spec_accepts_lem {dumps : J → Str} {loads : Str → Except Err J} {p : Packet}
    (hrt : ∀ j, p.wire.data = some j → loads (dumps j) = .ok j)
    (hstart : ∀ j, p.wire.data = some j → StartOK (dumps j) = true)
    (hwf : WFCore p = true) :
    Spec.parse loads (Spec.frame dumps p).1 = .ok (p.wire, (Spec.frame dumps p).2.length) := by
  rw [spec_frame_fst, spec_frame_snd]
  obtain ⟨hh, _, _, hlen⟩ := wf_unpack hwf
  have tail_json : ∀ (j : J) (n : Nat), p.wire.data = some j →
      specTail loads p.type (normNs p.nsp) p.id n (dumps j)
        = .ok (⟨p.type, normNs p.nsp, p.id, some j⟩, n) := by
    intro j n h1
    have hs := hstart j h1
    cases hd : dumps j with
    | nil => rw [hd] at hs; cases hs
    | cons c r => simp only [specTail]; rw [← hd, hrt j h1]
  cases hb : isBinType p.type with
  | false =>
    have hwd := wire_data_plain (p := p) (by simpa using hb)
    rw [encode_plain (by simpa using hb)]
    cases hd : p.data with
    | none =>
      have : p.wire = ⟨p.type, normNs p.nsp, p.id, none⟩ := by
        simp [Packet.wire, Packet.norm, hb, hd]
      rw [this]
      exact spec_parse_hdr loads hh (by simp [hb]) rfl
    | some j =>
      have : p.wire = ⟨p.type, normNs p.nsp, p.id, some j⟩ := by
        simp [Packet.wire, Packet.norm, hb, hd]
      rw [hd] at hwd
      rw [spec_parse_hdr loads hh (by simp [hb]) (specBodyOK_of_startOK (hstart j hwd)), this]
      exact tail_json j 0 hwd
  | true =>
    have hwd := wire_data_bin (p := p) (by simpa using hb)
    cases hd : p.data with
    | none =>
      rw [encode_bin_none (by simpa using hb) hd]
      have : p.wire = ⟨p.type, normNs p.nsp, p.id, none⟩ := by
        simp [Packet.wire, Packet.norm, hb, hd]
      rw [this]
      exact spec_parse_hdr loads (wfHdr_natt hh (by decide)) (by simp [hb]) rfl
    | some j =>
      rw [encode_bin_some (by simpa using hb) hd]
      rw [hd] at hlen hwd
      simp only [optAll, decide_eq_true_eq] at hlen
      have : p.wire = ⟨p.type, normNs p.nsp, p.id, some (decon j []).1⟩ := by
        simp [Packet.wire, Packet.norm, hb, hd]
      simp only [Option.map_some] at hwd
      rw [spec_parse_hdr loads (wfHdr_natt hh hlen) (by simp [hb])
        (specBodyOK_of_startOK (hstart _ hwd)), this]
      exact tail_json _ _ hwd

/-! ### putting the binary frames back, by the specification -/

theorem spec_isPh (kvs : List (Str × J)) : Spec.isPh kvs = asPlaceholder kvs := rfl

mutual
  theorem spec_fill_gen (j : J) (acc rest : List Bytes) (h : NoReservedKey j = true) :
      Spec.fill (acc ++ binLeaves j ++ rest) (decon j acc).1 = some j := by
    cases j with
    | bin b =>
      simp only [decon, placeholder, Spec.fill, spec_isPh, binLeaves]
      rw [asPlaceholder_placeholder]; simp
    | arr xs =>
      simp only [NoReservedKey] at h
      have := spec_fillL_gen xs acc rest h
      simp only [List.append_assoc] at this
      simp [decon, Spec.fill, binLeaves, this]
    | obj kvs =>
      simp only [NoReservedKey] at h
      have h2 := lookup_deconO_none reservedKey kvs acc (lookup_reserved_none kvs h)
      have := spec_fillO_gen kvs acc rest h
      simp only [List.append_assoc] at this
      simp [decon, Spec.fill, binLeaves, spec_isPh, asPlaceholder_none_of_lookup _ h2, this]
    | null => simp [decon, Spec.fill]
    | bool b => simp [decon, Spec.fill]
    | int i => simp [decon, Spec.fill]
    | flt l => simp [decon, Spec.fill]
    | str s => simp [decon, Spec.fill]
  theorem spec_fillL_gen (xs : List J) (acc rest : List Bytes) (h : NoReservedKeyL xs = true) :
      Spec.fillL (acc ++ binLeavesL xs ++ rest) (deconL xs acc).1 = some xs := by
    cases xs with
    | nil => simp [deconL, Spec.fillL]
    | cons x xs =>
      simp only [NoReservedKeyL, Bool.and_eq_true] at h
      have hx := spec_fill_gen x acc (binLeavesL xs ++ rest) h.1
      have hxs := spec_fillL_gen xs (decon x acc).2 rest h.2
      simp only [decon_snd, List.append_assoc] at hx hxs
      simp only [deconL, Spec.fillL, binLeavesL, decon_snd, List.append_assoc, hx, hxs]
  theorem spec_fillO_gen (kvs : List (Str × J)) (acc rest : List Bytes)
      (h : NoReservedKeyO kvs = true) :
      Spec.fillO (acc ++ binLeavesO kvs ++ rest) (deconO kvs acc).1 = some kvs := by
    match kvs with
    | [] => simp [deconO, Spec.fillO]
    | (k, x) :: xs =>
      simp only [NoReservedKeyO, Bool.and_eq_true] at h
      have hx := spec_fill_gen x acc (binLeavesO xs ++ rest) h.1.2
      have hxs := spec_fillO_gen xs (decon x acc).2 rest h.2
      simp only [decon_snd, List.append_assoc] at hx hxs
      simp only [deconO, Spec.fillO, binLeavesO, decon_snd, List.append_assoc, hx, hxs]
end

theorem spec_fill_strip (j : J) (h : NoReservedKey j = true) :
    Spec.fill (Spec.blobs j) (Spec.strip 0 j) = some j := by
  have := spec_fill_gen j [] [] h
  rw [spec_blobs, show Spec.strip 0 j = (decon j []).1 from spec_strip j []]
  simpa using this

end Sio
