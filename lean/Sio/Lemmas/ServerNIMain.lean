/-
  K4 — noninterference (property C12), part 3: the interleaving theorem.
-/
import Sio.Lemmas.ServerNILoc
namespace Sio.Server
open Sio.Rooms

/-- what the inputs that are not the hostile transport's produce, in order, along a history -/
def othersOuts (dec : Str → Except Err (Packet × Nat)) (cfg : Cfg) (t : Eio) :
    Srv → List Input → List Out
  | _, [] => []
  | s, i :: is =>
    (if ofT t i then [] else (step dec cfg s i).2) ++ othersOuts dec cfg t (step dec cfg s i).1 is

/-- what the hostile transport's own inputs produce -/
def hostileOuts (dec : Str → Except Err (Packet × Nat)) (cfg : Cfg) (t : Eio) :
    Srv → List Input → List Out
  | _, [] => []
  | s, i :: is =>
    (if ofT t i then (step dec cfg s i).2 else []) ++ hostileOuts dec cfg t (step dec cfg s i).1 is

/-- The reference semantics: a run in which, before each input, the id generator skips the given
    number of session ids (`generate_id()` only promises not to repeat an id, DESIGN §4; in the
    model ids are `sidName 0, 1, 2, …`, so "another sequence of fresh ids" is "some are skipped"). -/
def runSkip (dec : Str → Except Err (Packet × Nat)) (cfg : Cfg) :
    Srv → List (Nat × Input) → Srv × List Out
  | s, [] => (s, [])
  | s, (d, i) :: is =>
    ((runSkip dec cfg (step dec cfg (bump d s) i).1 is).1,
      (step dec cfg (bump d s) i).2 ++ (runSkip dec cfg (step dec cfg (bump d s) i).1 is).2)

theorem runSkip_zero (dec : Str → Except Err (Packet × Nat)) (cfg : Cfg) (s : Srv) (is : List Input) :
    runSkip dec cfg s (is.map (fun i => (0, i))) = run dec cfg s is := by
  induction is generalizing s with
  | nil => rw [run_nil]; rfl
  | cons i is ih => rw [List.map_cons, runSkip, run_cons, ih]; rfl

theorem ofT_ofOther {t : Eio} {i : Input} (h : ofOther t i = true) : ofT t i = false := by
  cases i <;> simp_all [ofT, ofOther]

theorem WF.runSkip {s : Srv} (h : WF s) (dec : Str → Except Err (Packet × Nat)) (cfg : Cfg)
    (is : List (Nat × Input)) : WF (runSkip dec cfg s is).1 := by
  induction is generalizing s with
  | nil => exact h
  | cons x is ih => obtain ⟨d, i⟩ := x; rw [Server.runSkip]; exact ih ((h.bump d).step dec cfg i)

/-- the simulation: the mixed run from `s₁` against the hostile-free run from `s₂` -/
theorem ni_sim {dec : Str → Except Err (Packet × Nat)} {cfg : Cfg} (hst : cfg.script.Stable)
    (t : Eio) (mix : List Input) (hmix : ∀ i ∈ mix, ofT t i = true ∨ ofOther t i = true) :
    ∀ (s₁ s₂ : Srv), WF s₁ → WF s₂ → (∃ d, strip t s₁ = strip t (bump d s₂)) →
      ∃ skips : List Nat, skips.length = (mix.filter (ofOther t)).length ∧
        othersOuts dec cfg t s₁ mix =
          (runSkip dec cfg s₂ (skips.zip (mix.filter (ofOther t)))).2 ∧
        ∃ d, strip t (run dec cfg s₁ mix).1 =
          strip t (bump d (runSkip dec cfg s₂ (skips.zip (mix.filter (ofOther t)))).1) := by
  induction mix with
  | nil =>
    intro s₁ s₂ _ _ hrel
    exact ⟨[], rfl, rfl, by rw [run_nil]; exact hrel⟩
  | cons i is ih =>
    intro s₁ s₂ h₁ h₂ ⟨d, hrel⟩
    have hmix' : ∀ j ∈ is, ofT t j = true ∨ ofOther t j = true :=
      fun j hj => hmix j (List.mem_cons_of_mem _ hj)
    rcases hmix i List.mem_cons_self with hi | hi
    · -- a hostile input: invisible, up to the id counter
      have hno : ofOther t i = false := by
        cases hq : ofOther t i with
        | false => rfl
        | true => rw [ofT_ofOther hq] at hi; cases hi
      obtain ⟨d', hd'⟩ := strip_hostile h₁ dec cfg hi
      have hrel' : ∃ d, strip t (step dec cfg s₁ i).1 = strip t (bump d s₂) :=
        ⟨d + d', by rw [hd', hrel, strip_bump, strip_bump, bump_bump]⟩
      obtain ⟨skips, hl, ho, hs⟩ := ih hmix' _ s₂ (h₁.step dec cfg i) h₂ hrel'
      refine ⟨skips, ?_, ?_, ?_⟩
      · rw [List.filter_cons, hno]; exact hl
      · rw [othersOuts, hi, List.filter_cons, hno]; simpa using ho
      · rw [run_cons, List.filter_cons, hno]; exact hs
    · -- an input of another transport: locality on both sides
      have hnt : ofT t i = false := ofT_ofOther hi
      have hw₂ := h₂.bump d
      have l1 := loc_step (dec := dec) hst h₁ hi
      have l2 := loc_step (dec := dec) hst hw₂ hi
      rw [hrel] at l1
      have hl : Loc t (step dec cfg s₁ i) (step dec cfg (bump d s₂) i) := l1.trans l2.symm
      have hrel' : ∃ d', strip t (step dec cfg s₁ i).1 =
          strip t (bump d' (step dec cfg (bump d s₂) i).1) := ⟨0, hl.2⟩
      obtain ⟨skips, hlen, ho, hs⟩ :=
        ih hmix' _ _ (h₁.step dec cfg i) (hw₂.step dec cfg i) hrel'
      refine ⟨d :: skips, ?_, ?_, ?_⟩
      · rw [List.filter_cons, hi]; simp [hlen]
      · rw [othersOuts, hnt, List.filter_cons, hi]
        simp only [Bool.false_eq_true, if_false, if_true, List.zip_cons_cons, Server.runSkip]
        rw [hl.1, ho]
      · rw [run_cons, List.filter_cons, hi]
        simp only [if_true, List.zip_cons_cons, Server.runSkip]
        exact hs

/-- outputs of the hostile transport's own inputs never reach another transport, and are never
    results of API calls -/
theorem hostileOuts_confined {dec : Str → Except Err (Packet × Nat)} {cfg : Cfg} (t : Eio)
    (mix : List Input) : ∀ (s : Srv), WF s →
    ∀ o ∈ hostileOuts dec cfg t s mix, ∀ t' p, o = .send t' p → t' = t := by
  induction mix with
  | nil => intro s _ o ho; cases ho
  | cons i is ih =>
    intro s h o ho t' p heq
    rw [hostileOuts] at ho
    rcases List.mem_append.mp ho with ho | ho
    · by_cases hi : ofT t i = true
      · rw [if_pos hi] at ho
        subst heq
        cases i with
        | eioConnect t'' => rw [step] at ho; cases ho
        | frame t'' v =>
          have ht : t = t'' := (eq_of_beq hi).symm
          subst ht
          rw [step] at ho
          exact frame_outs h dec cfg t v _ ho
        | eioLost t'' r =>
          have ht : t = t'' := (eq_of_beq hi).symm
          subst ht
          rw [step, handleLost_eq] at ho
          split at ho
          · cases ho
          · exact lostGo_outs h cfg t r [] _ (fun o => ∀ t' p, o = .send t' p → t' = t)
              (fun o hc t' p he => by subst he; exact hc) (by simp) _ ho t' p rfl
        | emit _ _ _ _ _ _ | call _ _ _ _ _ | apiDisconnect _ _ | enterRoom _ _ _
        | leaveRoom _ _ _ | closeRoom _ _ | rooms _ _ | getSession _ _ | saveSession _ _ _
        | sessionBlock _ _ _ _ | settle => simp [ofT] at hi
      · rw [if_neg hi] at ho; cases ho
    · exact ih _ (h.step dec cfg i) o ho t' p heq

/-- the outputs of a mixed history are the outputs of the hostile inputs and those of the others,
    each in its original order -/
theorem othersOuts_sublist (dec : Str → Except Err (Packet × Nat)) (cfg : Cfg) (t : Eio)
    (mix : List Input) : ∀ s, List.Sublist (othersOuts dec cfg t s mix) (run dec cfg s mix).2 := by
  induction mix with
  | nil => intro s; rw [run_nil]; exact List.Sublist.refl _
  | cons i is ih =>
    intro s
    rw [run_cons, othersOuts]
    refine List.Sublist.append ?_ (ih _)
    split
    · exact List.nil_sublist _
    · exact List.Sublist.refl _

theorem mem_run_outs (dec : Str → Except Err (Packet × Nat)) (cfg : Cfg) (t : Eio)
    (mix : List Input) : ∀ s o, o ∈ (run dec cfg s mix).2 ↔
      o ∈ hostileOuts dec cfg t s mix ∨ o ∈ othersOuts dec cfg t s mix := by
  induction mix with
  | nil => intro s o; rw [run_nil]; simp [hostileOuts, othersOuts]
  | cons i is ih =>
    intro s o
    rw [run_cons, hostileOuts, othersOuts, List.mem_append, List.mem_append, List.mem_append, ih]
    by_cases hi : ofT t i = true
    · simp [hi, or_assoc]
    · simp [hi, or_left_comm]

end Sio.Server
