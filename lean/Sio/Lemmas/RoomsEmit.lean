/-
  Helper lemmas for K3 (rooms): who is in a participant / recipient list, and how often.
-/
import Sio.Lemmas.Rooms
namespace Sio.Rooms

theorem mem_roomMembers {s : St} {ns : Ns} {room : Option Room} {sid : Sid} {eio : Eio} :
    (sid, eio) ∈ roomMembers s ns room ↔ (⟨ns, room, sid, eio⟩ : Entry) ∈ s := by
  simp only [roomMembers, List.mem_map, List.mem_filter, decide_eq_true_eq, Prod.mk.injEq]
  constructor
  · rintro ⟨⟨a, b, c, d⟩, ⟨he, h1, h2⟩, h3, h4⟩
    simp only at h1 h2 h3 h4
    subst h1 h2 h3 h4; exact he
  · intro he
    exact ⟨_, ⟨he, rfl, rfl⟩, rfl, rfl⟩

theorem mem_fst_roomMembers {s : St} {ns : Ns} {room : Option Room} {sid : Sid} :
    sid ∈ (roomMembers s ns room).map Prod.fst ↔ isMember s ns room sid = true := by
  rw [isMember_iff]
  simp only [List.mem_map, Prod.exists, exists_and_right, exists_eq_right]
  constructor
  · rintro ⟨eio, h⟩; exact ⟨eio, mem_roomMembers.mp h⟩
  · rintro ⟨eio, h⟩; exact ⟨eio, mem_roomMembers.mpr h⟩

/-- a room lists each of its members once -/
theorem Inv.roomMembers_nodup {s : St} (h : Inv s) (ns : Ns) (room : Option Room) :
    ((roomMembers s ns room).map Prod.fst).Nodup := by
  have key : ∀ (l : List Entry), l.Nodup → (∀ e ∈ l, e ∈ s) →
      ((List.map (fun e : Entry => (e.sid, e.eio))
        (l.filter (fun e => decide (e.ns = ns ∧ e.room = room)))).map Prod.fst).Nodup := by
    intro l
    induction l with
    | nil => intro _ _; simp
    | cons a l ih =>
      intro hnd hsub
      rw [List.nodup_cons] at hnd
      have ih' := ih hnd.2 (fun e he => hsub e (List.mem_cons_of_mem _ he))
      by_cases hp : a.ns = ns ∧ a.room = room
      · rw [List.filter_cons_of_pos (by simpa using hp)]
        simp only [List.map_cons, List.nodup_cons]
        refine ⟨?_, ih'⟩
        simp only [List.mem_map, List.mem_filter, decide_eq_true_eq, Prod.exists,
          exists_and_right, exists_eq_right, Prod.mk.injEq, not_exists, not_and]
        rintro x b ⟨hb, hb1, hb2⟩ hb3 _
        have hbe := h.sidEio b (hsub b (List.mem_cons_of_mem _ hb)) a (hsub a List.mem_cons_self)
          (hb1.trans hp.1.symm) hb3
        have : b = a := by
          obtain ⟨b1, b2, b3, b4⟩ := b
          obtain ⟨a1, a2, a3, a4⟩ := a
          simp only at hb1 hb2 hb3 hbe hp
          obtain ⟨hp1, hp2⟩ := hp
          subst hb1 hb2 hb3 hbe hp1 hp2; rfl
        exact hnd.1 (this ▸ hb)
      · rw [List.filter_cons_of_neg (by simpa using hp)]
        exact ih'
  exact key s h.nodup (fun _ he => he)

/-! ### `dict.update` over several rooms -/

theorem any_fst_iff {acc : List (Sid × Eio)} {x : Sid} :
    acc.any (fun q => decide (q.1 = x)) = true ↔ x ∈ acc.map Prod.fst := by
  simp only [List.any_eq_true, decide_eq_true_eq, List.mem_map]

theorem mem_mergeBySid {acc l : List (Sid × Eio)} {p : Sid × Eio} :
    p ∈ mergeBySid acc l → p ∈ acc ∨ p ∈ l := by
  induction l generalizing acc with
  | nil => intro h; exact Or.inl h
  | cons q l ih =>
    intro h
    unfold mergeBySid at h
    split at h
    · rcases ih h with h | h
      · exact Or.inl h
      · exact Or.inr (List.mem_cons_of_mem _ h)
    · rcases ih h with h | h
      · rcases List.mem_append.mp h with h | h
        · exact Or.inl h
        · simp at h; subst h; exact Or.inr List.mem_cons_self
      · exact Or.inr (List.mem_cons_of_mem _ h)

theorem mem_fst_mergeBySid {acc l : List (Sid × Eio)} {x : Sid} :
    x ∈ (mergeBySid acc l).map Prod.fst ↔ x ∈ acc.map Prod.fst ∨ x ∈ l.map Prod.fst := by
  induction l generalizing acc with
  | nil => simp [mergeBySid]
  | cons q l ih =>
    unfold mergeBySid
    split
    · rename_i hq
      rw [ih, List.map_cons, List.mem_cons]
      have := any_fst_iff.mp hq
      constructor
      · rintro (h | h)
        · exact Or.inl h
        · exact Or.inr (Or.inr h)
      · rintro (h | h | h)
        · exact Or.inl h
        · exact Or.inl (h ▸ this)
        · exact Or.inr h
    · simp only [ih, List.map_append, List.mem_append, List.map_cons, List.map_nil, List.mem_cons,
        List.not_mem_nil, or_false, or_assoc]

theorem nodup_mergeBySid {acc l : List (Sid × Eio)} (h : (acc.map Prod.fst).Nodup) :
    ((mergeBySid acc l).map Prod.fst).Nodup := by
  induction l generalizing acc with
  | nil => simpa [mergeBySid] using h
  | cons q l ih =>
    unfold mergeBySid
    split
    · exact ih h
    · rename_i hq
      apply ih
      rw [List.map_append, List.nodup_append]
      refine ⟨h, by simp, ?_⟩
      intro a ha b hb
      simp at hb; subst hb
      rintro rfl
      exact hq (any_fst_iff.mpr ha)

/-- the fold of `get_participants` over a list of rooms, from any accumulator -/
def manyFrom (s : St) (ns : Ns) (acc : List (Sid × Eio)) (rs : List Room) : List (Sid × Eio) :=
  rs.foldl (fun acc r => mergeBySid acc (roomMembers s ns (some r))) acc

theorem mem_manyFrom {s : St} {ns : Ns} {acc : List (Sid × Eio)} {rs : List Room}
    {p : Sid × Eio} :
    p ∈ manyFrom s ns acc rs → p ∈ acc ∨ ∃ r ∈ rs, p ∈ roomMembers s ns (some r) := by
  induction rs generalizing acc with
  | nil => intro h; exact Or.inl h
  | cons r rs ih =>
    intro h
    simp only [manyFrom, List.foldl_cons] at h
    rcases ih h with h | ⟨r', hr', h⟩
    · rcases mem_mergeBySid h with h | h
      · exact Or.inl h
      · exact Or.inr ⟨r, List.mem_cons_self, h⟩
    · exact Or.inr ⟨r', List.mem_cons_of_mem _ hr', h⟩

theorem mem_fst_manyFrom {s : St} {ns : Ns} {acc : List (Sid × Eio)} {rs : List Room}
    {x : Sid} :
    x ∈ (manyFrom s ns acc rs).map Prod.fst ↔
      x ∈ acc.map Prod.fst ∨ ∃ r ∈ rs, isMember s ns (some r) x = true := by
  induction rs generalizing acc with
  | nil => simp [manyFrom]
  | cons r rs ih =>
    simp only [manyFrom, List.foldl_cons]
    have := ih (acc := mergeBySid acc (roomMembers s ns (some r)))
    simp only [manyFrom] at this
    rw [this, mem_fst_mergeBySid, mem_fst_roomMembers]
    constructor
    · rintro ((h | h) | ⟨r', hr', h⟩)
      · exact Or.inl h
      · exact Or.inr ⟨r, List.mem_cons_self, h⟩
      · exact Or.inr ⟨r', List.mem_cons_of_mem _ hr', h⟩
    · rintro (h | ⟨r', hr', h⟩)
      · exact Or.inl (Or.inl h)
      · rcases List.mem_cons.mp hr' with rfl | hr'
        · exact Or.inl (Or.inr h)
        · exact Or.inr ⟨r', hr', h⟩

theorem nodup_manyFrom {s : St} {ns : Ns} {acc : List (Sid × Eio)} {rs : List Room}
    (h : (acc.map Prod.fst).Nodup) : ((manyFrom s ns acc rs).map Prod.fst).Nodup := by
  induction rs generalizing acc with
  | nil => exact h
  | cons r rs ih =>
    simp only [manyFrom, List.foldl_cons]
    exact ih (nodup_mergeBySid h)

/-! ### Participants and recipients -/

/-- "member of at least one addressed room", on the model -/
def addressed (s : St) (ns : Ns) (sid : Sid) : Target → Prop
  | .all => True
  | .one r => isMember s ns (some r) sid = true
  | .many rs => ∃ r ∈ rs, isMember s ns (some r) sid = true

/-- every participant pair is an entry of one of the addressed rooms -/
theorem mem_participants {s : St} {ns : Ns} {t : Target} {p : Sid × Eio}
    (h : p ∈ participants s ns t) : ∃ room, (⟨ns, room, p.1, p.2⟩ : Entry) ∈ s := by
  cases t with
  | all => exact ⟨none, mem_roomMembers.mp h⟩
  | one r => exact ⟨some r, mem_roomMembers.mp h⟩
  | many rs =>
    rcases mem_manyFrom (acc := []) h with h | ⟨r, _, h⟩
    · cases h
    · exact ⟨some r, mem_roomMembers.mp h⟩

theorem Inv.mem_fst_participants {s : St} (h : Inv s) {ns : Ns} {t : Target} {sid : Sid} :
    sid ∈ (participants s ns t).map Prod.fst ↔
      isMember s ns none sid = true ∧ addressed s ns sid t := by
  have up : ∀ room, isMember s ns room sid = true → isMember s ns none sid = true := by
    intro room hm
    obtain ⟨eio, he⟩ := isMember_iff.mp hm
    exact isMember_iff.mpr ⟨eio, h.inNone _ he⟩
  cases t with
  | all => simp [participants, addressed, mem_fst_roomMembers]
  | one r =>
    simp only [participants, addressed, mem_fst_roomMembers]
    exact ⟨fun hm => ⟨up _ hm, hm⟩, fun hm => hm.2⟩
  | many rs =>
    have := mem_fst_manyFrom (s := s) (ns := ns) (acc := []) (rs := rs) (x := sid)
    simp only [manyFrom, List.map_nil, List.not_mem_nil, false_or] at this
    simp only [participants, addressed, this]
    exact ⟨fun ⟨r, hr, hm⟩ => ⟨up _ hm, r, hr, hm⟩, fun hm => hm.2⟩

theorem Inv.participants_nodup {s : St} (h : Inv s) (ns : Ns) (t : Target) :
    ((participants s ns t).map Prod.fst).Nodup := by
  cases t with
  | all => exact h.roomMembers_nodup ns none
  | one r => exact h.roomMembers_nodup ns (some r)
  | many rs => exact nodup_manyFrom (s := s) (ns := ns) (acc := []) (rs := rs) (by simp)

theorem mem_fst_filter_skip {l : List (Sid × Eio)} {skip : List Sid} {sid : Sid} :
    sid ∈ (l.filter (fun p => !(skip.contains p.1))).map Prod.fst ↔
      sid ∈ l.map Prod.fst ∧ sid ∉ skip := by
  simp only [List.mem_map, List.mem_filter]
  constructor
  · rintro ⟨p, ⟨hp, hs⟩, rfl⟩
    refine ⟨⟨p, hp, rfl⟩, ?_⟩
    intro hin
    simp at hs
    exact hs hin
  · rintro ⟨⟨p, hp, rfl⟩, hs⟩
    refine ⟨p, ⟨hp, ?_⟩, rfl⟩
    cases hc : skip.contains p.1 with
    | false => rfl
    | true => exact absurd (List.contains_iff_mem.mp hc) hs

end Sio.Rooms
