/-
  C01 — the converse of the header round trip: `BodyOK` is not only sufficient but necessary,
  i.e. it is the weakest condition on the text that follows a well-formed header.
-/
import Sio.Lemmas.CodecHdr
import Sio.Lemmas.CodecGuards
namespace Sio

variable {cls : Char → DC}

/-- all four phases of an accepted header -/
theorem decodeHdr_phases {s : Str} {h : Hdr} (hh : decodeHdr cls s = .ok h) :
    ∃ ep1, pyInt cls (s.take 1) = .ok h.type ∧ scanAtt cls (s.drop 1) = .ok (h.natt, ep1) ∧
      h.nsp = (scanNs ep1).1 ∧ scanId cls (scanNs ep1).2 = .ok (h.id, h.rest) := by
  unfold decodeHdr at hh
  cases h1 : pyInt cls (s.take 1) with
  | error e => rw [h1] at hh; cases hh
  | ok t =>
    rw [h1] at hh
    cases h2 : scanAtt cls (s.drop 1) with
    | error e => rw [h2] at hh; cases hh
    | ok na =>
      obtain ⟨natt, ep1⟩ := na
      rw [h2] at hh
      cases h3 : scanId cls (scanNs ep1).2 with
      | error e =>
        simp only [bind, Except.bind] at hh
        rw [h3] at hh; cases hh
      | ok ie =>
        obtain ⟨id, ep2⟩ := ie
        simp only [bind, Except.bind] at hh
        rw [h3] at hh
        injection hh with hh
        subst hh
        exact ⟨ep1, rfl, rfl, rfl, h3⟩

/-- what is left after the id never starts with a digit -/
theorem scanId_rest {ep r : Str} {i : Option Nat} (h : scanId cls ep = .ok (i, r)) :
    r = [] ∨ ∃ c t, r = c :: t ∧ (cls c).isDigit = false := by
  unfold scanId at h
  split at h
  · rename_i c tl
    split at h
    · rename_i hc
      dsimp only at h
      generalize min ((c :: tl).takeWhile (fun c => (cls c).isDigit)).length 100 = k at h
      cases hp : pyInt cls ((c :: tl).take k) with
      | error e => rw [hp] at h; cases h
      | ok v =>
        rw [hp] at h
        simp only [bind, Except.bind] at h
        split at h
        · rename_i d t hd
          split at h
          · cases h
          · rename_i hnd
            injection h with h; injection h with _ h
            right; exact ⟨d, t, by rw [← h, hd], by simpa using hnd⟩
        · rename_i hd
          injection h with h; injection h with _ h
          left; rw [← h, hd]
    · rename_i hc
      injection h with h; injection h with _ h
      right; exact ⟨c, tl, h.symm, by simpa using hc⟩
  · injection h with h; injection h with _ h
    left; exact h.symm

/-- without an id nothing is consumed -/
theorem scanId_none_rest {ep r : Str} (h : scanId cls ep = .ok (none, r)) : r = ep := by
  unfold scanId at h
  split at h
  · rename_i c tl
    split at h
    · dsimp only at h
      generalize min ((c :: tl).takeWhile (fun c => (cls c).isDigit)).length 100 = k at h
      cases hp : pyInt cls ((c :: tl).take k) with
      | error e => rw [hp] at h; cases h
      | ok v =>
        rw [hp] at h
        simp only [bind, Except.bind] at h
        split at h
        · split at h
          · cases h
          · injection h with h; injection h with h _; cases h
        · injection h with h; injection h with h _; cases h
    · injection h with h; injection h with _ h; exact h.symm
  · injection h with h; injection h with _ h; exact h.symm

theorem scanId_length {ep r : Str} {i : Option Nat} (h : scanId cls ep = .ok (i, r)) :
    r.length ≤ ep.length := by
  unfold scanId at h
  split at h
  · rename_i c tl
    split at h
    · dsimp only at h
      generalize min ((c :: tl).takeWhile (fun c => (cls c).isDigit)).length 100 = k at h
      cases hp : pyInt cls ((c :: tl).take k) with
      | error e => rw [hp] at h; cases h
      | ok v =>
        rw [hp] at h
        simp only [bind, Except.bind] at h
        have hl : ((c :: tl).drop k).length ≤ (c :: tl).length := by
          rw [List.length_drop]; omega
        split at h
        · split at h
          · cases h
          · injection h with h; injection h with _ h; rw [← h]; exact hl
        · injection h with h; injection h with _ h; rw [← h]; exact hl
    · injection h with h; injection h with _ h; rw [← h]; exact Nat.le_refl _
  · injection h with h; injection h with _ h; rw [← h]; exact Nat.le_refl _

theorem scanNs_none {ep : Str} (h : (scanNs ep).1 = none) :
    (scanNs ep).2 = ep ∧ ∀ r, ep ≠ '/' :: r := by
  unfold scanNs at h ⊢
  split
  · rename_i tl
    simp at h
  · rename_i hne
    exact ⟨rfl, fun r hr => hne r hr⟩

theorem scanNs_length (ep : Str) : (scanNs ep).2.length ≤ ep.length := by
  unfold scanNs
  split
  · dsimp only
    split
    · rw [List.length_drop]; omega
    · simp
  · exact Nat.le_refl _

/-- the count branch is forced when an all-digit prefix is followed by `-` -/
theorem scanAtt_forced (hcls : AsciiCls cls) (n : Nat) (rest : Str) {m : Nat} {ep : Str}
    (h : scanAtt cls (natStr n ++ '-' :: rest) = .ok (m, ep)) : ep = rest := by
  have hpre : (natStr n ++ '-' :: rest).takeWhile (· != '-') = natStr n :=
    takeWhile_stop (natStr_bne (by decide)) (by simp)
  have hne : (natStr n).isEmpty = false := by
    cases h' : natStr n with
    | nil => exact absurd h' (natStr_ne_nil n)
    | cons _ _ => rfl
  unfold scanAtt at h
  simp only [hpre, allDigits_natStr hcls, pyInt_natStr hcls, hne] at h
  simp only [List.length_append, List.length_cons, Bool.not_false, Bool.and_true,
    decide_eq_true_eq] at h
  have hlt : (natStr n).length < (natStr n).length + (rest.length + 1) := by omega
  simp only [hlt, if_true] at h
  split at h
  · cases h
  · simp only [bind, Except.bind, pure, Except.pure] at h
    injection h with h; injection h with _ h
    rw [← h, List.drop_length_add_append]; rfl

theorem bodyOK_necessary (hcls : AsciiCls cls) {t : Nat} {nsp : Option Str} {id natt : Option Nat}
    {body : Str} (hwf : WFHdr t nsp id natt = true)
    (hdec : decodeHdr cls (encodeHdr t nsp id natt ++ body)
      = .ok ⟨t, normNs nsp, id, body, natt.getD 0⟩) :
    BodyOK cls nsp id natt body = true := by
  cases body with
  | nil => rfl
  | cons c r =>
    obtain ⟨ep1, _, hatt, hns, hid⟩ := decodeHdr_phases hdec
    dsimp only at hatt hns hid
    have hwf' := hwf
    simp only [WFHdr, Bool.and_eq_true, decide_eq_true_eq] at hwf'
    obtain ⟨⟨⟨ht, hnsw⟩, _⟩, _⟩ := hwf'
    -- (1) the first character is not a digit
    have h1 : (cls c).isDigit = false := by
      rcases scanId_rest hid with h | ⟨c', t', h, hc⟩
      · cases h
      · injection h with h _; subst h; exact hc
    -- (2) not `/` directly after the type digit / attachment count
    have h2 : isDefaultNs nsp = true → id = none → c ≠ '/' := by
      intro hd hi hc
      subst hi; subst hc
      rcases nspPart_cases hnsw with ⟨_, _, hnorm⟩ | ⟨tl, hd', _, _, _⟩
      · rw [hnorm] at hns
        obtain ⟨he, hne⟩ := scanNs_none hns.symm
        rw [he] at hid
        exact hne r (scanId_none_rest hid).symm
      · rw [hd] at hd'; cases hd'
    -- (3) not `-` directly after an id that follows the type digit
    have h3 : natt = none → isDefaultNs nsp = true → id ≠ none → c ≠ '-' := by
      intro hn hd hi hc
      subst hn; subst hc
      cases id with
      | none => exact hi rfl
      | some i =>
        have ht10 : t < 10 := by omega
        rcases nspPart_cases hnsw with ⟨_, hnp, _⟩ | ⟨tl, hd', _, _, _⟩
        · have hs : (encodeHdr t nsp (some i) none ++ '-' :: r).drop 1 = natStr i ++ '-' :: r := by
            rw [encodeHdr_eq, natStr_of_lt_ten ht10, hnp]; simp [attPart, idPart]
          rw [hs] at hatt
          have hep := scanAtt_forced hcls i r hatt
          subst hep
          have l1 := scanNs_length ep1
          have l2 := scanId_length hid
          simp only [List.length_cons] at l2
          omega
        · rw [hd] at hd'; cases hd'
    cases hd : isDefaultNs nsp <;> cases id <;> cases natt <;>
      simp_all [BodyOK]

end Sio
