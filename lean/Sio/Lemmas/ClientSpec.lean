/-
  K7 — facts about the spec alone (Sio/Model/ClientSpec.lean): the possible effects of one
  transport event on the server's view (`EvShape`), the view's invariants, and the balance
  "accepted = ended + still connected" of its notifications over whole histories.
-/
import Sio.Lemmas.ClientSim
namespace Sio.Client

/-- The possible effects of one transport event on the server's view. -/
inductive EvShape (m : Mode) (v v' : View) (t : List Note) : Prop where
  | same (h1 : v' = v) (h2 : t = [])
  | pend (p : Option Partial) (hup : v.up = true) (h1 : v' = { v with pend := p }) (h2 : t = [])
  | endAll (hup : v.up = true) (hm : m = .live) (h1 : v' = View.down)
      (h2 : t = v.acc.map (fun e => Note.ended e.1))
  | accept (n : Ns) (s : J) (hup : v.up = true) (hn : n ∈ v.asked)
      (h1 : v' = { v with asked := dropAsk v.asked n, acc := v.acc ++ [(n, s)] }) (h2 : t = [.accepted n])
  | refuse (n : Ns) (hup : v.up = true) (hn : n ∈ v.asked) (hr : m = .win true ∨ n ≠ root)
      (h1 : v' = { v with asked := dropAsk v.asked n, ref := n :: v.ref }) (h2 : t = [.refused n])
  | endLast (n : Ns) (hup : v.up = true) (hm : m = .live) (hn : hasKey v.acc n = true)
      (he : (dropNs v.acc n).isEmpty = true) (h1 : v' = View.down) (h2 : t = [.ended n])
  | endOne (n : Ns) (hup : v.up = true) (hm : m = .live) (hn : hasKey v.acc n = true)
      (he : (dropNs v.acc n).isEmpty = false) (h1 : v' = { v with acc := dropNs v.acc n })
      (h2 : t = [.ended n])

theorem specEv_shape {m : Mode} {v v' : View} {e : Ev} {t : List Note}
    (hs : specEv m v e = some (v', t)) : EvShape m v v' t := by
  unfold specEv at hs
  by_cases hup : v.up = true
  · obtain ⟨up, esid, asked, acc, ref, pend⟩ := v
    have hup0 : up = true := hup
    subst hup0
    simp only [Bool.not_true, Bool.false_eq_true, if_false] at hs
    cases e with
    | lost =>
      simp only at hs
      split at hs
      · rename_i hm
        simp only [View.endAll, Option.some.injEq, Prod.mk.injEq] at hs
        exact .endAll hup hm hs.1.symm hs.2.symm
      · cases hs
    | close =>
      simp only at hs
      split at hs
      · rename_i hm
        simp only [View.endAll, Option.some.injEq, Prod.mk.injEq] at hs
        exact .endAll hup hm hs.1.symm hs.2.symm
      · cases hs
    | msg raw d =>
      simp only at hs
      split at hs
      · -- attachment
        split at hs
        · split at hs
          · simp only [Option.some.injEq, Prod.mk.injEq] at hs
            exact .pend _ hup hs.1.symm hs.2.symm
          · split at hs
            · cases hs
            · simp only [Option.some.injEq, Prod.mk.injEq] at hs
              exact .pend _ hup hs.1.symm hs.2.symm
          · cases hs
        · cases hs
      · split at hs
        · cases hs
        · rename_i p natt
          split at hs
          · split at hs
            · rename_i hc
              simp only [Bool.and_eq_true, decide_eq_true_eq] at hc
              split at hs
              · simp only [Option.some.injEq, Prod.mk.injEq] at hs
                exact .accept _ _ hup (by simpa using hc.2) hs.1.symm hs.2.symm
              · cases hs
            · split at hs
              · simp only [Option.some.injEq, Prod.mk.injEq] at hs
                exact .same hs.1.symm hs.2.symm
              · cases hs
          · split at hs
            · split at hs
              · rename_i hc
                simp only [Bool.and_eq_true, Bool.or_eq_true, decide_eq_true_eq] at hc
                simp only [Option.some.injEq, Prod.mk.injEq] at hs
                exact .refuse _ hup (by simpa using hc.1.2) hc.2 hs.1.symm hs.2.symm
              · cases hs
            · split at hs
              · split at hs
                · rename_i hc
                  simp only [Bool.and_eq_true, decide_eq_true_eq] at hc
                  split at hs
                  · rename_i hemp
                    simp only [Option.some.injEq, Prod.mk.injEq] at hs
                    exact .endLast _ hup hc.1.2 hc.2 hemp hs.1.symm hs.2.symm
                  · rename_i hemp
                    simp only [Option.some.injEq, Prod.mk.injEq] at hs
                    exact .endOne _ hup hc.1.2 hc.2 (by simpa using hemp) hs.1.symm hs.2.symm
                · cases hs
              · split at hs
                · split at hs
                  · simp only [Option.some.injEq, Prod.mk.injEq] at hs
                    exact .same hs.1.symm hs.2.symm
                  · cases hs
                · split at hs
                  · split at hs
                    · simp only [Option.some.injEq, Prod.mk.injEq] at hs
                      exact .same hs.1.symm hs.2.symm
                    · cases hs
                  · split at hs
                    · split at hs
                      · simp only [Option.some.injEq, Prod.mk.injEq] at hs
                        exact .pend _ hup hs.1.symm hs.2.symm
                      · cases hs
                    · cases hs
  · have hup' : v.up = false := by simpa using hup
    simp only [hup', Bool.not_false, if_true, Option.some.injEq, Prod.mk.injEq] at hs
    exact .same hs.1.symm hs.2.symm

end Sio.Client

namespace Sio.Client

/-! ### invariants of the view alone, and the balance of its notifications -/

structure VInv (v : View) : Prop where
  nodup : (v.acc.map (·.1)).Nodup
  fresh : ∀ n ∈ v.asked, hasKey v.acc n = false
  down : v.up = false → v.acc = []

/-- 1 if the namespace is accepted and not ended -/
def ind (acc : List (Ns × J)) (n : Ns) : Nat := if hasKey acc n then 1 else 0

def cntA (n : Ns) (t : List Note) : Nat := t.count (.accepted n)
def cntE (n : Ns) (t : List Note) : Nat := t.count (.ended n)

@[simp] theorem cntA_nil (n : Ns) : cntA n [] = 0 := rfl
@[simp] theorem cntE_nil (n : Ns) : cntE n [] = 0 := rfl
@[simp] theorem cntA_append (n : Ns) (a b : List Note) : cntA n (a ++ b) = cntA n a + cntA n b := by
  simp [cntA]
@[simp] theorem cntE_append (n : Ns) (a b : List Note) : cntE n (a ++ b) = cntE n a + cntE n b := by
  simp [cntE]

theorem VInv_down : VInv View.down := by
  constructor <;> simp [View.down]

theorem ind_down (n : Ns) : ind View.down.acc n = 0 := by simp [ind, View.down, hasKey]

theorem hasKey_cons (a : Ns × J) (l : List (Ns × J)) (n : Ns) :
    hasKey (a :: l) n = (decide (a.1 = n) || hasKey l n) := by
  simp [hasKey]

theorem cntE_map_ended (n : Ns) (l : List (Ns × J)) (hnd : (l.map (·.1)).Nodup) :
    cntE n (l.map (fun e => Note.ended e.1)) = ind l n := by
  induction l with
  | nil => simp [ind, hasKey]
  | cons a l ih =>
    simp only [List.map_cons, List.nodup_cons] at hnd
    have ih' := ih hnd.2
    unfold cntE at ih' ⊢
    unfold ind at ih' ⊢
    rw [List.map_cons, List.count_cons, ih', hasKey_cons]
    by_cases h : a.1 = n
    · have hl : hasKey l n = false := by
        cases hk : hasKey l n with
        | false => rfl
        | true =>
          exfalso; apply hnd.1
          rw [h]; exact (hasKey_iff_mem_keys _ _).mp hk
      simp [h, hl]
    · have : (Note.ended a.1 == Note.ended n) = false := by simp [h]
      simp [h, this]

theorem cntA_map_ended (n : Ns) (l : List (Ns × J)) :
    cntA n (l.map (fun e => Note.ended e.1)) = 0 := by
  induction l with
  | nil => rfl
  | cons a l ih => simp only [cntA, List.map_cons, List.count_cons] at ih ⊢; simp [ih]

theorem cntA_map_refused (n : Ns) (l : List Ns) : cntA n (l.map Note.refused) = 0 := by
  induction l with
  | nil => rfl
  | cons a l ih => simp only [cntA, List.map_cons, List.count_cons] at ih ⊢; simp [ih]

theorem cntE_map_refused (n : Ns) (l : List Ns) : cntE n (l.map Note.refused) = 0 := by
  induction l with
  | nil => rfl
  | cons a l ih => simp only [cntE, List.map_cons, List.count_cons] at ih ⊢; simp [ih]

/-- one transport event keeps the view's invariants and the balance
    `accepted = ended + still connected`, per namespace -/
theorem spec_ev_balance {m : Mode} {v v' : View} {e : Ev} {t : List Note} (hv : VInv v)
    (hs : specEv m v e = some (v', t)) :
    VInv v' ∧ ∀ n, cntA n t + ind v.acc n = cntE n t + ind v'.acc n := by
  cases specEv_shape hs with
  | same h1 h2 => subst h1 h2; exact ⟨hv, fun n => by simp⟩
  | pend p hup h1 h2 =>
    subst h1 h2
    exact ⟨⟨hv.nodup, hv.fresh, hv.down⟩, fun n => by simp⟩
  | endAll hup hm h1 h2 =>
    subst h1 h2
    refine ⟨VInv_down, fun n => ?_⟩
    rw [cntE_map_ended n v.acc hv.nodup, cntA_map_ended, ind_down]; omega
  | accept a s hup hn h1 h2 =>
    subst h1 h2
    have hk := hv.fresh a hn
    refine ⟨⟨?_, ?_, ?_⟩, fun n => ?_⟩
    · simp only [List.map_append, List.map_cons, List.map_nil]
      rw [List.nodup_append]
      refine ⟨hv.nodup, by simp, ?_⟩
      intro x hx y hy
      simp only [List.mem_singleton] at hy
      subst hy
      intro hxy; subst hxy
      have := (hasKey_iff_mem_keys _ _).mpr hx
      rw [hk] at this; cases this
    · intro n' hn'
      have := mem_dropAsk.mp hn'
      rw [hasKey_append, hv.fresh n' this.1]
      have : ¬ (a = n') := fun hq => this.2 hq.symm
      simp [this]
    · intro hd; rw [hup] at hd; cases hd
    · simp only [ind, hasKey_append]
      by_cases hq : a = n
      · subst hq; simp [cntA, cntE, hk]
      · have h1 : (Note.accepted a == Note.accepted n) = false := by simp [hq]
        simp [cntA, cntE, hq]
  | refuse a hup hn hr h1 h2 =>
    subst h1 h2
    refine ⟨⟨hv.nodup, ?_, hv.down⟩, fun n => by simp [cntA, cntE]⟩
    intro n' hn'
    exact hv.fresh n' (mem_dropAsk.mp hn').1
  | endLast a hup hm hn he h1 h2 =>
    subst h1 h2
    refine ⟨VInv_down, fun n => ?_⟩
    have hnil : dropNs v.acc a = [] := by simpa using he
    rw [ind_down]
    by_cases hq : a = n
    · subst hq; simp [cntA, cntE, ind, hn]
    · have hk : hasKey v.acc n = false := by
        cases hk : hasKey v.acc n with
        | false => rfl
        | true =>
          have := hasKey_dropNs v.acc n a
          rw [hnil, hk] at this
          have hne : n ≠ a := fun h => hq h.symm
          simp [hasKey, hne] at this
      have h1 : (Note.ended a == Note.ended n) = false := by simp [hq]
      simp [cntA, cntE, ind, hk, List.count_cons, h1]
  | endOne a hup hm hn he h1 h2 =>
    subst h1 h2
    refine ⟨⟨?_, ?_, ?_⟩, fun n => ?_⟩
    · have : (dropNs v.acc a).map (·.1) = (v.acc.map (·.1)).filter (· ≠ a) := by
        simp [dropNs, List.filter_map, Function.comp_def]
      rw [this]
      exact hv.nodup.filter _
    · intro n' hn'
      rw [hasKey_dropNs, hv.fresh n' hn']; rfl
    · intro hd; rw [hup] at hd; cases hd
    · simp only [ind, hasKey_dropNs]
      by_cases hq : a = n
      · subst hq; simp [cntA, cntE, hn]
      · have h1 : (Note.ended a == Note.ended n) = false := by simp [hq]
        have hne : n ≠ a := fun h => hq h.symm
        simp [cntA, cntE, List.count_cons, h1, hne]

end Sio.Client

namespace Sio.Client

theorem spec_evs_balance {m : Mode} (es : List Ev) : ∀ {v v' : View} {t : List Note}, VInv v →
    specEvs m v es = some (v', t) →
    VInv v' ∧ ∀ n, cntA n t + ind v.acc n = cntE n t + ind v'.acc n := by
  induction es with
  | nil =>
    intro v v' t hv hs
    simp only [specEvs, Option.some.injEq, Prod.mk.injEq] at hs
    obtain ⟨rfl, rfl⟩ := hs
    exact ⟨hv, fun n => by simp⟩
  | cons e es ih =>
    intro v v' t hv hs
    simp only [specEvs] at hs
    cases h1 : specEv m v e with
    | none => rw [h1] at hs; cases hs
    | some r1 =>
      obtain ⟨v1, t1⟩ := r1
      rw [h1] at hs
      simp only at hs
      cases h2 : specEvs m v1 es with
      | none => rw [h2] at hs; cases hs
      | some r2 =>
        obtain ⟨v2, t2⟩ := r2
        rw [h2] at hs
        simp only [Option.some.injEq, Prod.mk.injEq] at hs
        obtain ⟨rfl, rfl⟩ := hs
        obtain ⟨hv1, hb1⟩ := spec_ev_balance hv h1
        obtain ⟨hv2, hb2⟩ := ih hv1 h2
        refine ⟨hv2, fun n => ?_⟩
        have := hb1 n; have := hb2 n
        simp only [cntA_append, cntE_append]; omega

theorem spec_loop_balance (w : Bool) (nss : List Ns) : ∀ {v v' : View} {rs : List (List Ev)}
    {t : List Note}, VInv v → specLoop w v nss rs = some (v', t) →
    VInv v' ∧ ∀ n, cntA n t + ind v.acc n = cntE n t + ind v'.acc n := by
  induction nss with
  | nil =>
    intro v v' rs t hv hs
    simp only [specLoop, Option.some.injEq, Prod.mk.injEq] at hs
    obtain ⟨rfl, rfl⟩ := hs
    exact ⟨hv, fun n => by simp⟩
  | cons a nss ih =>
    intro v v' rs t hv hs
    simp only [specLoop] at hs
    cases h1 : specEvs (.win w) v (rs.headD []) with
    | none => rw [h1] at hs; cases hs
    | some r1 =>
      obtain ⟨v1, t1⟩ := r1
      rw [h1] at hs
      simp only at hs
      cases h2 : specLoop w v1 nss rs.tail with
      | none => rw [h2] at hs; cases hs
      | some r2 =>
        obtain ⟨v2, t2⟩ := r2
        rw [h2] at hs
        simp only [Option.some.injEq, Prod.mk.injEq] at hs
        obtain ⟨rfl, rfl⟩ := hs
        obtain ⟨hv1, hb1⟩ := spec_evs_balance _ hv h1
        obtain ⟨hv2, hb2⟩ := ih hv1 h2
        refine ⟨hv2, fun n => ?_⟩
        have := hb1 n; have := hb2 n
        simp only [cntA_append, cntE_append]; omega

theorem ind_of_down {v : View} (hv : VInv v) (hup : v.up = false) (n : Ns) : ind v.acc n = 0 := by
  rw [hv.down hup]; simp [ind, hasKey]

/-- one input of a history in which every `connect(wait=True)` is fully accepted -/
theorem spec_step_balance {v v' : View} {i : Input} {t : List Note} (hv : VInv v)
    (hs : specStep true v i = some (v', t)) :
    VInv v' ∧ ∀ n, cntA n t + ind v.acc n = cntE n t + ind v'.acc n := by
  have hemit : ∀ (ns : Option Ns) (reacts : List Ev),
      (if hasKey v.acc (nsOr ns) then specEvs .live v reacts else some (v, [])) = some (v', t) →
      VInv v' ∧ ∀ n, cntA n t + ind v.acc n = cntE n t + ind v'.acc n := by
    intro ns reacts h
    split at h
    · exact spec_evs_balance _ hv h
    · simp only [Option.some.injEq, Prod.mk.injEq] at h
      obtain ⟨rfl, rfl⟩ := h
      exact ⟨hv, fun n => by simp⟩
  cases i with
  | connect nss auth wait oc reacts =>
    simp only [specStep] at hs
    split at hs
    · simp only [Option.some.injEq, Prod.mk.injEq] at hs
      obtain ⟨rfl, rfl⟩ := hs
      exact ⟨hv, fun n => by simp⟩
    · rename_i hup
      have hup' : v.up = false := by simpa using hup
      cases oc with
      | refuse arg =>
        simp only [Option.some.injEq, Prod.mk.injEq] at hs
        obtain ⟨rfl, rfl⟩ := hs
        exact ⟨hv, fun n => by rw [cntA_map_refused, cntE_map_refused]⟩
      | accept es =>
        simp only at hs
        split at hs
        · cases hs
        · cases hl : specLoop wait { up := true, esid := some es, asked := nss } nss reacts with
          | none => rw [hl] at hs; cases hs
          | some r =>
            obtain ⟨v1, t1⟩ := r
            rw [hl] at hs
            simp only at hs
            have hv0 : VInv { up := true, esid := some es, asked := nss } := by
              constructor <;> simp [hasKey]
            obtain ⟨hv1, hb1⟩ := spec_loop_balance wait nss hv0 hl
            split at hs
            · simp at hs
            · simp only [Option.some.injEq, Prod.mk.injEq] at hs
              obtain ⟨rfl, rfl⟩ := hs
              refine ⟨hv1, fun n => ?_⟩
              have := hb1 n
              rw [ind_of_down hv hup']
              simpa [ind, hasKey] using this
  | emit ev d ns cb reacts => exact hemit ns reacts (by simpa only [specStep] using hs)
  | send d ns cb reacts => exact hemit ns reacts (by simpa only [specStep] using hs)
  | call ev d ns tok reacts => exact hemit ns reacts (by simpa only [specStep] using hs)
  | disconnect =>
    simp only [specStep, View.endAll, Option.some.injEq, Prod.mk.injEq] at hs
    obtain ⟨rfl, rfl⟩ := hs
    refine ⟨VInv_down, fun n => ?_⟩
    rw [cntE_map_ended n v.acc hv.nodup, cntA_map_ended, ind_down]; omega
  | ev e => exact spec_ev_balance hv (by simpa only [specStep] using hs)

theorem spec_run_balance (is : List Input) : ∀ {v v' : View} {t : List Note}, VInv v →
    specRun true v is = some (v', t) →
    VInv v' ∧ ∀ n, cntA n t + ind v.acc n = cntE n t + ind v'.acc n := by
  induction is with
  | nil =>
    intro v v' t hv hs
    simp only [specRun, Option.some.injEq, Prod.mk.injEq] at hs
    obtain ⟨rfl, rfl⟩ := hs
    exact ⟨hv, fun n => by simp⟩
  | cons i is ih =>
    intro v v' t hv hs
    simp only [specRun] at hs
    cases h1 : specStep true v i with
    | none => rw [h1] at hs; cases hs
    | some r1 =>
      obtain ⟨v1, t1⟩ := r1
      rw [h1] at hs
      simp only at hs
      cases h2 : specRun true v1 is with
      | none => rw [h2] at hs; cases hs
      | some r2 =>
        obtain ⟨v2, t2⟩ := r2
        rw [h2] at hs
        simp only [Option.some.injEq, Prod.mk.injEq] at hs
        obtain ⟨rfl, rfl⟩ := hs
        obtain ⟨hv1, hb1⟩ := spec_step_balance hv h1
        obtain ⟨hv2, hb2⟩ := ih hv1 h2
        refine ⟨hv2, fun n => ?_⟩
        have := hb1 n; have := hb2 n
        simp only [cntA_append, cntE_append]; omega

end Sio.Client
