/-
  Helper lemmas for K6 (pub/sub), callback level of `sync_equiv` (C07), part 4: the operations that
  touch callback tables — `disconnect` (the session's entries go), the client's ACK (relay, user
  entry and the reference server's entry go; exactly the linked callback runs), an emit with a
  callback (user entry on the issuing host, relay on the client's host, user entry on the reference
  server) — and the step theorem for every operation.
-/
import Sio.Lemmas.PubSubLinkedOps
namespace Sio.PubSub
open Sio.Rooms

theorem dropSid_cbs_ne (h : Host) (ns : Ns) (x : Sid) {y : Str} (hy : y ≠ x) :
    (dropSid h ns x).cbs y = h.cbs y ∧ (dropSid h ns x).ctr y = h.ctr y := by
  refine ⟨?_, ?_⟩
  · funext j; simp [dropSid, hy]
  · simp [dropSid, hy]

theorem dropSid_cbs_self (h : Host) (ns : Ns) (x : Sid) (i : Nat) : (dropSid h ns x).cbs x i = none := by
  simp [dropSid]

section ops
variable {home : Sid → HostId} {ehome : Eio → HostId} {c : Cluster} {s : Single}

/-! ### disconnect -/

/-- the cluster side of `disconnect` + drain: every host either keeps its callback table or, if the
    session lives there, drops the session's entries -/
theorem cluster_disconnect (hnd : (c.hosts.map Host.id).Nodup)
    (hdr : ∀ h ∈ c.hosts, h.cursor = c.chan.length) (hv : Host) (hin : hv ∈ c.hosts) (ns : Ns) (x : Sid) :
    ∃ G : Host → Host,
      (step (c.on hv.id (fun h => apiDisconnect h ns x)).1 .drain).1.hosts = c.hosts.map G ∧
      (∀ h ∈ c.hosts, (G h).id = h.id ∧
        (((G h).cbs = h.cbs ∧ (G h).ctr = h.ctr) ∨
         (h.connected ns x = true ∧ (G h).cbs = (dropSid h ns x).cbs ∧ (G h).ctr = (dropSid h ns x).ctr))) ∧
      (∀ h ∈ (step (c.on hv.id (fun h => apiDisconnect h ns x)).1 .drain).1.hosts,
        h.cursor = (step (c.on hv.id (fun h => apiDisconnect h ns x)).1 .drain).1.chan.length) ∧
      cbEvents ((c.on hv.id (fun h => apiDisconnect h ns x)).2 ++
        (step (c.on hv.id (fun h => apiDisconnect h ns x)).1 .drain).2) = [] ∧
      (step (c.on hv.id (fun h => apiDisconnect h ns x)).1 .drain).1.asked =
        c.asked ++ askedIn ((c.on hv.id (fun h => apiDisconnect h ns x)).2 ++
          (step (c.on hv.id (fun h => apiDisconnect h ns x)).1 .drain).2) := by
  have hcur : ∀ h ∈ c.hosts, (apiDisconnect h ns x).h.cursor = h.cursor := by
    intro h _; unfold apiDisconnect; split
    · exact (localDisconnect_obs h x ns).2.1
    · rfl
  by_cases hc : hv.connected ns x = true
  · -- the session lives on the host that was asked
    obtain ⟨eio, hq⟩ := Option.isSome_iff_exists.mp hc
    have hfv : apiDisconnect hv ns x =
        { h := dropSid hv ns x, outs := [.sendDisc hv.id x eio ns, .discHandler hv.id x ns] } := by
      simp [apiDisconnect, hc, localDisconnect, hq]
    obtain ⟨e1, e2, e3, e4, _⟩ := on_drain_full c hnd hdr hv hin (fun h => apiDisconnect h ns x) hcur
      (by intro h _; show (catchUp _ (apiDisconnect hv ns x).pubs).pubs = []; rw [hfv]; rfl)
    have hp : (apiDisconnect hv ns x).pubs = [] := by rw [hfv]
    simp only [hp] at e1 e2 e3 e4
    refine ⟨_, e1, ?_, ?_, ?_, by rw [e3, e4]⟩
    · intro h hh
      simp only [catchUp_nil]
      by_cases hid : h.id = hv.id
      · have : h = hv := eq_of_id_eq hnd hh hin hid
        subst this
        rw [if_pos rfl, hfv]
        exact ⟨rfl, Or.inr ⟨hc, rfl, rfl⟩⟩
      · rw [if_neg hid]
        exact ⟨rfl, Or.inl ⟨rfl, rfl⟩⟩
    · intro h' hh'
      rw [e1] at hh'
      obtain ⟨h, _, rfl⟩ := List.mem_map.mp hh'
      rw [e2]; simp
    · rw [e4, cbEvents_append, hfv]
      exact cbEvents_flatMap_nil _ _ (fun _ _ => rfl)
  · -- it lives elsewhere (or nowhere): the request is published
    have hfv : apiDisconnect hv ns x = { h := hv, pubs := [Msg.disconnect hv.id x ns] } := by
      simp [apiDisconnect, hc]
    have hp : (apiDisconnect hv ns x).pubs = [Msg.disconnect hv.id x ns] := by rw [hfv]
    obtain ⟨e1, e2, e3, e4, _⟩ := on_drain_full c hnd hdr hv hin (fun h => apiDisconnect h ns x) hcur
      (by intro h _; show (catchUp _ (apiDisconnect hv ns x).pubs).pubs = []
          rw [hp, (catchUp_one _ _).2.2]; exact (listenMsg_disconnect _ _ _ _).1)
    simp only [hp] at e1 e2 e3 e4
    refine ⟨_, e1, ?_, ?_, ?_, by rw [e3, e4]⟩
    · intro h hh
      simp only [(catchUp_one _ _).1]
      have hsel : (if h.id = hv.id then (apiDisconnect h ns x).h else h) = h := by
        split
        · rename_i hid
          have : h = hv := eq_of_id_eq hnd hh hin hid
          subst this
          rw [hfv]
        · rfl
      rw [hsel]
      obtain ⟨_, _, l3, l4⟩ := listenMsg_disconnect h hv.id x ns
      refine ⟨l3, ?_⟩
      rcases l4 with l4 | ⟨_, l5, l6⟩
      · exact Or.inl ⟨by rw [l4], by rw [l4]⟩
      · exact Or.inr ⟨l5, by rw [l6], by rw [l6]⟩
    · intro h' hh'
      rw [e1] at hh'
      obtain ⟨h, _, rfl⟩ := List.mem_map.mp hh'
      rw [e2]; simp
    · rw [e4, cbEvents_append, hfv]
      refine cbEvents_flatMap_nil _ _ (fun h _ => ?_)
      rw [(catchUp_one _ _).2.1]
      exact (listenMsg_disconnect _ _ _ _).2.1

theorem localDisconnect_single (h : Host) (x : Sid) (ns : Ns) :
    cbEvents (localDisconnect h x ns).outs = [] ∧
    ((eioOf h.rooms ns x = none ∧ (localDisconnect h x ns).h = h) ∨
     ((eioOf h.rooms ns x).isSome ∧ (localDisconnect h x ns).h = dropSid h ns x)) := by
  cases hq : eioOf h.rooms ns x with
  | none =>
    have : localDisconnect h x ns = { h := h } := by simp [localDisconnect, hq]
    rw [this]; exact ⟨rfl, Or.inl ⟨rfl, rfl⟩⟩
  | some eio =>
    have : localDisconnect h x ns =
        { h := dropSid h ns x, outs := [.sendDisc h.id x eio ns, .discHandler h.id x ns] } := by
      simp [localDisconnect, hq]
    rw [this]; exact ⟨rfl, Or.inr ⟨rfl, rfl⟩⟩

theorem linked_disconnect (hs : Sim home ehome c s) (hl : Linked home c s) (via : HostId) (ns : Ns)
    (x : Sid) (hop : OpOk home ehome (c.views.map Prod.fst) (.disconnect via ns x)) :
    StepGoal home c s (.disconnect via ns x) := by
  obtain ⟨hv, hin, rfl⟩ := exists_host_of_id c via (by rw [← views_fst]; exact hop)
  have hseen : ∀ y, seenBy y ((c.on hv.id (fun h => apiDisconnect h ns x)).2 ++
      (step (c.on hv.id (fun h => apiDisconnect h ns x)).1 .drain).2) =
      seenBy y (s.step (.disconnect hv.id ns x)).2 := (sim_step hs (.disconnect hv.id ns x) hop).2.1
  have hst : step c (.disconnect hv.id ns x) = c.on hv.id (fun h => apiDisconnect h ns x) := rfl
  unfold StepGoal
  rw [hst]
  obtain ⟨G, e1, e2, e3, e4, e5⟩ := cluster_disconnect hs.ids hl.drained hv hin ns x
  have hsobs := localDisconnect_obs s.srv x ns
  obtain ⟨hscb, hsd⟩ := localDisconnect_single s.srv x ns
  have hnoask : ∀ y, ∀ e ∈ seenBy y (s.step (.disconnect hv.id ns x)).2, e.asks = false := by
    intro y e he
    have he' : e ∈ seenBy y (localDisconnect s.srv x ns).outs := he
    rw [hsobs.2.2.2.1 y] at he'
    split at he'
    · simp only [List.mem_singleton] at he'; subst he'; rfl
    · cases he'
  have hask : askedIn ((c.on hv.id (fun h => apiDisconnect h ns x)).2 ++
      (step (c.on hv.id (fun h => apiDisconnect h ns x)).1 .drain).2) = [] :=
    askedIn_nil_of_seen _ (fun y e he => hnoask y e (by rw [← hseen y]; exact he))
  have hsask : askedIn (s.step (.disconnect hv.id ns x)).2 = [] := askedIn_nil_of_seen _ hnoask
  have hca : (step (c.on hv.id (fun h => apiDisconnect h ns x)).1 .drain).1.asked = c.asked := by
    rw [e5, hask, List.append_nil]
  have hsa : (s.step (.disconnect hv.id ns x)).1.asked = s.asked := by
    rw [single_step_asked, hsask, List.append_nil]
  have hrooms := single_step_rooms (s := s) hs.sinv (.disconnect hv.id ns x)
  have hsrv : (s.step (.disconnect hv.id ns x)).1.srv = (localDisconnect s.srv x ns).h := rfl
  refine ⟨?_, ?_, Or.inl hscb⟩
  · refine linked_keyed hl hs.ids _ _ G (some x) e1 (fun h hh => (e2 h hh).1) ?_ e3 ?_ ?_
      (fun y _ => by rw [hca]) (fun y _ => by rw [hsa]) ?_ ?_ ?_
    · intro h hh y hy
      have hyx : y ≠ x := fun e => hy (by rw [e])
      rcases (e2 h hh).2 with ⟨a, b⟩ | ⟨_, a, b⟩
      · exact ⟨by rw [a], by rw [b]⟩
      · exact ⟨by rw [a]; exact (dropSid_cbs_ne h ns x hyx).1, by rw [b]; exact (dropSid_cbs_ne h ns x hyx).2⟩
    · rw [hrooms]; exact single_oneNs (op := .disconnect hv.id ns x) trivial hl.oneNs
    · intro y; rw [hca, hsa]; exact hl.len y
    · intro y hy
      have hyx : y ≠ x := fun e => hy (by rw [e])
      rw [hsrv]
      rcases hsd with ⟨_, a⟩ | ⟨_, a⟩
      · rw [a]; exact ⟨rfl, rfl⟩
      · rw [a]; exact dropSid_cbs_ne s.srv ns x hyx
    · intro y _ hy
      rw [hrooms] at hy
      exact single_conn (op := .disconnect hv.id ns x) trivial y hy
    · intro k hk
      cases hk
      refine ⟨?_, ?_, ?_⟩
      · intro h hh i hne
        rcases (e2 h hh).2 with ⟨a, b⟩ | ⟨_, a, b⟩
        · rw [a] at hne; rw [b]; exact hl.bound h hh x i hne
        · rw [a, dropSid_cbs_self] at hne; exact absurd rfl hne
      · intro i hne
        rw [hsrv] at hne ⊢
        rcases hsd with ⟨_, a⟩ | ⟨_, a⟩
        · rw [a] at hne ⊢; exact hl.sbound x i hne
        · rw [a, dropSid_cbs_self] at hne; exact absurd rfl hne
      · intro hx
        rw [hrooms] at hx
        obtain ⟨e, he, hex⟩ := hx
        have he' : e ∈ Rooms.disconnect s.srv.rooms ns x := he
        obtain ⟨hmem, hflt⟩ := List.mem_filter.mp he'
        rcases hsd with ⟨hq, a⟩ | ⟨hq, _⟩
        · -- not connected to this namespace, anywhere: nothing has changed
          have hall := (union_eioOf_none hs.placed hs.union hs.sinv ns x).mp hq
          have hframe : ∀ h ∈ c.hosts, (G h).cbs x = h.cbs x ∧ (G h).ctr x = h.ctr x := by
            intro h hh
            rcases (e2 h hh).2 with ⟨a', b'⟩ | ⟨hconn, _, _⟩
            · exact ⟨by rw [a'], by rw [b']⟩
            · have := hall h.view (view_mem hh)
              simp [Host.connected, Host.view] at hconn this
              rw [this] at hconn; cases hconn
          obtain ⟨C, N, hrep, hkl⟩ := hl.link x ⟨e, hmem, hex⟩
          refine ⟨C, N, ?_, ?_⟩
          · rw [e1]; exact hrep.frame G (fun h hh => (e2 h hh).1) hframe
          · rw [hca, hsa, hsrv, a]; exact hkl
        · -- connected: afterwards the session is gone
          obtain ⟨eio, hq'⟩ := Option.isSome_iff_exists.mp hq
          have h0 := eioOf_some_mem hq'
          have hns : e.ns = ns := hl.oneNs e hmem _ h0 hex
          simp [hns, hex] at hflt
  · rw [e4]
    exact hscb.symm

/-! ### the client's ACK -/

/-- what an acknowledged, linked position removes: the relay on the client's host `Hid`, the user
    entry on the issuing host `Oid` -/
def ackDel (Hid Oid : HostId) (x : Str) (ic id0 : Nat) (h : Host) : Host :=
  let h1 := if h.id = Hid then delCb h x ic else h
  if h.id = Oid then delCb h1 x id0 else h1

theorem delIf_facts (P Q : Prop) [Decidable P] [Decidable Q] (x : Str) (ic id0 : Nat) (h : Host) :
    (if Q then delCb (if P then delCb h x ic else h) x id0 else (if P then delCb h x ic else h)).id = h.id ∧
    (if Q then delCb (if P then delCb h x ic else h) x id0 else (if P then delCb h x ic else h)).ctr = h.ctr ∧
    (∀ y, y ≠ x →
      (if Q then delCb (if P then delCb h x ic else h) x id0 else (if P then delCb h x ic else h)).cbs y =
        h.cbs y) ∧
    (∀ i, (if Q then delCb (if P then delCb h x ic else h) x id0 else (if P then delCb h x ic else h)).cbs x i =
      if (P ∧ i = ic) ∨ (Q ∧ i = id0) then none else h.cbs x i) := by
  refine ⟨?_, ?_, ?_, ?_⟩
  · by_cases hp : P <;> by_cases hq : Q <;> simp [hp, hq, delCb]
  · by_cases hp : P <;> by_cases hq : Q <;> simp [hp, hq, delCb]
  · intro y hy; funext j
    by_cases hp : P <;> by_cases hq : Q <;> simp [hp, hq, delCb, hy]
  · intro i
    by_cases hp : P <;> by_cases hq : Q <;> by_cases a : i = ic <;> by_cases b : i = id0 <;>
      simp [hp, hq, delCb, a, b]

theorem ackDel_facts (Hid Oid : HostId) (x : Str) (ic id0 : Nat) (h : Host) :
    (ackDel Hid Oid x ic id0 h).id = h.id ∧ (ackDel Hid Oid x ic id0 h).ctr = h.ctr ∧
    (∀ y, y ≠ x → (ackDel Hid Oid x ic id0 h).cbs y = h.cbs y) ∧
    (∀ i, (ackDel Hid Oid x ic id0 h).cbs x i =
      if (h.id = Hid ∧ i = ic) ∨ (h.id = Oid ∧ i = id0) then none else h.cbs x i) :=
  delIf_facts (h.id = Hid) (h.id = Oid) x ic id0 h

theorem cluster_ack_live (hnd : (c.hosts.map Host.id).Nodup)
    (hdr : ∀ h ∈ c.hosts, h.cursor = c.chan.length) (H O : Host) (hH : H ∈ c.hosts) (hO : O ∈ c.hosts)
    (x : Sid) (ic : Nat) (args : List J) (n' : Ns) (id0 t : Nat)
    (hrel : H.cbs x ic = some (.relay (some O.id) x n' id0)) (huser : O.cbs x id0 = some (.user t)) :
    ∃ G : Host → Host,
      (step (c.on H.id (fun h => apiAck h x ic args)).1 .drain).1.hosts = c.hosts.map G ∧
      (∀ h ∈ c.hosts, (G h).id = h.id ∧ (G h).cbs = (ackDel H.id O.id x ic id0 h).cbs ∧
        (G h).ctr = h.ctr) ∧
      (∀ h ∈ (step (c.on H.id (fun h => apiAck h x ic args)).1 .drain).1.hosts,
        h.cursor = (step (c.on H.id (fun h => apiAck h x ic args)).1 .drain).1.chan.length) ∧
      cbEvents ((c.on H.id (fun h => apiAck h x ic args)).2 ++
        (step (c.on H.id (fun h => apiAck h x ic args)).1 .drain).2) = [(t, args)] ∧
      (step (c.on H.id (fun h => apiAck h x ic args)).1 .drain).1.asked =
        c.asked ++ askedIn ((c.on H.id (fun h => apiAck h x ic args)).2 ++
          (step (c.on H.id (fun h => apiAck h x ic args)).1 .drain).2) := by
  have hcur : ∀ h ∈ c.hosts, (apiAck h x ic args).h.cursor = h.cursor := by
    intro h _; rw [apiAck_eq, trigger_cursor]
  by_cases hsame : O.id = H.id
  · -- the issuing host is the client's own host
    have : O = H := eq_of_id_eq hnd hO hH hsame
    subst this
    have hne : ¬ (id0 = ic) := by
      rintro rfl
      rw [hrel] at huser; cases huser
    have hdel : (delCb O x ic).cbs x id0 = some (.user t) := by
      rw [← huser]; simp [delCb, hne]
    have hack : apiAck O x ic args =
        { h := delCb (delCb O x ic) x id0, outs := [.callback O.id t args] } := by
      rw [apiAck_eq]
      show trigger (7 + 1) O x ic (some args) = _
      rw [trigger_relay_local 7 O x ic x n' id0 args hrel]
      exact trigger_user 6 (delCb O x ic) x id0 t args hdel
    have hp : (apiAck O x ic args).pubs = [] := by rw [hack]
    obtain ⟨e1, e2, e3, e4, _⟩ := on_drain_full c hnd hdr O hH (fun h => apiAck h x ic args) hcur
      (by intro h _; show (catchUp _ (apiAck O x ic args).pubs).pubs = []; rw [hp]; rfl)
    simp only [hp] at e1 e2 e3 e4
    refine ⟨_, e1, ?_, ?_, ?_, by rw [e3, e4]⟩
    · intro h hh
      simp only [catchUp_nil]
      by_cases hid : h.id = O.id
      · have : h = O := eq_of_id_eq hnd hh hH hid
        subst this
        rw [if_pos rfl, hack]
        refine ⟨rfl, ?_, rfl⟩
        simp [ackDel]
      · rw [if_neg hid]
        refine ⟨rfl, ?_, rfl⟩
        simp [ackDel, hid]
    · intro h' hh'
      rw [e1] at hh'
      obtain ⟨h, _, rfl⟩ := List.mem_map.mp hh'
      rw [e2]; simp
    · rw [e4, cbEvents_append, hack]
      rw [cbEvents_flatMap_nil _ _ (fun _ _ => rfl)]
      rfl
  · -- the acknowledgement travels the channel to the issuing host
    have ho : (some O.id : Option HostId) ≠ some H.id := by simpa using hsame
    have hack : apiAck H x ic args =
        { h := delCb H x ic, pubs := [.callback (some O.id) x n' id0 args] } := by
      rw [apiAck_eq]
      exact trigger_relay_remote 7 H x ic (some O.id) x n' id0 args hrel ho
    have hp : (apiAck H x ic args).pubs = [.callback (some O.id) x n' id0 args] := by rw [hack]
    have hlm : ∀ h ∈ c.hosts,
        listenMsg (if h.id = H.id then (apiAck h x ic args).h else h) (.callback (some O.id) x n' id0 args) =
          if h.id = O.id then { h := delCb O x id0, outs := [.callback O.id t args] }
          else { h := if h.id = H.id then (apiAck h x ic args).h else h } := by
      intro h hh
      rw [listenMsg_callback]
      by_cases hid : h.id = H.id
      · have : h = H := eq_of_id_eq hnd hh hH hid
        subst this
        rw [if_pos rfl, hack]
        have h1 : ¬ (some O.id = some (delCb h x ic).id) := fun he => ho he
        have h2 : ¬ (h.id = O.id) := fun he => hsame he.symm
        rw [if_neg h1, if_neg h2]
      · rw [if_neg hid]
        by_cases hv' : h.id = O.id
        · have : h = O := eq_of_id_eq hnd hh hO hv'
          subst this
          rw [if_pos rfl, if_pos rfl]
          exact trigger_user 7 h x id0 t args huser
        · have h1 : ¬ (some O.id = some h.id) := by simpa using fun he : O.id = h.id => hv' he.symm
          rw [if_neg h1, if_neg hv']
    obtain ⟨e1, e2, e3, e4, _⟩ := on_drain_full c hnd hdr H hH (fun h => apiAck h x ic args) hcur
      (by intro h hh; show (catchUp _ (apiAck H x ic args).pubs).pubs = []
          rw [hp, (catchUp_one _ _).2.2, hlm h hh]; split <;> rfl)
    simp only [hp] at e1 e2 e3 e4
    refine ⟨_, e1, ?_, ?_, ?_, by rw [e3, e4]⟩
    · intro h hh
      simp only [(catchUp_one _ _).1]
      rw [hlm h hh]
      by_cases hid : h.id = H.id
      · have : h = H := eq_of_id_eq hnd hh hH hid
        subst this
        have h2 : ¬ (h.id = O.id) := fun he => hsame he.symm
        rw [if_neg h2, if_pos rfl, hack]
        refine ⟨rfl, ?_, rfl⟩
        simp [ackDel, h2]
      · by_cases hv' : h.id = O.id
        · have : h = O := eq_of_id_eq hnd hh hO hv'
          subst this
          rw [if_pos rfl]
          refine ⟨rfl, ?_, rfl⟩
          simp [ackDel, hid]
        · rw [if_neg hv', if_neg hid]
          refine ⟨rfl, ?_, rfl⟩
          simp [ackDel, hid, hv']
    · intro h' hh'
      rw [e1] at hh'
      obtain ⟨h, _, rfl⟩ := List.mem_map.mp hh'
      rw [e2]; simp
    · rw [e4, cbEvents_append, hack]
      rw [flatMap_congr' (g := fun h => if h.id = O.id then [Out.callback O.id t args] else [])
        (fun h hh => by rw [(catchUp_one _ _).2.1, hlm h hh]; split <;> rfl)]
      rw [flatMap_if_id c.hosts hnd O hO (fun _ => [Out.callback O.id t args])]
      rfl

/-- the cluster does nothing in the step itself; the drain finds nothing -/
theorem linked_noop (hs : Sim home ehome c s) (hl : Linked home c s) (op : Op) (hh : HistOpOk s op)
    (hst : step c op = (c, []))
    (hseen : ∀ y, seenBy y ((step c op).2 ++ (step (step c op).1 .drain).2) = seenBy y (s.step op).2)
    (hS : (s.step op).1.srv.cbs = s.srv.cbs ∧ (s.step op).1.srv.ctr = s.srv.ctr)
    (hnoask : ∀ y, ∀ e ∈ seenBy y (s.step op).2, e.asks = false)
    (hcb : cbEvents (s.step op).2 = []) :
    Linked home (step (step c op).1 .drain).1 (s.step op).1 ∧
    cbEvents ((step c op).2 ++ (step (step c op).1 .drain).2) = cbEvents (s.step op).2 := by
  rw [hst] at hseen ⊢
  obtain ⟨e1, e2, e3, e4, _⟩ := drain_full c c.chan [] (by simp) hl.drained (fun _ _ => rfl)
  refine linked_frame_core hs hl op hh _ ([] ++ (step c .drain).2) _ e1 ?_ ?_ ?_ ?_ hseen hS hnoask hcb
  · intro h _; exact ⟨rfl, rfl, rfl⟩
  · intro h' hh'
    rw [e1] at hh'
    obtain ⟨h, _, rfl⟩ := List.mem_map.mp hh'
    rw [e2]; simp
  · show cbEvents (step c .drain).2 = []
    rw [e4]
    exact cbEvents_flatMap_nil _ _ (fun _ _ => rfl)
  · show (step c .drain).1.asked = c.asked ++ askedIn (step c .drain).2
    rw [e3, e4]

theorem single_ack_cases (s : Single) (ns : Ns) (x : Sid) (n : Nat) (args : List J) :
    (s.step (.ack ns x n args) = ({ srv := s.srv, asked := s.asked ++ [] }, []) ∧
      (s.srv.connected ns x = false ∨ nthAsked s.asked x n = none)) ∨
    (∃ is, s.srv.connected ns x = true ∧ nthAsked s.asked x n = some is ∧
      s.step (.ack ns x n args) =
        ({ srv := (apiAck s.srv x is args).h, asked := s.asked ++ askedIn (apiAck s.srv x is args).outs },
          (apiAck s.srv x is args).outs)) := by
  cases hc : s.srv.connected ns x with
  | false => left; simp [Single.step, hc, askedIn]
  | true =>
    cases hn : nthAsked s.asked x n with
    | none => left; simp [Single.step, hc, hn, askedIn]
    | some is => right; exact ⟨is, rfl, rfl, by simp [Single.step, hc, hn]⟩

theorem delCb_cbs (h : Host) (x : Str) (j : Nat) :
    (∀ y, y ≠ x → (delCb h x j).cbs y = h.cbs y) ∧
    ((delCb h x j).cbs x = fun i => if i = j then none else h.cbs x i) := by
  refine ⟨?_, ?_⟩
  · intro y hy; funext i; simp [delCb, hy]
  · funext i; simp [delCb]

theorem linked_ack (hs : Sim home ehome c s) (hl : Linked home c s) (ns : Ns) (x : Sid) (n : Nat)
    (args : List J) : StepGoal home c s (.ack ns x n args) := by
  have hseen : ∀ y, seenBy y ((step c (.ack ns x n args)).2 ++
      (step (step c (.ack ns x n args)).1 .drain).2) = seenBy y (s.step (.ack ns x n args)).2 :=
    (sim_step hs (.ack ns x n args) trivial).2.1
  have hsobs := single_ack_obs (s := s) ns x n args
  have hnoask : ∀ y, ∀ e ∈ seenBy y (s.step (.ack ns x n args)).2, e.asks = false := by
    intro y e he; rw [hsobs.1 y] at he; cases he
  have hstep : step c (.ack ns x n args) =
      (match c.hosts.find? (fun h => h.connected ns x), nthAsked c.asked x n with
        | some h, some i => c.on h.id (fun h => apiAck h x i args)
        | _, _ => (c, [])) := rfl
  have hrooms := single_step_rooms (s := s) hs.sinv (.ack ns x n args)
  unfold StepGoal
  suffices hmain : Linked home (step (step c (.ack ns x n args)).1 .drain).1 (s.step (.ack ns x n args)).1 ∧
      cbEvents ((step c (.ack ns x n args)).2 ++ (step (step c (.ack ns x n args)).1 .drain).2) =
        cbEvents (s.step (.ack ns x n args)).2 from ⟨hmain.1, hmain.2, Or.inr hsobs.2.1⟩
  -- the reference server does nothing
  have noopS : s.step (.ack ns x n args) = ({ srv := s.srv, asked := s.asked ++ [] }, []) →
      step c (.ack ns x n args) = (c, []) →
      Linked home (step (step c (.ack ns x n args)).1 .drain).1 (s.step (.ack ns x n args)).1 ∧
      cbEvents ((step c (.ack ns x n args)).2 ++ (step (step c (.ack ns x n args)).1 .drain).2) =
        cbEvents (s.step (.ack ns x n args)).2 := by
    intro h1 h2
    exact linked_noop hs hl _ trivial h2 hseen (by rw [h1]; exact ⟨rfl, rfl⟩) hnoask (by rw [h1]; rfl)
  cases hfind : c.hosts.find? (fun h => h.connected ns x) with
  | none =>
    have hst : step c (.ack ns x n args) = (c, []) := by rw [hstep, hfind]
    have hnc : s.srv.connected ns x = false := by
      have hall : ∀ v ∈ c.views, eioOf v.2 ns x = none := by
        intro v hv
        obtain ⟨h, hh, rfl⟩ := List.mem_map.mp hv
        have := List.find?_eq_none.mp hfind h hh
        simpa [Host.connected, Host.view] using this
      have := (union_eioOf_none hs.placed hs.union hs.sinv ns x).mpr hall
      simp [Host.connected, this]
    rcases single_ack_cases s ns x n args with ⟨h1, _⟩ | ⟨is, hc, _, _⟩
    · exact noopS h1 hst
    · rw [hnc] at hc; cases hc
  | some H =>
    have hH : H ∈ c.hosts := List.mem_of_find?_eq_some hfind
    have hHc : H.connected ns x = true := by simpa using List.find?_some hfind
    obtain ⟨eio, hq⟩ := Option.isSome_iff_exists.mp hHc
    have hent : (⟨ns, none, x, eio⟩ : Entry) ∈ H.rooms := eioOf_some_mem hq
    have hhome : home x = H.id := hs.placed.home H.view (view_mem hH) _ hent
    have hsq : eioOf s.srv.rooms ns x = some eio :=
      (union_eioOf hs.placed hs.union hs.sinv ns x eio).mpr ⟨H.view, view_mem hH, hq⟩
    have hsc : s.srv.connected ns x = true := by simp [Host.connected, hsq]
    have hconn : ∃ e ∈ s.srv.rooms, e.sid = x := ⟨_, eioOf_some_mem hsq, rfl⟩
    cases hnth : nthAsked c.asked x n with
    | none =>
      have hst : step c (.ack ns x n args) = (c, []) := by rw [hstep, hfind, hnth]
      have hsn : nthAsked s.asked x n = none := by
        rw [nthAsked_eq] at hnth ⊢
        rw [List.getElem?_eq_none_iff] at hnth ⊢
        rw [← hl.len x]; exact hnth
      rcases single_ack_cases s ns x n args with ⟨h1, _⟩ | ⟨is, _, h2, _⟩
      · exact noopS h1 hst
      · rw [hsn] at h2; cases h2
    | some ic =>
      have hst : step c (.ack ns x n args) = c.on H.id (fun h => apiAck h x ic args) := by
        rw [hstep, hfind, hnth]
      rcases single_ack_cases s ns x n args with ⟨_, h1 | h1⟩ | ⟨is, _, hsn, hsst⟩
      · rw [hsc] at h1; cases h1
      · exfalso
        rw [nthAsked_eq] at hnth h1
        rw [List.getElem?_eq_none_iff, ← hl.len x] at h1
        have := (List.getElem?_eq_some_iff.mp hnth).1
        omega
      · rw [nthAsked_eq] at hnth hsn
        have hp : (ic, is) ∈ (askedOf c.asked x).zip (askedOf s.asked x) :=
          List.mem_of_getElem? (List.getElem?_zip_eq_some.mpr ⟨hnth, hsn⟩)
        obtain ⟨C, N, hrep, hkl⟩ := hl.link x hconn
        rw [hst] at hseen ⊢
        rcases hkl.pair _ hp with ⟨d1, d2⟩ | ⟨t, o, n', id0, l1, l2, l3⟩
        · -- a spent position: nothing happens on either side
          have hHn : H.cbs x ic = none := by rw [← (hrep.1 H hH).1 ic, ← hhome]; exact d2
          have hackH : apiAck H x ic args = { h := H } := by
            rw [apiAck_eq, trigger_absent _ _ _ _ _ hHn]
          have hackS : apiAck s.srv x is args = { h := s.srv } := by
            rw [apiAck_eq, trigger_absent _ _ _ _ _ d1]
          exact linked_frame_on hs hl (.ack ns x n args) trivial H hH (fun h => apiAck h x ic args)
            (by show (apiAck H x ic args).h.id = _; rw [hackH])
            (by intro h _; show (apiAck h x ic args).h.cursor = _; rw [apiAck_eq, trigger_cursor])
            (by show (apiAck H x ic args).h.cbs = _ ∧ (apiAck H x ic args).h.ctr = _; rw [hackH]; exact ⟨rfl, rfl⟩)
            (by show cbEvents (apiAck H x ic args).outs = []; rw [hackH]; rfl)
            (Or.inl (by show (apiAck H x ic args).pubs = []; rw [hackH]))
            hseen (by rw [hsst, hackS]; exact ⟨rfl, rfl⟩) hnoask (by rw [hsst, hackS]; rfl)
        · -- a linked position
          have hrel : H.cbs x ic = some (.relay (some o) x n' id0) := by
            rw [← (hrep.1 H hH).1 ic, ← hhome]; exact l2
          obtain ⟨O, hO, rfl, hOu⟩ := hrep.host l3
          obtain ⟨G, e1, e2, e3, e4, e5⟩ :=
            cluster_ack_live hs.ids hl.drained H O hH hO x ic args n' id0 t hrel hOu
          have hackS : apiAck s.srv x is args =
              { h := delCb s.srv x is, outs := [.callback s.srv.id t args] } := by
            rw [apiAck_eq]; exact trigger_user 7 s.srv x is t args l1
          have hask : askedIn ((c.on H.id (fun h => apiAck h x ic args)).2 ++
              (step (c.on H.id (fun h => apiAck h x ic args)).1 .drain).2) = [] :=
            askedIn_nil_of_seen _ (fun y e he => hnoask y e (by rw [← hseen y]; exact he))
          have hca : (step (c.on H.id (fun h => apiAck h x ic args)).1 .drain).1.asked = c.asked := by
            rw [e5, hask, List.append_nil]
          have hsa : (s.step (.ack ns x n args)).1.asked = s.asked := by
            rw [single_step_asked, hsobs.2.2, List.append_nil]
          have hsrv : (s.step (.ack ns x n args)).1.srv = delCb s.srv x is := by rw [hsst, hackS]
          have hdS := delCb_cbs s.srv x is
          refine ⟨?_, ?_⟩
          · refine linked_keyed hl hs.ids _ _ G (some x) e1 (fun h hh => (e2 h hh).1) ?_ e3 ?_ ?_
              (fun y _ => by rw [hca]) (fun y _ => by rw [hsa]) ?_ ?_ ?_
            · intro h hh y hy
              have hyx : y ≠ x := fun e => hy (by rw [e])
              exact ⟨by rw [(e2 h hh).2.1]; exact (ackDel_facts _ _ _ _ _ h).2.2.1 y hyx,
                by rw [(e2 h hh).2.2]⟩
            · rw [hrooms]; exact single_oneNs (op := .ack ns x n args) trivial hl.oneNs
            · intro y; rw [hca, hsa]; exact hl.len y
            · intro y hy
              have hyx : y ≠ x := fun e => hy (by rw [e])
              rw [hsrv]
              exact ⟨hdS.1 y hyx, rfl⟩
            · intro y _ hy
              rw [hrooms] at hy
              exact single_conn (op := .ack ns x n args) trivial y hy
            · intro k hk
              cases hk
              refine ⟨?_, ?_, ?_⟩
              · intro h hh i hne
                rw [(e2 h hh).2.1, (ackDel_facts _ _ _ _ _ h).2.2.2 i] at hne
                rw [(e2 h hh).2.2]
                split at hne
                · exact absurd rfl hne
                · exact hl.bound h hh x i hne
              · intro i hne
                rw [hsrv] at hne ⊢
                exact delCb_bounded hl.sbound x is x i hne
              · intro _
                refine ⟨fun o' i => if (o' = home x ∧ i = ic) ∨ (o' = O.id ∧ i = id0) then none else C o' i,
                  N, ?_, ?_⟩
                · rw [e1]
                  refine ⟨?_, ?_⟩
                  · intro h' hh'
                    obtain ⟨h, hh, rfl⟩ := List.mem_map.mp hh'
                    refine ⟨fun i => ?_, ?_⟩
                    · rw [(e2 h hh).1, (e2 h hh).2.1, (ackDel_facts _ _ _ _ _ h).2.2.2 i, hhome]
                      dsimp only
                      rw [(hrep.1 h hh).1 i]
                    · rw [(e2 h hh).1, (e2 h hh).2.2]; exact (hrep.1 h hh).2
                  · intro o' ho' i
                    rw [map_id_eq (fun h hh => (e2 h hh).1)] at ho'
                    simp only [hrep.2 o' ho' i, ite_self]
                · rw [hca, hsa, hsrv, hdS.2]
                  exact KL.ack hkl _ hp t O.id n' id0 l2 l3
          · rw [e4, hsst, hackS]; rfl

/-! ### an emit with a callback -/

theorem askedIn_flatMap {α : Type} (l : List α) (F : α → List Out) :
    askedIn (l.flatMap F) = l.flatMap (fun a => askedIn (F a)) := by
  induction l with
  | nil => rfl
  | cons a l ih => rw [List.flatMap_cons, askedIn_append, ih, List.flatMap_cons]

/-- the relay is registered where the addressee is a recipient -/
def relayIf (r : Room) (ns : Ns) (skip : List Sid) (cb : Cb) (h : Host) : Host :=
  if r ∈ (recipients h.rooms ns (.one r) skip).map Prod.fst then (register h r cb).1 else h

/-- the user callback is registered on the issuing host -/
def userIf (v : HostId) (r : Room) (tok : Nat) (h : Host) : Host :=
  if h.id = v then (register h r (.user tok)).1 else h

theorem userIf_rooms (v : HostId) (r : Room) (tok : Nat) (h : Host) :
    (userIf v r tok h).rooms = h.rooms ∧ (userIf v r tok h).id = h.id := by
  unfold userIf; split <;> exact ⟨rfl, rfl⟩

/-- `Manager.emit` with a callback to a personal room, in terms of `relayIf` -/
theorem emitLocal_relayIf (h : Host) (hinv : Inv h.rooms) (ns : Ns) (r : Room) (skip : List Sid)
    (ev : J) (args : List J) (cb : Cb)
    (hpers : ∀ e ∈ h.rooms, e.ns = ns → e.room = some r → e.sid = r) :
    (emitLocal h ns (.one r) skip ev args (some cb)).1 = relayIf r ns skip cb h ∧
    cbEvents (emitLocal h ns (.one r) skip ev args (some cb)).2 = [] ∧
    askedIn (emitLocal h ns (.one r) skip ev args (some cb)).2 =
      if r ∈ (recipients h.rooms ns (.one r) skip).map Prod.fst then [(r, h.ctr r + 1)] else [] := by
  unfold relayIf
  rcases emitLocal_cb_personal h hinv ns r skip ev args cb hpers with ⟨hb, he⟩ | ⟨hb, eio, he⟩
  · rw [he, if_neg hb, if_neg hb]; exact ⟨rfl, rfl, rfl⟩
  · rw [he, if_pos hb, if_pos hb]; exact ⟨rfl, rfl, rfl⟩

theorem cluster_emit_cb (hnd : (c.hosts.map Host.id).Nodup)
    (hdr : ∀ h ∈ c.hosts, h.cursor = c.chan.length) (hinv : ∀ h ∈ c.hosts, Inv h.rooms)
    (hv : Host) (hin : hv ∈ c.hosts) (ev : Str) (d : Data) (ns : Ns) (r : Room) (skip : Skip) (tok : Nat)
    (hpers : ∀ h ∈ c.hosts, ∀ e ∈ h.rooms, e.ns = ns → e.room = some r → e.sid = r) :
    ∃ G : Host → Host,
      (step (c.on hv.id (fun h => apiEmit h true ev d ns (.one r) skip (some tok))).1 .drain).1.hosts =
        c.hosts.map G ∧
      (∀ h ∈ c.hosts, (G h).id = h.id ∧
        (G h).cbs = (relayIf r ns skip.toList (.relay (some hv.id) r ns (hv.ctr r + 1)) (userIf hv.id r tok h)).cbs ∧
        (G h).ctr = (relayIf r ns skip.toList (.relay (some hv.id) r ns (hv.ctr r + 1)) (userIf hv.id r tok h)).ctr) ∧
      (∀ h ∈ (step (c.on hv.id (fun h => apiEmit h true ev d ns (.one r) skip (some tok))).1 .drain).1.hosts,
        h.cursor =
          (step (c.on hv.id (fun h => apiEmit h true ev d ns (.one r) skip (some tok))).1 .drain).1.chan.length) ∧
      cbEvents ((c.on hv.id (fun h => apiEmit h true ev d ns (.one r) skip (some tok))).2 ++
        (step (c.on hv.id (fun h => apiEmit h true ev d ns (.one r) skip (some tok))).1 .drain).2) = [] ∧
      (step (c.on hv.id (fun h => apiEmit h true ev d ns (.one r) skip (some tok))).1 .drain).1.asked =
        c.asked ++ askedIn ((c.on hv.id (fun h => apiEmit h true ev d ns (.one r) skip (some tok))).2 ++
          (step (c.on hv.id (fun h => apiEmit h true ev d ns (.one r) skip (some tok))).1 .drain).2) ∧
      askedIn ((c.on hv.id (fun h => apiEmit h true ev d ns (.one r) skip (some tok))).2 ++
          (step (c.on hv.id (fun h => apiEmit h true ev d ns (.one r) skip (some tok))).1 .drain).2) =
        (if r ∈ (recipients hv.rooms ns (.one r) skip.toList).map Prod.fst then [(r, hv.ctr r + 2)] else []) ++
        c.hosts.flatMap (fun h => if h.id = hv.id then [] else
          if r ∈ (recipients h.rooms ns (.one r) skip.toList).map Prod.fst then [(r, h.ctr r + 1)] else []) := by
  -- the relay and the entry on the channel
  let relay : Cb := .relay (some hv.id) r ns (hv.ctr r + 1)
  let m : Msg := .emit hv.id ev d ns (.one r) skip (some (r, ns, hv.ctr r + 1))
  have hf : ∀ h : Host, apiEmit h true ev d ns (.one r) skip (some tok) = _ :=
    fun h => apiEmit_cb h ev d ns r skip tok
  have hcur : ∀ h ∈ c.hosts, (apiEmit h true ev d ns (.one r) skip (some tok)).h.cursor = h.cursor := by
    intro h _
    rw [hf]
    exact (emitLocal_rooms _ _ _ _ _ _ _).2.2
  -- the issuing host
  have hv1 := emitLocal_relayIf (register hv r (.user tok)).1 (hinv hv hin) ns r skip.toList (.str ev) d.pack
    relay (hpers hv hin)
  have hfvh : (apiEmit hv true ev d ns (.one r) skip (some tok)).h =
      relayIf r ns skip.toList relay (userIf hv.id r tok hv) := by
    rw [hf]
    show (emitLocal (register hv r (.user tok)).1 ns (.one r) skip.toList (.str ev) d.pack (some relay)).1 = _
    rw [hv1.1]
    simp only [userIf, if_true]
  have hfvid : (apiEmit hv true ev d ns (.one r) skip (some tok)).h.id = hv.id := by
    rw [hf]; exact (emitLocal_rooms _ _ _ _ _ _ _).2.1
  have hp : (apiEmit hv true ev d ns (.one r) skip (some tok)).pubs = [m] := by rw [hf]
  -- what every host does with the entry
  have hlm : ∀ h ∈ c.hosts,
      (listenMsg (if h.id = hv.id then (apiEmit h true ev d ns (.one r) skip (some tok)).h else h) m).h =
        relayIf r ns skip.toList relay (userIf hv.id r tok h) ∧
      (listenMsg (if h.id = hv.id then (apiEmit h true ev d ns (.one r) skip (some tok)).h else h) m).pubs = [] ∧
      cbEvents (listenMsg (if h.id = hv.id then (apiEmit h true ev d ns (.one r) skip (some tok)).h else h) m).outs = [] ∧
      askedIn (listenMsg (if h.id = hv.id then (apiEmit h true ev d ns (.one r) skip (some tok)).h else h) m).outs =
        (if h.id = hv.id then [] else
          if r ∈ (recipients h.rooms ns (.one r) skip.toList).map Prod.fst then [(r, h.ctr r + 1)] else []) := by
    intro h hh
    by_cases hid : h.id = hv.id
    · have : h = hv := eq_of_id_eq hnd hh hin hid
      subst this
      rw [if_pos rfl, if_pos rfl]
      rw [listenMsg_own _ m rfl (by show some h.id = some _; rw [hfvid])]
      exact ⟨hfvh, rfl, rfl, rfl⟩
    · rw [if_neg hid, if_neg hid]
      have ho : hv.id ≠ h.id := fun e => hid e.symm
      have hd := dispatch_emit h hv.id ev d ns (.one r) skip (some (r, ns, hv.ctr r + 1)) ho trivial
      rw [listenMsg_eq_dispatch (by rw [hd]), hd]
      have he := emitLocal_relayIf h (hinv h hh) ns r skip.toList (.str ev) d.pack relay (hpers h hh)
      refine ⟨?_, rfl, he.2.1, he.2.2⟩
      show (emitLocal h ns (.one r) skip.toList (.str ev) d.pack (some relay)).1 = _
      rw [he.1]
      simp only [userIf, if_neg hid]
  obtain ⟨e1, e2, e3, e4, _⟩ := on_drain_full c hnd hdr hv hin
    (fun h => apiEmit h true ev d ns (.one r) skip (some tok)) hcur
    (by intro h hh
        show (catchUp _ (apiEmit hv true ev d ns (.one r) skip (some tok)).pubs).pubs = []
        rw [hp, (catchUp_one _ _).2.2]; exact (hlm h hh).2.1)
  simp only [hp] at e1 e2 e3 e4
  refine ⟨_, e1, ?_, ?_, ?_, by rw [e3, e4], ?_⟩
  · intro h hh
    simp only [(catchUp_one _ _).1]
    rw [(hlm h hh).1]
    have hu := userIf_rooms hv.id r tok h
    refine ⟨?_, rfl, rfl⟩
    unfold relayIf
    split
    · exact hu.2
    · exact hu.2
  · intro h' hh'
    rw [e1] at hh'
    obtain ⟨h, _, rfl⟩ := List.mem_map.mp hh'
    rw [e2]; simp
  · rw [e4, cbEvents_append]
    have h1 : cbEvents (apiEmit hv true ev d ns (.one r) skip (some tok)).outs = [] := by
      rw [hf]; exact hv1.2.1
    rw [h1]
    refine cbEvents_flatMap_nil _ _ (fun h hh => ?_)
    rw [(catchUp_one _ _).2.1]
    exact (hlm h hh).2.2.1
  · rw [e4, askedIn_append, askedIn_flatMap]
    congr 1
    · rw [hf]
      show askedIn (emitLocal (register hv r (.user tok)).1 ns (.one r) skip.toList (.str ev) d.pack (some relay)).2 = _
      rw [hv1.2.2]
      simp [register_ctr]
      rfl
    · apply flatMap_congr'
      intro h hh
      rw [(catchUp_one _ _).2.1]
      exact (hlm h hh).2.2.2

end ops

/-! #### registering on the abstract tables -/

def regC (C : HostId → Nat → Option Cb) (N : HostId → Nat) (v : HostId) (cb : Cb) :
    HostId → Nat → Option Cb :=
  fun o i => if o = v ∧ i = N v + 1 then some cb else C o i

def regN (N : HostId → Nat) (v : HostId) : HostId → Nat := fun o => if o = v then N v + 1 else N o

theorem reg_bound {C : HostId → Nat → Option Cb} {N : HostId → Nat} (hb : ∀ o i, C o i ≠ none → i ≤ N o)
    (v : HostId) (cb : Cb) : ∀ o i, regC C N v cb o i ≠ none → i ≤ regN N v o := by
  intro o i hne
  simp only [regC, regN] at hne ⊢
  split at hne
  · rename_i h; obtain ⟨rfl, rfl⟩ := h; simp
  · have := hb o i hne
    split
    · rename_i h; subst h; omega
    · exact this

theorem regN_le (N : HostId → Nat) (v o : HostId) : N o ≤ regN N v o := by
  simp only [regN]; split
  · rename_i h; subst h; omega
  · exact Nat.le_refl _

/-- `C o`, `N o` describe the table of `g` under key `x` -/
def RepAt (C : HostId → Nat → Option Cb) (N : HostId → Nat) (x : Str) (o : HostId) (g : Host) : Prop :=
  (∀ i, C o i = g.cbs x i) ∧ N o = g.ctr x

theorem RepAt.reg {C : HostId → Nat → Option Cb} {N : HostId → Nat} {x : Str} {o : HostId} {g : Host}
    (h : RepAt C N x o g) (v : HostId) (cb : Cb) :
    RepAt (regC C N v cb) (regN N v) x o (if o = v then (register g x cb).1 else g) := by
  by_cases ho : o = v
  · subst ho
    rw [if_pos rfl]
    refine ⟨fun i => ?_, ?_⟩
    · simp only [regC, register_cbs, true_and, h.2, h.1 i]
    · simp only [regN, register_ctr, if_true, h.2]
  · rw [if_neg ho]
    refine ⟨fun i => ?_, ?_⟩
    · simp only [regC, ho, false_and, if_false, h.1 i]
    · simp only [regN, ho, if_false, h.2]

theorem Rep.of_pointwise {hosts : List Host} {x : Str} {C : HostId → Nat → Option Cb} {N : HostId → Nat}
    (G : Host → Host) (hGid : ∀ h ∈ hosts, (G h).id = h.id)
    (h1 : ∀ h ∈ hosts, RepAt C N x h.id (G h))
    (h2 : ∀ o, o ∉ hosts.map Host.id → ∀ i, C o i = none) : Rep (hosts.map G) x C N := by
  refine ⟨?_, ?_⟩
  · intro h' hh'
    obtain ⟨h, hh, rfl⟩ := List.mem_map.mp hh'
    rw [hGid h hh]
    exact h1 h hh
  · rw [map_id_eq hGid]; exact h2

theorem register_ne (h : Host) (k : Str) (cb : Cb) {y : Str} (hy : y ≠ k) :
    (register h k cb).1.cbs y = h.cbs y ∧ (register h k cb).1.ctr y = h.ctr y := by
  refine ⟨?_, ?_⟩
  · funext i; simp [register_cbs, hy]
  · simp [register_ctr, hy]

theorem userIf_ne (v : HostId) (r : Room) (tok : Nat) (h : Host) {y : Str} (hy : y ≠ r) :
    (userIf v r tok h).cbs y = h.cbs y ∧ (userIf v r tok h).ctr y = h.ctr y := by
  unfold userIf; split
  · exact register_ne h r _ hy
  · exact ⟨rfl, rfl⟩

theorem relayIf_ne (r : Room) (ns : Ns) (skip : List Sid) (cb : Cb) (h : Host) {y : Str} (hy : y ≠ r) :
    (relayIf r ns skip cb h).cbs y = h.cbs y ∧ (relayIf r ns skip cb h).ctr y = h.ctr y := by
  unfold relayIf; split
  · exact register_ne h r _ hy
  · exact ⟨rfl, rfl⟩

theorem userIf_bounded {h : Host} (hb : h.Bounded) (v : HostId) (r : Room) (tok : Nat) :
    (userIf v r tok h).Bounded := by
  unfold userIf; split
  · exact register_bounded hb _ _
  · exact hb

theorem relayIf_bounded {h : Host} (hb : h.Bounded) (r : Room) (ns : Ns) (skip : List Sid) (cb : Cb) :
    (relayIf r ns skip cb h).Bounded := by
  unfold relayIf; split
  · exact register_bounded hb _ _
  · exact hb

end Sio.PubSub
