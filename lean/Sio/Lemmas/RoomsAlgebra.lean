/-
  Algebraic laws of the abstract room specification (`Spec.apply`): idempotence of enter / leave and
  commutation of enters.  Lifted to the manager model in `Sio/Props/C03.lean` through `refines`.
-/
import Sio.Lemmas.RoomsHist
namespace Sio.Rooms


theorem Spec_enter_idem (σ : Spec) (ns : Ns) (sid : Sid) (r : Room) :
    (σ.apply (.enter ns sid r)).apply (.enter ns sid r) = σ.apply (.enter ns sid r) := by
  simp only [Spec.apply]
  by_cases hc : (σ.conn ns sid).isSome
  · simp only [hc, if_true]
    congr 1
    funext n r' x
    by_cases h : n = ns ∧ r' = some r ∧ x = sid <;> simp [h]
  · simp [hc]

theorem Spec_leave_idem (σ : Spec) (ns : Ns) (sid : Sid) (r : Room) :
    (σ.apply (.leave ns sid r)).apply (.leave ns sid r) = σ.apply (.leave ns sid r) := by
  simp only [Spec.apply]
  congr 1
  funext n r' x
  by_cases h : n = ns ∧ r' = some r ∧ x = sid <;> simp [h]

theorem Spec_enter_comm (σ : Spec) (ns ns' : Ns) (sid sid' : Sid) (r r' : Room) :
    (σ.apply (.enter ns sid r)).apply (.enter ns' sid' r')
      = (σ.apply (.enter ns' sid' r')).apply (.enter ns sid r) := by
  simp only [Spec.apply]
  by_cases hc : (σ.conn ns sid).isSome <;> by_cases hc' : (σ.conn ns' sid').isSome <;>
    simp only [hc, hc', if_true]
  · congr 1
    funext n q x
    by_cases h : n = ns ∧ q = some r ∧ x = sid <;>
      by_cases h' : n = ns' ∧ q = some r' ∧ x = sid' <;> simp [h, h']
  all_goals simp [hc, hc']


theorem Spec_enter_leave (σ : Spec) (ns : Ns) (sid : Sid) (r : Room) :
    (σ.apply (.enter ns sid r)).apply (.leave ns sid r) = σ.apply (.leave ns sid r) := by
  simp only [Spec.apply]
  by_cases hc : (σ.conn ns sid).isSome
  · simp only [hc, if_true]
    congr 1
    funext n r' x
    by_cases h : n = ns ∧ r' = some r ∧ x = sid <;> simp [h]
  · simp [hc]

theorem Spec_leave_enter (σ : Spec) (ns : Ns) (sid : Sid) (r : Room)
    (hc : (σ.conn ns sid).isSome = true) :
    (σ.apply (.leave ns sid r)).apply (.enter ns sid r) = σ.apply (.enter ns sid r) := by
  simp only [Spec.apply, hc, if_true]
  congr 1
  funext n r' x
  by_cases h : n = ns ∧ r' = some r ∧ x = sid <;> simp [h]

theorem Spec_close_idem (σ : Spec) (ns : Ns) (r : Room) :
    (σ.apply (.closeRoom ns r)).apply (.closeRoom ns r) = σ.apply (.closeRoom ns r) := by
  simp only [Spec.apply]
  congr 1
  funext n r' x
  by_cases h : n = ns ∧ r' = some r <;> simp [h]

theorem Spec_disconnect_idem (σ : Spec) (ns : Ns) (sid : Sid) :
    (σ.apply (.disconnect ns sid)).apply (.disconnect ns sid) = σ.apply (.disconnect ns sid) := by
  simp only [Spec.apply]
  congr 1
  · funext n r' x
    by_cases h : n = ns ∧ x = sid <;> simp [h]
  · funext n x
    by_cases h : n = ns ∧ x = sid <;> simp [h]
  · funext n e
    simp

end Sio.Rooms
