/-
  Lemmas for K5 (Sio/Model/Sched.lean): the phase invariant of one (sid, namespace) under any
  number of concurrent terminating tasks, preserved by every admissible step.
-/
import Sio.Model.Sched
namespace Sio.Sched

/-! ## counting tasks per namespace and position -/

/-- position class of task `t` with respect to namespace `n`:
    1 = in the gate window (passed `check`, before `mark`), 2 = marked, handler not yet invoked
    (`send`/`handler`), 3 = handler invoked, before `manager.disconnect` (`cleanup`), 0 = anything
    else (including: working on another namespace). -/
def cls (n : Ns) (t : Task) : Nat :=
  match t.todo with
  | m :: _ =>
    if m = n then
      match t.pc with
      | .mark => 1
      | .send => 2
      | .handler => 2
      | .cleanup => 3
      | _ => 0
    else 0
  | [] => 0

def cnt (st : St) (n : Ns) (k : Nat) : Nat := st.tasks.countP (fun t => cls n t == k)

/-- the five phases of a (sid, namespace); `m0` = the sid was connected to it at the start -/
def Phase (m0 mem : Bool) (pend calls w a b : Nat) : Prop :=
  (m0 = true ∧ mem = true ∧ pend = 0 ∧ calls = 0 ∧ w ≤ 1 ∧ a = 0 ∧ b = 0) ∨
  (m0 = true ∧ mem = true ∧ pend = 1 ∧ calls = 0 ∧ w = 0 ∧ a = 1 ∧ b = 0) ∨
  (m0 = true ∧ mem = true ∧ pend = 1 ∧ calls = 1 ∧ w = 0 ∧ a = 0 ∧ b = 1) ∨
  (m0 = true ∧ mem = false ∧ pend = 0 ∧ calls = 1 ∧ w = 0 ∧ a = 0 ∧ b = 0) ∨
  (m0 = false ∧ mem = false ∧ pend = 0 ∧ calls = 0 ∧ w = 0 ∧ a = 0 ∧ b = 0)

/-- The invariant ("four phases" of a connected sid — untouched, marked, handler ran, ended — plus
    the trivial one of a namespace the sid was never connected to): nobody raised, nothing was
    swallowed, and for every namespace the shared variables and the number of tasks at each
    position are in one of the phases. -/
structure Inv (m0 : Ns → Bool) (st : St) : Prop where
  noRaise : ∀ t ∈ st.tasks, t.pc ≠ .raised
  noContained : st.sh.contained = 0
  phase : ∀ n, Phase (m0 n) (st.sh.mem n) (st.sh.pend n) (ncalls st n)
            (cnt st n 1) (cnt st n 2) (cnt st n 3)

def noMark (st : St) : Prop := ∀ t ∈ st.tasks, t.pc ≠ .mark

theorem countP_set_some {α : Type} (p : α → Bool) (l : List α) (i : Nat) (t t' : α)
    (h : l[i]? = some t) :
    (l.set i t').countP p + (if p t then 1 else 0) = l.countP p + (if p t' then 1 else 0) := by
  obtain ⟨hi, rfl⟩ := List.getElem?_eq_some_iff.mp h
  rw [List.countP_set hi]
  have := List.boole_getElem_le_countP (p := p) hi
  omega

theorem cnt_set (st : St) (i : Nat) (t t' : Task) (sh' : Shared) (h : st.tasks[i]? = some t)
    (n : Ns) (k : Nat) :
    cnt { tasks := st.tasks.set i t', sh := sh' } n k + (if cls n t = k then 1 else 0)
      = cnt st n k + (if cls n t' = k then 1 else 0) := by
  have := countP_set_some (fun u => cls n u == k) st.tasks i t t' h
  simpa [cnt] using this

theorem mem_of_getElem? {α : Type} {l : List α} {i : Nat} {t : α} (h : l[i]? = some t) : t ∈ l :=
  List.mem_of_getElem? h

theorem cnt_pos (st : St) (i : Nat) (t : Task) (h : st.tasks[i]? = some t) (n : Ns) :
    1 ≤ cnt st n (cls n t) := by
  unfold cnt
  exact List.countP_pos_iff.mpr ⟨t, mem_of_getElem? h, by simp⟩

theorem mem_set_cases {α : Type} {l : List α} {i : Nat} {x u : α} (h : u ∈ l.set i x) :
    u ∈ l ∨ u = x := by
  rcases List.mem_or_eq_of_mem_set h with h | h
  · exact Or.inl h
  · exact Or.inr h

/-! ## the step lemma

  One lemma per shape of the executed step: the scheduled task moves from class `c` to class `c'`
  of its current namespace `n` (class 0 of every other namespace before and after), the shared
  variables change at `n` only. -/

theorem cls_other (n m : Ns) (t : Task) (rest : List Ns) (h : t.todo = m :: rest) (hne : n ≠ m) :
    cls n t = 0 := by
  simp [cls, h, Ne.symm hne]

theorem cls_advance (n : Ns) (t : Task) (rest : List Ns) : cls n (advance t rest) = 0 := by
  unfold advance cls
  cases rest with
  | nil => simp
  | cons m r => simp

theorem cls_pc (n : Ns) (t : Task) (p : Pc) (rest : List Ns) (h : t.todo = n :: rest) :
    cls n { t with pc := p } =
      match p with | .mark => 1 | .send => 2 | .handler => 2 | .cleanup => 3 | _ => 0 := by
  simp [cls, h]

theorem cls_pc_other (n m : Ns) (t : Task) (p : Pc) (rest : List Ns) (h : t.todo = m :: rest)
    (hne : n ≠ m) : cls n { t with pc := p } = 0 := by
  simp [cls, h, Ne.symm hne]

theorem cls_afterMark (n : Ns) (t : Task) (rest : List Ns) (h : t.todo = n :: rest) :
    cls n { t with pc := afterMark t.kind } = 2 := by
  cases hk : t.kind <;> simp [cls, h, afterMark]

theorem afterMark_ne_raised (k : Kind) : afterMark k ≠ .raised := by cases k <;> simp [afterMark]
theorem afterMark_ne_mark (k : Kind) : afterMark k ≠ .mark := by cases k <;> simp [afterMark]

theorem advance_pc_ne_raised (t : Task) (rest : List Ns) : (advance t rest).pc ≠ .raised := by
  unfold advance; split <;> simp

theorem advance_pc_ne_mark (t : Task) (rest : List Ns) : (advance t rest).pc ≠ .mark := by
  unfold advance; split <;> simp

/-- generic re-establishment of `Inv` after task i was replaced and the shared state changed at
    namespace `n` only -/
theorem inv_update (m0 : Ns → Bool) (st : St) (i : Nat) (t t' : Task) (sh' : Shared) (n : Ns)
    (hI : Inv m0 st) (hi : st.tasks[i]? = some t)
    (hpc : t'.pc ≠ .raised) (hcont : sh'.contained = 0)
    (hcls : ∀ n', n' ≠ n → cls n' t = 0 ∧ cls n' t' = 0)
    (hsh : ∀ n', n' ≠ n → sh'.mem n' = st.sh.mem n' ∧ sh'.pend n' = st.sh.pend n' ∧
              sh'.calls n' = st.sh.calls n')
    (hn : Phase (m0 n) (sh'.mem n) (sh'.pend n) (sh'.calls n).length
            (cnt { tasks := st.tasks.set i t', sh := sh' } n 1)
            (cnt { tasks := st.tasks.set i t', sh := sh' } n 2)
            (cnt { tasks := st.tasks.set i t', sh := sh' } n 3)) :
    Inv m0 { tasks := st.tasks.set i t', sh := sh' } := by
  refine ⟨?_, hcont, ?_⟩
  · intro u hu
    rcases mem_set_cases hu with hu | rfl
    · exact hI.noRaise u hu
    · exact hpc
  · intro n'
    by_cases hnn : n' = n
    · subst hnn; exact hn
    · have h1 := cnt_set st i t t' sh' hi n' 1
      have h2 := cnt_set st i t t' sh' hi n' 2
      have h3 := cnt_set st i t t' sh' hi n' 3
      obtain ⟨c0, c0'⟩ := hcls n' hnn
      obtain ⟨e1, e2, e3⟩ := hsh n' hnn
      have hp := hI.phase n'
      simp only [c0, c0'] at h1 h2 h3
      simp at h1 h2 h3
      simp only [ncalls, e1, e2, e3, h1, h2, h3] at hp ⊢
      exact hp

theorem upd_same {α : Type} (f : Ns → α) (n : Ns) (v : α) : upd f n v n = v := by simp [upd]
theorem upd_other {α : Type} (f : Ns → α) (n n' : Ns) (v : α) (h : n' ≠ n) : upd f n v n' = f n' := by
  simp [upd, h]

/-- task i stays the same and nothing shared changes -/
theorem inv_noop (m0 : Ns → Bool) (st : St) (i : Nat) (t : Task) (hI : Inv m0 st)
    (hi : st.tasks[i]? = some t) : Inv m0 { tasks := st.tasks.set i t, sh := st.sh } := by
  have : st.tasks.set i t = st.tasks := by
    obtain ⟨hlt, rfl⟩ := List.getElem?_eq_some_iff.mp hi
    simp
  rw [this]; exact hI

/-- a task whose classes are all 0 before and after (conn tasks, failed checks) -/
theorem inv_neutral (m0 : Ns → Bool) (st : St) (i : Nat) (t t' : Task) (hI : Inv m0 st)
    (hi : st.tasks[i]? = some t) (hpc : t'.pc ≠ .raised)
    (h0 : ∀ n, cls n t = 0) (h0' : ∀ n, cls n t' = 0) :
    Inv m0 { tasks := st.tasks.set i t', sh := st.sh } := by
  refine ⟨?_, hI.noContained, ?_⟩
  · intro u hu
    rcases mem_set_cases hu with hu | rfl
    · exact hI.noRaise u hu
    · exact hpc
  · intro n
    have h1 := cnt_set st i t t' st.sh hi n 1
    have h2 := cnt_set st i t t' st.sh hi n 2
    have h3 := cnt_set st i t t' st.sh hi n 3
    have hp := hI.phase n
    simp only [h0, h0'] at h1 h2 h3
    simp at h1 h2 h3
    simp only [ncalls, h1, h2, h3] at hp ⊢
    exact hp

theorem cls_of_pc_zero (n : Ns) (t : Task)
    (h : t.pc ≠ .mark ∧ t.pc ≠ .send ∧ t.pc ≠ .handler ∧ t.pc ≠ .cleanup) : cls n t = 0 := by
  unfold cls
  split
  · split
    · obtain ⟨h1, h2, h3, h4⟩ := h
      cases hp : t.pc <;> simp_all
    · rfl
  · rfl

theorem inWindow_eq (n : Ns) (t : Task) : inWindow n t = (cls n t == 1) := by
  unfold inWindow cls
  cases htd : t.todo with
  | nil => simp
  | cons m r =>
    by_cases hm : m = n
    · subst hm; cases hp : t.pc <;> simp
    · cases hp : t.pc <;> simp [hm]

theorem noMark_cnt (st : St) (h : noMark st) (n : Ns) : cnt st n 1 = 0 := by
  unfold cnt
  apply List.countP_eq_zero.mpr
  intro t ht
  have := h t ht
  simp
  unfold cls
  split
  · split
    · cases hp : t.pc <;> simp_all
    · simp
  · simp

/-! ## phase transitions (pure arithmetic) -/

theorem phase_frame {m0 mem : Bool} {pend calls w a b w' a' b' : Nat}
    (h : Phase m0 mem pend calls w a b) (hw : w' = w) (ha : a' = a) (hb : b' = b) :
    Phase m0 mem pend calls w' a' b' := by subst hw ha hb; exact h

theorem phase_window {m0 : Bool} {c w a b w' a' b' : Nat}
    (h : Phase m0 true 0 c w a b) (hw0 : w = 0) (hw : w' = 1) (ha : a' = a) (hb : b' = b) :
    Phase m0 true 0 c w' a' b' := by
  cases m0 <;> simp [Phase] at h ⊢ <;> omega

theorem phase_mark {m0 : Bool} {c w a b w' a' b' : Nat}
    (h : Phase m0 true 0 c w a b) (hw : w' = 0) (ha : a' = a + 1) (hb : b' = b) :
    Phase m0 true 1 c w' a' b' := by
  cases m0 <;> simp [Phase] at h ⊢ <;> omega

theorem phase_of_window {m0 mem : Bool} {p c w a b : Nat}
    (h : Phase m0 mem p c w a b) (hpos : 1 ≤ w) : mem = true ∧ p = 0 ∧ w = 1 := by
  cases m0 <;> cases mem <;> simp [Phase] at h ⊢ <;> omega

theorem phase_handler {m0 mem : Bool} {p c w a b w' a' b' : Nat}
    (h : Phase m0 mem p c w a b) (hpos : 1 ≤ a) (hw : w' = w) (ha : a' + 1 = a) (hb : b' = b + 1) :
    Phase m0 mem p (c + 1) w' a' b' := by
  cases m0 <;> cases mem <;> simp [Phase] at h ⊢ <;> omega

theorem phase_cleanup {m0 mem : Bool} {p c w a b w' a' b' : Nat}
    (h : Phase m0 mem p c w a b) (hpos : 1 ≤ b) (hw : w' = w) (ha : a' = a) (hb : b' + 1 = b) :
    mem = true ∧ Phase m0 false (p - 1) c w' a' b' := by
  cases m0 <;> cases mem <;> simp [Phase] at h ⊢ <;> omega

/-! ## the step lemma -/

/-- `manager.pre_disconnect` executed while the namespace is untouched and no OTHER task is in
    the gate window -/
theorem inv_mark (m0 : Ns → Bool) (st : St) (i : Nat) (k : Kind) (p : Pc) (n : Ns) (rest : List Ns)
    (hI : Inv m0 st) (hi : st.tasks[i]? = some ⟨k, n :: rest, p⟩)
    (hmem : st.sh.mem n = true) (hpend : st.sh.pend n = 0)
    (hw : cnt st n 1 = (if cls n ⟨k, n :: rest, p⟩ = 1 then 1 else 0))
    (hc : cls n ⟨k, n :: rest, p⟩ = 0 ∨ cls n ⟨k, n :: rest, p⟩ = 1) :
    Inv m0 { tasks := st.tasks.set i (markStep st.sh ⟨k, n :: rest, p⟩ n rest).1,
             sh := (markStep st.sh ⟨k, n :: rest, p⟩ n rest).2 } := by
  have halive : alive st.sh n = true := by simp [alive, hmem]
  simp only [markStep, halive, if_true]
  apply inv_update m0 st i _ _ _ n hI hi
  · exact afterMark_ne_raised _
  · exact hI.noContained
  · intro n' hne
    exact ⟨by simp [cls, Ne.symm hne], by simp [cls, Ne.symm hne]⟩
  · intro n' hne
    simp [upd_other _ _ _ _ hne]
  · have h1 := cnt_set st i _ ⟨k, n :: rest, afterMark k⟩
      { st.sh with pend := upd st.sh.pend n (st.sh.pend n + 1) } hi n 1
    have h2 := cnt_set st i _ ⟨k, n :: rest, afterMark k⟩
      { st.sh with pend := upd st.sh.pend n (st.sh.pend n + 1) } hi n 2
    have h3 := cnt_set st i _ ⟨k, n :: rest, afterMark k⟩
      { st.sh with pend := upd st.sh.pend n (st.sh.pend n + 1) } hi n 3
    have hc2 : cls n ⟨k, n :: rest, afterMark k⟩ = 2 := by cases k <;> simp [cls, afterMark]
    rw [hc2] at h1 h2 h3
    have hp := hI.phase n
    simp only [ncalls, hmem, hpend] at hp
    simp only [upd_same, hpend, hmem]
    apply phase_mark hp
    · rcases hc with hc | hc <;> simp [hc] at h1 hw <;> omega
    · rcases hc with hc | hc <;> simp [hc] at h2 <;> omega
    · rcases hc with hc | hc <;> simp [hc] at h3 <;> omega

theorem step_inv (atomic : Bool) (m0 : Ns → Bool) (st : St) (i : Nat) (hI : Inv m0 st)
    (hadm : admissible st i = true) (hat : atomic = true → noMark st) :
    Inv m0 (step atomic st i) := by
  unfold step
  cases hi : st.tasks[i]? with
  | none => exact hI
  | some t =>
    obtain ⟨k, todo, pc⟩ := t
    simp only
    cases pc with
    | chandler =>
      simp only [stepTask]
      exact inv_neutral m0 st i _ _ hI hi (by simp)
        (fun n => cls_of_pc_zero n _ (by simp)) (fun n => cls_of_pc_zero n _ (by simp))
    | csend =>
      simp only [stepTask]
      exact inv_neutral m0 st i _ _ hI hi (by simp)
        (fun n => cls_of_pc_zero n _ (by simp)) (fun n => cls_of_pc_zero n _ (by simp))
    | done =>
      have : stepTask atomic st.sh ⟨k, todo, .done⟩ = (⟨k, todo, .done⟩, st.sh) := by
        unfold stepTask; simp
      rw [this]; exact inv_noop m0 st i _ hI hi
    | raised =>
      have : stepTask atomic st.sh ⟨k, todo, .raised⟩ = (⟨k, todo, .raised⟩, st.sh) := by
        unfold stepTask; simp
      rw [this]; exact inv_noop m0 st i _ hI hi
    | check =>
      cases todo with
      | nil =>
        simp only [stepTask]
        exact inv_neutral m0 st i _ _ hI hi (by simp)
          (fun n => cls_of_pc_zero n _ (by simp)) (fun n => cls_of_pc_zero n _ (by simp))
      | cons n rest =>
        simp only [stepTask]
        have hc0 : ∀ n', cls n' ⟨k, n :: rest, .check⟩ = 0 :=
          fun n' => cls_of_pc_zero n' _ (by simp)
        by_cases hconn : connected st.sh n = true
        · simp only [hconn, if_true]
          have hmem : st.sh.mem n = true := by
            simp [connected] at hconn; exact hconn.1
          have hpend : st.sh.pend n = 0 := by
            simp [connected] at hconn; exact hconn.2
          cases atomic with
          | true =>
            simp only [if_true]
            exact inv_mark m0 st i k .check n rest hI hi hmem hpend
              (by rw [noMark_cnt st (hat rfl) n, hc0 n]; simp) (Or.inl (hc0 n))
          | false =>
            simp only [Bool.false_eq_true, if_false]
            have hw0 : cnt st n 1 = 0 := by
              have := hadm
              simp only [admissible, hi] at this
              have h2 : st.tasks.countP (inWindow n) = 0 := by simpa using this
              unfold cnt
              rw [← h2]; congr; funext u; exact (inWindow_eq n u).symm
            apply inv_update m0 st i _ _ _ n hI hi (by simp) hI.noContained
            · intro n' hne
              exact ⟨hc0 n', by simp [cls, Ne.symm hne]⟩
            · intro n' _; exact ⟨rfl, rfl, rfl⟩
            · have h1 := cnt_set st i _ ⟨k, n :: rest, .mark⟩ st.sh hi n 1
              have h2 := cnt_set st i _ ⟨k, n :: rest, .mark⟩ st.sh hi n 2
              have h3 := cnt_set st i _ ⟨k, n :: rest, .mark⟩ st.sh hi n 3
              have hc1 : cls n ⟨k, n :: rest, .mark⟩ = 1 := by simp [cls]
              rw [hc1, hc0 n] at h1 h2 h3
              simp at h1 h2 h3
              have hph := hI.phase n
              simp only [ncalls, hmem, hpend] at hph
              simp only [hmem, hpend]
              exact phase_window hph hw0 (by omega) h2 h3
        · simp only [hconn]
          exact inv_neutral m0 st i _ _ hI hi (advance_pc_ne_raised _ _) hc0
            (fun n' => cls_advance n' _ rest)
    | mark =>
      cases todo with
      | nil =>
        have : stepTask atomic st.sh ⟨k, [], .mark⟩ = (⟨k, [], .mark⟩, st.sh) := by
          unfold stepTask; simp
        rw [this]; exact inv_noop m0 st i _ hI hi
      | cons n rest =>
        simp only [stepTask]
        have hc1 : cls n ⟨k, n :: rest, .mark⟩ = 1 := by simp [cls]
        have hpos := cnt_pos st i _ hi n
        rw [hc1] at hpos
        have hfresh := phase_of_window (hI.phase n) hpos
        exact inv_mark m0 st i k .mark n rest hI hi hfresh.1 hfresh.2.1
          (by rw [hfresh.2.2, hc1]; simp) (Or.inr hc1)
    | send =>
      cases todo with
      | nil =>
        have : stepTask atomic st.sh ⟨k, [], .send⟩ = (⟨k, [], .send⟩, st.sh) := by
          unfold stepTask; simp
        rw [this]; exact inv_noop m0 st i _ hI hi
      | cons n rest =>
        simp only [stepTask]
        apply inv_update m0 st i _ _ _ n hI hi (by simp) hI.noContained
        · intro n' hne
          exact ⟨by simp [cls, Ne.symm hne], by simp [cls, Ne.symm hne]⟩
        · intro n' _; exact ⟨rfl, rfl, rfl⟩
        · have h1 := cnt_set st i _ ⟨k, n :: rest, .handler⟩
            { st.sh with sends := upd st.sh.sends n (st.sh.sends n + 1) } hi n 1
          have h2 := cnt_set st i _ ⟨k, n :: rest, .handler⟩
            { st.sh with sends := upd st.sh.sends n (st.sh.sends n + 1) } hi n 2
          have h3 := cnt_set st i _ ⟨k, n :: rest, .handler⟩
            { st.sh with sends := upd st.sh.sends n (st.sh.sends n + 1) } hi n 3
          simp [cls] at h1 h2 h3
          have hph := hI.phase n
          simp only [ncalls] at hph
          exact phase_frame hph h1 h2 h3
    | handler =>
      cases todo with
      | nil =>
        have : stepTask atomic st.sh ⟨k, [], .handler⟩ = (⟨k, [], .handler⟩, st.sh) := by
          unfold stepTask; simp
        rw [this]; exact inv_noop m0 st i _ hI hi
      | cons n rest =>
        simp only [stepTask]
        have hc : cls n ⟨k, n :: rest, .handler⟩ = 2 := by simp [cls]
        have hpos := cnt_pos st i _ hi n
        rw [hc] at hpos
        apply inv_update m0 st i _ _ _ n hI hi (by simp) hI.noContained
        · intro n' hne
          exact ⟨by simp [cls, Ne.symm hne], by simp [cls, Ne.symm hne]⟩
        · intro n' hne
          simp [upd_other _ _ _ _ hne]
        · have h1 := cnt_set st i _ ⟨k, n :: rest, .cleanup⟩
            { st.sh with calls := upd st.sh.calls n (k :: st.sh.calls n) } hi n 1
          have h2 := cnt_set st i _ ⟨k, n :: rest, .cleanup⟩
            { st.sh with calls := upd st.sh.calls n (k :: st.sh.calls n) } hi n 2
          have h3 := cnt_set st i _ ⟨k, n :: rest, .cleanup⟩
            { st.sh with calls := upd st.sh.calls n (k :: st.sh.calls n) } hi n 3
          simp [cls] at h1 h2 h3
          have hph := hI.phase n
          simp only [ncalls] at hph
          simp only [upd_same, List.length_cons]
          exact phase_handler hph hpos h1 h2 h3
    | cleanup =>
      cases todo with
      | nil =>
        have : stepTask atomic st.sh ⟨k, [], .cleanup⟩ = (⟨k, [], .cleanup⟩, st.sh) := by
          unfold stepTask; simp
        rw [this]; exact inv_noop m0 st i _ hI hi
      | cons n rest =>
        simp only [stepTask]
        have hc : cls n ⟨k, n :: rest, .cleanup⟩ = 3 := by simp [cls]
        have hpos := cnt_pos st i _ hi n
        rw [hc] at hpos
        have hph := hI.phase n
        simp only [ncalls] at hph
        have h1 := cnt_set st i _ (advance ⟨k, n :: rest, .cleanup⟩ rest)
            { st.sh with mem := upd st.sh.mem n false, pend := upd st.sh.pend n (st.sh.pend n - 1) } hi n 1
        have h2 := cnt_set st i _ (advance ⟨k, n :: rest, .cleanup⟩ rest)
            { st.sh with mem := upd st.sh.mem n false, pend := upd st.sh.pend n (st.sh.pend n - 1) } hi n 2
        have h3 := cnt_set st i _ (advance ⟨k, n :: rest, .cleanup⟩ rest)
            { st.sh with mem := upd st.sh.mem n false, pend := upd st.sh.pend n (st.sh.pend n - 1) } hi n 3
        rw [cls_advance n _ rest, hc] at h1 h2 h3
        simp at h1 h2 h3
        obtain ⟨hmem, hnew⟩ := phase_cleanup hph hpos h1 h2 h3
        have halive : alive st.sh n = true := by simp [alive, hmem]
        simp only [halive, if_true]
        apply inv_update m0 st i _ _ _ n hI hi (advance_pc_ne_raised _ _) hI.noContained
        · intro n' hne
          exact ⟨by simp [cls, Ne.symm hne], cls_advance n' _ rest⟩
        · intro n' hne
          simp [upd_other _ _ _ _ hne]
        · simp only [upd_same]
          exact hnew

end Sio.Sched
