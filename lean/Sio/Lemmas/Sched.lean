/-
  Lemmas for K5 (Sio/Model/Sched.lean): the phase invariant of one (sid, namespace) under any
  number of concurrent terminating tasks, preserved by every admissible step.
-/
import Sio.Model.Sched
namespace Sio.Sched

/-! ## counting tasks per namespace and position -/

/-- position class of task `t` with respect to namespace `n`:
    1 = in the gate window (passed `check`, before `mark`), 2 = marked, handler not yet invoked
    (`send`/`handler`), 3 = handler invoked, before `manager.disconnect` (`cleanup`), 4 = a refusing
    CONNECT that is marked and has not yet sent the refusal (`send`, kind `refuse`), 5 = refusal sent,
    before `manager.disconnect` (`cleanup`, kind `refuse`), 0 = anything else (including: working on
    another namespace). -/
def cls (n : Ns) (t : Task) : Nat :=
  match t.todo with
  | m :: _ =>
    if m = n then
      match t.pc with
      | .mark => 1
      | .send => if t.kind = .refuse then 4 else 2
      | .handler => 2
      | .cleanup => if t.kind = .refuse then 5 else 3
      | _ => 0
    else 0
  | [] => 0

/-- number of refusals among the tasks that passed the gate of a namespace -/
def nref (l : List Kind) : Nat := l.count .refuse

def cntL (l : List Task) (n : Ns) (k : Nat) : Nat := l.countP (fun t => cls n t == k)

def cnt (st : St) (n : Ns) (k : Nat) : Nat := cntL st.tasks n k

@[simp] theorem cnt_mk (ts : List Task) (sh : Shared) (n : Ns) (k : Nat) :
    cnt { tasks := ts, sh := sh } n k = cntL ts n k := rfl

/-- the phases of a (sid, namespace); `m0` = the sid was connected to it at the start.
    Arguments: membership, pending count, handler calls, refusals sent, number of tasks that passed
    the gate (`nm`), number of refusing CONNECTs among them (`nr`), and the number of tasks in each
    position class 1…5 (`w a b r s`). -/
def Phase (m0 mem : Bool) (pend calls ref nm nr w a b r s : Nat) : Prop :=
  -- untouched
  (m0 = true ∧ mem = true ∧ pend = 0 ∧ calls = 0 ∧ ref = 0 ∧ nm = 0 ∧ nr = 0 ∧
    w ≤ 1 ∧ a = 0 ∧ b = 0 ∧ r = 0 ∧ s = 0) ∨
  -- marked by a terminating cause, handler not yet invoked
  (m0 = true ∧ mem = true ∧ pend = 1 ∧ calls = 0 ∧ ref = 0 ∧ nm = 1 ∧ nr = 0 ∧
    w = 0 ∧ a = 1 ∧ b = 0 ∧ r = 0 ∧ s = 0) ∨
  -- handler invoked
  (m0 = true ∧ mem = true ∧ pend = 1 ∧ calls = 1 ∧ ref = 0 ∧ nm = 1 ∧ nr = 0 ∧
    w = 0 ∧ a = 0 ∧ b = 1 ∧ r = 0 ∧ s = 0) ∨
  -- ended by a terminating cause
  (m0 = true ∧ mem = false ∧ pend = 0 ∧ calls = 1 ∧ ref = 0 ∧ nm = 1 ∧ nr = 0 ∧
    w = 0 ∧ a = 0 ∧ b = 0 ∧ r = 0 ∧ s = 0) ∨
  -- never connected
  (m0 = false ∧ mem = false ∧ pend = 0 ∧ calls = 0 ∧ ref = 0 ∧ nm = 0 ∧ nr = 0 ∧
    w = 0 ∧ a = 0 ∧ b = 0 ∧ r = 0 ∧ s = 0) ∨
  -- marked by the refusing CONNECT, refusal not yet sent
  (m0 = true ∧ mem = true ∧ pend = 1 ∧ calls = 0 ∧ ref = 0 ∧ nm = 1 ∧ nr = 1 ∧
    w = 0 ∧ a = 0 ∧ b = 0 ∧ r = 1 ∧ s = 0) ∨
  -- refusal sent
  (m0 = true ∧ mem = true ∧ pend = 1 ∧ calls = 0 ∧ ref = 1 ∧ nm = 1 ∧ nr = 1 ∧
    w = 0 ∧ a = 0 ∧ b = 0 ∧ r = 0 ∧ s = 1) ∨
  -- ended by the refusal: the disconnect handler was never invoked and never will be
  (m0 = true ∧ mem = false ∧ pend = 0 ∧ calls = 0 ∧ ref = 1 ∧ nm = 1 ∧ nr = 1 ∧
    w = 0 ∧ a = 0 ∧ b = 0 ∧ r = 0 ∧ s = 0)

/-- The invariant ("four phases" of a connected sid — untouched, marked, handler ran, ended —, the
    three of a session that its own connect handler refuses — marked, refusal sent, ended without
    handler — plus the trivial one of a namespace the sid was never connected to): nobody raised,
    nothing was swallowed, and for every namespace the shared variables and the number of tasks at
    each position are in one of the phases. -/
structure Inv (m0 : Ns → Bool) (st : St) : Prop where
  noRaise : ∀ t ∈ st.tasks, t.pc ≠ .raised
  noContained : st.sh.contained = 0
  refNoHandler : ∀ t ∈ st.tasks, t.kind = .refuse → t.pc ≠ .handler
  phase : ∀ n, Phase (m0 n) (st.sh.mem n) (st.sh.pend n) (ncalls st n) (st.sh.refusals n)
            (st.sh.marks n).length (nref (st.sh.marks n))
            (cnt st n 1) (cnt st n 2) (cnt st n 3) (cnt st n 4) (cnt st n 5)

def noMark (st : St) : Prop := ∀ t ∈ st.tasks, t.pc ≠ .mark

theorem countP_set_some {α : Type} (p : α → Bool) (l : List α) (i : Nat) (t t' : α)
    (h : l[i]? = some t) :
    (l.set i t').countP p + (if p t then 1 else 0) = l.countP p + (if p t' then 1 else 0) := by
  obtain ⟨hi, rfl⟩ := List.getElem?_eq_some_iff.mp h
  rw [List.countP_set hi]
  have := List.boole_getElem_le_countP (p := p) hi
  omega

theorem cnt_set (st : St) (i : Nat) (t t' : Task) (h : st.tasks[i]? = some t)
    (n : Ns) (k : Nat) :
    cntL (st.tasks.set i t') n k + (if cls n t = k then 1 else 0)
      = cnt st n k + (if cls n t' = k then 1 else 0) := by
  have := countP_set_some (fun u => cls n u == k) st.tasks i t t' h
  simpa [cnt, cntL] using this

theorem cnt_set5 (st : St) (i : Nat) (t t' : Task) (h : st.tasks[i]? = some t) (n : Ns) :
    (cntL (st.tasks.set i t') n 1 + (if cls n t = 1 then 1 else 0)
      = cnt st n 1 + (if cls n t' = 1 then 1 else 0)) ∧
    (cntL (st.tasks.set i t') n 2 + (if cls n t = 2 then 1 else 0)
      = cnt st n 2 + (if cls n t' = 2 then 1 else 0)) ∧
    (cntL (st.tasks.set i t') n 3 + (if cls n t = 3 then 1 else 0)
      = cnt st n 3 + (if cls n t' = 3 then 1 else 0)) ∧
    (cntL (st.tasks.set i t') n 4 + (if cls n t = 4 then 1 else 0)
      = cnt st n 4 + (if cls n t' = 4 then 1 else 0)) ∧
    (cntL (st.tasks.set i t') n 5 + (if cls n t = 5 then 1 else 0)
      = cnt st n 5 + (if cls n t' = 5 then 1 else 0)) :=
  ⟨cnt_set st i t t' h n 1, cnt_set st i t t' h n 2, cnt_set st i t t' h n 3,
   cnt_set st i t t' h n 4, cnt_set st i t t' h n 5⟩

theorem mem_of_getElem? {α : Type} {l : List α} {i : Nat} {t : α} (h : l[i]? = some t) : t ∈ l :=
  List.mem_of_getElem? h

theorem cnt_pos (st : St) (i : Nat) (t : Task) (h : st.tasks[i]? = some t) (n : Ns) :
    1 ≤ cnt st n (cls n t) := by
  unfold cnt cntL
  exact List.countP_pos_iff.mpr ⟨t, mem_of_getElem? h, by simp⟩

theorem cnt_pos_of_mem (st : St) (t : Task) (h : t ∈ st.tasks) (n : Ns) :
    1 ≤ cnt st n (cls n t) := by
  unfold cnt cntL
  exact List.countP_pos_iff.mpr ⟨t, h, by simp⟩

theorem mem_set_cases {α : Type} {l : List α} {i : Nat} {x u : α} (h : u ∈ l.set i x) :
    u ∈ l ∨ u = x := by
  rcases List.mem_or_eq_of_mem_set h with h | h
  · exact Or.inl h
  · exact Or.inr h

/-! ## the step lemma

  One lemma per shape of the executed step: the scheduled task moves from class `c` to class `c'`
  of its current namespace `n` (class 0 of every other namespace before and after), the shared
  variables change at `n` only. -/

theorem cls_other (n m : Ns) (t : Task) (rest : List Ns) (h : t.todo = m :: rest) (hne : n ≠ m) :
    cls n t = 0 := by
  simp [cls, h, Ne.symm hne]

theorem cls_advance (n : Ns) (t : Task) (rest : List Ns) : cls n (advance t rest) = 0 := by
  unfold advance cls
  cases rest with
  | nil => simp
  | cons m r => simp

theorem cls_pc_other (n m : Ns) (t : Task) (p : Pc) (rest : List Ns) (h : t.todo = m :: rest)
    (hne : n ≠ m) : cls n { t with pc := p } = 0 := by
  simp [cls, h, Ne.symm hne]

theorem afterMark_ne_raised (k : Kind) : afterMark k ≠ .raised := by cases k <;> simp [afterMark]
theorem afterMark_ne_mark (k : Kind) : afterMark k ≠ .mark := by cases k <;> simp [afterMark]

theorem chNext_ne (k : Kind) : chNext k ≠ .raised ∧ chNext k ≠ .mark ∧ chNext k ≠ .send ∧
    chNext k ≠ .handler ∧ chNext k ≠ .cleanup := by cases k <;> simp [chNext]

theorem advance_pc_ne_raised (t : Task) (rest : List Ns) : (advance t rest).pc ≠ .raised := by
  unfold advance; split <;> simp

theorem advance_pc_ne_handler (t : Task) (rest : List Ns) : (advance t rest).pc ≠ .handler := by
  unfold advance; split <;> simp

theorem afterMark_refuse (k : Kind) : k = .refuse → afterMark k ≠ .handler := by
  intro h; subst h; simp [afterMark]

theorem advance_pc_ne_mark (t : Task) (rest : List Ns) : (advance t rest).pc ≠ .mark := by
  unfold advance; split <;> simp

/-- generic re-establishment of `Inv` after task i was replaced and the shared state changed at
    namespace `n` only -/
theorem inv_update (m0 : Ns → Bool) (st : St) (i : Nat) (t t' : Task) (sh' : Shared) (n : Ns)
    (hI : Inv m0 st) (hi : st.tasks[i]? = some t)
    (hpc : t'.pc ≠ .raised) (hrh : t'.kind = .refuse → t'.pc ≠ .handler)
    (hcont : sh'.contained = 0)
    (hcls : ∀ n', n' ≠ n → cls n' t = 0 ∧ cls n' t' = 0)
    (hsh : ∀ n', n' ≠ n → sh'.mem n' = st.sh.mem n' ∧ sh'.pend n' = st.sh.pend n' ∧
              sh'.calls n' = st.sh.calls n' ∧ sh'.refusals n' = st.sh.refusals n' ∧
              sh'.marks n' = st.sh.marks n')
    (hn : Phase (m0 n) (sh'.mem n) (sh'.pend n) (sh'.calls n).length (sh'.refusals n)
            (sh'.marks n).length (nref (sh'.marks n))
            (cntL (st.tasks.set i t') n 1) (cntL (st.tasks.set i t') n 2)
            (cntL (st.tasks.set i t') n 3) (cntL (st.tasks.set i t') n 4)
            (cntL (st.tasks.set i t') n 5)) :
    Inv m0 { tasks := st.tasks.set i t', sh := sh' } := by
  refine ⟨?_, hcont, ?_, ?_⟩
  · intro u hu
    rcases mem_set_cases hu with hu | rfl
    · exact hI.noRaise u hu
    · exact hpc
  · intro u hu
    rcases mem_set_cases hu with hu | rfl
    · exact hI.refNoHandler u hu
    · exact hrh
  · intro n'
    by_cases hnn : n' = n
    · subst hnn; exact hn
    · obtain ⟨h1, h2, h3, h4, h5⟩ := cnt_set5 st i t t' hi n'
      obtain ⟨c0, c0'⟩ := hcls n' hnn
      obtain ⟨e1, e2, e3, e4, e5⟩ := hsh n' hnn
      have hp := hI.phase n'
      simp only [c0, c0'] at h1 h2 h3 h4 h5
      simp at h1 h2 h3 h4 h5
      simp only [ncalls, cnt_mk, e1, e2, e3, e4, e5, h1, h2, h3, h4, h5] at hp ⊢
      exact hp

theorem upd_same {α : Type} (f : Ns → α) (n : Ns) (v : α) : upd f n v n = v := by simp [upd]
theorem upd_other {α : Type} (f : Ns → α) (n n' : Ns) (v : α) (h : n' ≠ n) : upd f n v n' = f n' := by
  simp [upd, h]

/-- task i stays the same and nothing shared changes -/
theorem inv_noop (m0 : Ns → Bool) (st : St) (i : Nat) (t : Task) (hI : Inv m0 st)
    (hi : st.tasks[i]? = some t) : Inv m0 { tasks := st.tasks.set i t, sh := st.sh } := by
  have : st.tasks.set i t = st.tasks := by
    obtain ⟨hlt, rfl⟩ := List.getElem?_eq_some_iff.mp hi
    simp
  rw [this]; exact hI

/-- a task whose classes are all 0 before and after (conn tasks, failed checks) -/
theorem inv_neutral (m0 : Ns → Bool) (st : St) (i : Nat) (t t' : Task) (hI : Inv m0 st)
    (hi : st.tasks[i]? = some t) (hpc : t'.pc ≠ .raised)
    (hrh : t'.kind = .refuse → t'.pc ≠ .handler)
    (h0 : ∀ n, cls n t = 0) (h0' : ∀ n, cls n t' = 0) :
    Inv m0 { tasks := st.tasks.set i t', sh := st.sh } := by
  refine ⟨?_, hI.noContained, ?_, ?_⟩
  · intro u hu
    rcases mem_set_cases hu with hu | rfl
    · exact hI.noRaise u hu
    · exact hpc
  · intro u hu
    rcases mem_set_cases hu with hu | rfl
    · exact hI.refNoHandler u hu
    · exact hrh
  · intro n
    obtain ⟨h1, h2, h3, h4, h5⟩ := cnt_set5 st i t t' hi n
    have hp := hI.phase n
    simp only [h0, h0'] at h1 h2 h3 h4 h5
    simp at h1 h2 h3 h4 h5
    simp only [ncalls, cnt_mk, h1, h2, h3, h4, h5] at hp ⊢
    exact hp

theorem cls_of_pc_zero (n : Ns) (t : Task)
    (h : t.pc ≠ .mark ∧ t.pc ≠ .send ∧ t.pc ≠ .handler ∧ t.pc ≠ .cleanup) : cls n t = 0 := by
  unfold cls
  split
  · split
    · obtain ⟨h1, h2, h3, h4⟩ := h
      cases hp : t.pc <;> simp_all
    · rfl
  · rfl

theorem cls_one_iff (n : Ns) (t : Task) : cls n t = 1 ↔ (t.pc = .mark ∧ t.todo.head? = some n) := by
  unfold cls
  cases htd : t.todo with
  | nil => simp
  | cons m r =>
    by_cases hm : m = n
    · subst hm; cases hp : t.pc <;> simp <;> split <;> simp
    · cases hp : t.pc <;> simp [hm]

theorem inWindow_eq (n : Ns) (t : Task) : inWindow n t = (cls n t == 1) := by
  have h := cls_one_iff n t
  unfold inWindow
  by_cases hc : cls n t = 1
  · have := h.mp hc; simp [hc, this.1, this.2]
  · have hn : ¬ (t.pc = .mark ∧ t.todo.head? = some n) := fun hx => hc (h.mpr hx)
    have hf : (cls n t == 1) = false := by simpa using hc
    rw [hf]
    simp only [not_and] at hn
    by_cases hp : t.pc = .mark
    · simp [hp, hn hp]
    · simp [hp]

theorem noMark_cnt (st : St) (h : noMark st) (n : Ns) : cnt st n 1 = 0 := by
  unfold cnt cntL
  apply List.countP_eq_zero.mpr
  intro t ht
  have := h t ht
  have hc : cls n t ≠ 1 := fun hx => this ((cls_one_iff n t).mp hx).1
  simpa using hc

/-! ## phase transitions (pure arithmetic) -/

theorem phase_frame {m0 mem : Bool} {pend calls rf nm nr w a b r s w' a' b' r' s' : Nat}
    (h : Phase m0 mem pend calls rf nm nr w a b r s)
    (hw : w' = w) (ha : a' = a) (hb : b' = b) (hr : r' = r) (hs : s' = s) :
    Phase m0 mem pend calls rf nm nr w' a' b' r' s' := by subst hw ha hb hr hs; exact h

theorem phase_window {m0 : Bool} {c rf nm nr w a b r s w' a' b' r' s' : Nat}
    (h : Phase m0 true 0 c rf nm nr w a b r s) (_hw0 : w = 0) (hw : w' = 1)
    (ha : a' = a) (hb : b' = b) (hr : r' = r) (hs : s' = s) :
    Phase m0 true 0 c rf nm nr w' a' b' r' s' := by
  cases m0 <;> simp [Phase] at h ⊢ <;> omega

theorem phase_mark {m0 : Bool} {c rf nm nr w a b r s w' a' b' r' s' : Nat}
    (h : Phase m0 true 0 c rf nm nr w a b r s) (hw : w' = 0)
    (ha : a' = a + 1) (hb : b' = b) (hr : r' = r) (hs : s' = s) :
    Phase m0 true 1 c rf (nm + 1) nr w' a' b' r' s' := by
  cases m0 <;> simp [Phase] at h ⊢ <;> omega

theorem phase_mark_refuse {m0 : Bool} {c rf nm nr w a b r s w' a' b' r' s' : Nat}
    (h : Phase m0 true 0 c rf nm nr w a b r s) (hw : w' = 0)
    (ha : a' = a) (hb : b' = b) (hr : r' = r + 1) (hs : s' = s) :
    Phase m0 true 1 c rf (nm + 1) (nr + 1) w' a' b' r' s' := by
  cases m0 <;> simp [Phase] at h ⊢ <;> omega

theorem phase_of_window {m0 mem : Bool} {p c rf nm nr w a b r s : Nat}
    (h : Phase m0 mem p c rf nm nr w a b r s) (hpos : 1 ≤ w) : mem = true ∧ p = 0 ∧ w = 1 := by
  cases m0 <;> cases mem <;> simp [Phase] at h ⊢ <;> omega

theorem phase_handler {m0 mem : Bool} {p c rf nm nr w a b r s w' a' b' r' s' : Nat}
    (h : Phase m0 mem p c rf nm nr w a b r s) (hpos : 1 ≤ a)
    (hw : w' = w) (ha : a' + 1 = a) (hb : b' = b + 1) (hr : r' = r) (hs : s' = s) :
    Phase m0 mem p (c + 1) rf nm nr w' a' b' r' s' := by
  cases m0 <;> cases mem <;> simp [Phase] at h ⊢ <;> omega

theorem phase_mem_b {m0 mem : Bool} {p c rf nm nr w a b r s : Nat}
    (h : Phase m0 mem p c rf nm nr w a b r s) (hpos : 1 ≤ b) : mem = true := by
  cases m0 <;> cases mem <;> simp [Phase] at h ⊢ <;> omega

theorem phase_mem_s {m0 mem : Bool} {p c rf nm nr w a b r s : Nat}
    (h : Phase m0 mem p c rf nm nr w a b r s) (hpos : 1 ≤ s) : mem = true := by
  cases m0 <;> cases mem <;> simp [Phase] at h ⊢ <;> omega

theorem phase_cleanup {m0 : Bool} {p c rf nm nr w a b r s w' a' b' r' s' : Nat}
    (h : Phase m0 true p c rf nm nr w a b r s) (hpos : 1 ≤ b)
    (hw : w' = w) (ha : a' = a) (hb : b' + 1 = b) (hr : r' = r) (hs : s' = s) :
    Phase m0 false (p - 1) c rf nm nr w' a' b' r' s' := by
  cases m0 <;> simp [Phase] at h ⊢ <;> omega

theorem phase_rsend {m0 mem : Bool} {p c rf nm nr w a b r s w' a' b' r' s' : Nat}
    (h : Phase m0 mem p c rf nm nr w a b r s) (hpos : 1 ≤ r)
    (hw : w' = w) (ha : a' = a) (hb : b' = b) (hr : r' + 1 = r) (hs : s' = s + 1) :
    Phase m0 mem p c (rf + 1) nm nr w' a' b' r' s' := by
  cases m0 <;> cases mem <;> simp [Phase] at h ⊢ <;> omega

theorem phase_rcleanup {m0 : Bool} {p c rf nm nr w a b r s w' a' b' r' s' : Nat}
    (h : Phase m0 true p c rf nm nr w a b r s) (hpos : 1 ≤ s)
    (hw : w' = w) (ha : a' = a) (hb : b' = b) (hr : r' = r) (hs : s' + 1 = s) :
    Phase m0 false (p - 1) c rf nm nr w' a' b' r' s' := by
  cases m0 <;> simp [Phase] at h ⊢ <;> omega

/-- what the phases say about the gate: at most one task ever passes it; handler calls are made
    only on behalf of a passing task that is not a refusal; a refusal is sent only by a refusing
    CONNECT that passed -/
theorem phase_gate {m0 mem : Bool} {p c rf nm nr w a b r s : Nat}
    (h : Phase m0 mem p c rf nm nr w a b r s) :
    nm ≤ 1 ∧ c + nr ≤ nm ∧ rf ≤ nr ∧ c ≤ 1 ∧ (1 ≤ nr → c = 0) ∧ (1 ≤ r + s → nr = 1) := by
  unfold Phase at h
  omega

/-! ## the step lemma -/

/-- `manager.pre_disconnect` executed while the namespace is untouched and no OTHER task is in
    the gate window -/
theorem inv_mark (m0 : Ns → Bool) (st : St) (i : Nat) (k : Kind) (p : Pc) (n : Ns) (rest : List Ns)
    (hI : Inv m0 st) (hi : st.tasks[i]? = some ⟨k, n :: rest, p⟩)
    (hmem : st.sh.mem n = true) (hpend : st.sh.pend n = 0)
    (hw : cnt st n 1 = (if cls n ⟨k, n :: rest, p⟩ = 1 then 1 else 0))
    (hc : cls n ⟨k, n :: rest, p⟩ = 0 ∨ cls n ⟨k, n :: rest, p⟩ = 1) :
    Inv m0 { tasks := st.tasks.set i (markStep st.sh ⟨k, n :: rest, p⟩ n rest).1,
             sh := (markStep st.sh ⟨k, n :: rest, p⟩ n rest).2 } := by
  have halive : alive st.sh n = true := by simp [alive, hmem]
  simp only [markStep, halive, if_true]
  apply inv_update m0 st i _ _ _ n hI hi
  · exact afterMark_ne_raised _
  · exact afterMark_refuse _
  · exact hI.noContained
  · intro n' hne
    exact ⟨by simp [cls, Ne.symm hne], by simp [cls, Ne.symm hne]⟩
  · intro n' hne
    simp [upd_other _ _ _ _ hne]
  · obtain ⟨h1, h2, h3, h4, h5⟩ := cnt_set5 st i _ ⟨k, n :: rest, afterMark k⟩ hi n
    have hp := hI.phase n
    simp only [ncalls, hmem, hpend] at hp
    simp only [upd_same, hpend, hmem, List.length_cons]
    by_cases hk : k = .refuse
    · subst hk
      have hc2 : cls n ⟨.refuse, n :: rest, afterMark .refuse⟩ = 4 := by simp [cls, afterMark]
      have hnr : nref (Kind.refuse :: st.sh.marks n) = nref (st.sh.marks n) + 1 := by simp [nref]
      rw [hc2] at h1 h2 h3 h4 h5
      rw [hnr]
      rcases hc with hc | hc <;> simp only [hc] at h1 h2 h3 h4 h5 hw <;>
        simp at h1 h2 h3 h4 h5 hw <;>
        exact phase_mark_refuse hp (by omega) (by omega) (by omega) (by omega) (by omega)
    · have hc2 : cls n ⟨k, n :: rest, afterMark k⟩ = 2 := by
        cases k <;> simp_all [cls, afterMark]
      have hnr : nref (k :: st.sh.marks n) = nref (st.sh.marks n) := by
        cases k <;> simp_all [nref]
      rw [hc2] at h1 h2 h3 h4 h5
      rw [hnr]
      rcases hc with hc | hc <;> simp only [hc] at h1 h2 h3 h4 h5 hw <;>
        simp at h1 h2 h3 h4 h5 hw <;>
        exact phase_mark hp (by omega) (by omega) (by omega) (by omega) (by omega)

theorem step_inv (atomic : Bool) (m0 : Ns → Bool) (st : St) (i : Nat) (hI : Inv m0 st)
    (hadm : admissible st i = true) (hat : atomic = true → noMark st) :
    Inv m0 (step atomic st i) := by
  unfold step
  cases hi : st.tasks[i]? with
  | none => exact hI
  | some t =>
    obtain ⟨k, todo, pc⟩ := t
    simp only
    cases pc with
    | chandler =>
      simp only [stepTask]
      exact inv_neutral m0 st i _ _ hI hi (chNext_ne k).1 (fun _ => (chNext_ne k).2.2.2.1)
        (fun n => cls_of_pc_zero n _ (by simp)) (fun n => cls_of_pc_zero n _ (chNext_ne k).2)
    | csend =>
      simp only [stepTask]
      exact inv_neutral m0 st i _ _ hI hi (by simp) (by simp)
        (fun n => cls_of_pc_zero n _ (by simp)) (fun n => cls_of_pc_zero n _ (by simp))
    | done =>
      have : stepTask atomic st.sh ⟨k, todo, .done⟩ = (⟨k, todo, .done⟩, st.sh) := by
        unfold stepTask; simp
      rw [this]; exact inv_noop m0 st i _ hI hi
    | raised =>
      have : stepTask atomic st.sh ⟨k, todo, .raised⟩ = (⟨k, todo, .raised⟩, st.sh) := by
        unfold stepTask; simp
      rw [this]; exact inv_noop m0 st i _ hI hi
    | check =>
      cases todo with
      | nil =>
        simp only [stepTask]
        exact inv_neutral m0 st i _ _ hI hi (by simp) (by simp)
          (fun n => cls_of_pc_zero n _ (by simp)) (fun n => cls_of_pc_zero n _ (by simp))
      | cons n rest =>
        simp only [stepTask]
        have hc0 : ∀ n', cls n' ⟨k, n :: rest, .check⟩ = 0 :=
          fun n' => cls_of_pc_zero n' _ (by simp)
        by_cases hconn : connected st.sh n = true
        · simp only [hconn, if_true]
          have hmem : st.sh.mem n = true := by
            simp [connected] at hconn; exact hconn.1
          have hpend : st.sh.pend n = 0 := by
            simp [connected] at hconn; exact hconn.2
          cases atomic with
          | true =>
            simp only [if_true]
            exact inv_mark m0 st i k .check n rest hI hi hmem hpend
              (by rw [noMark_cnt st (hat rfl) n, hc0 n]; simp) (Or.inl (hc0 n))
          | false =>
            simp only [Bool.false_eq_true, if_false]
            have hw0 : cnt st n 1 = 0 := by
              have := hadm
              simp only [admissible, hi] at this
              have h2 : st.tasks.countP (inWindow n) = 0 := by simpa using this
              unfold cnt cntL
              rw [← h2]; congr; funext u; exact (inWindow_eq n u).symm
            refine inv_update m0 st i _ _ _ n hI hi (by simp) (by simp) (by exact hI.noContained) ?_ ?_ ?_
            · intro n' hne
              exact ⟨hc0 n', by simp [cls, Ne.symm hne]⟩
            · intro n' _; exact ⟨rfl, rfl, rfl, rfl, rfl⟩
            · obtain ⟨h1, h2, h3, h4, h5⟩ := cnt_set5 st i _ ⟨k, n :: rest, .mark⟩ hi n
              have hc1 : cls n ⟨k, n :: rest, .mark⟩ = 1 := by simp [cls]
              rw [hc1, hc0 n] at h1 h2 h3 h4 h5
              simp at h1 h2 h3 h4 h5
              have hph := hI.phase n
              simp only [ncalls, hmem, hpend] at hph
              simp only [hmem, hpend]
              exact phase_window hph hw0 (by omega) h2 h3 h4 h5
        · simp only [hconn]
          exact inv_neutral m0 st i _ _ hI hi (advance_pc_ne_raised _ _)
            (fun _ => advance_pc_ne_handler _ _) hc0
            (fun n' => cls_advance n' _ rest)
    | mark =>
      cases todo with
      | nil =>
        have : stepTask atomic st.sh ⟨k, [], .mark⟩ = (⟨k, [], .mark⟩, st.sh) := by
          unfold stepTask; simp
        rw [this]; exact inv_noop m0 st i _ hI hi
      | cons n rest =>
        simp only [stepTask]
        have hc1 : cls n ⟨k, n :: rest, .mark⟩ = 1 := by simp [cls]
        have hpos := cnt_pos st i _ hi n
        rw [hc1] at hpos
        have hfresh := phase_of_window (hI.phase n) hpos
        exact inv_mark m0 st i k .mark n rest hI hi hfresh.1 hfresh.2.1
          (by rw [hfresh.2.2, hc1]; simp) (Or.inr hc1)
    | send =>
      cases todo with
      | nil =>
        have : stepTask atomic st.sh ⟨k, [], .send⟩ = (⟨k, [], .send⟩, st.sh) := by
          unfold stepTask; simp
        rw [this]; exact inv_noop m0 st i _ hI hi
      | cons n rest =>
        simp only [stepTask]
        have hph := hI.phase n
        simp only [ncalls] at hph
        by_cases hk : k = .refuse
        · subst hk
          simp only [↓reduceIte]
          have hc : cls n ⟨.refuse, n :: rest, .send⟩ = 4 := by simp [cls]
          have hpos := cnt_pos st i _ hi n
          rw [hc] at hpos
          refine inv_update m0 st i _ _ _ n hI hi (by simp) (by simp) (by exact hI.noContained) ?_ ?_ ?_
          · intro n' hne
            exact ⟨by simp [cls, Ne.symm hne], by simp [cls, Ne.symm hne]⟩
          · intro n' hne
            simp [upd_other _ _ _ _ hne]
          · obtain ⟨h1, h2, h3, h4, h5⟩ := cnt_set5 st i _ ⟨.refuse, n :: rest, .cleanup⟩ hi n
            simp [cls] at h1 h2 h3 h4 h5
            simp only [upd_same]
            exact phase_rsend hph hpos (by omega) (by omega) (by omega) (by omega) (by omega)
        · simp only [hk, ↓reduceIte]
          refine inv_update m0 st i _ _ _ n hI hi (by simp) (fun h => absurd h hk)
            (by exact hI.noContained) ?_ ?_ ?_
          · intro n' hne
            exact ⟨by simp [cls, Ne.symm hne], by simp [cls, Ne.symm hne]⟩
          · intro n' _; exact ⟨rfl, rfl, rfl, rfl, rfl⟩
          · obtain ⟨h1, h2, h3, h4, h5⟩ := cnt_set5 st i _ ⟨k, n :: rest, .handler⟩ hi n
            simp [cls, hk] at h1 h2 h3 h4 h5
            exact phase_frame hph (by omega) (by omega) (by omega) (by omega) (by omega)
    | handler =>
      cases todo with
      | nil =>
        have : stepTask atomic st.sh ⟨k, [], .handler⟩ = (⟨k, [], .handler⟩, st.sh) := by
          unfold stepTask; simp
        rw [this]; exact inv_noop m0 st i _ hI hi
      | cons n rest =>
        simp only [stepTask]
        have hc : cls n ⟨k, n :: rest, .handler⟩ = 2 := by simp [cls]
        have hpos := cnt_pos st i _ hi n
        rw [hc] at hpos
        refine inv_update m0 st i _ _ _ n hI hi (by simp) (by simp) (by exact hI.noContained) ?_ ?_ ?_
        · intro n' hne
          exact ⟨by simp [cls, Ne.symm hne], by simp [cls, Ne.symm hne]⟩
        · intro n' hne
          simp [upd_other _ _ _ _ hne]
        · obtain ⟨h1, h2, h3, h4, h5⟩ := cnt_set5 st i _ ⟨k, n :: rest, .cleanup⟩ hi n
          have hph := hI.phase n
          simp only [ncalls] at hph
          simp only [upd_same, List.length_cons]
          have hk : k ≠ .refuse := fun h =>
            hI.refNoHandler _ (mem_of_getElem? hi) h rfl
          simp [cls, hk] at h1 h2 h3 h4 h5
          exact phase_handler hph hpos (by omega) (by omega) (by omega) (by omega) (by omega)
    | cleanup =>
      cases todo with
      | nil =>
        have : stepTask atomic st.sh ⟨k, [], .cleanup⟩ = (⟨k, [], .cleanup⟩, st.sh) := by
          unfold stepTask; simp
        rw [this]; exact inv_noop m0 st i _ hI hi
      | cons n rest =>
        simp only [stepTask]
        have hph := hI.phase n
        simp only [ncalls] at hph
        have hpos := cnt_pos st i _ hi n
        have hmem : st.sh.mem n = true := by
          by_cases hk : k = .refuse
          · subst hk
            rw [show cls n ⟨.refuse, n :: rest, .cleanup⟩ = 5 by simp [cls]] at hpos
            exact phase_mem_s hph hpos
          · rw [show cls n ⟨k, n :: rest, .cleanup⟩ = 3 by simp [cls, hk]] at hpos
            exact phase_mem_b hph hpos
        have halive : alive st.sh n = true := by simp [alive, hmem]
        simp only [halive, if_true]
        refine inv_update m0 st i _ _ _ n hI hi (advance_pc_ne_raised _ _)
          (fun _ => advance_pc_ne_handler _ _) (by exact hI.noContained) ?_ ?_ ?_
        · intro n' hne
          exact ⟨by simp [cls, Ne.symm hne], cls_advance n' _ rest⟩
        · intro n' hne
          simp [upd_other _ _ _ _ hne]
        · obtain ⟨h1, h2, h3, h4, h5⟩ :=
            cnt_set5 st i _ (advance ⟨k, n :: rest, .cleanup⟩ rest) hi n
          rw [cls_advance n _ rest] at h1 h2 h3 h4 h5
          simp only [upd_same]
          rw [hmem] at hph
          by_cases hk : k = .refuse
          · subst hk
            have hc : cls n ⟨.refuse, n :: rest, .cleanup⟩ = 5 := by simp [cls]
            rw [hc] at h1 h2 h3 h4 h5 hpos
            simp at h1 h2 h3 h4 h5
            exact phase_rcleanup hph hpos (by omega) (by omega) (by omega) (by omega) (by omega)
          · have hc : cls n ⟨k, n :: rest, .cleanup⟩ = 3 := by simp [cls, hk]
            rw [hc] at h1 h2 h3 h4 h5 hpos
            simp at h1 h2 h3 h4 h5
            exact phase_cleanup hph hpos (by omega) (by omega) (by omega) (by omega) (by omega)

/-! ## the atomic gate never opens a window -/

theorem markStep_pc_ne_mark (sh : Shared) (t : Task) (n : Ns) (rest : List Ns) :
    (markStep sh t n rest).1.pc ≠ .mark := by
  unfold markStep
  split
  · exact afterMark_ne_mark _
  · split
    · exact advance_pc_ne_mark _ _
    · simp

theorem stepTask_noMark (sh : Shared) (t : Task) (h : t.pc ≠ .mark) :
    (stepTask true sh t).1.pc ≠ .mark := by
  obtain ⟨k, todo, pc⟩ := t
  cases pc with
  | chandler => simp only [stepTask]; exact (chNext_ne k).2.1
  | csend => simp [stepTask]
  | done => unfold stepTask; simp
  | raised => unfold stepTask; simp
  | mark => exact absurd rfl h
  | check =>
    cases todo with
    | nil => simp [stepTask]
    | cons n rest =>
      simp only [stepTask, if_true]
      split
      · exact markStep_pc_ne_mark _ _ _ _
      · exact advance_pc_ne_mark _ _
  | send =>
    cases todo with
    | nil => unfold stepTask; simp
    | cons n rest => simp only [stepTask]; split <;> simp
  | handler =>
    cases todo with
    | nil => unfold stepTask; simp
    | cons n rest => simp [stepTask]
  | cleanup =>
    cases todo with
    | nil => unfold stepTask; simp
    | cons n rest => simp only [stepTask]; exact advance_pc_ne_mark _ _

theorem noMark_step (st : St) (i : Nat) (h : noMark st) : noMark (step true st i) := by
  unfold step
  cases hi : st.tasks[i]? with
  | none => exact h
  | some t =>
    intro u hu
    rcases mem_set_cases hu with hu | rfl
    · exact h u hu
    · exact stepTask_noMark st.sh t (h t (mem_of_getElem? hi))

theorem admissible_of_noMark (st : St) (i : Nat) (h : noMark st) : admissible st i = true := by
  unfold admissible
  cases hi : st.tasks[i]? with
  | none => rfl
  | some t =>
    simp only
    split
    · have := noMark_cnt st h
      rename_i n _ _ _
      have h1 := this n
      unfold cnt cntL at h1
      have : st.tasks.countP (inWindow n) = 0 := by
        rw [← h1]; congr; funext u; exact inWindow_eq n u
      simp [this]
    · rfl

theorem run_inv_atomic (m0 : Ns → Bool) (sched : List Nat) (st : St) (hI : Inv m0 st)
    (hm : noMark st) : Inv m0 (run true st sched) ∧ noMark (run true st sched) := by
  induction sched generalizing st with
  | nil => exact ⟨hI, hm⟩
  | cons i r ih =>
    simp only [run, List.foldl_cons]
    exact ih (step true st i) (step_inv true m0 st i hI (admissible_of_noMark st i hm) (fun _ => hm))
      (noMark_step st i hm)

theorem run_inv_serial (m0 : Ns → Bool) (sched : List Nat) (st : St) (hI : Inv m0 st)
    (hs : gateSerial st sched = true) : Inv m0 (run false st sched) := by
  induction sched generalizing st with
  | nil => exact hI
  | cons i r ih =>
    simp only [gateSerial, Bool.and_eq_true] at hs
    simp only [run, List.foldl_cons]
    exact ih (step false st i) (step_inv false m0 st i hI hs.1 (by simp)) hs.2

theorem run_append (a : Bool) (st : St) (s1 s2 : List Nat) :
    run a st (s1 ++ s2) = run a (run a st s1) s2 := by
  simp [run, List.foldl_append]

/-! ## frame: namespaces no task goes through -/

/-- task `t` may still act on namespace `n` -/
def touches (n : Ns) (t : Task) : Bool :=
  match t.pc with
  | .csend | .done | .raised => false
  | .chandler => t.kind == .refuse && t.todo.contains n
  | _ => t.todo.contains n

def targeted (st : St) (n : Ns) : Bool := st.tasks.any (touches n)

/-- the part of the shared state that concerns namespace `n` -/
def SameAt (sh' sh : Shared) (n : Ns) : Prop :=
  sh'.mem n = sh.mem n ∧ sh'.pend n = sh.pend n ∧ sh'.calls n = sh.calls n ∧
  sh'.refusals n = sh.refusals n ∧ sh'.marks n = sh.marks n

theorem SameAt.refl (sh : Shared) (n : Ns) : SameAt sh sh n := ⟨rfl, rfl, rfl, rfl, rfl⟩

theorem SameAt.trans {a b c : Shared} {n : Ns} (h1 : SameAt a b n) (h2 : SameAt b c n) :
    SameAt a c n :=
  ⟨h1.1.trans h2.1, h1.2.1.trans h2.2.1, h1.2.2.1.trans h2.2.2.1, h1.2.2.2.1.trans h2.2.2.2.1,
   h1.2.2.2.2.trans h2.2.2.2.2⟩

theorem markStep_sameAt (sh : Shared) (t : Task) (m : Ns) (rest : List Ns) (n : Ns) (hne : n ≠ m) :
    SameAt (markStep sh t m rest).2 sh n := by
  unfold markStep SameAt
  split
  · simp [upd, hne]
  · split <;> simp [upd, hne]

theorem touches_advance (n : Ns) (t : Task) (rest : List Ns) (h : rest.contains n = false) :
    touches n (advance t rest) = false := by
  unfold advance touches
  cases rest <;> simp_all

theorem markStep_touches (sh : Shared) (k : Kind) (p : Pc) (m : Ns) (rest : List Ns) (n : Ns)
    (h : (m :: rest).contains n = false) :
    touches n (markStep sh ⟨k, m :: rest, p⟩ m rest).1 = false := by
  have hr : rest.contains n = false := by simp_all
  unfold markStep
  split
  · cases k <;> simp_all [touches, afterMark]
  · split
    · exact touches_advance n _ rest hr
    · simp [touches]

theorem stepTask_frame (a : Bool) (sh : Shared) (t : Task) (n : Ns) (h : touches n t = false) :
    SameAt (stepTask a sh t).2 sh n ∧ touches n (stepTask a sh t).1 = false := by
  obtain ⟨k, todo, pc⟩ := t
  cases pc with
  | chandler =>
    simp only [stepTask]
    refine ⟨SameAt.refl _ _, ?_⟩
    cases k <;> simp_all [touches, chNext]
  | csend => simp only [stepTask]; exact ⟨SameAt.refl _ _, by simp [touches]⟩
  | done =>
    have e : stepTask a sh ⟨k, todo, .done⟩ = (⟨k, todo, .done⟩, sh) := by unfold stepTask; simp
    rw [e]; exact ⟨SameAt.refl _ _, h⟩
  | raised =>
    have e : stepTask a sh ⟨k, todo, .raised⟩ = (⟨k, todo, .raised⟩, sh) := by unfold stepTask; simp
    rw [e]; exact ⟨SameAt.refl _ _, h⟩
  | check =>
    cases todo with
    | nil => simp only [stepTask]; exact ⟨SameAt.refl _ _, by simp [touches]⟩
    | cons m rest =>
      have hc : (m :: rest).contains n = false := by simpa [touches] using h
      have hne : n ≠ m := by intro hx; subst hx; simp at hc
      have hr : rest.contains n = false := by simp_all
      simp only [stepTask]
      split
      · split
        · exact ⟨markStep_sameAt sh _ m rest n hne, markStep_touches sh k .check m rest n hc⟩
        · exact ⟨SameAt.refl _ _, by simpa [touches] using hc⟩
      · exact ⟨SameAt.refl _ _, touches_advance n _ rest hr⟩
  | mark =>
    cases todo with
    | nil =>
      have e : stepTask a sh ⟨k, [], .mark⟩ = (⟨k, [], .mark⟩, sh) := by unfold stepTask; simp
      rw [e]; exact ⟨SameAt.refl _ _, h⟩
    | cons m rest =>
      have hc : (m :: rest).contains n = false := by simpa [touches] using h
      have hne : n ≠ m := by intro hx; subst hx; simp at hc
      simp only [stepTask]
      exact ⟨markStep_sameAt sh _ m rest n hne, markStep_touches sh k .mark m rest n hc⟩
  | send =>
    cases todo with
    | nil =>
      have e : stepTask a sh ⟨k, [], .send⟩ = (⟨k, [], .send⟩, sh) := by unfold stepTask; simp
      rw [e]; exact ⟨SameAt.refl _ _, h⟩
    | cons m rest =>
      have hc : (m :: rest).contains n = false := by simpa [touches] using h
      have hne : n ≠ m := by intro hx; subst hx; simp at hc
      simp only [stepTask]
      split
      · exact ⟨by simp [SameAt, upd, hne], by simpa [touches] using hc⟩
      · exact ⟨by simp [SameAt], by simpa [touches] using hc⟩
  | handler =>
    cases todo with
    | nil =>
      have e : stepTask a sh ⟨k, [], .handler⟩ = (⟨k, [], .handler⟩, sh) := by unfold stepTask; simp
      rw [e]; exact ⟨SameAt.refl _ _, h⟩
    | cons m rest =>
      have hc : (m :: rest).contains n = false := by simpa [touches] using h
      have hne : n ≠ m := by intro hx; subst hx; simp at hc
      simp only [stepTask]
      exact ⟨by simp [SameAt, upd, hne], by simpa [touches] using hc⟩
  | cleanup =>
    cases todo with
    | nil =>
      have e : stepTask a sh ⟨k, [], .cleanup⟩ = (⟨k, [], .cleanup⟩, sh) := by unfold stepTask; simp
      rw [e]; exact ⟨SameAt.refl _ _, h⟩
    | cons m rest =>
      have hc : (m :: rest).contains n = false := by simpa [touches] using h
      have hne : n ≠ m := by intro hx; subst hx; simp at hc
      have hr : rest.contains n = false := by simp_all
      simp only [stepTask]
      refine ⟨?_, touches_advance n _ rest hr⟩
      split
      · simp [SameAt, upd, hne]
      · exact SameAt.refl _ _

theorem step_frame (a : Bool) (st : St) (i : Nat) (n : Ns) (h : targeted st n = false) :
    SameAt (step a st i).sh st.sh n ∧ targeted (step a st i) n = false := by
  unfold step
  cases hi : st.tasks[i]? with
  | none => exact ⟨SameAt.refl _ _, h⟩
  | some t =>
    have hall : ∀ u ∈ st.tasks, touches n u = false := by
      simpa [targeted] using h
    obtain ⟨h1, h4⟩ := stepTask_frame a st.sh t n (hall t (mem_of_getElem? hi))
    refine ⟨h1, ?_⟩
    simp only [targeted, List.any_eq_false]
    intro u hu
    rcases mem_set_cases hu with hu | rfl
    · simp [hall u hu]
    · simp [h4]

theorem run_frame (a : Bool) (sched : List Nat) (st : St) (n : Ns) (h : targeted st n = false) :
    SameAt (run a st sched).sh st.sh n := by
  induction sched generalizing st with
  | nil => exact SameAt.refl _ _
  | cons i r ih =>
    simp only [run, List.foldl_cons]
    obtain ⟨h1, h4⟩ := step_frame a st i n h
    exact (ih (step a st i) h4).trans h1

/-! ## quiescence: a targeted namespace does not stay untouched -/

/-- task `t` has a `check` of namespace `n` still ahead of it -/
def wants (n : Ns) (t : Task) : Bool :=
  match t.pc with
  | .check => t.todo.contains n
  | .chandler => t.kind == .refuse && t.todo.contains n
  | .mark | .send | .handler | .cleanup => t.todo.tail.contains n
  | _ => false

def nWants (st : St) (n : Ns) : Nat := st.tasks.countP (wants n)

/-- namespace n is untouched: connected, not pending, nobody in its gate window -/
def Untouched (st : St) (n : Ns) : Prop :=
  st.sh.mem n = true ∧ st.sh.pend n = 0 ∧ cnt st n 1 = 0

theorem wants_advance (n : Ns) (t : Task) (rest : List Ns) :
    wants n (advance t rest) = rest.contains n := by
  unfold advance wants
  cases rest <;> simp

theorem markStep_other (sh : Shared) (t : Task) (m : Ns) (rest : List Ns) (n : Ns) (hne : m ≠ n) :
    (markStep sh t m rest).2.mem n = sh.mem n ∧ (markStep sh t m rest).2.pend n = sh.pend n := by
  unfold markStep
  have : n ≠ m := Ne.symm hne
  split
  · simp [upd, this]
  · split <;> simp [upd, this]

theorem markStep_same (sh : Shared) (t : Task) (m : Ns) (rest : List Ns) :
    (markStep sh t m rest).2.pend m = sh.pend m + 1 := by
  unfold markStep
  split
  · simp [upd]
  · split <;> simp [upd]

theorem markStep_wants (sh : Shared) (k : Kind) (p : Pc) (m : Ns) (rest : List Ns) (n : Ns)
    (hr : (markStep sh ⟨k, m :: rest, p⟩ m rest).1.pc ≠ .raised) :
    wants n (markStep sh ⟨k, m :: rest, p⟩ m rest).1 = rest.contains n ∧
    (m ≠ n → cls n (markStep sh ⟨k, m :: rest, p⟩ m rest).1 = 0) := by
  unfold markStep at hr ⊢
  split
  · constructor
    · cases k <;> simp [wants, afterMark]
    · intro hne; simp [cls, hne]
  · split
    · exact ⟨wants_advance n _ rest, fun _ => cls_advance n _ rest⟩
    · rename_i h1 h2; simp [h1, h2] at hr

theorem cls_ne_one_of_pc (n : Ns) (t : Task) (h : t.pc ≠ .mark) : cls n t ≠ 1 :=
  fun hx => h ((cls_one_iff n t).mp hx).1

theorem stepTask_untouched (a : Bool) (sh : Shared) (t : Task) (n : Ns)
    (hm : (stepTask a sh t).2.mem n = true) (hp : (stepTask a sh t).2.pend n = 0)
    (hc : cls n (stepTask a sh t).1 ≠ 1) (hr : (stepTask a sh t).1.pc ≠ .raised) :
    sh.mem n = true ∧ sh.pend n = 0 ∧ cls n t ≠ 1 ∧ wants n (stepTask a sh t).1 = wants n t := by
  obtain ⟨k, todo, pc⟩ := t
  cases pc with
  | chandler =>
    simp only [stepTask] at hm hp ⊢
    exact ⟨hm, hp, cls_ne_one_of_pc n _ (by simp), by cases k <;> simp [wants, chNext]⟩
  | csend =>
    simp only [stepTask] at hm hp ⊢
    exact ⟨hm, hp, cls_ne_one_of_pc n _ (by simp), by simp [wants]⟩
  | done =>
    have e : stepTask a sh ⟨k, todo, .done⟩ = (⟨k, todo, .done⟩, sh) := by unfold stepTask; simp
    rw [e] at hm hp ⊢; exact ⟨hm, hp, cls_ne_one_of_pc n _ (by simp), rfl⟩
  | raised =>
    have e : stepTask a sh ⟨k, todo, .raised⟩ = (⟨k, todo, .raised⟩, sh) := by unfold stepTask; simp
    rw [e] at hm hp ⊢; exact ⟨hm, hp, cls_ne_one_of_pc n _ (by simp), rfl⟩
  | check =>
    cases todo with
    | nil =>
      simp only [stepTask] at hm hp ⊢
      exact ⟨hm, hp, cls_ne_one_of_pc n _ (by simp), by simp [wants]⟩
    | cons m rest =>
      have hcl : cls n ⟨k, m :: rest, .check⟩ ≠ 1 := cls_ne_one_of_pc n _ (by simp)
      simp only [stepTask] at hm hp hc hr ⊢
      by_cases hmn : m = n
      · subst hmn
        exfalso
        by_cases hconn : connected sh m = true
        · simp only [hconn, if_true] at hm hp hc
          cases a with
          | true =>
            simp only [if_true] at hp
            rw [markStep_same] at hp; omega
          | false =>
            simp only [Bool.false_eq_true, if_false] at hc
            exact hc (by simp [cls])
        · have hconn' := hconn
          simp only [hconn, Bool.false_eq_true, if_false] at hm hp
          simp [connected, hm, hp] at hconn'
      · by_cases hconn : connected sh m = true
        · simp only [hconn, if_true] at hm hp hc hr ⊢
          cases a with
          | true =>
            simp only [if_true] at hm hp hc hr ⊢
            obtain ⟨e1, e2⟩ := markStep_other sh ⟨k, m :: rest, .check⟩ m rest n hmn
            refine ⟨e1 ▸ hm, e2 ▸ hp, hcl, ?_⟩
            rw [(markStep_wants sh k .check m rest n hr).1]
            simp [wants, Ne.symm hmn]
          | false =>
            simp only [Bool.false_eq_true, if_false] at hm hp ⊢
            exact ⟨hm, hp, hcl, by simp [wants, Ne.symm hmn]⟩
        · simp only [hconn, Bool.false_eq_true, if_false] at hm hp ⊢
          refine ⟨hm, hp, hcl, ?_⟩
          rw [wants_advance]; simp [wants, Ne.symm hmn]
  | mark =>
    cases todo with
    | nil =>
      have e : stepTask a sh ⟨k, [], .mark⟩ = (⟨k, [], .mark⟩, sh) := by unfold stepTask; simp
      rw [e] at hm hp ⊢; exact ⟨hm, hp, by simp [cls], rfl⟩
    | cons m rest =>
      simp only [stepTask] at hm hp hc hr ⊢
      by_cases hmn : m = n
      · subst hmn; exfalso; rw [markStep_same] at hp; omega
      · obtain ⟨e1, e2⟩ := markStep_other sh ⟨k, m :: rest, .mark⟩ m rest n hmn
        refine ⟨e1 ▸ hm, e2 ▸ hp, by simp [cls, hmn], ?_⟩
        rw [(markStep_wants sh k .mark m rest n hr).1]
        simp [wants]
  | send =>
    cases todo with
    | nil =>
      have e : stepTask a sh ⟨k, [], .send⟩ = (⟨k, [], .send⟩, sh) := by unfold stepTask; simp
      rw [e] at hm hp ⊢; exact ⟨hm, hp, by simp [cls], rfl⟩
    | cons m rest =>
      have hcl : cls n ⟨k, m :: rest, .send⟩ ≠ 1 := cls_ne_one_of_pc n _ (by simp)
      by_cases hk : k = .refuse
      · subst hk
        simp only [stepTask, ↓reduceIte] at hm hp ⊢
        exact ⟨hm, hp, hcl, by simp [wants]⟩
      · simp only [stepTask, hk, ↓reduceIte] at hm hp ⊢
        exact ⟨hm, hp, hcl, by simp [wants]⟩
  | handler =>
    cases todo with
    | nil =>
      have e : stepTask a sh ⟨k, [], .handler⟩ = (⟨k, [], .handler⟩, sh) := by unfold stepTask; simp
      rw [e] at hm hp ⊢; exact ⟨hm, hp, by simp [cls], rfl⟩
    | cons m rest =>
      simp only [stepTask] at hm hp ⊢
      exact ⟨hm, hp, cls_ne_one_of_pc n _ (by simp), by simp [wants]⟩
  | cleanup =>
    cases todo with
    | nil =>
      have e : stepTask a sh ⟨k, [], .cleanup⟩ = (⟨k, [], .cleanup⟩, sh) := by unfold stepTask; simp
      rw [e] at hm hp ⊢; exact ⟨hm, hp, by simp [cls], rfl⟩
    | cons m rest =>
      simp only [stepTask] at hm hp ⊢
      have hcl : cls n ⟨k, m :: rest, .cleanup⟩ ≠ 1 := cls_ne_one_of_pc n _ (by simp)
      by_cases hmn : m = n
      · subst hmn
        exfalso
        by_cases hal : alive sh m = true
        · simp [hal, upd] at hm
        · have hal' := hal
          simp only [hal, Bool.false_eq_true, if_false] at hm
          simp [alive, hm] at hal'
      · have hnm : n ≠ m := Ne.symm hmn
        by_cases hal : alive sh m = true
        · simp [hal, upd, hnm] at hm hp
          exact ⟨hm, hp, hcl, by rw [wants_advance]; simp [wants]⟩
        · simp only [hal, Bool.false_eq_true, if_false] at hm hp
          exact ⟨hm, hp, hcl, by rw [wants_advance]; simp [wants]⟩

theorem step_untouched (a : Bool) (st : St) (i : Nat) (n : Ns) (h : Untouched (step a st i) n)
    (hr : ∀ t ∈ (step a st i).tasks, t.pc ≠ .raised) :
    Untouched st n ∧ nWants (step a st i) n = nWants st n := by
  unfold step at h ⊢
  cases hi : st.tasks[i]? with
  | none => simp only [hi] at h; exact ⟨h, rfl⟩
  | some t =>
    simp only [hi] at h ⊢
    obtain ⟨hm, hp, hc⟩ := h
    simp only [cnt_mk] at hc
    have h1 := cnt_set st i t (stepTask a st.sh t).1 hi n 1
    have hw := countP_set_some (wants n) st.tasks i t (stepTask a st.sh t).1 hi
    have hc1 : cls n (stepTask a st.sh t).1 ≠ 1 := by
      intro hx; rw [hx] at h1; simp only [if_true] at h1
      have hpos := cnt_pos st i t hi n
      by_cases hct : cls n t = 1
      · rw [hct] at hpos; simp only [hct, if_true] at h1; omega
      · simp only [hct, if_false] at h1; omega
    have hr1 : (stepTask a st.sh t).1.pc ≠ .raised := by
      apply hr; unfold step; simp only [hi]
      obtain ⟨hlt, _⟩ := List.getElem?_eq_some_iff.mp hi
      exact List.mem_set hlt _
    obtain ⟨g1, g2, g3, g4⟩ := stepTask_untouched a st.sh t n hm hp hc1 hr1
    refine ⟨⟨g1, g2, ?_⟩, ?_⟩
    · simp [g3, hc1] at h1; omega
    · unfold nWants; simp only
      rw [g4] at hw; omega


theorem run_untouched (a : Bool) (sched : List Nat) (st : St) (n : Ns)
    (hr : ∀ pre, pre <+: sched → ∀ t ∈ (run a st pre).tasks, t.pc ≠ .raised)
    (h : Untouched (run a st sched) n) :
    Untouched st n ∧ nWants (run a st sched) n = nWants st n := by
  induction sched generalizing st with
  | nil => exact ⟨h, rfl⟩
  | cons i r ih =>
    simp only [run, List.foldl_cons] at h ⊢
    have hr' : ∀ pre, pre <+: r → ∀ t ∈ (run a (step a st i) pre).tasks, t.pc ≠ .raised := by
      intro pre hpre
      have := hr (i :: pre) (List.prefix_cons_inj i |>.mpr hpre)
      simpa [run] using this
    obtain ⟨h1, h2⟩ := ih (step a st i) hr' h
    have hr0 := hr [i] (by simp)
    simp only [run, List.foldl_cons, List.foldl_nil] at hr0
    obtain ⟨g1, g2⟩ := step_untouched a st i n h1 hr0
    exact ⟨g1, h2.trans g2⟩

/-! ## the gate record only grows; refusals are recorded only for namespaces a refusing CONNECT targets -/

theorem markStep_marks (sh : Shared) (t : Task) (m : Ns) (rest : List Ns) (n : Ns) :
    (markStep sh t m rest).2.marks n = sh.marks n ∨
    (m = n ∧ (markStep sh t m rest).2.marks n = t.kind :: sh.marks n) := by
  by_cases hmn : m = n
  · subst hmn
    right
    refine ⟨rfl, ?_⟩
    unfold markStep
    split
    · simp [upd]
    · split <;> simp [upd]
  · left
    have : n ≠ m := Ne.symm hmn
    unfold markStep
    split
    · simp [upd, this]
    · split <;> simp [upd, this]

/-- one step changes `marks n` only by a task whose current namespace is `n` pushing its own kind -/
theorem stepTask_marks (a : Bool) (sh : Shared) (t : Task) (n : Ns) :
    (stepTask a sh t).2.marks n = sh.marks n ∨
    (t.todo.head? = some n ∧ (stepTask a sh t).2.marks n = t.kind :: sh.marks n) := by
  obtain ⟨k, todo, pc⟩ := t
  cases pc with
  | chandler => left; simp [stepTask]
  | csend => left; simp [stepTask]
  | done => left; unfold stepTask; simp
  | raised => left; unfold stepTask; simp
  | check =>
    cases todo with
    | nil => left; simp [stepTask]
    | cons m rest =>
      simp only [stepTask]
      split
      · split
        · rcases markStep_marks sh ⟨k, m :: rest, .check⟩ m rest n with h | ⟨h1, h2⟩
          · exact Or.inl h
          · exact Or.inr ⟨by simp [h1], h2⟩
        · exact Or.inl rfl
      · exact Or.inl rfl
  | mark =>
    cases todo with
    | nil => left; unfold stepTask; simp
    | cons m rest =>
      simp only [stepTask]
      rcases markStep_marks sh ⟨k, m :: rest, .mark⟩ m rest n with h | ⟨h1, h2⟩
      · exact Or.inl h
      · exact Or.inr ⟨by simp [h1], h2⟩
  | send =>
    cases todo with
    | nil => left; unfold stepTask; simp
    | cons m rest => left; simp only [stepTask]; split <;> rfl
  | handler =>
    cases todo with
    | nil => left; unfold stepTask; simp
    | cons m rest => left; simp [stepTask]
  | cleanup =>
    cases todo with
    | nil => left; unfold stepTask; simp
    | cons m rest => left; simp only [stepTask]; split <;> rfl

theorem step_marks (a : Bool) (st : St) (i : Nat) (n : Ns) :
    ∃ l, (step a st i).sh.marks n = l ++ st.sh.marks n := by
  unfold step
  cases hi : st.tasks[i]? with
  | none => exact ⟨[], rfl⟩
  | some t =>
    rcases stepTask_marks a st.sh t n with h | ⟨_, h⟩
    · exact ⟨[], by simpa using h⟩
    · exact ⟨[t.kind], by simpa using h⟩

theorem run_marks (a : Bool) (sched : List Nat) (st : St) (n : Ns) :
    ∃ l, (run a st sched).sh.marks n = l ++ st.sh.marks n := by
  induction sched generalizing st with
  | nil => exact ⟨[], rfl⟩
  | cons i r ih =>
    simp only [run, List.foldl_cons]
    obtain ⟨l1, h1⟩ := step_marks a st i n
    obtain ⟨l2, h2⟩ := ih (step a st i)
    exact ⟨l2 ++ l1, by simp only [run] at h2; rw [h2, h1, List.append_assoc]⟩

/-- a refusal recorded at the gate of `n` stays recorded -/
theorem run_nref_mono (a : Bool) (sched : List Nat) (st : St) (n : Ns) :
    nref (st.sh.marks n) ≤ nref ((run a st sched).sh.marks n) := by
  obtain ⟨l, h⟩ := run_marks a sched st n
  rw [h]; simp [nref, List.count_append]

/-- some refusing CONNECT (a task of kind `refuse`) has namespace `n` on its list -/
def refuseTargets (st : St) (n : Ns) : Bool :=
  st.tasks.any (fun t => t.kind == .refuse && t.todo.contains n)

theorem stepTask_kind_todo (a : Bool) (sh : Shared) (t : Task) :
    (stepTask a sh t).1.kind = t.kind ∧ ∀ n, n ∈ (stepTask a sh t).1.todo → n ∈ t.todo := by
  have hadv : ∀ (t : Task) (m : Ns) (rest : List Ns), t.todo = m :: rest →
      (advance t rest).kind = t.kind ∧ ∀ n, n ∈ (advance t rest).todo → n ∈ t.todo := by
    intro t m rest h
    exact ⟨rfl, fun n hn => by rw [h]; exact List.mem_cons_of_mem _ hn⟩
  have hmk : ∀ (t : Task) (m : Ns) (rest : List Ns), t.todo = m :: rest →
      (markStep sh t m rest).1.kind = t.kind ∧
      ∀ n, n ∈ (markStep sh t m rest).1.todo → n ∈ t.todo := by
    intro t m rest h
    unfold markStep
    split
    · exact ⟨rfl, fun n hn => hn⟩
    · split
      · exact hadv t m rest h
      · exact ⟨rfl, fun n hn => hn⟩
  obtain ⟨k, todo, pc⟩ := t
  cases pc with
  | chandler => simp [stepTask]
  | csend => simp [stepTask]
  | done => unfold stepTask; simp
  | raised => unfold stepTask; simp
  | check =>
    cases todo with
    | nil => simp [stepTask]
    | cons m rest =>
      simp only [stepTask]
      split
      · split
        · exact hmk _ m rest rfl
        · exact ⟨rfl, fun n hn => hn⟩
      · exact hadv _ m rest rfl
  | mark =>
    cases todo with
    | nil => unfold stepTask; simp
    | cons m rest => simp only [stepTask]; exact hmk _ m rest rfl
  | send =>
    cases todo with
    | nil => unfold stepTask; simp
    | cons m rest => simp only [stepTask]; split <;> exact ⟨rfl, fun n hn => hn⟩
  | handler =>
    cases todo with
    | nil => unfold stepTask; simp
    | cons m rest => simp [stepTask]
  | cleanup =>
    cases todo with
    | nil => unfold stepTask; simp
    | cons m rest => simp only [stepTask]; exact hadv _ m rest rfl

theorem step_refuseTargets (a : Bool) (st : St) (i : Nat) (n : Ns)
    (h : refuseTargets st n = false) :
    refuseTargets (step a st i) n = false ∧
    nref ((step a st i).sh.marks n) = nref (st.sh.marks n) := by
  have hall : ∀ u ∈ st.tasks, ¬ (u.kind = .refuse ∧ n ∈ u.todo) := by
    simpa [refuseTargets] using h
  unfold step
  cases hi : st.tasks[i]? with
  | none => exact ⟨h, rfl⟩
  | some t =>
    have ht := hall t (mem_of_getElem? hi)
    obtain ⟨hk, htd⟩ := stepTask_kind_todo a st.sh t
    constructor
    · simp only [refuseTargets, List.any_eq_false]
      intro u hu
      rcases mem_set_cases hu with hu | rfl
      · have := hall u hu; simpa using this
      · have : ¬ ((stepTask a st.sh t).1.kind = .refuse ∧ n ∈ (stepTask a st.sh t).1.todo) :=
          fun hx => ht ⟨hk ▸ hx.1, htd n hx.2⟩
        simpa using this
    · simp only
      rcases stepTask_marks a st.sh t n with hm | ⟨hh, hm⟩
      · rw [hm]
      · rw [hm]
        have hmem : n ∈ t.todo := by
          cases htd' : t.todo with
          | nil => simp [htd'] at hh
          | cons m r => simp [htd'] at hh; simp [hh]
        have hkr : t.kind ≠ .refuse := fun hx => ht ⟨hx, hmem⟩
        cases hkk : t.kind <;> simp_all [nref]

theorem run_refuseTargets (a : Bool) (sched : List Nat) (st : St) (n : Ns)
    (h : refuseTargets st n = false) :
    nref ((run a st sched).sh.marks n) = nref (st.sh.marks n) := by
  induction sched generalizing st with
  | nil => rfl
  | cons i r ih =>
    simp only [run, List.foldl_cons]
    obtain ⟨h1, h2⟩ := step_refuseTargets a st i n h
    have := ih (step a st i) h1
    simp only [run] at this
    rw [this, h2]

/-! ## consequences of the invariant -/

theorem inv_calls_le (m0 : Ns → Bool) (st : St) (hI : Inv m0 st) (n : Ns) : ncalls st n ≤ 1 :=
  (phase_gate (hI.phase n)).2.2.2.1

theorem inv_anyRaised (m0 : Ns → Bool) (st : St) (hI : Inv m0 st) : anyRaised st = false := by
  simp only [anyRaised, List.any_eq_false]
  intro t ht
  simpa using hI.noRaise t ht

theorem marks_refuse {l : List Kind} (h1 : l.length = 1) (h2 : nref l = 1) : l = [.refuse] := by
  match l, h1 with
  | [k], _ => cases k <;> simp_all [nref]

theorem marks_single {l : List Kind} {k : Kind} (h : l.length ≤ 1) (hm : k ∈ l) : l = [k] := by
  match l, h, hm with
  | [x], _, hx => simp at hx; rw [hx]

theorem marks_cause {l : List Kind} (h1 : l.length = 1) (h2 : nref l = 0) :
    ∃ k, k ≠ .refuse ∧ l = [k] := by
  match l, h1 with
  | [k], _ => exact ⟨k, by cases k <;> simp_all [nref], rfl⟩

/-- task `t` is a refusing CONNECT that has passed the gate of `n` (marked the session as going
    away) and has not yet finished its cleanup -/
def refusedPast (n : Ns) (t : Task) : Bool :=
  t.kind == .refuse && t.todo.head? == some n && (t.pc == .send || t.pc == .cleanup)

theorem refusedPast_cls (n : Ns) (t : Task) (h : refusedPast n t = true) :
    cls n t = 4 ∨ cls n t = 5 := by
  obtain ⟨k, todo, pc⟩ := t
  cases todo with
  | nil => simp [refusedPast] at h
  | cons m r =>
    simp only [refusedPast, Bool.and_eq_true, Bool.or_eq_true, beq_iff_eq, List.head?_cons,
      Option.some.injEq] at h
    obtain ⟨⟨hk, hm⟩, hp⟩ := h
    subst hk hm
    rcases hp with hp | hp <;> subst hp <;> simp [cls]

/-- under the invariant: a refusing CONNECT past the gate of `n` is the only task that ever passed
    it, and the disconnect handler has not been invoked -/
theorem inv_refusedPast (m0 : Ns → Bool) (st : St) (hI : Inv m0 st) (n : Ns)
    (h : st.tasks.any (refusedPast n) = true) : nref (st.sh.marks n) = 1 := by
  obtain ⟨t, ht, hp⟩ := List.any_eq_true.mp h
  have hpos := cnt_pos_of_mem st t ht n
  have hg := (phase_gate (hI.phase n)).2.2.2.2.2
  rcases refusedPast_cls n t hp with hc | hc <;> rw [hc] at hpos <;> omega

/-- a refusal recorded at the gate excludes handler calls for ever -/
theorem inv_refused (m0 : Ns → Bool) (st : St) (hI : Inv m0 st) (n : Ns)
    (h : 1 ≤ nref (st.sh.marks n)) : st.sh.calls n = [] ∧ st.sh.marks n = [.refuse] := by
  have hph := hI.phase n
  have hg := phase_gate hph
  have hc : ncalls st n = 0 := hg.2.2.2.2.1 h
  refine ⟨List.eq_nil_of_length_eq_zero hc, marks_refuse ?_ ?_⟩ <;> omega

theorem allDone_cnt (st : St) (h : allDone st = true) (n : Ns) (k : Nat) (hk : k ≠ 0) :
    cnt st n k = 0 := by
  unfold cnt cntL
  apply List.countP_eq_zero.mpr
  intro t ht
  have hf : finished t = true := by
    simp only [allDone, List.all_eq_true] at h; exact h t ht
  have : cls n t = 0 := by
    apply cls_of_pc_zero
    simp only [finished, Bool.or_eq_true, beq_iff_eq] at hf
    rcases hf with hf | hf <;> simp [hf]
  simp [this]; omega

theorem allDone_nWants (st : St) (h : allDone st = true) (n : Ns) : nWants st n = 0 := by
  unfold nWants
  apply List.countP_eq_zero.mpr
  intro t ht
  have hf : finished t = true := by
    simp only [allDone, List.all_eq_true] at h; exact h t ht
  simp only [finished, Bool.or_eq_true, beq_iff_eq] at hf
  rcases hf with hf | hf <;> simp [wants, hf]

/-- at quiescence a namespace the sid was connected to and that some task still had to check at
    the start has ended — no membership, not pending — in exactly one of two ways: a terminating
    cause won the gate and the handler ran once (no refusal was sent), or a refusing CONNECT won it,
    the refusal was sent once and the handler never ran -/
theorem quiescent_ended (a : Bool) (m0 : Ns → Bool) (st0 : St) (sched : List Nat) (n : Ns)
    (hI : ∀ pre, pre <+: sched → Inv m0 (run a st0 pre))
    (hd : allDone (run a st0 sched) = true) (hm0 : m0 n = true) (hw : 0 < nWants st0 n) :
    (run a st0 sched).sh.mem n = false ∧ (run a st0 sched).sh.pend n = 0 ∧
    ((ncalls (run a st0 sched) n = 1 ∧ (run a st0 sched).sh.refusals n = 0 ∧
        ((run a st0 sched).sh.marks n).length = 1 ∧ nref ((run a st0 sched).sh.marks n) = 0) ∨
     (ncalls (run a st0 sched) n = 0 ∧ (run a st0 sched).sh.refusals n = 1 ∧
        ((run a st0 sched).sh.marks n).length = 1 ∧ nref ((run a st0 sched).sh.marks n) = 1)) := by
  have hph := (hI sched (List.prefix_refl _)).phase n
  have c1 := allDone_cnt _ hd n 1 (by omega)
  have c2 := allDone_cnt _ hd n 2 (by omega)
  have c3 := allDone_cnt _ hd n 3 (by omega)
  have c4 := allDone_cnt _ hd n 4 (by omega)
  have c5 := allDone_cnt _ hd n 5 (by omega)
  have hnot : ¬ Untouched (run a st0 sched) n := by
    intro hu
    have := (run_untouched a sched st0 n (fun pre hp => (hI pre hp).noRaise) hu).2
    rw [allDone_nWants _ hd n] at this
    omega
  rw [c1, c2, c3, c4, c5, hm0] at hph
  cases hmem : (run a st0 sched).sh.mem n
  · rw [hmem] at hph
    simp [Phase] at hph
    refine ⟨rfl, ?_, ?_⟩ <;> omega
  · exfalso
    rw [hmem] at hph
    simp [Phase] at hph
    exact hnot ⟨hmem, by omega, c1⟩

/-! ## initial states -/

/-- nobody has started (every task is at its first pc or already over), nothing pending, no
    handler call recorded, no refusal sent, nobody has passed a gate -/
structure Init (st : St) : Prop where
  pcs : ∀ t ∈ st.tasks, t.pc = .check ∨ t.pc = .chandler ∨ t.pc = .done
  pend : ∀ n, st.sh.pend n = 0
  calls : ∀ n, st.sh.calls n = []
  contained : st.sh.contained = 0
  refusals : ∀ n, st.sh.refusals n = 0
  marks : ∀ n, st.sh.marks n = []

theorem init_inv (st : St) (h : Init st) : Inv st.sh.mem st ∧ noMark st := by
  have hz : ∀ n k, k ≠ 0 → cnt st n k = 0 := by
    intro n k hk
    unfold cnt cntL
    apply List.countP_eq_zero.mpr
    intro t ht
    have : cls n t = 0 := by
      apply cls_of_pc_zero
      rcases h.pcs t ht with hp | hp | hp <;> simp [hp]
    simp [this]; omega
  refine ⟨⟨?_, h.contained, ?_, ?_⟩, ?_⟩
  · intro t ht; rcases h.pcs t ht with hp | hp | hp <;> simp [hp]
  · intro t ht _; rcases h.pcs t ht with hp | hp | hp <;> simp [hp]
  · intro n
    rw [hz n 1 (by omega), hz n 2 (by omega), hz n 3 (by omega), hz n 4 (by omega),
      hz n 5 (by omega)]
    simp only [ncalls, h.pend n, h.calls n, h.refusals n, h.marks n, List.length_nil, nref,
      List.count_nil]
    cases st.sh.mem n <;> simp [Phase]
  · intro t ht; rcases h.pcs t ht with hp | hp | hp <;> simp [hp]

theorem init_wants (st : St) (h : Init st) (n : Ns) (ht : targeted st n = true) : 0 < nWants st n := by
  simp only [targeted, List.any_eq_true] at ht
  obtain ⟨t, hmem, htt⟩ := ht
  unfold nWants
  apply List.countP_pos_iff.mpr
  refine ⟨t, hmem, ?_⟩
  rcases h.pcs t hmem with hp | hp | hp <;> simp [touches, wants, hp] at htt ⊢ <;> exact htt

theorem mkSt_init (tasks : List (Kind × List Ns)) (conn others : List Ns) :
    Init (mkSt tasks conn others) := by
  refine ⟨?_, fun _ => rfl, fun _ => rfl, rfl, fun _ => rfl, fun _ => rfl⟩
  intro t ht
  simp only [mkSt, List.mem_map] at ht
  obtain ⟨p, _, rfl⟩ := ht
  cases p.1 <;> simp [mkTask, startPc]

theorem gateSerial_prefix (pre sched : List Nat) (st : St) (hp : pre <+: sched)
    (h : gateSerial st sched = true) : gateSerial st pre = true := by
  induction pre generalizing st sched with
  | nil => rfl
  | cons i r ih =>
    cases sched with
    | nil => simp at hp
    | cons j r' =>
      have hij : i = j := (List.cons_prefix_cons.mp hp).1
      have hr : r <+: r' := (List.cons_prefix_cons.mp hp).2
      subst hij
      simp only [gateSerial, Bool.and_eq_true] at h ⊢
      exact ⟨h.1, ih r' (step false st i) hr h.2⟩

/-- everything the property says, from the invariant along the schedule -/
theorem conclusions (a : Bool) (st0 : St) (h0 : Init st0) (sched : List Nat)
    (hI : ∀ pre, pre <+: sched → Inv st0.sh.mem (run a st0 pre)) :
    (∀ n, ncalls (run a st0 sched) n ≤ 1)
    ∧ anyRaised (run a st0 sched) = false
    ∧ (run a st0 sched).sh.contained = 0
    ∧ (allDone (run a st0 sched) = true → ∀ n, st0.sh.mem n = true → targeted st0 n = true →
        residue (run a st0 sched) n = false ∧
        ((ncalls (run a st0 sched) n = 1 ∧ (run a st0 sched).sh.refusals n = 0 ∧
            ∃ k, k ≠ Kind.refuse ∧ (run a st0 sched).sh.marks n = [k]) ∨
         (ncalls (run a st0 sched) n = 0 ∧ (run a st0 sched).sh.refusals n = 1 ∧
            (run a st0 sched).sh.marks n = [Kind.refuse])) ∧
        (refuseTargets st0 n = false → ncalls (run a st0 sched) n = 1))
    ∧ (∀ n, st0.sh.mem n = false →
        ncalls (run a st0 sched) n = 0 ∧ residue (run a st0 sched) n = false)
    ∧ (∀ n, targeted st0 n = false →
        (run a st0 sched).sh.mem n = st0.sh.mem n ∧ ncalls (run a st0 sched) n = 0 ∧
        (run a st0 sched).sh.pend n = 0 ∧ (run a st0 sched).sh.refusals n = 0 ∧
        (run a st0 sched).sh.marks n = []) := by
  have hfin := hI sched (List.prefix_refl _)
  refine ⟨inv_calls_le _ _ hfin, inv_anyRaised _ _ hfin, hfin.noContained, ?_, ?_, ?_⟩
  · intro hd n hm ht
    obtain ⟨q2, q3, q⟩ := quiescent_ended a st0.sh.mem st0 sched n hI hd hm (init_wants st0 h0 n ht)
    refine ⟨by simp [residue, q2, q3], ?_, ?_⟩
    · rcases q with ⟨qa, qb, qc, qd⟩ | ⟨qa, qb, qc, qd⟩
      · exact Or.inl ⟨qa, qb, marks_cause qc qd⟩
      · exact Or.inr ⟨qa, qb, marks_refuse qc qd⟩
    · intro hrt
      have := run_refuseTargets a sched st0 n hrt
      rw [h0.marks n] at this
      simp only [nref, List.count_nil] at this
      rcases q with ⟨qa, _, _, _⟩ | ⟨_, _, _, qd⟩
      · exact qa
      · simp only [nref] at qd; omega
  · intro n hm
    have := hfin.phase n
    simp [Phase, hm] at this
    exact ⟨this.2.2.1, by simp [residue, this.1, this.2.1]⟩
  · intro n ht
    obtain ⟨f1, f2, f3, f4, f5⟩ := run_frame a sched st0 n ht
    exact ⟨f1, by simp [ncalls, f3, h0.calls n], by rw [f2, h0.pend n], by rw [f4, h0.refusals n],
      by rw [f5, h0.marks n]⟩

/-- the gate, from the invariant along the schedule: at most one task ever passes the gate of a
    namespace; every handler call belongs to a passing task that is not a refusal; a refusal is sent
    only by a refusing CONNECT that passed; once a refusing CONNECT has passed, no handler call -/
theorem gate_facts (m0 : Ns → Bool) (st : St) (hI : Inv m0 st) (n : Ns) :
    (st.sh.marks n).length ≤ 1
    ∧ ncalls st n + nref (st.sh.marks n) ≤ (st.sh.marks n).length
    ∧ st.sh.refusals n ≤ nref (st.sh.marks n)
    ∧ (Kind.refuse ∈ st.sh.marks n → st.sh.calls n = [] ∧ st.sh.marks n = [Kind.refuse]) := by
  have hg := phase_gate (hI.phase n)
  refine ⟨hg.1, hg.2.1, hg.2.2.1, fun hmem => inv_refused m0 st hI n ?_⟩
  exact List.count_pos_iff.mpr hmem

/-- once a refusal is recorded at the gate of `n` (after `s1`), no continuation `s2` of the schedule
    adds a handler call for `n` -/
theorem refused_sticky (a : Bool) (st0 : St) (s1 s2 : List Nat) (n : Ns)
    (hI : Inv st0.sh.mem (run a st0 (s1 ++ s2)))
    (h : 1 ≤ nref ((run a st0 s1).sh.marks n)) :
    (run a st0 (s1 ++ s2)).sh.calls n = [] ∧ (run a st0 (s1 ++ s2)).sh.marks n = [Kind.refuse] := by
  apply inv_refused _ _ hI n
  have := run_nref_mono a s2 (run a st0 s1) n
  rw [run_append]
  omega

/-! ## the reason handed to the handler: who passed the gate, who called the handler -/

/-- task `t` has passed the gate of `n` and is still working on `n` (position classes 2…5) -/
def past (n : Ns) (t : Task) : Bool := decide (2 ≤ cls n t)

/-- the step of task `i` in state `st` executes `pre_disconnect(sid, n)`: task `i` has kind `k`, its
    current namespace is `n`, and the step pushes `k` on the gate record of `n` -/
def marksAt (a : Bool) (st : St) (i : Nat) (n : Ns) (k : Kind) : Prop :=
  ∃ t, st.tasks[i]? = some t ∧ t.kind = k ∧ t.todo.head? = some n ∧
    (step a st i).sh.marks n = k :: st.sh.marks n

/-- the step of task `i` in state `st` invokes the application's disconnect handler for `n` with
    reason `k` = the kind of task `i` -/
def callsAt (a : Bool) (st : St) (i : Nat) (n : Ns) (k : Kind) : Prop :=
  ∃ t, st.tasks[i]? = some t ∧ t.kind = k ∧ t.todo.head? = some n ∧
    (step a st i).sh.calls n = k :: st.sh.calls n

/-- along `sched`, some step was task `i` (of kind `k`) passing the gate of `n` -/
def passedGate (a : Bool) (st0 : St) (sched : List Nat) (i : Nat) (n : Ns) (k : Kind) : Prop :=
  ∃ pre, pre ++ [i] <+: sched ∧ marksAt a (run a st0 pre) i n k

/-- along `sched`, some step was task `i` (of kind `k`) invoking the handler of `n`, and the same
    task had passed the gate of `n` before that step -/
def ranHandler (a : Bool) (st0 : St) (sched : List Nat) (i : Nat) (n : Ns) (k : Kind) : Prop :=
  ∃ pre, pre ++ [i] <+: sched ∧ callsAt a (run a st0 pre) i n k ∧ passedGate a st0 pre i n k

theorem snoc_induction {α : Type} {P : List α → Prop} (h0 : P [])
    (hs : ∀ l x, P l → P (l ++ [x])) (l : List α) : P l := by
  have : ∀ l : List α, P l.reverse := by
    intro l
    induction l with
    | nil => exact h0
    | cons x l ih => rw [List.reverse_cons]; exact hs _ _ ih
  have h := this l.reverse
  rwa [List.reverse_reverse] at h

theorem run_snoc (a : Bool) (st : St) (s : List Nat) (j : Nat) :
    run a st (s ++ [j]) = step a (run a st s) j := by
  simp [run, List.foldl_append]

theorem passedGate_mono (a : Bool) (st0 : St) (s s' : List Nat) (i : Nat) (n : Ns) (k : Kind)
    (hp : s <+: s') (h : passedGate a st0 s i n k) : passedGate a st0 s' i n k := by
  obtain ⟨pre, h1, h2⟩ := h
  exact ⟨pre, h1.trans hp, h2⟩

theorem ranHandler_mono (a : Bool) (st0 : St) (s s' : List Nat) (i : Nat) (n : Ns) (k : Kind)
    (hp : s <+: s') (h : ranHandler a st0 s i n k) : ranHandler a st0 s' i n k := by
  obtain ⟨pre, h1, h2⟩ := h
  exact ⟨pre, h1.trans hp, h2⟩

theorem past_advance (n : Ns) (t : Task) (rest : List Ns) : past n (advance t rest) = false := by
  simp [past, cls_advance]

theorem past_of_pc (n : Ns) (t : Task)
    (h : t.pc ≠ .send ∧ t.pc ≠ .handler ∧ t.pc ≠ .cleanup) : past n t = false := by
  obtain ⟨k, todo, pc⟩ := t
  simp only at h
  cases todo with
  | nil => simp [past, cls]
  | cons m r =>
    by_cases hm : m = n
    · cases pc <;> simp_all [past, cls]
    · simp [past, cls, hm]

theorem markStep_past (sh : Shared) (k : Kind) (p : Pc) (m : Ns) (rest : List Ns) (n : Ns)
    (h : past n (markStep sh ⟨k, m :: rest, p⟩ m rest).1 = true) :
    m = n ∧ (markStep sh ⟨k, m :: rest, p⟩ m rest).2.marks n = k :: sh.marks n := by
  have hmn : m = n := by
    unfold markStep at h
    split at h
    · by_cases hm : m = n
      · exact hm
      · simp [past, cls, hm] at h
    · split at h
      · rw [past_advance] at h; simp at h
      · simp [past_of_pc] at h
  refine ⟨hmn, ?_⟩
  rcases markStep_marks sh ⟨k, m :: rest, p⟩ m rest n with hx | ⟨_, hx⟩
  · exfalso
    subst hmn
    have : ((markStep sh ⟨k, m :: rest, p⟩ m rest).2.marks m).length = (sh.marks m).length + 1 := by
      unfold markStep
      split
      · simp [upd]
      · split <;> simp [upd]
    rw [hx] at this; omega
  · exact hx

/-- a step puts its task past the gate of `n` only by executing `pre_disconnect(sid, n)` -/
theorem stepTask_past (a : Bool) (sh : Shared) (t : Task) (n : Ns)
    (h : past n (stepTask a sh t).1 = true) :
    past n t = true ∨
    (t.todo.head? = some n ∧ (stepTask a sh t).2.marks n = t.kind :: sh.marks n) := by
  obtain ⟨k, todo, pc⟩ := t
  cases pc with
  | chandler =>
    simp only [stepTask] at h
    rw [past_of_pc n _ (chNext_ne k).2.2] at h; simp at h
  | csend => simp only [stepTask] at h; rw [past_of_pc n _ (by simp)] at h; simp at h
  | done =>
    have e : stepTask a sh ⟨k, todo, .done⟩ = (⟨k, todo, .done⟩, sh) := by unfold stepTask; simp
    rw [e] at h; exact Or.inl h
  | raised =>
    have e : stepTask a sh ⟨k, todo, .raised⟩ = (⟨k, todo, .raised⟩, sh) := by unfold stepTask; simp
    rw [e] at h; exact Or.inl h
  | check =>
    cases todo with
    | nil => simp only [stepTask] at h; rw [past_of_pc n _ (by simp)] at h; simp at h
    | cons m rest =>
      simp only [stepTask] at h ⊢
      split at h
      · split at h
        · rename_i h1 h2
          simp only [h1, h2, if_true]
          obtain ⟨e1, e2⟩ := markStep_past sh k .check m rest n h
          exact Or.inr ⟨by simp [e1], e2⟩
        · rw [past_of_pc n _ (by simp)] at h; simp at h
      · rw [past_advance] at h; simp at h
  | mark =>
    cases todo with
    | nil =>
      have e : stepTask a sh ⟨k, [], .mark⟩ = (⟨k, [], .mark⟩, sh) := by unfold stepTask; simp
      rw [e] at h; exact Or.inl h
    | cons m rest =>
      simp only [stepTask] at h ⊢
      obtain ⟨e1, e2⟩ := markStep_past sh k .mark m rest n h
      exact Or.inr ⟨by simp [e1], e2⟩
  | send =>
    cases todo with
    | nil =>
      have e : stepTask a sh ⟨k, [], .send⟩ = (⟨k, [], .send⟩, sh) := by unfold stepTask; simp
      rw [e] at h; exact Or.inl h
    | cons m rest =>
      left
      by_cases hm : m = n
      · subst hm; by_cases hk : k = .refuse <;> simp [past, cls, hk]
      · simp only [stepTask] at h
        split at h <;> simp [past, cls, hm] at h
  | handler =>
    cases todo with
    | nil =>
      have e : stepTask a sh ⟨k, [], .handler⟩ = (⟨k, [], .handler⟩, sh) := by unfold stepTask; simp
      rw [e] at h; exact Or.inl h
    | cons m rest =>
      left
      by_cases hm : m = n
      · subst hm; simp [past, cls]
      · simp only [stepTask] at h
        simp [past, cls, hm] at h
  | cleanup =>
    cases todo with
    | nil =>
      have e : stepTask a sh ⟨k, [], .cleanup⟩ = (⟨k, [], .cleanup⟩, sh) := by unfold stepTask; simp
      rw [e] at h; exact Or.inl h
    | cons m rest =>
      simp only [stepTask] at h
      rw [past_advance] at h; simp at h

theorem markStep_calls (sh : Shared) (t : Task) (m : Ns) (rest : List Ns) :
    (markStep sh t m rest).2.calls = sh.calls := by
  unfold markStep
  split
  · rfl
  · split <;> rfl

/-- a step changes `calls n` only by a task past the gate of `n` (at its handler pc) pushing its
    own kind -/
theorem stepTask_calls (a : Bool) (sh : Shared) (t : Task) (n : Ns) :
    (stepTask a sh t).2.calls n = sh.calls n ∨
    (t.todo.head? = some n ∧ past n t = true ∧ t.pc = .handler ∧
      (stepTask a sh t).2.calls n = t.kind :: sh.calls n) := by
  obtain ⟨k, todo, pc⟩ := t
  cases pc with
  | chandler => left; simp [stepTask]
  | csend => left; simp [stepTask]
  | done => left; unfold stepTask; simp
  | raised => left; unfold stepTask; simp
  | check =>
    cases todo with
    | nil => left; simp [stepTask]
    | cons m rest =>
      left
      simp only [stepTask]
      split
      · split
        · rw [markStep_calls]
        · rfl
      · rfl
  | mark =>
    cases todo with
    | nil => left; unfold stepTask; simp
    | cons m rest => left; simp only [stepTask]; rw [markStep_calls]
  | send =>
    cases todo with
    | nil => left; unfold stepTask; simp
    | cons m rest => left; simp only [stepTask]; split <;> rfl
  | handler =>
    cases todo with
    | nil => left; unfold stepTask; simp
    | cons m rest =>
      simp only [stepTask]
      by_cases hm : m = n
      · subst hm; right; simp [past, cls, upd]
      · left; simp [upd, Ne.symm hm]
  | cleanup =>
    cases todo with
    | nil => left; unfold stepTask; simp
    | cons m rest => left; simp only [stepTask]; split <;> rfl

theorem step_tasks_getElem? (a : Bool) (st : St) (j i : Nat) (t' : Task)
    (h : (step a st j).tasks[i]? = some t') :
    (i ≠ j ∧ st.tasks[i]? = some t' ∧ True) ∨
    (st.tasks[j]? = none ∧ st.tasks[i]? = some t') ∨
    (i = j ∧ ∃ t, st.tasks[j]? = some t ∧ t' = (stepTask a st.sh t).1 ∧
      (step a st j).sh = (stepTask a st.sh t).2) := by
  unfold step at h ⊢
  cases hj : st.tasks[j]? with
  | none => simp only [hj] at h; exact Or.inr (Or.inl ⟨rfl, h⟩)
  | some t =>
    simp only [hj] at h ⊢
    by_cases hij : i = j
    · subst hij
      right; right
      refine ⟨rfl, t, rfl, ?_, rfl⟩
      obtain ⟨hlt, _⟩ := List.getElem?_eq_some_iff.mp hj
      simp [hlt] at h
      exact h.symm
    · left
      refine ⟨hij, ?_, trivial⟩
      rw [List.getElem?_set] at h
      simpa [Ne.symm hij] using h

/-- kinds never change and `todo` only shrinks: task `i` of any reachable state is task `i` of the
    initial state further along -/
theorem run_kind_todo (a : Bool) (st0 : St) (sched : List Nat) (i : Nat) (t : Task)
    (h : (run a st0 sched).tasks[i]? = some t) :
    ∃ t0, st0.tasks[i]? = some t0 ∧ t0.kind = t.kind ∧ ∀ n, n ∈ t.todo → n ∈ t0.todo := by
  revert i t
  induction sched using snoc_induction with
  | h0 => intro i t h; exact ⟨t, h, rfl, fun _ hn => hn⟩
  | hs s j ih =>
    intro i t h
    rw [run_snoc] at h
    rcases step_tasks_getElem? a _ j i t h with ⟨_, h1, _⟩ | ⟨_, h1⟩ | ⟨hij, u, hu, ht, _⟩
    · exact ih i t h1
    · exact ih i t h1
    · subst hij
      obtain ⟨t0, g1, g2, g3⟩ := ih i u hu
      obtain ⟨k1, k2⟩ := stepTask_kind_todo a (run a st0 s).sh u
      refine ⟨t0, g1, ?_, ?_⟩
      · rw [ht, k1, g2]
      · intro n hn; rw [ht] at hn; exact g3 n (k2 n hn)

/-- **Who called, who passed.**  From a state in which no task is past a gate and no handler call is
    recorded, along ANY schedule (atomic gate or not, gate-serial or not):
    every task that is past the gate of `n` got there by its own `pre_disconnect(sid, n)` step, and
    every recorded handler call for `n` with reason `k` was made by a step of a task of kind `k` that
    had passed the gate of `n` before. -/
theorem trace_facts (a : Bool) (st0 : St) (n : Ns)
    (hp0 : ∀ (i : Nat) (t : Task), st0.tasks[i]? = some t → past n t = false) (hc0 : st0.sh.calls n = [])
    (sched : List Nat) :
    (∀ (i : Nat) (t : Task), (run a st0 sched).tasks[i]? = some t → past n t = true →
        passedGate a st0 sched i n t.kind) ∧
    (∀ k, k ∈ (run a st0 sched).sh.calls n → ∃ i, ranHandler a st0 sched i n k) := by
  induction sched using snoc_induction with
  | h0 =>
    constructor
    · intro i t h hp; rw [hp0 i t h] at hp; simp at hp
    · intro k hk; simp only [run, List.foldl_nil] at hk; rw [hc0] at hk; simp at hk
  | hs s j ih =>
    obtain ⟨ihA, ihB⟩ := ih
    have hpre : s <+: s ++ [j] := List.prefix_append s [j]
    constructor
    · intro i t h hp
      rw [run_snoc] at h
      rcases step_tasks_getElem? a _ j i t h with ⟨_, h1, _⟩ | ⟨_, h1⟩ | ⟨hij, u, hu, ht, hsh⟩
      · exact passedGate_mono a st0 _ _ i n _ hpre (ihA i t h1 hp)
      · exact passedGate_mono a st0 _ _ i n _ hpre (ihA i t h1 hp)
      · subst hij
        have hk : t.kind = u.kind := by rw [ht]; exact (stepTask_kind_todo a _ u).1
        rw [ht] at hp
        rcases stepTask_past a _ u n hp with hpu | ⟨hh, hm⟩
        · rw [hk]; exact passedGate_mono a st0 _ _ i n _ hpre (ihA i u hu hpu)
        · refine ⟨s, List.prefix_refl _, u, hu, hk.symm, hh, ?_⟩
          rw [hsh, hm, hk]
    · intro k hk
      rw [run_snoc] at hk
      have hstep : (step a (run a st0 s) j).sh.calls n = (run a st0 s).sh.calls n ∨
          ∃ u, (run a st0 s).tasks[j]? = some u ∧ u.todo.head? = some n ∧ past n u = true ∧
            (step a (run a st0 s) j).sh.calls n = u.kind :: (run a st0 s).sh.calls n := by
        unfold step
        cases hj : (run a st0 s).tasks[j]? with
        | none => exact Or.inl rfl
        | some u =>
          rcases stepTask_calls a (run a st0 s).sh u n with hx | ⟨h1, h2, _, h4⟩
          · exact Or.inl hx
          · exact Or.inr ⟨u, rfl, h1, h2, h4⟩
      rcases hstep with hx | ⟨u, hu, hh, hpu, hx⟩
      · rw [hx] at hk
        obtain ⟨i, hi⟩ := ihB k hk
        exact ⟨i, ranHandler_mono a st0 _ _ i n k hpre hi⟩
      · rw [hx] at hk
        rcases List.mem_cons.mp hk with rfl | hk
        · exact ⟨j, s, List.prefix_refl _, ⟨u, hu, rfl, hh, hx⟩, ihA j u hu hpu⟩
        · obtain ⟨i, hi⟩ := ihB k hk
          exact ⟨i, ranHandler_mono a st0 _ _ i n k hpre hi⟩

/-- a gate passage stays on the gate record -/
theorem passedGate_mem_marks (a : Bool) (st0 : St) (sched : List Nat) (i : Nat) (n : Ns) (k : Kind)
    (h : passedGate a st0 sched i n k) : k ∈ (run a st0 sched).sh.marks n := by
  obtain ⟨pre, ⟨rest, hr⟩, t, _, _, _, hm⟩ := h
  rw [← hr, run_append]
  obtain ⟨l, hl⟩ := run_marks a rest (run a st0 (pre ++ [i])) n
  rw [hl, run_snoc, hm]
  simp

/-- the passing task is a task of the initial state, of that kind, with `n` on its list -/
theorem passedGate_origin (a : Bool) (st0 : St) (sched : List Nat) (i : Nat) (n : Ns) (k : Kind)
    (h : passedGate a st0 sched i n k) :
    ∃ t0, st0.tasks[i]? = some t0 ∧ t0.kind = k ∧ n ∈ t0.todo := by
  obtain ⟨pre, _, t, ht, hk, hh, _⟩ := h
  obtain ⟨t0, g1, g2, g3⟩ := run_kind_todo a st0 pre i t ht
  refine ⟨t0, g1, g2.trans hk, g3 n ?_⟩
  cases htd : t.todo with
  | nil => simp [htd] at hh
  | cons m r => simp [htd] at hh; simp [hh]

theorem init_past (st : St) (h : Init st) (n : Ns) :
    ∀ (i : Nat) (t : Task), st.tasks[i]? = some t → past n t = false := by
  intro i t hi
  apply past_of_pc
  rcases h.pcs t (mem_of_getElem? hi) with hp | hp | hp <;> simp [hp]

/-- every reason recorded for `n` names a task of the initial state that has `n` on its list, passed
    the gate of `n` and then made the call — along any schedule, with or without an atomic gate -/
theorem reason_provenance (a : Bool) (st0 : St) (h0 : Init st0) (sched : List Nat) (n : Ns)
    (k : Kind) (hk : k ∈ (run a st0 sched).sh.calls n) :
    k ∈ (run a st0 sched).sh.marks n ∧
    ∃ i t0, st0.tasks[i]? = some t0 ∧ t0.kind = k ∧ n ∈ t0.todo ∧
      passedGate a st0 sched i n k ∧ ranHandler a st0 sched i n k := by
  obtain ⟨i, hr⟩ := (trace_facts a st0 n (init_past st0 h0 n) (h0.calls n) sched).2 k hk
  have hr' := hr
  obtain ⟨pre, hpre, _, hpg⟩ := hr'
  have hpg' : passedGate a st0 sched i n k :=
    passedGate_mono a st0 pre sched i n k ((List.prefix_append pre [i]).trans hpre) hpg
  obtain ⟨t0, g1, g2, g3⟩ := passedGate_origin a st0 sched i n k hpg'
  exact ⟨passedGate_mem_marks a st0 sched i n k hpg', i, t0, g1, g2, g3, hpg', hr⟩

/-! ### with the invariant: the reason is the gate winner -/

theorem calls_filter_aux (c m : List Kind) (x : Nat) (hsub : ∀ k ∈ c, k ∈ m)
    (h : (c.length = 0 ∧ (x ≠ 0 ∨ m.length = 0 ∨ (m.length = 1 ∧ nref m = 1))) ∨
         (c.length = 1 ∧ x = 0 ∧ m.length = 1 ∧ nref m = 0)) :
    c = if x = 0 then m.filter (· != Kind.refuse) else [] := by
  rcases h with ⟨hc, h⟩ | ⟨hc, hx, hm, hr⟩
  · have : c = [] := List.eq_nil_of_length_eq_zero hc
    subst this
    by_cases hx : x = 0
    · simp only [hx, if_true]
      rcases h with h | h | ⟨h1, h2⟩
      · exact absurd hx h
      · rw [List.eq_nil_of_length_eq_zero h]; rfl
      · rw [marks_refuse h1 h2]; rfl
    · simp [hx]
  · obtain ⟨k, hk, hmk⟩ := marks_cause hm hr
    match c, hc with
    | [k'], _ =>
      have : k' ∈ m := hsub k' (by simp)
      rw [hmk] at this
      simp at this
      subst this
      rw [hmk, if_pos hx]
      cases k' <;> simp_all

/-- under the invariant, the handler calls of `n` are exactly the non-refusal part of the gate record
    of `n`, as soon as no passing task is still on its way to the handler (`cnt st n 2 = 0`: nobody
    between `pre_disconnect` and `_trigger_event`); before that, there is none -/
theorem inv_calls_marks (m0 : Ns → Bool) (st : St) (hI : Inv m0 st) (n : Ns)
    (hsub : ∀ k ∈ st.sh.calls n, k ∈ st.sh.marks n) :
    st.sh.calls n = if cnt st n 2 = 0 then (st.sh.marks n).filter (· != Kind.refuse) else [] := by
  apply calls_filter_aux _ _ _ hsub
  have h := hI.phase n
  unfold Phase ncalls at h
  omega

theorem inv_reason_winner (m0 : Ns → Bool) (st : St) (hI : Inv m0 st) (n : Ns) (k : Kind)
    (hk : k ∈ st.sh.marks n) : st.sh.marks n = [k] :=
  marks_single (gate_facts m0 st hI n).1 hk

/-- under the invariant, given that every recorded reason is on the gate record: the calls are the
    non-refusal part of the gate record once nobody is on the way to the handler; empty or equal to
    the gate record; a sublist of it; and a recorded reason is not a refusal, is the only call and
    the only gate passage -/
theorem calls_marks_facts (m0 : Ns → Bool) (st : St) (hI : Inv m0 st) (n : Ns)
    (hsub : ∀ k ∈ st.sh.calls n, k ∈ st.sh.marks n) :
    (st.sh.calls n =
        if cnt st n 2 = 0 then (st.sh.marks n).filter (· != Kind.refuse) else [])
    ∧ (st.sh.calls n = [] ∨ st.sh.calls n = st.sh.marks n)
    ∧ (st.sh.calls n).Sublist (st.sh.marks n)
    ∧ (∀ k, k ∈ st.sh.calls n →
        k ≠ Kind.refuse ∧ st.sh.calls n = [k] ∧ st.sh.marks n = [k]) := by
  have h4 : ∀ k, k ∈ st.sh.calls n →
      k ≠ Kind.refuse ∧ st.sh.calls n = [k] ∧ st.sh.marks n = [k] := by
    intro k hk
    have hm := inv_reason_winner m0 st hI n k (hsub k hk)
    have hc : st.sh.calls n = [k] := marks_single (inv_calls_le m0 st hI n) hk
    refine ⟨?_, hc, hm⟩
    intro hr
    subst hr
    have := ((gate_facts m0 st hI n).2.2.2 (hsub _ hk)).1
    rw [this] at hk; simp at hk
  have h2 : st.sh.calls n = [] ∨ st.sh.calls n = st.sh.marks n := by
    cases hc : st.sh.calls n with
    | nil => exact Or.inl rfl
    | cons k r =>
      right
      obtain ⟨_, e1, e2⟩ := h4 k (by rw [hc]; simp)
      rw [← hc, e1, e2]
  refine ⟨inv_calls_marks m0 st hI n hsub, h2, ?_, h4⟩
  rcases h2 with h | h
  · rw [h]; exact List.nil_sublist _
  · rw [h]; exact List.Sublist.refl _

/-! ### kinds that never reach the handler -/

/-- a refusing CONNECT is never at the handler pc; a CONNECT being accepted only goes
    chandler → csend → done -/
def quietT (t : Task) : Prop :=
  (t.kind = .refuse → t.pc ≠ .handler) ∧
  (t.kind = .conn → t.pc = .chandler ∨ t.pc = .csend ∨ t.pc = .done)

def Quiet (st : St) : Prop := ∀ t ∈ st.tasks, quietT t

theorem stepTask_quiet (a : Bool) (sh : Shared) (t : Task) (h : quietT t) :
    quietT (stepTask a sh t).1 := by
  obtain ⟨k, todo, pc⟩ := t
  obtain ⟨h1, h2⟩ := h
  simp only at h1 h2
  by_cases hr : k = .refuse
  · subst hr
    refine ⟨fun _ => ?_, fun hx => ?_⟩
    · cases pc <;> cases todo <;>
        simp [stepTask, markStep, afterMark, chNext, advance] <;> (repeat' split) <;> simp_all
    · rw [(stepTask_kind_todo a sh _).1] at hx; simp at hx
  · by_cases hc : k = .conn
    · subst hc
      refine ⟨fun hx => ?_, fun _ => ?_⟩
      · rw [(stepTask_kind_todo a sh _).1] at hx; simp at hx
      · rcases h2 rfl with hp | hp | hp <;> subst hp <;> simp [stepTask, chNext]
    · refine ⟨fun hx => ?_, fun hx => ?_⟩ <;>
        rw [(stepTask_kind_todo a sh _).1] at hx <;> simp_all

theorem step_quiet (a : Bool) (st : St) (i : Nat) (h : Quiet st) : Quiet (step a st i) := by
  unfold step
  cases hi : st.tasks[i]? with
  | none => exact h
  | some t =>
    intro u hu
    rcases mem_set_cases hu with hu | rfl
    · exact h u hu
    · exact stepTask_quiet a st.sh t (h t (mem_of_getElem? hi))

theorem run_quiet (a : Bool) (sched : List Nat) (st : St) (h : Quiet st) :
    Quiet (run a st sched) := by
  induction sched generalizing st with
  | nil => exact h
  | cons i r ih => simp only [run, List.foldl_cons]; exact ih _ (step_quiet a st i h)

/-- CONNECTs being accepted have not run their connect handler yet (true of every `mkSt` state) -/
def connAtStart (st : St) : Prop := ∀ t ∈ st.tasks, t.kind = .conn → t.pc = .chandler

theorem init_quiet (st : St) (h : Init st) (hc : connAtStart st) : Quiet st := by
  intro t ht
  refine ⟨fun _ => ?_, fun hk => Or.inl (hc t ht hk)⟩
  rcases h.pcs t ht with hp | hp | hp <;> simp [hp]

theorem mkSt_connAtStart (tasks : List (Kind × List Ns)) (conn others : List Ns) :
    connAtStart (mkSt tasks conn others) := by
  intro t ht hk
  simp only [mkSt, List.mem_map] at ht
  obtain ⟨p, _, rfl⟩ := ht
  simp only [mkTask] at hk ⊢
  rw [hk]; rfl

/-- the handler is invoked by tasks of the three terminating kinds only -/
theorem callsAt_kind (a : Bool) (st : St) (hq : Quiet st) (i : Nat) (n : Ns) (k : Kind)
    (h : callsAt a st i n k) : k = .api ∨ k = .clientDisc ∨ k = .lost := by
  obtain ⟨t, hi, hk, _, hc⟩ := h
  unfold step at hc
  simp only [hi] at hc
  rcases stepTask_calls a st.sh t n with hx | ⟨_, _, hp, _⟩
  · rw [hx] at hc
    have := congrArg List.length hc
    simp at this
  · obtain ⟨q1, q2⟩ := hq t (mem_of_getElem? hi)
    rw [hk] at q1 q2
    cases k
    · exact Or.inl rfl
    · exact Or.inr (Or.inl rfl)
    · exact Or.inr (Or.inr rfl)
    · rcases q2 rfl with h | h | h <;> rw [hp] at h <;> simp at h
    · exact absurd hp (q1 rfl)

theorem ranHandler_kind (a : Bool) (st0 : St) (h0 : Init st0) (hc : connAtStart st0)
    (sched : List Nat) (i : Nat) (n : Ns) (k : Kind) (h : ranHandler a st0 sched i n k) :
    k = .api ∨ k = .clientDisc ∨ k = .lost := by
  obtain ⟨pre, _, hca, _⟩ := h
  exact callsAt_kind a _ (run_quiet a pre st0 (init_quiet st0 h0 hc)) i n k hca


end Sio.Sched
