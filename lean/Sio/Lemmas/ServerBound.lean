/-
  K4 — outputs of a frame stay with its transport; what a frame can make the server store
  (property C12, `bounded_reserve`).
-/
import Sio.Lemmas.ServerView
namespace Sio.Server
open Sio.Rooms

/-- what a frame from `t` handled in state `s` may output: packets for `t`, invocations that
    carry a session id of `t` (one it has in `s`, or the one allocated by this very CONNECT),
    callbacks that `Fires` justifies, contained exceptions -/
def Out.hostileOk (dec : Str → Except Err (Packet × Nat)) (cfg : Cfg) (s : Srv) (t : Eio) (v : J) :
    Out → Prop
  | .send t' _ => t' = t
  | .invoke _ a => ∃ sid, carries sid a ∧ (onT s.rooms t sid = true ∨ sid = sidName s.nextSid)
  | .callback n args => Fires dec cfg s t v n args
  | .raised _ => True
  | _ => False

theorem hostileOk_of_confined {dec : Str → Except Err (Packet × Nat)} {cfg : Cfg} {s : Srv}
    {t : Eio} {v : J} {ok : List J → Prop}
    (hok : ∀ a, ok a → ∃ sid, carries sid a ∧ (onT s.rooms t sid = true ∨ sid = sidName s.nextSid))
    {o : Out} (h : o.confined t ok) : o.hostileOk dec cfg s t v := by
  cases o <;> simp_all [Out.confined, Out.hostileOk]

theorem frame_outs {s : Srv} (h : WF s) (dec : Str → Except Err (Packet × Nat)) (cfg : Cfg)
    (t : Eio) (v : J) : ∀ o ∈ (handleFrame dec cfg s t v).2, o.hostileOk dec cfg s t v := by
  intro o ho
  -- callbacks: the general theorem; everything else: the handlers' output shapes
  by_cases hcb : ∃ n args, o = .callback n args
  · obtain ⟨n, args, rfl⟩ := hcb
    exact fires_of_frame h ho
  have hsid : ∀ nsp a, (∃ sid, sidOf s.rooms nsp t = some sid ∧ carries sid a) →
      ∃ sid, carries sid a ∧ (onT s.rooms t sid = true ∨ sid = sidName s.nextSid) :=
    fun nsp a ⟨sid, h1, h2⟩ => ⟨sid, h2, Or.inl (onT_of_sidOf h1)⟩
  have key : ∀ r, FrameCase dec cfg s t v r → o ∈ r.2 → o.hostileOk dec cfg s t v := by
    intro r hfc ho
    cases hfc with
    | tooMany _ _ => simp at ho; subst ho; trivial
    | reconErr _ _ _ _ => simp at ho; subst ho; trivial
    | binEvent _ _ _ _ _ =>
      exact hostileOk_of_confined (hsid _) (handleEvent_outs cfg (dropBin s t) t _ _ _ o ho)
    | binAck _ _ _ _ _ =>
      rcases handleAck_outs _ _ _ _ _ o ho with ⟨e, rfl⟩ | ⟨_, _, n, args, _, _, _, _, rfl, _⟩
      · trivial
      · exact absurd ⟨n, args, rfl⟩ hcb
    | more _ _ _ => simp at ho
    | undecodable _ _ => simp at ho; subst ho; trivial
    | packet hf hd =>
      rename_i p natt
      have hdc := dispatchCase cfg s t p natt
      generalize dispatchPacket cfg s t p natt = r' at hdc ho
      cases hdc with
      | connect _ =>
        exact hostileOk_of_confined (fun a ha => ⟨_, ha, Or.inr rfl⟩) (handleConnect_outs cfg s t _ _ o ho)
      | disconnect _ =>
        exact hostileOk_of_confined (hsid _) (handleDisconnect_outs h cfg t _ _ o ho)
      | event _ => exact hostileOk_of_confined (hsid _) (handleEvent_outs cfg s t _ _ _ o ho)
      | ack _ =>
        rcases handleAck_outs _ _ _ _ _ o ho with ⟨e, rfl⟩ | ⟨_, _, n, args, _, _, _, _, rfl, _⟩
        · trivial
        · exact absurd ⟨n, args, rfl⟩ hcb
      | binHeader _ => simp at ho
      | other => simp at ho; subst ho; trivial
  exact key _ (frameCase dec cfg s t v) ho

/-! ### what a frame can make the server store -/

/-- Item counts after a frame, and the shape of the reassembly buffer: every partial packet is an
    old one, a fresh header without attachments, or an old one with exactly this frame appended.
    `need` (the declared attachment count) is stored as a number and sizes nothing. -/
structure FrameBound (s s' : Srv) (v : J) : Prop where
  rooms : s'.rooms.length ≤ s.rooms.length + 2
  cbs : s'.cbs.length ≤ s.cbs.length
  ctr : s'.ctr.length ≤ s.ctr.length
  sess : s'.sess = s.sess
  environ : s'.environ = s.environ
  bg : s'.bg.length ≤ s.bg.length + 1
  callDone : s'.callDone.length ≤ s.callDone.length + 1
  binLen : s'.binbuf.length ≤ s.binbuf.length + 1
  binShape : ∀ e ∈ s'.binbuf, e ∈ s.binbuf ∨ e.2.got = [] ∨
    ∃ part, (e.1, part) ∈ s.binbuf ∧ e.2 = { part with got := part.got ++ [v] }

theorem FrameBound.refl (s : Srv) (v : J) : FrameBound s s v :=
  ⟨by omega, Nat.le_refl _, Nat.le_refl _, rfl, rfl, by omega, by omega, by omega,
    fun e he => Or.inl he⟩

theorem FrameBound.trans {a b c : Srv} {v : J} (h1 : FrameBound a b v)
    (h2 : c.rooms.length ≤ b.rooms.length) (h3 : c.cbs.length ≤ b.cbs.length)
    (h4 : c.ctr.length ≤ b.ctr.length) (h5 : c.sess = b.sess) (h6 : c.environ = b.environ)
    (h7 : c.bg.length ≤ b.bg.length) (h8 : c.callDone.length ≤ b.callDone.length)
    (h9 : c.binbuf = b.binbuf) : FrameBound a c v :=
  ⟨by have := h1.rooms; omega, by have := h1.cbs; omega, by have := h1.ctr; omega,
    h5.trans h1.sess, h6.trans h1.environ, by have := h1.bg; omega, by have := h1.callDone; omega,
    by rw [h9]; exact h1.binLen, by rw [h9]; exact h1.binShape⟩

theorem length_add_le (r : Rooms.St) (e : Entry) : (Rooms.add r e).length ≤ r.length + 1 := by
  unfold Rooms.add; split <;> simp

theorem length_connect_le {r r' : Rooms.St} {ns : Ns} {t : Eio} {sid : Sid}
    (h : Rooms.connect r ns t sid = some r') : r'.length ≤ r.length + 2 := by
  unfold Rooms.connect at h
  split at h
  · cases h
  · cases h
    have h1 := length_add_le r ⟨ns, none, sid, t⟩
    have h2 := length_add_le (Rooms.add r ⟨ns, none, sid, t⟩) ⟨ns, some sid, sid, t⟩
    omega

theorem bound_handleConnect {s : Srv} (h : WF s) (cfg : Cfg) (t : Eio) (nsp : Option Str)
    (data : Option J) (v : J) : FrameBound s (handleConnect cfg s t nsp data).1 v := by
  rcases handleConnect_state cfg s t nsp data with h1 | ⟨rooms', k, _, hc, h1 | ⟨p, hp, h1⟩⟩
  · rw [h1]; exact .refl s v
  · rw [h1]
    exact ⟨length_connect_le hc, Nat.le_refl _, Nat.le_refl _, rfl, rfl, by simp [connected],
      by simp [connected], by simp [connected], fun e he => Or.inl he⟩
  · rw [h1, refusedSt_eq h.toWF0 hc]
    exact ⟨by simp, Nat.le_refl _, Nat.le_refl _, rfl, rfl, by simp, by simp, by simp,
      fun e he => Or.inl he⟩

theorem bound_handleDisconnect (cfg : Cfg) (s : Srv) (t : Eio) (ns : Ns) (reason : Str) (v : J) :
    FrameBound s (handleDisconnect cfg s t ns reason).1 v := by
  rcases handleDisconnect_state cfg s t ns reason with ⟨h1, _⟩ | ⟨sid, k, _, _, h1⟩
  · rw [h1]; exact .refl s v
  · rw [h1]
    refine (FrameBound.refl s v).trans ?_ ?_ ?_ rfl rfl (Nat.le_refl _) (Nat.le_refl _) rfl
    · exact Nat.le_trans (List.length_filter_le _ _) (Nat.le_refl _)
    · exact List.length_filter_le _ _
    · exact List.length_filter_le _ _

theorem handleEvent_bg_len (cfg : Cfg) (s : Srv) (t : Eio) (nsp : Option Str) (id : Option Nat)
    (data : Option J) : (handleEvent cfg s t nsp id data).1.bg.length ≤ s.bg.length + 1 := by
  unfold handleEvent
  dsimp only
  split
  · simp
  · split
    · simp
    · split
      · simp
      · split
        · simp
        · rw [runHandler_bg]; simp

theorem bound_handleEvent (cfg : Cfg) (s : Srv) (t : Eio) (nsp : Option Str) (id : Option Nat)
    (data : Option J) (v : J) : FrameBound s (handleEvent cfg s t nsp id data).1 v := by
  have hc := core_fields (handleEvent_core cfg s t nsp id data)
  exact ⟨by rw [hc.rooms]; omega, by rw [hc.cbs]; omega, by rw [hc.ctr]; omega, hc.sess,
    hc.environ, handleEvent_bg_len .., by rw [hc.callDone]; omega, by rw [hc.binbuf]; omega,
    by rw [hc.binbuf]; exact fun e he => Or.inl he⟩

theorem bound_handleAck (s : Srv) (t : Eio) (nsp : Option Str) (id : Option Nat) (data : Option J)
    (v : J) : FrameBound s (handleAck s t nsp id data).1 v := by
  rcases handleAck_state s t nsp id data with h1 | ⟨sid, i, tok, _, _, _, h1 | ⟨n, args, _, _, h1⟩⟩
  · rw [h1]; exact .refl s v
  · rw [h1]
    exact ⟨by simp [popCb], List.length_filter_le _ _, Nat.le_refl _, rfl, rfl, by simp [popCb],
      by simp [popCb], by simp [popCb], fun e he => Or.inl he⟩
  · rw [h1]
    exact ⟨by simp [popCb], List.length_filter_le _ _, Nat.le_refl _, rfl, rfl, by simp [popCb],
      by simp, by simp [popCb], fun e he => Or.inl he⟩

theorem mem_setBin {b : List (Eio × Partial)} {t : Eio} {p : Partial} {x : Eio × Partial}
    (h : x ∈ setBin b t p) : x ∈ b ∨ x = (t, p) := by
  unfold setBin at h
  simp only [List.mem_map] at h
  obtain ⟨e, he, rfl⟩ := h
  split
  · exact Or.inr rfl
  · exact Or.inl he

/-- the state after dropping `t`'s partial packet is bounded like `s` -/
theorem FrameBound.of_dropBin {s s' : Srv} {t : Eio} {v : J} (h : FrameBound (dropBin s t) s' v) :
    FrameBound s s' v :=
  ⟨h.rooms, h.cbs, h.ctr, h.sess, h.environ, h.bg, h.callDone,
    Nat.le_trans h.binLen (Nat.add_le_add_right (List.length_filter_le _ _) 1),
    fun e he => by
      rcases h.binShape e he with h1 | h1 | ⟨part, h1, h2⟩
      · exact Or.inl (List.mem_filter.mp h1).1
      · exact Or.inr (Or.inl h1)
      · exact Or.inr (Or.inr ⟨part, (List.mem_filter.mp h1).1, h2⟩)⟩

theorem bound_storeBin {s : Srv} {t t' : Eio} {part : Partial} (v : J)
    (hf : s.binbuf.find? (fun e => e.1 = t) = some (t', part)) :
    FrameBound s (storeBin s t part v) v := by
  have hm := List.mem_of_find?_eq_some hf
  have ht : t' = t := by simpa using List.find?_some hf
  subst ht
  refine ⟨by simp [storeBin], Nat.le_refl _, Nat.le_refl _, rfl, rfl, by simp [storeBin],
    by simp [storeBin], by simp [storeBin, setBin], ?_⟩
  intro e he
  rcases mem_setBin he with h1 | rfl
  · exact Or.inl h1
  · exact Or.inr (Or.inr ⟨part, hm, rfl⟩)

/-- **bounded reserve**, for every decoder result — whatever attachment count or id is declared -/
theorem bound_handleFrame {s : Srv} (h : WF s) (dec : Str → Except Err (Packet × Nat)) (cfg : Cfg)
    (t : Eio) (v : J) : FrameBound s (handleFrame dec cfg s t v).1 v := by
  have key : ∀ r, FrameCase dec cfg s t v r → FrameBound s r.1 v := by
    intro r hfc
    cases hfc with
    | tooMany _ _ => exact .refl s v
    | reconErr hf _ _ _ => exact bound_storeBin v hf
    | binEvent _ _ _ _ _ => exact (bound_handleEvent cfg (dropBin s t) t _ _ _ v).of_dropBin
    | binAck _ _ _ _ _ => exact (bound_handleAck (dropBin s t) t _ _ _ v).of_dropBin
    | more hf _ _ => exact bound_storeBin v hf
    | undecodable _ _ => exact .refl s v
    | packet hf hd =>
      rename_i p natt
      have hdc := dispatchCase cfg s t p natt
      generalize dispatchPacket cfg s t p natt = r' at hdc
      cases hdc with
      | connect _ => exact bound_handleConnect h ..
      | disconnect _ => exact bound_handleDisconnect ..
      | event _ => exact bound_handleEvent ..
      | ack _ => exact bound_handleAck ..
      | binHeader _ =>
        refine ⟨by simp, Nat.le_refl _, Nat.le_refl _, rfl, rfl, by simp, by simp, by simp, ?_⟩
        intro e he
        simp only [List.mem_append, List.mem_singleton] at he
        rcases he with he | rfl
        · exact Or.inl he
        · exact Or.inr (Or.inl rfl)
      | other => exact .refl s v
  exact key _ (frameCase dec cfg s t v)

end Sio.Server
