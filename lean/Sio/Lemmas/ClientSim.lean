/-
  K7 — the simulation between the client model (Sio/Model/Client.lean) and the server's view
  (Sio/Model/ClientSpec.lean): relation `R`, one lemma per packet kind, then transport events,
  reaction lists, the connect window, API calls and whole histories (`sim_run`).
-/
import Sio.Model.ClientSpec
import Sio.Lemmas.Client
namespace Sio.Client

/-! ### the simulation relation between the client model and the server's view -/

structure R (m : Mode) (q : List Ns) (c : Cli) (v : View) : Prop where
  eio : c.eio = (if v.up then Eio.connected else Eio.disconnected)
  conn : c.connected = (if m = .live then v.up else false)
  ns1 : root ∉ v.ref → c.namespaces = v.acc
  ns2 : ∀ e ∈ c.namespaces, hasKey v.acc e.1 = true
  sid : c.sid = v.esid
  bin : c.binbuf = v.pend
  down : v.up = false → v = View.down ∧ c.cbs = [] ∧ c.ctr = []
  inv_a : ∀ n, (n ∈ v.asked ∨ n ∈ v.ref) → n ∈ q ∧ hasKey v.acc n = false
  inv_b : m ≠ .live → ∀ n ∈ q, n ∈ v.asked ∨ n ∈ v.ref ∨ hasKey v.acc n = true
  inv_e : ∀ n ∈ v.ref, n ∉ v.asked
  rootref : root ∈ v.ref → m = .win true
  winup : m ≠ .live → v.up = true
  alive : v.up = true → v.asked ≠ [] ∨ v.ref ≠ [] ∨ v.acc ≠ []
  inv_c : ∀ e ∈ v.acc, e.1 ∈ q

theorem R_init (q : List Ns) : R .live q init View.down := by
  constructor <;> simp [init, View.down]

theorem R_initR (b : Bool) (q : List Ns) : R .live q (initR b) View.down := by
  constructor <;> simp [initR, View.down]

theorem hasNs_eq_hasKey (c : Cli) (n : Ns) : hasNs c n = hasKey c.namespaces n := rfl

theorem hasKey_append (l : List (Ns × J)) (n m : Ns) (s : J) :
    hasKey (l ++ [(m, s)]) n = (hasKey l n || decide (m = n)) := by
  simp [hasKey]

theorem hasKey_dropNs (l : List (Ns × J)) (n m : Ns) :
    hasKey (dropNs l m) n = (hasKey l n && decide (n ≠ m)) := by
  induction l with
  | nil => simp [hasKey, dropNs]
  | cons a l ih =>
    simp only [hasKey, dropNs] at ih ⊢
    by_cases h : a.1 = m
    · by_cases h2 : a.1 = n <;> simp_all
    · by_cases h2 : a.1 = n <;> simp_all

theorem dropNs_of_not_hasKey (l : List (Ns × J)) (n : Ns) (h : hasKey l n = false) :
    dropNs l n = l := by
  induction l with
  | nil => rfl
  | cons a l ih =>
    simp [hasKey, dropNs] at h ih ⊢
    refine ⟨h.1, ?_⟩
    intro a b hab
    exact h.2 a b hab

theorem mem_dropAsk {l : List Ns} {n m : Ns} : m ∈ dropAsk l n ↔ m ∈ l ∧ m ≠ n := by
  simp [dropAsk, List.mem_filter]

theorem mem_dropNs {l : List (Ns × J)} {n : Ns} {e : Ns × J} : e ∈ dropNs l n ↔ e ∈ l ∧ e.1 ≠ n := by
  simp [dropNs, List.mem_filter]

end Sio.Client

namespace Sio.Client

theorem R.root_not_ref_live {q : List Ns} {c : Cli} {v : View} (h : R .live q c v) : root ∉ v.ref := by
  intro hr
  have := h.rootref hr
  cases this

theorem R.ns_live {q : List Ns} {c : Cli} {v : View} (h : R .live q c v) : c.namespaces = v.acc :=
  h.ns1 h.root_not_ref_live

/-- the whole connection ends (transport loss, engine.io CLOSE, `disconnect()`) -/
theorem sim_end (cfg : Cfg) {q : List Ns} {c : Cli} {v : View} (reason : Str) (h : R .live q c v) (hup : v.up = true) :
    R .live q { (onEioDisconnect cfg c reason).1 with eio := .disconnected } View.down
    ∧ notes (onEioDisconnect cfg c reason).2 = v.acc.map (fun e => Note.ended e.1) := by
  have hc : c.connected = true := by have := h.conn; simp [hup] at this; exact this
  have hns := h.ns_live
  unfold onEioDisconnect
  simp only [hc, if_true]
  refine ⟨?_, ?_⟩
  · constructor <;> simp [View.down]
  · rw [notes_flatMap_disconnect, hns]

end Sio.Client

namespace Sio.Client

theorem hasKey_of_mem {l : List (Ns × J)} {e : Ns × J} (h : e ∈ l) : hasKey l e.1 = true := by
  simp only [hasKey, List.any_eq_true]
  exact ⟨e, h, by simp⟩

theorem exists_of_hasKey {l : List (Ns × J)} {n : Ns} (h : hasKey l n = true) : ∃ e ∈ l, e.1 = n := by
  simp only [hasKey, List.any_eq_true] at h
  obtain ⟨e, he, h2⟩ := h
  exact ⟨e, he, by simpa using h2⟩

theorem R.not_hasNs {m : Mode} {q : List Ns} {c : Cli} {v : View} (h : R m q c v) {n : Ns}
    (hk : hasKey v.acc n = false) : hasNs c n = false := by
  cases hh : hasNs c n with
  | false => rfl
  | true =>
    obtain ⟨e, he, h2⟩ := exists_of_hasKey (l := c.namespaces) hh
    have := h.ns2 e he
    rw [h2, hk] at this
    cases this

theorem sim_connect (cfg : Cfg) {m : Mode} {q : List Ns} {c : Cli} {v : View} (h : R m q c v) (hup : v.up = true)
    (nsp : Option Ns) (data : Option J) (s : J)
    (hask : v.asked.contains (nsOr nsp) = true) (hs : sidVal v.esid data = .ok s) :
    R m q (handleConnect cfg c nsp data).1
        { v with asked := dropAsk v.asked (nsOr nsp), acc := v.acc ++ [(nsOr nsp, s)] }
    ∧ notes (handleConnect cfg c nsp data).2 = [.accepted (nsOr nsp)] := by
  have hmem : nsOr nsp ∈ v.asked := by simpa using hask
  have hnk : hasKey v.acc (nsOr nsp) = false := (h.inv_a _ (Or.inl hmem)).2
  have hno := h.not_hasNs hnk
  have hsid : sidOf c data = .ok s := by unfold sidOf; rw [h.sid]; exact hs
  have heq : handleConnect cfg c nsp data
      = ({ c with namespaces := c.namespaces ++ [(nsOr nsp, s)] }, (trigger cfg sConnect (nsOr nsp) []).1) := by
    unfold handleConnect; simp [hno, hsid]
  rw [heq]
  refine ⟨?_, by simp⟩
  constructor
  · exact h.eio
  · exact h.conn
  · intro hr; simp [h.ns1 hr]
  · intro e he
    simp only [List.mem_append, List.mem_singleton] at he
    rw [hasKey_append]
    cases he with
    | inl he => simp [h.ns2 e he]
    | inr he => simp [he]
  · exact h.sid
  · exact h.bin
  · intro hd; have hd' : v.up = false := hd; rw [hup] at hd'; cases hd'
  · intro n' hn'
    simp only [mem_dropAsk] at hn'
    rw [hasKey_append]
    cases hn' with
    | inl h1 =>
      have := h.inv_a n' (Or.inl h1.1)
      refine ⟨this.1, ?_⟩
      have hne : ¬ (nsOr nsp = n') := by intro hq; have := h1.2; simp [hq] at this
      simp [this.2, hne]
    | inr h1 =>
      have := h.inv_a n' (Or.inr h1)
      refine ⟨this.1, ?_⟩
      have hne : ¬ (nsOr nsp = n') := by intro hq; subst hq; exact h.inv_e _ h1 hmem
      simp [this.2, hne]
  · intro hm n' hn'
    rcases h.inv_b hm n' hn' with h1 | h1 | h1
    · by_cases hq : n' = nsOr nsp
      · right; right; rw [hasKey_append]; simp [hq]
      · left; simp [mem_dropAsk, h1, hq]
    · right; left; exact h1
    · right; right; rw [hasKey_append]; simp [h1]
  · intro n' hn' hf
    simp only [mem_dropAsk] at hf
    exact h.inv_e n' hn' hf.1
  · exact h.rootref
  · exact h.winup
  · intro _; right; right; simp
  · intro e he
    simp only [List.mem_append, List.mem_singleton] at he
    rcases he with he | he
    · exact h.inv_c e he
    · subst he; exact (h.inv_a _ (Or.inl hmem)).1

end Sio.Client

namespace Sio.Client

theorem sim_error (cfg : Cfg) {m : Mode} {q : List Ns} {c : Cli} {v : View} (h : R m q c v) (hup : v.up = true)
    (nsp : Option Ns) (data : Option J)
    (hask : v.asked.contains (nsOr nsp) = true) (hm : m = .win true ∨ nsOr nsp ≠ root) :
    R m q (handleError cfg c nsp data).1
        { v with asked := dropAsk v.asked (nsOr nsp), ref := nsOr nsp :: v.ref }
    ∧ notes (handleError cfg c nsp data).2 = [.refused (nsOr nsp)] := by
  have hmem : nsOr nsp ∈ v.asked := by simpa using hask
  have hnk : hasKey v.acc (nsOr nsp) = false := (h.inv_a _ (Or.inl hmem)).2
  have hno := h.not_hasNs hnk
  have hfil : dropNs c.namespaces (nsOr nsp) = c.namespaces :=
    dropNs_of_not_hasKey _ _ hno
  -- the invariants of the view that do not depend on the client
  have ia : ∀ n', (n' ∈ dropAsk v.asked (nsOr nsp) ∨ n' ∈ nsOr nsp :: v.ref) →
      n' ∈ q ∧ hasKey v.acc n' = false := by
    intro n' hn'
    rcases hn' with h1 | h1
    · simp only [mem_dropAsk] at h1; exact h.inv_a n' (Or.inl h1.1)
    · simp only [List.mem_cons] at h1
      rcases h1 with h1 | h1
      · subst h1; exact h.inv_a _ (Or.inl hmem)
      · exact h.inv_a n' (Or.inr h1)
  have ib : m ≠ .live → ∀ n' ∈ q, n' ∈ dropAsk v.asked (nsOr nsp) ∨ n' ∈ nsOr nsp :: v.ref
      ∨ hasKey v.acc n' = true := by
    intro hm' n' hn'
    rcases h.inv_b hm' n' hn' with h1 | h1 | h1
    · by_cases hq : n' = nsOr nsp
      · right; left; simp [hq]
      · left; simp [mem_dropAsk, h1, hq]
    · right; left; simp [h1]
    · right; right; exact h1
  have ie : ∀ n' ∈ nsOr nsp :: v.ref, n' ∉ dropAsk v.asked (nsOr nsp) := by
    intro n' hn' hf
    simp only [mem_dropAsk] at hf
    simp only [List.mem_cons] at hn'
    rcases hn' with h1 | h1
    · have := hf.2; simp [h1] at this
    · exact h.inv_e n' h1 hf.1
  by_cases hroot : nsOr nsp = root
  · have hmw : m = .win true := by
      rcases hm with h1 | h1
      · exact h1
      · exact absurd hroot h1
    have heq : handleError cfg c nsp data
        = ({ c with namespaces := [], connected := false },
           (trigger cfg sConnectError (nsOr nsp) (errArgs data)).1) := by
      unfold handleError; simp [hroot]
    rw [heq]
    refine ⟨?_, by simp⟩
    constructor
    · exact h.eio
    · simp [hmw]
    · intro hr; exfalso; apply hr; simp [hroot]
    · intro e he; cases he
    · exact h.sid
    · exact h.bin
    · intro hd; have hd' : v.up = false := hd; rw [hup] at hd'; cases hd'
    · exact ia
    · exact ib
    · exact ie
    · intro _; exact hmw
    · exact h.winup
    · intro _; right; left; simp
    · exact h.inv_c
  · have heq : handleError cfg c nsp data
        = ({ c with namespaces := dropNs c.namespaces (nsOr nsp) },
           (trigger cfg sConnectError (nsOr nsp) (errArgs data)).1) := by
      unfold handleError; simp [hroot]
    rw [heq, hfil]
    refine ⟨?_, by simp⟩
    have hrr : root ∈ nsOr nsp :: v.ref → root ∈ v.ref := by
      intro hr
      simp only [List.mem_cons] at hr
      rcases hr with h1 | h1
      · exact absurd h1.symm hroot
      · exact h1
    constructor
    · exact h.eio
    · exact h.conn
    · intro hr; exact h.ns1 (fun h2 => hr (List.mem_cons_of_mem _ h2))
    · exact h.ns2
    · exact h.sid
    · exact h.bin
    · intro hd; have hd' : v.up = false := hd; rw [hup] at hd'; cases hd'
    · exact ia
    · exact ib
    · exact ie
    · intro hr; exact h.rootref (hrr hr)
    · exact h.winup
    · intro _; right; left; simp
    · exact h.inv_c

end Sio.Client

namespace Sio.Client

theorem sim_disconnect (cfg : Cfg) {q : List Ns} {c : Cli} {v : View} (h : R .live q c v) (hup : v.up = true)
    (nsp : Option Ns) :
    R .live q (handleDisconnect cfg c nsp).1
        (if (dropNs v.acc (nsOr nsp)).isEmpty then View.down
         else { v with acc := dropNs v.acc (nsOr nsp) })
    ∧ notes (handleDisconnect cfg c nsp).2 = [.ended (nsOr nsp)] := by
  have hc : c.connected = true := by have := h.conn; simp [hup] at this; exact this
  have hns := h.ns_live
  have heio : c.eio = .connected := by have := h.eio; simp [hup] at this; exact this
  by_cases hemp : (dropNs v.acc (nsOr nsp)).isEmpty = true
  · have heq : handleDisconnect cfg c nsp
        = ({ c with namespaces := [], connected := false, cbs := [], ctr := [], binbuf := none,
                    sid := none, eio := .disconnected },
           (trigger cfg sDisconnect (nsOr nsp) [.str rServer]).1 ++ [.close]) := by
      unfold handleDisconnect
      have hemp' : (dropNs c.namespaces (nsOr nsp)).isEmpty = true := by rw [hns]; exact hemp
      have hnil : dropNs c.namespaces (nsOr nsp) = [] := by simpa using hemp'
      simp [hc, eioDisconnect, onEioDisconnect, heio, hnil]
    rw [heq]
    simp only [hemp, if_true]
    refine ⟨?_, by simp⟩
    constructor <;> simp [View.down]
  · have hemp2 : (dropNs v.acc (nsOr nsp)).isEmpty = false := by simpa using hemp
    have heq : handleDisconnect cfg c nsp
        = ({ c with namespaces := dropNs c.namespaces (nsOr nsp) },
           (trigger cfg sDisconnect (nsOr nsp) [.str rServer]).1) := by
      unfold handleDisconnect
      have hemp' : (dropNs c.namespaces (nsOr nsp)).isEmpty = false := by rw [hns]; exact hemp2
      simp [hc, hemp']
    rw [heq]
    simp only [hemp2, Bool.false_eq_true, if_false]
    refine ⟨?_, by simp⟩
    constructor
    · exact h.eio
    · exact h.conn
    · intro _; simp [hns]
    · intro e he; rw [hns] at he; exact hasKey_of_mem he
    · exact h.sid
    · exact h.bin
    · intro hd; have hd' : v.up = false := hd; rw [hup] at hd'; cases hd'
    · intro n' hn'
      have := h.inv_a n' hn'
      refine ⟨this.1, ?_⟩
      rw [hasKey_dropNs]; simp [this.2]
    · intro hm; exact absurd rfl hm
    · exact h.inv_e
    · exact h.rootref
    · exact h.winup
    · intro _; right; right
      intro hnil
      have : (dropNs v.acc (nsOr nsp)).isEmpty = true := by
        have hnil' : dropNs v.acc (nsOr nsp) = [] := hnil
        simp [hnil']
      rw [hemp2] at this; cases this
    · intro e he
      exact h.inv_c e (mem_dropNs.mp he).1

end Sio.Client

namespace Sio.Client

/-- while the transport is up the relation does not look at the callback table -/
theorem R.congr {m : Mode} {q : List Ns} {c c' : Cli} {v : View} (h : R m q c v) (hup : v.up = true)
    (h1 : c'.eio = c.eio) (h2 : c'.connected = c.connected) (h3 : c'.namespaces = c.namespaces)
    (h4 : c'.sid = c.sid) (h5 : c'.binbuf = c.binbuf) : R m q c' v := by
  constructor
  · rw [h1]; exact h.eio
  · rw [h2]; exact h.conn
  · rw [h3]; exact h.ns1
  · rw [h3]; exact h.ns2
  · rw [h4]; exact h.sid
  · rw [h5]; exact h.bin
  · intro hd; rw [hup] at hd; cases hd
  · exact h.inv_a
  · exact h.inv_b
  · exact h.inv_e
  · exact h.rootref
  · exact h.winup
  · exact h.alive
  · exact h.inv_c

/-- the relation looks at these seven fields of the client only -/
theorem R.of_fields {m : Mode} {q : List Ns} {c c' : Cli} {v : View} (h : R m q c v)
    (h1 : c'.eio = c.eio) (h2 : c'.connected = c.connected) (h3 : c'.namespaces = c.namespaces)
    (h4 : c'.sid = c.sid) (h5 : c'.binbuf = c.binbuf) (h6 : c'.cbs = c.cbs) (h7 : c'.ctr = c.ctr) :
    R m q c' v := by
  constructor
  · rw [h1]; exact h.eio
  · rw [h2]; exact h.conn
  · rw [h3]; exact h.ns1
  · rw [h3]; exact h.ns2
  · rw [h4]; exact h.sid
  · rw [h5]; exact h.bin
  · rw [h6, h7]; exact h.down
  · exact h.inv_a
  · exact h.inv_b
  · exact h.inv_e
  · exact h.rootref
  · exact h.winup
  · exact h.alive
  · exact h.inv_c

theorem R.startEffort {m : Mode} {q : List Ns} {c : Cli} {v : View} (h : R m q c v) :
    R m q (startEffort c).1 v := by
  rcases startEffort_eq c with he | he <;> rw [he]
  · exact h
  · exact h.of_fields rfl rfl rfl rfl rfl rfl rfl

/-- … nor (on the view's side) at anything but `pend` when only that changes -/
theorem R.set_pend {m : Mode} {q : List Ns} {c : Cli} {v : View} (h : R m q c v) (hup : v.up = true)
    (p : Option Partial) : R m q { c with binbuf := p } { v with pend := p } := by
  constructor
  · exact h.eio
  · exact h.conn
  · exact h.ns1
  · exact h.ns2
  · exact h.sid
  · rfl
  · intro hd; have hd' : v.up = false := hd; rw [hup] at hd'; cases hd'
  · exact h.inv_a
  · exact h.inv_b
  · exact h.inv_e
  · exact h.rootref
  · exact h.winup
  · exact h.alive
  · exact h.inv_c

theorem handleEvent_state (cfg : Cfg) (c : Cli) (ns : Option Ns) (id : Option Nat) (data : Option J) :
    (handleEvent cfg c ns id data).1 = c := by
  unfold handleEvent
  split
  · split <;> rfl
  · rfl

theorem notes_handleEvent (cfg : Cfg) (c : Cli) (ns : Option Ns) (id : Option Nat) (data : Option J)
    (h : reservedEvent data = false) : notes (handleEvent cfg c ns id data).2 = [] := by
  unfold handleEvent
  split
  · rename_i name args
    have hn : isReservedName name = false := by simpa [reservedEvent] using h
    split <;> simp [notes_trigger_other _ _ _ _ hn, notes_sendPkt]
  · simp

theorem notes_ackOuts (cb : Cb) (data : Option J) : notes (ackOuts cb data) = [] := by
  unfold ackOuts
  split
  · split <;> simp
  · simp

theorem notes_handleAck (c : Cli) (ns : Option Ns) (id : Option Nat) (data : Option J) :
    notes (handleAck c ns id data).2 = [] := by
  unfold handleAck
  split
  · rfl
  · split
    · rfl
    · simp [notes_ackOuts]

theorem handleAck_fields (c : Cli) (ns : Option Ns) (id : Option Nat) (data : Option J) :
    (handleAck c ns id data).1.eio = c.eio ∧ (handleAck c ns id data).1.connected = c.connected
      ∧ (handleAck c ns id data).1.namespaces = c.namespaces ∧ (handleAck c ns id data).1.sid = c.sid
      ∧ (handleAck c ns id data).1.binbuf = c.binbuf := by
  unfold handleAck
  split
  · simp
  · split <;> simp

end Sio.Client

namespace Sio.Client

theorem deliver_down (cfg : Cfg) (c : Cli) (e : Ev) (h : c.eio = .disconnected) :
    deliver cfg c e = (c, []) := by
  cases e <;> simp [deliver, onLost, eioDisconnect, h]

theorem sim_ev (cfg : Cfg) {m : Mode} {q : List Ns} {c : Cli} {v v' : View} {e : Ev} {t : List Note}
    (h : R m q c v) (hs : specEv m v e = some (v', t)) :
    R m q (deliver cfg c e).1 v' ∧ notes (deliver cfg c e).2 = t := by
  unfold specEv at hs
  by_cases hup : v.up = true
  · obtain ⟨up, esid, asked, acc, ref, pend⟩ := v
    have hup0 : up = true := hup
    subst hup0
    simp only [Bool.not_true, Bool.false_eq_true, if_false] at hs
    have heio : c.eio = .connected := by have := h.eio; simp at this; exact this
    cases e with
    | lost =>
      simp only at hs
      split at hs
      · rename_i hm; subst hm
        simp only [View.endAll, Option.some.injEq, Prod.mk.injEq] at hs
        obtain ⟨rfl, rfl⟩ := hs
        obtain ⟨hR, hn⟩ := sim_end cfg rTransport h hup
        simp only [deliver, onLost, heio, if_true]
        exact ⟨hR.startEffort, by rw [notes_append, hn, notes_startEffort]; simp⟩
      · cases hs
    | close =>
      simp only at hs
      split at hs
      · rename_i hm; subst hm
        simp only [View.endAll, Option.some.injEq, Prod.mk.injEq] at hs
        obtain ⟨rfl, rfl⟩ := hs
        have := sim_end cfg rServer h hup
        simpa [deliver, eioDisconnect, heio] using this
      · cases hs
    | msg raw d =>
      simp only at hs
      have hdel : deliver cfg c (.msg raw d) = onMessage cfg c raw d := by simp [deliver, heio]
      rw [hdel]
      unfold onMessage
      rw [h.bin]
      cases pend with
      | some pt =>
        simp only at hs ⊢
        cases raw with
        | bin b =>
          simp only at hs
          cases ha : addAttachment pt (.bin b) with
          | error er => rw [ha] at hs; cases hs
          | ok r =>
            simp only [ha] at hs ⊢
            cases r with
            | more pt' =>
              simp only [Option.some.injEq, Prod.mk.injEq] at hs
              obtain ⟨rfl, rfl⟩ := hs
              exact ⟨h.set_pend hup (some pt'), rfl⟩
            | complete pk =>
              simp only at hs ⊢
              split at hs
              · cases hs
              · rename_i hres
                simp only [Option.some.injEq, Prod.mk.injEq] at hs
                obtain ⟨rfl, rfl⟩ := hs
                have hR' := h.set_pend hup none
                by_cases hty : pk.type = BINARY_EVENT
                · have hre : reservedEvent pk.data = false := by
                    cases hq : reservedEvent pk.data with
                    | false => rfl
                    | true => exfalso; apply hres; simp [hty, hq]
                  simp only [hty, if_true]
                  rw [handleEvent_state]
                  exact ⟨hR', notes_handleEvent _ _ _ _ _ hre⟩
                · simp only [hty, if_false]
                  obtain ⟨f1, f2, f3, f4, f5⟩ := handleAck_fields { c with binbuf := none } pk.nsp pk.id pk.data
                  exact ⟨hR'.congr hup f1 f2 f3 f4 f5, notes_handleAck _ _ _ _⟩
        | _ => cases hs
      | none =>
        simp only at hs ⊢
        cases d with
        | error er => cases hs
        | ok pr =>
          obtain ⟨p, natt⟩ := pr
          simp only at hs ⊢
          by_cases h0 : p.type = CONNECT
          · have hb : isBinType p.type = false := by rw [h0]; decide
            have hpk : handlePkt cfg c p = handleConnect cfg c p.nsp p.data := by
              unfold handlePkt; simp [h0]
            simp only [hb, Bool.false_eq_true, if_false, hpk]
            simp only [h0, if_true] at hs
            split at hs
            · rename_i hc
              simp only [Bool.and_eq_true, decide_eq_true_eq] at hc
              cases hsv : sidVal esid p.data with
              | error er => simp only [hsv] at hs; cases hs
              | ok sv =>
                simp only [hsv, Option.some.injEq, Prod.mk.injEq] at hs
                obtain ⟨rfl, rfl⟩ := hs
                exact sim_connect cfg h rfl p.nsp p.data sv hc.2 hsv
            · split at hs
              · rename_i hc
                simp only [Bool.and_eq_true, decide_eq_true_eq, Bool.not_eq_true', List.contains_eq_mem,
                  decide_eq_false_iff_not] at hc
                simp only [Option.some.injEq, Prod.mk.injEq] at hs
                obtain ⟨rfl, rfl⟩ := hs
                have hns : c.namespaces = acc := h.ns1 hc.2
                have hh : hasNs c (nsOr p.nsp) = true := by rw [hasNs, hns]; exact hc.1.2
                have heq : handleConnect cfg c p.nsp p.data = (c, []) := by
                  unfold handleConnect; simp [hh]
                rw [heq]
                exact ⟨h, rfl⟩
              · cases hs
          · by_cases h4 : p.type = CONNECT_ERROR
            · have hb : isBinType p.type = false := by rw [h4]; decide
              have hpk : handlePkt cfg c p = handleError cfg c p.nsp p.data := by
                unfold handlePkt; rw [h4]; simp [CONNECT_ERROR, CONNECT, DISCONNECT, EVENT, ACK]
              have h40 : ¬ (CONNECT_ERROR = CONNECT) := by decide
              simp only [hb, Bool.false_eq_true, if_false, hpk]
              simp only [h4, h40, if_true, if_false] at hs
              split at hs
              · rename_i hc
                simp only [Bool.and_eq_true, Bool.or_eq_true, decide_eq_true_eq] at hc
                simp only [Option.some.injEq, Prod.mk.injEq] at hs
                obtain ⟨rfl, rfl⟩ := hs
                exact sim_error cfg h rfl p.nsp p.data hc.1.2 hc.2
              · cases hs
            · have h40 : ¬ (p.type = CONNECT) := h0
              by_cases h1 : p.type = DISCONNECT
              · have hb : isBinType p.type = false := by rw [h1]; decide
                have hpk : handlePkt cfg c p = handleDisconnect cfg c p.nsp := by
                  unfold handlePkt; rw [h1]; simp [CONNECT, DISCONNECT]
                simp only [hb, Bool.false_eq_true, if_false, hpk]
                simp only [h1, show ¬ (DISCONNECT = CONNECT) by decide,
                  show ¬ (DISCONNECT = CONNECT_ERROR) by decide, if_true, if_false] at hs
                split at hs
                · rename_i hc
                  simp only [Bool.and_eq_true, decide_eq_true_eq] at hc
                  obtain ⟨⟨_, hm⟩, hk⟩ := hc
                  subst hm
                  have := sim_disconnect cfg h rfl p.nsp
                  split at hs
                  · rename_i hemp
                    simp only [Option.some.injEq, Prod.mk.injEq] at hs
                    obtain ⟨rfl, rfl⟩ := hs
                    simpa [hemp] using this
                  · rename_i hemp
                    simp only [Option.some.injEq, Prod.mk.injEq] at hs
                    obtain ⟨rfl, rfl⟩ := hs
                    simpa [hemp] using this
                · cases hs
              · by_cases h2 : p.type = EVENT
                · have hb : isBinType p.type = false := by rw [h2]; decide
                  have hpk : handlePkt cfg c p = handleEvent cfg c p.nsp p.id p.data := by
                    unfold handlePkt; rw [h2]; simp [CONNECT, DISCONNECT, EVENT]
                  simp only [hb, Bool.false_eq_true, if_false, hpk]
                  simp only [h2, show ¬ (EVENT = CONNECT) by decide, show ¬ (EVENT = CONNECT_ERROR) by decide,
                    show ¬ (EVENT = DISCONNECT) by decide, if_true, if_false] at hs
                  split at hs
                  · rename_i hc
                    simp only [Bool.and_eq_true, decide_eq_true_eq, Bool.not_eq_true'] at hc
                    simp only [Option.some.injEq, Prod.mk.injEq] at hs
                    obtain ⟨rfl, rfl⟩ := hs
                    rw [handleEvent_state]
                    exact ⟨h, notes_handleEvent _ _ _ _ _ hc.2⟩
                  · cases hs
                · by_cases h3 : p.type = ACK
                  · have hb : isBinType p.type = false := by rw [h3]; decide
                    have hpk : handlePkt cfg c p = handleAck c p.nsp p.id p.data := by
                      unfold handlePkt; rw [h3]; simp [CONNECT, DISCONNECT, EVENT, ACK]
                    simp only [hb, Bool.false_eq_true, if_false, hpk]
                    simp only [h3, show ¬ (ACK = CONNECT) by decide, show ¬ (ACK = CONNECT_ERROR) by decide,
                      show ¬ (ACK = DISCONNECT) by decide, show ¬ (ACK = EVENT) by decide,
                      if_true, if_false] at hs
                    split at hs
                    · simp only [Option.some.injEq, Prod.mk.injEq] at hs
                      obtain ⟨rfl, rfl⟩ := hs
                      obtain ⟨f1, f2, f3, f4, f5⟩ := handleAck_fields c p.nsp p.id p.data
                      exact ⟨h.congr rfl f1 f2 f3 f4 f5, notes_handleAck _ _ _ _⟩
                    · cases hs
                  · simp only [h0, h4, h1, h2, h3, if_false] at hs
                    split at hs
                    · rename_i hbin
                      simp only [hbin, if_true]
                      split at hs
                      · simp only [Option.some.injEq, Prod.mk.injEq] at hs
                        obtain ⟨rfl, rfl⟩ := hs
                        exact ⟨h.set_pend rfl (some ⟨p, natt, []⟩), rfl⟩
                      · cases hs
                    · cases hs

  · have hup' : v.up = false := by simpa using hup
    simp only [hup', Bool.not_false, if_true, Option.some.injEq, Prod.mk.injEq] at hs
    obtain ⟨rfl, rfl⟩ := hs
    have heio : c.eio = .disconnected := by have := h.eio; simp [hup'] at this; exact this
    rw [deliver_down cfg c e heio]
    exact ⟨h, rfl⟩

end Sio.Client

namespace Sio.Client

theorem sim_evs (cfg : Cfg) {m : Mode} {q : List Ns} (es : List Ev) : ∀ {c : Cli} {v v' : View} {t : List Note},
    R m q c v → specEvs m v es = some (v', t) →
    R m q (deliverAll cfg c es).1 v' ∧ notes (deliverAll cfg c es).2 = t := by
  induction es with
  | nil =>
    intro c v v' t h hs
    simp only [specEvs, Option.some.injEq, Prod.mk.injEq] at hs
    obtain ⟨rfl, rfl⟩ := hs
    exact ⟨h, rfl⟩
  | cons e es ih =>
    intro c v v' t h hs
    simp only [specEvs] at hs
    cases h1 : specEv m v e with
    | none => rw [h1] at hs; cases hs
    | some r1 =>
      obtain ⟨v1, t1⟩ := r1
      rw [h1] at hs
      simp only at hs
      cases h2 : specEvs m v1 es with
      | none => rw [h2] at hs; cases hs
      | some r2 =>
        obtain ⟨v2, t2⟩ := r2
        rw [h2] at hs
        simp only [Option.some.injEq, Prod.mk.injEq] at hs
        obtain ⟨rfl, rfl⟩ := hs
        obtain ⟨hR1, hn1⟩ := sim_ev cfg h h1
        obtain ⟨hR2, hn2⟩ := ih hR1 h2
        simp only [deliverAll]
        exact ⟨hR2, by rw [notes_append, hn1, hn2]⟩

theorem R.eio_win {w : Bool} {q : List Ns} {c : Cli} {v : View} (h : R (.win w) q c v) : c.eio = .connected := by
  have hup := h.winup (by intro hh; cases hh)
  have := h.eio; simp [hup] at this; exact this

theorem sim_loop (cfg : Cfg) (auth : J) (w : Bool) {q : List Ns} (nss : List Ns) :
    ∀ {c : Cli} {v v' : View} {rs : List (List Ev)} {t : List Note},
    R (.win w) q c v → specLoop w v nss rs = some (v', t) →
    R (.win w) q (connectLoop cfg auth c nss rs).1 v' ∧ notes (connectLoop cfg auth c nss rs).2 = t := by
  induction nss with
  | nil =>
    intro c v v' rs t h hs
    simp only [specLoop, Option.some.injEq, Prod.mk.injEq] at hs
    obtain ⟨rfl, rfl⟩ := hs
    exact ⟨h, rfl⟩
  | cons n ns ih =>
    intro c v v' rs t h hs
    simp only [specLoop] at hs
    cases h1 : specEvs (.win w) v (rs.headD []) with
    | none => rw [h1] at hs; cases hs
    | some r1 =>
      obtain ⟨v1, t1⟩ := r1
      rw [h1] at hs
      simp only at hs
      cases h2 : specLoop w v1 ns rs.tail with
      | none => rw [h2] at hs; cases hs
      | some r2 =>
        obtain ⟨v2, t2⟩ := r2
        rw [h2] at hs
        simp only [Option.some.injEq, Prod.mk.injEq] at hs
        obtain ⟨rfl, rfl⟩ := hs
        obtain ⟨hR1, hn1⟩ := sim_evs cfg (rs.headD []) h h1
        obtain ⟨hR2, hn2⟩ := ih hR1 h2
        simp only [connectLoop, h.eio_win, if_true]
        exact ⟨hR2, by rw [notes_send, notes_append, hn1, hn2]⟩

end Sio.Client

namespace Sio.Client

theorem hasKey_iff_mem_keys (l : List (Ns × J)) (n : Ns) : hasKey l n = true ↔ n ∈ l.map (·.1) := by
  simp only [hasKey, List.any_eq_true, List.mem_map, decide_eq_true_eq]

/-- the test of the wait loop, `set(self.namespaces) == set(self.connection_namespaces)`, decides
    exactly "every requested namespace was accepted" -/
theorem sameSet_decision {w : Bool} {q : List Ns} {c : Cli} {v : View} (h : R (.win w) q c v) :
    sameSet (c.namespaces.map (·.1)) q = (v.asked.isEmpty && v.ref.isEmpty) := by
  have hm : Mode.win w ≠ .live := by intro hh; cases hh
  by_cases hae : v.asked = [] ∧ v.ref = []
  · obtain ⟨ha, hr⟩ := hae
    have hns : c.namespaces = v.acc := h.ns1 (by rw [hr]; simp)
    rw [ha, hr, hns]
    simp only [List.isEmpty_nil, Bool.and_self]
    unfold sameSet
    simp only [Bool.and_eq_true, List.all_eq_true, List.contains_iff_mem]
    refine ⟨?_, ?_⟩
    · intro x hx
      simp only [List.mem_map] at hx
      obtain ⟨e, he, rfl⟩ := hx
      exact h.inv_c e he
    · intro x hx
      rcases h.inv_b hm x hx with h1 | h1 | h1
      · rw [ha] at h1; cases h1
      · rw [hr] at h1; cases h1
      · exact (hasKey_iff_mem_keys _ _).mp h1
  · have hex : ∃ n, (n ∈ v.asked ∨ n ∈ v.ref) := by
      cases ha : v.asked with
      | cons a l => exact ⟨a, Or.inl (by simp)⟩
      | nil =>
        cases hr : v.ref with
        | cons a l => exact ⟨a, Or.inr (by simp)⟩
        | nil => exact absurd ⟨ha, hr⟩ hae
    obtain ⟨n, hn⟩ := hex
    obtain ⟨hq, hk⟩ := h.inv_a n hn
    have hnot : n ∉ c.namespaces.map (·.1) := by
      intro hmem
      simp only [List.mem_map] at hmem
      obtain ⟨e, he, rfl⟩ := hmem
      have := h.ns2 e he
      rw [hk] at this; cases this
    have hrhs : (v.asked.isEmpty && v.ref.isEmpty) = false := by
      rcases hn with h1 | h1
      · cases ha : v.asked with
        | nil => rw [ha] at h1; cases h1
        | cons a l => simp
      · cases hr : v.ref with
        | nil => rw [hr] at h1; cases h1
        | cons a l => simp
    rw [hrhs]
    unfold sameSet
    have : (q.all fun x => (c.namespaces.map (·.1)).contains x) = false := by
      rw [List.all_eq_false]
      exact ⟨n, hq, by simpa using hnot⟩
    rw [this, Bool.and_false]

end Sio.Client

namespace Sio.Client

theorem R.up_of_hasKey {m : Mode} {q : List Ns} {c : Cli} {v : View} (h : R m q c v) {n : Ns}
    (hk : hasKey v.acc n = true) : v.up = true := by
  cases hup : v.up with
  | true => rfl
  | false =>
    have := (h.down hup).1
    rw [this] at hk
    simp [View.down, hasKey] at hk

theorem notes_flatMap_sendPkt (c : Cli) (l : List (Ns × J)) :
    notes (l.flatMap (fun e => sendPkt c ⟨DISCONNECT, some e.1, none, none⟩)) = [] := by
  induction l with
  | nil => rfl
  | cons a l ih => simp [List.flatMap_cons, ih, notes_sendPkt]

theorem sim_emitCore (cfg : Cfg) {q : List Ns} {c : Cli} {v v' : View} {t : List Note}
    (ev : Str) (d : Data) (ns : Option Ns) (cb : Option Cb) (reacts : List Ev)
    (h : R .live q c v)
    (hs : (if hasKey v.acc (nsOr ns) then specEvs .live v reacts else some (v, [])) = some (v', t)) :
    R .live q (emitCore cfg c ev d ns cb reacts).1 v'
    ∧ notes (emitCore cfg c ev d ns cb reacts).2.1 = t := by
  have hns : hasNs c (nsOr ns) = hasKey v.acc (nsOr ns) := by rw [hasNs, h.ns_live]
  cases hk : hasKey v.acc (nsOr ns) with
  | false =>
    simp only [hk, Bool.false_eq_true, if_false, Option.some.injEq, Prod.mk.injEq] at hs
    obtain ⟨rfl, rfl⟩ := hs
    unfold emitCore
    simp [hns, hk, h]
  | true =>
    simp only [hk, if_true] at hs
    have hup := h.up_of_hasKey hk
    have heio : c.eio = .connected := by have := h.eio; simp [hup] at this; exact this
    unfold emitCore
    simp only [hns, hk, Bool.not_true, Bool.false_eq_true, if_false]
    cases cb with
    | none =>
      simp only [heio, if_true]
      obtain ⟨hR, hn⟩ := sim_evs cfg reacts h hs
      exact ⟨hR, by rw [notes_send, hn]⟩
    | some k =>
      have hR0 : R .live q (genId c (nsOr ns) k).1 v :=
        h.congr hup rfl rfl rfl rfl rfl
      have he0 : (genId c (nsOr ns) k).1.eio = .connected := heio
      simp only [he0, if_true]
      obtain ⟨hR, hn⟩ := sim_evs cfg reacts hR0 hs
      exact ⟨hR, by rw [notes_send, hn]⟩

end Sio.Client

namespace Sio.Client

theorem notes_refuse (cfg : Cfg) (arg : J) (nss : List Ns) :
    notes (nss.flatMap (fun n => (trigger cfg sConnectError n [arg]).1)) = nss.map Note.refused := by
  induction nss with
  | nil => rfl
  | cons a l ih => simp [List.flatMap_cons, ih]

/-- the window opens: `eio.connect()` succeeded, `_handle_eio_connect` is about to send -/
theorem R_window_open {q : List Ns} {c : Cli} {v : View} (h : R .live q c v) (hup : v.up = false)
    (nss : List Ns) (hne : nss ≠ []) (w : Bool) (es : Str) :
    R (.win w) nss { c with requested := nss, namespaces := [], eio := .connected, sid := some es }
      { up := true, esid := some es, asked := nss } := by
  have hd := h.down hup
  have hc : c.connected = false := by have := h.conn; simp [hup] at this; exact this
  have hb : c.binbuf = none := by rw [h.bin, hd.1]; rfl
  constructor
  · rfl
  · simp [hc]
  · intro _; rfl
  · intro e he; cases he
  · rfl
  · exact hb
  · intro hh; cases hh
  · intro n hn
    rcases hn with h1 | h1
    · exact ⟨h1, by simp [hasKey]⟩
    · cases h1
  · intro _ n hn; exact Or.inl hn
  · intro n hn; cases hn
  · intro hr; cases hr
  · intro _; rfl
  · intro _; exact Or.inl hne
  · intro e he; cases he

/-- the window closes: `connect()` returns normally -/
theorem R_window_close {w : Bool} {q : List Ns} {c : Cli} {v : View} (h : R (.win w) q c v)
    (hroot : root ∉ v.ref) : R .live q { c with connected := true } v := by
  have hup := h.winup (by intro hh; cases hh)
  constructor
  · exact h.eio
  · simp [hup]
  · exact h.ns1
  · exact h.ns2
  · exact h.sid
  · exact h.bin
  · intro hd; rw [hup] at hd; cases hd
  · exact h.inv_a
  · intro hm; exact absurd rfl hm
  · exact h.inv_e
  · intro hr; exact absurd hr hroot
  · intro hm; exact absurd rfl hm
  · exact h.alive
  · exact h.inv_c

theorem R.congr_down {q : List Ns} {c : Cli} {v : View} (h : R .live q c v) (hup : v.up = false)
    (nss : List Ns) : R .live q { c with requested := nss, namespaces := [] } v := by
  have hd := h.down hup
  have hns : c.namespaces = [] := by rw [h.ns_live, hd.1]; rfl
  constructor
  · exact h.eio
  · exact h.conn
  · intro hr; rw [← h.ns1 hr, hns]
  · intro e he; cases he
  · exact h.sid
  · exact h.bin
  · exact h.down
  · exact h.inv_a
  · exact h.inv_b
  · exact h.inv_e
  · exact h.rootref
  · exact h.winup
  · exact h.alive
  · exact h.inv_c

theorem connect_accept (cfg : Cfg) (c : Cli) (nss : List Ns) (auth : Auth) (wait : Bool) (es : Str)
    (reacts : List (List Ev)) (hc : c.connected = false) (he : c.eio = .disconnected) :
    connect cfg c nss auth wait (.accept es) reacts =
      if (wait && !sameSet ((connectLoop cfg auth.real
            { c with requested := nss, namespaces := [], eio := .connected, sid := some es }
            nss reacts).1.namespaces.map (·.1)) nss) = true then
        ({ (apiDisconnect cfg (connectLoop cfg auth.real
              { c with requested := nss, namespaces := [], eio := .connected, sid := some es }
              nss reacts).1).1 with namespaces := [] },
         (if auth.callable = true then [Out.authCall] else [])
           ++ (connectLoop cfg auth.real
              { c with requested := nss, namespaces := [], eio := .connected, sid := some es }
              nss reacts).2
           ++ (apiDisconnect cfg (connectLoop cfg auth.real
              { c with requested := nss, namespaces := [], eio := .connected, sid := some es }
              nss reacts).1).2 ++ [.raised .connectionError])
      else
        ({ (connectLoop cfg auth.real
              { c with requested := nss, namespaces := [], eio := .connected, sid := some es }
              nss reacts).1 with connected := true },
         (if auth.callable = true then [Out.authCall] else [])
           ++ (connectLoop cfg auth.real
              { c with requested := nss, namespaces := [], eio := .connected, sid := some es }
              nss reacts).2 ++ [.result .none]) := by
  unfold connect
  simp only [hc, Bool.false_eq_true, if_false, he, ne_eq, not_true_eq_false]

theorem connect_refuse (cfg : Cfg) (c : Cli) (nss : List Ns) (auth : Auth) (wait : Bool) (arg : J)
    (reacts : List (List Ev)) (hc : c.connected = false) (he : c.eio = .disconnected) :
    connect cfg c nss auth wait (.refuse arg) reacts =
      ({ c with requested := nss, namespaces := [] },
       nss.flatMap (fun n => (trigger cfg sConnectError n [arg]).1) ++ [.raised .connectionError]) := by
  unfold connect
  simp only [hc, Bool.false_eq_true, if_false, he, ne_eq, not_true_eq_false]

theorem sim_connect_step (cfg : Cfg) (strict : Bool) {q : List Ns} {c : Cli} {v v' : View} {t : List Note}
    (nss : List Ns) (auth : Auth) (wait : Bool) (oc : Outcome) (reacts : List (List Ev))
    (h : R .live q c v) (hs : specStep strict v (.connect nss auth wait oc reacts) = some (v', t)) :
    ∃ q', R .live q' (connect cfg c nss auth wait oc reacts).1 v'
      ∧ notes (connect cfg c nss auth wait oc reacts).2 = t := by
  simp only [specStep] at hs
  cases hup : v.up with
  | true =>
    simp only [hup, if_true, Option.some.injEq, Prod.mk.injEq] at hs
    obtain ⟨rfl, rfl⟩ := hs
    have hc : c.connected = true := by have := h.conn; simp [hup] at this; exact this
    refine ⟨q, ?_⟩
    unfold connect
    simp [hc, h]
  | false =>
    simp only [hup, Bool.false_eq_true, if_false] at hs
    have hc : c.connected = false := by have := h.conn; simp [hup] at this; exact this
    have heio : c.eio = .disconnected := by have := h.eio; simp [hup] at this; exact this
    have hd := h.down hup
    have hns : c.namespaces = [] := by rw [h.ns_live, hd.1]; rfl
    cases oc with
    | refuse arg =>
      simp only [Option.some.injEq, Prod.mk.injEq] at hs
      obtain ⟨rfl, rfl⟩ := hs
      refine ⟨q, ?_⟩
      rw [connect_refuse cfg c nss auth wait arg reacts hc heio]
      exact ⟨h.congr_down hup nss, by simp [notes_refuse]⟩
    | accept es =>
      simp only at hs
      split at hs
      · cases hs
      · rename_i hne
        have hne' : nss ≠ [] := by intro hh; apply hne; simp [hh]
        cases hl : specLoop wait { up := true, esid := some es, asked := nss } nss reacts with
        | none => rw [hl] at hs; cases hs
        | some r =>
          obtain ⟨v1, t1⟩ := r
          rw [hl] at hs
          simp only at hs
          have hopen := R_window_open h hup nss hne' wait es
          obtain ⟨hR1, hn1⟩ := sim_loop cfg auth.real wait nss hopen hl
          have hdec := sameSet_decision hR1
          have hoa : notes (if auth.callable = true then [Out.authCall] else []) = [] := by
            split <;> simp
          rw [connect_accept cfg c nss auth wait es reacts hc heio, hdec]
          split at hs
          · rename_i hfail
            -- `ConnectionError`: the client is fully disconnected again
            split at hs
            · cases hs
            · simp only [Option.some.injEq, Prod.mk.injEq] at hs
              obtain ⟨rfl, rfl⟩ := hs
              simp only [hfail, if_true]
              have he1 := hR1.eio_win
              have hcc : (connectLoop cfg auth.real
                  { c with requested := nss, namespaces := [], eio := .connected, sid := some es } nss reacts).1.connected
                  = false := by have := hR1.conn; simpa using this
              refine ⟨nss, ?_, ?_⟩
              · constructor <;> simp [apiDisconnect, eioDisconnect, onEioDisconnect, he1, hcc, View.down]
              · simp [apiDisconnect, eioDisconnect, onEioDisconnect, he1, hcc, hoa, hn1, notes_flatMap_sendPkt]
          · rename_i hok
            simp only [Option.some.injEq, Prod.mk.injEq] at hs
            obtain ⟨rfl, rfl⟩ := hs
            simp only [hok, Bool.false_eq_true, if_false]
            have hroot : root ∉ v1.ref := by
              intro hr
              have hm := hR1.rootref hr
              -- only a waiting connect may see `/` refused, and then it does not return normally
              have hw : wait = true := by cases hm; rfl
              cases hq : (v1.asked.isEmpty && v1.ref.isEmpty) with
              | true =>
                simp only [Bool.and_eq_true] at hq
                have hnil : v1.ref = [] := by simpa using hq.2
                rw [hnil] at hr; cases hr
              | false => rw [hq, hw] at hok; simp at hok
            exact ⟨nss, R_window_close hR1 hroot, by simp [hoa, hn1]⟩

end Sio.Client

namespace Sio.Client

theorem sim_api_disconnect (cfg : Cfg) {q : List Ns} {c : Cli} {v : View} (h : R .live q c v) :
    R .live q (apiDisconnect cfg c).1 v.endAll.1
    ∧ notes (apiDisconnect cfg c).2 = v.endAll.2 := by
  cases hup : v.up with
  | true =>
    have heio : c.eio = .connected := by have := h.eio; simp [hup] at this; exact this
    obtain ⟨hR, hn⟩ := sim_end cfg rClient h hup
    simp only [apiDisconnect, eioDisconnect, heio, if_true, View.endAll]
    exact ⟨hR, by rw [notes_append, notes_flatMap_sendPkt, notes_close, hn]; rfl⟩
  | false =>
    have heio : c.eio = .disconnected := by have := h.eio; simp [hup] at this; exact this
    have hd := (h.down hup).1
    have hs : ∀ p, sendPkt c p = [] := by intro p; simp [sendPkt, heio]
    simp only [apiDisconnect, eioDisconnect, heio, View.endAll, hs]
    rw [hd]
    simp only [View.down, List.map_nil]
    refine ⟨?_, by simp [notes]⟩
    have : v = View.down := hd
    subst this
    simpa [View.down] using h

theorem sim_step (cfg : Cfg) (strict : Bool) {q : List Ns} {c : Cli} {v v' : View} {i : Input}
    {t : List Note} (h : R .live q c v) (hs : specStep strict v i = some (v', t)) :
    ∃ q', R .live q' (step cfg c i).1 v' ∧ notes (step cfg c i).2 = t := by
  cases i with
  | connect nss auth wait oc reacts => exact sim_connect_step cfg strict nss auth wait oc reacts h hs
  | emit ev d ns cb reacts =>
    simp only [specStep] at hs
    obtain ⟨hR, hn⟩ := sim_emitCore cfg ev d ns cb reacts h hs
    refine ⟨q, hR, ?_⟩
    simp only [step, emit]
    split <;> simp [hn]
  | send d ns cb reacts =>
    simp only [specStep] at hs
    obtain ⟨hR, hn⟩ := sim_emitCore cfg sMessage d ns cb reacts h hs
    refine ⟨q, hR, ?_⟩
    simp only [step, emit]
    split <;> simp [hn]
  | call ev d ns tok reacts =>
    simp only [specStep] at hs
    obtain ⟨hR, hn⟩ := sim_emitCore cfg ev d ns (some ⟨tok, .call⟩) reacts h hs
    refine ⟨q, ?_⟩
    simp only [step, call]
    split
    · exact ⟨hR, hn⟩
    · split <;> exact ⟨hR, by simp [hn]⟩
  | disconnect =>
    simp only [specStep, Option.some.injEq] at hs
    obtain ⟨hR, hn⟩ := sim_api_disconnect cfg h
    refine ⟨q, ?_⟩
    simp only [step]
    rw [hs] at hR hn
    exact ⟨hR, by simp [hn]⟩
  | ev e =>
    simp only [specStep] at hs
    obtain ⟨hR, hn⟩ := sim_ev cfg h hs
    exact ⟨q, hR, hn⟩

/-- **Simulation.** Along every history inside the quantifier, the client model stays related to the
    server's view and produces exactly the notifications the view requires. -/
theorem sim_run (cfg : Cfg) (strict : Bool) (is : List Input) :
    ∀ {q : List Ns} {c : Cli} {v v' : View} {t : List Note},
    R .live q c v → specRun strict v is = some (v', t) →
    ∃ q', R .live q' (run cfg c is).1 v' ∧ notes (run cfg c is).2 = t := by
  induction is with
  | nil =>
    intro q c v v' t h hs
    simp only [specRun, Option.some.injEq, Prod.mk.injEq] at hs
    obtain ⟨rfl, rfl⟩ := hs
    exact ⟨q, h, rfl⟩
  | cons i is ih =>
    intro q c v v' t h hs
    simp only [specRun] at hs
    cases h1 : specStep strict v i with
    | none => rw [h1] at hs; cases hs
    | some r1 =>
      obtain ⟨v1, t1⟩ := r1
      rw [h1] at hs
      simp only at hs
      cases h2 : specRun strict v1 is with
      | none => rw [h2] at hs; cases hs
      | some r2 =>
        obtain ⟨v2, t2⟩ := r2
        rw [h2] at hs
        simp only [Option.some.injEq, Prod.mk.injEq] at hs
        obtain ⟨rfl, rfl⟩ := hs
        obtain ⟨q1, hR1, hn1⟩ := sim_step cfg strict h h1
        obtain ⟨q2, hR2, hn2⟩ := ih hR1 h2
        simp only [run]
        exact ⟨q2, hR2, by rw [notes_append, hn1, hn2]⟩

end Sio.Client
