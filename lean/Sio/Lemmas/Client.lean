/-
  K7 — basic facts about the notifications of a client trace.
-/
import Sio.Model.ClientSpec
namespace Sio.Client

/-! ### notes -/

@[simp] theorem notes_nil : notes [] = [] := rfl

@[simp] theorem notes_append (a b : List Out) : notes (a ++ b) = notes a ++ notes b := by
  simp [notes, List.filterMap_append]

theorem notes_cons (o : Out) (os : List Out) :
    notes (o :: os) = (noteOf o).toList ++ notes os := by
  simp only [notes, List.filterMap_cons]
  cases noteOf o <;> simp

@[simp] theorem notes_send (p : Packet) (os : List Out) : notes (.send p :: os) = notes os := by
  simp [notes_cons, noteOf]
@[simp] theorem notes_close (os : List Out) : notes (.close :: os) = notes os := by
  simp [notes_cons, noteOf]
@[simp] theorem notes_auth (os : List Out) : notes (.authCall :: os) = notes os := by
  simp [notes_cons, noteOf]
@[simp] theorem notes_cb (cb : Cb) (a : List J) (os : List Out) : notes (.callback cb a :: os) = notes os := by
  simp [notes_cons, noteOf]
@[simp] theorem notes_contained (e : Err) (os : List Out) : notes (.contained e :: os) = notes os := by
  simp [notes_cons, noteOf]
@[simp] theorem notes_result (r : Data) (os : List Out) : notes (.result r :: os) = notes os := by
  simp [notes_cons, noteOf]
@[simp] theorem notes_raised (e : CErr) (os : List Out) : notes (.raised e :: os) = notes os := by
  simp [notes_cons, noteOf]

/-- the notification a `_trigger_event(ev, n, …)` stands for -/
def noteEv (ev : Str) (n : Ns) : Option Note :=
  if ev = sConnect then some (.accepted n)
  else if ev = sConnectError then some (.refused n)
  else if ev = sDisconnect then some (.ended n)
  else none

theorem notes_trigger (cfg : Cfg) (ev : Str) (n : Ns) (args : List J) :
    notes (trigger cfg ev n args).1 = (noteEv ev n).toList := by
  unfold trigger
  cases cfg.resolve n ev args with
  | none => simp [notes_cons, noteOf, noteEv]
  | some t => obtain ⟨s, a⟩ := t; simp [notes_cons, noteOf, noteEv]

@[simp] theorem notes_trigger_connect (cfg : Cfg) (n : Ns) (args : List J) :
    notes (trigger cfg sConnect n args).1 = [.accepted n] := by
  simp [notes_trigger, noteEv]

@[simp] theorem notes_trigger_disconnect (cfg : Cfg) (n : Ns) (args : List J) :
    notes (trigger cfg sDisconnect n args).1 = [.ended n] := by
  rw [notes_trigger]
  have h1 : sDisconnect ≠ sConnect := by decide
  have h2 : sDisconnect ≠ sConnectError := by decide
  simp [noteEv, h1, h2]

@[simp] theorem notes_trigger_error (cfg : Cfg) (n : Ns) (args : List J) :
    notes (trigger cfg sConnectError n args).1 = [.refused n] := by
  rw [notes_trigger]
  have h1 : sConnectError ≠ sConnect := by decide
  simp [noteEv, h1]

theorem notes_trigger_other (cfg : Cfg) (ev : Str) (n : Ns) (args : List J)
    (h : isReservedName ev = false) : notes (trigger cfg ev n args).1 = [] := by
  rw [notes_trigger]
  simp [isReservedName] at h
  simp [noteEv, h]

theorem notes_sendPkt (c : Cli) (p : Packet) : notes (sendPkt c p) = [] := by
  unfold sendPkt; split <;> simp

theorem notes_flatMap_disconnect (cfg : Cfg) (reason : Str) (l : List (Ns × J)) :
    notes (l.flatMap (fun e => (trigger cfg sDisconnect e.1 [.str reason]).1))
      = l.map (fun e => Note.ended e.1) := by
  induction l with
  | nil => rfl
  | cons a l ih => simp [List.flatMap_cons, ih]

/-- starting the reconnection effort touches nothing but its own flag -/
theorem startEffort_eq (c : Cli) :
    startEffort c = (c, []) ∨ startEffort c = ({ c with effort := true }, [.effort]) := by
  unfold startEffort; split <;> simp

@[simp] theorem notes_effort (os : List Out) : notes (.effort :: os) = notes os := by
  simp [notes_cons, noteOf]

theorem notes_startEffort (c : Cli) : notes (startEffort c).2 = [] := by
  rcases startEffort_eq c with h | h <;> rw [h] <;> simp

end Sio.Client
