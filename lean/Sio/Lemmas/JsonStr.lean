/-
  C01 phase 2 — the JSON reader inverts the printer on strings.
-/
import Sio.Model.JsonParse
namespace Sio
open JP

/-! ### hexadecimal -/

theorem hexVal_digitChar : ∀ k, k < 16 → hexVal (Nat.digitChar k) = some k := by decide

theorem hex4Val_hex4 (n : Nat) (h : n < 65536) :
    hex4Val (hexDigit (n / 4096)) (hexDigit (n / 256)) (hexDigit (n / 16)) (hexDigit n) = some n := by
  simp only [hex4Val, hexDigit, hexVal_digitChar _ (Nat.mod_lt _ (by decide : 0 < 16))]
  congr 1
  omega

theorem char_range (c : Char) : c.toNat < 0xD800 ∨ (0xDFFF < c.toNat ∧ c.toNat < 0x110000) := by
  have := c.valid
  simp only [UInt32.isValidChar, Nat.isValidChar] at this
  exact this

/-! ### one character -/

/-- put a character in front of the result of reading the rest -/
def consOk (c : Char) : Except Err (Str × Str) → Except Err (Str × Str)
  | .ok (cs, r) => .ok (c :: cs, r)
  | .error e => .error e

theorem strBody_raw (c : Char) (rest : Str) (h1 : c ≠ '\\') (h2 : c ≠ '"') (h3 : 32 ≤ c.toNat) :
    strBody none (c :: rest) = consOk c (strBody none rest) := by
  have h3' : ¬ c.toNat < 32 := by omega
  rw [strBody.eq_def]
  simp only [h1, h2, h3', if_false, Option.isSome_none, Bool.false_eq_true]
  generalize strBody none rest = x
  rcases x with _ | ⟨cs, r⟩ <;> rfl

theorem strBody_quote (rest : Str) : strBody none ('"' :: rest) = .ok ([], rest) := by
  rw [strBody.eq_def]; simp

theorem strBody_simple (e ch : Char) (rest : Str) (hu : e ≠ 'u') (he : simpleEsc e = some ch) :
    strBody none ('\\' :: e :: rest) = consOk ch (strBody none rest) := by
  rw [strBody.eq_def]
  simp only [if_true, hu, if_false, he]
  generalize strBody none rest = x
  rcases x with _ | ⟨cs, r⟩ <;> rfl

theorem strBody_u (a b c d : Char) (rest : Str) (v : Nat) (hv : hex4Val a b c d = some v)
    (h : v < 0xD800 ∨ 0xDFFF < v) :
    strBody none ('\\' :: 'u' :: a :: b :: c :: d :: rest) = consOk (Char.ofNat v) (strBody none rest) := by
  have n1 : ¬ (0xD800 ≤ v ∧ v ≤ 0xDBFF) := by omega
  have n2 : ¬ (0xDC00 ≤ v ∧ v ≤ 0xDFFF) := by omega
  rw [strBody.eq_def]
  simp only [if_true, hv, n1, n2, if_false]
  generalize strBody none rest = x
  rcases x with _ | ⟨cs, r⟩ <;> rfl

theorem strBody_pair (a b c d a' b' c' d' : Char) (rest : Str) (h l : Nat)
    (hh : hex4Val a b c d = some h) (hl : hex4Val a' b' c' d' = some l)
    (h1 : 0xD800 ≤ h ∧ h ≤ 0xDBFF) (h2 : 0xDC00 ≤ l ∧ l ≤ 0xDFFF) :
    strBody none ('\\' :: 'u' :: a :: b :: c :: d :: '\\' :: 'u' :: a' :: b' :: c' :: d' :: rest) =
      consOk (Char.ofNat (0x10000 + (h - 0xD800) * 1024 + (l - 0xDC00))) (strBody none rest) := by
  rw [strBody.eq_def]
  simp only [if_true, hh, h1, and_self]
  rw [strBody.eq_def]
  simp only [if_true, hl, h2, and_self]
  generalize strBody none rest = x
  rcases x with _ | ⟨cs, r⟩ <;> rfl

/-- reading back what `escChar` prints -/
theorem strBody_escChar (c : Char) (rest : Str) :
    strBody none (escChar c ++ rest) = consOk c (strBody none rest) := by
  unfold escChar
  split
  · rename_i h; subst h; exact strBody_simple '"' '"' rest (by decide) rfl
  split
  · rename_i h; subst h; exact strBody_simple '\\' '\\' rest (by decide) rfl
  split
  · rename_i h; subst h; exact strBody_simple 'n' '\n' rest (by decide) rfl
  split
  · rename_i h; subst h; exact strBody_simple 'r' '\r' rest (by decide) rfl
  split
  · rename_i h; subst h; exact strBody_simple 't' '\t' rest (by decide) rfl
  split
  · rename_i h
    have : c = Char.ofNat 8 := by rw [← Char.ofNat_toNat c, h]
    subst this; exact strBody_simple 'b' (Char.ofNat 8) rest (by decide) rfl
  split
  · rename_i h
    have : c = Char.ofNat 12 := by rw [← Char.ofNat_toNat c, h]
    subst this; exact strBody_simple 'f' (Char.ofNat 12) rest (by decide) rfl
  split
  · rename_i hq hb _ _ _ _ _ hr
    exact strBody_raw c rest hb hq hr.1
  split
  · rename_i hlt
    have hr := char_range c
    have := strBody_u _ _ _ _ rest c.toNat (hex4Val_hex4 c.toNat hlt) (by omega)
    rw [Char.ofNat_toNat] at this
    exact this
  · rename_i hge
    have hr := char_range c
    have hv : c.toNat - 65536 < 0x100000 := by omega
    have e1 := hex4Val_hex4 (0xD800 + (c.toNat - 65536) / 1024) (by omega)
    have e2 := hex4Val_hex4 (0xDC00 + (c.toNat - 65536) % 1024) (by omega)
    have := strBody_pair _ _ _ _ _ _ _ _ rest _ _ e1 e2 (by omega) (by omega)
    have hc : 0x10000 + (0xD800 + (c.toNat - 65536) / 1024 - 0xD800) * 1024
        + (0xDC00 + (c.toNat - 65536) % 1024 - 0xDC00) = c.toNat := by omega
    rw [hc, Char.ofNat_toNat] at this
    simpa [hex4] using this

theorem strBody_flatMap (s rest : Str) :
    strBody none (s.flatMap escChar ++ '"' :: rest) = .ok (s, rest) := by
  induction s with
  | nil => exact strBody_quote rest
  | cons c cs ih =>
    rw [List.flatMap_cons, List.append_assoc, strBody_escChar, ih]; rfl

/-- a printed string literal followed by anything -/
theorem strBody_escStr (s rest : Str) :
    ∃ t, escStr s ++ rest = '"' :: t ∧ strBody none t = .ok (s, rest) :=
  ⟨s.flatMap escChar ++ '"' :: rest, by simp [escStr], strBody_flatMap s rest⟩

end Sio
