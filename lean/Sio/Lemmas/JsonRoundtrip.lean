/-
  C01 phase 2 — `J.loads (J.dumps j) = ok j`: the concrete JSON reader inverts the concrete
  printer on every tree without byte strings whose float literals are well-formed.
-/
import Sio.Lemmas.JsonStr
import Sio.Lemmas.JsonNum
import Sio.Lemmas.CodecDefs
namespace Sio
open JP

mutual
  /-- every float leaf carries a well-formed literal -/
  def FltLits : J → Bool
    | .flt l => FltOK l
    | .arr xs => FltLitsL xs
    | .obj kvs => FltLitsO kvs
    | _ => true
  def FltLitsL : List J → Bool
    | [] => true
    | x :: xs => FltLits x && FltLitsL xs
  def FltLitsO : List (Str × J) → Bool
    | [] => true
    | (_, x) :: xs => FltLits x && FltLitsO xs
end

/-! ### the printer, equation by equation (by `rfl`: the generated unfolding lemmas are slow) -/

theorem dumps_null : J.dumps .null = ['n', 'u', 'l', 'l'] := rfl
theorem dumps_true : J.dumps (.bool true) = ['t', 'r', 'u', 'e'] := rfl
theorem dumps_false : J.dumps (.bool false) = ['f', 'a', 'l', 's', 'e'] := rfl
theorem dumps_int (i : Int) : J.dumps (.int i) = intStr i := rfl
theorem dumps_flt (l : Str) : J.dumps (.flt l) = l := rfl
theorem dumps_str (s : Str) : J.dumps (.str s) = escStr s := rfl
theorem dumps_arr (xs : List J) : J.dumps (.arr xs) = '[' :: (J.dumpsL xs ++ [']']) := rfl
theorem dumps_obj (kvs : List (Str × J)) : J.dumps (.obj kvs) = '{' :: (J.dumpsO kvs ++ ['}']) := rfl
theorem dumpsL_nil : J.dumpsL [] = [] := rfl
theorem dumpsL_one (x : J) : J.dumpsL [x] = J.dumps x := rfl
theorem dumpsL_cons (x y : J) (xs : List J) :
    J.dumpsL (x :: y :: xs) = J.dumps x ++ (',' :: J.dumpsL (y :: xs)) := rfl
theorem dumpsO_nil : J.dumpsO [] = [] := rfl
theorem dumpsO_one (k : Str) (x : J) : J.dumpsO [(k, x)] = escStr k ++ (':' :: J.dumps x) := rfl
theorem dumpsO_cons (k : Str) (x : J) (y : Str × J) (xs : List (Str × J)) :
    J.dumpsO ((k, x) :: y :: xs) = escStr k ++ (':' :: J.dumps x) ++ (',' :: J.dumpsO (y :: xs)) := rfl

/-! ### dispatch on the first character -/

def mapOk {α : Type} (g : α → J) : Except Err (α × Str) → Except Err (J × Str)
  | .ok (a, r) => .ok (g a, r)
  | .error e => .error e

theorem value_str (f : Nat) (r : Str) :
    value (f + 1) ('"' :: r) = mapOk J.str (strBody none r) := by
  rw [value.eq_def]
  simp only [if_true]
  generalize strBody none r = x
  rcases x with _ | ⟨cs, t⟩ <;> rfl

theorem value_arr_nil (f : Nat) (r : Str) : value (f + 1) ('[' :: ']' :: r) = .ok (.arr [], r) := by
  rw [value.eq_def]; simp

theorem value_arr (f : Nat) (c : Char) (r : Str) (hc : c ≠ ']') :
    value (f + 1) ('[' :: c :: r) = mapOk J.arr (elems f (c :: r)) := by
  rw [value.eq_def]
  have : ('[' : Char) ≠ '"' := by decide
  simp only [this, if_false, if_true, List.head?_cons, Option.some.injEq, hc]
  generalize elems f (c :: r) = x
  rcases x with _ | ⟨cs, t⟩ <;> rfl

theorem value_obj_nil (f : Nat) (r : Str) : value (f + 1) ('{' :: '}' :: r) = .ok (.obj [], r) := by
  rw [value.eq_def]; simp

theorem value_obj (f : Nat) (c : Char) (r : Str) (hc : c ≠ '}') :
    value (f + 1) ('{' :: c :: r) = mapOk J.obj (members f (c :: r)) := by
  rw [value.eq_def]
  have h1 : ('{' : Char) ≠ '"' := by decide
  have h2 : ('{' : Char) ≠ '[' := by decide
  simp only [h1, h2, if_false, if_true, List.head?_cons, Option.some.injEq, hc]
  generalize members f (c :: r) = x
  rcases x with _ | ⟨cs, t⟩ <;> rfl

theorem value_null (f : Nat) (r : Str) :
    value (f + 1) ('n' :: 'u' :: 'l' :: 'l' :: r) = .ok (.null, r) := by
  rw [value.eq_def]; simp

theorem value_true (f : Nat) (r : Str) :
    value (f + 1) ('t' :: 'r' :: 'u' :: 'e' :: r) = .ok (.bool true, r) := by
  rw [value.eq_def]; simp

theorem value_false (f : Nat) (r : Str) :
    value (f + 1) ('f' :: 'a' :: 'l' :: 's' :: 'e' :: r) = .ok (.bool false, r) := by
  rw [value.eq_def]; simp

theorem value_num (f : Nat) (c : Char) (r : Str) (hc : isNumChar c = true) :
    value (f + 1) (c :: r) = number (c :: r) := by
  have h1 : c ≠ '"' := by rintro rfl; simp [isNumChar] at hc
  have h2 : c ≠ '[' := by rintro rfl; simp [isNumChar] at hc
  have h3 : c ≠ '{' := by rintro rfl; simp [isNumChar] at hc
  have h4 : c ≠ 'n' := by rintro rfl; simp [isNumChar] at hc
  have h5 : c ≠ 't' := by rintro rfl; simp [isNumChar] at hc
  have h6 : c ≠ 'f' := by rintro rfl; simp [isNumChar] at hc
  rw [value.eq_def]
  simp only [h1, h2, h3, h4, h5, h6, hc, if_false, if_true]

/-! ### one step of the two loops -/

theorem elems_last (g : Nat) (s : Str) (x : J) (rest : Str)
    (hv : value g s = .ok (x, ']' :: rest)) : elems (g + 1) s = .ok ([x], rest) := by
  rw [elems.eq_def]; simp only [hv]

theorem elems_more (g : Nat) (s : Str) (x : J) (r : Str) (xs : List J) (rest : Str)
    (hv : value g s = .ok (x, ',' :: r)) (he : elems g r = .ok (xs, rest)) :
    elems (g + 1) s = .ok (x :: xs, rest) := by
  rw [elems.eq_def]; simp only [hv, he]

theorem members_last (g : Nat) (t : Str) (k : Str) (r2 : Str) (x : J) (rest : Str)
    (hk : strBody none t = .ok (k, ':' :: r2)) (hv : value g r2 = .ok (x, '}' :: rest)) :
    members (g + 1) ('"' :: t) = .ok ([(k, x)], rest) := by
  rw [members.eq_def]; simp only [hk, hv]

theorem members_more (g : Nat) (t : Str) (k : Str) (r2 : Str) (x : J) (r4 : Str)
    (kvs : List (Str × J)) (rest : Str)
    (hk : strBody none t = .ok (k, ':' :: r2)) (hv : value g r2 = .ok (x, ',' :: r4))
    (hm : members g r4 = .ok (kvs, rest)) :
    members (g + 1) ('"' :: t) = .ok ((k, x) :: kvs, rest) := by
  rw [members.eq_def]; simp only [hk, hv, hm]

/-! ### the first character of a printed value -/

theorem dumps_head (j : J) (hb : NoBin j = true) (hf : FltLits j = true) :
    ∃ c r, J.dumps j = c :: r ∧ c ≠ ']' ∧ c ≠ '}' := by
  cases j with
  | null => exact ⟨_, _, dumps_null, by decide, by decide⟩
  | bool b => cases b
              · exact ⟨_, _, dumps_false, by decide, by decide⟩
              · exact ⟨_, _, dumps_true, by decide, by decide⟩
  | int i =>
    obtain ⟨c, r, h, hc⟩ := intStr_cons i
    exact ⟨c, r, h, by rintro rfl; simp [isNumChar] at hc, by rintro rfl; simp [isNumChar] at hc⟩
  | flt l =>
    simp only [FltLits] at hf
    obtain ⟨c, r, h, hc⟩ := fltOK_cons hf
    exact ⟨c, r, h, by rintro rfl; simp [isNumChar] at hc, by rintro rfl; simp [isNumChar] at hc⟩
  | str s => exact ⟨'"', _, rfl, by decide, by decide⟩
  | bin b => simp [NoBin] at hb
  | arr xs => exact ⟨'[', _, rfl, by decide, by decide⟩
  | obj kvs => exact ⟨'{', _, rfl, by decide, by decide⟩

theorem delim_close (rest : Str) : delim (']' :: rest) = true := rfl
theorem delim_brace (rest : Str) : delim ('}' :: rest) = true := rfl
theorem delim_comma (rest : Str) : delim (',' :: rest) = true := rfl

/-! ### the round trip -/

mutual
  theorem value_dumps (j : J) (hb : NoBin j = true) (hf : FltLits j = true) (f : Nat)
      (hlen : (J.dumps j).length < f) (rest : Str) (hr : delim rest = true) :
      value f (J.dumps j ++ rest) = .ok (j, rest) := by
    obtain ⟨g, rfl⟩ : ∃ g, f = g + 1 := ⟨f - 1, by omega⟩
    cases j with
    | null => rw [dumps_null]; exact value_null g rest
    | bool b =>
      cases b
      · rw [dumps_false]; exact value_false g rest
      · rw [dumps_true]; exact value_true g rest
    | int i =>
      rw [dumps_int]
      obtain ⟨c, r, h, hc⟩ := intStr_cons i
      have := number_int i rest hr
      rw [h] at this ⊢
      rw [List.cons_append, value_num g c _ hc]; exact this
    | flt l =>
      simp only [FltLits] at hf
      rw [dumps_flt]
      obtain ⟨c, r, h, hc⟩ := fltOK_cons hf
      have := number_flt l rest hf hr
      rw [h] at this ⊢
      rw [List.cons_append, value_num g c _ hc]; exact this
    | str s =>
      rw [dumps_str]
      obtain ⟨t, ht, hs⟩ := strBody_escStr s rest
      rw [ht, value_str, hs]; rfl
    | bin b => simp [NoBin] at hb
    | arr xs =>
      simp only [NoBin] at hb
      simp only [FltLits] at hf
      rw [dumps_arr] at hlen ⊢
      match xs, hb, hf, hlen with
      | [], _, _, _ => exact value_arr_nil g rest
      | x :: xs', hb, hf, hlen =>
        have hx : NoBin x = true := by simp only [NoBinL, Bool.and_eq_true] at hb; exact hb.1
        have hfx : FltLits x = true := by simp only [FltLitsL, Bool.and_eq_true] at hf; exact hf.1
        obtain ⟨c, r, hc, hne, _⟩ : ∃ c r, J.dumpsL (x :: xs') = c :: r ∧ c ≠ ']' ∧ c ≠ '}' := by
          obtain ⟨c, r, h, h1, h2⟩ := dumps_head x hx hfx
          cases xs' with
          | nil => exact ⟨c, r, by rw [dumpsL_one, h], h1, h2⟩
          | cons y ys => exact ⟨c, r ++ (',' :: J.dumpsL (y :: ys)), by rw [dumpsL_cons, h]; rfl, h1, h2⟩
        have he := elems_dumps (x :: xs') (by simp) hb hf g
          (by simp only [List.length_cons, List.length_append, List.length_nil] at hlen; omega) rest
        have e : ('[' :: (J.dumpsL (x :: xs') ++ [']'])) ++ rest
            = '[' :: c :: (r ++ ']' :: rest) := by rw [hc]; simp
        have e' : c :: (r ++ ']' :: rest) = J.dumpsL (x :: xs') ++ ']' :: rest := by rw [hc]; rfl
        rw [e, value_arr g c _ hne, e', he]; rfl
    | obj kvs =>
      simp only [NoBin] at hb
      simp only [FltLits] at hf
      rw [dumps_obj] at hlen ⊢
      match kvs, hb, hf, hlen with
      | [], _, _, _ => exact value_obj_nil g rest
      | (k, x) :: kvs', hb, hf, hlen =>
        obtain ⟨r, hc⟩ : ∃ r, J.dumpsO ((k, x) :: kvs') = '"' :: r := by
          cases kvs' with
          | nil => exact ⟨_, by rw [dumpsO_one]; rfl⟩
          | cons y ys => exact ⟨_, by rw [dumpsO_cons]; rfl⟩
        have hm := members_dumps ((k, x) :: kvs') (by simp) hb hf g
          (by simp only [List.length_cons, List.length_append, List.length_nil] at hlen; omega) rest
        have e : ('{' :: (J.dumpsO ((k, x) :: kvs') ++ ['}'])) ++ rest
            = '{' :: '"' :: (r ++ '}' :: rest) := by rw [hc]; simp
        have e' : '"' :: (r ++ '}' :: rest) = J.dumpsO ((k, x) :: kvs') ++ '}' :: rest := by
          rw [hc]; rfl
        rw [e, value_obj g '"' _ (by decide), e', hm]; rfl
  theorem elems_dumps (xs : List J) (hne : xs ≠ []) (hb : NoBinL xs = true)
      (hf : FltLitsL xs = true) (f : Nat) (hlen : (J.dumpsL xs).length + 1 < f) (rest : Str) :
      elems f (J.dumpsL xs ++ ']' :: rest) = .ok (xs, rest) := by
    obtain ⟨g, rfl⟩ : ∃ g, f = g + 1 := ⟨f - 1, by omega⟩
    match xs, hne, hb, hf, hlen with
    | [x], _, hb, hf, hlen =>
      simp only [NoBinL, Bool.and_eq_true] at hb
      simp only [FltLitsL, Bool.and_eq_true] at hf
      rw [dumpsL_one] at hlen ⊢
      exact elems_last g _ x rest
        (value_dumps x hb.1 hf.1 g (by omega) (']' :: rest) (delim_close rest))
    | x :: y :: ys, _, hb, hf, hlen =>
      simp only [NoBinL, Bool.and_eq_true] at hb
      simp only [FltLitsL, Bool.and_eq_true] at hf
      rw [dumpsL_cons] at hlen ⊢
      simp only [List.length_append, List.length_cons] at hlen
      have hv := value_dumps x hb.1 hf.1 g (by omega)
        (',' :: (J.dumpsL (y :: ys) ++ ']' :: rest)) (delim_comma _)
      have he := elems_dumps (y :: ys) (by simp)
        (by simp only [NoBinL, Bool.and_eq_true]; exact hb.2)
        (by simp only [FltLitsL, Bool.and_eq_true]; exact hf.2) g (by omega) rest
      have e : (J.dumps x ++ (',' :: J.dumpsL (y :: ys))) ++ ']' :: rest
          = J.dumps x ++ (',' :: (J.dumpsL (y :: ys) ++ ']' :: rest)) := by simp
      rw [e]
      exact elems_more g _ x _ (y :: ys) rest hv he
  theorem members_dumps (kvs : List (Str × J)) (hne : kvs ≠ []) (hb : NoBinO kvs = true)
      (hf : FltLitsO kvs = true) (f : Nat) (hlen : (J.dumpsO kvs).length + 1 < f) (rest : Str) :
      members f (J.dumpsO kvs ++ '}' :: rest) = .ok (kvs, rest) := by
    obtain ⟨g, rfl⟩ : ∃ g, f = g + 1 := ⟨f - 1, by omega⟩
    match kvs, hne, hb, hf, hlen with
    | [(k, x)], _, hb, hf, hlen =>
      simp only [NoBinO, Bool.and_eq_true] at hb
      simp only [FltLitsO, Bool.and_eq_true] at hf
      rw [dumpsO_one] at hlen ⊢
      simp only [List.length_append, List.length_cons] at hlen
      obtain ⟨t, ht, hs⟩ := strBody_escStr k (':' :: (J.dumps x ++ '}' :: rest))
      have e : (escStr k ++ (':' :: J.dumps x)) ++ '}' :: rest
          = escStr k ++ (':' :: (J.dumps x ++ '}' :: rest)) := by simp
      rw [e, ht]
      exact members_last g t k _ x rest hs
        (value_dumps x hb.1 hf.1 g (by omega) ('}' :: rest) (delim_brace rest))
    | (k, x) :: y :: ys, _, hb, hf, hlen =>
      simp only [NoBinO, Bool.and_eq_true] at hb
      simp only [FltLitsO, Bool.and_eq_true] at hf
      rw [dumpsO_cons] at hlen ⊢
      simp only [List.length_append, List.length_cons] at hlen
      obtain ⟨t, ht, hs⟩ := strBody_escStr k
        (':' :: (J.dumps x ++ (',' :: (J.dumpsO (y :: ys) ++ '}' :: rest))))
      have hv := value_dumps x hb.1 hf.1 g (by omega)
        (',' :: (J.dumpsO (y :: ys) ++ '}' :: rest)) (delim_comma _)
      have hm := members_dumps (y :: ys) (by simp)
        (by cases y; simp only [NoBinO, Bool.and_eq_true]; exact hb.2)
        (by cases y; simp only [FltLitsO, Bool.and_eq_true]; exact hf.2) g (by omega) rest
      have e : (escStr k ++ (':' :: J.dumps x) ++ (',' :: J.dumpsO (y :: ys))) ++ '}' :: rest
          = escStr k ++ (':' :: (J.dumps x ++ (',' :: (J.dumpsO (y :: ys) ++ '}' :: rest)))) := by
        simp
      rw [e, ht]
      exact members_more g t k _ x _ (y :: ys) rest hs hv hm
end

/-- The concrete reader inverts the concrete printer. -/
theorem loads_dumps_lem (j : J) (hb : NoBin j = true) (hf : FltLits j = true) :
    J.loads (J.dumps j) = .ok j := by
  have := value_dumps j hb hf ((J.dumps j).length + 1) (by omega) [] rfl
  simp only [List.append_nil] at this
  simp only [J.loads, this]

/-! ### deconstruction keeps float literals -/

mutual
  theorem fltLits_decon (j : J) (acc : List Bytes) (h : FltLits j = true) :
      FltLits (decon j acc).1 = true := by
    cases j with
    | bin b => simp [decon, placeholder, FltLits, FltLitsO]
    | arr xs => simp only [FltLits] at h; simp [decon, FltLits, fltLitsL_deconL xs acc h]
    | obj kvs => simp only [FltLits] at h; simp [decon, FltLits, fltLitsO_deconO kvs acc h]
    | null => simp [decon, FltLits]
    | bool b => simp [decon, FltLits]
    | int i => simp [decon, FltLits]
    | flt l => simpa [decon] using h
    | str s => simp [decon, FltLits]
  theorem fltLitsL_deconL (xs : List J) (acc : List Bytes) (h : FltLitsL xs = true) :
      FltLitsL (deconL xs acc).1 = true := by
    cases xs with
    | nil => simp [deconL, FltLitsL]
    | cons x xs =>
      simp only [FltLitsL, Bool.and_eq_true] at h
      simp [deconL, FltLitsL, fltLits_decon x acc h.1, fltLitsL_deconL xs _ h.2]
  theorem fltLitsO_deconO (kvs : List (Str × J)) (acc : List Bytes) (h : FltLitsO kvs = true) :
      FltLitsO (deconO kvs acc).1 = true := by
    match kvs with
    | [] => simp [deconO, FltLitsO]
    | (k, x) :: xs =>
      simp only [FltLitsO, Bool.and_eq_true] at h
      simp [deconO, FltLitsO, fltLits_decon x acc h.1, fltLitsO_deconO xs _ h.2]
end

theorem wire_fltLits {p : Packet} (h : optAll FltLits p.data = true) {j : J}
    (hw : p.wire.data = some j) : FltLits j = true := by
  cases hb : isBinType p.type with
  | false =>
    have : p.wire.data = p.data := by simp [Packet.wire, hb]
    rw [this] at hw; rw [hw] at h; exact h
  | true =>
    have : p.wire.data = p.data.map (fun j => (decon j []).1) := by simp [Packet.wire, hb]
    rw [this] at hw
    cases hd : p.data with
    | none => rw [hd] at hw; cases hw
    | some j' =>
      rw [hd] at hw h
      simp only [Option.map_some, Option.some.injEq] at hw
      subst hw
      exact fltLits_decon j' [] h

end Sio
