/-
  K4 — every input is a finite sequence of *primitive* state changes, each made from a
  well-formed state.  A property of states (or a transitive relation between states) that every
  primitive change respects therefore holds along every history — one case analysis over the
  primitives instead of one over all handlers.
-/
import Sio.Lemmas.ServerStep
namespace Sio.Server
open Sio.Rooms

/-- The primitive state changes of the server core. -/
inductive Prim : Srv → Srv → Prop where
  /-- only script counters and queued handlers change -/
  | core {s s' : Srv} : core s' = core s → Prim s s'
  /-- `call()` numbers its internal callback -/
  | bumpCall {s : Srv} : Prim s { s with nCall := s.nCall + 1 }
  /-- the internal callback of a `call()` delivers its result -/
  | callDone {s : Srv} {sid : Sid} {i n : Nat} (args : List J) : (sid, i, CbTok.call n) ∈ s.cbs →
      Prim s { s with callDone := s.callDone ++ [(n, args)] }
  /-- `manager.connect`: a fresh session id is allocated and registered -/
  | connect {s : Srv} {ns : Ns} {t : Eio} {rooms' : Rooms.St} :
      Rooms.connect s.rooms ns t (sidName s.nextSid) = some rooms' → Prim s (connected s rooms')
  /-- `basic_disconnect` of a session that is in room `None` of `ns` -/
  | disc {s s' : Srv} {sid : Sid} {ns : Ns} {t : Eio} :
      eioOf s.rooms ns sid = some t →
      core s' = core { mgrDisconnect s sid ns with pending := [] } → Prim s s'
  /-- callbacks are popped -/
  | cbsFilter {s : Srv} (f : Sid × Nat × CbTok → Bool) : Prim s { s with cbs := s.cbs.filter f }
  /-- a callback is registered for a connected session -/
  | addCb {s : Srv} {sid : Sid} (tok : CbTok) : sidLive s.rooms sid →
      (∀ n, tok = .call n → n < s.nCall) → Prim s (addCb s sid tok)
  /-- the buffer of partially received packets changes -/
  | binbuf {s : Srv} {b : List (Eio × Partial)} : (b.map (·.1)).Nodup → Prim s { s with binbuf := b }
  /-- rooms other than `None` change -/
  | rooms {s : Srv} {r : Rooms.St} : Inv r →
      (∀ e ∈ r, ∃ e' ∈ s.rooms, e'.sid = e.sid ∧ e'.ns = e.ns ∧ e'.eio = e.eio) →
      (∀ e ∈ s.rooms, e.room = none → e ∈ r) → Prim s { s with rooms := r }
  /-- a user session is stored on an open socket -/
  | sess {s : Srv} {t : Eio} (ns : Ns) (v : J) : t ∈ s.socks → Prim s (sessSet s t ns v)
  /-- engine.io reports a new socket -/
  | eioConnect {s : Srv} (t : Eio) :
      Prim s { s with environ := s.environ ++ [t], socks := s.socks ++ [t] }
  /-- the per-transport cleanup at the end of `_handle_eio_disconnect` -/
  | drop {s : Srv} (t : Eio) : Prim s (dropTransport s t)

theorem Prim.wf {s s' : Srv} (p : Prim s s') (h : WF s) : WF s' := by
  cases p with
  | core hc => exact h.of_core hc
  | bumpCall => exact ⟨h.toWF0.set_nCall _, h.pendingNil⟩
  | callDone args _ => exact ⟨h.toWF0.set_callDone _, h.pendingNil⟩
  | connect hc => exact ⟨h.toWF0.connected hc, h.pendingNil⟩
  | disc he hc =>
    rename_i sid ns t
    have h1 : WF { mgrDisconnect s sid ns with pending := [] } :=
      ⟨(h.toWF0.mgrDisconnect sid ns).set_pending [], rfl⟩
    exact h1.of_core hc
  | cbsFilter f => exact ⟨h.toWF0.set_cbs_filter f, h.pendingNil⟩
  | addCb tok hl _ => exact ⟨h.toWF0.addCb hl tok, h.pendingNil⟩
  | binbuf hb => exact ⟨h.toWF0.set_binbuf hb, h.pendingNil⟩
  | rooms hi hsub hkeep =>
    exact ⟨h.toWF0.set_rooms hi (fun e he => by
      obtain ⟨e', h1, h2, h3, _⟩ := hsub e he; exact ⟨e', h1, h2, h3⟩) hkeep, h.pendingNil⟩
  | sess ns v ht => exact h.sessSet ht ns v
  | eioConnect t => exact ⟨h.toWF0.eioConnect t, h.pendingNil⟩
  | drop t => exact ⟨h.toWF0.dropTransport t, h.pendingNil⟩

/-- finitely many primitive changes, each from a well-formed state -/
inductive Reach : Srv → Srv → Prop where
  | refl (s : Srv) : Reach s s
  | tail {s s₁ s₂ : Srv} : Reach s s₁ → WF s₁ → Prim s₁ s₂ → Reach s s₂

theorem Reach.trans {a b c : Srv} (h1 : Reach a b) (h2 : Reach b c) : Reach a c := by
  induction h2 with
  | refl => exact h1
  | tail _ hw hp ih => exact Reach.tail ih hw hp

theorem Reach.one {s s' : Srv} (h : WF s) (p : Prim s s') : Reach s s' :=
  Reach.tail (Reach.refl s) h p

theorem Reach.wf {s s' : Srv} (r : Reach s s') (h : WF s) : WF s' := by
  induction r with
  | refl => exact h
  | tail _ hw hp _ => exact hp.wf hw

/-- a property of states that every primitive change (from a well-formed state) preserves is
    preserved along `Reach` -/
theorem Reach.preserve {P : Srv → Prop} (hP : ∀ s s', WF s → Prim s s' → P s → P s')
    {s s' : Srv} (r : Reach s s') (h : P s) : P s' := by
  induction r with
  | refl => exact h
  | tail _ hw hp ih => exact hP _ _ hw hp ih

/-- a reflexive, transitive relation that contains every primitive change contains `Reach` -/
theorem Reach.rel {R : Srv → Srv → Prop} (hrefl : ∀ s, R s s)
    (htrans : ∀ a b c, R a b → R b c → R a c) (hP : ∀ s s', WF s → Prim s s' → R s s')
    {s s' : Srv} (r : Reach s s') : R s s' := by
  induction r with
  | refl => exact hrefl _
  | tail _ hw hp ih => exact htrans _ _ _ ih (hP _ _ hw hp)


/-! ### every handler is a sequence of primitive changes -/

theorem isConnected_eioOf {s : Srv} {sid : Sid} {ns : Ns} (h : isConnected s sid ns = true) :
    ∃ t, eioOf s.rooms ns sid = some t := by
  unfold isConnected at h
  simp only [Bool.and_eq_true] at h
  exact Option.isSome_iff_exists.mp h.2

theorem Reach.ending {s : Srv} (h : WF s) {sid : Sid} {ns : Ns} {t : Eio}
    (he : eioOf s.rooms ns sid = some t) (k : Nat) : Reach s (ending s sid ns k) := by
  refine Reach.one h (Prim.disc he ?_)
  simp [Server.ending, Server.mgrDisconnect, Server.core, h.pendingNil]

theorem Reach.endSession {s : Srv} (h : WF s) (cfg : Cfg) {sid : Sid} {ns : Ns}
    (hc : isConnected s sid ns = true) (reason : Str) (b : Bool) :
    Reach s (endSession cfg s sid ns reason b).1 := by
  obtain ⟨k, hk⟩ := endSession_state cfg s sid ns reason b
  obtain ⟨t, ht⟩ := isConnected_eioOf hc
  rw [hk]; exact Reach.ending h ht k

theorem Reach.handleDisconnect {s : Srv} (h : WF s) (cfg : Cfg) (t : Eio) (ns : Ns) (reason : Str) :
    Reach s (handleDisconnect cfg s t ns reason).1 := by
  rcases handleDisconnect_state cfg s t ns reason with ⟨h1, _⟩ | ⟨sid, k, _, hc, h1⟩
  · rw [h1]; exact Reach.refl s
  · obtain ⟨t', ht⟩ := isConnected_eioOf hc
    rw [h1]; exact Reach.ending h ht k

theorem eioOf_connected {s : Srv} (h : WF0 s) {ns : Ns} {t : Eio} {rooms' : Rooms.St}
    (hc : Rooms.connect s.rooms ns t (sidName s.nextSid) = some rooms') :
    eioOf rooms' ns (sidName s.nextSid) = some t :=
  (h.connected hc).rooms.eioOf_iff.mpr ((mem_connect hc _).mpr (Or.inr (Or.inl rfl)))

theorem Reach.handleConnect {s : Srv} (h : WF s) (cfg : Cfg) (t : Eio) (nsp : Option Str)
    (data : Option J) : Reach s (handleConnect cfg s t nsp data).1 := by
  rcases handleConnect_state cfg s t nsp data with h1 | ⟨rooms', k, _, hc, h1 | ⟨p, hp, h1⟩⟩
  · rw [h1]; exact Reach.refl s
  · rw [h1]
    have hw : WF (connected s rooms') := (Prim.connect hc).wf h
    exact (Reach.one h (Prim.connect hc)).tail hw (Prim.core rfl)
  · rw [h1]
    have hw : WF (connected s rooms') := (Prim.connect hc).wf h
    refine (Reach.one h (Prim.connect hc)).tail hw
      (Prim.disc (s := connected s rooms') (eioOf_connected h.toWF0 hc) ?_)
    rcases hp with rfl | rfl <;>
      simp [refusedSt, Server.mgrDisconnect, connected, Server.core, h.pendingNil]

theorem Reach.of_core {s s' : Srv} (h : WF s) (hc : core s' = core s) : Reach s s' :=
  Reach.one h (Prim.core hc)

theorem Reach.handleAck {s : Srv} (h : WF s) (t : Eio) (nsp : Option Str) (id : Option Nat)
    (data : Option J) : Reach s (handleAck s t nsp id data).1 := by
  rcases handleAck_state s t nsp id data with h1 | ⟨sid, i, tok, _, _, hm, h1 | ⟨n, args, ht, _, h1⟩⟩
  · rw [h1]; exact Reach.refl s
  · rw [h1]; exact Reach.one h (Prim.cbsFilter _)
  · rw [h1]; subst ht
    have hp : Prim s { s with callDone := s.callDone ++ [(n, args)] } := Prim.callDone args hm
    exact (Reach.one h hp).tail (hp.wf h) (Prim.cbsFilter _)

theorem Reach.dispatchPacket {s : Srv} (h : WF s) (cfg : Cfg) {t : Eio}
    (hn : s.binbuf.find? (fun e => e.1 = t) = none) (p : Packet) (natt : Nat) :
    Reach s (dispatchPacket cfg s t p natt).1 := by
  unfold Server.dispatchPacket
  split
  · exact Reach.handleConnect h ..
  · split
    · exact Reach.handleDisconnect h ..
    · split
      · exact Reach.of_core h (handleEvent_core ..)
      · split
        · exact Reach.handleAck h ..
        · split
          · exact Reach.one h (Prim.binbuf (h.toWF0.pushBin hn _).binNodup)
          · exact Reach.refl s

theorem Reach.handleFrame {s : Srv} (h : WF s) (dec : Str → Except Err (Packet × Nat)) (cfg : Cfg)
    (t : Eio) (v : J) : Reach s (handleFrame dec cfg s t v).1 := by
  unfold Server.handleFrame
  split
  · rename_i part _
    split
    · exact Reach.refl s
    · dsimp only
      split
      · split
        · exact Reach.one h (Prim.binbuf (h.toWF0.setBin _ _).binNodup)
        · have hp : Prim s { s with binbuf := s.binbuf.filter (fun e => e.1 != t) } :=
            Prim.binbuf (h.toWF0.filterBin _).binNodup
          have h1 := hp.wf h
          split
          · exact (Reach.one h hp).trans (Reach.of_core h1 (handleEvent_core ..))
          · exact (Reach.one h hp).trans (Reach.handleAck h1 ..)
      · exact Reach.one h (Prim.binbuf (h.toWF0.setBin _ _).binNodup)
  · rename_i hn
    dsimp only
    split
    · exact Reach.refl s
    · exact Reach.dispatchPacket h cfg hn _ _

theorem Reach.lostGo {s : Srv} (h : WF s) (cfg : Cfg) (t : Eio) (reason : Str) (outs : List Out)
    (nss : List Ns) : Reach s (handleLost.go cfg t reason s outs nss).1 := by
  induction nss generalizing s outs with
  | nil => exact Reach.refl s
  | cons ns rest ih =>
    unfold handleLost.go
    exact (Reach.handleDisconnect h cfg t ns reason).trans
      (ih (h.handleDisconnect cfg t ns reason) _)

theorem Reach.handleLost {s : Srv} (h : WF s) (cfg : Cfg) (t : Eio) (reason : Str) :
    Reach s (handleLost cfg s t reason).1 := by
  rw [handleLost_eq]
  split
  · exact Reach.refl s
  · exact (Reach.lostGo h cfg t reason [] _).tail (h.lostGo cfg t reason [] _) (Prim.drop t)

theorem Reach.emitFold {s : Srv} (h : WF s) (ns : Ns) (payload : List J) (tok : CbTok)
    (o : List Out) (rs : List (Sid × Eio)) (hl : ∀ r ∈ rs, sidLive s.rooms r.1)
    (ht : ∀ n, tok = .call n → n < s.nCall) :
    Reach s (rs.foldl (emitOne ns payload tok) (s, o)).1 := by
  induction rs generalizing s o with
  | nil => exact Reach.refl s
  | cons r rs ih =>
    simp only [List.foldl_cons]
    have hp : Prim s (addCb s r.1 tok) := Prim.addCb tok (hl r List.mem_cons_self) ht
    exact (Reach.one h hp).trans (ih (s := addCb s r.1 tok) (hp.wf h) _
      (fun r' hr' => hl r' (List.mem_cons_of_mem _ hr')) ht)

theorem Reach.emit {s : Srv} (h : WF s) (ev : Str) (d : Data) (ns : Ns) (to : Target)
    (skip : List Sid) (cb : Option CbTok) (ht : ∀ n, cb = some (.call n) → n < s.nCall) :
    Reach s (emit s ev d ns to skip cb).1 := by
  cases cb with
  | none => rw [emit_nocb_state]; exact Reach.refl s
  | some tok =>
    rw [emit_cb_eq]
    split
    · exact Reach.refl s
    · exact Reach.emitFold h ns _ tok [] _ (fun r hr => recipients_live h.rooms hr)
        (fun n hn => ht n (by rw [hn]))

theorem Reach.drain {s : Srv} (h : WF s) (cfg : Cfg) (outs : List Out) (bs : List Bg) :
    Reach s (step.drain cfg s outs bs).1 := by
  induction bs generalizing s outs with
  | nil => exact Reach.refl s
  | cons b rest ih =>
    unfold step.drain
    exact (Reach.of_core h (runHandler_core cfg s b)).trans
      (ih (h.of_core (runHandler_core cfg s b)) _)

theorem Prim.enter {s : Srv} (h : WF s) {ns : Ns} {sid : Sid} {room : Room} {r : Rooms.St}
    (he : Rooms.enter s.rooms ns sid room = .ok r) : Prim s { s with rooms := r } := by
  obtain ⟨eio, hq, hm⟩ := mem_enter he
  refine Prim.rooms (h.rooms.enter he) ?_ (fun e he _ => (hm e).mpr (Or.inl he))
  intro e he'
  rcases (hm e).mp he' with h1 | rfl
  · exact ⟨e, h1, rfl, rfl, rfl⟩
  · exact ⟨_, eioOf_some_mem hq, rfl, rfl, rfl⟩

theorem Prim.leave {s : Srv} (h : WF s) (ns : Ns) (sid : Sid) (room : Room) :
    Prim s { s with rooms := Rooms.leave s.rooms ns sid (some room) } := by
  refine Prim.rooms (h.rooms.leave ns sid room)
    (fun e he => ⟨e, (List.mem_filter.mp he).1, rfl, rfl, rfl⟩) ?_
  intro e he hn
  unfold Rooms.leave
  rw [List.mem_filter]
  exact ⟨he, by simp [hn]⟩

theorem Prim.closeRoom {s : Srv} (h : WF s) (ns : Ns) (room : Room) :
    Prim s { s with rooms := Rooms.closeRoom s.rooms ns room } := by
  refine Prim.rooms (h.rooms.closeRoom ns room)
    (fun e he => ⟨e, (List.mem_filter.mp he).1, rfl, rfl, rfl⟩) ?_
  intro e he hn
  unfold Rooms.closeRoom
  rw [List.mem_filter]
  exact ⟨he, by simp [hn]⟩

theorem Reach.callStart {s : Srv} (h : WF s) (ev : Str) (d : Data) (ns : Ns) (sid : Sid) :
    Reach s (callStart s ev d ns sid).1 := by
  have hp : Prim s { s with nCall := s.nCall + 1 } := Prim.bumpCall
  refine (Reach.one h hp).trans (Reach.emit (hp.wf h) _ _ _ _ _ _ ?_)
  intro n hn
  cases hn
  exact Nat.lt_succ_self _

/-- Every input, and every history, is a sequence of primitive changes. -/
theorem Reach.step_run (dec : Str → Except Err (Packet × Nat)) (cfg : Cfg) :
    (∀ (s : Srv) (i : Input), WF s → Reach s (step dec cfg s i).1) ∧
    (∀ (s : Srv) (is : List Input), WF s → Reach s (run dec cfg s is).1) := by
  apply step_run_induct dec cfg
    (P := fun s i => WF s → Reach s (step dec cfg s i).1)
    (Q := fun s is => WF s → Reach s (run dec cfg s is).1)
  · intro s i hi h
    cases i with
    | eioConnect t => rw [step]; exact Reach.one h (Prim.eioConnect t)
    | frame t v => rw [step]; exact Reach.handleFrame h dec cfg t v
    | eioLost t r => rw [step]; exact Reach.handleLost h cfg t r
    | emit ev d ns to skip cb =>
      rw [step]
      refine Reach.emit h _ _ _ _ _ _ ?_
      intro n hn
      cases cb <;> simp at hn
    | call ev d ns sid during => exact absurd rfl (hi ev d ns sid during)
    | apiDisconnect sid ns =>
      rw [step]; unfold Server.apiDisconnect
      split
      · exact Reach.refl s
      · rename_i hc; exact Reach.endSession h cfg (by simpa using hc) ..
    | enterRoom sid ns room =>
      rw [step]
      split
      · rename_i r he; exact Reach.one h (Prim.enter h he)
      · exact Reach.refl s
    | leaveRoom sid ns room => rw [step]; exact Reach.one h (Prim.leave h ns sid room)
    | closeRoom ns room => rw [step]; exact Reach.one h (Prim.closeRoom h ns room)
    | rooms sid ns => rw [step]; exact Reach.refl s
    | getSession sid ns =>
      rw [step]
      split
      · exact Reach.refl s
      · rename_i t ht
        split
        · exact Reach.refl s
        · exact Reach.one h (Prim.sess _ _ (sessSock_open ht))
    | saveSession sid ns v =>
      rw [step]
      split
      · exact Reach.refl s
      · rename_i t ht; exact Reach.one h (Prim.sess _ _ (sessSock_open ht))
    | sessionBlock sid ns k v =>
      rw [step]
      split
      · exact Reach.refl s
      · rename_i t ht; exact Reach.one h (Prim.sess _ _ (sessSock_open ht))
    | settle =>
      rw [step]
      have hp : Prim s { s with bg := [] } := Prim.core rfl
      exact (Reach.one h hp).trans (Reach.drain (hp.wf h) ..)
  · intro s ev d ns sid during ih h
    rw [step_call]
    split
    · exact Reach.refl s
    · rename_i hc
      exact (Reach.callStart h ev d ns sid).trans (ih (by simpa using hc) (h.callStart ev d ns sid))
  · intro s h; rw [run_nil]; exact Reach.refl s
  · intro s i is h1 h2 h
    rw [run_cons]; exact (h1 h).trans (h2 ((h1 h).wf h))

theorem Reach.step {s : Srv} (h : WF s) (dec : Str → Except Err (Packet × Nat)) (cfg : Cfg)
    (i : Input) : Reach s (step dec cfg s i).1 := (Reach.step_run dec cfg).1 s i h

theorem Reach.run {s : Srv} (h : WF s) (dec : Str → Except Err (Packet × Nat)) (cfg : Cfg)
    (is : List Input) : Reach s (run dec cfg s is).1 := (Reach.step_run dec cfg).2 s is h

end Sio.Server
