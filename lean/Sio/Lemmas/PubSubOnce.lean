/-
  Helper lemmas for K6 (pub/sub), any consumption schedule: the invariant that every run keeps
  (`Running`), and the counting argument behind "each emit reaches each client at most once".
-/
import Sio.Lemmas.PubSubApi
namespace Sio.PubSub
open Sio.Rooms

/-! ### counting one event name -/

def isEv (ev : Str) : Seen → Bool
  | .event _ (.str e) _ _ => e == ev
  | _ => false

/-- how often a client has seen the event called `ev` -/
def evCount (ev : Str) (l : List Seen) : Nat := l.countP (isEv ev)

/-- a channel entry that host `hid` will apply as an emit of `ev` -/
def isEmitEv (ev : Str) (hid : HostId) : Msg → Bool
  | .emit o e _ _ _ _ _ => e == ev && !(o == hid)
  | _ => false

theorem evCount_append (ev : Str) (a b : List Seen) : evCount ev (a ++ b) = evCount ev a + evCount ev b := by
  simp [evCount, List.countP_append]

theorem evCount_seenEmit_le (ev : Str) (r : Rooms.St) (ns : Ns) (t : Target) (skip : List Sid) (e : Str)
    (args : List J) (w : Bool) (sid : Sid) :
    evCount ev (seenEmit r ns t skip (.str e) args w sid) ≤ if e = ev then 1 else 0 := by
  unfold seenEmit
  split
  · by_cases he : e = ev
    · simp [evCount, isEv, he]
    · simp [evCount, isEv, he]
  · simp [evCount]

/-! ### the room table of a host only ever knows sessions that live there -/

def HomeOk (home : Sid → HostId) (hid : HostId) (r : Rooms.St) : Prop := ∀ e ∈ r, home e.sid = hid

theorem homeOk_roomsAfter {home : Sid → HostId} {hid : HostId} {r : Rooms.St} (h : HomeOk home hid r)
    (m : Msg) : HomeOk home hid (roomsAfter hid r m) := by
  cases m with
  | emit => exact h
  | callback => exact h
  | disconnect o sid ns =>
    simp only [roomsAfter]; split
    · exact h
    · exact fun e he => h e (List.mem_filter.mp he).1
  | enterRoom o sid ns room =>
    simp only [roomsAfter]; split
    · exact h
    · split
      · rename_i eio hq
        intro e he
        rcases mem_add.mp he with he | rfl
        · exact h e he
        · exact h ⟨ns, none, sid, eio⟩ (eioOf_some_mem hq)
      · exact h
  | leaveRoom o sid ns room =>
    simp only [roomsAfter]; split
    · exact h
    · exact fun e he => h e (List.mem_filter.mp he).1
  | closeRoom o ns room =>
    simp only [roomsAfter]; split
    · exact h
    · exact fun e he => h e (List.mem_filter.mp he).1

theorem homeOk_roomsAfterL {home : Sid → HostId} {hid : HostId} {r : Rooms.St} (h : HomeOk home hid r)
    (ms : List Msg) : HomeOk home hid (roomsAfterL hid r ms) := by
  induction ms generalizing r with
  | nil => exact h
  | cons m ms ih => exact ih (homeOk_roomsAfter h m)

/-- a client that lives elsewhere is not a recipient here -/
theorem seenEmit_nil_of_elsewhere {home : Sid → HostId} {hid : HostId} {r : Rooms.St}
    (hr : Inv r) (hh : HomeOk home hid r) {sid : Sid} (hne : home sid ≠ hid) (ns : Ns) (t : Target)
    (skip : List Sid) (ev : J) (args : List J) (w : Bool) :
    seenEmit r ns t skip ev args w sid = [] := by
  unfold seenEmit
  rw [if_neg]
  intro hc
  have hm := ((mem_recipients_iff hr ns t skip sid).mp hc).1
  obtain ⟨eio, he⟩ := isMember_iff.mp hm
  exact hne (hh _ he)

/-- what a batch shows a client: at most one copy of `ev` per foreign emit of `ev` in the batch,
    and nothing at all on a host where the client does not live -/
theorem evCount_seenAfterL_le {home : Sid → HostId} (ev : Str) (hid : HostId) (r : Rooms.St)
    (hr : Inv r) (hh : HomeOk home hid r) (sid : Sid) (ms : List Msg) :
    evCount ev (seenAfterL hid r sid ms) ≤
      if home sid = hid then ms.countP (isEmitEv ev hid) else 0 := by
  induction ms generalizing r with
  | nil => simp [seenAfterL, evCount]
  | cons m ms ih =>
    have ih' := ih (roomsAfter hid r m) (inv_roomsAfter hid hr m) (homeOk_roomsAfter hh m)
    simp only [seenAfterL, evCount_append, List.countP_cons]
    by_cases hhome : home sid = hid
    · rw [if_pos hhome] at ih' ⊢
      have h1 : evCount ev (seenAfter hid r sid m) ≤ if isEmitEv ev hid m = true then 1 else 0 := by
        cases m with
        | emit o e d ns to skip cb =>
          simp only [seenAfter, isEmitEv]
          by_cases ho : o = hid
          · simp [ho, evCount]
          · rw [if_neg ho]
            have := evCount_seenEmit_le ev r ns to skip.toList e d.pack cb.isSome sid
            by_cases he : e = ev
            · simpa [he, ho] using this
            · simpa [he] using this
        | disconnect o sid' ns =>
          simp only [seenAfter]
          split
          · simp [evCount]
          · split <;> simp [evCount, isEv]
        | _ => simp [seenAfter, evCount]
      omega
    · rw [if_neg hhome] at ih' ⊢
      have h1 : evCount ev (seenAfter hid r sid m) = 0 := by
        cases m with
        | emit o e d ns to skip cb =>
          simp only [seenAfter]
          split
          · simp [evCount]
          · rw [seenEmit_nil_of_elsewhere hr hh hhome]; simp [evCount]
        | disconnect o sid' ns =>
          simp only [seenAfter]
          split
          · simp [evCount]
          · split <;> simp [evCount, isEv]
        | _ => simp [seenAfter, evCount]
      omega

end Sio.PubSub
