/-
  Helper lemmas for K6 (pub/sub): the frames-level simulation, operation by operation.
-/
import Sio.Lemmas.PubSubSync
namespace Sio.PubSub
open Sio.Rooms

theorem eq_of_map_eq {α β : Type} {l : List α} {f : α → β} (hnd : (l.map f).Nodup) {a b : α}
    (ha : a ∈ l) (hb : b ∈ l) (h : f a = f b) : a = b := by
  induction l with
  | nil => cases ha
  | cons x l ih =>
    simp only [List.map_cons, List.nodup_cons] at hnd
    rcases List.mem_cons.mp ha with rfl | ha' <;> rcases List.mem_cons.mp hb with rfl | hb'
    · rfl
    · exact absurd (h ▸ List.mem_map_of_mem hb') hnd.1
    · exact absurd (h.symm ▸ List.mem_map_of_mem ha') hnd.1
    · exact ih hnd.2 ha' hb'

section ops
variable {home : Sid → HostId} {ehome : Eio → HostId} {c : Cluster} {s : Single}

theorem Sim.host_eq (hs : Sim home ehome c s) {h hv : Host} (hh : h ∈ c.hosts) (hhv : hv ∈ c.hosts)
    (he : h.id = hv.id) : h = hv := eq_of_map_eq hs.ids hh hhv he

/-- on a host other than the one where the session lives, the session is unknown -/
theorem Sim.not_connected_elsewhere (hs : Sim home ehome c s) {h hv : Host} (hh : h ∈ c.hosts)
    (hhv : hv ∈ c.hosts) (hne : h.id ≠ hv.id) {ns : Ns} {sid : Sid} {eio : Eio}
    (h0 : eioOf hv.rooms ns sid = some eio) : eioOf h.rooms ns sid = none :=
  eioOf_none_elsewhere hs.placed (view_mem hhv) (view_mem hh)
    (fun he => hne (congrArg Prod.fst he)) h0

theorem flatMap_nil' {α β : Type} (l : List α) (g : α → List β) (h : ∀ x ∈ l, g x = []) :
    l.flatMap g = [] := List.flatMap_eq_nil_iff.mpr h

/-- entries that no client notices -/
def Msg.silent : Msg → Bool
  | .emit .. => false
  | .disconnect .. => false
  | _ => true

theorem seenAfterL_silent (hid : HostId) (r : Rooms.St) (x : Sid) (ms : List Msg)
    (h : ∀ m ∈ ms, m.silent = true) : seenAfterL hid r x ms = [] := by
  induction ms generalizing r with
  | nil => rfl
  | cons m ms ih =>
    have hm := h m List.mem_cons_self
    simp only [seenAfterL]
    rw [ih _ (fun y hy => h y (List.mem_cons_of_mem _ hy)), List.append_nil]
    cases m <;> first | rfl | cases hm

theorem discAfterL_silent (hid : HostId) (r : Rooms.St) (ms : List Msg)
    (h : ∀ m ∈ ms, m.silent = true) : discAfterL hid r ms = [] := by
  induction ms generalizing r with
  | nil => rfl
  | cons m ms ih =>
    have hm := h m List.mem_cons_self
    simp only [discAfterL]
    rw [ih _ (fun y hy => h y (List.mem_cons_of_mem _ hy)), List.append_nil]
    cases m <;> first | rfl | cases hm

theorem EmitsOk.of_silent {ms : List Msg} (h : ∀ m ∈ ms, m.silent = true) : EmitsOk ms := by
  intro m hm o ev d ns to skip cb he
  have := h m hm
  subst he; cases this

/-! ### connect -/

theorem sim_connect (hs : Sim home ehome c s) (hid : HostId) (ns : Ns) (eio : Eio) (sid : Sid)
    (hop : OpOk home ehome (c.views.map Prod.fst) (.connect hid ns eio sid)) :
    let r := step c (.connect hid ns eio sid)
    let d := step r.1 .drain
    let t := s.step (.connect hid ns eio sid)
    Sim home ehome d.1 t.1 ∧ (∀ x, seenBy x (r.2 ++ d.2) = seenBy x t.2) ∧
    discEvents (r.2 ++ d.2) = discEvents t.2 ∧ d.1.hosts.map Host.id = c.hosts.map Host.id := by
  obtain ⟨hv, hin, rfl⟩ := exists_host_of_id c hid (by rw [← views_fst]; exact hop.1)
  have hf : ApiLike (fun h => apiConnect h ns eio sid) c.hosts :=
    ⟨fun _ _ => rfl, fun _ _ => rfl, fun h _ hi => (hi.apply (.connect ns eio sid) : Inv (Rooms.apply h.rooms _)),
      fun _ _ => EmitsOk.nil⟩
  refine sim_api hs _ hop hv hin _ hf _ ?_ (single_step_rooms hs.sinv _) ?_ ?_
  · intro h _
    show (if h.id = hv.id then _ else _) = localRooms _ h.view
    simp only [localRooms, Host.view, apiConnect]
    rfl
  · intro x
    show [] ++ _ = []
    rw [List.nil_append]
    exact flatMap_nil' _ _ (fun _ _ => rfl)
  · show [] ++ _ = []
    rw [List.nil_append]
    exact flatMap_nil' _ _ (fun _ _ => rfl)

/-! ### enter_room -/

theorem apiEnter_silent (h : Host) (ns : Ns) (sid : Sid) (room : Room) :
    (∀ m ∈ (apiEnter h ns sid room).pubs, m.silent = true) ∧ (apiEnter h ns sid room).outs = [] := by
  unfold apiEnter
  split
  · exact ⟨fun m hm => (nomatch hm), rfl⟩
  · refine ⟨fun m hm => ?_, rfl⟩
    simp only [List.mem_singleton] at hm
    subst hm; rfl

theorem sim_enter (hs : Sim home ehome c s) (via : HostId) (ns : Ns) (sid : Sid) (room : Room)
    (hop : OpOk home ehome (c.views.map Prod.fst) (.enter via ns sid room)) :
    let r := step c (.enter via ns sid room)
    let d := step r.1 .drain
    let t := s.step (.enter via ns sid room)
    Sim home ehome d.1 t.1 ∧ (∀ x, seenBy x (r.2 ++ d.2) = seenBy x t.2) ∧
    discEvents (r.2 ++ d.2) = discEvents t.2 ∧ d.1.hosts.map Host.id = c.hosts.map Host.id := by
  obtain ⟨hv, hin, rfl⟩ := exists_host_of_id c via (by rw [← views_fst]; exact hop)
  have hf : ApiLike (fun h => apiEnter h ns sid room) c.hosts := by
    refine ⟨?_, ?_, ?_, ?_⟩
    · intro h _; unfold apiEnter; split <;> rfl
    · intro h _; unfold apiEnter; split <;> rfl
    · intro h _ hi; unfold apiEnter; split
      · rename_i eio hq; exact hi.add (eioOf_some_mem hq)
      · exact hi
    · intro h _; exact EmitsOk.of_silent (apiEnter_silent h ns sid room).1
  have hobs := singleEnter_obs s.srv ns sid room
  have hsil := apiEnter_silent hv ns sid room
  refine sim_api hs _ hop hv hin _ hf _ ?_ (single_step_rooms hs.sinv _) ?_ ?_
  · intro h hh
    by_cases hid : h.id = hv.id
    · have := hs.host_eq hh hin hid
      subst this
      simp only [if_true, apiEnter, localRooms, enterLocal, Host.view]
      cases hq : eioOf h.rooms ns sid with
      | some eio => rfl
      | none => simp [roomsAfterL, roomsAfter]
    · simp only [if_neg hid, apiEnter, localRooms, enterLocal, Host.view]
      cases hq : eioOf hv.rooms ns sid with
      | some eio =>
        simp only [roomsAfterL_nil, hs.not_connected_elsewhere hh hin hid hq]
      | none =>
        have hne : ¬ hv.id = h.id := fun he => hid he.symm
        simp only [roomsAfterL_single, roomsAfter, if_neg hne]
        rfl
  · intro x
    rw [hsil.2]
    show [] ++ _ = seenBy x (singleEnter s.srv ns sid room).outs
    rw [List.nil_append, hobs.1 x]
    exact flatMap_nil' _ _ (fun h _ => seenAfterL_silent _ _ _ _ hsil.1)
  · rw [hsil.2]
    show [] ++ _ = discEvents (singleEnter s.srv ns sid room).outs
    rw [List.nil_append, hobs.2.1]
    exact flatMap_nil' _ _ (fun h _ => discAfterL_silent _ _ _ hsil.1)

/-! ### leave_room -/

theorem apiLeave_silent (h : Host) (ns : Ns) (sid : Sid) (room : Room) :
    (∀ m ∈ (apiLeave h ns sid room).pubs, m.silent = true) ∧ (apiLeave h ns sid room).outs = [] := by
  unfold apiLeave
  split
  · exact ⟨fun m hm => (nomatch hm), rfl⟩
  · refine ⟨fun m hm => ?_, rfl⟩
    simp only [List.mem_singleton] at hm
    subst hm; rfl

theorem sim_leave (hs : Sim home ehome c s) (via : HostId) (ns : Ns) (sid : Sid) (room : Room)
    (hop : OpOk home ehome (c.views.map Prod.fst) (.leave via ns sid room)) :
    let r := step c (.leave via ns sid room)
    let d := step r.1 .drain
    let t := s.step (.leave via ns sid room)
    Sim home ehome d.1 t.1 ∧ (∀ x, seenBy x (r.2 ++ d.2) = seenBy x t.2) ∧
    discEvents (r.2 ++ d.2) = discEvents t.2 ∧ d.1.hosts.map Host.id = c.hosts.map Host.id := by
  obtain ⟨hv, hin, rfl⟩ := exists_host_of_id c via (by rw [← views_fst]; exact hop)
  have hf : ApiLike (fun h => apiLeave h ns sid room) c.hosts := by
    refine ⟨?_, ?_, ?_, ?_⟩
    · intro h _; unfold apiLeave; split <;> rfl
    · intro h _; unfold apiLeave; split <;> rfl
    · intro h _ hi; unfold apiLeave; split
      · exact hi.leave ns sid room
      · exact hi
    · intro h _; exact EmitsOk.of_silent (apiLeave_silent h ns sid room).1
  have hsil := apiLeave_silent hv ns sid room
  refine sim_api hs _ hop hv hin _ hf _ ?_ (single_step_rooms hs.sinv _) ?_ ?_
  · intro h hh
    by_cases hid : h.id = hv.id
    · have := hs.host_eq hh hin hid
      subst this
      simp only [if_true, apiLeave, localRooms, Host.view, Host.connected]
      by_cases hc : (eioOf h.rooms ns sid).isSome = true
      · simp [hc, roomsAfterL]
      · have hq : eioOf h.rooms ns sid = none := by simpa using hc
        simp [hq, roomsAfterL, roomsAfter, leave_noop_of_not_connected (hs.hinv h hh) (some room) hq]
    · simp only [if_neg hid, apiLeave, localRooms, Host.view, Host.connected]
      have hne : ¬ hv.id = h.id := fun he => hid he.symm
      by_cases hc : (eioOf hv.rooms ns sid).isSome = true
      · obtain ⟨eio, hq⟩ := Option.isSome_iff_exists.mp hc
        have hn := hs.not_connected_elsewhere hh hin hid hq
        simp [hc, roomsAfterL, leave_noop_of_not_connected (hs.hinv h hh) (some room) hn]
      · simp [hc, roomsAfterL, roomsAfter, hne]
  · intro x
    rw [hsil.2]
    show [] ++ _ = []
    rw [List.nil_append]
    exact flatMap_nil' _ _ (fun h _ => seenAfterL_silent _ _ _ _ hsil.1)
  · rw [hsil.2]
    show [] ++ _ = []
    rw [List.nil_append]
    exact flatMap_nil' _ _ (fun h _ => discAfterL_silent _ _ _ hsil.1)

/-! ### close_room -/

theorem sim_close (hs : Sim home ehome c s) (via : HostId) (ns : Ns) (room : Room)
    (hop : OpOk home ehome (c.views.map Prod.fst) (.close via ns room)) :
    let r := step c (.close via ns room)
    let d := step r.1 .drain
    let t := s.step (.close via ns room)
    Sim home ehome d.1 t.1 ∧ (∀ x, seenBy x (r.2 ++ d.2) = seenBy x t.2) ∧
    discEvents (r.2 ++ d.2) = discEvents t.2 ∧ d.1.hosts.map Host.id = c.hosts.map Host.id := by
  obtain ⟨hv, hin, rfl⟩ := exists_host_of_id c via (by rw [← views_fst]; exact hop)
  have hsilent : ∀ h : Host, ∀ m ∈ (apiClose h ns room).pubs, m.silent = true := by
    intro h m hm
    simp only [apiClose, List.mem_singleton] at hm
    subst hm; rfl
  have hf : ApiLike (fun h => apiClose h ns room) c.hosts :=
    ⟨fun _ _ => rfl, fun _ _ => rfl, fun h _ hi => (hi.closeRoom ns room : Inv (Rooms.closeRoom h.rooms ns room)),
      fun h _ => EmitsOk.of_silent (hsilent h)⟩
  refine sim_api hs _ hop hv hin _ hf _ ?_ (single_step_rooms hs.sinv _) ?_ ?_
  · intro h hh
    by_cases hid : h.id = hv.id
    · have := hs.host_eq hh hin hid
      subst this
      simp [apiClose, localRooms, Host.view, roomsAfterL, roomsAfter]
    · have hne : ¬ hv.id = h.id := fun he => hid he.symm
      simp [hid, hne, apiClose, localRooms, Host.view, roomsAfterL, roomsAfter]
  · intro x
    show [] ++ _ = []
    rw [List.nil_append]
    exact flatMap_nil' _ _ (fun h _ => seenAfterL_silent _ _ _ _ (hsilent hv))
  · show [] ++ _ = []
    rw [List.nil_append]
    exact flatMap_nil' _ _ (fun h _ => discAfterL_silent _ _ _ (hsilent hv))

/-! ### disconnect -/

/-- a published `disconnect` is noticed on exactly the host where the session lives -/
theorem disc_union {β : Type} {vs : List View} {st : Rooms.St} (hp : Placed home ehome vs)
    (hu : Union vs st) (hst : Inv st) (hv : View) (hin : hv ∈ vs) (ns : Ns) (sid : Sid)
    (hq : eioOf hv.2 ns sid = none) (q : Prop) [Decidable q] (a : β) :
    vs.flatMap (fun v => if hv.1 = v.1 then [] else
        if q ∧ (eioOf v.2 ns sid).isSome then [a] else []) =
      if q ∧ (eioOf st ns sid).isSome then [a] else [] := by
  have hfun : (fun v : View => if hv.1 = v.1 then [] else
        if q ∧ (eioOf v.2 ns sid).isSome then [a] else []) =
      (fun v : View => if (¬ hv.1 = v.1 ∧ q ∧ (eioOf v.2 ns sid).isSome) then [a] else []) := by
    funext v
    by_cases h1 : hv.1 = v.1
    · rw [if_pos h1, if_neg (fun hc => hc.1 h1)]
    · rw [if_neg h1]
      by_cases h2 : q ∧ (eioOf v.2 ns sid).isSome
      · rw [if_pos h2, if_pos ⟨h1, h2⟩]
      · rw [if_neg h2, if_neg (fun hc => h2 hc.2)]
  rw [hfun, flatMap_unique vs (nodup_of_nodup_map_fst hp.ids)]
  · by_cases hc : q ∧ (eioOf st ns sid).isSome
    · obtain ⟨hq1, hq2⟩ := hc
      obtain ⟨eio, he⟩ := Option.isSome_iff_exists.mp hq2
      obtain ⟨v, hvv, hev⟩ := (union_eioOf hp hu hst ns sid eio).mp he
      have hne : ¬ hv.1 = v.1 := by
        intro h1
        have : hv = v := eq_of_fst_eq hp.ids hin hvv h1
        rw [this, hev] at hq; cases hq
      have hex : ∃ x ∈ vs, ¬ hv.1 = x.1 ∧ q ∧ (eioOf x.2 ns sid).isSome = true :=
        ⟨v, hvv, hne, hq1, by rw [hev]; rfl⟩
      have hqq : q ∧ (eioOf st ns sid).isSome = true := ⟨hq1, hq2⟩
      rw [if_pos hex, if_pos hqq]
    · rw [if_neg hc, if_neg]
      rintro ⟨v, hvv, _, hq1, hq2⟩
      obtain ⟨eio, he⟩ := Option.isSome_iff_exists.mp hq2
      exact hc ⟨hq1, by rw [(union_eioOf hp hu hst ns sid eio).mpr ⟨v, hvv, he⟩]; rfl⟩
  · intro x hx y hy px py
    obtain ⟨e1, h1⟩ := Option.isSome_iff_exists.mp px.2.2
    obtain ⟨e2, h2⟩ := Option.isSome_iff_exists.mp py.2.2
    exact hp.same_host hx hy (eioOf_some_mem h1) (eioOf_some_mem h2) rfl

theorem sim_disconnect (hs : Sim home ehome c s) (via : HostId) (ns : Ns) (sid : Sid)
    (hop : OpOk home ehome (c.views.map Prod.fst) (.disconnect via ns sid)) :
    let r := step c (.disconnect via ns sid)
    let d := step r.1 .drain
    let t := s.step (.disconnect via ns sid)
    Sim home ehome d.1 t.1 ∧ (∀ x, seenBy x (r.2 ++ d.2) = seenBy x t.2) ∧
    discEvents (r.2 ++ d.2) = discEvents t.2 ∧ d.1.hosts.map Host.id = c.hosts.map Host.id := by
  obtain ⟨hv, hin, rfl⟩ := exists_host_of_id c via (by rw [← views_fst]; exact hop)
  have hpubs : ∀ h : Host, ∀ m ∈ (apiDisconnect h ns sid).pubs, ∀ o ev d ns' to skip cb,
      m = Msg.emit o ev d ns' to skip cb → Target.ok to := by
    intro h m hm o ev d ns' to skip cb he
    unfold apiDisconnect at hm
    split at hm
    · rw [(localDisconnect_obs h sid ns).2.2.1] at hm; cases hm
    · simp only [List.mem_singleton] at hm
      subst hm; cases he
  have hf : ApiLike (fun h => apiDisconnect h ns sid) c.hosts := by
    refine ⟨?_, ?_, ?_, fun h _ => hpubs h⟩
    · intro h _; unfold apiDisconnect; split
      · exact (localDisconnect_obs h sid ns).1
      · rfl
    · intro h _; unfold apiDisconnect; split
      · exact (localDisconnect_obs h sid ns).2.1
      · rfl
    · intro h _ hi; unfold apiDisconnect; split
      · rw [localDisconnect_rooms h hi]; exact hi.disconnect ns sid
      · exact hi
  have hsobs := localDisconnect_obs s.srv sid ns
  by_cases hc : (eioOf hv.rooms ns sid).isSome = true
  · -- the session lives on the host that was asked
    obtain ⟨eio, hq⟩ := Option.isSome_iff_exists.mp hc
    have hsq : eioOf s.srv.rooms ns sid = some eio :=
      (union_eioOf hs.placed hs.union hs.sinv ns sid eio).mpr ⟨hv.view, view_mem hin, hq⟩
    have hfv : apiDisconnect hv ns sid = localDisconnect hv sid ns := by
      simp [apiDisconnect, Host.connected, hc]
    have hvobs := localDisconnect_obs hv sid ns
    refine sim_api hs _ hop hv hin _ hf _ ?_ (single_step_rooms hs.sinv _) ?_ ?_
    · intro h hh
      rw [hfv, hvobs.2.2.1, roomsAfterL_nil]
      by_cases hid : h.id = hv.id
      · have := hs.host_eq hh hin hid
        subst this
        simp only [if_true, hfv, localRooms, Host.view]
        exact localDisconnect_rooms h (hs.hinv h hh) sid ns
      · have hn := hs.not_connected_elsewhere hh hin hid hq
        simp only [if_neg hid, localRooms, Host.view]
        exact (disconnect_noop_of_not_connected (hs.hinv h hh) hn).symm
    · intro x
      rw [hfv, hvobs.2.2.1, hvobs.2.2.2.1 x]
      show _ = seenBy x (localDisconnect s.srv sid ns).outs
      rw [hsobs.2.2.2.1 x, hq, hsq]
      have : c.hosts.flatMap (fun h => seenAfterL h.id
          (if h.id = hv.id then (apiDisconnect h ns sid).h.rooms else h.rooms) x []) = [] :=
        flatMap_nil' _ _ (fun _ _ => rfl)
      rw [this, List.append_nil]
    · rw [hfv, hvobs.2.2.1, hvobs.2.2.2.2]
      show _ = discEvents (localDisconnect s.srv sid ns).outs
      rw [hsobs.2.2.2.2, hq, hsq]
      have : c.hosts.flatMap (fun h => discAfterL h.id
          (if h.id = hv.id then (apiDisconnect h ns sid).h.rooms else h.rooms) []) = [] :=
        flatMap_nil' _ _ (fun _ _ => rfl)
      rw [this, List.append_nil]
  · -- it lives elsewhere (or nowhere): the request is published
    have hq : eioOf hv.rooms ns sid = none := by simpa using hc
    have hfv : apiDisconnect hv ns sid = { h := hv, pubs := [Msg.disconnect hv.id sid ns] } := by
      simp [apiDisconnect, Host.connected, hq]
    have hrooms_eq : ∀ h ∈ c.hosts,
        (if h.id = hv.id then (apiDisconnect h ns sid).h.rooms else h.rooms) = h.rooms := by
      intro h hh
      by_cases hid : h.id = hv.id
      · have := hs.host_eq hh hin hid
        subst this
        rw [if_pos rfl, hfv]
      · rw [if_neg hid]
    refine sim_api hs _ hop hv hin _ hf _ ?_ (single_step_rooms hs.sinv _) ?_ ?_
    · intro h hh
      rw [hrooms_eq h hh, hfv, roomsAfterL_single]
      simp only [roomsAfter, localRooms, Host.view]
      by_cases hid : h.id = hv.id
      · have := hs.host_eq hh hin hid
        subst this
        rw [if_pos rfl]
        exact (disconnect_noop_of_not_connected (hs.hinv h hh) hq).symm
      · rw [if_neg (fun he => hid he.symm)]
    · intro x
      rw [hfv]
      show [] ++ _ = seenBy x (localDisconnect s.srv sid ns).outs
      rw [List.nil_append, hsobs.2.2.2.1 x]
      rw [flatMap_congr' (g := fun h => seenAfter h.id h.rooms x (Msg.disconnect hv.id sid ns))
        (fun h hh => by rw [hrooms_eq h hh, seenAfterL_single])]
      have := disc_union hs.placed hs.union hs.sinv hv.view (view_mem hin) ns sid hq (sid = x)
        (Seen.disconnect ns)
      rw [← hosts_flatMap_views] at this
      exact this
    · rw [hfv]
      show [] ++ _ = discEvents (localDisconnect s.srv sid ns).outs
      rw [List.nil_append, hsobs.2.2.2.2]
      rw [flatMap_congr' (g := fun h => discAfter h.id h.rooms (Msg.disconnect hv.id sid ns))
        (fun h hh => by rw [hrooms_eq h hh, discAfterL_single])]
      have := disc_union hs.placed hs.union hs.sinv hv.view (view_mem hin) ns sid hq True (sid, ns)
      rw [← hosts_flatMap_views] at this
      simpa [discAfter, Host.view] using this

/-! ### emit -/

theorem single_emit_obs (hsinv : Inv s.srv.rooms) (via : Option HostId) (ev : Str) (d : Data) (ns : Ns)
    (to : Target) (skip : Skip) (cb : Option Nat) :
    (∀ x, seenBy x (s.step (.emit via ev d ns to skip cb)).2 =
      seenEmit s.srv.rooms ns to skip.toList (.str ev) d.pack cb.isSome x) ∧
    discEvents (s.step (.emit via ev d ns to skip cb)).2 = [] := by
  refine ⟨fun x => ?_, ?_⟩
  · show seenBy x (emitLocal s.srv ns to skip.toList (.str ev) d.pack (cb.map Cb.user)).2 = _
    rw [seenBy_emitLocal s.srv hsinv]
    cases cb <;> rfl
  · exact discEvents_emitLocal s.srv ns to _ _ _ _

theorem sim_emit_host (hs : Sim home ehome c s) (via : HostId) (ev : Str) (d : Data) (ns : Ns)
    (to : Target) (skip : Skip) (cb : Option Nat)
    (hop : OpOk home ehome (c.views.map Prod.fst) (.emit (some via) ev d ns to skip cb)) :
    let r := step c (.emit (some via) ev d ns to skip cb)
    let d' := step r.1 .drain
    let t := s.step (.emit (some via) ev d ns to skip cb)
    Sim home ehome d'.1 t.1 ∧ (∀ x, seenBy x (r.2 ++ d'.2) = seenBy x t.2) ∧
    discEvents (r.2 ++ d'.2) = discEvents t.2 ∧ d'.1.hosts.map Host.id = c.hosts.map Host.id := by
  obtain ⟨hvia, hok, hcb⟩ := hop
  obtain ⟨hv, hin, rfl⟩ := exists_host_of_id c via (by rw [← views_fst]; exact hvia via rfl)
  have hcb' : cb.isSome → ∃ r, to = .one r := fun h => (hcb h).2
  have heff := fun (h : Host) (hi : Inv h.rooms) => apiEmit_effect h hi ev d ns to skip cb hok hcb'
  have hf : ApiLike (fun h => apiEmit h true ev d ns to skip cb) c.hosts := by
    refine ⟨?_, ?_, ?_, ?_⟩
    · intro h hh; exact (heff h (hs.hinv h hh)).2.1
    · intro h hh; exact (heff h (hs.hinv h hh)).2.2.1
    · intro h hh hi; rw [(heff h hi).1]; exact hi
    · intro h hh m hm o ev' d' ns' to' skip' cb' he
      rw [(heff h (hs.hinv h hh)).2.2.2.1] at hm
      simp only [List.mem_singleton] at hm
      subst hm
      cases he; exact hok
  have hsobs := single_emit_obs (s := s) hs.sinv (some hv.id) ev d ns to skip cb
  have hvE := heff hv (hs.hinv hv hin)
  have hrooms_eq : ∀ h ∈ c.hosts,
      (if h.id = hv.id then (apiEmit h true ev d ns to skip cb).h.rooms else h.rooms) = h.rooms := by
    intro h hh
    split
    · exact (heff h (hs.hinv h hh)).1
    · rfl
  refine sim_api hs (.emit (some hv.id) ev d ns to skip cb) ⟨hvia, hok, hcb⟩ hv hin _ hf _ ?_
    (single_step_rooms hs.sinv _) ?_ ?_
  · intro h hh
    rw [hrooms_eq h hh, hvE.2.2.2.1]
    rfl
  · intro x
    rw [hvE.2.2.2.2.2.1 x, hsobs.1 x, hvE.2.2.2.1]
    have hG : c.hosts.flatMap (fun h => seenAfterL h.id
          (if h.id = hv.id then (apiEmit h true ev d ns to skip cb).h.rooms else h.rooms) x
          [Msg.emit hv.id ev d ns to skip (emitToken hv ns to cb)]) =
        c.views.flatMap (fun v : View => if hv.view.1 = v.1 then [] else
          seenEmit v.2 ns to skip.toList (.str ev) d.pack cb.isSome x) := by
      rw [← hosts_flatMap_views]
      apply flatMap_congr'
      intro h hh
      rw [hrooms_eq h hh, seenAfterL_single]
      simp only [seenAfter, hvE.2.2.2.2.1, Host.view]
      rfl
    rw [hG]
    exact seenEmit_union_split hs.placed hs.union hs.sinv ns to skip.toList (.str ev) d.pack
      cb.isSome x hv.view (view_mem hin)
  · rw [hvE.2.2.2.2.2.2, hsobs.2, hvE.2.2.2.1, List.nil_append]
    exact flatMap_nil' _ _ (fun h _ => by simp [discAfterL, discAfter])

theorem sim_emit_wo (hs : Sim home ehome c s) (ev : Str) (d : Data) (ns : Ns)
    (to : Target) (skip : Skip) (cb : Option Nat)
    (hop : OpOk home ehome (c.views.map Prod.fst) (.emit none ev d ns to skip cb)) :
    let r := step c (.emit none ev d ns to skip cb)
    let d' := step r.1 .drain
    let t := s.step (.emit none ev d ns to skip cb)
    Sim home ehome d'.1 t.1 ∧ (∀ x, seenBy x (r.2 ++ d'.2) = seenBy x t.2) ∧
    discEvents (r.2 ++ d'.2) = discEvents t.2 ∧ d'.1.hosts.map Host.id = c.hosts.map Host.id := by
  obtain ⟨_, hok, hcb⟩ := hop
  have hcbn : cb = none := by
    cases cb with
    | none => rfl
    | some tok => exact absurd (hcb rfl).1 (by simp)
  subst hcbn
  have hw := apiEmit_wo c.wo hs.woRooms ev d ns to skip hok
  intro r d' t
  have hr1 : r.1 = { c with chan := c.chan ++ [Msg.emit c.wo.id ev d ns to skip none] } := by
    show ({ c with wo := (apiEmit c.wo false ev d ns to skip none).h,
                    chan := c.chan ++ (apiEmit c.wo false ev d ns to skip none).pubs } : Cluster) = _
    rw [hw]
  have hr2 : r.2 = [] := by
    show (apiEmit c.wo false ev d ns to skip none).outs = []
    rw [hw]
  have hok1 : EmitsOk r.1.chan := by
    rw [hr1]
    refine hs.chanOk.append ?_
    intro m hm o ev' d'' ns' to' skip' cb' he
    simp only [List.mem_singleton] at hm
    subst hm; cases he; exact hok
  have hinv1 : ∀ h ∈ r.1.hosts, Inv h.rooms := by rw [hr1]; exact hs.hinv
  have hpend1 : Pending r.1.hosts c.chan := by rw [hr1]; exact hs.pending
  obtain ⟨e1, e2, e3, e4, e5, e6⟩ := drain_effect r.1 c.chan [Msg.emit c.wo.id ev d ns to skip none]
    (by rw [hr1]) hinv1 hpend1 hok1
  have hsobs := single_emit_obs (s := s) hs.sinv none ev d ns to skip none
  have hhosts : r.1.hosts = c.hosts := by rw [hr1]
  have hviews : d'.1.views = c.views := by
    rw [e1, hhosts]
    show c.hosts.map _ = c.hosts.map Host.view
    apply List.map_congr_left
    intro h _
    rfl
  have hsr : t.1.srv.rooms = s.srv.rooms := single_step_rooms hs.sinv _
  refine ⟨⟨?_, ?_, ?_, e2, e3, ?_, ?_⟩, ?_, ?_, ?_⟩
  rotate_left 7
  · rw [← views_fst, hviews, views_fst]
  · rw [hviews]; exact hs.placed
  · rw [hsr]; exact hs.sinv
  · rw [hviews, hsr]; exact hs.union
  · rw [e4, ← views_fst, hviews, views_fst, hr1]; exact hs.woId
  · rw [e4, hr1]; exact hs.woRooms
  · intro x
    rw [hr2, List.nil_append, e5 x, hhosts, hsobs.1 x]
    have hG : c.hosts.flatMap (fun h => seenAfterL h.id h.rooms x
          [Msg.emit c.wo.id ev d ns to skip none]) =
        c.views.flatMap (fun v : View => seenEmit v.2 ns to skip.toList (.str ev) d.pack false x) := by
      rw [← hosts_flatMap_views]
      apply flatMap_congr'
      intro h hh
      have hne : ¬ c.wo.id = h.id := fun he => hs.woId (he ▸ List.mem_map_of_mem hh)
      rw [seenAfterL_single]
      simp only [seenAfter, if_neg hne, Host.view, Option.isSome_none]
    rw [hG]
    exact seenEmit_union hs.placed hs.union hs.sinv ns to skip.toList (.str ev) d.pack false x
  · rw [hr2, List.nil_append, e6, hsobs.2]
    exact flatMap_nil' _ _ (fun h _ => by simp [discAfterL, discAfter])

/-! ### client ACK -/

theorem single_ack_obs (ns : Ns) (sid : Sid) (n : Nat) (args : List J) :
    (∀ x, seenBy x (s.step (.ack ns sid n args)).2 = []) ∧
    discEvents (s.step (.ack ns sid n args)).2 = [] ∧ askedIn (s.step (.ack ns sid n args)).2 = [] := by
  simp only [Single.step]
  split
  · split
    · have := apiAck_effect s.srv sid ‹Nat› args
      exact ⟨this.2.2.2.2.1, this.2.2.2.2.2.1, this.2.2.2.2.2.2⟩
    · exact ⟨fun _ => rfl, rfl, rfl⟩
  · exact ⟨fun _ => rfl, rfl, rfl⟩

theorem seenAfterL_allCb' (hid : HostId) (r : Rooms.St) (x : Sid) (ms : List Msg) (h : AllCb ms) :
    seenAfterL hid r x ms = [] := seenAfterL_allCb hid r x ms h

/-- nothing happened on the cluster; the drain finds nothing but callbacks -/
theorem sim_noop (hs : Sim home ehome c s) (t : Single × List Out)
    (hsr : t.1.srv.rooms = s.srv.rooms) (hseen : ∀ x, seenBy x t.2 = []) (hdisc : discEvents t.2 = []) :
    Sim home ehome (step c .drain).1 t.1 ∧
    (∀ x, seenBy x ([] ++ (step c .drain).2) = seenBy x t.2) ∧
    discEvents ([] ++ (step c .drain).2) = discEvents t.2 ∧
    (step c .drain).1.hosts.map Host.id = c.hosts.map Host.id := by
  obtain ⟨e1, e2, e3, e4, e5, e6⟩ := drain_effect c c.chan [] (by simp) hs.hinv hs.pending hs.chanOk
  have hviews : (step c .drain).1.views = c.views := by
    rw [e1]
    exact List.map_congr_left (fun h _ => rfl)
  refine ⟨⟨?_, ?_, ?_, e2, e3, ?_, ?_⟩, ?_, ?_, ?_⟩
  · rw [hviews]; exact hs.placed
  · rw [hsr]; exact hs.sinv
  · rw [hviews, hsr]; exact hs.union
  · rw [e4, ← views_fst, hviews, views_fst]; exact hs.woId
  · rw [e4]; exact hs.woRooms
  · intro x
    rw [List.nil_append, e5 x, hseen x]
    exact flatMap_nil' _ _ (fun _ _ => rfl)
  · rw [List.nil_append, e6, hdisc]
    exact flatMap_nil' _ _ (fun _ _ => rfl)
  · rw [← views_fst, hviews, views_fst]

theorem sim_ack (hs : Sim home ehome c s) (ns : Ns) (sid : Sid) (n : Nat) (args : List J) :
    let r := step c (.ack ns sid n args)
    let d := step r.1 .drain
    let t := s.step (.ack ns sid n args)
    Sim home ehome d.1 t.1 ∧ (∀ x, seenBy x (r.2 ++ d.2) = seenBy x t.2) ∧
    discEvents (r.2 ++ d.2) = discEvents t.2 ∧ d.1.hosts.map Host.id = c.hosts.map Host.id := by
  have hsobs := single_ack_obs (s := s) ns sid n args
  have hsr : (s.step (.ack ns sid n args)).1.srv.rooms = s.srv.rooms := single_step_rooms hs.sinv _
  have hstep : step c (.ack ns sid n args) =
      (match c.hosts.find? (fun h => h.connected ns sid), nthAsked c.asked sid n with
        | some h, some i => c.on h.id (fun h => apiAck h sid i args)
        | _, _ => (c, [])) := rfl
  cases hfind : c.hosts.find? (fun h => h.connected ns sid) with
  | none =>
    have hr : step c (.ack ns sid n args) = (c, []) := by rw [hstep, hfind]
    rw [hr]
    exact sim_noop hs _ hsr hsobs.1 hsobs.2.1
  | some hv =>
    have hin : hv ∈ c.hosts := List.mem_of_find?_eq_some hfind
    cases hnth : nthAsked c.asked sid n with
    | none =>
      have hr : step c (.ack ns sid n args) = (c, []) := by rw [hstep, hfind, hnth]
      rw [hr]
      exact sim_noop hs _ hsr hsobs.1 hsobs.2.1
    | some i =>
      have hr : step c (.ack ns sid n args) = c.on hv.id (fun h => apiAck h sid i args) := by
        rw [hstep, hfind, hnth]
      have heff := fun (h : Host) => apiAck_effect h sid i args
      have hf : ApiLike (fun h => apiAck h sid i args) c.hosts :=
        ⟨fun h _ => (heff h).2.1, fun h _ => (heff h).2.2.1,
          fun h _ hi => by rw [(heff h).1]; exact hi,
          fun h _ => EmitsOk.of_allCb (heff h).2.2.2.1⟩
      have hrooms_eq : ∀ h : Host,
          (if h.id = hv.id then (apiAck h sid i args).h.rooms else h.rooms) = h.rooms := by
        intro h; split
        · exact (heff h).1
        · rfl
      have := sim_api hs (.ack ns sid n args) trivial hv hin _ hf (s.step (.ack ns sid n args)) ?_
        (single_step_rooms hs.sinv _) ?_ ?_
      · rw [hr]; exact this
      · intro h _
        rw [hrooms_eq h, roomsAfterL_allCb _ _ _ (heff hv).2.2.2.1]
        rfl
      · intro x
        rw [(heff hv).2.2.2.2.1 x, hsobs.1 x, List.nil_append]
        exact flatMap_nil' _ _ (fun h _ => seenAfterL_allCb _ _ _ _ (heff hv).2.2.2.1)
      · rw [(heff hv).2.2.2.2.2.1, hsobs.2.1, List.nil_append]
        exact flatMap_nil' _ _ (fun h _ => discAfterL_allCb _ _ _ (heff hv).2.2.2.1)

/-! ### every operation -/

/-- **One step of the frames-level simulation**: the relation is re-established after the
    operation and the drain, every client has seen the same packets, the same disconnect handlers
    have run. -/
theorem sim_step (hs : Sim home ehome c s) (op : Op)
    (hop : OpOk home ehome (c.views.map Prod.fst) op) :
    let r := step c op
    let d := step r.1 .drain
    let t := s.step op
    Sim home ehome d.1 t.1 ∧ (∀ x, seenBy x (r.2 ++ d.2) = seenBy x t.2) ∧
    discEvents (r.2 ++ d.2) = discEvents t.2 ∧ d.1.hosts.map Host.id = c.hosts.map Host.id := by
  cases op with
  | connect hid ns eio sid => exact sim_connect hs hid ns eio sid hop
  | enter via ns sid room => exact sim_enter hs via ns sid room hop
  | leave via ns sid room => exact sim_leave hs via ns sid room hop
  | close via ns room => exact sim_close hs via ns room hop
  | emit via ev d ns to skip cb =>
    cases via with
    | none => exact sim_emit_wo hs ev d ns to skip cb hop
    | some v => exact sim_emit_host hs v ev d ns to skip cb hop
  | disconnect via ns sid => exact sim_disconnect hs via ns sid hop
  | ack ns sid n args => exact sim_ack hs ns sid n args
  | deliver h k => exact absurd hop (by simp [OpOk])
  | drain => exact absurd hop (by simp [OpOk])

end ops

end Sio.PubSub
