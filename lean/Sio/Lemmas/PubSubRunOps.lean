/-
  Helper lemmas for K6 (pub/sub), any consumption schedule: every operation keeps `Running` and
  respects the budget "one copy of `ev` per emit of `ev`".
-/
import Sio.Lemmas.PubSubRun
namespace Sio.PubSub
open Sio.Rooms

/-- what a history must respect: a `connect` happens on the host where the session lives, emit
    targets are proper -/
def OpFine (home : Sid → HostId) : Op → Prop
  | .connect hid _ _ sid => home sid = hid
  | .emit _ _ _ _ to _ _ => Target.ok to
  | _ => True

/-- how many copies of `ev` an operation may add -/
def opBudget (ev : Str) : Op → Nat
  | .emit _ e _ _ _ _ _ => if e = ev then 1 else 0
  | _ => 0

section
variable {home : Sid → HostId}

/-- an API call that shows no client anything and publishes no emit -/
theorem on_quiet (c : Cluster) (hrun : Running home c) (hid : HostId) (f : Host → Res) (ev : Str)
    (sid : Sid)
    (hf_id : ∀ h ∈ c.hosts, h.id = hid → (f h).h.id = h.id)
    (hf_inv : ∀ h ∈ c.hosts, h.id = hid → Inv (f h).h.rooms ∧ HomeOk home h.id (f h).h.rooms)
    (hf_cur : ∀ h ∈ c.hosts, h.id = hid → (f h).h.cursor = h.cursor)
    (hf_pubs : ∀ h ∈ c.hosts, h.id = hid → ∀ m ∈ (f h).pubs, ∀ x, isEmitEv ev x m = false)
    (hf_ok : ∀ h ∈ c.hosts, h.id = hid → EmitsOk (f h).pubs)
    (hf_seen : ∀ h ∈ c.hosts, h.id = hid → evCount ev (seenBy sid (f h).outs) = 0) :
    Running home (c.on hid f).1 ∧
    evCount ev (seenBy sid (c.on hid f).2) + pendingEv home ev sid (c.on hid f).1 ≤
      0 + pendingEv home ev sid c := by
  have hcount : ∀ h ∈ c.hosts, h.id = hid → ∀ x, (f h).pubs.countP (isEmitEv ev x) = 0 := by
    intro h hh he x
    rw [List.countP_eq_zero]
    intro m hm
    rw [hf_pubs h hh he m hm x]; simp
  refine on_once c hrun hid f ev sid 0 hf_id hf_inv hf_ok ?_ ?_ ?_
  · intro h hh he; rw [hf_cur h hh he]; exact hrun.cur h hh
  · intro h hh he _
    rw [hf_seen h hh he, hf_cur h hh he, countP_drop_append _ _ _ _ (hrun.cur h hh), hcount h hh he]
    omega
  · intro h hh he _
    exact ⟨hf_seen h hh he, fun x => by rw [hcount h hh he x]; omega⟩

theorem homeOk_filter {hid : HostId} {r : Rooms.St} (h : HomeOk home hid r) (p : Entry → Bool) :
    HomeOk home hid (r.filter p) := fun e he => h e (List.mem_filter.mp he).1

theorem evCount_nil (ev : Str) : evCount ev [] = 0 := rfl

theorem apiEmit_bad (h : Host) (ev : Str) (d : Data) (ns : Ns) (to : Target) (skip : Skip) (tok : Nat)
    (hto : ∀ r, to ≠ .one r) :
    ∃ e, apiEmit h true ev d ns to skip (some tok) = { h := h, outs := [.raised e] } := by
  cases to with
  | all => exact ⟨.valueError, by simp [apiEmit]⟩
  | one r => exact absurd rfl (hto r)
  | many rs => exact ⟨.typeError, by simp [apiEmit]⟩

/-- the facts about `emit` through a host that the counting needs, for every shape of the call -/
theorem apiEmit_once (h : Host) (hinv : Inv h.rooms) (hh : HomeOk home h.id h.rooms) (e : Str)
    (d : Data) (ns : Ns) (to : Target) (skip : Skip) (cb : Option Nat) (hok : Target.ok to) (ev : Str)
    (sid : Sid) :
    (apiEmit h true e d ns to skip cb).h.id = h.id ∧
    (apiEmit h true e d ns to skip cb).h.rooms = h.rooms ∧
    (apiEmit h true e d ns to skip cb).h.cursor = h.cursor ∧
    EmitsOk (apiEmit h true e d ns to skip cb).pubs ∧
    (∀ x, (apiEmit h true e d ns to skip cb).pubs.countP (isEmitEv ev x) ≤ if e = ev then 1 else 0) ∧
    (apiEmit h true e d ns to skip cb).pubs.countP (isEmitEv ev h.id) = 0 ∧
    evCount ev (seenBy sid (apiEmit h true e d ns to skip cb).outs) ≤ (if e = ev then 1 else 0) ∧
    (home sid ≠ h.id → evCount ev (seenBy sid (apiEmit h true e d ns to skip cb).outs) = 0) := by
  have good : ∀ (cb' : Option Nat), (cb'.isSome → ∃ r, to = .one r) →
      (apiEmit h true e d ns to skip cb').h.id = h.id ∧
      (apiEmit h true e d ns to skip cb').h.rooms = h.rooms ∧
      (apiEmit h true e d ns to skip cb').h.cursor = h.cursor ∧
      EmitsOk (apiEmit h true e d ns to skip cb').pubs ∧
      (∀ x, (apiEmit h true e d ns to skip cb').pubs.countP (isEmitEv ev x) ≤ if e = ev then 1 else 0) ∧
      (apiEmit h true e d ns to skip cb').pubs.countP (isEmitEv ev h.id) = 0 ∧
      evCount ev (seenBy sid (apiEmit h true e d ns to skip cb').outs) ≤ (if e = ev then 1 else 0) ∧
      (home sid ≠ h.id → evCount ev (seenBy sid (apiEmit h true e d ns to skip cb').outs) = 0) := by
    intro cb' hcb'
    obtain ⟨e1, e2, e3, e4, _, e6, _⟩ := apiEmit_effect h hinv e d ns to skip cb' hok hcb'
    refine ⟨e2, e1, e3, ?_, ?_, ?_, ?_, ?_⟩
    · rw [e4]
      intro m hm o ev' d' ns' to' skip' cb'' he
      simp only [List.mem_singleton] at hm
      subst hm; cases he; exact hok
    · intro x
      rw [e4]
      by_cases he : e = ev <;> simp [isEmitEv, he]
      split <;> simp
    · rw [e4]; simp [isEmitEv]
    · rw [e6 sid]; exact evCount_seenEmit_le ev h.rooms ns to skip.toList e d.pack cb'.isSome sid
    · intro hne
      rw [e6 sid, seenEmit_nil_of_elsewhere hinv hh hne]; rfl
  cases cb with
  | none => exact good none (fun hc => by cases hc)
  | some tok =>
    by_cases hone : ∃ r, to = .one r
    · exact good (some tok) (fun _ => hone)
    · obtain ⟨er, hbad⟩ := apiEmit_bad h e d ns to skip tok (fun r hr => hone ⟨r, hr⟩)
      rw [hbad]
      refine ⟨rfl, rfl, rfl, EmitsOk.nil, fun x => by simp, rfl, by simp [seenBy, evCount], fun _ => by simp [seenBy, evCount]⟩

end

theorem evCount_flatMap_le {home : Sid → HostId} (ev : Str) (sid : Sid) (hosts : List Host)
    (hnd : (hosts.map Host.id).Nodup) (G : Host → List Seen) (X : Host → Nat)
    (hG : ∀ h ∈ hosts, evCount ev (G h) ≤ if home sid = h.id then X h else 0) :
    evCount ev (hosts.flatMap G) ≤
      match hosts.find? (fun h => h.id = home sid) with
      | none => 0
      | some hs => X hs := by
  induction hosts with
  | nil => simp [evCount]
  | cons a l ih =>
    simp only [List.map_cons, List.nodup_cons] at hnd
    rw [List.flatMap_cons, evCount_append, List.find?_cons]
    have ha := hG a List.mem_cons_self
    have ih' := ih hnd.2 (fun h hh => hG h (List.mem_cons_of_mem _ hh))
    by_cases he : a.id = home sid
    · simp only [he, decide_true]
      rw [if_pos he.symm] at ha
      have hrest : evCount ev (l.flatMap G) = 0 := by
        have : ∀ h ∈ l, G h = [] ∨ evCount ev (G h) = 0 := by
          intro h hh
          right
          have hne : ¬ home sid = h.id := by
            intro hx
            exact hnd.1 (by rw [he, hx]; exact List.mem_map_of_mem hh)
          have := hG h (List.mem_cons_of_mem _ hh)
          rw [if_neg hne] at this
          omega
        clear ih ih' hG ha
        induction l with
        | nil => rfl
        | cons b l ihl =>
          rw [List.flatMap_cons, evCount_append]
          have hb := this b List.mem_cons_self
          have hl := ihl (by simp only [List.map_cons, List.nodup_cons] at hnd ⊢; exact ⟨fun hx => hnd.1 (List.mem_cons_of_mem _ hx), hnd.2.2⟩)
            (fun h hh => this h (List.mem_cons_of_mem _ hh))
          rcases hb with hb | hb
          · rw [hb]; simpa [evCount] using hl
          · omega
      omega
    · have hne : ¬ home sid = a.id := fun hx => he hx.symm
      rw [if_neg hne] at ha
      simp only [he, decide_false]
      omega

section steps
variable {home : Sid → HostId}

theorem homeOk_apply_connect {hid : HostId} {r : Rooms.St} (h : HomeOk home hid r) (ns : Ns)
    (eio : Eio) (sid : Sid) (hs : home sid = hid) :
    HomeOk home hid (Rooms.apply r (.connect ns eio sid)) := by
  simp only [Rooms.apply]
  split
  · exact h
  · unfold Rooms.connect
    split
    · exact h
    · intro e he
      simp only [Option.getD_some] at he
      rcases mem_add.mp he with he | rfl
      · rcases mem_add.mp he with he | rfl
        · exact h e he
        · exact hs
      · exact hs

theorem localDisconnect_once (h : Host) (hinv : Inv h.rooms) (hh : HomeOk home h.id h.rooms)
    (sid : Sid) (ns : Ns) (ev : Str) (x : Sid) :
    (localDisconnect h sid ns).h.id = h.id ∧ Inv (localDisconnect h sid ns).h.rooms ∧
    HomeOk home h.id (localDisconnect h sid ns).h.rooms ∧
    (localDisconnect h sid ns).h.cursor = h.cursor ∧ (localDisconnect h sid ns).pubs = [] ∧
    evCount ev (seenBy x (localDisconnect h sid ns).outs) = 0 := by
  obtain ⟨e1, e2, e3, e4, _⟩ := localDisconnect_obs h sid ns
  refine ⟨e1, ?_, ?_, e2, e3, ?_⟩
  · rw [localDisconnect_rooms h hinv]; exact hinv.disconnect ns sid
  · rw [localDisconnect_rooms h hinv]; exact homeOk_filter hh _
  · rw [e4 x]; split <;> simp [evCount, isEv]

/-- **Every operation keeps `Running` and respects the budget.** -/
theorem once_step (c : Cluster) (hrun : Running home c) (op : Op) (hop : OpFine home op) (ev : Str)
    (sid : Sid) :
    Running home (step c op).1 ∧
    evCount ev (seenBy sid (step c op).2) + pendingEv home ev sid (step c op).1 ≤
      opBudget ev op + pendingEv home ev sid c := by
  cases op with
  | connect hid ns eio sid' =>
    refine on_quiet c hrun hid _ ev sid (fun _ _ _ => rfl) ?_ (fun _ _ _ => rfl)
      (fun _ _ _ m hm => (nomatch hm)) (fun _ _ _ => EmitsOk.nil) (fun _ _ _ => rfl)
    intro h hh he
    exact ⟨((hrun.inv h hh).apply (.connect ns eio sid') : Inv (Rooms.apply h.rooms _)),
      homeOk_apply_connect (hrun.home h hh) ns eio sid' (by rw [he]; exact hop)⟩
  | enter via ns sid' room =>
    refine on_quiet c hrun via _ ev sid ?_ ?_ ?_ ?_ ?_ ?_
    · intro h _ _; unfold apiEnter; split <;> rfl
    · intro h hh _; unfold apiEnter; split
      · rename_i eio hq
        refine ⟨(hrun.inv h hh).add (eioOf_some_mem hq), ?_⟩
        intro e he
        rcases mem_add.mp he with he | rfl
        · exact hrun.home h hh e he
        · exact hrun.home h hh ⟨ns, none, sid', eio⟩ (eioOf_some_mem hq)
      · exact ⟨hrun.inv h hh, hrun.home h hh⟩
    · intro h _ _; unfold apiEnter; split <;> rfl
    · intro h _ _ m hm x; unfold apiEnter at hm; split at hm
      · cases hm
      · simp only [List.mem_singleton] at hm; subst hm; rfl
    · intro h _ _; unfold apiEnter; split
      · exact EmitsOk.nil
      · intro m hm o e d ns' to skip cb he
        simp only [List.mem_singleton] at hm; subst hm; cases he
    · intro h _ _; unfold apiEnter; split <;> rfl
  | leave via ns sid' room =>
    refine on_quiet c hrun via _ ev sid ?_ ?_ ?_ ?_ ?_ ?_
    · intro h _ _; unfold apiLeave; split <;> rfl
    · intro h hh _; unfold apiLeave; split
      · exact ⟨(hrun.inv h hh).leave ns sid' room, homeOk_filter (hrun.home h hh) _⟩
      · exact ⟨hrun.inv h hh, hrun.home h hh⟩
    · intro h _ _; unfold apiLeave; split <;> rfl
    · intro h _ _ m hm x; unfold apiLeave at hm; split at hm
      · cases hm
      · simp only [List.mem_singleton] at hm; subst hm; rfl
    · intro h _ _; unfold apiLeave; split
      · exact EmitsOk.nil
      · intro m hm o e d ns' to skip cb he
        simp only [List.mem_singleton] at hm; subst hm; cases he
    · intro h _ _; unfold apiLeave; split <;> rfl
  | close via ns room =>
    refine on_quiet c hrun via _ ev sid (fun _ _ _ => rfl) ?_ (fun _ _ _ => rfl) ?_ ?_ (fun _ _ _ => rfl)
    · intro h hh _
      exact ⟨(hrun.inv h hh).closeRoom ns room, homeOk_filter (hrun.home h hh) _⟩
    · intro h _ _ m hm x
      simp only [apiClose, List.mem_singleton] at hm; subst hm; rfl
    · intro h _ _ m hm o e d ns' to skip cb he
      simp only [apiClose, List.mem_singleton] at hm; subst hm; cases he
  | disconnect via ns sid' =>
    refine on_quiet c hrun via _ ev sid ?_ ?_ ?_ ?_ ?_ ?_
    · intro h hh _; unfold apiDisconnect; split
      · exact (localDisconnect_once h (hrun.inv h hh) (hrun.home h hh) sid' ns ev sid).1
      · rfl
    · intro h hh _; unfold apiDisconnect; split
      · have := localDisconnect_once h (hrun.inv h hh) (hrun.home h hh) sid' ns ev sid
        exact ⟨this.2.1, this.2.2.1⟩
      · exact ⟨hrun.inv h hh, hrun.home h hh⟩
    · intro h hh _; unfold apiDisconnect; split
      · exact (localDisconnect_once h (hrun.inv h hh) (hrun.home h hh) sid' ns ev sid).2.2.2.1
      · rfl
    · intro h hh _ m hm x; unfold apiDisconnect at hm; split at hm
      · rw [(localDisconnect_once h (hrun.inv h hh) (hrun.home h hh) sid' ns ev sid).2.2.2.2.1] at hm
        cases hm
      · simp only [List.mem_singleton] at hm; subst hm; rfl
    · intro h hh _; unfold apiDisconnect; split
      · rw [(localDisconnect_once h (hrun.inv h hh) (hrun.home h hh) sid' ns ev sid).2.2.2.2.1]
        exact EmitsOk.nil
      · intro m hm o e d ns' to skip cb he
        simp only [List.mem_singleton] at hm; subst hm; cases he
    · intro h hh _; unfold apiDisconnect; split
      · exact (localDisconnect_once h (hrun.inv h hh) (hrun.home h hh) sid' ns ev sid).2.2.2.2.2
      · rfl
  | emit via e d ns to skip cb =>
    cases via with
    | some v =>
      have F := fun (h : Host) (hh : h ∈ c.hosts) =>
        apiEmit_once (home := home) h (hrun.inv h hh) (hrun.home h hh) e d ns to skip cb hop ev sid
      refine on_once c hrun v _ ev sid (opBudget ev (.emit (some v) e d ns to skip cb))
        (fun h hh _ => (F h hh).1) ?_ (fun h hh _ => (F h hh).2.2.2.1) ?_ ?_ ?_
      · intro h hh _
        rw [(F h hh).2.1]; exact ⟨hrun.inv h hh, hrun.home h hh⟩
      · intro h hh _; rw [(F h hh).2.2.1]; exact hrun.cur h hh
      · intro h hh _ _
        rw [(F h hh).2.2.1, countP_drop_append _ _ _ _ (hrun.cur h hh), (F h hh).2.2.2.2.2.1]
        have := (F h hh).2.2.2.2.2.2.1
        simp only [opBudget]
        omega
      · intro h hh _ hne
        exact ⟨(F h hh).2.2.2.2.2.2.2 hne, (F h hh).2.2.2.2.1⟩
    | none =>
      -- the write-only manager
      have hres : ∃ r : Res, apiEmit c.wo false e d ns to skip cb = r ∧ r.h.rooms = [] ∧ r.outs.all (fun o => !isCallbackOut o || true) ∧
          seenBy sid r.outs = [] ∧ EmitsOk r.pubs ∧
          (∀ x, r.pubs.countP (isEmitEv ev x) ≤ if e = ev then 1 else 0) := by
        cases cb with
        | none =>
          refine ⟨_, apiEmit_wo c.wo hrun.woRooms e d ns to skip hop, hrun.woRooms, by simp, rfl, ?_, ?_⟩
          · intro m hm o ev' d' ns' to' skip' cb'' he
            simp only [List.mem_singleton] at hm
            subst hm; cases he; exact hop
          · intro x
            by_cases he : e = ev <;> simp [isEmitEv, he]
            split <;> simp
        | some tok =>
          refine ⟨{ h := c.wo, outs := [.raised .other] }, by simp [apiEmit], hrun.woRooms, by simp, rfl,
            EmitsOk.nil, fun x => by simp⟩
      obtain ⟨r, hr, h1, _, h3, h4, h5⟩ := hres
      have hstep : step c (.emit none e d ns to skip cb) =
          ({ c with wo := r.h, chan := c.chan ++ r.pubs }, r.outs) := by
        show ({ c with wo := (apiEmit c.wo false e d ns to skip cb).h,
                        chan := c.chan ++ (apiEmit c.wo false e d ns to skip cb).pubs },
              (apiEmit c.wo false e d ns to skip cb).outs) = _
        rw [hr]
      rw [hstep]
      refine ⟨⟨hrun.ids, hrun.inv, hrun.home, ?_, hrun.chanOk.append h4, h1⟩, ?_⟩
      · intro h hh
        show h.cursor ≤ (c.chan ++ r.pubs).length
        have := hrun.cur h hh
        rw [List.length_append]; omega
      · show evCount ev (seenBy sid r.outs) + pendingEv home ev sid { c with wo := r.h, chan := c.chan ++ r.pubs } ≤ _
        rw [h3]
        unfold pendingEv Cluster.host
        simp only [opBudget]
        cases hq : c.hosts.find? (fun h => h.id = home sid) with
        | none => simp [evCount]
        | some hs =>
          obtain ⟨hsin, _⟩ := find_mem hq
          simp only [evCount_nil, Nat.zero_add]
          rw [countP_drop_append _ _ _ _ (hrun.cur hs hsin)]
          have := h5 hs.id
          omega
  | ack ns sid' n args =>
    have hstep : step c (.ack ns sid' n args) =
        (match c.hosts.find? (fun h => h.connected ns sid'), nthAsked c.asked sid' n with
          | some h, some i => c.on h.id (fun h => apiAck h sid' i args)
          | _, _ => (c, [])) := rfl
    have hnoop : Running home c ∧ evCount ev (seenBy sid []) + pendingEv home ev sid c ≤
        opBudget ev (.ack ns sid' n args) + pendingEv home ev sid c := ⟨hrun, by simp [seenBy, evCount]⟩
    rw [hstep]
    cases hfind : c.hosts.find? (fun h => h.connected ns sid') with
    | none => exact hnoop
    | some hv =>
      cases hnth : nthAsked c.asked sid' n with
      | none => exact hnoop
      | some i =>
        have heff := fun (h : Host) => apiAck_effect h sid' i args
        refine on_quiet c hrun hv.id _ ev sid (fun h _ _ => (heff h).2.1) ?_ (fun h _ _ => (heff h).2.2.1)
          ?_ (fun h _ _ => EmitsOk.of_allCb (heff h).2.2.2.1) ?_
        · intro h hh _
          rw [(heff h).1]; exact ⟨hrun.inv h hh, hrun.home h hh⟩
        · intro h _ _ m hm x
          have := (heff h).2.2.2.1 m hm
          cases m <;> first | rfl | cases this
        · intro h _ _
          rw [(heff h).2.2.2.2.1 sid]; rfl
  | deliver hid k =>
    have F := fun (h : Host) (hh : h ∈ c.hosts) =>
      catchUp_effect h (hrun.inv h hh) ((c.chan.drop h.cursor).take k)
        (hrun.chanOk.sub (fun m hm => List.mem_of_mem_drop (List.mem_of_mem_take hm)))
    have hlen : ∀ h : Host, h ∈ c.hosts → h.cursor + ((c.chan.drop h.cursor).take k).length ≤ c.chan.length := by
      intro h hh
      have := hrun.cur h hh
      simp only [List.length_take, List.length_drop]; omega
    have hnoemit : ∀ (h : Host) (hh : h ∈ c.hosts) (x : HostId),
        (catchUp h ((c.chan.drop h.cursor).take k)).pubs.countP (isEmitEv ev x) = 0 := by
      intro h hh x
      rw [List.countP_eq_zero]
      intro m hm
      have := (F h hh).2.2.2.1 m hm
      cases m with
      | callback o k' n' i a => simp [isEmitEv]
      | _ => cases this
    refine on_once c hrun hid (deliverOn c.chan k) ev sid 0 ?_ ?_ ?_ ?_ ?_ ?_
    · intro h hh _; exact (F h hh).2.1
    · intro h hh _
      show Inv (catchUp h _).h.rooms ∧ HomeOk home h.id (catchUp h _).h.rooms
      rw [(F h hh).1]
      exact ⟨inv_roomsAfterL h.id (hrun.inv h hh) _, homeOk_roomsAfterL (hrun.home h hh) _⟩
    · intro h hh _; exact EmitsOk.of_allCb (F h hh).2.2.2.1
    · intro h hh _; exact hlen h hh
    · intro h hh _ hhome
      show evCount ev (seenBy sid (catchUp h _).outs) +
        ((c.chan ++ (catchUp h _).pubs).drop (h.cursor + _)).countP (isEmitEv ev h.id) ≤ _
      rw [(F h hh).2.2.2.2.1 sid, countP_drop_append _ _ _ _ (hlen h hh), hnoemit h hh]
      have hb := evCount_seenAfterL_le (home := home) ev h.id h.rooms (hrun.inv h hh) (hrun.home h hh) sid
        ((c.chan.drop h.cursor).take k)
      rw [if_pos hhome] at hb
      have hsplit : (c.chan.drop h.cursor).countP (isEmitEv ev h.id) =
          ((c.chan.drop h.cursor).take k).countP (isEmitEv ev h.id) +
          (c.chan.drop (h.cursor + ((c.chan.drop h.cursor).take k).length)).countP (isEmitEv ev h.id) := by
        have h1 := List.take_append_drop k (c.chan.drop h.cursor)
        have h2 : (c.chan.drop h.cursor).drop k =
            c.chan.drop (h.cursor + ((c.chan.drop h.cursor).take k).length) := by
          rw [List.drop_drop]
          by_cases hk : k ≤ (c.chan.drop h.cursor).length
          · rw [List.length_take, Nat.min_eq_left hk]
          · have hk' : (c.chan.drop h.cursor).length ≤ k := by omega
            rw [List.length_take, Nat.min_eq_right hk']
            have e1 : c.chan.drop (h.cursor + k) = [] := by
              apply List.drop_eq_nil_of_le
              simp only [List.length_drop] at hk'; omega
            have e2 : c.chan.drop (h.cursor + (c.chan.drop h.cursor).length) = [] := by
              apply List.drop_eq_nil_of_le
              simp only [List.length_drop]; have := hrun.cur h hh; omega
            rw [e1, e2]
        conv => lhs; rw [← h1]
        rw [List.countP_append, h2]
      omega
    · intro h hh _ hne
      refine ⟨?_, fun x => by rw [show (deliverOn c.chan k h).pubs = (catchUp h _).pubs from rfl, hnoemit h hh x]; omega⟩
      show evCount ev (seenBy sid (catchUp h _).outs) = 0
      rw [(F h hh).2.2.2.2.1 sid]
      have hb := evCount_seenAfterL_le (home := home) ev h.id h.rooms (hrun.inv h hh) (hrun.home h hh) sid
        ((c.chan.drop h.cursor).take k)
      rw [if_neg hne] at hb
      omega
  | drain =>
    obtain ⟨⟨B, hB, hBeq⟩, e2, e3, e4, _⟩ :=
      drainHosts_effect c.chan c.hosts hrun.inv hrun.cur hrun.chanOk
    have hhosts : (step c .drain).1.hosts = (drainHosts c.chan c.hosts).1 := rfl
    have hchan : (step c .drain).1.chan = (drainHosts c.chan c.hosts).2.2 := rfl
    have hout : (step c .drain).2 = (drainHosts c.chan c.hosts).2.1 := rfl
    have hwo : (step c .drain).1.wo = c.wo := rfl
    have hview : ∀ h' ∈ (drainHosts c.chan c.hosts).1, ∃ h ∈ c.hosts, h'.id = h.id ∧
        h'.rooms = roomsAfterL h.id h.rooms (c.chan.drop h.cursor) := by
      intro h' hh'
      have : h'.view ∈ (drainHosts c.chan c.hosts).1.map Host.view := List.mem_map_of_mem hh'
      rw [e2] at this
      obtain ⟨h, hh, heq⟩ := List.mem_map.mp this
      refine ⟨h, hh, ?_, ?_⟩
      · exact (congrArg Prod.fst heq).symm
      · exact (congrArg Prod.snd heq).symm
    have hids : (drainHosts c.chan c.hosts).1.map Host.id = c.hosts.map Host.id := by
      have := congrArg (List.map Prod.fst) e2
      simp only [List.map_map] at this
      exact this
    refine ⟨⟨?_, ?_, ?_, ?_, ?_, ?_⟩, ?_⟩
    · rw [hhosts, hids]; exact hrun.ids
    · intro h' hh'
      rw [hhosts] at hh'
      obtain ⟨h, hh, _, hr⟩ := hview h' hh'
      rw [hr]; exact inv_roomsAfterL h.id (hrun.inv h hh) _
    · intro h' hh'
      rw [hhosts] at hh'
      obtain ⟨h, hh, hi, hr⟩ := hview h' hh'
      rw [hr, hi]; exact homeOk_roomsAfterL (hrun.home h hh) _
    · intro h' hh'
      rw [hhosts] at hh'
      rw [hchan]; exact (e3 h' hh').1
    · rw [hchan, hBeq]; exact hrun.chanOk.append (EmitsOk.of_allCb hB)
    · rw [hwo]; exact hrun.woRooms
    · rw [hout, e4 sid]
      have hpend' : pendingEv home ev sid (step c .drain).1 = 0 := by
        unfold pendingEv Cluster.host
        rw [hhosts, hchan]
        cases hq : (drainHosts c.chan c.hosts).1.find? (fun h => h.id = home sid) with
        | none => rfl
        | some hs =>
          obtain ⟨hsin, _⟩ := find_mem hq
          simp only
          rw [List.countP_eq_zero]
          intro m hm
          have := (e3 hs hsin).2 m hm
          cases m with
          | callback o k' n' i a => simp [isEmitEv]
          | _ => cases this
      rw [hpend']
      have := evCount_flatMap_le (home := home) ev sid c.hosts hrun.ids
        (fun h => seenAfterL h.id h.rooms sid (c.chan.drop h.cursor))
        (fun h => (c.chan.drop h.cursor).countP (isEmitEv ev h.id))
        (fun h hh => evCount_seenAfterL_le ev h.id h.rooms (hrun.inv h hh) (hrun.home h hh) sid _)
      unfold pendingEv Cluster.host
      simp only [opBudget]
      cases hq : c.hosts.find? (fun h => h.id = home sid) with
      | none => rw [hq] at this; simp only at this ⊢; omega
      | some hs => rw [hq] at this; simp only at this ⊢; omega

end steps

end Sio.PubSub
