/-
  Helper lemmas for K6 (pub/sub), callback level of `sync_equiv` (C07), part 3: the invariant
  `Linked` is kept by every operation followed by its drain, and the callbacks invoked by the
  cluster in that step are those invoked by the single server.  Here: the condition on the history,
  the reference server's side, and the operations that do not touch callback tables.
-/
import Sio.Lemmas.PubSubLinkedInv
namespace Sio.PubSub
open Sio.Rooms

/-- What the history must respect at operation `op`, judged on the reference server `s` at that
    moment: a `connect` brings a session id that is not in use and has never been asked anything
    (session ids are fresh); an emit with a callback addresses a personal room in which nobody but
    its owner is ("callbacks can only be used when addressing an individual client"). -/
def HistOpOk (s : Single) : Op → Prop
  | .connect _ _ _ sid => (∀ e ∈ s.srv.rooms, e.sid ≠ sid) ∧ (∀ a ∈ s.asked, a.1 ≠ sid)
  | .emit _ _ _ ns to _ cb =>
    cb.isSome → ∀ r, to = .one r → ∀ e ∈ s.srv.rooms, e.ns = ns → e.room = some r → e.sid = r
  | _ => True

/-! ### the reference server: rooms -/

theorem mem_connect_rooms {rooms : Rooms.St} {ns : Ns} {eio : Eio} {sid : Sid} {e : Entry}
    (he : e ∈ Rooms.apply rooms (.connect ns eio sid)) : e ∈ rooms ∨ (e.ns = ns ∧ e.sid = sid) := by
  simp only [Rooms.apply] at he
  split at he
  · exact Or.inl he
  · unfold Rooms.connect at he
    split at he
    · exact Or.inl he
    · simp only [Option.getD_some, mem_add] at he
      rcases he with (h | rfl) | rfl
      · exact Or.inl h
      · exact Or.inr ⟨rfl, rfl⟩
      · exact Or.inr ⟨rfl, rfl⟩

theorem mem_enterLocal {rooms : Rooms.St} {ns : Ns} {sid : Sid} {room : Room} {e : Entry}
    (he : e ∈ enterLocal rooms ns sid room) :
    e ∈ rooms ∨ (e.ns = ns ∧ e.sid = sid ∧ ∃ eio, (⟨ns, none, sid, eio⟩ : Entry) ∈ rooms) := by
  unfold enterLocal at he
  split at he
  · rename_i eio hq
    rcases mem_add.mp he with h | rfl
    · exact Or.inl h
    · exact Or.inr ⟨rfl, rfl, eio, eioOf_some_mem hq⟩
  · exact Or.inl he

/-- where the entries of the table after an operation come from: an entry for the same session
    on the same namespace was there before, or the operation is the `connect` of that session -/
theorem mem_singleRooms {rooms : Rooms.St} {op : Op} {e : Entry} (he : e ∈ singleRooms op rooms) :
    (∃ e' ∈ rooms, e'.ns = e.ns ∧ e'.sid = e.sid) ∨
    (∃ hid ns eio sid, op = .connect hid ns eio sid ∧ e.ns = ns ∧ e.sid = sid) := by
  cases op with
  | connect hid ns eio sid =>
    rcases mem_connect_rooms he with h | h
    · exact Or.inl ⟨e, h, rfl, rfl⟩
    · exact Or.inr ⟨hid, ns, eio, sid, rfl, h.1, h.2⟩
  | enter via ns sid room =>
    rcases mem_enterLocal he with h | ⟨h1, h2, eio, h3⟩
    · exact Or.inl ⟨e, h, rfl, rfl⟩
    · exact Or.inl ⟨_, h3, h1.symm, h2.symm⟩
  | leave via ns sid room => exact Or.inl ⟨e, (List.mem_filter.mp he).1, rfl, rfl⟩
  | close via ns room => exact Or.inl ⟨e, (List.mem_filter.mp he).1, rfl, rfl⟩
  | disconnect via ns sid => exact Or.inl ⟨e, (List.mem_filter.mp he).1, rfl, rfl⟩
  | emit via ev d ns to skip cb => exact Or.inl ⟨e, he, rfl, rfl⟩
  | ack ns sid n args => exact Or.inl ⟨e, he, rfl, rfl⟩
  | deliver h k => exact Or.inl ⟨e, he, rfl, rfl⟩
  | drain => exact Or.inl ⟨e, he, rfl, rfl⟩

/-- a session id stays on one namespace -/
theorem single_oneNs {s : Single} {op : Op} (hh : HistOpOk s op)
    (hone : ∀ e₁ ∈ s.srv.rooms, ∀ e₂ ∈ s.srv.rooms, e₁.sid = e₂.sid → e₁.ns = e₂.ns) :
    ∀ e₁ ∈ singleRooms op s.srv.rooms, ∀ e₂ ∈ singleRooms op s.srv.rooms, e₁.sid = e₂.sid → e₁.ns = e₂.ns := by
  intro e₁ h1 e₂ h2 hsid
  rcases mem_singleRooms h1 with ⟨a, ha, an, as⟩ | ⟨hid, ns, eio, sid, rfl, n1, s1⟩ <;>
    rcases mem_singleRooms h2 with ⟨b, hb, bn, bs⟩ | ⟨hid', ns', eio', sid', hop, n2, s2⟩
  · rw [← an, ← bn]
    exact hone a ha b hb (by rw [as, bs, hsid])
  · subst hop
    exact absurd (by rw [as, hsid, s2]) (hh.1 a ha)
  · exact absurd (by rw [bs, ← hsid, s1]) (hh.1 b hb)
  · cases hop
    rw [n1, n2]

/-- a session that appears on the reference server is new: it has never been asked anything -/
theorem single_conn {s : Single} {op : Op} (hh : HistOpOk s op) (y : Sid)
    (hy : ∃ e ∈ singleRooms op s.srv.rooms, e.sid = y) :
    (∃ e ∈ s.srv.rooms, e.sid = y) ∨ askedOf s.asked y = [] := by
  obtain ⟨e, he, rfl⟩ := hy
  rcases mem_singleRooms he with ⟨a, ha, _, as⟩ | ⟨hid, ns, eio, sid, rfl, _, s1⟩
  · exact Or.inl ⟨a, ha, as⟩
  · right
    rw [s1]
    exact askedOf_eq_nil hh.2

theorem single_step_asked (s : Single) (op : Op) :
    (s.step op).1.asked = s.asked ++ askedIn (s.step op).2 := rfl

/-! ### operations that leave the callback tables alone -/

section frame
variable {home : Sid → HostId} {ehome : Eio → HostId} {c : Cluster} {s : Single}

/-- the generic case, cluster side already analysed: every host keeps its table, nobody is asked
    anything new, against a step of the reference server that keeps its table and asks nobody -/
theorem linked_frame_core (hs : Sim home ehome c s) (hl : Linked home c s) (op : Op)
    (hh : HistOpOk s op) (c' : Cluster) (outs : List Out) (G : Host → Host)
    (e1 : c'.hosts = c.hosts.map G)
    (e2 : ∀ h ∈ c.hosts, (G h).id = h.id ∧ (G h).cbs = h.cbs ∧ (G h).ctr = h.ctr)
    (e3 : ∀ h ∈ c'.hosts, h.cursor = c'.chan.length)
    (e4 : cbEvents outs = [])
    (e5 : c'.asked = c.asked ++ askedIn outs)
    (hseen : ∀ x, seenBy x outs = seenBy x (s.step op).2)
    (hS : (s.step op).1.srv.cbs = s.srv.cbs ∧ (s.step op).1.srv.ctr = s.srv.ctr)
    (hnoask : ∀ x, ∀ e ∈ seenBy x (s.step op).2, e.asks = false)
    (hcb : cbEvents (s.step op).2 = []) :
    Linked home c' (s.step op).1 ∧ cbEvents outs = cbEvents (s.step op).2 := by
  have hask : askedIn outs = [] :=
    askedIn_nil_of_seen _ (fun x e he => hnoask x e (by rw [← hseen x]; exact he))
  have hsask : askedIn (s.step op).2 = [] := askedIn_nil_of_seen _ hnoask
  have hca : c'.asked = c.asked := by rw [e5, hask, List.append_nil]
  have hsa : (s.step op).1.asked = s.asked := by rw [single_step_asked, hsask, List.append_nil]
  have hrooms := single_step_rooms (s := s) hs.sinv op
  refine ⟨?_, by rw [e4, hcb]⟩
  refine linked_keyed hl hs.ids _ _ G none e1 (fun h hh => (e2 h hh).1)
    (fun h hh y _ => ⟨by rw [(e2 h hh).2.1], by rw [(e2 h hh).2.2]⟩) e3 ?_ ?_
    (fun y _ => by rw [hca]) (fun y _ => by rw [hsa]) (fun y _ => ⟨by rw [hS.1], by rw [hS.2]⟩) ?_
    (fun k hk => (nomatch hk))
  · rw [hrooms]; exact single_oneNs hh hl.oneNs
  · intro x; rw [hca, hsa]; exact hl.len x
  · intro y _ hy
    rw [hrooms] at hy
    exact single_conn hh y hy

/-- the generic case: an API call on `hv` that keeps `hv`'s table and publishes nothing or one plain
    entry, against a step of the reference server that keeps its table and asks nobody -/
theorem linked_frame_on (hs : Sim home ehome c s) (hl : Linked home c s) (op : Op)
    (hh : HistOpOk s op) (hv : Host) (hin : hv ∈ c.hosts) (f : Host → Res)
    (hfid : (f hv).h.id = hv.id)
    (hcur : ∀ h ∈ c.hosts, (f h).h.cursor = h.cursor)
    (ha : (f hv).h.cbs = hv.cbs ∧ (f hv).h.ctr = hv.ctr)
    (hb : cbEvents (f hv).outs = [])
    (hP : (f hv).pubs = [] ∨ ∃ m, (f hv).pubs = [m] ∧ m.plain)
    (hseen : ∀ x, seenBy x ((c.on hv.id f).2 ++ (step (c.on hv.id f).1 .drain).2) = seenBy x (s.step op).2)
    (hS : (s.step op).1.srv.cbs = s.srv.cbs ∧ (s.step op).1.srv.ctr = s.srv.ctr)
    (hnoask : ∀ x, ∀ e ∈ seenBy x (s.step op).2, e.asks = false)
    (hcb : cbEvents (s.step op).2 = []) :
    Linked home (step (c.on hv.id f).1 .drain).1 (s.step op).1 ∧
    cbEvents ((c.on hv.id f).2 ++ (step (c.on hv.id f).1 .drain).2) = cbEvents (s.step op).2 := by
  obtain ⟨G, e1, e2, e3, e4, e5⟩ := cluster_frame c hs.ids hl.drained hv hin f hfid hcur ha hb hP
  exact linked_frame_core hs hl op hh _ _ G e1 e2 e3 e4 e5 hseen hS hnoask hcb

/-- what one step must deliver -/
def StepGoal (home : Sid → HostId) (c : Cluster) (s : Single) (op : Op) : Prop :=
  Linked home (step (step c op).1 .drain).1 (s.step op).1 ∧
  cbEvents ((step c op).2 ++ (step (step c op).1 .drain).2) = cbEvents (s.step op).2 ∧
  (cbEvents (s.step op).2 = [] ∨ discEvents (s.step op).2 = [])

theorem linked_connect (hs : Sim home ehome c s) (hl : Linked home c s) (hid : HostId) (ns : Ns)
    (eio : Eio) (sid : Sid) (hop : OpOk home ehome (c.views.map Prod.fst) (.connect hid ns eio sid))
    (hh : HistOpOk s (.connect hid ns eio sid)) : StepGoal home c s (.connect hid ns eio sid) := by
  obtain ⟨hv, hin, rfl⟩ := exists_host_of_id c hid (by rw [← views_fst]; exact hop.1)
  have hseen := (sim_step hs (.connect hv.id ns eio sid) hop).2.1
  have := linked_frame_on hs hl (.connect hv.id ns eio sid) hh hv hin (fun h => apiConnect h ns eio sid)
    rfl (fun _ _ => rfl) ⟨rfl, rfl⟩ rfl (Or.inl rfl) hseen ⟨rfl, rfl⟩ (fun x e he => (nomatch he)) rfl
  exact ⟨this.1, this.2, Or.inl rfl⟩

theorem linked_enter (hs : Sim home ehome c s) (hl : Linked home c s) (via : HostId) (ns : Ns)
    (sid : Sid) (room : Room) (hop : OpOk home ehome (c.views.map Prod.fst) (.enter via ns sid room)) :
    StepGoal home c s (.enter via ns sid room) := by
  obtain ⟨hv, hin, rfl⟩ := exists_host_of_id c via (by rw [← views_fst]; exact hop)
  have hseen := (sim_step hs (.enter hv.id ns sid room) hop).2.1
  have hobs := singleEnter_obs s.srv ns sid room
  have hcb : cbEvents (singleEnter s.srv ns sid room).outs = [] := by
    unfold singleEnter; split <;> rfl
  have hP : (apiEnter hv ns sid room).pubs = [] ∨ ∃ m, (apiEnter hv ns sid room).pubs = [m] ∧ m.plain := by
    unfold apiEnter
    split
    · exact Or.inl rfl
    · exact Or.inr ⟨_, rfl, trivial⟩
  have := linked_frame_on hs hl (.enter hv.id ns sid room) trivial hv hin (fun h => apiEnter h ns sid room)
    (by show (apiEnter hv ns sid room).h.id = hv.id; unfold apiEnter; split <;> rfl)
    (by intro h _; show (apiEnter h ns sid room).h.cursor = h.cursor; unfold apiEnter; split <;> rfl)
    (by show (apiEnter hv ns sid room).h.cbs = hv.cbs ∧ _; unfold apiEnter; split <;> exact ⟨rfl, rfl⟩)
    (by show cbEvents (apiEnter hv ns sid room).outs = []; unfold apiEnter; split <;> rfl)
    hP hseen
    (by show (singleEnter s.srv ns sid room).h.cbs = s.srv.cbs ∧ (singleEnter s.srv ns sid room).h.ctr = s.srv.ctr
        unfold singleEnter; split <;> exact ⟨rfl, rfl⟩)
    (fun x e he => by
      have he' : e ∈ seenBy x (singleEnter s.srv ns sid room).outs := he
      rw [hobs.1 x] at he'; cases he')
    hcb
  exact ⟨this.1, this.2, Or.inl hcb⟩

theorem linked_leave (hs : Sim home ehome c s) (hl : Linked home c s) (via : HostId) (ns : Ns)
    (sid : Sid) (room : Room) (hop : OpOk home ehome (c.views.map Prod.fst) (.leave via ns sid room)) :
    StepGoal home c s (.leave via ns sid room) := by
  obtain ⟨hv, hin, rfl⟩ := exists_host_of_id c via (by rw [← views_fst]; exact hop)
  have hseen := (sim_step hs (.leave hv.id ns sid room) hop).2.1
  have hP : (apiLeave hv ns sid room).pubs = [] ∨ ∃ m, (apiLeave hv ns sid room).pubs = [m] ∧ m.plain := by
    unfold apiLeave
    split
    · exact Or.inl rfl
    · exact Or.inr ⟨_, rfl, trivial⟩
  have := linked_frame_on hs hl (.leave hv.id ns sid room) trivial hv hin (fun h => apiLeave h ns sid room)
    (by show (apiLeave hv ns sid room).h.id = hv.id; unfold apiLeave; split <;> rfl)
    (by intro h _; show (apiLeave h ns sid room).h.cursor = h.cursor; unfold apiLeave; split <;> rfl)
    (by show (apiLeave hv ns sid room).h.cbs = hv.cbs ∧ _; unfold apiLeave; split <;> exact ⟨rfl, rfl⟩)
    (by show cbEvents (apiLeave hv ns sid room).outs = []; unfold apiLeave; split <;> rfl)
    hP hseen ⟨rfl, rfl⟩ (fun x e he => (nomatch he)) rfl
  exact ⟨this.1, this.2, Or.inl rfl⟩

theorem linked_close (hs : Sim home ehome c s) (hl : Linked home c s) (via : HostId) (ns : Ns)
    (room : Room) (hop : OpOk home ehome (c.views.map Prod.fst) (.close via ns room)) :
    StepGoal home c s (.close via ns room) := by
  obtain ⟨hv, hin, rfl⟩ := exists_host_of_id c via (by rw [← views_fst]; exact hop)
  have hseen := (sim_step hs (.close hv.id ns room) hop).2.1
  have := linked_frame_on hs hl (.close hv.id ns room) trivial hv hin (fun h => apiClose h ns room)
    rfl (fun _ _ => rfl) ⟨rfl, rfl⟩ rfl (Or.inr ⟨_, rfl, trivial⟩) hseen ⟨rfl, rfl⟩
    (fun x e he => (nomatch he)) rfl
  exact ⟨this.1, this.2, Or.inl rfl⟩

theorem seenEmit_noask (rooms : Rooms.St) (ns : Ns) (t : Target) (skip : List Sid) (ev : J) (args : List J)
    (x : Sid) : ∀ e ∈ seenEmit rooms ns t skip ev args false x, e.asks = false := by
  intro e he
  unfold seenEmit at he
  split at he
  · simp only [List.mem_singleton] at he; subst he; rfl
  · cases he

/-- an emit without a callback, through a host -/
theorem linked_emit_plain (hs : Sim home ehome c s) (hl : Linked home c s) (via : HostId) (ev : Str)
    (d : Data) (ns : Ns) (to : Target) (skip : Skip)
    (hop : OpOk home ehome (c.views.map Prod.fst) (.emit (some via) ev d ns to skip none)) :
    StepGoal home c s (.emit (some via) ev d ns to skip none) := by
  obtain ⟨hvia, hok, _⟩ := hop
  obtain ⟨hv, hin, rfl⟩ := exists_host_of_id c via (by rw [← views_fst]; exact hvia via rfl)
  have hseen := (sim_step hs (.emit (some hv.id) ev d ns to skip none) ⟨hvia, hok, fun h => (nomatch h)⟩).2.1
  have hf : ∀ h : Host, apiEmit h true ev d ns to skip none = _ := fun h => apiEmit_nocb h true ev d ns to skip hok
  have hsobs := single_emit_obs (s := s) hs.sinv (some hv.id) ev d ns to skip none
  have hsn := emitLocal_none_host s.srv ns to skip.toList (.str ev) d.pack
  have hcb : cbEvents (s.step (.emit (some hv.id) ev d ns to skip none)).2 = [] := hsn.2
  have := linked_frame_on hs hl (.emit (some hv.id) ev d ns to skip none)
    (fun h => (nomatch h)) hv hin (fun h => apiEmit h true ev d ns to skip none)
    (by show (apiEmit hv true ev d ns to skip none).h.id = _; rw [hf]; exact (emitLocal_rooms _ _ _ _ _ _ _).2.1)
    (by intro h _; show (apiEmit h true ev d ns to skip none).h.cursor = _; rw [hf]
        exact (emitLocal_rooms _ _ _ _ _ _ _).2.2)
    (by show (apiEmit hv true ev d ns to skip none).h.cbs = _ ∧ _; rw [hf]
        have := emitLocal_none_host hv ns to skip.toList (.str ev) d.pack
        exact ⟨by rw [this.1], by rw [this.1]⟩)
    (by show cbEvents (apiEmit hv true ev d ns to skip none).outs = []; rw [hf]
        exact (emitLocal_none_host hv ns to skip.toList (.str ev) d.pack).2)
    (Or.inr ⟨Msg.emit hv.id ev d ns to skip none,
      by show (apiEmit hv true ev d ns to skip none).pubs = _; rw [hf], ⟨rfl, hok⟩⟩)
    hseen
    (by show (emitLocal s.srv ns to skip.toList (.str ev) d.pack none).1.cbs = _ ∧
          (emitLocal s.srv ns to skip.toList (.str ev) d.pack none).1.ctr = _
        exact ⟨by rw [hsn.1], by rw [hsn.1]⟩)
    (fun x e he => by
      rw [hsobs.1 x] at he
      exact seenEmit_noask _ _ _ _ _ _ _ e he)
    hcb
  exact ⟨this.1, this.2, Or.inl hcb⟩

/-- an emit through the write-only manager (it cannot carry a callback) -/
theorem linked_emit_wo (hs : Sim home ehome c s) (hl : Linked home c s) (ev : Str)
    (d : Data) (ns : Ns) (to : Target) (skip : Skip) (cb : Option Nat)
    (hop : OpOk home ehome (c.views.map Prod.fst) (.emit none ev d ns to skip cb)) :
    StepGoal home c s (.emit none ev d ns to skip cb) := by
  obtain ⟨_, hok, hcbn⟩ := hop
  have hcb0 : cb = none := by
    cases cb with
    | none => rfl
    | some tok => exact absurd (hcbn rfl).1 (by simp)
  subst hcb0
  have hseen := (sim_step hs (.emit none ev d ns to skip none) ⟨fun _ h => (nomatch h), hok, fun h => (nomatch h)⟩).2.1
  have hw := apiEmit_wo c.wo hs.woRooms ev d ns to skip hok
  have hr1 : (step c (.emit none ev d ns to skip none)).1 =
      { c with chan := c.chan ++ [Msg.emit c.wo.id ev d ns to skip none] } := by
    show ({ c with wo := (apiEmit c.wo false ev d ns to skip none).h,
                    chan := c.chan ++ (apiEmit c.wo false ev d ns to skip none).pubs } : Cluster) = _
    rw [hw]
  have hr2 : (step c (.emit none ev d ns to skip none)).2 = [] := by
    show (apiEmit c.wo false ev d ns to skip none).outs = []
    rw [hw]
  have hm : (Msg.emit c.wo.id ev d ns to skip none).plain := ⟨rfl, hok⟩
  obtain ⟨e1, e2, e3, e4, _⟩ := drain_full (step c (.emit none ev d ns to skip none)).1 c.chan
    [Msg.emit c.wo.id ev d ns to skip none] (by rw [hr1]) (by rw [hr1]; exact hl.drained)
    (by intro h _; rw [(catchUp_one _ _).2.2]; exact (listenMsg_plain _ _ hm).2.2.2.2)
  have hsobs := single_emit_obs (s := s) hs.sinv none ev d ns to skip none
  have hsn := emitLocal_none_host s.srv ns to skip.toList (.str ev) d.pack
  have hcb : cbEvents (s.step (.emit none ev d ns to skip none)).2 = [] := hsn.2
  rw [hr2, List.nil_append] at hseen
  have := linked_frame_core hs hl (.emit none ev d ns to skip none) (fun h => (nomatch h)) _ _ _
    (by rw [e1, hr1]) ?_ ?_ ?_ (by rw [e3, e4, hr1]) hseen
    (by show (emitLocal s.srv ns to skip.toList (.str ev) d.pack none).1.cbs = _ ∧
          (emitLocal s.srv ns to skip.toList (.str ev) d.pack none).1.ctr = _
        exact ⟨by rw [hsn.1], by rw [hsn.1]⟩)
    (fun x e he => by
      rw [hsobs.1 x] at he
      exact seenEmit_noask _ _ _ _ _ _ _ e he)
    hcb
  · refine ⟨this.1, ?_, Or.inl hcb⟩
    rw [hr2, List.nil_append]
    exact this.2
  · intro h _
    have hp := listenMsg_plain h _ hm
    simp only [(catchUp_one _ _).1]
    exact ⟨hp.2.2.1, hp.1, hp.2.1⟩
  · intro h' hh'
    rw [e1] at hh'
    obtain ⟨h, _, rfl⟩ := List.mem_map.mp hh'
    rw [e2]
    simp
  · rw [e4, hr1]
    refine cbEvents_flatMap_nil _ _ (fun h _ => ?_)
    rw [(catchUp_one _ _).2.1]
    exact (listenMsg_plain _ _ hm).2.2.2.1

end frame

end Sio.PubSub
