/-
  K7 — CONNECT packets / auth calls in a trace; the connect window while the transport stays up.
-/
import Sio.Lemmas.Client
namespace Sio.Client

/-! ### CONNECT packets in a trace -/

/-- what `connect()` does towards the server: invoking the auth callable, handing over a CONNECT -/
inductive ConnOut where
  | auth
  | pkt (nsp : Option Ns) (data : Option J)

def connectOf : Out → Option ConnOut
  | .send p => if p.type = CONNECT then some (.pkt p.nsp p.data) else none
  | .authCall => some .auth
  | _ => none

def connects (os : List Out) : List ConnOut := os.filterMap connectOf

@[simp] theorem connects_nil : connects [] = [] := rfl
@[simp] theorem connects_append (a b : List Out) : connects (a ++ b) = connects a ++ connects b := by
  simp [connects, List.filterMap_append]
theorem connects_cons (o : Out) (os : List Out) :
    connects (o :: os) = (connectOf o).toList ++ connects os := by
  simp only [connects, List.filterMap_cons]
  cases connectOf o <;> simp

theorem evPacket_type_ne (t : Nat) (d : J) (n : Ns) (id : Option Nat) (h : t = EVENT ∨ t = ACK) :
    (evPacket t d n id).type ≠ CONNECT := by
  unfold evPacket
  rcases h with h | h <;> subst h <;> split <;> simp [EVENT, ACK, BINARY_EVENT, BINARY_ACK, CONNECT]

theorem connects_trigger (cfg : Cfg) (ev : Str) (n : Ns) (args : List J) :
    connects (trigger cfg ev n args).1 = [] := by
  unfold trigger
  split <;> simp [connects_cons, connectOf]

theorem connects_sendPkt (c : Cli) (p : Packet) (h : p.type ≠ CONNECT) : connects (sendPkt c p) = [] := by
  unfold sendPkt
  split <;> simp [connects_cons, connectOf, h]

theorem connects_flatMap_trigger (cfg : Cfg) (ev : Str) (f : Ns × J → List J) (l : List (Ns × J)) :
    connects (l.flatMap (fun e => (trigger cfg ev e.1 (f e)).1)) = [] := by
  induction l with
  | nil => rfl
  | cons a l ih => simp [List.flatMap_cons, ih, connects_trigger]

theorem connects_onEioDisconnect (cfg : Cfg) (c : Cli) (r : Str) :
    connects (onEioDisconnect cfg c r).2 = [] := by
  unfold onEioDisconnect
  split
  · exact connects_flatMap_trigger cfg sDisconnect (fun _ => [.str r]) c.namespaces
  · rfl

theorem connects_eioDisconnect (cfg : Cfg) (c : Cli) (r : Str) :
    connects (eioDisconnect cfg c r).2 = [] := by
  unfold eioDisconnect
  split
  · simp [connects_cons, connectOf, connects_onEioDisconnect]
  · rfl

theorem connects_apiDisconnect (cfg : Cfg) (c : Cli) : connects (apiDisconnect cfg c).2 = [] := by
  unfold apiDisconnect
  simp only [connects_append, connects_eioDisconnect, List.append_nil]
  induction c.namespaces with
  | nil => rfl
  | cons a l ih =>
    simp only [List.flatMap_cons, connects_append, ih, List.append_nil]
    exact connects_sendPkt c _ (show DISCONNECT ≠ CONNECT by decide)

theorem connects_handleEvent (cfg : Cfg) (c : Cli) (ns : Option Ns) (id : Option Nat) (data : Option J) :
    connects (handleEvent cfg c ns id data).2 = [] := by
  unfold handleEvent
  split
  · split
    · exact connects_trigger _ _ _ _
    · simp [connects_trigger, connects_sendPkt _ _ (evPacket_type_ne ACK _ _ _ (Or.inr rfl))]
  · simp [connects_cons, connectOf]

theorem connects_ackOuts (cb : Cb) (data : Option J) : connects (ackOuts cb data) = [] := by
  unfold ackOuts
  split
  · split <;> simp [connects_cons, connectOf]
  · simp [connects_cons, connectOf]

theorem connects_handleAck (c : Cli) (ns : Option Ns) (id : Option Nat) (data : Option J) :
    connects (handleAck c ns id data).2 = [] := by
  unfold handleAck
  split
  · rfl
  · split
    · rfl
    · exact connects_ackOuts _ _

theorem connects_handleConnect (cfg : Cfg) (c : Cli) (ns : Option Ns) (data : Option J) :
    connects (handleConnect cfg c ns data).2 = [] := by
  unfold handleConnect
  simp only
  split
  · rfl
  · split
    · simp [connects_cons, connectOf]
    · exact connects_trigger _ _ _ _

theorem connects_handleDisconnect (cfg : Cfg) (c : Cli) (ns : Option Ns) :
    connects (handleDisconnect cfg c ns).2 = [] := by
  unfold handleDisconnect
  split
  · rfl
  · simp only
    split
    · simp [connects_trigger, connects_eioDisconnect]
    · exact connects_trigger _ _ _ _

theorem connects_handleError (cfg : Cfg) (c : Cli) (ns : Option Ns) (data : Option J) :
    connects (handleError cfg c ns data).2 = [] := by
  unfold handleError
  simp only
  split <;> exact connects_trigger _ _ _ _

theorem connects_handlePkt (cfg : Cfg) (c : Cli) (p : Packet) : connects (handlePkt cfg c p).2 = [] := by
  unfold handlePkt
  split
  · exact connects_handleConnect _ _ _ _
  · split
    · exact connects_handleDisconnect _ _ _
    · split
      · exact connects_handleEvent _ _ _ _ _
      · split
        · exact connects_handleAck _ _ _ _
        · split
          · exact connects_handleError _ _ _ _
          · simp [connects_cons, connectOf]

theorem connects_onMessage (cfg : Cfg) (c : Cli) (raw : J) (d : Except Err (Packet × Nat)) :
    connects (onMessage cfg c raw d).2 = [] := by
  unfold onMessage
  split
  · split
    · simp [connects_cons, connectOf]
    · rfl
    · split
      · exact connects_handleEvent _ _ _ _ _
      · exact connects_handleAck _ _ _ _
  · split
    · simp [connects_cons, connectOf]
    · split
      · rfl
      · exact connects_handlePkt _ _ _

theorem connects_deliver (cfg : Cfg) (c : Cli) (e : Ev) : connects (deliver cfg c e).2 = [] := by
  cases e with
  | msg raw d =>
    simp only [deliver]
    split
    · exact connects_onMessage _ _ _ _
    · rfl
  | lost =>
    simp only [deliver, onLost]
    split
    · rw [connects_append, connects_onEioDisconnect]
      rcases startEffort_eq { (onEioDisconnect cfg c rTransport).1 with eio := .disconnected } with h | h <;>
        rw [h] <;> simp [connects_cons, connectOf]
    · rfl
  | close => exact connects_eioDisconnect _ _ _

theorem connects_deliverAll (cfg : Cfg) (es : List Ev) : ∀ c, connects (deliverAll cfg c es).2 = [] := by
  induction es with
  | nil => intro c; rfl
  | cons e es ih => intro c; simp [deliverAll, connects_deliver, ih]

end Sio.Client

namespace Sio.Client

/-! ### the connect window while the transport stays up -/

def Ev.isMsg : Ev → Bool
  | .msg _ _ => true
  | _ => false

/-- no reaction is a loss of the transport or an engine.io CLOSE -/
def quiet (rs : List (List Ev)) : Bool := rs.all (fun l => l.all Ev.isMsg)

theorem handleEvent_state' (cfg : Cfg) (c : Cli) (ns : Option Ns) (id : Option Nat) (data : Option J) :
    (handleEvent cfg c ns id data).1 = c := by
  unfold handleEvent
  split
  · split <;> rfl
  · rfl

theorem handleAck_window (c : Cli) (ns : Option Ns) (id : Option Nat) (data : Option J) :
    (handleAck c ns id data).1.connected = c.connected ∧ (handleAck c ns id data).1.eio = c.eio := by
  unfold handleAck
  split
  · simp
  · split <;> simp

theorem handlePkt_window (cfg : Cfg) (c : Cli) (p : Packet) (h1 : c.connected = false) :
    (handlePkt cfg c p).1.connected = false ∧ (handlePkt cfg c p).1.eio = c.eio := by
  unfold handlePkt
  split
  · unfold handleConnect
    simp only
    split
    · exact ⟨h1, rfl⟩
    · split <;> exact ⟨h1, rfl⟩
  · split
    · unfold handleDisconnect
      simp [h1]
    · split
      · rw [handleEvent_state']; exact ⟨h1, rfl⟩
      · split
        · have := handleAck_window c p.nsp p.id p.data
          exact ⟨this.1.trans h1, this.2⟩
        · split
          · unfold handleError
            simp only
            split
            · exact ⟨rfl, rfl⟩
            · exact ⟨h1, rfl⟩
          · exact ⟨h1, rfl⟩

theorem deliver_window (cfg : Cfg) (c : Cli) (e : Ev) (hm : e.isMsg = true) (h1 : c.connected = false)
    (h2 : c.eio = .connected) :
    (deliver cfg c e).1.connected = false ∧ (deliver cfg c e).1.eio = .connected := by
  cases e with
  | lost => cases hm
  | close => cases hm
  | msg raw d =>
    simp only [deliver, h2, if_true]
    unfold onMessage
    split
    · split
      · exact ⟨h1, h2⟩
      · exact ⟨h1, h2⟩
      · split
        · rw [handleEvent_state']; exact ⟨h1, h2⟩
        · have := handleAck_window { c with binbuf := none } ‹Packet›.nsp ‹Packet›.id ‹Packet›.data
          exact ⟨this.1.trans h1, this.2.trans h2⟩
    · split
      · exact ⟨h1, h2⟩
      · split
        · exact ⟨h1, h2⟩
        · have := handlePkt_window cfg c ‹Packet› h1
          exact ⟨this.1, this.2.trans h2⟩

theorem deliverAll_window (cfg : Cfg) (es : List Ev) : ∀ (c : Cli), es.all Ev.isMsg = true →
    c.connected = false → c.eio = .connected →
    (deliverAll cfg c es).1.connected = false ∧ (deliverAll cfg c es).1.eio = .connected := by
  induction es with
  | nil => intro c _ h1 h2; exact ⟨h1, h2⟩
  | cons e es ih =>
    intro c hq h1 h2
    simp only [List.all_cons, Bool.and_eq_true] at hq
    have := deliver_window cfg c e hq.1 h1 h2
    simp only [deliverAll]
    exact ih _ hq.2 this.1 this.2

/-- **connect_sends**, the loop: while the transport stays up, `_handle_eio_connect` hands over one
    CONNECT per requested namespace, in order, each carrying the auth payload — and nothing else
    in the trace is a CONNECT packet. -/
theorem connects_connectLoop (cfg : Cfg) (auth : J) (nss : List Ns) : ∀ (c : Cli) (rs : List (List Ev)),
    quiet rs = true → c.connected = false → c.eio = .connected →
    connects (connectLoop cfg auth c nss rs).2 = nss.map (fun n => ConnOut.pkt (some n) (some auth))
    ∧ (connectLoop cfg auth c nss rs).1.connected = false
    ∧ (connectLoop cfg auth c nss rs).1.eio = .connected := by
  induction nss with
  | nil => intro c rs _ h1 h2; exact ⟨rfl, h1, h2⟩
  | cons n ns ih =>
    intro c rs hq h1 h2
    have hq1 : (rs.headD []).all Ev.isMsg = true := by
      cases rs with
      | nil => rfl
      | cons r rs => simp only [quiet, List.all_cons, Bool.and_eq_true] at hq; exact hq.1
    have hq2 : quiet rs.tail = true := by
      cases rs with
      | nil => rfl
      | cons r rs => simp only [quiet, List.all_cons, Bool.and_eq_true] at hq; exact hq.2
    have hw := deliverAll_window cfg (rs.headD []) c hq1 h1 h2
    obtain ⟨i1, i2, i3⟩ := ih _ rs.tail hq2 hw.1 hw.2
    simp only [connectLoop, h2, if_true]
    refine ⟨?_, i2, i3⟩
    rw [connects_cons, connects_append, connects_deliverAll, i1]
    simp [connectOf]

end Sio.Client
