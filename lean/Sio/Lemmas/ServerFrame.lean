/-
  K4 — the case structure of `_handle_eio_message` as data: which of the six things an arriving
  frame can be, and which of the six things a decoded packet is dispatched to.  Property proofs
  do one `cases` on these instead of unfolding the handler.
-/
import Sio.Lemmas.ServerReach
namespace Sio.Server
open Sio.Rooms

/-- `Packet(encoded_packet=v)` for a frame that arrives while no binary packet is pending -/
def frameDecode (dec : Str → Except Err (Packet × Nat)) (v : J) : Except Err (Packet × Nat) :=
  match v with
  | .str (c :: cs) => dec (c :: cs)
  | .bin (_ :: _) => .error .typeError
  | other => decodeOdd other

/-- `reconstruct_binary` of the payload of a partial packet with the attachments `got` -/
def reconData (p : Partial) (got : List J) : Except Err (Option J) :=
  match p.pkt.data with
  | some j => (recon got j).map some
  | none => .ok none

/-- the pending binary packet of `t` is complete and leaves the buffer -/
def dropBin (s : Srv) (t : Eio) : Srv := { s with binbuf := s.binbuf.filter (fun e => e.1 != t) }

/-- an attachment was stored -/
def storeBin (s : Srv) (t : Eio) (part : Partial) (v : J) : Srv :=
  { s with binbuf := setBin s.binbuf t { part with got := part.got ++ [v] } }

inductive FrameCase (dec : Str → Except Err (Packet × Nat)) (cfg : Cfg) (s : Srv) (t : Eio) (v : J) :
    Srv × List Out → Prop where
  /-- more attachments than announced -/
  | tooMany {t' : Eio} {part : Partial} : s.binbuf.find? (fun e => e.1 = t) = some (t', part) →
      part.need ≤ part.got.length → FrameCase dec cfg s t v (s, [.raised .valueError])
  /-- last attachment, reconstruction fails -/
  | reconErr {t' : Eio} {part : Partial} {e : Err} :
      s.binbuf.find? (fun e => e.1 = t) = some (t', part) → ¬ part.need ≤ part.got.length →
      part.need = (part.got ++ [v]).length → reconData part (part.got ++ [v]) = .error e →
      FrameCase dec cfg s t v (storeBin s t part v, [.raised e])
  /-- last attachment of a BINARY_EVENT -/
  | binEvent {t' : Eio} {part : Partial} {d : Option J} :
      s.binbuf.find? (fun e => e.1 = t) = some (t', part) → ¬ part.need ≤ part.got.length →
      part.need = (part.got ++ [v]).length → reconData part (part.got ++ [v]) = .ok d →
      part.pkt.type = BINARY_EVENT →
      FrameCase dec cfg s t v (handleEvent cfg (dropBin s t) t part.pkt.nsp part.pkt.id d)
  /-- last attachment of a BINARY_ACK -/
  | binAck {t' : Eio} {part : Partial} {d : Option J} :
      s.binbuf.find? (fun e => e.1 = t) = some (t', part) → ¬ part.need ≤ part.got.length →
      part.need = (part.got ++ [v]).length → reconData part (part.got ++ [v]) = .ok d →
      part.pkt.type ≠ BINARY_EVENT →
      FrameCase dec cfg s t v (handleAck (dropBin s t) t part.pkt.nsp part.pkt.id d)
  /-- an attachment that is not the last -/
  | more {t' : Eio} {part : Partial} :
      s.binbuf.find? (fun e => e.1 = t) = some (t', part) → ¬ part.need ≤ part.got.length →
      part.need ≠ (part.got ++ [v]).length → FrameCase dec cfg s t v (storeBin s t part v, [])
  /-- not decodable -/
  | undecodable {e : Err} : s.binbuf.find? (fun e => e.1 = t) = none →
      frameDecode dec v = .error e → FrameCase dec cfg s t v (s, [.raised e])
  /-- a packet -/
  | packet {p : Packet} {n : Nat} : s.binbuf.find? (fun e => e.1 = t) = none →
      frameDecode dec v = .ok (p, n) → FrameCase dec cfg s t v (dispatchPacket cfg s t p n)

theorem frameCase (dec : Str → Except Err (Packet × Nat)) (cfg : Cfg) (s : Srv) (t : Eio) (v : J) :
    FrameCase dec cfg s t v (handleFrame dec cfg s t v) := by
  unfold handleFrame
  split
  · rename_i t' part hf
    split
    · rename_i h1; exact .tooMany hf h1
    · rename_i h1
      dsimp only
      split
      · rename_i h2
        split
        · rename_i e he; exact .reconErr hf h1 h2 he
        · rename_i d hd
          split
          · rename_i h3; exact .binEvent hf h1 h2 hd h3
          · rename_i h3; exact .binAck hf h1 h2 hd h3
      · rename_i h2; exact .more hf h1 h2
  · rename_i hf
    dsimp only
    split
    · rename_i e he; exact .undecodable hf he
    · rename_i p n hp; exact .packet hf hp

inductive DispatchCase (cfg : Cfg) (s : Srv) (t : Eio) (p : Packet) (natt : Nat) :
    Srv × List Out → Prop where
  | connect : p.type = CONNECT → DispatchCase cfg s t p natt (handleConnect cfg s t p.nsp p.data)
  | disconnect : p.type = DISCONNECT →
      DispatchCase cfg s t p natt
        ((handleDisconnect cfg s t (p.nsp.getD ['/']) "client disconnect".toList).1,
         (handleDisconnect cfg s t (p.nsp.getD ['/']) "client disconnect".toList).2.1)
  | event : p.type = EVENT → DispatchCase cfg s t p natt (handleEvent cfg s t p.nsp p.id p.data)
  | ack : p.type = ACK → DispatchCase cfg s t p natt (handleAck s t p.nsp p.id p.data)
  | binHeader : (p.type = BINARY_EVENT ∨ p.type = BINARY_ACK) →
      DispatchCase cfg s t p natt ({ s with binbuf := s.binbuf ++ [(t, ⟨p, natt, []⟩)] }, [])
  | other : p.type ≠ CONNECT → p.type ≠ DISCONNECT → p.type ≠ EVENT → p.type ≠ ACK →
      p.type ≠ BINARY_EVENT → p.type ≠ BINARY_ACK →
      DispatchCase cfg s t p natt (s, [.raised .valueError])

theorem dispatchCase (cfg : Cfg) (s : Srv) (t : Eio) (p : Packet) (natt : Nat) :
    DispatchCase cfg s t p natt (dispatchPacket cfg s t p natt) := by
  unfold dispatchPacket
  split
  · rename_i h; exact .connect h
  · split
    · rename_i h; exact .disconnect h
    · split
      · rename_i h; exact .event h
      · split
        · rename_i h; exact .ack h
        · split
          · rename_i h; exact .binHeader (by simpa using h)
          · rename_i h1 h2 h3 h4 h5
            simp only [Bool.or_eq_true, decide_eq_true_eq, not_or] at h5
            exact .other h1 h2 h3 h4 h5.1 h5.2

end Sio.Server
