/-
  K4 — transport loss (property C11): after `_handle_eio_disconnect` nothing of the transport is
  left; the invariant "only open transports are mentioned" along histories in which engine.io
  delivers frames of open sockets only.
-/
import Sio.Lemmas.ServerBound
namespace Sio.Server
open Sio.Rooms

/-- under the invariant `_handle_disconnect` either finds no session of the transport on the
    namespace, or ends that session -/
theorem handleDisconnect_wf_state {s : Srv} (h : WF s) (cfg : Cfg) (t : Eio) (ns : Ns)
    (reason : Str) :
    (sidOf s.rooms ns t = none ∧ handleDisconnect cfg s t ns reason = (s, [], false)) ∨
    ∃ sid k, sidOf s.rooms ns t = some sid ∧
      (handleDisconnect cfg s t ns reason).1 = ending s sid ns k := by
  unfold handleDisconnect
  split
  · rename_i hs; exact Or.inl ⟨hs, rfl⟩
  · rename_i sid hs
    rw [isConnected_of_sidOf h hs]
    obtain ⟨k, hk⟩ := endSession_state cfg s sid ns reason false
    exact Or.inr ⟨sid, k, hs, hk⟩

/-- after `_handle_disconnect(t, ns)`: only old entries, none of `t` on `ns` -/
theorem handleDisconnect_rooms {s : Srv} (h : WF s) (cfg : Cfg) (t : Eio) (ns : Ns) (reason : Str) :
    ∀ e ∈ (handleDisconnect cfg s t ns reason).1.rooms, e ∈ s.rooms ∧ ¬ (e.ns = ns ∧ e.eio = t) := by
  intro e he
  rcases handleDisconnect_wf_state h cfg t ns reason with ⟨hs, h1⟩ | ⟨sid, k, hs, h1⟩
  · rw [h1] at he
    exact ⟨he, fun hh => h.rooms.no_entry_of_sidOf_none hs e he hh.1 hh.2⟩
  · rw [h1] at he
    simp only [ending, mgrDisconnect, Rooms.disconnect, List.mem_filter] at he
    refine ⟨he.1, fun hh => ?_⟩
    have := h.rooms.eioSid e he.1 _ (sidOf_some_mem hs) hh.1 hh.2
    simp only at this
    simp [hh.1, this] at he

theorem lostGo_rooms {s : Srv} (h : WF s) (cfg : Cfg) (t : Eio) (reason : Str) (outs : List Out)
    (nss : List Ns) :
    ∀ e ∈ (handleLost.go cfg t reason s outs nss).1.rooms, e ∈ s.rooms ∧ (e.eio = t → e.ns ∉ nss) := by
  induction nss generalizing s outs with
  | nil => intro e he; exact ⟨he, fun _ => by simp⟩
  | cons ns rest ih =>
    unfold handleLost.go
    intro e he
    obtain ⟨h1, h2⟩ := ih (h.handleDisconnect cfg t ns reason) _ e he
    obtain ⟨h3, h4⟩ := handleDisconnect_rooms h cfg t ns reason e h1
    refine ⟨h3, fun ht => ?_⟩
    simp only [List.mem_cons, not_or]
    exact ⟨fun hn => h4 ⟨hn, ht⟩, h2 ht⟩

theorem mem_namespacesOf {r : Rooms.St} {e : Entry} (he : e ∈ r) : e.ns ∈ namespacesOf r := by
  unfold namespacesOf
  rw [List.mem_eraseDups]
  exact List.mem_map.mpr ⟨e, he, rfl⟩

theorem view_lostGo {s : Srv} (h : WF s) (cfg : Cfg) (t : Eio) (reason : Str) (outs : List Out)
    (nss : List Ns) : view t (handleLost.go cfg t reason s outs nss).1 = view t s := by
  induction nss generalizing s outs with
  | nil => rfl
  | cons ns rest ih =>
    unfold handleLost.go
    exact (ih (h.handleDisconnect cfg t ns reason) _).trans (view_handleDisconnect h cfg t ns reason)

theorem not_onT_of_no_entry {r : Rooms.St} {t : Eio} (h : ∀ e ∈ r, e.eio ≠ t) (sid : Sid) :
    onT r t sid = false := by
  rw [Bool.eq_false_iff]
  intro hc
  obtain ⟨e, he, _, h2⟩ := onT_iff.mp hc
  exact h e he h2

/-- the state after the loss of an open transport, field by field (`eraseTransport`) -/
structure Erased (t : Eio) (s s' : Srv) : Prop where
  rooms : s'.rooms = s.rooms.filter (fun e => e.eio != t)
  pending : s'.pending = []
  cbs : s'.cbs = s.cbs.filter (fun c => !onT s.rooms t c.1)
  ctr : s'.ctr = s.ctr.filter (fun c => !onT s.rooms t c.1)
  environ : s'.environ = s.environ.filter (· != t)
  socks : s'.socks = s.socks.filter (· != t)
  binbuf : s'.binbuf = s.binbuf.filter (fun e => e.1 != t)
  sess : s'.sess = s.sess.filter (fun e => e.1 != t)

theorem erased_handleLost {s : Srv} (h : WF s) (cfg : Cfg) {t : Eio} (ht : t ∈ s.socks)
    (reason : Str) : Erased t s (handleLost cfg s t reason).1 := by
  rw [handleLost_eq]
  have hc : s.socks.contains t = true := List.contains_iff_mem.mpr ht
  simp only [hc, Bool.not_true, Bool.false_eq_true, if_false]
  generalize hg : (handleLost.go cfg t reason s [] (namespacesOf s.rooms)).1 = g
  have hw : WF g := hg ▸ h.lostGo cfg t reason [] _
  have hv : view t g = view t s := hg ▸ view_lostGo h cfg t reason [] _
  have hno : ∀ e ∈ g.rooms, e.eio ≠ t := by
    intro e he heq
    rw [← hg] at he
    obtain ⟨h1, h2⟩ := lostGo_rooms h cfg t reason [] _ e he
    exact h2 heq (mem_namespacesOf h1)
  have hself : g.rooms.filter (fun e => e.eio != t) = g.rooms := by
    rw [List.filter_eq_self]; intro e he; simp [hno e he]
  have hcb : g.cbs.filter (fun c => !onT g.rooms t c.1) = g.cbs := by
    rw [List.filter_eq_self]; intro c _; simp [not_onT_of_no_entry hno]
  have hct : g.ctr.filter (fun c => !onT g.rooms t c.1) = g.ctr := by
    rw [List.filter_eq_self]; intro c _; simp [not_onT_of_no_entry hno]
  have v1 : (view t g).rooms = (view t s).rooms := by rw [hv]
  have v2 : (view t g).cbs = (view t s).cbs := by rw [hv]
  have v3 : (view t g).ctr = (view t s).ctr := by rw [hv]
  have v4 : (view t g).environ = (view t s).environ := by rw [hv]
  have v5 : (view t g).socks = (view t s).socks := by rw [hv]
  have v6 : (view t g).binbuf = (view t s).binbuf := by rw [hv]
  have v7 : (view t g).sess = (view t s).sess := by rw [hv]
  simp only [view] at v1 v2 v3 v4 v5 v6 v7
  rw [hself] at v1
  rw [hcb] at v2
  rw [hct] at v3
  exact ⟨v1, hw.pendingNil, v2, v3, by simp only [dropTransport, v4],
    by simp only [dropTransport, v5], v6, v7⟩

theorem handleLost_closed (cfg : Cfg) {s : Srv} {t : Eio} (ht : t ∉ s.socks) (reason : Str) :
    handleLost cfg s t reason = (s, []) := by
  rw [handleLost_eq]
  simp [ht]

/-! ### only open transports are mentioned -/

/-- every transport that rooms or the reassembly buffer mention is open (sessions and `environ`
    are covered by `WF`) -/
structure Open (s : Srv) : Prop where
  rooms : ∀ e ∈ s.rooms, e.eio ∈ s.socks
  binbuf : ∀ e ∈ s.binbuf, e.1 ∈ s.socks

theorem Open.init : Open {} := ⟨by simp, by simp⟩

/-- a state change that keeps the socket table and mentions no new transport -/
theorem Open.of_sub {s s' : Srv} (h : Open s) (h1 : ∀ e ∈ s'.rooms, ∃ e' ∈ s.rooms, e'.eio = e.eio)
    (h2 : ∀ e ∈ s'.binbuf, e ∈ s.binbuf) (h3 : ∀ t ∈ s.socks, t ∈ s'.socks) : Open s' :=
  ⟨fun e he => by obtain ⟨e', he', hq⟩ := h1 e he; exact h3 _ (hq ▸ h.rooms e' he'),
   fun e he => h3 _ (h.binbuf e (h2 e he))⟩

theorem Open.frame {s : Srv} (ho : Open s) (h : WF s) (dec : Str → Except Err (Packet × Nat))
    (cfg : Cfg) {t : Eio} (ht : t ∈ s.socks) (v : J) : Open (handleFrame dec cfg s t v).1 := by
  have hv := view_handleFrame h dec cfg t v
  have v1 : (view t (handleFrame dec cfg s t v).1).rooms = (view t s).rooms := by rw [hv]
  have v5 : (view t (handleFrame dec cfg s t v).1).socks = (view t s).socks := by rw [hv]
  have v6 : (view t (handleFrame dec cfg s t v).1).binbuf = (view t s).binbuf := by rw [hv]
  simp only [view] at v1 v5 v6
  constructor
  · intro e he
    rw [v5]
    by_cases heq : e.eio = t
    · rw [heq]; exact ht
    · have : e ∈ (handleFrame dec cfg s t v).1.rooms.filter (fun e => e.eio != t) :=
        List.mem_filter.mpr ⟨he, by simp [heq]⟩
      rw [v1] at this
      exact ho.rooms e (List.mem_filter.mp this).1
  · intro e he
    rw [v5]
    by_cases heq : e.1 = t
    · rw [heq]; exact ht
    · have : e ∈ (handleFrame dec cfg s t v).1.binbuf.filter (fun e => e.1 != t) :=
        List.mem_filter.mpr ⟨he, by simp [heq]⟩
      rw [v6] at this
      exact ho.binbuf e (List.mem_filter.mp this).1

theorem Open.lost {s : Srv} (ho : Open s) (h : WF s) (cfg : Cfg) (t : Eio) (reason : Str) :
    Open (handleLost cfg s t reason).1 := by
  by_cases ht : t ∈ s.socks
  · have he := erased_handleLost h cfg ht reason
    constructor
    · intro e hm
      rw [he.rooms] at hm
      rw [he.socks]
      have := List.mem_filter.mp hm
      exact List.mem_filter.mpr ⟨ho.rooms e this.1, by simpa using this.2⟩
    · intro e hm
      rw [he.binbuf] at hm
      rw [he.socks]
      have := List.mem_filter.mp hm
      exact List.mem_filter.mpr ⟨ho.binbuf e this.1, by simpa using this.2⟩
  · rw [handleLost_closed cfg ht]; exact ho

/-- fields that `emit` never touches -/
structure Keeps (s s' : Srv) : Prop where
  rooms : s'.rooms = s.rooms
  binbuf : s'.binbuf = s.binbuf
  socks : s'.socks = s.socks
  sess : s'.sess = s.sess
  environ : s'.environ = s.environ
  pending : s'.pending = s.pending
  nextSid : s'.nextSid = s.nextSid

theorem Keeps.refl (s : Srv) : Keeps s s := ⟨rfl, rfl, rfl, rfl, rfl, rfl, rfl⟩

theorem Keeps.trans {a b c : Srv} (h1 : Keeps a b) (h2 : Keeps b c) : Keeps a c :=
  ⟨h2.rooms.trans h1.rooms, h2.binbuf.trans h1.binbuf, h2.socks.trans h1.socks,
    h2.sess.trans h1.sess, h2.environ.trans h1.environ, h2.pending.trans h1.pending,
    h2.nextSid.trans h1.nextSid⟩

theorem Open.keeps {s s' : Srv} (h : Open s) (k : Keeps s s') : Open s' :=
  ⟨by rw [k.rooms, k.socks]; exact h.rooms, by rw [k.binbuf, k.socks]; exact h.binbuf⟩

theorem emitFold_keeps (ns : Ns) (payload : List J) (tok : CbTok) (s : Srv) (o : List Out)
    (rs : List (Sid × Eio)) : Keeps s (rs.foldl (emitOne ns payload tok) (s, o)).1 := by
  induction rs generalizing s o with
  | nil => exact .refl s
  | cons r rs ih =>
    simp only [List.foldl_cons]
    exact Keeps.trans (b := (emitOne ns payload tok (s, o) r).1) ⟨rfl, rfl, rfl, rfl, rfl, rfl, rfl⟩
      (ih _ _)

theorem emit_keeps (s : Srv) (ev : Str) (d : Data) (ns : Ns) (to : Target) (skip : List Sid)
    (cb : Option CbTok) : Keeps s (emit s ev d ns to skip cb).1 := by
  cases cb with
  | none => rw [emit_nocb_state]; exact .refl s
  | some tok =>
    rw [emit_cb_eq]
    split
    · exact .refl s
    · exact emitFold_keeps ..

theorem callStart_keeps (s : Srv) (ev : Str) (d : Data) (ns : Ns) (sid : Sid) :
    Keeps s (callStart s ev d ns sid).1 :=
  Keeps.trans (b := { s with nCall := s.nCall + 1 }) ⟨rfl, rfl, rfl, rfl, rfl, rfl, rfl⟩
    (emit_keeps ..)

theorem sessSet_keeps (s : Srv) (t : Eio) (ns : Ns) (v : J) :
    (sessSet s t ns v).rooms = s.rooms ∧ (sessSet s t ns v).binbuf = s.binbuf ∧
    (sessSet s t ns v).socks = s.socks := by
  unfold sessSet; split <;> exact ⟨rfl, rfl, rfl⟩

theorem Open.sessSet {s : Srv} (ho : Open s) (t : Eio) (ns : Ns) (v : J) : Open (sessSet s t ns v) := by
  obtain ⟨a, b, c⟩ := sessSet_keeps s t ns v
  exact ⟨by rw [a, c]; exact ho.rooms, by rw [b, c]; exact ho.binbuf⟩

theorem drain_core (cfg : Cfg) (s : Srv) (outs : List Out) (bs : List Bg) :
    core (step.drain cfg s outs bs).1 = core s := by
  induction bs generalizing s outs with
  | nil => rfl
  | cons b rest ih =>
    unfold step.drain
    rw [ih, runHandler_core]

/-- engine.io delivers frames of open sockets only: the histories the "fresh" claim is about -/
inductive Adm (dec : Str → Except Err (Packet × Nat)) (cfg : Cfg) : Srv → List Input → Prop where
  | nil {s : Srv} : Adm dec cfg s []
  | frame {s : Srv} {t : Eio} {v : J} {is : List Input} : t ∈ s.socks →
      Adm dec cfg (step dec cfg s (.frame t v)).1 is → Adm dec cfg s (.frame t v :: is)
  | call {s : Srv} {ev : Str} {d : Data} {ns : Ns} {sid : Sid} {during is : List Input} :
      (cfg.asyncHandlers = true → Adm dec cfg (callStart s ev d ns sid).1 during) →
      Adm dec cfg (step dec cfg s (.call ev d ns sid during)).1 is →
      Adm dec cfg s (.call ev d ns sid during :: is)
  | other {s : Srv} {i : Input} {is : List Input} : (∀ t v, i ≠ .frame t v) →
      (∀ ev d ns sid during, i ≠ .call ev d ns sid during) →
      Adm dec cfg (step dec cfg s i).1 is → Adm dec cfg s (i :: is)

theorem Open.step_other {s : Srv} (ho : Open s) (h : WF s) (dec : Str → Except Err (Packet × Nat))
    (cfg : Cfg) {i : Input} (h1 : ∀ t v, i ≠ .frame t v)
    (h2 : ∀ ev d ns sid during, i ≠ .call ev d ns sid during) : Open (step dec cfg s i).1 := by
  cases i with
  | eioConnect t =>
    rw [step]
    exact ho.of_sub (fun e he => ⟨e, he, rfl⟩) (fun e he => he) (fun t' ht' => List.mem_append_left _ ht')
  | frame t v => exact absurd rfl (h1 t v)
  | eioLost t r => rw [step]; exact ho.lost h cfg t r
  | emit ev d ns to skip cb => rw [step]; exact ho.keeps (emit_keeps ..)
  | call ev d ns sid during => exact absurd rfl (h2 ev d ns sid during)
  | apiDisconnect sid ns =>
    rw [step]; unfold apiDisconnect
    split
    · exact ho
    · obtain ⟨k, hk⟩ := endSession_state cfg s sid ns "server disconnect".toList true
      rw [hk]
      exact ho.of_sub (fun e he => ⟨e, (List.mem_filter.mp he).1, rfl⟩) (fun e he => he)
        (fun t ht => ht)
  | enterRoom sid ns room =>
    rw [step]
    split
    · rename_i r he
      obtain ⟨eio, hq, hm⟩ := mem_enter he
      refine ho.of_sub ?_ (fun e he => he) (fun t ht => ht)
      intro e hm'
      rcases (hm e).mp hm' with h3 | rfl
      · exact ⟨e, h3, rfl⟩
      · exact ⟨_, eioOf_some_mem hq, rfl⟩
    · exact ho
  | leaveRoom sid ns room =>
    rw [step]
    exact ho.of_sub (fun e he => ⟨e, (List.mem_filter.mp he).1, rfl⟩) (fun e he => he)
      (fun t ht => ht)
  | closeRoom ns room =>
    rw [step]
    exact ho.of_sub (fun e he => ⟨e, (List.mem_filter.mp he).1, rfl⟩) (fun e he => he)
      (fun t ht => ht)
  | rooms sid ns => rw [step]; exact ho
  | getSession sid ns =>
    rw [step]
    split
    · exact ho
    · split
      · exact ho
      · exact ho.sessSet ..
  | saveSession sid ns v =>
    rw [step]
    split
    · exact ho
    · exact ho.sessSet ..
  | sessionBlock sid ns k v =>
    rw [step]
    split
    · exact ho
    · dsimp only; exact ho.sessSet ..
  | settle =>
    rw [step]
    have hc := core_fields (drain_core cfg { s with bg := [] } [] s.bg)
    exact ⟨by rw [hc.rooms, hc.socks]; exact ho.rooms, by rw [hc.binbuf, hc.socks]; exact ho.binbuf⟩

/-- along an admissible history only open transports are mentioned -/
theorem Open.run {dec : Str → Except Err (Packet × Nat)} {cfg : Cfg} {s : Srv} {is : List Input}
    (ha : Adm dec cfg s is) (ho : Open s) (h : WF s) : Open (run dec cfg s is).1 := by
  induction ha with
  | nil => rw [run_nil]; exact ho
  | @frame s t v is ht _ ih =>
    rw [run_cons]
    have h1 : Open (step dec cfg s (.frame t v)).1 := by rw [step]; exact ho.frame h dec cfg ht v
    exact ih h1 (h.step dec cfg _)
  | @call s ev d ns sid during is _ _ ih1 ih2 =>
    rw [run_cons]
    refine ih2 ?_ (h.step dec cfg _)
    rw [step_call]
    split
    · exact ho
    · rename_i hc
      exact ih1 (by simpa using hc) (ho.keeps (callStart_keeps ..)) (h.callStart ev d ns sid)
  | other h1 h2 _ ih =>
    rw [run_cons]
    exact ih (ho.step_other h dec cfg h1 h2) (h.step dec cfg _)

end Sio.Server
