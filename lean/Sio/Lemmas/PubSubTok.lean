/-
  Helper lemmas for K6 (pub/sub): where the user callback `tok` is stored, and when it is invoked.
  The listener never creates a user entry; `trigger_callback` removes an entry before it invokes it.
-/
import Sio.Lemmas.PubSubRunOps
namespace Sio.PubSub
open Sio.Rooms

def isCbTok (tok : Nat) : Out → Bool
  | .callback _ t _ => t == tok
  | _ => false

/-- how often the application callback `tok` is invoked in `outs` -/
def cbCount (tok : Nat) (outs : List Out) : Nat := outs.countP (isCbTok tok)

theorem cbCount_append (tok : Nat) (a b : List Out) : cbCount tok (a ++ b) = cbCount tok a + cbCount tok b := by
  simp [cbCount, List.countP_append]

/-- every invocation of `tok` in `outs` happens on host `v` -/
def CbOn (tok : Nat) (v : HostId) (outs : List Out) : Prop :=
  ∀ o ∈ outs, ∀ host args, o = Out.callback host tok args → host = v

theorem CbOn.append {tok : Nat} {v : HostId} {a b : List Out} (ha : CbOn tok v a) (hb : CbOn tok v b) :
    CbOn tok v (a ++ b) := by
  intro o ho
  rcases List.mem_append.mp ho with h | h
  · exact ha o h
  · exact hb o h

theorem CbOn.of_count_zero {tok : Nat} {v : HostId} {a : List Out} (h : cbCount tok a = 0) : CbOn tok v a := by
  intro o ho host args he
  subst he
  have := (List.countP_eq_zero.mp h) _ ho
  simp [isCbTok] at this

/-- `h1`'s user entries for `tok` are among `h0`'s -/
def UserSub (tok : Nat) (h1 h0 : Host) : Prop :=
  ∀ k i, h1.cbs k i = some (.user tok) → h0.cbs k i = some (.user tok)

theorem UserSub.refl (tok : Nat) (h : Host) : UserSub tok h h := fun _ _ hx => hx
theorem UserSub.trans {tok : Nat} {a b c : Host} (h1 : UserSub tok a b) (h2 : UserSub tok b c) :
    UserSub tok a c := fun k i hx => h2 k i (h1 k i hx)

theorem register_userSub (tok : Nat) (h : Host) (key : Str) (cb : Cb) (hne : cb ≠ .user tok) :
    UserSub tok (register h key cb).1 h := by
  intro k i hx
  simp only [register] at hx
  split at hx
  · exact absurd (Option.some.inj hx) hne
  · exact hx

theorem sendCb_userSub (tok : Nat) (cb : Cb) (hne : cb ≠ .user tok) (ns : Ns) (ev : J) (args : List J)
    (h : Host) (l : List (Sid × Eio)) : UserSub tok (sendCb cb ns ev args h l).1 h ∧
      cbCount tok (sendCb cb ns ev args h l).2 = 0 := by
  induction l generalizing h with
  | nil => exact ⟨UserSub.refl tok h, rfl⟩
  | cons p ps ih =>
    simp only [sendCb]
    have := ih (register h p.1 cb).1
    exact ⟨this.1.trans (register_userSub tok h p.1 cb hne), by simpa [cbCount, isCbTok] using this.2⟩

theorem emitLocal_userSub (tok : Nat) (h : Host) (ns : Ns) (t : Target) (skip : List Sid) (ev : J)
    (args : List J) (cb : Option Cb) (hne : cb ≠ some (.user tok)) :
    UserSub tok (emitLocal h ns t skip ev args cb).1 h ∧
    cbCount tok (emitLocal h ns t skip ev args cb).2 = 0 := by
  unfold emitLocal
  split
  · exact ⟨UserSub.refl tok h, rfl⟩
  · cases cb with
    | none =>
      refine ⟨UserSub.refl tok h, ?_⟩
      simp only [cbCount]
      rw [List.countP_eq_zero]
      intro o ho
      obtain ⟨p, _, rfl⟩ := List.mem_map.mp ho
      simp [isCbTok]
    | some c => exact sendCb_userSub tok c (fun hc => hne (by rw [hc])) ns ev args h _

theorem tok_quiet (tok : Nat) (h : Host) (r : Res) (h1 : UserSub tok r.h h) (h2 : cbCount tok r.outs = 0) :
    UserSub tok r.h h ∧ cbCount tok r.outs ≤ 1 ∧ CbOn tok h.id r.outs ∧
    (cbCount tok r.outs = 1 → ∃ k i, h.cbs k i = some (.user tok) ∧ r.h.cbs k i = none) :=
  ⟨h1, by omega, CbOn.of_count_zero h2, fun hc => by omega⟩

/-- `trigger_callback`: entries only disappear; `tok` is invoked at most once, on this host, and
    only if it was stored here — and then the slot it was stored in is empty afterwards -/
theorem trigger_tok (tok : Nat) (fuel : Nat) (h : Host) (key : Str) (id : Nat) (args : Option (List J)) :
    UserSub tok (trigger fuel h key id args).h h ∧
    cbCount tok (trigger fuel h key id args).outs ≤ 1 ∧
    CbOn tok h.id (trigger fuel h key id args).outs ∧
    (cbCount tok (trigger fuel h key id args).outs = 1 →
      ∃ k i, h.cbs k i = some (.user tok) ∧ (trigger fuel h key id args).h.cbs k i = none) := by
  induction fuel generalizing h key id with
  | zero =>
    exact tok_quiet tok h { h := h } (UserSub.refl tok h) rfl
  | succ n ih =>
    unfold trigger
    split
    · exact tok_quiet tok h { h := h } (UserSub.refl tok h) rfl
    · rename_i cb hcb
      have hdel : UserSub tok { h with cbs := fun k j => if k = key ∧ j = id then none else h.cbs k j } h := by
        intro k i hx
        simp only at hx
        split at hx
        · cases hx
        · exact hx
      cases args with
      | none => exact tok_quiet tok h { h := _, err := some .typeError } hdel rfl
      | some xs =>
        cases cb with
        | user t =>
          refine ⟨hdel, ?_, ?_, ?_⟩
          · simp only [cbCount, List.countP_cons, List.countP_nil]; split <;> omega
          · intro o ho host args' he
            simp only [List.mem_singleton] at ho
            subst ho; cases he; rfl
          · intro hc
            have ht : t = tok := by
              simp only [cbCount, List.countP_cons, List.countP_nil, isCbTok] at hc
              by_cases htt : t = tok
              · exact htt
              · simp [htt] at hc
            subst ht
            exact ⟨key, id, hcb, by simp⟩
        | relay origin key' ns' id' =>
          simp only
          split
          · obtain ⟨i1, i2, i3, i4⟩ := ih { h with cbs := fun k j => if k = key ∧ j = id then none else h.cbs k j } key' id'
            refine ⟨i1.trans hdel, i2, i3, ?_⟩
            intro hc
            obtain ⟨k, i, hk1, hk2⟩ := i4 hc
            exact ⟨k, i, hdel k i hk1, hk2⟩
          · exact tok_quiet tok h { h := _, pubs := _ } hdel rfl

theorem dropSid_userSub (tok : Nat) (h : Host) (ns : Ns) (sid : Sid) : UserSub tok (dropSid h ns sid) h := by
  intro k i hx
  simp only [dropSid] at hx
  split at hx
  · cases hx
  · exact hx

theorem localDisconnect_tok (tok : Nat) (h : Host) (sid : Sid) (ns : Ns) :
    UserSub tok (localDisconnect h sid ns).h h ∧ cbCount tok (localDisconnect h sid ns).outs = 0 := by
  unfold localDisconnect
  split
  · exact ⟨UserSub.refl tok h, rfl⟩
  · exact ⟨dropSid_userSub tok h ns sid, by simp [cbCount, isCbTok]⟩

/-- one well-formed entry through the listener, as far as `tok` is concerned -/
theorem listenMsg_tok (tok : Nat) (h : Host) (m : Msg)
    (hok : ∀ o ev d ns to skip cb, m = .emit o ev d ns to skip cb → Target.ok to) :
    UserSub tok (listenMsg h m).h h ∧ cbCount tok (listenMsg h m).outs ≤ 1 ∧
    CbOn tok h.id (listenMsg h m).outs ∧
    (cbCount tok (listenMsg h m).outs = 1 →
      ∃ k i, h.cbs k i = some (.user tok) ∧ (listenMsg h m).h.cbs k i = none) := by
  have quiet : ∀ r : Res, UserSub tok r.h h → cbCount tok r.outs = 0 →
      UserSub tok r.h h ∧ cbCount tok r.outs ≤ 1 ∧ CbOn tok h.id r.outs ∧
      (cbCount tok r.outs = 1 → ∃ k i, h.cbs k i = some (.user tok) ∧ r.h.cbs k i = none) :=
    fun r h1 h2 => ⟨h1, by omega, CbOn.of_count_zero h2, fun hc => by omega⟩
  cases m with
  | callback origin key ns id args =>
    rw [listenMsg_callback]
    split
    · exact trigger_tok tok chainFuel h key id (some args)
    · exact quiet { h := h } (UserSub.refl tok h) rfl
  | emit o ev d ns to skip cb =>
    by_cases ho : o = h.id
    · rw [listenMsg_own h _ rfl (by simp [Msg.origin, ho])]
      exact quiet { h := h } (UserSub.refl tok h) rfl
    · have hd := dispatch_emit h o ev d ns to skip cb ho (hok o ev d ns to skip cb rfl)
      rw [listenMsg_eq_dispatch (by rw [hd]), hd]
      have hne : relayOf o cb ≠ some (.user tok) := by
        cases cb with
        | none => simp [relayOf]
        | some c => obtain ⟨k, n, i⟩ := c; simp [relayOf]
      have := emitLocal_userSub tok h ns to skip.toList (.str ev) d.pack (relayOf o cb) hne
      exact quiet _ this.1 this.2
  | disconnect o sid ns =>
    by_cases ho : o = h.id
    · rw [listenMsg_own h _ rfl (by simp [Msg.origin, ho])]
      exact quiet { h := h } (UserSub.refl tok h) rfl
    · have hd := dispatch_disconnect h o sid ns ho
      have he : (localDisconnect h sid ns).err = none := by unfold localDisconnect; split <;> rfl
      rw [listenMsg_eq_dispatch (by rw [hd]; exact he), hd]
      have := localDisconnect_tok tok h sid ns
      exact quiet _ this.1 this.2
  | enterRoom o sid ns room =>
    by_cases ho : o = h.id
    · rw [listenMsg_own h _ rfl (by simp [Msg.origin, ho])]
      exact quiet { h := h } (UserSub.refl tok h) rfl
    · have hd := dispatch_enterRoom h o sid ns room ho
      have he : (dispatch h (Msg.enterRoom o sid ns room).toD).err = none := by rw [hd]; split <;> rfl
      rw [listenMsg_eq_dispatch he, hd]
      split
      · exact quiet _ (fun _ _ hx => hx) rfl
      · exact quiet _ (UserSub.refl tok h) rfl
  | leaveRoom o sid ns room =>
    by_cases ho : o = h.id
    · rw [listenMsg_own h _ rfl (by simp [Msg.origin, ho])]
      exact quiet { h := h } (UserSub.refl tok h) rfl
    · have hd := dispatch_leaveRoom h o sid ns room ho
      have he : (dispatch h (Msg.leaveRoom o sid ns room).toD).err = none := by rw [hd]; split <;> rfl
      rw [listenMsg_eq_dispatch he, hd]
      split
      · exact quiet _ (fun _ _ hx => hx) rfl
      · exact quiet _ (UserSub.refl tok h) rfl
  | closeRoom o ns room =>
    by_cases ho : o = h.id
    · rw [listenMsg_own h _ rfl (by simp [Msg.origin, ho])]
      exact quiet { h := h } (UserSub.refl tok h) rfl
    · have hd := dispatch_closeRoom h o ns room ho
      rw [listenMsg_eq_dispatch (by rw [hd]), hd]
      exact quiet _ (fun _ _ hx => hx) rfl

/-! ### a batch, a drain pass -/

/-- every user entry for `tok` on `h` sits in slot `(k, i)` -/
def OneSlot (tok : Nat) (h : Host) (k : Str) (i : Nat) : Prop :=
  ∀ k' i', h.cbs k' i' = some (.user tok) → k' = k ∧ i' = i

/-- `h` stores no user entry for `tok` -/
def NoTokH (tok : Nat) (h : Host) : Prop := ∀ k i, h.cbs k i ≠ some (.user tok)

theorem NoTokH.oneSlot {tok : Nat} {h : Host} (hn : NoTokH tok h) (k : Str) (i : Nat) : OneSlot tok h k i :=
  fun k' i' hx => absurd hx (hn k' i')

theorem NoTokH.sub {tok : Nat} {h1 h0 : Host} (hn : NoTokH tok h0) (hs : UserSub tok h1 h0) : NoTokH tok h1 :=
  fun k i hx => hn k i (hs k i hx)

theorem OneSlot.sub {tok : Nat} {h1 h0 : Host} {k : Str} {i : Nat} (ho : OneSlot tok h0 k i)
    (hs : UserSub tok h1 h0) : OneSlot tok h1 k i := fun k' i' hx => ho k' i' (hs k' i' hx)

theorem listenMsg_keeps (h : Host) (hinv : Inv h.rooms) (m : Msg)
    (hok : ∀ o ev d ns to skip cb, m = .emit o ev d ns to skip cb → Target.ok to) :
    (listenMsg h m).h.id = h.id ∧ Inv (listenMsg h m).h.rooms := by
  cases hcb : m.isCb with
  | true =>
    obtain ⟨e1, e2, _⟩ := listenMsg_cb_effect h m hcb
    exact ⟨e2, by rw [e1]; exact hinv⟩
  | false =>
    obtain ⟨e1, e2, _⟩ := listenMsg_effect h hinv m hcb hok
    exact ⟨e2, by rw [e1]; exact inv_roomsAfter h.id hinv m⟩

theorem catchUp_tok (tok : Nat) (h : Host) (hinv : Inv h.rooms) (ms : List Msg) (hok : EmitsOk ms)
    (k : Str) (i : Nat) (hs : OneSlot tok h k i) :
    UserSub tok (catchUp h ms).h h ∧ cbCount tok (catchUp h ms).outs ≤ 1 ∧
    CbOn tok h.id (catchUp h ms).outs ∧
    (cbCount tok (catchUp h ms).outs = 1 → NoTokH tok (catchUp h ms).h) ∧
    (NoTokH tok h → cbCount tok (catchUp h ms).outs = 0) := by
  induction ms generalizing h with
  | nil =>
    refine ⟨UserSub.refl tok h, by simp [catchUp, cbCount], CbOn.of_count_zero rfl, ?_, fun _ => rfl⟩
    intro hc; simp [catchUp, cbCount] at hc
  | cons m ms ih =>
    have hokm := hok m List.mem_cons_self
    have hok' : EmitsOk ms := fun x hx => hok x (List.mem_cons_of_mem _ hx)
    obtain ⟨l1, l2, l3, l4⟩ := listenMsg_tok tok h m hokm
    obtain ⟨kid, kinv⟩ := listenMsg_keeps h hinv m hokm
    obtain ⟨i1, i2, i3, i4, i5⟩ := ih (listenMsg h m).h kinv hok' (hs.sub l1)
    simp only [catchUp]
    rw [cbCount_append]
    rw [kid] at i3
    -- after an invocation the entry is gone, so the rest of the batch cannot invoke it again
    have hgone : cbCount tok (listenMsg h m).outs = 1 → NoTokH tok (listenMsg h m).h := by
      intro hc
      obtain ⟨k0, i0, hk1, hk2⟩ := l4 hc
      obtain ⟨rfl, rfl⟩ := hs k0 i0 hk1
      intro k' i' hx
      obtain ⟨rfl, rfl⟩ := hs k' i' (l1 k' i' hx)
      rw [hk2] at hx; cases hx
    refine ⟨i1.trans l1, ?_, l3.append i3, ?_, ?_⟩
    · by_cases hc : cbCount tok (listenMsg h m).outs = 1
      · have := i5 (hgone hc); omega
      · omega
    · intro hc
      by_cases hc1 : cbCount tok (listenMsg h m).outs = 1
      · exact (hgone hc1).sub i1
      · exact i4 (by omega)
    · intro hn
      have h0 : cbCount tok (listenMsg h m).outs = 0 := by
        by_cases hc : cbCount tok (listenMsg h m).outs = 1
        · obtain ⟨k0, i0, hk1, _⟩ := l4 hc
          exact absurd hk1 (hn k0 i0)
        · omega
      have := i5 (hn.sub l1)
      omega

theorem deliverOn_tok (tok : Nat) (chan : List Msg) (n : Nat) (h : Host) (hinv : Inv h.rooms)
    (hok : EmitsOk chan) (k : Str) (i : Nat) (hs : OneSlot tok h k i) :
    UserSub tok (deliverOn chan n h).h h ∧ cbCount tok (deliverOn chan n h).outs ≤ 1 ∧
    CbOn tok h.id (deliverOn chan n h).outs ∧
    (cbCount tok (deliverOn chan n h).outs = 1 → NoTokH tok (deliverOn chan n h).h) ∧
    (NoTokH tok h → cbCount tok (deliverOn chan n h).outs = 0) := by
  have hok' : EmitsOk ((chan.drop h.cursor).take n) :=
    hok.sub (fun m hm => List.mem_of_mem_drop (List.mem_of_mem_take hm))
  obtain ⟨c1, c2, c3, c4, c5⟩ := catchUp_tok tok h hinv _ hok' k i hs
  exact ⟨fun k' i' hx => c1 k' i' hx, c2, c3, fun hc k' i' hx => c4 hc k' i' hx, c5⟩

/-- what the hosts know about `tok`: nothing, except (possibly) host `v` in slot `(k, i)` -/
def TokAt (tok : Nat) (v : HostId) (k : Str) (i : Nat) (hosts : List Host) : Prop :=
  ∀ h ∈ hosts, (h.id = v → OneSlot tok h k i) ∧ (h.id ≠ v → NoTokH tok h)

def TokNowhere (tok : Nat) (hosts : List Host) : Prop := ∀ h ∈ hosts, NoTokH tok h

theorem TokNowhere.tokAt {tok : Nat} {hosts : List Host} (h : TokNowhere tok hosts) (v : HostId) (k : Str)
    (i : Nat) : TokAt tok v k i hosts :=
  fun x hx => ⟨fun _ => (h x hx).oneSlot k i, fun _ => h x hx⟩

theorem drainHosts_tok (tok : Nat) (v : HostId) (k : Str) (i : Nat) (chan : List Msg) (hosts : List Host)
    (hinv : ∀ h ∈ hosts, Inv h.rooms) (hcur : ∀ h ∈ hosts, h.cursor ≤ chan.length) (hok : EmitsOk chan)
    (hnd : (hosts.map Host.id).Nodup) (ht : TokAt tok v k i hosts) :
    TokAt tok v k i (drainHosts chan hosts).1 ∧ cbCount tok (drainHosts chan hosts).2.1 ≤ 1 ∧
    CbOn tok v (drainHosts chan hosts).2.1 ∧
    (cbCount tok (drainHosts chan hosts).2.1 = 1 → TokNowhere tok (drainHosts chan hosts).1) ∧
    (TokNowhere tok hosts → cbCount tok (drainHosts chan hosts).2.1 = 0 ∧
      TokNowhere tok (drainHosts chan hosts).1) := by
  induction hosts generalizing chan with
  | nil =>
    refine ⟨fun h hh => (nomatch hh), by simp [drainHosts, cbCount], CbOn.of_count_zero rfl, ?_, ?_⟩
    · intro hc; simp [drainHosts, cbCount] at hc
    · intro _; exact ⟨rfl, fun h hh => (nomatch hh)⟩
  | cons h hs ih =>
    simp only [List.map_cons, List.nodup_cons] at hnd
    have hinvh := hinv h List.mem_cons_self
    obtain ⟨e1, e2, e3, e4, _⟩ := deliverOn_all chan h hinvh (hcur h List.mem_cons_self) hok
    have hslot : OneSlot tok h k i := by
      by_cases hv : h.id = v
      · exact (ht h List.mem_cons_self).1 hv
      · exact ((ht h List.mem_cons_self).2 hv).oneSlot k i
    obtain ⟨d1, d2, d3, d4, d5⟩ := deliverOn_tok tok chan chan.length h hinvh hok k i hslot
    have hok' : EmitsOk (chan ++ (deliverOn chan chan.length h).pubs) := hok.append (EmitsOk.of_allCb e4)
    have hcur' : ∀ x ∈ hs, x.cursor ≤ (chan ++ (deliverOn chan chan.length h).pubs).length := by
      intro x hx
      have := hcur x (List.mem_cons_of_mem _ hx)
      simp only [List.length_append]; omega
    have ht' : TokAt tok v k i hs := fun x hx => ht x (List.mem_cons_of_mem _ hx)
    obtain ⟨r1, r2, r3, r4, r5⟩ := ih (chan ++ (deliverOn chan chan.length h).pubs)
      (fun x hx => hinv x (List.mem_cons_of_mem _ hx)) hcur' hok' hnd.2 ht'
    simp only [drainHosts]
    rw [cbCount_append]
    have hhead : (deliverOn chan chan.length h).h.id = h.id := e2
    by_cases hv : h.id = v
    · -- the head is host `v`; nobody in the tail is
      have htail : TokNowhere tok hs := by
        intro x hx
        have hne : x.id ≠ v := fun he => hnd.1 (by rw [hv, ← he]; exact List.mem_map_of_mem hx)
        exact (ht x (List.mem_cons_of_mem _ hx)).2 hne
      obtain ⟨t1, t2⟩ := r5 htail
      refine ⟨?_, by omega, ?_, ?_, ?_⟩
      · intro x hx
        rcases List.mem_cons.mp hx with rfl | hx'
        · exact ⟨fun _ => hslot.sub d1, fun hne => absurd (hhead.trans hv) hne⟩
        · exact r1 x hx'
      · exact (hv ▸ d3).append r3
      · intro hc
        have hc1 : cbCount tok (deliverOn chan chan.length h).outs = 1 := by omega
        intro x hx
        rcases List.mem_cons.mp hx with rfl | hx'
        · exact d4 hc1
        · exact t2 x hx'
      · intro hno
        have := d5 (hno h List.mem_cons_self)
        refine ⟨by omega, ?_⟩
        intro x hx
        rcases List.mem_cons.mp hx with rfl | hx'
        · exact (hno h List.mem_cons_self).sub d1
        · exact t2 x hx'
    · have hnh : NoTokH tok h := (ht h List.mem_cons_self).2 hv
      have h0 := d5 hnh
      refine ⟨?_, by omega, ?_, ?_, ?_⟩
      · intro x hx
        rcases List.mem_cons.mp hx with rfl | hx'
        · exact ⟨fun he => absurd (hhead.symm.trans he) hv, fun _ => hnh.sub d1⟩
        · exact r1 x hx'
      · exact (CbOn.of_count_zero h0).append r3
      · intro hc
        have hc1 : cbCount tok (drainHosts (chan ++ (deliverOn chan chan.length h).pubs) hs).2.1 = 1 := by omega
        intro x hx
        rcases List.mem_cons.mp hx with rfl | hx'
        · exact hnh.sub d1
        · exact r4 hc1 x hx'
      · intro hno
        obtain ⟨t1, t2⟩ := r5 (fun x hx => hno x (List.mem_cons_of_mem _ hx))
        refine ⟨by omega, ?_⟩
        intro x hx
        rcases List.mem_cons.mp hx with rfl | hx'
        · exact hnh.sub d1
        · exact t2 x hx'

end Sio.PubSub
