/-
  K4 — what each handler of the server core does to the state (one characterisation lemma per
  handler), and from these: every input preserves the invariant `WF`, for every decoder,
  configuration and script; hence `WF` holds along any history.
-/
import Sio.Lemmas.ServerInv
namespace Sio.Server
open Sio.Rooms


/-- the state in which `basic_disconnect` runs at the end of a disconnect path -/
def ending (s : Srv) (sid : Sid) (ns : Ns) (k : Nat) : Srv :=
  mgrDisconnect { s with pending := s.pending ++ [(ns, sid)], nDisc := s.nDisc + k } sid ns

theorem endSession_state (cfg : Cfg) (s : Srv) (sid : Sid) (ns : Ns) (reason : Str) (b : Bool) :
    ∃ k, (endSession cfg s sid ns reason b).1 = ending s sid ns k := by
  unfold endSession ending
  dsimp only
  split
  · exact ⟨0, rfl⟩
  · rename_i r _
    cases r <;> dsimp only
    · cases cfg.script.onDisconnect s.nDisc
      · exact ⟨1, rfl⟩
      · exact ⟨1, rfl⟩
    · cases cfg.script.onDisconnect s.nDisc
      · exact ⟨1, rfl⟩
      · exact ⟨1, rfl⟩
    · exact ⟨0, rfl⟩
    · exact ⟨0, rfl⟩

theorem WF.ending {s : Srv} (h : WF s) (sid : Sid) (ns : Ns) (k : Nat) : WF (ending s sid ns k) := by
  have h1 : WF0 { s with pending := s.pending ++ [(ns, sid)], nDisc := s.nDisc + k } :=
    (h.toWF0.set_pending (s.pending ++ [(ns, sid)])).of_core rfl
  refine ⟨h1.mgrDisconnect sid ns, ?_⟩
  simp [Server.ending, Server.mgrDisconnect, h.pendingNil]

theorem WF.endSession {s : Srv} (h : WF s) (cfg : Cfg) (sid : Sid) (ns : Ns) (reason : Str) (b : Bool) :
    WF (endSession cfg s sid ns reason b).1 := by
  obtain ⟨k, hk⟩ := endSession_state cfg s sid ns reason b
  rw [hk]; exact h.ending sid ns k

theorem handleDisconnect_state (cfg : Cfg) (s : Srv) (t : Eio) (ns : Ns) (reason : Str) :
    (handleDisconnect cfg s t ns reason).1 = s ∧ (handleDisconnect cfg s t ns reason).2.1 = [] ∨
    ∃ sid k, sidOf s.rooms ns t = some sid ∧ isConnected s sid ns = true ∧
      (handleDisconnect cfg s t ns reason).1 = ending s sid ns k := by
  unfold handleDisconnect
  split
  · exact Or.inl ⟨rfl, rfl⟩
  · rename_i sid hs
    split
    · exact Or.inl ⟨rfl, rfl⟩
    · rename_i hc
      obtain ⟨k, hk⟩ := endSession_state cfg s sid ns reason false
      exact Or.inr ⟨sid, k, hs, by simpa using hc, hk⟩

theorem WF.handleDisconnect {s : Srv} (h : WF s) (cfg : Cfg) (t : Eio) (ns : Ns) (reason : Str) :
    WF (handleDisconnect cfg s t ns reason).1 := by
  rcases handleDisconnect_state cfg s t ns reason with ⟨h1, _⟩ | ⟨sid, k, _, _, h1⟩
  · rw [h1]; exact h
  · rw [h1]; exact h.ending sid ns k



theorem disconnect_add (r : Rooms.St) (e : Entry) :
    Rooms.disconnect (Rooms.add r e) e.ns e.sid = Rooms.disconnect r e.ns e.sid := by
  unfold Rooms.add Rooms.disconnect
  split
  · rfl
  · simp [List.filter_append]

theorem disconnect_eq_self {r : Rooms.St} {ns : Ns} {sid : Sid} (h : ∀ e ∈ r, e.sid ≠ sid) :
    Rooms.disconnect r ns sid = r := by
  unfold Rooms.disconnect
  rw [List.filter_eq_self]
  intro e he
  simp [h e he]

theorem connect_disconnect {r r' : Rooms.St} {ns : Ns} {t : Eio} {sid : Sid}
    (hc : Rooms.connect r ns t sid = some r') (h : ∀ e ∈ r, e.sid ≠ sid) :
    Rooms.disconnect r' ns sid = r := by
  unfold Rooms.connect at hc
  split at hc
  · cases hc
  · cases hc
    have h1 := disconnect_add (Rooms.add r ⟨ns, none, sid, t⟩) ⟨ns, some sid, sid, t⟩
    have h2 := disconnect_add r ⟨ns, none, sid, t⟩
    simp only at h1 h2
    rw [h1, h2, disconnect_eq_self h]

theorem filter_sid_ne_self {α : Type} {l : List (Sid × α)} {sid : Sid} (h : ∀ c ∈ l, c.1 ≠ sid) :
    l.filter (fun c => c.1 != sid) = l := by
  rw [List.filter_eq_self]
  intro c hc
  simp [h c hc]

theorem sid_ne_fresh {s : Srv} (h : WF0 s) {sid : Sid} (hl : sidLive s.rooms sid) :
    sid ≠ sidName s.nextSid := by
  obtain ⟨ns, eio, he⟩ := hl
  obtain ⟨k, hk, hs⟩ := h.sidAlloc _ he
  intro heq
  have := sidName_inj (hs.symm.trans heq)
  omega

/-- the state after a refused connection, before simplification -/
def refusedSt (s : Srv) (rooms' : Rooms.St) (ns : Ns) (k : Nat) (p : List (Ns × Sid)) : Srv :=
  mgrDisconnect { connected s rooms' with nConn := s.nConn + k, pending := p } (sidName s.nextSid) ns

theorem refusedSt_eq {s : Srv} (h : WF0 s) {ns : Ns} {t : Eio} {rooms' : Rooms.St}
    (hc : Rooms.connect s.rooms ns t (sidName s.nextSid) = some rooms') (k : Nat)
    (p : List (Ns × Sid)) :
    refusedSt s rooms' ns k p =
      { s with nextSid := s.nextSid + 1, nConn := s.nConn + k,
               pending := p.filter (fun q => !(q.1 = ns ∧ q.2 = sidName s.nextSid)) } := by
  have h1 : Rooms.disconnect rooms' ns (sidName s.nextSid) = s.rooms :=
    connect_disconnect hc (fun e he => sid_ne_fresh h (sidLive_of_mem h.rooms he))
  have h2 := filter_sid_ne_self (l := s.cbs) (sid := sidName s.nextSid)
    (fun c hc => sid_ne_fresh h (h.cbsLive c hc))
  have h3 := filter_sid_ne_self (l := s.ctr) (sid := sidName s.nextSid)
    (fun c hc => sid_ne_fresh h (h.ctrLive c hc))
  simp only [refusedSt, Server.mgrDisconnect, connected, h1, h2, h3]

theorem handleConnect_state (cfg : Cfg) (s : Srv) (t : Eio) (nsp : Option Str) (data : Option J) :
    (handleConnect cfg s t nsp data).1 = s ∨
    ∃ rooms' k, isServed cfg (nsp.getD ['/']) = true ∧
      Rooms.connect s.rooms (nsp.getD ['/']) t (sidName s.nextSid) = some rooms' ∧
      ((handleConnect cfg s t nsp data).1 = { connected s rooms' with nConn := s.nConn + k } ∨
       ∃ p, (p = s.pending ∨ p = s.pending ++ [(nsp.getD ['/'], sidName s.nextSid)]) ∧
        (handleConnect cfg s t nsp data).1 = refusedSt s rooms' (nsp.getD ['/']) k p) := by
  unfold handleConnect
  dsimp only
  split
  · exact Or.inl rfl
  · rename_i rooms' hc
    right
    have hserved : isServed cfg (nsp.getD ['/']) = true ∧
        Rooms.connect s.rooms (nsp.getD ['/']) t (sidName s.nextSid) = some rooms' := by
      split at hc
      · rename_i h; exact ⟨h, hc⟩
      · cases hc
    refine ⟨rooms', ?_⟩
    have hrej : ∀ (o1 o2 : List Out),
        ∃ p, (p = s.pending ∨ p = s.pending ++ [(nsp.getD ['/'], sidName s.nextSid)]) ∧
        (if cfg.alwaysConnect = true then
          (mgrDisconnect
            { connected s rooms' with
              nConn := s.nConn + 1, pending := s.pending ++ [(nsp.getD ['/'], sidName s.nextSid)] }
            (sidName s.nextSid) (nsp.getD ['/']), o1)
         else
          (mgrDisconnect { connected s rooms' with nConn := s.nConn + 1 }
            (sidName s.nextSid) (nsp.getD ['/']), o2)).1
          = refusedSt s rooms' (nsp.getD ['/']) 1 p := by
      intro o1 o2
      split
      · exact ⟨_, Or.inr rfl, rfl⟩
      · exact ⟨_, Or.inl rfl, rfl⟩
    split
    · exact ⟨0, hserved.1, hserved.2, Or.inl rfl⟩
    · split
      · exact ⟨0, hserved.1, hserved.2, Or.inl rfl⟩
      · rename_i r _
        cases r <;> dsimp only
        · cases cfg.script.onConnect s.nConn <;> dsimp only
          · exact ⟨1, hserved.1, hserved.2, Or.inl rfl⟩
          · exact ⟨1, hserved.1, hserved.2, Or.inr (hrej _ _)⟩
          · exact ⟨1, hserved.1, hserved.2, Or.inr (hrej _ _)⟩
          · exact ⟨1, hserved.1, hserved.2, Or.inl rfl⟩
        · cases cfg.script.onConnect s.nConn <;> dsimp only
          · exact ⟨1, hserved.1, hserved.2, Or.inl rfl⟩
          · exact ⟨1, hserved.1, hserved.2, Or.inr (hrej _ _)⟩
          · exact ⟨1, hserved.1, hserved.2, Or.inr (hrej _ _)⟩
          · exact ⟨1, hserved.1, hserved.2, Or.inl rfl⟩
        · exact ⟨0, hserved.1, hserved.2, Or.inl rfl⟩
        · exact ⟨0, hserved.1, hserved.2, Or.inl rfl⟩


theorem WF.handleConnect {s : Srv} (h : WF s) (cfg : Cfg) (t : Eio) (nsp : Option Str)
    (data : Option J) : WF (handleConnect cfg s t nsp data).1 := by
  rcases handleConnect_state cfg s t nsp data with h1 | ⟨rooms', k, _, hc, h1 | ⟨p, hp, h1⟩⟩
  · rw [h1]; exact h
  · rw [h1]
    exact ⟨(h.toWF0.connected hc).of_core rfl, h.pendingNil⟩
  · rw [h1]
    have h0 : WF0 { connected s rooms' with nConn := s.nConn + k, pending := p } :=
      ((h.toWF0.connected hc).set_pending p).of_core rfl
    refine ⟨h0.mgrDisconnect _ _, ?_⟩
    rcases hp with rfl | rfl <;>
      simp [refusedSt, Server.mgrDisconnect, connected, h.pendingNil]

/-! ### events -/

theorem runHandler_core (cfg : Cfg) (s : Srv) (b : Bg) : core (runHandler cfg s b).1 = core s := by
  unfold runHandler
  split
  · rfl
  · rename_i r _
    cases r <;> dsimp only <;> (try cases cfg.script.onEvent s.nEv) <;> rfl

theorem handleEvent_core (cfg : Cfg) (s : Srv) (t : Eio) (nsp : Option Str) (id : Option Nat)
    (data : Option J) : core (handleEvent cfg s t nsp id data).1 = core s := by
  unfold handleEvent
  dsimp only
  split
  · rfl
  · split
    · rfl
    · split
      · rfl
      · split
        · rfl
        · exact runHandler_core _ _ _

theorem WF.handleEvent {s : Srv} (h : WF s) (cfg : Cfg) (t : Eio) (nsp : Option Str)
    (id : Option Nat) (data : Option J) : WF (handleEvent cfg s t nsp id data).1 :=
  h.of_core (handleEvent_core cfg s t nsp id data)

/-! ### acknowledgements -/

/-- `callbacks[sid].pop(id)` -/
def popCb (s : Srv) (sid : Sid) (i : Nat) : Srv :=
  { s with cbs := s.cbs.filter (fun c => !(c.1 = sid ∧ c.2.1 = i)) }

theorem handleAck_state (s : Srv) (t : Eio) (nsp : Option Str) (id : Option Nat) (data : Option J) :
    (handleAck s t nsp id data).1 = s ∨
    ∃ sid i tok, sidOf s.rooms (nsp.getD ['/']) t = some sid ∧ id = some i ∧
      (sid, i, tok) ∈ s.cbs ∧
      ((handleAck s t nsp id data).1 = popCb s sid i ∨
       ∃ n args, tok = .call n ∧ starArgs data = .ok args ∧
        (handleAck s t nsp id data).1 =
          { popCb s sid i with callDone := s.callDone ++ [(n, args)] }) := by
  unfold handleAck
  dsimp only
  split
  · rename_i sid i hs
    split
    · exact Or.inl rfl
    · rename_i a b tok hf
      right
      have hm := List.mem_of_find?_eq_some hf
      have hp := List.find?_some hf
      simp only [decide_eq_true_eq] at hp
      obtain ⟨rfl, rfl⟩ := hp
      refine ⟨_, _, tok, hs, rfl, hm, ?_⟩
      split
      · exact Or.inl rfl
      · rename_i args ha
        split
        · exact Or.inl rfl
        · rename_i n; exact Or.inr ⟨n, args, rfl, ha, rfl⟩
  · exact Or.inl rfl

theorem WF.popCb {s : Srv} (h : WF s) (sid : Sid) (i : Nat) : WF (popCb s sid i) :=
  ⟨h.toWF0.set_cbs_filter _, h.pendingNil⟩

theorem WF0.set_callDone {s : Srv} (h : WF0 s) (c : List (Nat × List J)) :
    WF0 { s with callDone := c } :=
  ⟨h.rooms, h.sidAlloc, h.sidNs, h.cbsLive, h.ctrLive, h.cbsLe, h.cbsNodup, h.binNodup,
    h.envSocks, h.sessOpen⟩

theorem WF0.set_nCall {s : Srv} (h : WF0 s) (n : Nat) : WF0 { s with nCall := n } :=
  ⟨h.rooms, h.sidAlloc, h.sidNs, h.cbsLive, h.ctrLive, h.cbsLe, h.cbsNodup, h.binNodup,
    h.envSocks, h.sessOpen⟩

theorem WF.handleAck {s : Srv} (h : WF s) (t : Eio) (nsp : Option Str) (id : Option Nat)
    (data : Option J) : WF (handleAck s t nsp id data).1 := by
  rcases handleAck_state s t nsp id data with h1 | ⟨sid, i, tok, _, _, _, h1 | ⟨n, args, _, _, h1⟩⟩
  · rw [h1]; exact h
  · rw [h1]; exact h.popCb sid i
  · rw [h1]; exact ⟨(h.popCb sid i).toWF0.set_callDone _, h.pendingNil⟩

/-! ### frames -/

theorem WF.dispatchPacket {s : Srv} (h : WF s) (cfg : Cfg) {t : Eio}
    (hn : s.binbuf.find? (fun e => e.1 = t) = none) (p : Packet) (natt : Nat) :
    WF (dispatchPacket cfg s t p natt).1 := by
  unfold Server.dispatchPacket
  split
  · exact h.handleConnect ..
  · split
    · exact h.handleDisconnect ..
    · split
      · exact h.handleEvent ..
      · split
        · exact h.handleAck ..
        · split
          · exact ⟨h.toWF0.pushBin hn _, h.pendingNil⟩
          · exact h

theorem WF.handleFrame {s : Srv} (h : WF s) (dec : Str → Except Err (Packet × Nat)) (cfg : Cfg)
    (t : Eio) (v : J) : WF (handleFrame dec cfg s t v).1 := by
  unfold Server.handleFrame
  split
  · rename_i part _
    split
    · exact h
    · dsimp only
      split
      · split
        · exact ⟨h.toWF0.setBin _ _, h.pendingNil⟩
        · have h1 : WF { s with binbuf := s.binbuf.filter (fun e => e.1 != t) } :=
            ⟨h.toWF0.filterBin _, h.pendingNil⟩
          split
          · exact h1.handleEvent ..
          · exact h1.handleAck ..
      · exact ⟨h.toWF0.setBin _ _, h.pendingNil⟩
  · rename_i hn
    dsimp only
    split
    · exact h
    · exact h.dispatchPacket cfg hn _ _

/-! ### transport loss -/

theorem WF.lostGo {s : Srv} (h : WF s) (cfg : Cfg) (t : Eio) (reason : Str) (outs : List Out)
    (nss : List Ns) : WF (handleLost.go cfg t reason s outs nss).1 := by
  induction nss generalizing s outs with
  | nil => exact h
  | cons ns rest ih =>
    unfold handleLost.go
    exact ih (h.handleDisconnect cfg t ns reason) _

theorem handleLost_eq (cfg : Cfg) (s : Srv) (t : Eio) (reason : Str) :
    handleLost cfg s t reason =
      if !s.socks.contains t then (s, [])
      else (dropTransport (handleLost.go cfg t reason s [] (namespacesOf s.rooms)).1 t,
            (handleLost.go cfg t reason s [] (namespacesOf s.rooms)).2) := by
  unfold handleLost
  split <;> rfl

theorem WF.handleLost {s : Srv} (h : WF s) (cfg : Cfg) (t : Eio) (reason : Str) :
    WF (handleLost cfg s t reason).1 := by
  rw [handleLost_eq]
  split
  · exact h
  · have h1 := h.lostGo cfg t reason [] (namespacesOf s.rooms)
    exact ⟨h1.toWF0.dropTransport t, h1.pendingNil⟩

/-! ### emit -/

/-- one iteration of the loop of `Manager.emit` with a callback -/
def emitOne (ns : Ns) (payload : List J) (tok : CbTok) (acc : Srv × List Out) (r : Sid × Eio) :
    Srv × List Out :=
  (addCb acc.1 r.1 tok,
    acc.2 ++ sendTo (addCb acc.1 r.1 tok) (some r.2)
      (mkOut EVENT ns (some (nextAckId acc.1 r.1)) payload))

theorem emit_cb_eq (s : Srv) (ev : Str) (d : Data) (ns : Ns) (to : Target) (skip : List Sid)
    (tok : CbTok) :
    emit s ev d ns to skip (some tok) =
      if !hasNs s.rooms ns then (s, [])
      else (recipients s.rooms ns to skip).foldl (emitOne ns (J.str ev :: d.pack) tok) (s, []) := rfl

theorem emit_nocb_state (s : Srv) (ev : Str) (d : Data) (ns : Ns) (to : Target) (skip : List Sid) :
    (emit s ev d ns to skip none).1 = s := by
  unfold emit; split <;> rfl

theorem addCb_rooms (s : Srv) (sid : Sid) (tok : CbTok) : (addCb s sid tok).rooms = s.rooms := rfl

theorem WF.emitFold {s : Srv} (h : WF s) (ns : Ns) (payload : List J) (tok : CbTok) (o : List Out)
    (rs : List (Sid × Eio)) (hl : ∀ r ∈ rs, sidLive s.rooms r.1) :
    WF (rs.foldl (emitOne ns payload tok) (s, o)).1 ∧
      (rs.foldl (emitOne ns payload tok) (s, o)).1.rooms = s.rooms := by
  induction rs generalizing s o with
  | nil => exact ⟨h, rfl⟩
  | cons r rs ih =>
    simp only [List.foldl_cons]
    have h1 : WF (addCb s r.1 tok) :=
      ⟨h.toWF0.addCb (hl r List.mem_cons_self) tok, h.pendingNil⟩
    have := ih (s := addCb s r.1 tok) h1 (o ++ sendTo (addCb s r.1 tok) (some r.2)
      (mkOut EVENT ns (some (nextAckId s r.1)) payload))
      (fun r' hr' => hl r' (List.mem_cons_of_mem _ hr'))
    exact this

theorem recipients_live {r : Rooms.St} (h : Inv r) {ns : Ns} {to : Target} {skip : List Sid}
    {p : Sid × Eio} (hp : p ∈ recipients r ns to skip) : sidLive r p.1 := by
  unfold recipients at hp
  obtain ⟨room, he⟩ := mem_participants (List.mem_filter.mp hp).1
  exact sidLive_of_mem h he

theorem WF.emit {s : Srv} (h : WF s) (ev : Str) (d : Data) (ns : Ns) (to : Target)
    (skip : List Sid) (cb : Option CbTok) : WF (emit s ev d ns to skip cb).1 := by
  cases cb with
  | none => rw [emit_nocb_state]; exact h
  | some tok =>
    rw [emit_cb_eq]
    split
    · exact h
    · exact (h.emitFold ns _ tok [] _ (fun r hr => recipients_live h.rooms hr)).1

/-! ### API calls -/

theorem WF.apiDisconnect {s : Srv} (h : WF s) (cfg : Cfg) (sid : Sid) (ns : Ns) :
    WF (apiDisconnect cfg s sid ns).1 := by
  unfold Server.apiDisconnect
  split
  · exact h
  · exact h.endSession ..

theorem WF.sessSet {s : Srv} (h : WF s) {t : Eio} (ht : t ∈ s.socks) (ns : Ns) (v : J) :
    WF (sessSet s t ns v) :=
  ⟨h.toWF0.sessSet ht ns v, (sessSet_pending s t ns v).trans h.pendingNil⟩

theorem WF.drain {s : Srv} (h : WF s) (cfg : Cfg) (outs : List Out) (bs : List Bg) :
    WF (step.drain cfg s outs bs).1 := by
  induction bs generalizing s outs with
  | nil => exact h
  | cons b rest ih =>
    unfold step.drain
    exact ih (h.of_core (runHandler_core cfg s b)) _

/-! ### every input, every history -/

/-- the first half of `call()`: the emit with the internal callback -/
def callStart (s : Srv) (ev : Str) (d : Data) (ns : Ns) (sid : Sid) : Srv × List Out :=
  emit { s with nCall := s.nCall + 1 } ev d ns (.one sid) [] (some (.call s.nCall))

/-- what `call()` returns after the wait -/
def callOutcome (s : Srv) (n : Nat) : Out :=
  match s.callDone.find? (fun c => c.1 = n) with
  | some c => .result (callResult c.2)
  | none => .timeout

theorem step_call (dec : Str → Except Err (Packet × Nat)) (cfg : Cfg) (s : Srv) (ev : Str)
    (d : Data) (ns : Ns) (sid : Sid) (during : List Input) :
    step dec cfg s (.call ev d ns sid during) =
      if !cfg.asyncHandlers then (s, [.raised .other])
      else
        ((run dec cfg (callStart s ev d ns sid).1 during).1,
          (callStart s ev d ns sid).2 ++ (run dec cfg (callStart s ev d ns sid).1 during).2 ++
            [callOutcome (run dec cfg (callStart s ev d ns sid).1 during).1 s.nCall]) := by
  rw [step]
  split
  · rfl
  · simp only [callStart, callOutcome]
    split <;> rename_i h <;> simp only [h]

theorem run_nil (dec : Str → Except Err (Packet × Nat)) (cfg : Cfg) (s : Srv) :
    run dec cfg s [] = (s, []) := by rw [run]

theorem run_cons (dec : Str → Except Err (Packet × Nat)) (cfg : Cfg) (s : Srv) (i : Input)
    (is : List Input) :
    run dec cfg s (i :: is) =
      ((run dec cfg (step dec cfg s i).1 is).1,
        (step dec cfg s i).2 ++ (run dec cfg (step dec cfg s i).1 is).2) := by rw [run]

/-- Induction over inputs and histories together (`call()` contains a history). -/
theorem step_run_induct (dec : Str → Except Err (Packet × Nat)) (cfg : Cfg)
    (P : Srv → Input → Prop) (Q : Srv → List Input → Prop)
    (hbase : ∀ s i, (∀ ev d ns sid during, i ≠ .call ev d ns sid during) → P s i)
    (hcall : ∀ s ev d ns sid during,
      (cfg.asyncHandlers = true → Q (callStart s ev d ns sid).1 during) →
      P s (.call ev d ns sid during))
    (hnil : ∀ s, Q s [])
    (hcons : ∀ s i is, P s i → Q (step dec cfg s i).1 is → Q s (i :: is)) :
    (∀ s i, P s i) ∧ (∀ s is, Q s is) := by
  apply step.mutual_induct dec cfg (motive_1 := P) (motive_2 := Q)
  case case6 =>
    intro s ev d ns sid during _ n s1 o1 he s2 o2 _ _ _ _ ih
    apply hcall
    have : (callStart s ev d ns sid).1 = s1 := by simp only [callStart]; rw [he]
    rw [this]; exact fun _ => ih
  case case7 =>
    intro s ev d ns sid during _ n s1 o1 he s2 o2 _ _ ih
    apply hcall
    have : (callStart s ev d ns sid).1 = s1 := by simp only [callStart]; rw [he]
    rw [this]; exact fun _ => ih
  case case5 =>
    intro s ev d ns sid during hc
    apply hcall
    intro ha; rw [ha] at hc; cases hc
  case case22 => exact hnil
  case case23 => intro s i is; exact hcons s i is
  all_goals (intros; apply hbase; intros; simp)

theorem WF.callStart {s : Srv} (h : WF s) (ev : Str) (d : Data) (ns : Ns) (sid : Sid) :
    WF (callStart s ev d ns sid).1 := by
  have h1 : WF { s with nCall := s.nCall + 1 } := ⟨h.toWF0.set_nCall _, h.pendingNil⟩
  exact h1.emit ..

theorem WF.step_run (dec : Str → Except Err (Packet × Nat)) (cfg : Cfg) :
    (∀ (s : Srv) (i : Input), WF s → WF (step dec cfg s i).1) ∧
    (∀ (s : Srv) (is : List Input), WF s → WF (run dec cfg s is).1) := by
  apply step_run_induct dec cfg
    (P := fun s i => WF s → WF (step dec cfg s i).1)
    (Q := fun s is => WF s → WF (run dec cfg s is).1)
  · intro s i hi h
    cases i with
    | eioConnect t => rw [step]; exact ⟨h.toWF0.eioConnect t, h.pendingNil⟩
    | frame t v => rw [step]; exact h.handleFrame dec cfg t v
    | eioLost t r => rw [step]; exact h.handleLost cfg t r
    | emit ev d ns to skip cb => rw [step]; exact h.emit ..
    | call ev d ns sid during => exact absurd rfl (hi ev d ns sid during)
    | apiDisconnect sid ns => rw [step]; exact h.apiDisconnect cfg sid ns
    | enterRoom sid ns room =>
      rw [step]
      split
      · rename_i r he; exact ⟨h.toWF0.enter he, h.pendingNil⟩
      · exact h
    | leaveRoom sid ns room => rw [step]; exact ⟨h.toWF0.leave ns sid room, h.pendingNil⟩
    | closeRoom ns room => rw [step]; exact ⟨h.toWF0.closeRoom ns room, h.pendingNil⟩
    | rooms sid ns => rw [step]; exact h
    | getSession sid ns =>
      rw [step]
      split
      · exact h
      · rename_i t ht
        split
        · exact h
        · exact h.sessSet (sessSock_open ht) ..
    | saveSession sid ns v =>
      rw [step]
      split
      · exact h
      · rename_i t ht; exact h.sessSet (sessSock_open ht) ..
    | sessionBlock sid ns k v =>
      rw [step]
      split
      · exact h
      · rename_i t ht; exact h.sessSet (sessSock_open ht) ..
    | settle =>
      rw [step]
      have h1 : WF { s with bg := [] } := h.of_core rfl
      exact h1.drain ..
  · intro s ev d ns sid during ih h
    rw [step_call]
    split
    · exact h
    · rename_i hc
      exact ih (by simpa using hc) (h.callStart ev d ns sid)
  · intro s h; rw [run_nil]; exact h
  · intro s i is h1 h2 h
    rw [run_cons]; exact h2 (h1 h)

theorem WF.step {s : Srv} (h : WF s) (dec : Str → Except Err (Packet × Nat)) (cfg : Cfg)
    (i : Input) : WF (step dec cfg s i).1 := (WF.step_run dec cfg).1 s i h

theorem WF.run {s : Srv} (h : WF s) (dec : Str → Except Err (Packet × Nat)) (cfg : Cfg)
    (is : List Input) : WF (run dec cfg s is).1 := (WF.step_run dec cfg).2 s is h

end Sio.Server
