/-
  Helper lemmas for K6 (pub/sub), callback level of `sync_equiv` (C07), part 6: the condition
  `HistOk` on a history follows from "the session ids of the `connect`s are pairwise distinct (and
  new)" plus "every emit with a callback addresses a personal room with nobody but its owner in it".
-/
import Sio.Lemmas.PubSubLinkedEmit
namespace Sio.PubSub
open Sio.Rooms

/-- the session ids that the `connect`s of a history bring -/
def connSids : List Op → List Sid
  | [] => []
  | .connect _ _ _ sid :: ops => sid :: connSids ops
  | _ :: ops => connSids ops

/-- `HistOpOk` without the freshness clause -/
def CbOpOk (s : Single) : Op → Prop
  | .connect .. => True
  | op => HistOpOk s op

/-- at the moment of every emit with a callback, on the reference server, the addressed personal
    room holds nobody but its owner -/
def CbPersonal (s : Single) : List Op → Prop
  | [] => True
  | op :: ops => CbOpOk s op ∧ CbPersonal (s.step op).1 ops

instance (s : Single) (op : Op) : Decidable (CbOpOk s op) := by
  cases op <;> unfold CbOpOk <;> infer_instance

instance : (s : Single) → (ops : List Op) → Decidable (CbPersonal s ops)
  | _, [] => isTrue trivial
  | s, op :: ops =>
    have := instDecidableCbPersonal (s.step op).1 ops
    (inferInstance : Decidable (CbOpOk s op ∧ CbPersonal (s.step op).1 ops))

/-! ### whoever is asked for an acknowledgement is connected -/

theorem askedIn_sendCb (cb : Cb) (ns : Ns) (ev : J) (args : List J) (h : Host) (l : List (Sid × Eio))
    (a : Sid × Nat) (ha : a ∈ askedIn (sendCb cb ns ev args h l).2) : a.1 ∈ l.map Prod.fst := by
  induction l generalizing h with
  | nil => cases ha
  | cons p ps ih =>
    simp only [sendCb, askedIn, List.mem_cons] at ha
    rcases ha with rfl | ha
    · simp
    · exact List.mem_cons_of_mem _ (ih _ ha)

theorem askedIn_emitLocal (h : Host) (ns : Ns) (t : Target) (skip : List Sid) (ev : J) (args : List J)
    (cb : Option Cb) (a : Sid × Nat) (ha : a ∈ askedIn (emitLocal h ns t skip ev args cb).2) :
    ∃ e ∈ h.rooms, e.sid = a.1 := by
  unfold emitLocal at ha
  split at ha
  · cases ha
  · cases cb with
    | none =>
      exfalso
      simp only at ha
      generalize recipients h.rooms ns t skip = l at ha
      induction l with
      | nil => cases ha
      | cons p ps ih => exact ih (by simpa [askedIn] using ha)
    | some c =>
      have hm := askedIn_sendCb c ns ev args h _ a ha
      obtain ⟨p, hp, hpa⟩ := List.mem_map.mp hm
      obtain ⟨room, he⟩ := mem_participants (List.mem_filter.mp hp).1
      exact ⟨_, he, hpa⟩

theorem single_asked_sid (s : Single) (op : Op) (a : Sid × Nat) (ha : a ∈ askedIn (s.step op).2) :
    ∃ e ∈ s.srv.rooms, e.sid = a.1 := by
  cases op with
  | connect hid ns eio sid => cases ha
  | enter via ns sid room =>
    have : askedIn (s.step (.enter via ns sid room)).2 = [] := (singleEnter_obs s.srv ns sid room).2.2
    rw [this] at ha; cases ha
  | leave via ns sid room => cases ha
  | close via ns room => cases ha
  | emit via ev d ns to skip cb => exact askedIn_emitLocal s.srv ns to skip.toList (.str ev) d.pack _ a ha
  | disconnect via ns sid =>
    have ha' : a ∈ askedIn (localDisconnect s.srv sid ns).outs := ha
    unfold localDisconnect at ha'
    split at ha' <;> cases ha'
  | ack ns sid n args =>
    rw [(single_ack_obs (s := s) ns sid n args).2.2] at ha; cases ha
  | deliver h k => cases ha
  | drain => cases ha

/-! ### `HistOk` from fresh session ids -/

theorem histOk_of_fresh (s : Single) (hinv : Inv s.srv.rooms) (ops : List Op)
    (hnd : (connSids ops).Nodup)
    (hnew : ∀ x ∈ connSids ops, (∀ e ∈ s.srv.rooms, e.sid ≠ x) ∧ ∀ a ∈ s.asked, a.1 ≠ x)
    (hcb : CbPersonal s ops) : HistOk s ops := by
  induction ops generalizing s with
  | nil => trivial
  | cons op ops ih =>
    have hop : HistOpOk s op := by
      cases op with
      | connect hid ns eio sid => exact hnew sid List.mem_cons_self
      | enter via ns sid room => trivial
      | leave via ns sid room => trivial
      | close via ns room => trivial
      | emit via ev d ns to skip cb => exact hcb.1
      | disconnect via ns sid => trivial
      | ack ns sid n args => trivial
      | deliver h k => trivial
      | drain => trivial
    have hsub : ∀ x ∈ connSids ops, x ∈ connSids (op :: ops) := by
      intro x hx; cases op <;> first | exact hx | exact List.mem_cons_of_mem _ hx
    have hnd' : (connSids ops).Nodup := by
      cases op <;> first | exact hnd | exact (List.nodup_cons.mp hnd).2
    have hrooms := single_step_rooms (s := s) hinv op
    refine ⟨hop, ih (s.step op).1 (by rw [hrooms]; exact inv_singleRooms hinv op) hnd' ?_ hcb.2⟩
    intro x hx
    refine ⟨?_, ?_⟩
    · intro e he
      rw [hrooms] at he
      rcases mem_singleRooms he with ⟨e', he', _, hs'⟩ | ⟨hid, ns, eio, sid, rfl, _, hs'⟩
      · rw [← hs']; exact (hnew x (hsub x hx)).1 e' he'
      · rw [hs']
        rintro rfl
        exact (List.nodup_cons.mp hnd).1 hx
    · intro a ha
      rw [single_step_asked] at ha
      rcases List.mem_append.mp ha with ha | ha
      · exact (hnew x (hsub x hx)).2 a ha
      · obtain ⟨e, he, hea⟩ := single_asked_sid s op a ha
        rw [← hea]; exact (hnew x (hsub x hx)).1 e he

end Sio.PubSub
