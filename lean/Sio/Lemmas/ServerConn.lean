/-
  K4 — the connection lifecycle (property C04): exact outcomes of `_handle_connect`, session ids
  never decrease / are never reused, what is left of a session after its end.
-/
import Sio.Lemmas.ServerLost
namespace Sio.Server
open Sio.Rooms

/-- `[auth]` when the CONNECT payload is truthy -/
def authArgs : Option J → List J
  | some d => if d.truthy then [d] else []
  | none => []

/-- the rooms after `manager.connect` -/
def roomsAfterConnect (r : Rooms.St) (ns : Ns) (t : Eio) (sid : Sid) : Rooms.St :=
  Rooms.add (Rooms.add r ⟨ns, none, sid, t⟩) ⟨ns, some sid, sid, t⟩

theorem connect_of_not_connected {r : Rooms.St} {ns : Ns} {t : Eio} (h : sidOf r ns t = none)
    (sid : Sid) : Rooms.connect r ns t sid = some (roomsAfterConnect r ns t sid) := by
  unfold Rooms.connect; rw [h]; rfl

/-- CONNECT for a namespace that is not served, or on which the transport already has a session -/
theorem handleConnect_refused_early (cfg : Cfg) (s : Srv) (t : Eio) (nsp : Option Str)
    (data : Option J)
    (h : isServed cfg (nsp.getD ['/']) = false ∨ (sidOf s.rooms (nsp.getD ['/']) t).isSome = true) :
    handleConnect cfg s t nsp data =
      (s, sendTo s (some t) (pktConnectError (nsp.getD ['/']) (.str "Unable to connect".toList))) := by
  unfold handleConnect
  dsimp only
  have : (if isServed cfg (nsp.getD ['/']) = true then
      Rooms.connect s.rooms (nsp.getD ['/']) t (sidName s.nextSid) else none) = none := by
    rcases h with h | h
    · simp [h]
    · rw [connect_eq_none_iff.mpr h]; simp
  rw [this]

set_option hygiene false in
local macro "conn_tac" : tactic => `(tactic|
  (rcases hr with hr | hr <;> rw [hr] <;> dsimp only <;>
    cases cfg.script.onConnect s.nConn <;> dsimp only <;>
    cases hac : cfg.alwaysConnect <;>
    simp [hsend, hrej, connected, s1, s0, sid, ns, h.pendingNil]))

/-- the accepted / refused / raised outcomes, when a connect handler is registered -/
theorem handleConnect_handler {s : Srv} (h : WF s) (cfg : Cfg) {t : Eio} {nsp : Option Str}
    (data : Option J) {slot : Slot} {a : List J}
    (hs : isServed cfg (nsp.getD ['/']) = true) (hn : sidOf s.rooms (nsp.getD ['/']) t = none)
    (ht : t ∈ s.socks)
    (hr : resolve cfg.reg (nsp.getD ['/']) (.str "connect".toList)
            (.str (sidName s.nextSid) :: authArgs data) = .ok (.fn slot a) ∨
          resolve cfg.reg (nsp.getD ['/']) (.str "connect".toList)
            (.str (sidName s.nextSid) :: authArgs data) = .ok (.clsCall slot a)) :
    let ns := nsp.getD ['/']
    let sid := sidName s.nextSid
    let s1 : Srv := { connected s (roomsAfterConnect s.rooms ns t sid) with nConn := s.nConn + 1 }
    let s0 : Srv := { s with nextSid := s.nextSid + 1, nConn := s.nConn + 1 }
    handleConnect cfg s t nsp data =
      match cfg.script.onConnect s.nConn with
      | .accept =>
        (s1, if cfg.alwaysConnect then [.send t (pktConnect ns sid), .invoke slot a]
             else [.invoke slot a, .send t (pktConnect ns sid)])
      | .retFalse =>
        (s0, if cfg.alwaysConnect then
               [.send t (pktConnect ns sid), .invoke slot a, .send t (pktDisconnect ns (some (errorArgs [])))]
             else [.invoke slot a, .send t (pktConnectError ns (errorArgs []))])
      | .refuse args =>
        (s0, if cfg.alwaysConnect then
               [.send t (pktConnect ns sid), .invoke slot a, .send t (pktDisconnect ns (some (errorArgs args)))]
             else [.invoke slot a, .send t (pktConnectError ns (errorArgs args))])
      | .raise =>
        (s1, if cfg.alwaysConnect then [.send t (pktConnect ns sid), .invoke slot a, .raised .other]
             else [.invoke slot a, .raised .other]) := by
  intro ns sid s1 s0
  have hc := connect_of_not_connected hn (sidName s.nextSid)
  have henv : s.environ.contains t = true := by
    rw [h.envSocks]; exact List.contains_iff_mem.mpr ht
  have hsend : ∀ (s' : Srv) (p : Packet), s'.socks = s.socks → sendTo s' (some t) p = [.send t p] :=
    fun s' p hq => sendTo_open (by rw [hq]; exact ht) p
  have hrej : ∀ k p, mgrDisconnect
      { rooms := roomsAfterConnect s.rooms (nsp.getD ['/']) t (sidName s.nextSid), pending := p,
        cbs := s.cbs, ctr := s.ctr, environ := s.environ, binbuf := s.binbuf, sess := s.sess,
        socks := s.socks, bg := s.bg, nextSid := s.nextSid + 1, nConn := s.nConn + k, nEv := s.nEv,
        nDisc := s.nDisc, nCall := s.nCall, callDone := s.callDone }
      (sidName s.nextSid) (nsp.getD ['/']) =
      { s with nextSid := s.nextSid + 1, nConn := s.nConn + k,
               pending := p.filter (fun q => !(q.1 = nsp.getD ['/'] ∧ q.2 = sidName s.nextSid)) } :=
    fun k p => refusedSt_eq h.toWF0 hc k p
  unfold handleConnect
  dsimp only
  rw [if_pos hs, hc]
  dsimp only
  rw [henv]
  simp only [Bool.not_true, Bool.false_eq_true, if_false]
  rcases data with _ | d
  · simp only [authArgs] at hr
    conn_tac
  · by_cases hd : d.truthy = true
    · simp only [authArgs, hd, if_true] at hr ⊢
      conn_tac
    · simp only [authArgs, hd] at hr ⊢
      conn_tac


/-- no connect handler is registered: the connection is accepted without running anything -/
theorem handleConnect_no_handler {s : Srv} (h : WF s) (cfg : Cfg) {t : Eio} {nsp : Option Str}
    (data : Option J)
    (hs : isServed cfg (nsp.getD ['/']) = true) (hn : sidOf s.rooms (nsp.getD ['/']) t = none)
    (ht : t ∈ s.socks)
    (hr : resolve cfg.reg (nsp.getD ['/']) (.str "connect".toList)
            (.str (sidName s.nextSid) :: authArgs data) = .ok .notHandled ∨
          resolve cfg.reg (nsp.getD ['/']) (.str "connect".toList)
            (.str (sidName s.nextSid) :: authArgs data) = .ok .clsNoMethod) :
    handleConnect cfg s t nsp data =
      (connected s (roomsAfterConnect s.rooms (nsp.getD ['/']) t (sidName s.nextSid)),
        [.send t (pktConnect (nsp.getD ['/']) (sidName s.nextSid))]) := by
  have hc := connect_of_not_connected hn (sidName s.nextSid)
  have henv : s.environ.contains t = true := by
    rw [h.envSocks]; exact List.contains_iff_mem.mpr ht
  have hsend : ∀ (s' : Srv) (p : Packet), s'.socks = s.socks → sendTo s' (some t) p = [.send t p] :=
    fun s' p hq => sendTo_open (by rw [hq]; exact ht) p
  unfold handleConnect
  dsimp only
  rw [if_pos hs, hc]
  dsimp only
  rw [henv]
  simp only [Bool.not_true, Bool.false_eq_true, if_false]
  rcases data with _ | d
  · simp only [authArgs] at hr
    rcases hr with hr | hr <;> rw [hr] <;> dsimp only <;> cases hac : cfg.alwaysConnect <;>
      simp [hsend, connected]
  · by_cases hd : d.truthy = true
    · simp only [authArgs, hd, if_true] at hr ⊢
      rcases hr with hr | hr <;> rw [hr] <;> dsimp only <;> cases hac : cfg.alwaysConnect <;>
        simp [hsend, connected]
    · simp only [authArgs, hd] at hr ⊢
      rcases hr with hr | hr <;> rw [hr] <;> dsimp only <;> cases hac : cfg.alwaysConnect <;>
        simp [hsend, connected]

theorem sendTo_closed {s : Srv} {t : Eio} (ht : t ∉ s.socks) (p : Packet) :
    sendTo s (some t) p = [] := by
  unfold sendTo
  simp [ht]

/-- CONNECT from a transport engine.io never opened: `environ[eio_sid]` raises `KeyError` after
    `manager.connect` registered the session -/
theorem handleConnect_no_environ {s : Srv} (h : WF s) (cfg : Cfg) {t : Eio} {nsp : Option Str}
    (data : Option J)
    (hs : isServed cfg (nsp.getD ['/']) = true) (hn : sidOf s.rooms (nsp.getD ['/']) t = none)
    (ht : t ∉ s.socks) :
    handleConnect cfg s t nsp data =
      (connected s (roomsAfterConnect s.rooms (nsp.getD ['/']) t (sidName s.nextSid)),
        [.raised .keyError]) := by
  have hc := connect_of_not_connected hn (sidName s.nextSid)
  have henv : s.environ.contains t = false := by
    rw [h.envSocks, Bool.eq_false_iff]; intro hc; exact ht (List.contains_iff_mem.mp hc)
  have hsend : ∀ (s' : Srv) (p : Packet), s'.socks = s.socks → sendTo s' (some t) p = [] :=
    fun s' p hq => sendTo_closed (by rw [hq]; exact ht) p
  unfold handleConnect
  dsimp only
  rw [if_pos hs, hc]
  dsimp only
  rw [henv]
  cases cfg.alwaysConnect <;> simp [hsend, connected]

/-- the name "connect" cannot be looked up (cannot happen for a string; kept for totality) -/
theorem handleConnect_resolve_error {s : Srv} (h : WF s) (cfg : Cfg) {t : Eio} {nsp : Option Str}
    (data : Option J) {e : Err}
    (hs : isServed cfg (nsp.getD ['/']) = true) (hn : sidOf s.rooms (nsp.getD ['/']) t = none)
    (ht : t ∈ s.socks)
    (hr : resolve cfg.reg (nsp.getD ['/']) (.str "connect".toList)
            (.str (sidName s.nextSid) :: authArgs data) = .error e) :
    handleConnect cfg s t nsp data =
      (connected s (roomsAfterConnect s.rooms (nsp.getD ['/']) t (sidName s.nextSid)),
        (if cfg.alwaysConnect then [.send t (pktConnect (nsp.getD ['/']) (sidName s.nextSid))] else [])
          ++ [.raised .typeError]) := by
  have hc := connect_of_not_connected hn (sidName s.nextSid)
  have henv : s.environ.contains t = true := by
    rw [h.envSocks]; exact List.contains_iff_mem.mpr ht
  have hsend : ∀ (s' : Srv) (p : Packet), s'.socks = s.socks → sendTo s' (some t) p = [.send t p] :=
    fun s' p hq => sendTo_open (by rw [hq]; exact ht) p
  unfold handleConnect
  dsimp only
  rw [if_pos hs, hc]
  dsimp only
  rw [henv]
  simp only [Bool.not_true, Bool.false_eq_true, if_false]
  rcases data with _ | d
  · simp only [authArgs] at hr
    rw [hr]; cases cfg.alwaysConnect <;> simp [hsend, connected]
  · by_cases hd : d.truthy = true
    · simp only [authArgs, hd, if_true] at hr ⊢
      rw [hr]; cases cfg.alwaysConnect <;> simp [hsend, connected]
    · simp only [authArgs, hd] at hr ⊢
      rw [hr]; cases cfg.alwaysConnect <;> simp [hsend, connected]

/-! ### the session-id counter -/

theorem nextSid_prim {s s' : Srv} (_hw : WF s) (p : Prim s s') : s.nextSid ≤ s'.nextSid := by
  cases p with
  | core hq => rw [(core_fields hq).nextSid]; exact Nat.le_refl _
  | disc _ hq => rw [(core_fields hq).nextSid]; exact Nat.le_refl _
  | connect _ => exact Nat.le_succ _
  | sess ns v _ => unfold sessSet; split <;> exact Nat.le_refl _
  | bumpCall | callDone _ _ | cbsFilter _ | addCb _ _ _ | binbuf _ | rooms _ _ _ | eioConnect _
  | drop _ => exact Nat.le_refl _

/-- the session-id counter never decreases, over any history -/
theorem nextSid_mono {s : Srv} (h : WF s) (dec : Str → Except Err (Packet × Nat)) (cfg : Cfg)
    (is : List Input) : s.nextSid ≤ (run dec cfg s is).1.nextSid :=
  (Reach.run h dec cfg is).rel (R := fun a b => a.nextSid ≤ b.nextSid) (fun _ => Nat.le_refl _)
    (fun _ _ _ => Nat.le_trans) (fun _ _ hw p => nextSid_prim hw p)

/-! ### after the end of a session -/

theorem no_entry_of_not_live {r : Rooms.St} (h : Inv r) {sid : Sid} (hl : ¬ sidLive r sid) :
    ∀ e ∈ r, e.sid ≠ sid := by
  intro e he heq
  exact hl (heq ▸ sidLive_of_mem h he)

theorem not_connected_of_not_live {s : Srv} (h : WF s) {sid : Sid} (hl : ¬ sidLive s.rooms sid)
    (ns : Ns) : isConnected s sid ns = false ∧ getRooms s.rooms ns sid = [] ∧
      ∀ to skip, sid ∉ (recipients s.rooms ns to skip).map Prod.fst := by
  have hno := no_entry_of_not_live h.rooms hl
  refine ⟨?_, ?_, ?_⟩
  · unfold isConnected
    have : eioOf s.rooms ns sid = none :=
      eioOf_none_iff.mpr (fun eio he => hno _ he rfl)
    rw [this]; simp
  · unfold getRooms
    rw [List.filterMap_eq_nil_iff]
    intro e he
    have := hno e he
    simp [this]
  · intro to skip hm
    simp only [List.mem_map] at hm
    obtain ⟨p, hp, rfl⟩ := hm
    obtain ⟨room, he⟩ := mem_participants (List.mem_filter.mp hp).1
    exact hno _ he rfl

/-- ending a session on one namespace leaves the entries of every other namespace alone -/
theorem ending_other_ns (s : Srv) (sid : Sid) (ns : Ns) (k : Nat) :
    (ending s sid ns k).rooms.filter (fun e => e.ns != ns) = s.rooms.filter (fun e => e.ns != ns) := by
  simp only [ending, mgrDisconnect, Rooms.disconnect, List.filter_filter]
  apply List.filter_congr
  intro e _
  by_cases h : e.ns = ns <;> simp [h]

end Sio.Server
