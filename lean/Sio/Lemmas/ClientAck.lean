/-
  K7 — how every piece of the client changes the callback table (`CbStep`), token counting, id invariant.
-/
import Sio.Lemmas.ClientStep
namespace Sio.Client

/-! ### acknowledgement callbacks in a trace, and how a step changes the callback table -/

def cbOf : Out → Option (Cb × List J)
  | .callback cb args => some (cb, args)
  | _ => none

/-- the callback invocations of a trace -/
def cbOuts (os : List Out) : List (Cb × List J) := os.filterMap cbOf

@[simp] theorem cbOuts_nil : cbOuts [] = [] := rfl
@[simp] theorem cbOuts_append (a b : List Out) : cbOuts (a ++ b) = cbOuts a ++ cbOuts b := by
  simp [cbOuts, List.filterMap_append]
theorem cbOuts_cons (o : Out) (os : List Out) : cbOuts (o :: os) = (cbOf o).toList ++ cbOuts os := by
  simp only [cbOuts, List.filterMap_cons]
  cases cbOf o <;> simp

theorem cbOuts_trigger (cfg : Cfg) (ev : Str) (n : Ns) (args : List J) :
    cbOuts (trigger cfg ev n args).1 = [] := by
  unfold trigger
  split <;> simp [cbOuts_cons, cbOf]

theorem cbOuts_sendPkt (c : Cli) (p : Packet) : cbOuts (sendPkt c p) = [] := by
  unfold sendPkt
  split <;> simp [cbOuts_cons, cbOf]

theorem cbOuts_flatMap_trigger (cfg : Cfg) (ev : Str) (f : Ns × J → List J) (l : List (Ns × J)) :
    cbOuts (l.flatMap (fun e => (trigger cfg ev e.1 (f e)).1)) = [] := by
  induction l with
  | nil => rfl
  | cons a l ih => simp [List.flatMap_cons, ih, cbOuts_trigger]

theorem cbOuts_flatMap_sendPkt (c : Cli) (l : List (Ns × J)) :
    cbOuts (l.flatMap (fun e => sendPkt c ⟨DISCONNECT, some e.1, none, none⟩)) = [] := by
  induction l with
  | nil => rfl
  | cons a l ih => simp [List.flatMap_cons, ih, cbOuts_sendPkt]

/-- How one piece of the client changes the callback table and which callbacks it invokes. -/
inductive CbStep (c c' : Cli) (o : List Out) : Prop where
  /-- nothing happens to the table, no callback runs -/
  | keep (h1 : c'.cbs = c.cbs) (h2 : c'.ctr = c.ctr) (h3 : cbOuts o = [])
  /-- an ACK bearing the namespace and id of the outstanding entry `e`: the entry is removed and
      its callback runs at most once, with the acknowledged arguments -/
  | ack (n : Ns) (i : Nat) (e : Ns × Nat × Cb) (data : Option J)
      (hf : c.cbs.find? (isKey n i) = some e)
      (h1 : c'.cbs = c.cbs.filter (fun x => !isKey n i x)) (h2 : c'.ctr = c.ctr)
      (h3 : cbOuts o = match data with | some (.arr args) => [(e.2.2, args)] | _ => [])
  /-- the transport ended: the table and the counters are dropped together -/
  | reset (h1 : c'.cbs = []) (h2 : c'.ctr = []) (h3 : cbOuts o = [])

theorem CbStep.refl (c : Cli) : CbStep c c [] := .keep rfl rfl rfl

theorem onEioDisconnect_cbs (cfg : Cfg) (c : Cli) (r : Str) :
    (onEioDisconnect cfg c r).1.cbs = [] ∧ (onEioDisconnect cfg c r).1.ctr = []
    ∧ cbOuts (onEioDisconnect cfg c r).2 = [] := by
  unfold onEioDisconnect
  split
  · exact ⟨rfl, rfl, cbOuts_flatMap_trigger cfg sDisconnect (fun _ => [.str r]) c.namespaces⟩
  · exact ⟨rfl, rfl, rfl⟩

theorem cbStep_onEioDisconnect (cfg : Cfg) (c : Cli) (r : Str) :
    CbStep c (onEioDisconnect cfg c r).1 (onEioDisconnect cfg c r).2 :=
  have h := onEioDisconnect_cbs cfg c r
  .reset h.1 h.2.1 h.2.2

theorem cbStep_eioDisconnect (cfg : Cfg) (c : Cli) (r : Str) :
    CbStep c (eioDisconnect cfg c r).1 (eioDisconnect cfg c r).2 := by
  unfold eioDisconnect
  have h := onEioDisconnect_cbs cfg c r
  split
  · exact .reset h.1 h.2.1 (by simp [cbOuts_cons, cbOf, h.2.2])
  · exact .refl c

theorem cbOuts_ackOuts (cb : Cb) (data : Option J) :
    cbOuts (ackOuts cb data) = match data with | some (.arr args) => [(cb, args)] | _ => [] := by
  unfold ackOuts
  split
  · split <;> simp [cbOuts_cons, cbOf]
  · simp [cbOuts_cons, cbOf]

theorem cbStep_handleAck (c : Cli) (ns : Option Ns) (id : Option Nat) (data : Option J) :
    CbStep c (handleAck c ns id data).1 (handleAck c ns id data).2 := by
  unfold handleAck
  split
  · exact .refl c
  · rename_i i
    split
    · exact .refl c
    · rename_i e hf
      exact .ack (nsOr ns) i e data hf rfl rfl (cbOuts_ackOuts _ _)

theorem cbStep_handleEvent (cfg : Cfg) (c : Cli) (ns : Option Ns) (id : Option Nat) (data : Option J) :
    CbStep c (handleEvent cfg c ns id data).1 (handleEvent cfg c ns id data).2 := by
  rw [handleEvent_state']
  refine .keep rfl rfl ?_
  unfold handleEvent
  split
  · split
    · exact cbOuts_trigger _ _ _ _
    · simp [cbOuts_trigger, cbOuts_sendPkt]
  · simp [cbOuts_cons, cbOf]

theorem cbStep_handleConnect (cfg : Cfg) (c : Cli) (ns : Option Ns) (data : Option J) :
    CbStep c (handleConnect cfg c ns data).1 (handleConnect cfg c ns data).2 := by
  unfold handleConnect
  simp only
  split
  · exact .refl c
  · split
    · exact .keep rfl rfl (by simp [cbOuts_cons, cbOf])
    · exact .keep rfl rfl (cbOuts_trigger _ _ _ _)

theorem cbStep_handleError (cfg : Cfg) (c : Cli) (ns : Option Ns) (data : Option J) :
    CbStep c (handleError cfg c ns data).1 (handleError cfg c ns data).2 := by
  unfold handleError
  simp only
  split <;> exact .keep rfl rfl (cbOuts_trigger _ _ _ _)

theorem cbStep_handleDisconnect (cfg : Cfg) (c : Cli) (ns : Option Ns) :
    CbStep c (handleDisconnect cfg c ns).1 (handleDisconnect cfg c ns).2 := by
  unfold handleDisconnect
  split
  · exact .refl c
  · simp only
    split
    · cases cbStep_eioDisconnect cfg { c with namespaces := dropNs c.namespaces (nsOr ns), connected := false } rClient with
      | keep h1 h2 h3 => exact .keep h1 h2 (by simp [cbOuts_trigger, h3])
      | ack n i e data hf h1 h2 h3 =>
        exact .ack n i e data hf h1 h2 (by simp [cbOuts_trigger, h3])
      | reset h1 h2 h3 => exact .reset h1 h2 (by simp [cbOuts_trigger, h3])
    · exact .keep rfl rfl (cbOuts_trigger _ _ _ _)

theorem cbStep_handlePkt (cfg : Cfg) (c : Cli) (p : Packet) :
    CbStep c (handlePkt cfg c p).1 (handlePkt cfg c p).2 := by
  unfold handlePkt
  split
  · exact cbStep_handleConnect _ _ _ _
  · split
    · exact cbStep_handleDisconnect _ _ _
    · split
      · exact cbStep_handleEvent _ _ _ _ _
      · split
        · exact cbStep_handleAck _ _ _ _
        · split
          · exact cbStep_handleError _ _ _ _
          · exact .keep rfl rfl (by simp [cbOuts_cons, cbOf])

theorem cbStep_onMessage (cfg : Cfg) (c : Cli) (raw : J) (d : Except Err (Packet × Nat)) :
    CbStep c (onMessage cfg c raw d).1 (onMessage cfg c raw d).2 := by
  unfold onMessage
  split
  · split
    · exact .keep rfl rfl (by simp [cbOuts_cons, cbOf])
    · exact .keep rfl rfl rfl
    · split
      · cases cbStep_handleEvent cfg { c with binbuf := none } ‹Packet›.nsp ‹Packet›.id ‹Packet›.data with
        | keep h1 h2 h3 => exact .keep h1 h2 h3
        | ack n i e data hf h1 h2 h3 => exact .ack n i e data hf h1 h2 h3
        | reset h1 h2 h3 => exact .reset h1 h2 h3
      · cases cbStep_handleAck { c with binbuf := none } ‹Packet›.nsp ‹Packet›.id ‹Packet›.data with
        | keep h1 h2 h3 => exact .keep h1 h2 h3
        | ack n i e data hf h1 h2 h3 => exact .ack n i e data hf h1 h2 h3
        | reset h1 h2 h3 => exact .reset h1 h2 h3
  · split
    · exact .keep rfl rfl (by simp [cbOuts_cons, cbOf])
    · split
      · exact .keep rfl rfl rfl
      · exact cbStep_handlePkt _ _ _

theorem cbStep_deliver (cfg : Cfg) (c : Cli) (e : Ev) :
    CbStep c (deliver cfg c e).1 (deliver cfg c e).2 := by
  cases e with
  | msg raw d =>
    simp only [deliver]
    split
    · exact cbStep_onMessage _ _ _ _
    · exact .refl c
  | lost =>
    simp only [deliver, onLost]
    split
    · have h := onEioDisconnect_cbs cfg c rTransport
      rcases startEffort_eq { (onEioDisconnect cfg c rTransport).1 with eio := .disconnected } with he | he <;>
        rw [he]
      · exact .reset h.1 h.2.1 (by simp [h.2.2])
      · exact .reset h.1 h.2.1 (by simp [h.2.2, cbOuts_cons, cbOf])
    · exact .refl c
  | close => exact cbStep_eioDisconnect _ _ _

end Sio.Client

namespace Sio.Client

/-! ### counting callback tokens, and the id invariant -/

def tokCnt (t : Nat) (l : List (Ns × Nat × Cb)) : Nat := (l.map (fun e => e.2.2.tok)).count t
def outCnt (t : Nat) (os : List Out) : Nat := ((cbOuts os).map (fun e => e.1.tok)).count t

@[simp] theorem outCnt_nil (t : Nat) : outCnt t [] = 0 := rfl
@[simp] theorem outCnt_append (t : Nat) (a b : List Out) : outCnt t (a ++ b) = outCnt t a + outCnt t b := by
  simp [outCnt]
theorem outCnt_of_nil (t : Nat) (o : List Out) (h : cbOuts o = []) : outCnt t o = 0 := by
  simp [outCnt, h]
theorem outCnt_cons_nocb (t : Nat) (o : Out) (os : List Out) (h : cbOf o = none) :
    outCnt t (o :: os) = outCnt t os := by
  simp [outCnt, cbOuts_cons, h]

theorem count_filter_find {α : Type} (f : α → Nat) (p : α → Bool) (t : Nat) (l : List α) (e : α)
    (hf : l.find? p = some e) :
    ((l.filter (fun x => !p x)).map f).count t + (if f e = t then 1 else 0) ≤ (l.map f).count t := by
  induction l with
  | nil => cases hf
  | cons a l ih =>
    simp only [List.find?_cons] at hf
    cases hp : p a with
    | true =>
      rw [hp] at hf
      simp only [Option.some.injEq] at hf
      subst hf
      simp only [List.filter_cons, hp, Bool.not_true, Bool.false_eq_true, if_false, List.map_cons,
        List.count_cons]
      have : ((l.filter (fun x => !p x)).map f).count t ≤ (l.map f).count t :=
        List.Sublist.count_le _ (List.Sublist.map f List.filter_sublist)
      by_cases hq : f a = t <;> simp [hq] <;> omega
    | false =>
      rw [hp] at hf
      have := ih hf
      simp only [List.filter_cons, hp, Bool.not_false, if_true, List.map_cons, List.count_cons]
      omega

theorem cbStep_count {c c' : Cli} {o : List Out} (h : CbStep c c' o) (t : Nat) :
    outCnt t o + tokCnt t c'.cbs ≤ tokCnt t c.cbs := by
  cases h with
  | keep h1 h2 h3 => rw [outCnt_of_nil t o h3, h1]; omega
  | reset h1 h2 h3 => rw [outCnt_of_nil t o h3, h1]; simp [tokCnt]
  | ack n i e data hf h1 h2 h3 =>
    have hc := count_filter_find (fun e : Ns × Nat × Cb => e.2.2.tok) (isKey n i) t c.cbs e hf
    have ho : outCnt t o ≤ (if e.2.2.tok = t then 1 else 0) := by
      unfold outCnt
      rw [h3]
      split
      · simp only [List.map_cons, List.map_nil, List.count_cons, List.count_nil]
        split <;> simp_all
      · simp
    unfold tokCnt
    rw [h1]
    omega

/-- ids handed out are never above the counter, and no (namespace, id) is stored twice -/
structure IdInv (c : Cli) : Prop where
  le : ∀ e ∈ c.cbs, e.2.1 ≤ ctrOf c.ctr e.1
  nodup : (c.cbs.map (fun e => (e.1, e.2.1))).Nodup

theorem IdInv_init : IdInv init := ⟨(by intro e he; cases he), (by simp [init])⟩

theorem cbStep_idInv {c c' : Cli} {o : List Out} (h : CbStep c c' o) (hi : IdInv c) : IdInv c' := by
  cases h with
  | keep h1 h2 h3 => exact ⟨(by rw [h1, h2]; exact hi.le), (by rw [h1]; exact hi.nodup)⟩
  | reset h1 h2 h3 => exact ⟨(by rw [h1]; intro e he; cases he), (by rw [h1]; simp)⟩
  | ack n i e data hf h1 h2 h3 =>
    refine ⟨?_, ?_⟩
    · rw [h1, h2]
      intro x hx
      exact hi.le x (List.mem_filter.mp hx).1
    · rw [h1]
      exact List.Sublist.nodup (List.Sublist.map _ List.filter_sublist) hi.nodup

/-- what a sequence of pieces does: callbacks that ran plus callbacks still stored never exceed
    what was stored before plus what the API call `ts` registered; the id invariant is kept -/
structure CbRun (ts : List Nat) (c c' : Cli) (o : List Out) : Prop where
  count : ∀ t, outCnt t o + tokCnt t c'.cbs ≤ tokCnt t c.cbs + ts.count t
  inv : IdInv c → IdInv c'

theorem CbRun.of_step {c c' : Cli} {o : List Out} (h : CbStep c c' o) : CbRun [] c c' o :=
  ⟨(fun t => by have := cbStep_count h t; simp; omega), cbStep_idInv h⟩

theorem CbRun.trans {ts1 ts2 : List Nat} {c c1 c2 : Cli} {o1 o2 : List Out}
    (h1 : CbRun ts1 c c1 o1) (h2 : CbRun ts2 c1 c2 o2) : CbRun (ts1 ++ ts2) c c2 (o1 ++ o2) :=
  ⟨(fun t => by have := h1.count t; have := h2.count t; simp only [outCnt_append, List.count_append]; omega),
   fun hi => h2.inv (h1.inv hi)⟩

theorem CbRun.refl (c : Cli) : CbRun [] c c [] := ⟨(fun t => by simp), id⟩

theorem cbRun_deliverAll (cfg : Cfg) (es : List Ev) : ∀ c,
    CbRun [] c (deliverAll cfg c es).1 (deliverAll cfg c es).2 := by
  induction es with
  | nil => intro c; exact .refl c
  | cons e es ih =>
    intro c
    simp only [deliverAll]
    exact (CbRun.of_step (cbStep_deliver cfg c e)).trans (ih _)

end Sio.Client

namespace Sio.Client

theorem ctrOf_setCtr (ctr : List (Ns × Nat)) (n m : Ns) (v : Nat) :
    ctrOf (setCtr ctr n v) m = if m = n then v else ctrOf ctr m := by
  unfold ctrOf setCtr
  by_cases h : m = n
  · subst h; simp
  · have h' : ¬ (n = m) := fun hq => h hq.symm
    simp only [List.find?_cons, h', decide_false, h, if_false]
    rw [List.find?_filter]
    have : (fun a : Ns × Nat => decide (decide (a.1 ≠ n) = true ∧ decide (a.1 = m) = true))
        = (fun x => decide (x.1 = m)) := by
      funext x
      by_cases hx : x.1 = m
      · subst hx; simp [h]
      · simp [hx]
    rw [this]

theorem cbRun_genId (c : Cli) (n : Ns) (cb : Cb) : CbRun [cb.tok] c (genId c n cb).1 [] := by
  refine ⟨fun t => ?_, fun hi => ⟨?_, ?_⟩⟩
  · simp [genId, tokCnt, List.count_cons, List.count_append]
  · intro e he
    simp only [genId, List.mem_append, List.mem_singleton] at he ⊢
    rw [ctrOf_setCtr]
    rcases he with he | he
    · have := hi.le e he
      split
      · rename_i hq; rw [hq] at this; omega
      · exact this
    · subst he; simp
  · simp only [genId, List.map_append, List.map_cons, List.map_nil]
    rw [List.nodup_append]
    refine ⟨hi.nodup, by simp, ?_⟩
    intro x hx y hy
    simp only [List.mem_singleton] at hy
    subst hy
    simp only [List.mem_map] at hx
    obtain ⟨e, he, rfl⟩ := hx
    intro hq
    simp only [Prod.mk.injEq] at hq
    have := hi.le e he
    rw [hq.1] at this
    omega

/-- **id_unique**: the id `_generate_ack_id` hands out is not the id of any callback outstanding on
    that namespace. -/
theorem genId_fresh {c : Cli} (hi : IdInv c) (n : Ns) (cb : Cb) :
    ∀ e ∈ c.cbs, e.1 = n → e.2.1 ≠ (genId c n cb).2 := by
  intro e he hn hq
  have := hi.le e he
  rw [hn] at this
  simp only [genId] at hq
  omega

theorem cbRun_emitCore (cfg : Cfg) (c : Cli) (ev : Str) (d : Data) (ns : Option Ns) (cb : Option Cb)
    (reacts : List Ev) :
    CbRun (match cb with | some k => [k.tok] | none => []) c
      (emitCore cfg c ev d ns cb reacts).1 (emitCore cfg c ev d ns cb reacts).2.1 := by
  cases cb with
  | none =>
    unfold emitCore
    simp only
    split
    · exact ⟨(fun t => by simp [outCnt, cbOuts_cons, cbOf]), id⟩
    · split
      · have h := cbRun_deliverAll cfg reacts c
        refine ⟨fun t => ?_, h.inv⟩
        have := h.count t
        rw [outCnt_cons_nocb _ _ _ rfl]; exact this
      · exact .refl c
  | some k =>
    unfold emitCore
    simp only
    have hg := cbRun_genId c (nsOr ns) k
    split
    · exact ⟨(fun t => by simp [outCnt, cbOuts_cons, cbOf]), id⟩
    · split
      · have hd := cbRun_deliverAll cfg reacts (genId c (nsOr ns) k).1
        have h := hg.trans hd
        refine ⟨fun t => ?_, h.inv⟩
        have := h.count t
        rw [outCnt_cons_nocb _ _ _ rfl]
        simpa using this
      · exact hg

end Sio.Client

namespace Sio.Client

/-- the callback tokens an input registers -/
def inToks : Input → List Nat
  | .emit _ _ _ (some cb) _ => [cb.tok]
  | .send _ _ (some cb) _ => [cb.tok]
  | .call _ _ _ tok _ => [tok]
  | _ => []

def histToks (is : List Input) : List Nat := is.flatMap inToks

theorem CbRun.weaken {ts : List Nat} {c c' : Cli} {o o' : List Out} (h : CbRun ts c c' o)
    (ho : cbOuts o' = cbOuts o) : CbRun ts c c' o' :=
  ⟨(fun t => by have := h.count t; simpa [outCnt, ho] using this), h.inv⟩

theorem cbRun_apiDisconnect (cfg : Cfg) (c : Cli) :
    CbRun [] c (apiDisconnect cfg c).1 (apiDisconnect cfg c).2 := by
  unfold apiDisconnect
  have h := CbRun.of_step (cbStep_eioDisconnect cfg c rClient)
  exact h.weaken (by simp [cbOuts_flatMap_sendPkt])

theorem cbRun_connectLoop (cfg : Cfg) (auth : J) (nss : List Ns) : ∀ (c : Cli) (rs : List (List Ev)),
    CbRun [] c (connectLoop cfg auth c nss rs).1 (connectLoop cfg auth c nss rs).2 := by
  induction nss with
  | nil => intro c rs; exact .refl c
  | cons n ns ih =>
    intro c rs
    simp only [connectLoop]
    split
    · have h := (cbRun_deliverAll cfg (rs.headD []) c).trans (ih _ rs.tail)
      exact h.weaken (by simp [cbOuts_cons, cbOf])
    · exact .refl c

theorem cbRun_connect (cfg : Cfg) (c : Cli) (nss : List Ns) (auth : Auth) (wait : Bool) (oc : Outcome)
    (reacts : List (List Ev)) :
    CbRun [] c (connect cfg c nss auth wait oc reacts).1 (connect cfg c nss auth wait oc reacts).2 := by
  unfold connect
  split
  · exact ⟨(fun t => by simp [outCnt, cbOuts_cons, cbOf]), id⟩
  · simp only
    split
    · exact ⟨(fun t => by simp [outCnt, cbOuts_cons, cbOf]), fun hi => ⟨hi.le, hi.nodup⟩⟩
    · cases oc with
      | refuse arg =>
        simp only
        refine ⟨fun t => ?_, fun hi => ⟨hi.le, hi.nodup⟩⟩
        have : cbOuts (nss.flatMap (fun n => (trigger cfg sConnectError n [arg]).1)) = [] := by
          induction nss with
          | nil => rfl
          | cons a l ih => simp [List.flatMap_cons, ih, cbOuts_trigger]
        simp [outCnt, cbOuts_cons, cbOf, this]
      | accept es =>
        simp only
        have hoa : cbOuts (if auth.callable = true then [Out.authCall] else []) = [] := by
          split <;> simp [cbOuts_cons, cbOf]
        have h0 : CbRun [] c { c with requested := nss, namespaces := [], eio := .connected, sid := some es } [] :=
          ⟨(fun t => by simp), fun hi => ⟨hi.le, hi.nodup⟩⟩
        have hl := h0.trans (cbRun_connectLoop cfg auth.real nss
          { c with requested := nss, namespaces := [], eio := .connected, sid := some es } reacts)
        split
        · have hd := hl.trans (cbRun_apiDisconnect cfg _)
          refine ⟨fun t => ?_, fun hi => ?_⟩
          · have := hd.count t
            simpa [outCnt, cbOuts_cons, cbOf, hoa] using this
          · have := hd.inv hi
            exact ⟨this.le, this.nodup⟩
        · refine ⟨fun t => ?_, fun hi => ?_⟩
          · have := hl.count t
            simpa [outCnt, cbOuts_cons, cbOf, hoa] using this
          · have := hl.inv hi
            exact ⟨this.le, this.nodup⟩

theorem cbRun_step (cfg : Cfg) (c : Cli) (i : Input) :
    CbRun (inToks i) c (step cfg c i).1 (step cfg c i).2 := by
  cases i with
  | connect nss auth wait oc reacts => exact cbRun_connect cfg c nss auth wait oc reacts
  | emit ev d ns cb reacts =>
    have h := cbRun_emitCore cfg c ev d ns cb reacts
    simp only [step, emit]
    cases cb with
    | none => exact h.weaken (by split <;> simp [cbOuts_cons, cbOf])
    | some k => exact h.weaken (by split <;> simp [cbOuts_cons, cbOf])
  | send d ns cb reacts =>
    have h := cbRun_emitCore cfg c sMessage d ns cb reacts
    simp only [step, emit]
    cases cb with
    | none => exact h.weaken (by split <;> simp [cbOuts_cons, cbOf])
    | some k => exact h.weaken (by split <;> simp [cbOuts_cons, cbOf])
  | call ev d ns tok reacts =>
    have h := cbRun_emitCore cfg c ev d ns (some ⟨tok, .call⟩) reacts
    simp only [step, call]
    split
    · exact h
    · split <;> exact h.weaken (by simp [cbOuts_cons, cbOf])
  | disconnect =>
    simp only [step]
    exact (cbRun_apiDisconnect cfg c).weaken (by simp [cbOuts_cons, cbOf])
  | ev e => exact CbRun.of_step (cbStep_deliver cfg c e)

theorem cbRun_run (cfg : Cfg) (is : List Input) : ∀ c,
    CbRun (histToks is) c (run cfg c is).1 (run cfg c is).2 := by
  induction is with
  | nil => intro c; exact .refl c
  | cons i is ih =>
    intro c
    simp only [run, histToks, List.flatMap_cons]
    exact (cbRun_step cfg c i).trans (ih _)

end Sio.Client
