/-
  K8 — handler resolution of `base_server.py` / `base_client.py` (`_get_event_handler`,
  `_get_namespace_handler`), the ordering inside `_trigger_event` of `server.py`, `async_server.py`,
  `client.py`, `async_client.py` (function handlers first, class-based namespaces second) and
  `trigger_event` of the four class-based namespace classes (`namespace.py`, `async_namespace.py`).

  The registries are ARBITRARY functions, so nothing here is bounded:
    `fn ns ev`    — `ns in self.handlers and ev in self.handlers[ns]`   (either key may be "*")
    `cls ns`      — `ns in self.namespace_handlers`                     (the key may be "*")
    `attr ns a`   — `hasattr(self.namespace_handlers[ns], a)`
  The reserved event list is a parameter; `resolveServer` … `resolveAsyncClient` instantiate it with
  the lists regenerated from the source on every run (`Sio/Generated/Reserved.lean`).
  Core Lean only.
-/
import Sio.Model.Json
import Sio.Generated.Reserved
namespace Sio.Dispatch

abbrev Ns := Str
abbrev Ev := Str

/-- the catch-all key `'*'` -/
def star : Str := ['*']

structure Reg where
  fn : Ns → Ev → Bool
  cls : Ns → Bool
  attr : Ns → Str → Bool

/-- Which registered object is selected: `handlers[ns][ev]`, `handlers[ns]['*']`,
    `handlers['*'][ev]`, `handlers['*']['*']`, `namespace_handlers[ns]`, `namespace_handlers['*']`. -/
inductive Slot where
  | fnNsEv | fnNsStar | fnStarEv | fnStarStar | clsNs | clsStar
  deriving DecidableEq, Repr, Inhabited

/-- One prepended argument: the event name or the namespace. -/
inductive PArg where
  | ev | ns
  deriving DecidableEq, Repr, Inhabited

inductive Res where
  /-- the callable of `slot` is called with `pre ++ args`: for a function slot the registered
      function, for a class slot the attribute `on_<event>` (`methodName ev`) of the class-based
      namespace object stored under that key -/
  | invoke (slot : Slot) (pre : List PArg)
  /-- the class-based namespace of `slot` was selected but has no attribute `on_<event>`:
      nothing runs, `trigger_event` returns `None` -/
  | dropped (slot : Slot)
  /-- no target at all: the server returns `self.not_handled`, the client `None` -/
  | notHandled
  deriving DecidableEq, Repr, Inhabited

def Slot.isFn : Slot → Bool
  | .fnNsEv | .fnNsStar | .fnStarEv | .fnStarStar => true
  | _ => false

/-- `'on_' + (event or '')` -/
def methodName (ev : Ev) : Str := ['o', 'n', '_'] ++ ev

/-- an exact-name lookup `event != '*' and event in self.handlers[n]` (since /repo 6dcbd32 the
    catch-all KEY `'*'` is never matched as an event name) -/
def Reg.exact (r : Reg) (n : Ns) (ev : Ev) : Bool := ev != star && r.fn n ev

/-- the three exact-NAMESPACE presence bits: `namespace != '*' and namespace in …` -/
def Reg.nsExact (r : Reg) (ns : Ns) (ev : Ev) : Bool := ns != star && r.exact ns ev
def Reg.nsCatch (r : Reg) (ns : Ns) : Bool := ns != star && r.fn ns star
def Reg.nsCls (r : Reg) (ns : Ns) : Bool := ns != star && r.cls ns

def Reg.hasMethod (r : Reg) (ns : Ns) (ev : Ev) : Bool := r.attr ns (methodName ev)

/-- The part of `_get_event_handler` under `if namespace != '*' and namespace in self.handlers:`
    (since /repo 74a0887 the catch-all KEY `'*'` is never matched as a namespace name)
    (`if event != '*' and event in self.handlers[namespace]: … elif …`) -/
def eventHandlerNs (reserved : List Ev) (r : Reg) (ns : Ns) (ev : Ev) : Option (Slot × List PArg) :=
  if ns == star then none                                     -- `namespace != '*' and namespace in …`
  else if r.exact ns ev then some (.fnNsEv, [])               -- handler = handlers[ns][ev]
  else if !reserved.contains ev && r.fn ns star then
    some (.fnNsStar, [.ev])                                   -- args = (event, *args)
  else none

/-- The part of `_get_event_handler` under `if handler is None and '*' in self.handlers:` -/
def eventHandlerStar (reserved : List Ev) (r : Reg) (_ns : Ns) (ev : Ev) : Option (Slot × List PArg) :=
  if r.exact star ev then some (.fnStarEv, [.ns])             -- args = (namespace, *args)
  else if !reserved.contains ev && r.fn star star then
    some (.fnStarStar, [.ev, .ns])                            -- args = (event, namespace, *args)
  else none

/-- `_get_event_handler` (identical text in `base_server.py` and, since a085733, `base_client.py`) -/
def getEventHandler (reserved : List Ev) (r : Reg) (ns : Ns) (ev : Ev) : Option (Slot × List PArg) :=
  match eventHandlerNs reserved r ns ev with
  | some h => some h
  | none => eventHandlerStar reserved r ns ev

/-- `BaseServer._get_namespace_handler`: `if ns != '*' and ns in nh: …` then `if handler is None and '*' in nh: …` -/
def getNamespaceHandlerS (r : Reg) (ns : Ns) : Option (Slot × Ns × List PArg) :=
  let h : Option (Slot × Ns × List PArg) :=
    if ns != star && r.cls ns then some (.clsNs, ns, []) else none
  match h with
  | some x => some x
  | none => if r.cls star then some (.clsStar, star, [.ns]) else none

/-- `BaseClient._get_namespace_handler`: `if ns != '*' and ns in nh: …  elif '*' in nh: …` -/
def getNamespaceHandlerC (r : Reg) (ns : Ns) : Option (Slot × Ns × List PArg) :=
  if ns != star && r.cls ns then some (.clsNs, ns, [])
  else if r.cls star then some (.clsStar, star, [.ns])
  else none

/-- `trigger_event(event, *args)` of the class-based namespace stored under `key`:
    `handler_name = 'on_' + (event or '')`; called if `hasattr`, otherwise falls off the end. -/
def triggerEvent (r : Reg) (slot : Slot) (key : Ns) (ev : Ev) (pre : List PArg) : Res :=
  bif r.attr key (methodName ev) then .invoke slot pre     -- getattr(self, handler_name)(*args)
  else .dropped slot

/-- `Server._trigger_event` / `AsyncServer._trigger_event` -/
def resolveS (reserved : List Ev) (r : Reg) (ns : Ns) (ev : Ev) : Res :=
  match getEventHandler reserved r ns ev with
  | some (slot, pre) => .invoke slot pre
  | none =>
    match getNamespaceHandlerS r ns with
    | some (slot, key, pre) => triggerEvent r slot key ev pre
    | none => .notHandled

/-- `Client._trigger_event` / `AsyncClient._trigger_event` -/
def resolveC (reserved : List Ev) (r : Reg) (ns : Ns) (ev : Ev) : Res :=
  match getEventHandler reserved r ns ev with
  | some (slot, pre) => .invoke slot pre
  | none =>
    match getNamespaceHandlerC r ns with
    | some (slot, key, pre) => triggerEvent r slot key ev pre
    | none => .notHandled

/-- The four concrete classes. -/
inductive Kind where
  | server | asyncServer | client | asyncClient
  deriving DecidableEq, Repr, Inhabited

/-- `reserved_events` as the class sees it (regenerated from the source on every run) -/
def reservedOf : Kind → List Ev
  | .server => Generated.serverReserved
  | .asyncServer => Generated.asyncServerReserved
  | .client => Generated.clientReserved
  | .asyncClient => Generated.asyncClientReserved

def resolve : Kind → Reg → Ns → Ev → Res
  | .server => resolveS Generated.serverReserved
  | .asyncServer => resolveS Generated.asyncServerReserved
  | .client => resolveC Generated.clientReserved
  | .asyncClient => resolveC Generated.asyncClientReserved

abbrev resolveServer := resolve .server
abbrev resolveAsyncServer := resolve .asyncServer
abbrev resolveClient := resolve .client
abbrev resolveAsyncClient := resolve .asyncClient

/-- the actual argument prefix for concrete names -/
def PArg.render (ns : Ns) (ev : Ev) : PArg → Str
  | .ev => ev
  | .ns => ns

/-- The documented precedence table of the property statement, written independently of the
    transcription above: first match over the six presence bits (plus "the selected class has the
    method").  `res` = the event is reserved; `b1`, `b3` are the EXACT-event-name bits (`Reg.exact`: false
    for an event literally named `"*"`), `b2`, `b4` the catch-all-event bits; `b1`, `b2`, `b5` are the
    EXACT-namespace bits (`Reg.nsExact/nsCatch/nsCls`: false for a namespace literally named `"*"`). -/
def table (res b1 b2 b3 b4 b5 b6 m5 m6 : Bool) : Res :=
  match b1, b2 && !res, b3, b4 && !res, b5, b6 with
  | true, _, _, _, _, _ => .invoke .fnNsEv []
  | false, true, _, _, _, _ => .invoke .fnNsStar [.ev]
  | false, false, true, _, _, _ => .invoke .fnStarEv [.ns]
  | false, false, false, true, _, _ => .invoke .fnStarStar [.ev, .ns]
  | false, false, false, false, true, _ => bif m5 then .invoke .clsNs [] else .dropped .clsNs
  | false, false, false, false, false, true => bif m6 then .invoke .clsStar [.ns] else .dropped .clsStar
  | false, false, false, false, false, false => .notHandled

end Sio.Dispatch
