/-
  K7r — the reconnection policy of src/socketio/client.py / async_client.py
  (`_handle_reconnect`, the decision in `_handle_eio_disconnect`, `shutdown()`), transcribed.

  Time is exact: every quantity is a rational number (`Rat` is core Lean).  On the grid the
  harness generates (delays, caps, factors and `random()` values dyadic with small numerators)
  CPython's binary floating point computes exactly the same numbers, so the observed timeouts
  and the model's are compared for equality, not up to a tolerance.

      attempt_count = 0
      current_delay = self.reconnection_delay
      while True:
          delay = current_delay
          current_delay *= 2                                   -- doubling BEFORE cap and jitter
          if delay > self.reconnection_delay_max:              -- strict: cap only when above
              delay = self.reconnection_delay_max
          delay += self.randomization_factor * (2 * random.random() - 1)
          if self._reconnect_abort.wait(delay): … __disconnect_final per namespace; break
          attempt_count += 1
          try: self.connect(stored url/headers/auth/transports/namespaces/socketio_path)
          except (ConnectionError, ValueError): pass
          else: self._reconnect_task = None; break       -- cleared on this exit ONLY
          if self.reconnection_attempts and attempt_count >= self.reconnection_attempts:
              … __disconnect_final per namespace; break
      reconnecting_clients.remove(self)

  Indices are 0-based here: iteration `k` performs the `(k+1)`-th wait and, unless aborted, the
  `(k+1)`-th attempt.  `attempt_count` equals the iteration index at the top of every iteration
  (it is incremented exactly once per iteration that is not left through the abort `break`),
  so one variable `k` plays both roles.
-/
import Sio.Model.Json
namespace Sio.Reconnect

abbrev Q := Rat

/-- constructor parameters of `BaseClient` that the policy reads -/
structure Cfg where
  reconnection : Bool
  attempts : Nat          -- reconnection_attempts, 0 = no limit
  delay : Q               -- reconnection_delay
  delayMax : Q            -- reconnection_delay_max
  rf : Q                  -- randomization_factor
  deriving Repr

inductive Final where
  | connected             -- an attempt succeeded
  | gaveUp                -- `reconnection_attempts` reached
  | aborted               -- the abort event was set when a back-off wait returned
  | running               -- fuel exhausted: the effort is still going on
  deriving Repr, DecidableEq

structure Res where
  waits : List Q          -- timeouts passed to `_reconnect_abort.wait` / `asyncio.wait_for`, in order
  attempts : Nat          -- number of `connect()` calls made
  final : Final
  deriving Repr

/-- `if delay > max: delay = max` -/
def capped (cfg : Cfg) (cur : Q) : Q := if cur > cfg.delayMax then cfg.delayMax else cur

/-- `randomization_factor * (2 * random.random() - 1)` -/
def jitter (cfg : Cfg) (r : Q) : Q := cfg.rf * (2 * r - 1)

/-- the timeout of the wait of an iteration whose `current_delay` is `cur` and whose
    `random.random()` returned `r` -/
def waitOf (cfg : Cfg) (cur r : Q) : Q := capped cfg cur + jitter cfg r

/-- The `while True` loop.  `outcomes k`: does the `(k+1)`-th `connect()` return normally;
    `rands k`: the `(k+1)`-th value of `random.random()`; `abortAt = some k`: the `(k+1)`-th wait
    returns with the abort event set (whatever its timeout: `Event.wait(t ≤ 0)` returns the flag, and
    the AsyncClient reads `is_set()` after a `wait_for` that timed out — repaired in 411c959, before
    which a timeout ≤ 0 never saw the flag).  `k` = `attempt_count`, `cur` = `current_delay`. -/
def loop (cfg : Cfg) (outcomes : Nat → Bool) (rands : Nat → Q) (abortAt : Option Nat) :
    Nat → Nat → Q → Res
  | 0, k, _ => ⟨[], k, .running⟩
  | fuel + 1, k, cur =>
    let w := waitOf cfg cur (rands k)
    if abortAt = some k then ⟨[w], k, .aborted⟩
    else if outcomes k then ⟨[w], k + 1, .connected⟩
    else if cfg.attempts ≠ 0 ∧ cfg.attempts ≤ k + 1 then ⟨[w], k + 1, .gaveUp⟩
    else
      let r := loop cfg outcomes rands abortAt fuel (k + 1) (cur * 2)
      ⟨w :: r.waits, r.attempts, r.final⟩

/-- `_handle_reconnect`, observed for at most `fuel` iterations -/
def reconnect (cfg : Cfg) (outcomes : Nat → Bool) (rands : Nat → Q) (abortAt : Option Nat)
    (fuel : Nat) : Res :=
  loop cfg outcomes rands abortAt fuel 0 cfg.delay

/-! ### the decision in `_handle_eio_disconnect` -/

/-- `engineio.Client.state` -/
inductive EioState where
  | connected | disconnecting | disconnected
  deriving Repr, DecidableEq

/-- why the engine.io `disconnect` event is raised -/
inductive Cause where
  | transportError        -- read loop ended on its own (`reason.TRANSPORT_ERROR`)
  | clientDisconnect      -- application called `disconnect()`
  | serverDisconnect      -- Socket.IO DISCONNECT of the last namespace → `eio.disconnect(abort=True)`
  | serverClose           -- engine.io CLOSE packet → `eio.disconnect(abort=True, reason=SERVER_DISCONNECT)`
  deriving Repr, DecidableEq

/-- python-engineio's contract (DESIGN §4; measured again on every run of the check): the value
    of `eio.state` while the `disconnect` handlers run. -/
def eioStateDuring : Cause → EioState
  | .transportError => .connected
  | _ => .disconnecting

/-- the reason string handed to the application's `disconnect` handler -/
inductive Reason where
  | clientDisconnect | serverDisconnect | transportError
  deriving Repr, DecidableEq

def reasonOf : Cause → Reason
  | .transportError => .transportError
  | .clientDisconnect => .clientDisconnect
  | .serverDisconnect => .serverDisconnect
  | .serverClose => .serverDisconnect

/-- `will_reconnect = self.reconnection and self.eio.state == 'connected'` -/
def willReconnect (cfg : Cfg) (st : EioState) : Bool := cfg.reconnection && st == .connected

/-- `if will_reconnect and not self._reconnect_task: start_background_task(_handle_reconnect)` -/
def startsEffort (cfg : Cfg) (st : EioState) (task : Bool) : Bool := willReconnect cfg st && !task

/-! ### what one effort does, event by event -/

abbrev Ns := Str

/-- what `connect()` stored: `connection_url/headers/auth/transports`, `socketio_path` (opaque to
    the model, type `P`) and `connection_namespaces` (whose elements the handlers are invoked for) -/
structure Stored (P : Type) where
  conn : P
  nss : List Ns
  deriving Repr

/-- what happens inside one `connect()` of the effort -/
inductive Outcome where
  | served (acc : List Bool)   -- transport connects; namespace `i` accepted iff `acc[i]` (default: accepted)
  | transport                  -- `eio.connect` raises `ConnectionError`
  | lost                       -- transport connects and is lost (transport error) before any answer
  deriving Repr

def accepted (acc : List Bool) (i : Nat) : Bool := acc.getD i true

def Outcome.success (nss : List Ns) : Outcome → Bool
  | .served acc => (List.range nss.length).all (accepted acc)
  | _ => false

inductive HName where
  | connect | connectError | disconnect (r : Reason) | disconnectFinal
  deriving Repr, DecidableEq

inductive Ev (P : Type) where
  | wait (d : Q)                        -- a back-off wait with this timeout
  | attempt (p : Stored P)              -- `connect()` called with these parameters
  | handler (h : HName) (ns : Ns)       -- application handler invoked
  | notified (st : EioState) (start : Bool)  -- engine.io disconnect notification: state seen, effort started?
  | taskCleared                         -- `_reconnect_task = None`
  | left                                -- `reconnecting_clients.remove(self)`
  deriving Repr

def enum {α : Type} : Nat → List α → List (Nat × α)
  | _, [] => []
  | i, a :: as => (i, a) :: enum (i + 1) as

/-- handler invocations (and nested notifications) caused by one `connect()` inside the effort;
    `task = true` there, so a nested notification never starts a second effort.  A `connect()`
    that finds a namespace refused calls `self.disconnect()` on the live transport before raising
    (a requested disconnect: engine.io notifies with state 'disconnecting'). -/
def attemptEvents {P : Type} (cfg : Cfg) (nss : List Ns) : Outcome → List (Ev P)
  | .served acc =>
    (enum 0 nss).map (fun (i, n) =>
      .handler (if accepted acc i then .connect else .connectError) n) ++
    (if (Outcome.served acc).success nss then []
     else [.notified (eioStateDuring .clientDisconnect)
             (startsEffort cfg (eioStateDuring .clientDisconnect) true)])
  | .transport => nss.map (fun n => .handler .connectError n)
  | .lost => [.notified (eioStateDuring .transportError)
                (startsEffort cfg (eioStateDuring .transportError) true)]

/-- the end of the effort.  `_reconnect_task = None` is executed on the success path ONLY (known
    finding `stale-reconnect-task`: after a give-up or an abort the finished task object stays in
    `_reconnect_task`); `reconnecting_clients.remove(self)` on every exit. -/
def finalEvents {P : Type} (nss : List Ns) : Final → List (Ev P)
  | .connected => [.taskCleared, .left]
  | .gaveUp => nss.map (fun n => .handler .disconnectFinal n) ++ [.left]
  | .aborted => nss.map (fun n => .handler .disconnectFinal n) ++ [.left]
  | .running => []

def body {P : Type} (cfg : Cfg) (s : Stored P) (outs : Nat → Outcome) (attempts : Nat) :
    Nat → List Q → List (Ev P)
  | _, [] => []
  | k, w :: ws =>
    (.wait w :: (if k < attempts then .attempt s :: attemptEvents cfg s.nss (outs k) else []))
      ++ body cfg s outs attempts (k + 1) ws

/-- the trace of one effort: the policy (`reconnect`) decides waits, number of attempts and the
    end; the rest is layout -/
def effort {P : Type} (cfg : Cfg) (s : Stored P) (outs : Nat → Outcome) (rands : Nat → Q)
    (abortAt : Option Nat) (fuel : Nat) : Res × List (Ev P) :=
  let r := reconnect cfg (fun k => (outs k).success s.nss) rands abortAt fuel
  (r, body cfg s outs r.attempts 0 r.waits ++ finalEvents s.nss r.final)

/-! ### a client over several connections -/

structure Cli (P : Type) where
  cfg : Cfg
  stored : Option (Stored P)
  connected : Bool          -- `sio.connected`
  task : Bool               -- `bool(self._reconnect_task)`
  live : List Ns            -- keys of `self.namespaces`: accepted by the server and not ended since
  deriving Repr

def Cli.init {P : Type} (cfg : Cfg) : Cli P := ⟨cfg, none, false, false, []⟩

/-- script of the effort a loss may start -/
structure Script where
  outs : Nat → Outcome
  rands : Nat → Q
  abortAt : Option Nat
  fuel : Nat

inductive Input (P : Type) where
  | connect (s : Stored P)            -- application `connect(...)`, the server accepts everything
  | lose (c : Cause) (sc : Script)    -- the connection ends for this cause
  | connectNoWait (s : Stored P) (acc : List Bool)
      -- application `connect(..., wait=False)`: returns as soon as the transport is up; the server
      -- accepts namespace `i` iff `acc[i]` (CONNECT_ERROR otherwise), the client stays up on the rest
  | nsEnd (n : Ns)                    -- the server ends ONE namespace (DISCONNECT packet), others stay

/-- the stored namespaces the server accepted -/
def acceptedNss (nss : List Ns) (acc : List Bool) : List Ns :=
  ((enum 0 nss).filter (fun p => accepted acc p.1)).map (fun p => p.2)

/-- is the default namespace among the refused ones?  (`_handle_error('/')` empties the whole
    table - C08's known finding `root-refused-nowait-stale-namespaces`, outside this model) -/
def rootRefused (nss : List Ns) (acc : List Bool) : Bool :=
  (enum 0 nss).any (fun p => p.2 == ['/'] && !accepted acc p.1)

/-- One input.  `none` = the input is not applicable (connect while connected, loss while not,
    ending a namespace that is not connected or is the last one - that is a `lose .serverDisconnect`).
    What `connect()` stored (`stored`) is written by `connect` inputs ONLY: neither the server ending
    or refusing a namespace nor a loss changes it, and every attempt of an effort carries it. -/
def step {P : Type} (c : Cli P) : Input P → Option (Cli P × List (Ev P))
  | .connect s =>
    if c.connected then none
    else some ({ c with stored := some s, connected := true, live := s.nss },
               .attempt s :: s.nss.map (fun n => .handler .connect n))
  | .connectNoWait s acc =>
    if c.connected || rootRefused s.nss acc then none
    else some ({ c with stored := some s, connected := true, live := acceptedNss s.nss acc },
               .attempt s :: (enum 0 s.nss).map (fun (i, n) =>
                 .handler (if accepted acc i then .connect else .connectError) n))
  | .nsEnd n =>
    if c.connected && c.live.contains n && decide (1 < c.live.length) then
      -- `_handle_disconnect`: both handlers, the namespace leaves `self.namespaces`; the transport
      -- stays up, engine.io is not involved, nothing is decided about reconnecting
      some ({ c with live := c.live.erase n },
            [.handler (.disconnect .serverDisconnect) n, .handler .disconnectFinal n])
    else none
  | .lose cause sc =>
    match c.connected, c.stored with
    | true, some s =>
      let st := eioStateDuring cause
      let will := willReconnect c.cfg st
      let start := startsEffort c.cfg st c.task
      -- the handlers run for the namespaces connected NOW (`self.namespaces`) …
      let hs : List (Ev P) := c.live.flatMap (fun n =>
        .handler (.disconnect (reasonOf cause)) n ::
          (if will then [] else [.handler .disconnectFinal n]))
      -- server DISCONNECT packets are handled namespace by namespace before engine.io is told;
      -- the handler order is the same
      if start then
        -- … the effort uses what `connect()` stored
        let (r, evs) := effort c.cfg s sc.outs sc.rands sc.abortAt sc.fuel
        let c' : Cli P := { c with connected := r.final == .connected,
                                   task := r.final != .connected,
                                   live := if r.final == .connected then s.nss else [] }
        some (c', hs ++ [.notified st true] ++ evs)
      else
        some ({ c with connected := false, live := [] }, hs ++ [.notified st false])
    | _, _ => none

/-- Region of the known finding `stale-reconnect-task`: this input starts an effort that does not
    end connected (give-up, abort, or still running when the observation stops). -/
def effortFailed {P : Type} (c : Cli P) : Input P → Bool
  | .connect _ => false
  | .connectNoWait _ _ => false
  | .nsEnd _ => false
  | .lose cause sc =>
    match c.connected, c.stored with
    | true, some s =>
      startsEffort c.cfg (eioStateDuring cause) c.task &&
        (effort c.cfg s sc.outs sc.rands sc.abortAt sc.fuel).1.final != .connected
    | _, _ => false

/-- no effort of the history failed -/
def cleanHistory {P : Type} (c : Cli P) : List (Input P) → Bool
  | [] => true
  | i :: is =>
    !effortFailed c i &&
      match step c i with
      | none => true
      | some (c', _) => cleanHistory c' is

def run {P : Type} (c : Cli P) : List (Input P) → Option (Cli P × List (Ev P))
  | [] => some (c, [])
  | i :: is =>
    match step c i with
    | none => none
    | some (c', e) =>
      match run c' is with
      | none => none
      | some (c'', e') => some (c'', e ++ e')

end Sio.Reconnect
