/-
  K2 — argument packing at `emit`/`send`/`call`, the multi-frame send path, the receiver's
  reassembly and argument unpacking at dispatch; for the default (JSON + binary attachments) and
  the msgpack packet classes.  Transcribed from

    client.py / async_client.py   emit, call, _send_packet, _handle_eio_message, _handle_event,
                                  _handle_ack
    server.py / async_server.py   call, _send_packet, _handle_eio_message,
                                  _handle_event_internal, _handle_ack
    manager.py / async_manager.py emit, trigger_callback
    msgpack_packet.py, packet.py  _to_dict, MsgPackPacket.encode/decode

  The four implementations are the same function of (event, data, namespace, id); they differ in
  who keeps the id ↔ callback table, which is not part of this kernel.
  Core Lean only.
-/
import Sio.Model.Codec
namespace Sio
namespace Args

/-! ### packing -/

/-- `data=[event] + data` after `Data.pack` (tuple ↦ its elements, `None` ↦ nothing, anything
    else — a list included — exactly one element) -/
def eventPayload (ev : Str) (d : Data) : J := .arr (.str ev :: d.pack)

/-- the ACK payload built from what the handler returned: `[]`, `list(r)` or `[r]` -/
def ackPayload (ret : Data) : J := .arr ret.pack

/-- `packet_class(EVENT, namespace=namespace, data=[event] + data, id=id)`; `namespace` has gone
    through `namespace or '/'`.  `usesBinary = false` is the msgpack class. -/
def mkEvent (usesBinary : Bool) (ev : Str) (d : Data) (ns : Str) (id : Option Nat) : Except Err Packet :=
  mkPacket usesBinary EVENT (some (eventPayload ev d)) (some ns) id none

/-- `packet_class(ACK, namespace=namespace, id=id, data=data)` -/
def mkAck (usesBinary : Bool) (ret : Data) (ns : Str) (id : Nat) : Except Err Packet :=
  mkPacket usesBinary ACK (some (ackPayload ret)) (some ns) (some id) none

/-! ### what travels: engine.io MESSAGE payloads -/

/-- one engine.io MESSAGE: a `str` or a `bytes` -/
inductive Frame where
  | text (s : Str)
  | bin (b : Bytes)
  deriving Repr, Inhabited

/-- the value `add_attachment` appends (it takes whatever frame arrives, without a type test) -/
def Frame.toJ : Frame → J
  | .text s => .str s
  | .bin b => .bin b

/-- `_send_packet`: `encoded_packet = pkt.encode()`; a list is sent element by element — the text
    frame first, then the attachments in the order `encode` produced them. -/
def send (dumps : J → Str) (p : Packet) : List Frame :=
  let e := encode dumps p
  .text e.1 :: (e.2.getD []).map Frame.bin

/-- a sequence of messages by one sender is the concatenation of their frame groups -/
def sendAll (dumps : J → Str) (ps : List Packet) : List Frame := ps.flatMap (send dumps)

/-! ### the receiver: `_handle_eio_message` up to dispatch -/

/-- One frame.  State = `_binary_packet` (a packet still owed attachments).  Result: new state and
    the packet that became complete, if any.
    * pending packet: `add_attachment(data)`;
    * otherwise `packet_class(encoded_packet=data)`; the two binary types are parked (whatever
      their attachment count), every other packet is complete.
    A `bytes` frame while nothing is pending is not a text packet (`int(b'..')`/`find('-')` on
    bytes raise): an error. -/
def rxStep (cls : Char → DC) (loads : Str → Except Err J) (st : Option Partial) (f : Frame) :
    Except Err (Option Partial × Option Packet) :=
  match st with
  | some pt => do
    match ← addAttachment pt f.toJ with
    | .more pt' => pure (some pt', none)
    | .complete pk => pure (none, some pk)
  | none =>
    match f with
    | .bin _ => .error .typeError
    | .text s => do
      let (p, n) ← decode cls loads s
      if isBinType p.type then pure (some ⟨p, n, []⟩, none) else pure (none, some p)

/-- a FIFO transport hands the frames over in order; the packets come out in completion order.
    (An exception is contained by engine.io and aborts only that frame; in this model it ends the
    run — the theorems are about runs without one.) -/
def receiveFrom (cls : Char → DC) (loads : Str → Except Err J) :
    Option Partial → List Frame → Except Err (List Packet × Option Partial)
  | st, [] => .ok ([], st)
  | st, f :: fs => do
    let (st', out) ← rxStep cls loads st f
    let (rest, fin) ← receiveFrom cls loads st' fs
    pure ((match out with | some p => p :: rest | none => rest), fin)

def receive (cls : Char → DC) (loads : Str → Except Err J) (fs : List Frame) :
    Except Err (List Packet × Option Partial) :=
  receiveFrom cls loads none fs

/-! ### dispatch: which application function is called with which arguments -/

/-- `data[0]`, `data[1:]` with Python's indexing on whatever the decoder produced -/
def splitArgs : Option J → Except Err (J × List J)
  | none => .error .typeError
  | some (.arr (x :: xs)) => .ok (x, xs)
  | some (.arr []) => .error .indexError
  | some (.str (c :: cs)) => .ok (.str [c], cs.map (fun c => .str [c]))
  | some (.str []) => .error .indexError
  | some (.bin (b :: bs)) => .ok (.int b.toNat, bs.map (fun b => .int b.toNat))
  | some (.bin []) => .error .indexError
  | some (.obj _) => .error .keyError
  | some _ => .error .typeError

/-- `callback(*data)` -/
def starArgs : Option J → Except Err (List J)
  | some (.arr xs) => .ok xs
  | some (.str cs) => .ok (cs.map (fun c => .str [c]))
  | some (.bin bs) => .ok (bs.map (fun b => .int b.toNat))
  | some (.obj kvs) => .ok (kvs.map (fun p => .str p.1))
  | _ => .error .typeError

/-- `_handle_event`: `namespace or '/'`, the handler registered for `data[0]` on that namespace is
    called with `*data[1:]` (the server prepends the sid); `id` decides whether an ACK is owed. -/
def handlerArgs (p : Packet) : Except Err (Str × Option Nat × J × List J) := do
  let (ev, args) ← splitArgs p.data
  pure (p.nsp.getD ['/'], p.id, ev, args)

/-- `_handle_ack`: the callback stored under (`namespace or '/'`, id) is called with `*data` -/
def callbackArgs (p : Packet) : Except Err (Str × Option Nat × List J) := do
  let args ← starArgs p.data
  pure (p.nsp.getD ['/'], p.id, args)

inductive Delivery where
  /-- handler `ev` of namespace `ns` invoked with `args`; an ACK with `id` is owed if present -/
  | event (ns : Str) (id : Option Nat) (ev : J) (args : List J)
  /-- callback (`ns`, `id`) invoked with `args` -/
  | ack (ns : Str) (id : Option Nat) (args : List J)
  /-- CONNECT / DISCONNECT / CONNECT_ERROR: not this kernel -/
  | other (p : Packet)
  deriving Repr

def dispatch (p : Packet) : Except Err Delivery :=
  if p.type = EVENT ∨ p.type = BINARY_EVENT then do
    let (ns, id, ev, args) ← handlerArgs p
    pure (.event ns id ev args)
  else if p.type = ACK ∨ p.type = BINARY_ACK then do
    let (ns, id, args) ← callbackArgs p
    pure (.ack ns id args)
  else pure (.other p)

/-- frames in, application-level invocations out (plus what is still pending) -/
def deliver (cls : Char → DC) (loads : Str → Except Err J) (fs : List Frame) :
    Except Err (List Delivery × Option Partial) := do
  let (ps, fin) ← receive cls loads fs
  let ds ← ps.mapM dispatch
  pure (ds, fin)

/-! ### `call()` -/

/-- `callback_args[0] if len(callback_args[0]) > 1 else callback_args[0][0] if
    len(callback_args[0]) == 1 else None` — the arguments as a tuple, the single one, or `None` -/
def callResult : List J → Data
  | [] => .none
  | [x] => .one x
  | xs => .tuple xs

/-- What the rules make of a value handed to `emit` / returned by a handler, seen from the other
    end: `None` and `()` are indistinguishable (no argument), a 1-tuple `(x,)` is `x`, a tuple of
    two or more stays a tuple, anything else — a list of any length included — is itself. -/
def normalise : Data → Data
  | .none => .none
  | .one j => .one j
  | .tuple [] => .none
  | .tuple [x] => .one x
  | .tuple xs => .tuple xs

/-! ### msgpack packet class (`uses_binary_events = False`, one frame per packet) -/

def kType : Str := "type".toList
def kData : Str := "data".toList
def kNsp : Str := "nsp".toList
def kId : Str := "id".toList

/-- `_to_dict`: `id` only when not `None` -/
def toDict (p : Packet) : J :=
  .obj ([(kType, .int p.type), (kData, p.data.getD .null),
         (kNsp, match p.nsp with | some n => .str n | none => .null)]
        ++ (match p.id with | some i => [(kId, .int i)] | none => []))

/-- `MsgPackPacket.decode` after `msgpack.loads`: `decoded['type']`, `decoded.get('data')`,
    `decoded.get('id')`, `decoded['nsp']`.  (A type/id/namespace of another Python type is
    stored as is by the real class and fails later at dispatch; here it is a `TypeError` at once.) -/
def ofDict : J → Except Err Packet
  | .obj kvs =>
    match lookup kType kvs, lookup kNsp kvs with
    | some (.int t), some nsp =>
      if t < 0 then .error .valueError else
      let data : Option J := match lookup kData kvs with
        | some .null => none
        | o => o
      let nspV : Except Err (Option Str) := match nsp with
        | .str s => .ok (some s)
        | .null => .ok none
        | _ => .error .typeError
      let idV : Except Err (Option Nat) := match lookup kId kvs with
        | none => .ok none
        | some .null => .ok none
        | some (.int i) => if i < 0 then .error .valueError else .ok (some i.toNat)
        | some _ => .error .typeError
      do
        let n ← nspV
        let i ← idV
        pure ⟨t.toNat, n, i, data⟩
    | some _, some _ => .error .typeError
    | _, _ => .error .keyError
  | _ => .error .typeError

/-- `_send_packet` with the msgpack class: `encode()` is one `bytes`, sent as one frame -/
def sendMP (ser : J → Bytes) (p : Packet) : List Frame := [.bin (ser (toDict p))]

def sendAllMP (ser : J → Bytes) (ps : List Packet) : List Frame := ps.flatMap (sendMP ser)

/-- `_handle_eio_message` with the msgpack class: nothing is ever parked (the types 5 and 6 do
    not occur: `mkPacket false` never promotes); every frame is one packet -/
def receiveMP (deser : Bytes → Except Err J) : List Frame → Except Err (List Packet)
  | [] => .ok []
  | .text _ :: _ => .error .typeError
  | .bin b :: fs => do
    let d ← deser b
    let p ← ofDict d
    let rest ← receiveMP deser fs
    pure (p :: rest)

def deliverMP (deser : Bytes → Except Err J) (fs : List Frame) : Except Err (List Delivery) := do
  let ps ← receiveMP deser fs
  ps.mapM dispatch

end Args
end Sio
