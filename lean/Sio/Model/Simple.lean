/-
  K9 — the producer/consumer hand-off of `SimpleClient` / `AsyncSimpleClient`
  (src/socketio/simple_client.py, async_simple_client.py).

  Shared variables of the object: `input_buffer` (a list), `input_event`, `connected_event`
  (two `Event`s), `connected` (a bool).  Three kinds of thread touch them:

  * the *producer* — the catch-all handler registered with `client.on('*')`:
        self.input_buffer.append([event, *args])          -- P1
        self.input_event.set()                            -- P2
  * the *connection handlers* registered with `client.event`:
        connect:            self.connected = True         -- K1     self.connected_event.set()   -- K2
        disconnect:         self.connected_event.clear()  -- single operation
        __disconnect_final: self.connected = False        -- K1     self.connected_event.set()   -- K2
  * the *consumer* — the application thread inside `receive(timeout)`:
        while not self.input_buffer:                                   -- r0
            if not self.connected_event.wait(timeout=timeout):         -- r1 (call) / r1w (parked)
                raise TimeoutError()
            if not self.connected:                                     -- r2
                if self.input_buffer:                                  -- r2b
                    break             -- events that arrived before the end are returned first
                raise DisconnectedError()
            if not self.input_event.wait(timeout=timeout):             -- r3 (call) / r3w (parked)
                raise TimeoutError()
            self.input_event.clear()                                   -- r4
        return self.input_buffer.pop(0)                                -- r5
    or inside `emit()` / `call()` (identical loops):
        while True:
            self.connected_event.wait()                                -- e1 (call) / e1w (parked)
            if not self.connected:                                     -- e2
                raise DisconnectedError()
            try:
                return self.client.emit(event, data, namespace=...)    -- e3
            except SocketIOError:
                pass

  Every access to a shared variable is one step of the thread that makes it; a *schedule* is the
  list of choices "which thread makes its next access" (plus: the pending timed wait of the
  consumer expires; the application starts its next call).  `Event.wait` follows
  `threading.Event` / `asyncio.Event`: a call with the flag set returns at once; otherwise the
  caller parks and is *notified* by the next `set()` — once notified it returns `True` even if the
  flag has been cleared again in the meantime (`woken`); the timeout can expire only while parked
  and not notified.

  Events are identified by their arrival index (the n-th `append` appends `n`), so "returned
  events are a prefix of the arrivals" is literally `returned <+: arrived`.

  Ghost fields (never read by `step` to decide anything; they only record history):
  `arrived`, `returned`, `signalled`, `seen`, `fresh`, `ended`, `recon`, `endedRd`, `revived`, `log`.

  "The connection has ended for good" is `ended`: the last connect / __disconnect_final handler that
  started is `__disconnect_final`.  The schedules are not restricted to those in which "for good"
  is true to its name: a connect handler may start after a final one (`revived` records that it
  happened).  `receive()` reads `self.connected` (r2) and tests the buffer (r2b) in two accesses, so
  `endedRd` records what `ended` was at the read.
-/
namespace Sio.Simple

/-- what the application calls: `receive(timeout)` (timed = a timeout was given) or
    `emit()` / `call()` (same retry loop). -/
inductive Op
  | recv (timed : Bool)
  | send
  deriving Repr, DecidableEq, Inhabited

inductive Conn
  | connect | disconnect | final
  deriving Repr, DecidableEq, Inhabited

/-- producer: idle, or between `append` and `set` -/
inductive PPc
  | idle | appended
  deriving Repr, DecidableEq, Inhabited

/-- connection-handler thread: idle, or between `self.connected = …` and `connected_event.set()` -/
inductive KPc
  | idle | connectMid | finalMid
  deriving Repr, DecidableEq, Inhabited

inductive CPc
  | idle
  | r0 | r1 | r1w | r2 | r2b | r3 | r3w | r4 | r5
  | e1 | e1w | e2 | e3
  deriving Repr, DecidableEq, Inhabited

inductive Outcome
  | returned (ev : Nat)     -- receive() returned this event
  | sent                    -- emit()/call() returned (client.emit accepted the event)
  | timeoutErr
  | disconnectedErr
  | indexErr                -- pop(0) on an empty list (shown unreachable)
  deriving Repr, DecidableEq, Inhabited

inductive Choice
  | prod                    -- the producer thread makes its next access
  | cons (ok : Bool)        -- the consumer thread makes its next access; `ok` is the scripted
                            -- result of `client.emit/call` (read only at e3)
  | timeout                 -- the consumer's pending timed wait expires
  | conn (k : Conn)         -- the connection-handler thread makes its next access; `k` is the
                            -- handler it starts if it is idle
  | start (op : Op)         -- the application calls receive/emit/call (when the last call is over)
  deriving Repr, DecidableEq, Inhabited

/-- Snapshot of the state in which an outcome was produced. -/
structure View where
  pc : CPc
  buf : List Nat
  iev : Bool
  cev : Bool
  conn : Bool
  ppc : PPc
  kpc : KPc
  tmo : Bool
  woken : Bool
  arrivedN : Nat
  returnedN : Nat
  signalled : Nat
  seen : Nat
  fresh : Bool
  ended : Bool
  recon : Bool
  endedRd : Bool
  revived : Bool
  deriving Repr, DecidableEq, Inhabited

structure State where
  buf : List Nat            -- input_buffer
  iev : Bool                -- input_event flag
  cev : Bool                -- connected_event flag
  conn : Bool               -- self.connected
  ppc : PPc
  kpc : KPc
  cpc : CPc
  tmo : Bool                -- the current receive() was given a timeout
  woken : Bool              -- the parked consumer has been notified
  -- ghost
  arrived : List Nat        -- events in the order of their `append`
  returned : List Nat       -- events in the order receive() returned them
  signalled : Nat           -- number of arrivals whose `set()` has been executed
  seen : Nat                -- number of arrivals at the consumer's last empty-buffer test
  fresh : Bool              -- no connect / final handler has started yet
  ended : Bool              -- the last connect/final handler started is `final`
  recon : Bool              -- a disconnect handler ran and no connect/final has set the event since
  endedRd : Bool            -- `ended` when receive() last read `self.connected` (r2)
  revived : Bool            -- a connect handler has started after a __disconnect_final handler
  log : List (Outcome × View)
  deriving Repr, DecidableEq, Inhabited

def init : State :=
  { buf := [], iev := false, cev := false, conn := false, ppc := .idle, kpc := .idle,
    cpc := .idle, tmo := false, woken := false, arrived := [], returned := [], signalled := 0,
    seen := 0, fresh := true, ended := false, recon := false, endedRd := false, revived := false,
    log := [] }

def view (s : State) : View :=
  { pc := s.cpc, buf := s.buf, iev := s.iev, cev := s.cev, conn := s.conn, ppc := s.ppc,
    kpc := s.kpc, tmo := s.tmo, woken := s.woken, arrivedN := s.arrived.length,
    returnedN := s.returned.length, signalled := s.signalled, seen := s.seen, fresh := s.fresh,
    ended := s.ended, recon := s.recon, endedRd := s.endedRd, revived := s.revived }

/-- the call in progress ends with outcome `o` -/
def finish (s : State) (o : Outcome) : State :=
  { s with cpc := .idle, log := s.log ++ [(o, view s)] }

/-- parked on `connected_event` -/
def CPc.waitsConn : CPc → Bool
  | .r1w | .e1w => true
  | _ => false

/-- `input_event.set()` -/
def setInput (s : State) : State :=
  { s with iev := true, woken := if s.cpc = .r3w then true else s.woken }

/-- `connected_event.set()` -/
def setConn (s : State) : State :=
  { s with cev := true, woken := if s.cpc.waitsConn then true else s.woken }

def prodStep (s : State) : State :=
  match s.ppc with
  | .idle =>
    { s with buf := s.buf ++ [s.arrived.length], arrived := s.arrived ++ [s.arrived.length],
             ppc := .appended }
  | .appended =>
    { setInput s with ppc := .idle, signalled := s.arrived.length }

def connStep (s : State) (k : Conn) : State :=
  match s.kpc with
  | .idle =>
    match k with
    | .connect => { s with conn := true, kpc := .connectMid, fresh := false, ended := false,
                           revived := s.revived || s.ended }
    | .disconnect => { s with cev := false, recon := true }
    | .final => { s with conn := false, kpc := .finalMid, fresh := false, ended := true }
  | .connectMid => { setConn s with kpc := .idle, recon := false }
  | .finalMid => { setConn s with kpc := .idle, recon := false }

/-- parked in a wait that was given a timeout, not notified -/
def canTimeout (s : State) : Bool :=
  (s.cpc = .r1w || s.cpc = .r3w) && s.tmo && !s.woken

def timeoutStep (s : State) : State :=
  if canTimeout s then finish s .timeoutErr else s

def startStep (s : State) (op : Op) : State :=
  match s.cpc with
  | .idle =>
    match op with
    | .recv t => { s with cpc := .r0, tmo := t, woken := false }
    | .send => { s with cpc := .e1, tmo := false, woken := false }
  | _ => s

def consStep (s : State) (ok : Bool) : State :=
  match s.cpc with
  | .idle => s
  | .r0 =>
    if s.buf.isEmpty then { s with cpc := .r1, seen := s.arrived.length } else { s with cpc := .r5 }
  | .r1 => if s.cev then { s with cpc := .r2 } else { s with cpc := .r1w, woken := false }
  | .r1w => if s.woken then { s with cpc := .r2, woken := false } else s
  | .r2 =>
    if s.conn then { s with cpc := .r3, endedRd := s.ended }
    else { s with cpc := .r2b, endedRd := s.ended }
  | .r2b => if s.buf.isEmpty then finish s .disconnectedErr else { s with cpc := .r5 }
  | .r3 => if s.iev then { s with cpc := .r4 } else { s with cpc := .r3w, woken := false }
  | .r3w => if s.woken then { s with cpc := .r4, woken := false } else s
  | .r4 => { s with iev := false, cpc := .r0 }
  | .r5 =>
    match s.buf with
    | x :: rest => { finish s (.returned x) with buf := rest, returned := s.returned ++ [x] }
    | [] => finish s .indexErr
  | .e1 => if s.cev then { s with cpc := .e2 } else { s with cpc := .e1w, woken := false }
  | .e1w => if s.woken then { s with cpc := .e2, woken := false } else s
  | .e2 => if s.conn then { s with cpc := .e3 } else finish s .disconnectedErr
  | .e3 => if ok then finish s .sent else { s with cpc := .e1 }

def step (s : State) : Choice → State
  | .prod => prodStep s
  | .cons ok => consStep s ok
  | .timeout => timeoutStep s
  | .conn k => connStep s k
  | .start op => startStep s op

def run (s : State) (sched : List Choice) : State := sched.foldl step s

/-- the consumer is inside a call and cannot move: parked and not notified -/
def blocked (s : State) : Bool :=
  (s.cpc = .r1w || s.cpc = .r3w || s.cpc = .e1w) && !s.woken

/-! ### asyncio variant

`AsyncSimpleClient` runs the same statements on one event loop: the handlers are plain functions
(no await inside), so each runs to completion; the consumer gives up control only where an `await`
really suspends — `Event.wait()` with the flag clear (`asyncio.wait_for` around it adds no
suspension point when the flag is set: CPython ≥ 3.12) and `await self.client.emit(...)`.
A step of the asyncio variant is therefore a *block* of steps of the thread variant, and every
asyncio schedule is a thread schedule (`Async.run_eq_run`). -/
namespace Async

/-- where the consumer task stops running -/
def stop (s : State) : Bool :=
  s.cpc = .idle || s.cpc = .e3 || blocked s

def consRun : Nat → State → State
  | 0, s => s
  | fuel + 1, s => if stop s then s else consRun fuel (consStep s true)

def fuel : Nat := 16

def step (s : State) : Choice → State
  | .prod => prodStep (prodStep s)
  | .cons ok => consRun fuel (consStep s ok)
  | .timeout => timeoutStep s
  | .conn .disconnect => connStep s .disconnect
  | .conn k => connStep (connStep s k) k
  | .start op => startStep s op

def run (s : State) (sched : List Choice) : State := sched.foldl step s

end Async

end Sio.Simple
