/-
  K6 — pubsub_manager.py / async_pubsub_manager.py (and the retry loops of redis_manager.py /
  async_redis_manager.py), transcribed.  Properties C07 and C15.

  A *host* is one server process: the room table of K3, the callback table
  `callbacks[key][id]` with its counters `ack_counters[key]`, and a cursor into the ordered
  channel.  `pending_disconnect` is not state here: every operation below runs to completion, and
  the table is empty between operations (`pre_disconnect` … `basic_disconnect`, in a `finally`).

  The listener `_thread` is modelled at two levels:
    * `dispatch` — what one decoded dict with a `'method'` does (`_handle_*`), every field access
      `Except`-like: a field of the dict arrives *classified* (`Fld`, `RoomFld`, …: missing, `None`,
      a value of the expected type, an unhashable value, …), the classification is done by the
      harness, the behaviour per class is transcribed here;
    * `listenStep` / `listen` — the two containment levels around it: decoding fallbacks
      (dict passthrough, `pickle`, JSON: the *results* are inputs), the pre-dispatch test
      `data and 'method' in data` and the debug line `data['method']` (both OUTSIDE the inner `try`:
      an exception there reaches the outer handler and `_listen()` is called again), the
      per-message `try … except Exception`.
  Well-formed traffic (`Msg`, what `_publish` is given by the manager's own methods and what
  `pickle` hands back) is embedded by `Msg.toD`, so that C07 and C15 talk about the same handlers.

  Core Lean only.
-/
import Sio.Model.Rooms
namespace Sio.PubSub
open Sio.Rooms

abbrev HostId := Str

/-! ### state of one host -/

/-- what is stored in `callbacks[key][id]` -/
inductive Cb where
  /-- a callback the application passed to `emit()` -/
  | user (tok : Nat)
  /-- `partial(self._return_callback, host_id, room, namespace, id)`; `origin = none`: the emit
      message carried no usable `host_id` -/
  | relay (origin : Option HostId) (key : Str) (ns : Ns) (id : Nat)
  deriving Repr, DecidableEq, Inhabited

/-- an EVENT packet as the client decodes it -/
structure Frame where
  ns : Ns
  ev : J
  args : List J
  id : Option Nat
  deriving Repr, Inhabited

structure Host where
  id : HostId
  rooms : Rooms.St := []
  /-- `callbacks[key][id]` (keys are session ids and, for `PubSubManager.emit`, room names) -/
  cbs : Str → Nat → Option Cb := fun _ _ => none
  /-- `ack_counters[key]`: the last id handed out, 0 = no counter -/
  ctr : Str → Nat := fun _ => 0
  /-- how many channel entries this host's `_listen()` has yielded -/
  cursor : Nat := 0
  deriving Inhabited

/-! ### what travels on the channel -/

/-- the dicts that the manager's own methods publish -/
inductive Msg where
  | emit (host : HostId) (ev : Str) (data : Data) (ns : Ns) (to : Target) (skip : Skip)
      (cb : Option (Str × Ns × Nat))
  | callback (origin : Option HostId) (key : Str) (ns : Ns) (id : Nat) (args : List J)
  | disconnect (host : HostId) (sid : Sid) (ns : Ns)
  | enterRoom (host : HostId) (sid : Sid) (ns : Ns) (room : Room)
  | leaveRoom (host : HostId) (sid : Sid) (ns : Ns) (room : Room)
  | closeRoom (host : HostId) (ns : Ns) (room : Room)
  deriving Repr

/-- a field of a decoded dict as a handler meets it -/
inductive Fld (α : Type) where
  | absent                -- key missing
  | none                  -- `None`
  | ok (a : α)            -- a (truthy) value of the expected type
  | unhashable            -- a (non-empty) list / dict
  | other                 -- a truthy hashable value of another type (equal to no key)
  deriving Repr, Inhabited

/-- `message.get('room')` -/
inductive RoomFld where
  | none                        -- missing or `None`
  | str (r : Room)              -- a string (or any hashable scalar, rendered as a name)
  | list (rs : List Room)       -- a list / tuple of such
  | dict                        -- a dict without key 0
  deriving Repr, Inhabited

/-- `message.get('callback')` -/
inductive CbFld where
  | none                        -- missing or `None`
  | noLen                       -- `len()` raises
  | wrongLen                    -- a sequence of another length
  | tok (key : Str) (ns : Ns) (id : Nat)
  deriving Repr, Inhabited

inductive ArgsFld where
  | absent
  | nonIterable
  | ok (xs : List J)
  deriving Repr, Inhabited

inductive IdFld where
  | absent
  | ok (n : Nat)
  | other                       -- `None` or any value that is no key of the table
  deriving Repr, Inhabited

/-- a decoded dict that has a `'method'` key -/
structure DMsg where
  /-- `data['method']` when it is a string -/
  method : Option Str
  /-- `data.get('host_id')` when it is a string (anything else equals no host id) -/
  hostId : Option HostId
  event : Option J := none            -- `message['event']`, `none` = missing
  data : Option Data := none          -- `message['data']`, `none` = missing
  ns : Fld Ns := .absent
  room : RoomFld := .none
  skip : Skip := .none
  cb : CbFld := .none
  sid : Fld Str := .absent
  id : IdFld := .absent
  args : ArgsFld := .absent
  deriving Repr, Inhabited

def mEmit : Str := "emit".toList
def mCallback : Str := "callback".toList
def mDisconnect : Str := "disconnect".toList
def mEnterRoom : Str := "enter_room".toList
def mLeaveRoom : Str := "leave_room".toList
def mCloseRoom : Str := "close_room".toList

def targetFld : Target → RoomFld
  | .all => .none
  | .one r => .str r
  | .many rs => .list rs

/-- what `pickle.loads(pickle.dumps(message))` gives the listener -/
def Msg.toD : Msg → DMsg
  | .emit host ev data ns to skip cb =>
    { method := some mEmit, hostId := some host, event := some (.str ev), data := some data,
      ns := .ok ns, room := targetFld to, skip := skip,
      cb := match cb with
        | none => .none
        | some (k, n, i) => .tok k n i }
  | .callback origin key ns id args =>
    { method := some mCallback, hostId := origin, sid := .ok key, ns := .ok ns, id := .ok id,
      args := .ok args }
  | .disconnect host sid ns =>
    { method := some mDisconnect, hostId := some host, sid := .ok sid, ns := .ok ns }
  | .enterRoom host sid ns room =>
    { method := some mEnterRoom, hostId := some host, sid := .ok sid, ns := .ok ns, room := .str room }
  | .leaveRoom host sid ns room =>
    { method := some mLeaveRoom, hostId := some host, sid := .ok sid, ns := .ok ns, room := .str room }
  | .closeRoom host ns room =>
    { method := some mCloseRoom, hostId := some host, ns := .ok ns, room := .str room }

/-! ### outputs -/

inductive Out where
  /-- an EVENT packet queued for a client -/
  | send (host : HostId) (sid : Sid) (eio : Eio) (f : Frame)
  /-- a DISCONNECT packet queued for a client -/
  | sendDisc (host : HostId) (sid : Sid) (eio : Eio) (ns : Ns)
  /-- the application's disconnect handler runs -/
  | discHandler (host : HostId) (sid : Sid) (ns : Ns)
  /-- an application callback is invoked -/
  | callback (host : HostId) (tok : Nat) (args : List J)
  /-- the per-message `try` of the listener caught an exception -/
  | handlerError (host : HostId) (e : Err)
  /-- the outer `try` of the listener caught an exception; `_listen()` is called again -/
  | restarted (host : HostId)
  /-- an API call raised -/
  | raised (e : Err)
  deriving Repr

/-- result of running a piece of manager code on a host: new state, outputs, what it handed to
    `_publish`, the exception that ended it (state and outputs are those reached before it) -/
structure Res where
  h : Host
  outs : List Out := []
  pubs : List Msg := []
  err : Option Err := none

/-! ### manager primitives -/

def Host.connected (h : Host) (ns : Ns) (sid : Sid) : Bool := (eioOf h.rooms ns sid).isSome

/-- `_generate_ack_id(key, callback)` -/
def register (h : Host) (key : Str) (cb : Cb) : Host × Nat :=
  let i := h.ctr key + 1
  ({ h with ctr := fun k => if k = key then i else h.ctr k,
            cbs := fun k j => if k = key ∧ j = i then some cb else h.cbs k j }, i)

/-- the callback branch of `Manager.emit`: one id and one packet per recipient -/
def sendCb (cb : Cb) (ns : Ns) (ev : J) (args : List J) : Host → List (Sid × Eio) → Host × List Out
  | h, [] => (h, [])
  | h, p :: ps =>
    let r := register h p.1 cb
    let rest := sendCb cb ns ev args r.1 ps
    (rest.1, .send h.id p.1 p.2 ⟨ns, ev, args, some r.2⟩ :: rest.2)

/-- `Manager.emit` from `if namespace not in self.rooms: return` on -/
def emitLocal (h : Host) (ns : Ns) (t : Target) (skip : List Sid) (ev : J) (args : List J)
    (cb : Option Cb) : Host × List Out :=
  if !hasNs h.rooms ns then (h, [])
  else
    let recips := recipients h.rooms ns t skip
    match cb with
    | none => (h, recips.map (fun p => .send h.id p.1 p.2 ⟨ns, ev, args, none⟩))
    | some c => sendCb c ns ev args h recips

/-- how deep `trigger_callback` → `_return_callback` → `trigger_callback` is followed.  A chain
    longer than two needs a session to end and its id to be reused as a room name with a colliding
    ack id; the model follows `chainFuel` links. -/
def chainFuel : Nat := 8

/-- `trigger_callback(key, id, args)`; `args = none`: not iterable (`callback(*data)` raises after
    the entry has been deleted) -/
def trigger : Nat → Host → Str → Nat → Option (List J) → Res
  | 0, h, _, _, _ => { h := h }
  | fuel + 1, h, key, id, args =>
    match h.cbs key id with
    | none => { h := h }
    | some cb =>
      let h' := { h with cbs := fun k j => if k = key ∧ j = id then none else h.cbs k j }
      match args with
      | none => { h := h', err := some .typeError }
      | some xs =>
        match cb with
        | .user tok => { h := h', outs := [.callback h.id tok xs] }
        | .relay origin key' ns' id' =>
          -- `_return_callback`
          if origin = some h.id then trigger fuel h' key' id' (some xs)
          else { h := h', pubs := [.callback origin key' ns' id' xs] }

/-- `basic_disconnect` -/
def dropSid (h : Host) (ns : Ns) (sid : Sid) : Host :=
  { h with rooms := Rooms.disconnect h.rooms ns sid,
           cbs := fun k j => if k = sid then none else h.cbs k j,
           ctr := fun k => if k = sid then 0 else h.ctr k }

/-- `server.disconnect(sid, namespace, ignore_queue=True)` (and the tail of `server.disconnect`
    once `can_disconnect` answered yes): DISCONNECT packet, handler, `basic_disconnect` -/
def localDisconnect (h : Host) (sid : Sid) (ns : Ns) : Res :=
  match eioOf h.rooms ns sid with
  | none => { h := h }
  | some eio =>
    { h := dropSid h ns sid, outs := [.sendDisc h.id sid eio ns, .discHandler h.id sid ns] }

/-! ### the `_handle_*` methods on a decoded dict -/

/-- `get_participants(namespace, room)` as far as it can fail; `none` = nobody -/
def RoomFld.target : RoomFld → Except Err Target
  | .none => .ok .all
  | .str r => .ok (.one r)
  | .list [] => .error .indexError         -- `room[0]`
  | .list (r :: rs) => .ok (.many (r :: rs))
  | .dict => .error .keyError              -- `room[0]`

def handleEmit (h : Host) (m : DMsg) : Res :=
  -- remote_callback is not None and len(remote_callback) == 3
  let cb : Except Err (Option Cb) := match m.cb with
    | .none => .ok none
    | .noLen => .error .typeError
    | .wrongLen => .ok none
    | .tok k n i => .ok (some (.relay m.hostId k n i))
  match cb with
  | .error e => { h := h, err := some e }
  | .ok cb =>
    match m.event, m.data with
    | none, _ => { h := h, err := some .keyError }
    | _, none => { h := h, err := some .keyError }
    | some ev, some d =>
      -- Manager.emit: `if namespace not in self.rooms: return`
      match m.ns with
      | .unhashable => { h := h, err := some .typeError }
      | .absent | .none | .other => { h := h }
      | .ok ns =>
        if !hasNs h.rooms ns then { h := h }
        else
          match m.room.target with
          | .error e => { h := h, err := some e }
          | .ok t =>
            let r := emitLocal h ns t m.skip.toList ev d.pack cb
            { h := r.1, outs := r.2 }

def handleCallback (h : Host) (m : DMsg) : Res :=
  if m.hostId = some h.id then
    match m.sid, m.id, m.args with
    | .absent, _, _ => { h := h }              -- KeyError caught: return
    | _, .absent, _ => { h := h }
    | _, _, .absent => { h := h }
    | .unhashable, _, _ => { h := h, err := some .typeError }
    | .ok key, .ok id, args =>
      trigger chainFuel h key id (match args with | .ok xs => some xs | _ => none)
    | _, _, _ => { h := h }                    -- unknown callback: ignored
  else { h := h }

/-- `is_connected(sid, namespace)` on classified fields -/
def connectedFld (h : Host) (sid : Fld Str) (ns : Fld Ns) : Except Err (Option (Sid × Ns)) :=
  match ns with
  | .unhashable => .error .typeError           -- `namespace in self.pending_disconnect`
  | .absent | .none | .other => .ok none
  | .ok ns =>
    match sid with
    | .ok sid => if h.connected ns sid then .ok (some (sid, ns)) else .ok none
    -- `self.rooms[namespace][None][sid]`: the KeyError of a missing namespace / room `None` is
    -- caught, the TypeError of the bidict lookup is not
    | .unhashable =>
      if h.rooms.any (fun e => e.ns = ns ∧ e.room = none) then .error .typeError else .ok none
    | _ => .ok none

def handleDisconnect (h : Host) (m : DMsg) : Res :=
  -- `namespace = namespace or '/'` in `server.disconnect` (a falsy value is classified `.none`)
  let ns : Fld Ns := match m.ns with
    | .absent | .none => .ok ['/']
    | x => x
  match connectedFld h m.sid ns with
  | .error e => { h := h, err := some e }
  | .ok none => { h := h }
  | .ok (some (sid, ns)) => localDisconnect h sid ns

def handleEnterRoom (h : Host) (m : DMsg) : Res :=
  match connectedFld h m.sid m.ns with
  | .error e => { h := h, err := some e }
  | .ok none => { h := h }
  | .ok (some (sid, ns)) =>
    match eioOf h.rooms ns sid with
    | none => { h := h }
    | some eio =>
      match m.room with
      | .none => { h := { h with rooms := add h.rooms ⟨ns, none, sid, eio⟩ } }
      | .str r => { h := { h with rooms := add h.rooms ⟨ns, some r, sid, eio⟩ } }
      | .list _ | .dict => { h := h, err := some .typeError }

def handleLeaveRoom (h : Host) (m : DMsg) : Res :=
  match connectedFld h m.sid m.ns with
  | .error e => { h := h, err := some e }
  | .ok none => { h := h }
  | .ok (some (sid, ns)) =>
    match m.room with
    | .none => { h := { h with rooms := Rooms.leave h.rooms ns sid none } }
    | .str r => { h := { h with rooms := Rooms.leave h.rooms ns sid (some r) } }
    | .list _ | .dict => { h := h, err := some .typeError }

/-- `basic_close_room(room, namespace)` -/
def handleCloseRoom (h : Host) (m : DMsg) : Res :=
  match m.ns with
  | .unhashable => { h := h, err := some .typeError }      -- `self.rooms.get(namespace, {})`
  | .ok ns =>
    match m.room with
    | .none => { h := { h with rooms := h.rooms.filter (fun e => !(e.ns = ns ∧ e.room = none)) } }
    | .str r => { h := { h with rooms := Rooms.closeRoom h.rooms ns r } }
    | .list [] => { h := h, err := some .indexError }
    | .list (r :: rs) =>
      -- `basic_leave_room(sid, namespace, [..])` raises for the first participant, if there is one
      if (participants h.rooms ns (.many (r :: rs))).isEmpty then { h := h }
      else { h := h, err := some .typeError }
    | .dict => { h := h }                                   -- KeyError caught
  | _ =>
    match m.room with
    | .list [] => { h := h, err := some .indexError }       -- `room[0]` is evaluated first
    | _ => { h := h }

/-- the body of the per-message `try`: dispatch on `data['method']` -/
def dispatch (h : Host) (m : DMsg) : Res :=
  if m.method = some mCallback then handleCallback h m
  else if m.hostId = some h.id then { h := h }          -- `data.get('host_id') != self.host_id`
  else if m.method = some mEmit then handleEmit h m
  else if m.method = some mDisconnect then handleDisconnect h m
  else if m.method = some mEnterRoom then handleEnterRoom h m
  else if m.method = some mLeaveRoom then handleLeaveRoom h m
  else if m.method = some mCloseRoom then handleCloseRoom h m
  else { h := h }

/-- one well-formed channel entry through the listener: the inner `try` turns an exception into a
    log line -/
def listenMsg (h : Host) (m : Msg) : Res :=
  let r := dispatch h m.toD
  match r.err with
  | none => r
  | some e => { r with outs := r.outs ++ [.handlerError h.id e], err := none }

/-! ### the public methods of `PubSubManager` (called by the server API on one host) -/

/-- `emit(event, data, namespace, room, skip_sid, callback)`; `server = false`: a write-only
    manager that is not attached to a server -/
def apiEmit (h : Host) (server : Bool) (ev : Str) (d : Data) (ns : Ns) (to : Target) (skip : Skip)
    (cb : Option Nat) : Res :=
  let pre : Except Err (Host × Option (Str × Ns × Nat)) := match cb with
    | none => .ok (h, none)
    | some tok =>
      if !server then .error .other                      -- RuntimeError
      else match to with
        | .all => .error .valueError                     -- "Cannot use callback without a room set."
        | .many _ => .error .typeError                   -- `_generate_ack_id([...], cb)`: unhashable
        | .one r => let g := register h r (.user tok); .ok (g.1, some (r, ns, g.2))
  match pre with
  | .error e => { h := h, outs := [.raised e] }
  | .ok (h1, token) =>
    let msg := Msg.emit h.id ev d ns to skip token
    let r := handleEmit h1 msg.toD                      -- handle in this host
    match r.err with
    | some e => { h := r.h, outs := r.outs ++ [.raised e] }
    | none => { h := r.h, outs := r.outs, pubs := r.pubs ++ [msg] }     -- notify other hosts

/-- `server.disconnect(sid, namespace)`: `can_disconnect` either answers locally or publishes -/
def apiDisconnect (h : Host) (ns : Ns) (sid : Sid) : Res :=
  if h.connected ns sid then localDisconnect h sid ns
  else { h := h, pubs := [.disconnect h.id sid ns] }

def apiEnter (h : Host) (ns : Ns) (sid : Sid) (room : Room) : Res :=
  match eioOf h.rooms ns sid with
  | some eio => { h := { h with rooms := add h.rooms ⟨ns, some room, sid, eio⟩ } }
  | none => { h := h, pubs := [.enterRoom h.id sid ns room] }

def apiLeave (h : Host) (ns : Ns) (sid : Sid) (room : Room) : Res :=
  if h.connected ns sid then { h := { h with rooms := Rooms.leave h.rooms ns sid (some room) } }
  else { h := h, pubs := [.leaveRoom h.id sid ns room] }

def apiClose (h : Host) (ns : Ns) (room : Room) : Res :=
  { h := { h with rooms := Rooms.closeRoom h.rooms ns room }, pubs := [.closeRoom h.id ns room] }

/-- a client's CONNECT is accepted: `manager.connect(eio_sid, namespace)` with the generated id -/
def apiConnect (h : Host) (ns : Ns) (eio : Eio) (sid : Sid) : Res :=
  { h := { h with rooms := Rooms.apply h.rooms (.connect ns eio sid) } }

/-- an ACK packet from the client: `_handle_ack` → `trigger_callback(sid, id, data)`; an exception
    is contained by engine.io -/
def apiAck (h : Host) (sid : Sid) (id : Nat) (args : List J) : Res :=
  let r := trigger chainFuel h sid id (some args)
  match r.err with
  | none => r
  | some e => { r with outs := r.outs ++ [.raised e], err := none }

/-! ### the cluster -/

structure Cluster where
  hosts : List Host
  /-- the write-only manager of an external process (no server, no clients, never listens) -/
  wo : Host
  chan : List Msg := []
  /-- client side: the ids each client has been asked to acknowledge, in order of arrival -/
  asked : List (Sid × Nat) := []

inductive Op where
  | connect (h : HostId) (ns : Ns) (eio : Eio) (sid : Sid)
  | enter (via : HostId) (ns : Ns) (sid : Sid) (room : Room)
  | leave (via : HostId) (ns : Ns) (sid : Sid) (room : Room)
  | close (via : HostId) (ns : Ns) (room : Room)
  /-- `via = none`: the write-only manager -/
  | emit (via : Option HostId) (ev : Str) (d : Data) (ns : Ns) (to : Target) (skip : Skip)
      (cb : Option Nat)
  | disconnect (via : HostId) (ns : Ns) (sid : Sid)
  /-- the client `sid` acknowledges the `n`-th (from 0) event that asked it for an acknowledgement -/
  | ack (ns : Ns) (sid : Sid) (n : Nat) (args : List J)
  /-- the listener of host `h` consumes up to `k` channel entries -/
  | deliver (h : HostId) (k : Nat)
  /-- every host, in order, consumes everything that is on the channel at its turn -/
  | drain
  deriving Repr

/-- run `f` on the host with this id (ids are distinct) -/
def onHost (f : Host → Res) (hid : HostId) (hosts : List Host) : List Host × List Out × List Msg :=
  (hosts.map (fun h => if h.id = hid then (f h).h else h),
   hosts.flatMap (fun h => if h.id = hid then (f h).outs else []),
   hosts.flatMap (fun h => if h.id = hid then (f h).pubs else []))

/-- the ids that the packets in `outs` ask their recipients to acknowledge -/
def askedIn : List Out → List (Sid × Nat)
  | [] => []
  | .send _ sid _ ⟨_, _, _, some i⟩ :: rest => (sid, i) :: askedIn rest
  | _ :: rest => askedIn rest

def nthAsked (asked : List (Sid × Nat)) (sid : Sid) (n : Nat) : Option Nat :=
  ((asked.filter (fun a => a.1 = sid))[n]?).map (·.2)

/-- the listener of `h` over a list of channel entries -/
def catchUp (h : Host) : List Msg → Res
  | [] => { h := h }
  | m :: ms =>
    let r := listenMsg h m
    let rest := catchUp r.h ms
    { h := rest.h, outs := r.outs ++ rest.outs, pubs := r.pubs ++ rest.pubs }

/-- `deliver(h, k)`: `_thread()` with a `_listen()` that yields the next `k` entries (of the channel
    as it is when the call starts) -/
def deliverOn (chan : List Msg) (k : Nat) (h : Host) : Res :=
  let batch := (chan.drop h.cursor).take k
  let r := catchUp h batch
  { r with h := { r.h with cursor := h.cursor + batch.length } }

def drainHosts (chan : List Msg) : List Host → List Host × List Out × List Msg
  | [] => ([], [], chan)
  | h :: hs =>
    let r := deliverOn chan chan.length h
    let rest := drainHosts (chan ++ r.pubs) hs
    (r.h :: rest.1, r.outs ++ rest.2.1, rest.2.2)

def Cluster.finish (c : Cluster) (hosts : List Host) (outs : List Out) (pubs : List Msg) :
    Cluster × List Out :=
  ({ c with hosts := hosts, chan := c.chan ++ pubs, asked := c.asked ++ askedIn outs }, outs)

def Cluster.on (c : Cluster) (hid : HostId) (f : Host → Res) : Cluster × List Out :=
  let r := onHost f hid c.hosts
  c.finish r.1 r.2.1 r.2.2

def step (c : Cluster) : Op → Cluster × List Out
  | .connect hid ns eio sid => c.on hid (fun h => apiConnect h ns eio sid)
  | .enter via ns sid room => c.on via (fun h => apiEnter h ns sid room)
  | .leave via ns sid room => c.on via (fun h => apiLeave h ns sid room)
  | .close via ns room => c.on via (fun h => apiClose h ns room)
  | .emit (some via) ev d ns to skip cb => c.on via (fun h => apiEmit h true ev d ns to skip cb)
  | .emit none ev d ns to skip cb =>
    let r := apiEmit c.wo false ev d ns to skip cb
    ({ c with wo := r.h, chan := c.chan ++ r.pubs }, r.outs)
  | .disconnect via ns sid => c.on via (fun h => apiDisconnect h ns sid)
  | .ack ns sid n args =>
    match c.hosts.find? (fun h => h.connected ns sid), nthAsked c.asked sid n with
    | some h, some i => c.on h.id (fun h => apiAck h sid i args)
    | _, _ => (c, [])
  | .deliver hid k => c.on hid (deliverOn c.chan k)
  | .drain =>
    let r := drainHosts c.chan c.hosts
    ({ c with hosts := r.1, chan := r.2.2, asked := c.asked ++ askedIn r.2.1 }, r.2.1)

def run (c : Cluster) : List Op → Cluster × List Out
  | [] => (c, [])
  | op :: ops =>
    let r := step c op
    let rest := run r.1 ops
    (rest.1, r.2 ++ rest.2)

/-- immediate delivery: every operation is followed by a `drain` -/
def runSync (c : Cluster) : List Op → Cluster × List Out
  | [] => (c, [])
  | op :: ops =>
    let r := step c op
    let d := step r.1 .drain
    let rest := runSync d.1 ops
    (rest.1, r.2 ++ d.2 ++ rest.2)

/-! ### the reference: ONE server with a plain `Manager` holding all the clients -/

structure Single where
  srv : Host
  asked : List (Sid × Nat) := []

/-- `Manager.emit` -/
def singleEmit (h : Host) (ev : Str) (d : Data) (ns : Ns) (to : Target) (skip : Skip)
    (cb : Option Nat) : Res :=
  let r := emitLocal h ns to skip.toList (.str ev) d.pack (cb.map Cb.user)
  { h := r.1, outs := r.2 }

def singleEnter (h : Host) (ns : Ns) (sid : Sid) (room : Room) : Res :=
  match Rooms.enter h.rooms ns sid room with
  | .ok r => { h := { h with rooms := r } }
  | .error e => { h := h, outs := [.raised e] }

def Single.step (s : Single) : Op → Single × List Out
  | op =>
    let r : Res := match op with
      | .connect _ ns eio sid => apiConnect s.srv ns eio sid
      | .enter _ ns sid room => singleEnter s.srv ns sid room
      | .leave _ ns sid room => { h := { s.srv with rooms := Rooms.leave s.srv.rooms ns sid (some room) } }
      | .close _ ns room => { h := { s.srv with rooms := Rooms.closeRoom s.srv.rooms ns room } }
      | .emit _ ev d ns to skip cb => singleEmit s.srv ev d ns to skip cb
      | .disconnect _ ns sid => localDisconnect s.srv sid ns
      | .ack ns sid n args =>
        if s.srv.connected ns sid then
          match nthAsked s.asked sid n with
          | some i => apiAck s.srv sid i args
          | none => { h := s.srv }
        else { h := s.srv }
      | .deliver _ _ => { h := s.srv }
      | .drain => { h := s.srv }
    ({ srv := r.h, asked := s.asked ++ askedIn r.outs }, r.outs)

def Single.run (s : Single) : List Op → Single × List Out
  | [] => (s, [])
  | op :: ops =>
    let r := s.step op
    let rest := Single.run r.1 ops
    (rest.1, r.2 ++ rest.2)

/-! ### what a client, and the application, observe -/

/-- a packet as the client sees it, ack ids abstracted to "asks for an acknowledgement" -/
inductive Seen where
  | event (ns : Ns) (ev : J) (args : List J) (wantsAck : Bool)
  | disconnect (ns : Ns)
  deriving Repr

/-- the packets client `sid` receives, in order -/
def seenBy (sid : Sid) : List Out → List Seen
  | [] => []
  | .send _ s _ f :: rest =>
    if s = sid then .event f.ns f.ev f.args f.id.isSome :: seenBy sid rest else seenBy sid rest
  | .sendDisc _ s _ ns :: rest =>
    if s = sid then .disconnect ns :: seenBy sid rest else seenBy sid rest
  | _ :: rest => seenBy sid rest

/-- what the application sees, hosts forgotten -/
inductive AppEv where
  | callback (tok : Nat) (args : List J)
  | disconnected (sid : Sid) (ns : Ns)
  deriving Repr

def appEvents : List Out → List AppEv
  | [] => []
  | .callback _ tok args :: rest => .callback tok args :: appEvents rest
  | .discHandler _ sid ns :: rest => .disconnected sid ns :: appEvents rest
  | _ :: rest => appEvents rest

/-! ### the listener with its two containment levels (C15) -/

/-- what decoding a raw channel entry produced -/
inductive Decoded where
  | none                    -- decoding raised, or produced `None`
  | falsy                   -- `0`, `''`, `[]`, `{}`, `False`, …
  | scalar                  -- a truthy non-container: `'method' in data` raises `TypeError`
  | seq (hasMethod : Bool)  -- str / list / tuple / set: `in` works, `data['method']` does not
  | dictNoMethod            -- a non-empty dict without the key
  | dict (m : DMsg)
  deriving Repr, Inhabited

/-- what the application code that this entry reaches does -/
inductive Fault where
  | none
  | app                     -- the application callback / disconnect handler raises an `Exception`
  | srv                     -- `server.disconnect` itself raises an `Exception` (before doing anything)
  | fatal                   -- the application callback raises a `BaseException` (e.g. `SystemExit`)
  deriving Repr, DecidableEq, Inhabited

/-- one thing that happens to the `for message in self._listen()` loop -/
inductive Raw where
  | dict (d : Decoded)                              -- `isinstance(message, dict)`: taken as it is
  | bytes (pickle : Decoded) (json : Decoded)       -- `pickle.loads`, then (if that gave None) `json.loads`
  | text (json : Decoded)                           -- anything else: `json.loads` only
  | listenRaises                                    -- the iterator raises an `Exception`
  deriving Repr, Inhabited

structure Item where
  raw : Raw
  fault : Fault := .none
  deriving Repr, Inhabited

/-- the decoding fallbacks -/
def decode : Raw → Decoded
  | .dict d => d
  | .bytes p j => match p with
    | .none => j
    | d => d
  | .text j => j
  | .listenRaises => .none

inductive Pre where
  | skip
  | boom
  | go (m : DMsg)

/-- `if data and 'method' in data:` and the debug line `data['method']` -/
def preDispatch : Decoded → Pre
  | .none => .skip
  | .falsy => .skip
  | .scalar => .boom
  | .seq false => .skip
  | .seq true => .boom
  | .dictNoMethod => .skip
  | .dict m => .go m

def isCallbackOut : Out → Bool
  | .callback .. => true
  | _ => false

def isDiscHandlerOut : Out → Bool
  | .discHandler .. => true
  | _ => false

/-- `dispatch` with the application scripted to fail -/
def dispatchF (h : Host) (m : DMsg) (f : Fault) : Res × Bool :=
  if f = .srv ∧ m.method = some mDisconnect ∧ m.hostId ≠ some h.id then
    ({ h := h, err := some .other }, false)
  else
    let r := dispatch h m
    if r.err.isNone ∧ f = .app ∧ (r.outs.any isCallbackOut ∨ r.outs.any isDiscHandlerOut) then
      ({ r with err := some .other }, false)
    else if r.err.isNone ∧ f = .fatal ∧ r.outs.any isCallbackOut then (r, true)
    else (r, false)

structure LRes where
  h : Host
  outs : List Out := []
  pubs : List Msg := []
  alive : Bool := true

/-- one iteration of `for message in self._listen()` including both `except` clauses -/
def listenStep (h : Host) (e : Item) : LRes :=
  match e.raw with
  | .listenRaises => { h := h, outs := [.restarted h.id] }
  | raw =>
    match preDispatch (decode raw) with
    | .skip => { h := h }
    | .boom => { h := h, outs := [.restarted h.id] }
    | .go m =>
      let r := dispatchF h m e.fault
      if r.2 then { h := r.1.h, outs := r.1.outs, pubs := r.1.pubs, alive := false }
      else match r.1.err with
        | none => { h := r.1.h, outs := r.1.outs, pubs := r.1.pubs }
        | some err => { h := r.1.h, outs := r.1.outs ++ [.handlerError h.id err], pubs := r.1.pubs }

/-- the listener over a stream; it stops only when it dies -/
def listen (h : Host) : List Item → LRes
  | [] => { h := h }
  | e :: es =>
    let r := listenStep h e
    if r.alive then
      let rest := listen r.h es
      { h := rest.h, outs := r.outs ++ rest.outs, pubs := r.pubs ++ rest.pubs, alive := rest.alive }
    else r

/-! ### `_redis_listen_with_retries` -/

/-- what one pass through the `while True:` body of the retry generator meets -/
inductive Pass where
  | connectFails                  -- `_redis_connect()` / `subscribe` raises RedisError
  | listenFails (n : Nat)         -- `listen()` yields `n` messages, then raises RedisError
  | listenEnds (n : Nat)          -- `listen()` yields `n` messages and returns
  deriving Repr

structure Retry where
  retrySleep : Nat := 1
  connect : Bool := false
  deriving Repr

/-- one pass: (messages yielded, sleep taken if any, reconnected?) -/
def retryPass (s : Retry) : Pass → Retry × Nat × Option Nat × Bool
  | .connectFails =>
    if s.connect then
      ({ retrySleep := min (s.retrySleep * 2) 60, connect := true }, 0, some s.retrySleep, false)
    else (s, 0, none, false)     -- not attempted: the script entry does not apply
  | .listenFails n =>
    let cur := if s.connect then 1 else s.retrySleep
    ({ retrySleep := min (cur * 2) 60, connect := true }, n, some cur, s.connect)
  | .listenEnds n =>
    let cur := if s.connect then 1 else s.retrySleep
    ({ s with retrySleep := cur }, n, none, s.connect)

structure RetryLog where
  yielded : Nat := 0
  sleeps : List Nat := []
  reconnects : Nat := 0
  deriving Repr

def retryRun (s : Retry) : List Pass → Retry × RetryLog
  | [] => (s, {})
  | p :: ps =>
    let r := retryPass s p
    let rest := retryRun r.1 ps
    (rest.1, { yielded := r.2.1 + rest.2.yielded,
               sleeps := (match r.2.2.1 with | some t => [t] | none => []) ++ rest.2.sleeps,
               reconnects := (if r.2.2.2 then 1 else 0) + rest.2.reconnects })

end Sio.PubSub
