/-
  K7 — the Socket.IO client of `client.py` / `async_client.py` / `base_client.py`
  (`connect`, the wait loop, `emit`/`send`/`call`, `disconnect`, `_handle_connect`,
  `_handle_disconnect`, `_handle_event`, `_handle_ack`, `_handle_error`, `_handle_eio_connect`,
  `_handle_eio_message`, `_handle_eio_disconnect`, `_generate_ack_id`), transcribed branch by
  branch, over the engine.io client contract of DESIGN §4:

    * `eio.connect()` either raises `ConnectionError` or sets `state = 'connected'` and fires the
      `connect` event; `eio.send()` drops the packet unless `state == 'connected'`;
    * `eio.disconnect()` (only when connected) hands CLOSE to the transport and fires the
      `disconnect` event with `state == 'disconnecting'`; loss of the transport fires it with
      `state == 'connected'`; afterwards `state == 'disconnected'`;
    * messages are delivered one at a time and in order, exceptions of the callbacks are contained.

  The unit of a history is one engine.io interaction: an API call carries the list of *reactions*
  of the peer (server frames, loss of the transport) that arrive inside `eio.connect()` /
  `eio.send()`, i.e. before the call returns.  `wait_timeout` is not modelled as time: the reactions
  of a `connect` are "what arrives before the timeout".

  The application is a parameter: `Cfg.resolve` is the handler registry (`_trigger_event`'s choice
  of callable and the arguments it receives), `Cfg.ret` the scripted result of the callable.
  `reconnection=False` (the reconnection policy is K7b / C10).  Core Lean only.
-/
import Sio.Model.Json
import Sio.Model.Codec
namespace Sio.Client

abbrev Ns := Str

/-! ### constants (spelled as character lists so that the kernel can compute with them) -/

def root : Ns := ['/']
def sConnect : Str := ['c', 'o', 'n', 'n', 'e', 'c', 't']
def sDisconnect : Str := ['d', 'i', 's', 'c', 'o', 'n', 'n', 'e', 'c', 't']
def sConnectError : Str := ['c', 'o', 'n', 'n', 'e', 'c', 't', '_', 'e', 'r', 'r', 'o', 'r']
def sMessage : Str := ['m', 'e', 's', 's', 'a', 'g', 'e']
def sSid : Str := ['s', 'i', 'd']
/-- `engineio.Client.reason.*` -/
def rClient : Str := ['c', 'l', 'i', 'e', 'n', 't', ' ', 'd', 'i', 's', 'c', 'o', 'n', 'n', 'e', 'c', 't']
def rServer : Str := ['s', 'e', 'r', 'v', 'e', 'r', ' ', 'd', 'i', 's', 'c', 'o', 'n', 'n', 'e', 'c', 't']
def rTransport : Str := ['t', 'r', 'a', 'n', 's', 'p', 'o', 'r', 't', ' ', 'e', 'r', 'r', 'o', 'r']

/-- `namespace or '/'` -/
def nsOr : Option Ns → Ns
  | none => root
  | some [] => root
  | some n => n

/-! ### the application, as data -/

/-- Which registered callable: `handlers[nsKey][evKey]` (`cls = false`) or the method
    `on_<evKey>` of `namespace_handlers[nsKey]` (`cls = true`); either key may be `'*'`. -/
structure Slot where
  cls : Bool
  nsKey : Str
  evKey : Str
  deriving DecidableEq, Repr, Inhabited

structure Cfg where
  /-- `_trigger_event(event, namespace, *args)`: the callable that runs and the arguments it
      receives (`none`: nothing is registered for it, nothing runs). -/
  resolve : Ns → Str → List J → Option (Slot × List J)
  /-- what the callable returns -/
  ret : Slot → List J → Data

/-- `connection_auth`: a value or a callable returning it. -/
structure Auth where
  callable : Bool
  val : Option J
  deriving Repr, Inhabited

/-- `self._get_real_value(self.connection_auth) or {}` -/
def Auth.real (a : Auth) : J :=
  match a.val with
  | some j => if j.truthy then j else .obj []
  | none => .obj []

inductive CbKind where
  | fn | coro | call
  /-- an application callback that raises after it has run (contained by engine.io) -/
  | raises
  deriving DecidableEq, Repr, Inhabited

/-- An acknowledgement callback: a token chosen by the caller (`call` is the internal
    `event_callback` of `call()`). -/
structure Cb where
  tok : Nat
  kind : CbKind
  deriving DecidableEq, Repr, Inhabited

/-! ### state -/

inductive Eio where
  | disconnected | connected
  deriving DecidableEq, Repr, Inhabited

structure Cli where
  connected : Bool := false
  /-- `namespaces`: dict namespace → sid, in insertion order -/
  namespaces : List (Ns × J) := []
  /-- `connection_namespaces` -/
  requested : List Ns := []
  /-- `callbacks[ns][id]`, as a relation -/
  cbs : List (Ns × Nat × Cb) := []
  /-- `ack_counters[ns]`: the last id handed out -/
  ctr : List (Ns × Nat) := []
  /-- `_binary_packet` -/
  binbuf : Option Partial := none
  sid : Option Str := none
  /-- `eio.state` between two interactions -/
  eio : Eio := .disconnected
  /-- the `reconnection` option (constant) -/
  reconnection : Bool := false
  /-- `_reconnect_task` is set: a reconnection effort was started (K7b / C10 owns the effort itself;
      here it is started and held, so the flag is never cleared) -/
  effort : Bool := false
  deriving Inhabited

def init : Cli := {}

/-- a client created with `reconnection=b` -/
def initR (b : Bool) : Cli := { reconnection := b }

/-! ### inputs and outputs -/

/-- What the transport does to the client. -/
inductive Ev where
  /-- an engine.io MESSAGE: the raw payload (`.str` text / `.bin` bytes) and what
      `Packet(encoded_packet=…)` makes of it -/
  | msg (raw : J) (d : Except Err (Packet × Nat))
  /-- the read loop ends on a transport error -/
  | lost
  /-- engine.io CLOSE from the server -/
  | close
  deriving Inhabited

inductive Outcome where
  /-- `eio.connect()` raises `ConnectionError(*args)`; `arg` is what `connect_error` receives -/
  | refuse (arg : J)
  | accept (eioSid : Str)
  deriving Inhabited

inductive Input where
  /-- `connect(url, auth=…, namespaces=nss, wait=…)`; `reacts[i]` arrives after the i-th CONNECT
      packet has been handed to the transport -/
  | connect (nss : List Ns) (auth : Auth) (wait : Bool) (oc : Outcome) (reacts : List (List Ev))
  /-- `emit(ev, data, namespace, callback)`; `reacts` arrives after the EVENT packet has been
      handed to the transport -/
  | emit (ev : Str) (d : Data) (ns : Option Ns) (cb : Option Cb) (reacts : List Ev)
  | send (d : Data) (ns : Option Ns) (cb : Option Cb) (reacts : List Ev)
  | call (ev : Str) (d : Data) (ns : Option Ns) (tok : Nat) (reacts : List Ev)
  | disconnect
  /-- a transport event between two API calls -/
  | ev (e : Ev)
  deriving Inhabited

/-- Exception classes raised by the API. -/
inductive CErr where
  | connectionError | badNamespace | timeout | valueError
  deriving DecidableEq, Repr, Inhabited

inductive Out where
  /-- a Socket.IO packet handed to a connected transport -/
  | send (p : Packet)
  /-- engine.io CLOSE handed to the transport -/
  | close
  /-- the `auth` callable was invoked -/
  | authCall
  /-- `_trigger_event(ev, ns, …)`: `tgt` is the callable that ran and its arguments -/
  | trig (ev : Str) (ns : Ns) (tgt : Option (Slot × List J))
  | callback (cb : Cb) (args : List J)
  /-- an exception contained by engine.io's `_trigger_event` -/
  | contained (e : Err)
  | result (r : Data)
  | raised (e : CErr)
  /-- `start_background_task(self._handle_reconnect)` -/
  | effort
  deriving Inhabited

/-! ### helpers -/

/-- `n in d` for a dict kept as an association list -/
def hasKey (l : List (Ns × J)) (n : Ns) : Bool := l.any (fun e => e.1 = n)

/-- `del d[n]` (if present) -/
def dropNs (l : List (Ns × J)) (n : Ns) : List (Ns × J) := l.filter (fun e => e.1 ≠ n)

def hasNs (c : Cli) (n : Ns) : Bool := hasKey c.namespaces n

def ctrOf (ctr : List (Ns × Nat)) (n : Ns) : Nat :=
  match ctr.find? (fun e => e.1 = n) with
  | some e => e.2
  | none => 0

def setCtr (ctr : List (Ns × Nat)) (n : Ns) (v : Nat) : List (Ns × Nat) :=
  (n, v) :: ctr.filter (fun e => e.1 ≠ n)

/-- `Packet(EVENT | ACK, data=…, namespace=…, id=…)`: promoted when the payload holds bytes. -/
def evPacket (type : Nat) (data : J) (n : Ns) (id : Option Nat) : Packet :=
  if data.isBinary then
    ⟨if type = EVENT then BINARY_EVENT else BINARY_ACK, some n, id, some data⟩
  else ⟨type, some n, id, some data⟩

/-- `eio.send()`: dropped unless the transport is connected. -/
def sendPkt (c : Cli) (p : Packet) : List Out :=
  if c.eio = .connected then [.send p] else []

/-- `_trigger_event` -/
def trigger (cfg : Cfg) (ev : Str) (n : Ns) (args : List J) : List Out × Data :=
  match cfg.resolve n ev args with
  | some (slot, a) => ([.trig ev n (some (slot, a))], cfg.ret slot a)
  | none => ([.trig ev n none], .none)

/-- `call()`'s result from the acknowledged arguments. -/
def unpack : List J → Data
  | [] => .none
  | [x] => .one x
  | xs => .tuple xs

/-! ### the end of the transport -/

/-- `_handle_eio_disconnect(reason)` with `reconnection=False`. -/
def onEioDisconnect (cfg : Cfg) (c : Cli) (reason : Str) : Cli × List Out :=
  if c.connected then
    ({ c with namespaces := [], connected := false, cbs := [], ctr := [], binbuf := none,
              sid := none },
     c.namespaces.flatMap (fun e => (trigger cfg sDisconnect e.1 [.str reason]).1))
  else
    ({ c with cbs := [], ctr := [], binbuf := none, sid := none }, [])

/-- `eio.disconnect(reason=…)` -/
def eioDisconnect (cfg : Cfg) (c : Cli) (reason : Str) : Cli × List Out :=
  if c.eio = .connected then
    let r := onEioDisconnect cfg c reason
    ({ r.1 with eio := .disconnected }, .close :: r.2)
  else (c, [])

/-- the end of `_handle_eio_disconnect` when `will_reconnect` (`reconnection` and
    `eio.state == 'connected'`, i.e. the transport was lost): `if not self._reconnect_task:` start it -/
def startEffort (c : Cli) : Cli × List Out :=
  if c.reconnection && !c.effort then ({ c with effort := true }, [.effort]) else (c, [])

/-- the tail of engine.io's read loop after a transport error (`eio.state` is still `'connected'`
    while `_handle_eio_disconnect` runs, so this is where a reconnection effort starts) -/
def onLost (cfg : Cfg) (c : Cli) : Cli × List Out :=
  if c.eio = .connected then
    let r := onEioDisconnect cfg c rTransport
    let s := startEffort { r.1 with eio := .disconnected }
    (s.1, r.2 ++ s.2)
  else (c, [])

/-- `disconnect()` -/
def apiDisconnect (cfg : Cfg) (c : Cli) : Cli × List Out :=
  let sends := c.namespaces.flatMap (fun e => sendPkt c ⟨DISCONNECT, some e.1, none, none⟩)
  let r := eioDisconnect cfg c rClient
  (r.1, sends ++ r.2)

/-! ### packets from the server -/

/-- `(data or {}).get('sid', sid)` -/
def sidVal (sid : Option Str) (data : Option J) : Except Err J :=
  let dflt : J := match sid with
    | some s => .str s
    | none => .null
  match data with
  | none => .ok dflt
  | some d =>
    if !d.truthy then .ok dflt
    else match d with
      | .obj kvs => .ok ((lookup sSid kvs).getD dflt)
      | _ => .error .attributeError

/-- `(data or {}).get('sid', self.sid)` -/
def sidOf (c : Cli) (data : Option J) : Except Err J := sidVal c.sid data

def handleConnect (cfg : Cfg) (c : Cli) (ns : Option Ns) (data : Option J) : Cli × List Out :=
  let n := nsOr ns
  if hasNs c n then (c, [])
  else match sidOf c data with
    | .error e => (c, [.contained e])
    | .ok s => ({ c with namespaces := c.namespaces ++ [(n, s)] }, (trigger cfg sConnect n []).1)

def handleDisconnect (cfg : Cfg) (c : Cli) (ns : Option Ns) : Cli × List Out :=
  if !c.connected then (c, [])
  else
    let n := nsOr ns
    let o1 := (trigger cfg sDisconnect n [.str rServer]).1
    let rest := dropNs c.namespaces n
    if rest.isEmpty then
      let r := eioDisconnect cfg { c with namespaces := rest, connected := false } rClient
      (r.1, o1 ++ r.2)
    else ({ c with namespaces := rest }, o1)

def handleEvent (cfg : Cfg) (c : Cli) (ns : Option Ns) (id : Option Nat) (data : Option J) :
    Cli × List Out :=
  let n := nsOr ns
  match data with
  | some (.arr (.str name :: args)) =>
    let r := trigger cfg name n args
    match id with
    | none => (c, r.1)
    | some i => (c, r.1 ++ sendPkt c (evPacket ACK (.arr r.2.pack) n (some i)))
  | _ => (c, [.contained .typeError])

def isKey (n : Ns) (i : Nat) (e : Ns × Nat × Cb) : Bool := e.1 = n && e.2.1 = i

/-- `callback(*data)`; an exception of the callback leaves `_handle_eio_message` and is contained
    by engine.io (the table entry is gone by then) -/
def ackOuts (cb : Cb) : Option J → List Out
  | some (.arr args) =>
    if cb.kind = .raises then [.callback cb args, .contained .other] else [.callback cb args]
  | _ => [.contained .typeError]

def handleAck (c : Cli) (ns : Option Ns) (id : Option Nat) (data : Option J) : Cli × List Out :=
  match id with
  | none => (c, [])
  | some i =>
    match c.cbs.find? (isKey (nsOr ns) i) with
    | none => (c, [])
    | some e => ({ c with cbs := c.cbs.filter (fun x => !isKey (nsOr ns) i x) }, ackOuts e.2.2 data)

/-- `_handle_error`: `None` → `()`, a list → its items, anything else → one argument -/
def errArgs : Option J → List J
  | none => []
  | some .null => []
  | some (.arr xs) => xs
  | some j => [j]

def handleError (cfg : Cfg) (c : Cli) (ns : Option Ns) (data : Option J) : Cli × List Out :=
  let n := nsOr ns
  let o := (trigger cfg sConnectError n (errArgs data)).1
  if n = root then ({ c with namespaces := [], connected := false }, o)
  else ({ c with namespaces := dropNs c.namespaces n }, o)

/-- dispatch of a complete packet in `_handle_eio_message` -/
def handlePkt (cfg : Cfg) (c : Cli) (p : Packet) : Cli × List Out :=
  if p.type = CONNECT then handleConnect cfg c p.nsp p.data
  else if p.type = DISCONNECT then handleDisconnect cfg c p.nsp
  else if p.type = EVENT then handleEvent cfg c p.nsp p.id p.data
  else if p.type = ACK then handleAck c p.nsp p.id p.data
  else if p.type = CONNECT_ERROR then handleError cfg c p.nsp p.data
  else (c, [.contained .valueError])

/-- `_handle_eio_message(data)` -/
def onMessage (cfg : Cfg) (c : Cli) (raw : J) (d : Except Err (Packet × Nat)) : Cli × List Out :=
  match c.binbuf with
  | some pt =>
    match addAttachment pt raw with
    | .error e => (c, [.contained e])
    | .ok (.more pt') => ({ c with binbuf := some pt' }, [])
    | .ok (.complete pk) =>
      if pk.type = BINARY_EVENT then handleEvent cfg { c with binbuf := none } pk.nsp pk.id pk.data
      else handleAck { c with binbuf := none } pk.nsp pk.id pk.data
  | none =>
    match d with
    | .error e => (c, [.contained e])
    | .ok (p, natt) =>
      if isBinType p.type then ({ c with binbuf := some ⟨p, natt, []⟩ }, [])
      else handlePkt cfg c p

def deliver (cfg : Cfg) (c : Cli) : Ev → Cli × List Out
  | .msg raw d => if c.eio = .connected then onMessage cfg c raw d else (c, [])
  | .lost => onLost cfg c
  | .close => eioDisconnect cfg c rServer

def deliverAll (cfg : Cfg) (c : Cli) : List Ev → Cli × List Out
  | [] => (c, [])
  | e :: es =>
    let r1 := deliver cfg c e
    let r2 := deliverAll cfg r1.1 es
    (r2.1, r1.2 ++ r2.2)

/-! ### the API -/

/-- `_generate_ack_id` -/
def genId (c : Cli) (n : Ns) (cb : Cb) : Cli × Nat :=
  let i := ctrOf c.ctr n + 1
  ({ c with ctr := setCtr c.ctr n i, cbs := c.cbs ++ [(n, i, cb)] }, i)

/-- `emit()` up to its return value: the new state, what happened, and whether it returned. -/
def emitCore (cfg : Cfg) (c : Cli) (ev : Str) (d : Data) (ns : Option Ns) (cb : Option Cb)
    (reacts : List Ev) : Cli × List Out × Bool :=
  let n := nsOr ns
  if !hasNs c n then (c, [.raised .badNamespace], false)
  else
    let r : Cli × Option Nat := match cb with
      | some k => let g := genId c n k; (g.1, some g.2)
      | none => (c, none)
    let p := evPacket EVENT (.arr (.str ev :: d.pack)) n r.2
    if r.1.eio = .connected then
      let r2 := deliverAll cfg r.1 reacts
      (r2.1, .send p :: r2.2, true)
    else (r.1, [], true)

def emit (cfg : Cfg) (c : Cli) (ev : Str) (d : Data) (ns : Option Ns) (cb : Option Cb)
    (reacts : List Ev) : Cli × List Out :=
  let r := emitCore cfg c ev d ns cb reacts
  (r.1, if r.2.2 then r.2.1 ++ [.result .none] else r.2.1)

/-- the arguments `call()`'s own callback was invoked with, if it was -/
def callArgs (tok : Nat) : List Out → Option (List J)
  | [] => none
  | .callback cb args :: rest =>
    if cb.tok = tok ∧ cb.kind = .call then some args else callArgs tok rest
  | _ :: rest => callArgs tok rest

def call (cfg : Cfg) (c : Cli) (ev : Str) (d : Data) (ns : Option Ns) (tok : Nat)
    (reacts : List Ev) : Cli × List Out :=
  let r := emitCore cfg c ev d ns (some ⟨tok, .call⟩) reacts
  if !r.2.2 then (r.1, r.2.1)
  else match callArgs tok r.2.1 with
    | some args => (r.1, r.2.1 ++ [.result (unpack args)])
    | none => (r.1, r.2.1 ++ [.raised .timeout])

/-- the loop of `_handle_eio_connect`; once the transport is gone nothing more is handed over -/
def connectLoop (cfg : Cfg) (auth : J) : Cli → List Ns → List (List Ev) → Cli × List Out
  | c, [], _ => (c, [])
  | c, n :: ns, rs =>
    if c.eio = .connected then
      let r1 := deliverAll cfg c (rs.headD [])
      let r2 := connectLoop cfg auth r1.1 ns rs.tail
      (r2.1, .send ⟨CONNECT, some n, none, some auth⟩ :: (r1.2 ++ r2.2))
    else (c, [])

/-- `set(self.namespaces) == set(self.connection_namespaces)` -/
def sameSet (a b : List Ns) : Bool := a.all (fun x => b.contains x) && b.all (fun x => a.contains x)

def connect (cfg : Cfg) (c : Cli) (nss : List Ns) (auth : Auth) (wait : Bool) (oc : Outcome)
    (reacts : List (List Ev)) : Cli × List Out :=
  if c.connected then (c, [.raised .connectionError])                   -- 'Already connected'
  else
    let c0 := { c with requested := nss, namespaces := [] }
    if c0.eio ≠ .disconnected then (c0, [.raised .valueError])          -- engine.io's ValueError
    else match oc with
      | .refuse arg =>
        (c0, nss.flatMap (fun n => (trigger cfg sConnectError n [arg]).1)
               ++ [.raised .connectionError])
      | .accept es =>
        let c1 := { c0 with eio := .connected, sid := some es }
        let oa : List Out := if auth.callable then [.authCall] else []
        let r := connectLoop cfg auth.real c1 nss reacts
        if wait && !sameSet (r.1.namespaces.map (·.1)) nss then
          let r3 := apiDisconnect cfg r.1
          -- `self.disconnect(); self.namespaces = {}` (repair of F7, /repo `fix:` commit)
          ({ r3.1 with namespaces := [] }, oa ++ r.2 ++ r3.2 ++ [.raised .connectionError])
        else ({ r.1 with connected := true }, oa ++ r.2 ++ [.result .none])

def step (cfg : Cfg) (c : Cli) : Input → Cli × List Out
  | .connect nss auth wait oc reacts => connect cfg c nss auth wait oc reacts
  | .emit ev d ns cb reacts => emit cfg c ev d ns cb reacts
  | .send d ns cb reacts => emit cfg c sMessage d ns cb reacts
  | .call ev d ns tok reacts => call cfg c ev d ns tok reacts
  | .disconnect => let r := apiDisconnect cfg c; (r.1, r.2 ++ [.result .none])
  | .ev e => deliver cfg c e

def run (cfg : Cfg) (c : Cli) : List Input → Cli × List Out
  | [] => (c, [])
  | i :: is =>
    let r1 := step cfg c i
    let r2 := run cfg r1.1 is
    (r2.1, r1.2 ++ r2.2)

/-! ### a concrete registry (what the driver instantiates `Cfg.resolve` with) -/

def star : Str := ['*']
def reserved : List Str :=
  [sConnect, sConnectError, sDisconnect,
   ['_', '_', 'd', 'i', 's', 'c', 'o', 'n', 'n', 'e', 'c', 't', '_', 'f', 'i', 'n', 'a', 'l']]

structure Reg where
  /-- `ns in handlers and ev in handlers[ns]` -/
  fn : Str → Str → Bool
  /-- `ns in namespace_handlers` -/
  cls : Str → Bool
  /-- `hasattr(namespace_handlers[ns], 'on_' + ev)` -/
  method : Str → Str → Bool
  /-- the callable does not take the `reason` argument of `disconnect` -/
  legacy : Slot → Bool

/-- the arguments a `disconnect` handler without `reason` parameter ends up with -/
def Reg.args (r : Reg) (s : Slot) (ev : Str) (args : List J) : List J :=
  if ev = sDisconnect && r.legacy s then args.dropLast else args

/-- `_get_event_handler` (an event literally named `'*'` is never an exact event match, /repo
    6dcbd32; a namespace literally named `'*'` is never an exact namespace match, /repo 74a0887:
    `if namespace != '*' and namespace in self.handlers`), then `_get_namespace_handler`
    (`if namespace != '*' and namespace in self.namespace_handlers … elif '*' in …`) + `trigger_event` -/
def Reg.resolve (r : Reg) (n : Ns) (ev : Str) (args : List J) : Option (Slot × List J) :=
  let res := reserved.contains ev
  let viaNs : Option (Slot × List J) :=
    if n == star then none
    else if ev ≠ star && r.fn n ev then some (⟨false, n, ev⟩, args)
    else if !res && r.fn n star then some (⟨false, n, star⟩, .str ev :: args)
    else none
  let viaFn : Option (Slot × List J) := match viaNs with
    | some h => some h
    | none =>
      if ev ≠ star && r.fn star ev then some (⟨false, star, ev⟩, .str n :: args)
      else if !res && r.fn star star then some (⟨false, star, star⟩, .str ev :: .str n :: args)
      else none
  match viaFn with
  | some (s, a) => some (s, r.args s ev a)
  | none =>
    if n != star && r.cls n then
      if r.method n ev then some (⟨true, n, ev⟩, r.args ⟨true, n, ev⟩ ev args) else none
    else if r.cls star then
      if r.method star ev then
        some (⟨true, star, ev⟩, r.args ⟨true, star, ev⟩ ev (.str n :: args))
      else none
    else none

end Sio.Client
