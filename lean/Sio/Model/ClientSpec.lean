/-
  Spec side of K7: the *server's view* of one client connection, folded over the same history the
  client model consumes, together with the conformance conditions of the environment (what a
  Socket.IO server may send, DESIGN §5 C08 "Tie").  It is deliberately independent of the client
  model: it never looks at the client's flags (`connected`, `namespaces`, …); the theorems of C08
  relate the two.

  The view also produces the *notifications the application must see*: one `accepted n` for every
  namespace the server accepts, one `refused n` for every refusal, one `ended n` for every accepted
  namespace that ends — whichever of server DISCONNECT, transport loss, engine.io CLOSE or the
  client's own `disconnect()` ends it.

  `specStep … = none` means the history is outside the property's quantifier:
    * the peer is not a conformant server (answers a namespace that was not asked for, refuses one
      it has accepted,
      ends a namespace it has not accepted, sends an event named like a notification, breaks the
      framing of a binary packet), or
    * the history enters one of the regions excluded as known findings (DESIGN §6):
        F8   transport lost / engine.io CLOSE before `connect()` has returned,
        F8b  server DISCONNECT before `connect()` has returned,
        F9   namespace `/` refused for a `connect(wait=False)`.
  Core Lean only.
-/
import Sio.Model.Client
namespace Sio.Client

inductive Note where
  | accepted (n : Ns)
  | refused (n : Ns)
  | ended (n : Ns)
  deriving DecidableEq, Repr, Inhabited

/-- where in the client's control flow a transport event arrives -/
inductive Mode where
  /-- inside `connect(wait=w)`, before it has returned -/
  | win (w : Bool)
  /-- between API calls, or inside `emit`/`call` of an established connection -/
  | live
  deriving DecidableEq, Repr, Inhabited

structure View where
  /-- the transport is up -/
  up : Bool := false
  /-- engine.io session id (the default namespace sid) -/
  esid : Option Str := none
  /-- asked for and not yet answered -/
  asked : List Ns := []
  /-- accepted and not yet ended, with the sid the server assigned, in order of acceptance -/
  acc : List (Ns × J) := []
  /-- refused -/
  ref : List Ns := []
  /-- binary packet of which attachments are still owed -/
  pend : Option Partial := none
  deriving Inhabited

def View.down : View := {}

/-- `asked` without `n` -/
def dropAsk (l : List Ns) (n : Ns) : List Ns := l.filter (· ≠ n)

/-- every accepted namespace ends -/
def View.endAll (v : View) : View × List Note := (View.down, v.acc.map (fun e => Note.ended e.1))

/-- the notification names -/
def isReservedName (s : Str) : Bool := s = sConnect || s = sDisconnect || s = sConnectError

/-- the payload of an EVENT whose name is one of the notification names -/
def reservedEvent : Option J → Bool
  | some (.arr (.str name :: _)) => isReservedName name
  | _ => false

/-- One transport event, seen from the server's side. -/
def specEv (m : Mode) (v : View) (e : Ev) : Option (View × List Note) :=
  if !v.up then some (v, [])                    -- a dead transport delivers nothing
  else match e with
  | .lost => if m = .live then some v.endAll else none                      -- F8
  | .close => if m = .live then some v.endAll else none                     -- F8
  | .msg raw d =>
    match v.pend with
    | some pt =>
      -- the attachments of a binary packet follow its header without interruption
      match raw with
      | .bin _ =>
        match addAttachment pt raw with
        | .ok (.more pt') => some ({ v with pend := some pt' }, [])
        | .ok (.complete pk) =>
          if pk.type = BINARY_EVENT && reservedEvent pk.data then none
          else some ({ v with pend := none }, [])
        | .error _ => none
      | _ => none
    | none =>
      match d with
      | .error _ => none
      | .ok (p, natt) =>
        let n := nsOr p.nsp
        if p.type = CONNECT then
          if natt = 0 && v.asked.contains n then
            match sidVal v.esid p.data with
            | .ok s => some ({ v with asked := dropAsk v.asked n, acc := v.acc ++ [(n, s)] },
                             [.accepted n])
            | .error _ => none
          -- a repeated CONNECT for a namespace that is connected is ignored
          else if natt = 0 && hasKey v.acc n && !v.ref.contains root then some (v, [])
          else none
        else if p.type = CONNECT_ERROR then
          if natt = 0 && v.asked.contains n && (m = .win true || n ≠ root) then      -- F9
            some ({ v with asked := dropAsk v.asked n, ref := n :: v.ref }, [.refused n])
          else none
        else if p.type = DISCONNECT then
          if natt = 0 && m = .live && hasKey v.acc n then                            -- F8b
            let rest := dropNs v.acc n
            -- when the last namespace ends the connection is over
            if rest.isEmpty then some (View.down, [.ended n])
            else some ({ v with acc := rest }, [.ended n])
          else none
        else if p.type = EVENT then
          if natt = 0 && !reservedEvent p.data then some (v, []) else none
        else if p.type = ACK then
          if natt = 0 then some (v, []) else none
        else if isBinType p.type then
          if 0 < natt then some ({ v with pend := some ⟨p, natt, []⟩ }, []) else none
        else none

def specEvs (m : Mode) (v : View) : List Ev → Option (View × List Note)
  | [] => some (v, [])
  | e :: es =>
    match specEv m v e with
    | none => none
    | some (v1, t1) =>
      match specEvs m v1 es with
      | none => none
      | some (v2, t2) => some (v2, t1 ++ t2)

/-- the reactions of the i-th CONNECT packet, in the order of `_handle_eio_connect`'s loop -/
def specLoop (w : Bool) (v : View) : List Ns → List (List Ev) → Option (View × List Note)
  | [], _ => some (v, [])
  | _ :: ns, rs =>
    match specEvs (.win w) v (rs.headD []) with
    | none => none
    | some (v1, t1) =>
      match specLoop w v1 ns rs.tail with
      | none => none
      | some (v2, t2) => some (v2, t1 ++ t2)

/-- One input of the history.  `strict`: a `connect(wait=True)` that is not fully accepted puts the
    history outside the quantifier (the disconnect-once clause speaks about full acceptance);
    otherwise it fails and the connection is over. -/
def specStep (strict : Bool) (v : View) : Input → Option (View × List Note)
  | .connect nss _ wait oc reacts =>
    if v.up then some (v, [])                           -- `ConnectionError('Already connected')`
    else match oc with
      | .refuse _ => some (v, nss.map Note.refused)
      | .accept es =>
        if nss.isEmpty then none
        else
          match specLoop wait { up := true, esid := some es, asked := nss } nss reacts with
          | none => none
          | some (v1, t) =>
            if wait && !(v1.asked.isEmpty && v1.ref.isEmpty) then
              if strict then none else some (View.down, t)       -- `ConnectionError`
            else some (v1, t)
  | .emit _ _ ns _ reacts => if hasKey v.acc (nsOr ns) then specEvs .live v reacts else some (v, [])
  | .send _ ns _ reacts => if hasKey v.acc (nsOr ns) then specEvs .live v reacts else some (v, [])
  | .call _ _ ns _ reacts => if hasKey v.acc (nsOr ns) then specEvs .live v reacts else some (v, [])
  | .disconnect => some v.endAll
  | .ev e => specEv .live v e

def specRun (strict : Bool) (v : View) : List Input → Option (View × List Note)
  | [] => some (v, [])
  | i :: is =>
    match specStep strict v i with
    | none => none
    | some (v1, t1) =>
      match specRun strict v1 is with
      | none => none
      | some (v2, t2) => some (v2, t1 ++ t2)

/-- the notifications in a client trace: every `_trigger_event` of `connect`, `connect_error`,
    `disconnect` (whether or not a handler is registered for it) -/
def noteOf : Out → Option Note
  | .trig ev n _ =>
    if ev = sConnect then some (.accepted n)
    else if ev = sConnectError then some (.refused n)
    else if ev = sDisconnect then some (.ended n)
    else none
  | _ => none

def notes (os : List Out) : List Note := os.filterMap noteOf

end Sio.Client
