/-
  Value domain shared by all kernels: JSON-compatible trees with byte-string leaves.
  Python `str` is `List Char`, `bytes` is `List UInt8`, a dict is an association list in
  insertion order.  A float travels as the text of its Python `repr` and is never recomputed.
  Core Lean only (no Mathlib) so that the driver links natively.
-/
namespace Sio

abbrev Str := List Char
abbrev Bytes := List UInt8

inductive J where
  | null
  | bool (b : Bool)
  | int (i : Int)
  | flt (lit : Str)
  | str (s : Str)
  | bin (b : Bytes)
  | arr (xs : List J)
  | obj (kvs : List (Str × J))
  deriving Repr, Inhabited

/-- What an application hands to `emit` / returns from a handler. -/
inductive Data where
  | none
  | one (j : J)
  | tuple (xs : List J)
  deriving Repr, Inhabited

/-- Exception classes, mirroring the Python class raised. -/
inductive Err where
  | valueError
  | typeError
  | keyError
  | indexError
  | jsonError
  | attributeError
  | other
  deriving Repr, DecidableEq, Inhabited

def Err.name : Err → String
  | .valueError => "ValueError"
  | .typeError => "TypeError"
  | .keyError => "KeyError"
  | .indexError => "IndexError"
  | .jsonError => "JSONDecodeError"
  | .attributeError => "AttributeError"
  | .other => "Exception"

mutual
  def J.beq : J → J → Bool
    | .null, .null => true
    | .bool a, .bool b => a == b
    | .int a, .int b => a == b
    | .flt a, .flt b => a == b
    | .str a, .str b => a == b
    | .bin a, .bin b => a == b
    | .arr a, .arr b => J.beqL a b
    | .obj a, .obj b => J.beqO a b
    | _, _ => false
  def J.beqL : List J → List J → Bool
    | [], [] => true
    | x :: xs, y :: ys => J.beq x y && J.beqL xs ys
    | _, _ => false
  def J.beqO : List (Str × J) → List (Str × J) → Bool
    | [], [] => true
    | (k, x) :: xs, (l, y) :: ys => k == l && J.beq x y && J.beqO xs ys
    | _, _ => false
end

instance : BEq J := ⟨J.beq⟩

/-- Python truthiness on the value domain. -/
def J.truthy : J → Bool
  | .null => false
  | .bool b => b
  | .int i => i != 0
  | .flt l => !(l == "0.0".toList || l == "-0.0".toList)
  | .str s => !s.isEmpty
  | .bin b => !b.isEmpty
  | .arr xs => !xs.isEmpty
  | .obj kvs => !kvs.isEmpty

/-- `d.get(k)` on an association list (first match; keys are unique in a dict). -/
def lookup (k : Str) : List (Str × J) → Option J
  | [] => none
  | (k', v) :: rest => if k' = k then some v else lookup k rest

mutual
  /-- `_data_is_binary` -/
  def J.isBinary : J → Bool
    | .bin _ => true
    | .arr xs => J.isBinaryL xs
    | .obj kvs => J.isBinaryO kvs
    | _ => false
  def J.isBinaryL : List J → Bool
    | [] => false
    | x :: xs => J.isBinary x || J.isBinaryL xs
  def J.isBinaryO : List (Str × J) → Bool
    | [] => false
    | (_, x) :: xs => J.isBinary x || J.isBinaryO xs
end

/-! ### decimal printing -/

def natStr (n : Nat) : Str := Nat.toDigits 10 n

def intStr : Int → Str
  | .ofNat n => natStr n
  | .negSucc n => '-' :: natStr (n + 1)

/-! ### `json.dumps(separators=(',', ':'))` with the default `ensure_ascii=True` -/

def hexDigit (n : Nat) : Char := Nat.digitChar (n % 16)

def hex4 (n : Nat) : Str :=
  [hexDigit (n / 4096), hexDigit (n / 256), hexDigit (n / 16), hexDigit n]

def escChar (c : Char) : Str :=
  if c = '"' then ['\\', '"']
  else if c = '\\' then ['\\', '\\']
  else if c = '\n' then ['\\', 'n']
  else if c = '\r' then ['\\', 'r']
  else if c = '\t' then ['\\', 't']
  else if c.toNat = 8 then ['\\', 'b']
  else if c.toNat = 12 then ['\\', 'f']
  else if 32 ≤ c.toNat ∧ c.toNat ≤ 126 then [c]
  else if c.toNat < 65536 then '\\' :: 'u' :: hex4 c.toNat
  else
    let v := c.toNat - 65536
    ('\\' :: 'u' :: hex4 (0xD800 + v / 1024)) ++ ('\\' :: 'u' :: hex4 (0xDC00 + v % 1024))

def escStr (s : Str) : Str := '"' :: (s.flatMap escChar ++ ['"'])

mutual
  /-- Compact JSON text of a value without `bin` leaves (a `bin` leaf is what `json.dumps`
      rejects with `TypeError`; the codec never prints one: `decon` removes them first). -/
  def J.dumps : J → Str
    | .null => "null".toList
    | .bool true => "true".toList
    | .bool false => "false".toList
    | .int i => intStr i
    | .flt l => l
    | .str s => escStr s
    | .bin _ => "<bytes>".toList
    | .arr xs => '[' :: (J.dumpsL xs ++ [']'])
    | .obj kvs => '{' :: (J.dumpsO kvs ++ ['}'])
  def J.dumpsL : List J → Str
    | [] => []
    | [x] => J.dumps x
    | x :: y :: xs => J.dumps x ++ (',' :: J.dumpsL (y :: xs))
  def J.dumpsO : List (Str × J) → Str
    | [] => []
    | [(k, x)] => escStr k ++ (':' :: J.dumps x)
    | (k, x) :: y :: xs => escStr k ++ (':' :: J.dumps x) ++ (',' :: J.dumpsO (y :: xs))
end

/-! ### argument packing (K2) -/

/-- `emit()`: a tuple becomes several arguments, `None` none, anything else exactly one. -/
def Data.pack : Data → List J
  | .none => []
  | .one j => [j]
  | .tuple xs => xs

end Sio
