/-
  K5 — the terminating paths of the server as concurrent *tasks* (C04 asyncio schedules, C20 threads).

  One transport, connected to some namespaces; in namespace `n` it has one session id (sid).  The
  shared variables are those of `BaseManager` (src/socketio/base_manager.py) restricted to that
  transport:

    mem n     the sid of namespace n is in `rooms[n][None]`          (written by basic_disconnect)
    pend n    occurrences of the sid in `pending_disconnect[n]`      (pre_disconnect / basic_disconnect)
    others n  `rooms[n]` is kept alive by other clients               (parameter, constant)
    calls n   the application's disconnect-handler invocations for the sid, newest first, each with
              the kind of the path that made it (= the reason argument)
    sends n   DISCONNECT packets sent by `disconnect()`
    refusals n  refusals (CONNECT_ERROR, or DISCONNECT carrying the refusal under always_connect)
              sent by `_handle_connect` for the sid
    marks n   (ghost) the kinds of the tasks that executed `pre_disconnect(sid, n)` — that "passed the
              gate" of n —, newest first
    contained exceptions swallowed and logged by `_handle_eio_disconnect`'s per-namespace `try`

  The paths (src/socketio/server.py, async_server.py), one *task* each, with a program counter at
  every point where another task can run:

    api        Server.disconnect(sid, n):
                 check    delete_it = manager.can_disconnect(sid, n)      (= is_connected)
                 mark     eio_sid = manager.pre_disconnect(sid, n)
                 send     _send_packet(eio_sid, DISCONNECT)
                 handler  _trigger_event('disconnect', n, sid, SERVER_DISCONNECT)
                 cleanup  manager.disconnect(sid, n)        (in a `finally`)
    clientDisc DISCONNECT packet for n → _handle_disconnect(eio_sid, n):
                 check    manager.is_connected(sid_from_eio_sid(eio_sid, n), n)
                 mark · handler · cleanup as above (no send)
    lost       transport loss → _handle_eio_disconnect: `for n in list(get_namespaces())` runs
               _handle_disconnect(eio_sid, n, reason) inside `try/except Exception: log`
               = the clientDisc sub-path once per namespace of `todo`, exceptions contained
    conn       a CONNECT whose application connect handler is still suspended when the others
               start (the sid is already registered): chandler → csend (CONNECT packet) → done.
               It touches none of the shared variables.
    refuse     a CONNECT whose application connect handler is still suspended when the others start
               and REFUSES (returns False / raises ConnectionRefusedError) when it is released.  The
               sid is registered before the handler runs, so the refusal is itself a terminating
               path of the session — one that never tells the application:
                 chandler the handler decides (nothing shared is touched; under always_connect the
                          CONNECT packet was sent before the handler and is not a step)
                 check    if not manager.is_connected(sid, n): return      (ended by a concurrent cause)
                 mark     manager.pre_disconnect(sid, n)
                 send     CONNECT_ERROR(refusal) / DISCONNECT(refusal) [always_connect]
                 cleanup  manager.disconnect(sid, n)          — NO disconnect handler, nothing in `calls`

  `is_connected(sid, n)` = sid ∉ pending_disconnect[n] ∧ sid ∈ rooms[n][None].
  `pre_disconnect` appends to `pending_disconnect[n]` FIRST and then evaluates
  `rooms[n][None].get(sid)`, which raises `KeyError` when `rooms[n]` no longer exists
  (the namespace dict is deleted with its last member) — so a late `mark` leaves the appended entry
  behind.  `basic_disconnect` returns at once when `n ∉ rooms`; otherwise it removes the sid from
  every room of n and removes ONE occurrence of the sid from `pending_disconnect[n]`.

  `step atomicGate st i` executes the next pc-step of task i.  With `atomicGate = true` (asyncio)
  `check` and `mark` are one step: there is no `await` between `is_connected` and `pre_disconnect`
  in `_handle_disconnect`, and in `disconnect()` the only `await` between them,
  `await manager.can_disconnect(...)`, runs a coroutine that contains no suspension for a sid that
  is connected locally (AsyncManager: `return self.is_connected(...)`; AsyncPubSubManager: the same
  through `super()`), so control never returns to the event loop.  With `atomicGate = false`
  (threads) they are two steps.  A *schedule* is a list of task indices; indices of finished tasks
  and indices out of range are no-ops.
-/
namespace Sio.Sched

abbrev Ns := Nat

inductive Kind
  | api | clientDisc | lost | conn | refuse
  deriving Repr, DecidableEq, Inhabited

inductive Pc
  | check | mark | send | handler | cleanup | chandler | csend | done | raised
  deriving Repr, DecidableEq, Inhabited

/-- `todo`: the namespaces this task still has to go through; the head is the current one
    (`api`, `clientDisc`, `conn`: one namespace; `lost`: the snapshot of the namespaces). -/
structure Task where
  kind : Kind
  todo : List Ns
  pc : Pc
  deriving Repr, DecidableEq, Inhabited

structure Shared where
  mem : Ns → Bool
  pend : Ns → Nat
  calls : Ns → List Kind
  sends : Ns → Nat
  others : Ns → Bool
  contained : Nat
  refusals : Ns → Nat
  marks : Ns → List Kind

structure St where
  tasks : List Task
  sh : Shared

def upd {α : Type} (f : Ns → α) (n : Ns) (v : α) : Ns → α := fun k => if k = n then v else f k

/-- `namespace in self.rooms` -/
def alive (sh : Shared) (n : Ns) : Bool := sh.mem n || sh.others n

/-- `manager.is_connected(sid, n)` -/
def connected (sh : Shared) (n : Ns) : Bool := sh.mem n && sh.pend n == 0

def afterMark : Kind → Pc
  | .api => .send
  | .refuse => .send
  | _ => .handler

/-- after the connect handler: an accepted CONNECT sends the CONNECT packet, a refused one goes to
    the gate -/
def chNext : Kind → Pc
  | .refuse => .check
  | _ => .csend

/-- the sub-path for the current namespace is over: next namespace of the snapshot, or done -/
def advance (t : Task) (rest : List Ns) : Task :=
  { t with todo := rest, pc := if rest.isEmpty then .done else .check }

/-- `manager.pre_disconnect(sid, n)` executed by task `t` whose current namespace is `n` -/
def markStep (sh : Shared) (t : Task) (n : Ns) (rest : List Ns) : Task × Shared :=
  let sh' := { sh with pend := upd sh.pend n (sh.pend n + 1),
                       marks := upd sh.marks n (t.kind :: sh.marks n) }
  if alive sh n then ({ t with pc := afterMark t.kind }, sh')
  else if t.kind = .lost then (advance t rest, { sh' with contained := sh.contained + 1 })
  else ({ t with pc := .raised }, sh')

def stepTask (atomicGate : Bool) (sh : Shared) (t : Task) : Task × Shared :=
  match t.pc, t.todo with
  | .chandler, _ => ({ t with pc := chNext t.kind }, sh)
  | .csend, _ => ({ t with pc := .done }, sh)
  | .check, [] => ({ t with pc := .done }, sh)          -- empty namespace snapshot
  | .check, n :: rest =>
      if connected sh n then
        if atomicGate then markStep sh t n rest
        else ({ t with pc := .mark }, sh)
      else (advance t rest, sh)
  | .mark, n :: rest => markStep sh t n rest
  | .send, n :: _ =>
      if t.kind = .refuse then
        ({ t with pc := .cleanup }, { sh with refusals := upd sh.refusals n (sh.refusals n + 1) })
      else
        ({ t with pc := .handler }, { sh with sends := upd sh.sends n (sh.sends n + 1) })
  | .handler, n :: _ =>
      ({ t with pc := .cleanup }, { sh with calls := upd sh.calls n (t.kind :: sh.calls n) })
  | .cleanup, n :: rest =>
      (advance t rest,
       if alive sh n then
         { sh with mem := upd sh.mem n false, pend := upd sh.pend n (sh.pend n - 1) }
       else sh)
  | _, _ => (t, sh)

def step (atomicGate : Bool) (st : St) (i : Nat) : St :=
  match st.tasks[i]? with
  | none => st
  | some t =>
    let r := stepTask atomicGate st.sh t
    { tasks := st.tasks.set i r.1, sh := r.2 }

def run (atomicGate : Bool) (st : St) (sched : List Nat) : St :=
  sched.foldl (step atomicGate) st

/-! ## observables -/

def ncalls (st : St) (n : Ns) : Nat := (st.sh.calls n).length

def finished (t : Task) : Bool := t.pc == .done || t.pc == .raised

/-- quiescence -/
def allDone (st : St) : Bool := st.tasks.all finished

def anyRaised (st : St) : Bool := st.tasks.any (fun t => t.pc == .raised)

/-- a trace of the client is left in namespace n: still in a room, or still listed as pending -/
def residue (st : St) (n : Ns) : Bool := st.sh.mem n || decide (0 < st.sh.pend n)

/-! ## gate windows (threads) -/

/-- task `t` is between its `check` and its `mark` of namespace `n` -/
def inWindow (n : Ns) (t : Task) : Bool := t.pc == .mark && t.todo.head? == some n

/-- the next step of task i does not open a check…mark window on a namespace on which another
    task's window is open -/
def admissible (st : St) (i : Nat) : Bool :=
  match st.tasks[i]? with
  | some t =>
    match t.pc, t.todo with
    | .check, n :: _ => st.tasks.countP (inWindow n) == 0
    | _, _ => true
  | none => true

/-- no task's check…mark interval (on one namespace) overlaps another's, along the whole schedule -/
def gateSerial (st : St) : List Nat → Bool
  | [] => true
  | i :: r => admissible st i && gateSerial (step false st i) r

/-! ## initial states -/

def startPc : Kind → Pc
  | .conn => .chandler
  | .refuse => .chandler
  | _ => .check

def mkTask (k : Kind) (nss : List Ns) : Task := { kind := k, todo := nss, pc := startPc k }

/-- the sid is connected exactly on the namespaces of `conn`; `others` lists the namespaces other
    clients are connected to -/
def mkShared (conn others : List Ns) : Shared :=
  { mem := fun n => conn.contains n, pend := fun _ => 0, calls := fun _ => [], sends := fun _ => 0,
    others := fun n => others.contains n, contained := 0, refusals := fun _ => 0,
    marks := fun _ => [] }

def mkSt (tasks : List (Kind × List Ns)) (conn others : List Ns) : St :=
  { tasks := tasks.map (fun p => mkTask p.1 p.2), sh := mkShared conn others }

end Sio.Sched
