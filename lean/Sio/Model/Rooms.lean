/-
  K3 — room bookkeeping of base_manager.py / manager.py.

  `rooms[ns][room]` is a dict of dicts of bidicts `sid <-> eio_sid`.  The model keeps the same
  information as a *relation*: a list of entries in insertion order.  A namespace (a room)
  "exists" iff it has an entry, which is exactly Python's eager deletion of empty rooms and
  namespaces in `basic_leave_room`.  `room = none` is the room `None` that holds every client
  connected to the namespace.
-/
import Sio.Model.Json
namespace Sio.Rooms

abbrev Ns := Str
abbrev Room := Str
abbrev Sid := Str
abbrev Eio := Str

structure Entry where
  ns : Ns
  room : Option Room
  sid : Sid
  eio : Eio
  deriving Repr, DecidableEq, Inhabited

abbrev St := List Entry

def hasNs (s : St) (ns : Ns) : Bool := s.any (fun e => e.ns = ns)

/-- `rooms[ns][None].get(sid)` -/
def eioOf (s : St) (ns : Ns) (sid : Sid) : Option Eio :=
  (s.find? (fun e => e.ns = ns ∧ e.room = none ∧ e.sid = sid)).map (·.eio)

/-- `rooms[ns][None]._invm[eio]` -/
def sidOf (s : St) (ns : Ns) (eio : Eio) : Option Sid :=
  (s.find? (fun e => e.ns = ns ∧ e.room = none ∧ e.eio = eio)).map (·.sid)

def isMember (s : St) (ns : Ns) (room : Option Room) (sid : Sid) : Bool :=
  s.any (fun e => e.ns = ns ∧ e.room = room ∧ e.sid = sid)

/-- `basic_enter_room` with an explicit `eio_sid`, idempotent like a bidict store of an
    existing pair. -/
def add (s : St) (e : Entry) : St := if e ∈ s then s else s ++ [e]

/-- `connect(eio_sid, namespace)` with the freshly generated `sid`: `none` is the
    `ValueDuplicationError` branch (this transport already has a session on the namespace). -/
def connect (s : St) (ns : Ns) (eio : Eio) (sid : Sid) : Option St :=
  match sidOf s ns eio with
  | some _ => none
  | none => some (add (add s ⟨ns, none, sid, eio⟩) ⟨ns, some sid, sid, eio⟩)

/-- `enter_room(sid, namespace, room)`; errors: `ValueError` for an unknown namespace, `KeyError`
    for a sid that is not connected to it. -/
def enter (s : St) (ns : Ns) (sid : Sid) (room : Room) : Except Err St :=
  if !hasNs s ns then .error .valueError
  else match eioOf s ns sid with
    | none => .error .keyError
    | some eio => .ok (add s ⟨ns, some room, sid, eio⟩)

/-- `leave_room`: `KeyError`s are swallowed. -/
def leave (s : St) (ns : Ns) (sid : Sid) (room : Option Room) : St :=
  s.filter (fun e => !(e.ns = ns ∧ e.room = room ∧ e.sid = sid))

def closeRoom (s : St) (ns : Ns) (room : Room) : St :=
  s.filter (fun e => !(e.ns = ns ∧ e.room = some room))

/-- `basic_disconnect`: leave every room of the namespace, room `None` included. -/
def disconnect (s : St) (ns : Ns) (sid : Sid) : St :=
  s.filter (fun e => !(e.ns = ns ∧ e.sid = sid))

/-- `get_rooms` (room `None` is not listed). -/
def getRooms (s : St) (ns : Ns) (sid : Sid) : List Room :=
  s.filterMap (fun e => if e.ns = ns ∧ e.sid = sid then e.room else none)

def roomMembers (s : St) (ns : Ns) (room : Option Room) : List (Sid × Eio) :=
  (s.filter (fun e => e.ns = ns ∧ e.room = room)).map (fun e => (e.sid, e.eio))

/-- `dict.update`: keys already present keep their position (and, the bidicts of one namespace
    agreeing on `eio`, their value). -/
def mergeBySid (acc : List (Sid × Eio)) : List (Sid × Eio) → List (Sid × Eio)
  | [] => acc
  | p :: ps => if acc.any (fun q => q.1 = p.1) then mergeBySid acc ps else mergeBySid (acc ++ [p]) ps

/-- What an emit is addressed to. -/
inductive Target where
  | all                       -- `room=None`: everybody on the namespace
  | one (r : Room)            -- a room name or a sid
  | many (rs : List Room)     -- a non-empty list / tuple of rooms
  deriving Repr

/-- `get_participants(namespace, room)` -/
def participants (s : St) (ns : Ns) : Target → List (Sid × Eio)
  | .all => roomMembers s ns none
  | .one r => roomMembers s ns (some r)
  | .many rs => rs.foldl (fun acc r => mergeBySid acc (roomMembers s ns (some r))) []

/-- the recipients of `emit(..., skip_sid=skip)` -/
def recipients (s : St) (ns : Ns) (t : Target) (skip : List Sid) : List (Sid × Eio) :=
  (participants s ns t).filter (fun p => !(skip.contains p.1))

/-- `skip_sid` as the application passes it: nothing, one session id, or a list. -/
inductive Skip where
  | none
  | one (sid : Sid)
  | many (sids : List Sid)
  deriving Repr

/-- `if not isinstance(skip_sid, list): skip_sid = [skip_sid]` (`None` equals no session id) -/
def Skip.toList : Skip → List Sid
  | .none => []
  | .one sid => [sid]
  | .many sids => sids

/-- Transport loss (`_handle_eio_disconnect`): in every namespace the session that lives on this
    transport (`sid_from_eio_sid`) is disconnected, i.e. removed from every room of that
    namespace.  A `disconnect` in one namespace never changes `sidOf` in another, so the loop over
    the namespaces is one filter. -/
def lost (s : St) (eio : Eio) : St :=
  s.filter (fun e => !(sidOf s e.ns eio == some e.sid))

/-! ### Histories

The operations of property C03 as data.  `connect` carries the session id that
`eio.generate_id()` returned; that generator never repeats an id (DESIGN §4, trusted base), which
`apply` renders as: a `connect` whose id is already in use on the namespace does not happen. -/

inductive Op where
  | connect (ns : Ns) (eio : Eio) (sid : Sid)
  | enter (ns : Ns) (sid : Sid) (room : Room)
  | leave (ns : Ns) (sid : Sid) (room : Room)
  | closeRoom (ns : Ns) (room : Room)
  | disconnect (ns : Ns) (sid : Sid)
  | lost (eio : Eio)
  deriving Repr, DecidableEq

def apply (s : St) : Op → St
  | .connect ns eio sid =>
    if (eioOf s ns sid).isSome then s else (connect s ns eio sid).getD s
  | .enter ns sid room =>
    match enter s ns sid room with
    | .ok s' => s'
    | .error _ => s
  | .leave ns sid room => leave s ns sid (some room)
  | .closeRoom ns room => closeRoom s ns room
  | .disconnect ns sid => disconnect s ns sid
  | .lost eio => lost s eio

def run (s : St) (ops : List Op) : St := ops.foldl apply s

end Sio.Rooms
