/-
  K10 — the admin instrumentation: admin.py / async_admin.py.

  Three things are modelled, each a transcription of the Python text:

  * `pyEq`      — Python's `==` on JSON-shaped values (what `client_auth == self.auth` and
                  `client_auth in self.auth` compute),
  * `adminConnect` / `admits` — the credential gate of `admin_connect`,
  * `registered` / `instrumentReg` — which handlers `instrument()` registers on the admin namespace
                  as a function of `mode` and `read_only`, as an overlay on the server's registry
                  (K4/K8), so that `Sio.Server.resolve` / `Sio.Server.step` decide what an admin
                  request can do.

  Core Lean only.
-/
import Sio.Model.Json
import Sio.Model.Server
namespace Sio.Admin
open Sio.Rooms (Ns)

/-! ### floats: the exact integer value behind a `repr` literal

`1 == 1.0`, `True == 1.0`, `10**22 == 1e22` are true in Python, `10**23 == 1e23` is false (the
double nearest to 10^23 is 99999999999999991611392).  A float travels as its `repr`; the integer it
denotes, if any, is recomputed here: decimal value of the literal, rounded to the nearest double
(ties to even) the way `float(str)` does. -/

def digitVal (c : Char) : Nat := c.toNat - 48

def digitsNat (ds : List Char) : Nat := ds.foldl (fun n c => n * 10 + digitVal c) 0

def allDigits (ds : List Char) : Bool := !ds.isEmpty && ds.all Char.isDigit

/-- `round-half-even` of a natural number to 53 significant bits -/
def roundDouble (d : Nat) : Nat :=
  if d < 2 ^ 53 then d
  else
    let shift := (d.log2 + 1) - 53
    let q := d / 2 ^ shift
    let rem := d % 2 ^ shift
    let half := 2 ^ (shift - 1)
    let q' := if half < rem || (rem == half && q % 2 == 1) then q + 1 else q
    q' * 2 ^ shift

/-- exponent part of a float literal: `""`, `e+NN`, `e-NN`, `eNN` -/
def parseExp : List Char → Option Int
  | [] => some 0
  | 'e' :: '+' :: ds => if allDigits ds then some (Int.ofNat (digitsNat ds)) else none
  | 'e' :: '-' :: ds => if allDigits ds then some (- Int.ofNat (digitsNat ds)) else none
  | 'e' :: ds => if allDigits ds then some (Int.ofNat (digitsNat ds)) else none
  | _ => none

/-- The integer a float denotes, given its `repr` (`none`: not an integer — a fraction, `inf`,
    `nan`). -/
def fltInt (lit : Str) : Option Int :=
  let (neg, r) : Bool × List Char := match lit with
    | '-' :: r => (true, r)
    | r => (false, r)
  let ip := r.takeWhile Char.isDigit
  let r1 := r.dropWhile Char.isDigit
  if ip.isEmpty then none else
  let (fp, r2) : List Char × List Char := match r1 with
    | '.' :: t => (t.takeWhile Char.isDigit, t.dropWhile Char.isDigit)
    | _ => ([], r1)
  match parseExp r2 with
  | none => none
  | some e =>
    let m := digitsNat (ip ++ fp)
    let scale : Int := e - Int.ofNat fp.length
    let dec : Option Nat :=
      if 0 ≤ scale then some (m * 10 ^ scale.toNat)
      else
        let d := 10 ^ (-scale).toNat
        if m % d = 0 then some (m / d) else none
    match dec with
    | none => none
    | some d =>
      let v := roundDouble d
      some (if neg then - Int.ofNat v else Int.ofNat v)

def isNan (l : Str) : Bool := l == "nan".toList

def isZeroLit (l : Str) : Bool := l == "0.0".toList || l == "-0.0".toList

/-- `float == float` from the two `repr`s: `repr` is injective on floats except that `0.0 == -0.0`,
    and `nan` equals nothing. -/
def fltEq (a b : Str) : Bool :=
  if isNan a || isNan b then false
  else if isZeroLit a && isZeroLit b then true
  else a == b

/-- the numeric tower `bool ⊂ int`, and integer-valued floats -/
def numVal : J → Option Int
  | .bool b => some (if b then 1 else 0)
  | .int i => some i
  | .flt l => fltInt l
  | _ => none

/-- `==` between two values that are not both containers -/
def scalarEq : J → J → Bool
  | .null, .null => true
  | .str a, .str b => a == b
  | .bin a, .bin b => a == b
  | .flt a, .flt b => fltEq a b
  | .bool a, .bool b => a == b
  | .bool a, .int b => (if a then 1 else 0) == b
  | .int a, .bool b => a == (if b then 1 else 0)
  | .int a, .int b => a == b
  | .bool a, .flt b => fltInt b == some (if a then 1 else 0)
  | .flt a, .bool b => fltInt a == some (if b then 1 else 0)
  | .int a, .flt b => fltInt b == some a
  | .flt a, .int b => fltInt a == some b
  | _, _ => false

mutual
  /-- Python `a == b` on JSON-shaped values.  Structural recursion on the left operand; the right
      operand of a dict comparison is looked up by key (`dict.__eq__`: same length, and every key
      of the left is a key of the right with an equal value). -/
  def pyEq : J → J → Bool
    | .arr a, .arr b => pyEqL a b
    | .arr _, _ => false
    | .obj a, .obj b => a.length == b.length && pyEqO a b
    | .obj _, _ => false
    | .null, b => scalarEq .null b
    | .bool x, b => scalarEq (.bool x) b
    | .int x, b => scalarEq (.int x) b
    | .flt x, b => scalarEq (.flt x) b
    | .str x, b => scalarEq (.str x) b
    | .bin x, b => scalarEq (.bin x) b
  def pyEqL : List J → List J → Bool
    | [], [] => true
    | x :: xs, y :: ys => pyEq x y && pyEqL xs ys
    | _, _ => false
  def pyEqO : List (Str × J) → List (Str × J) → Bool
    | [], _ => true
    | (k, v) :: rest, b =>
      (match lookup k b with
       | some w => pyEq v w
       | none => false) && pyEqO rest b
end

/-! ### the credential gate -/

/-- Predicates the harness can configure (the theorems quantify over arbitrary `J → Bool`; this
    is only the vocabulary of the line protocol). The value is the truthiness of what the Python
    predicate returns. -/
inductive Pred where
  | const (b : Bool)
  | isNull                          -- `lambda a: a is None`
  | truthy                          -- `lambda a: a`
  | eq (v : J)                      -- `lambda a: a == v`
  | hasKey (k : Str) (v : J)        -- `lambda a: isinstance(a, dict) and a.get(k) == v`
  | getKey (k : Str)                -- `lambda a: isinstance(a, dict) and a.get(k)`   (a value, not a bool)
  | not (p : Pred)
  | or (p q : Pred)
  deriving Repr, Inhabited

def Pred.eval : Pred → J → Bool
  | .const b, _ => b
  | .isNull, a => match a with | .null => true | _ => false
  | .truthy, a => a.truthy
  | .eq v, a => pyEq a v
  | .hasKey k v, a => match a with
    | .obj kvs => (match lookup k kvs with | some w => pyEq w v | none => pyEq .null v)
    | _ => false
  | .getKey k, a => match a with
    | .obj kvs => (match lookup k kvs with | some w => w.truthy | none => false)
    | _ => false
  | .not p, a => !(p.eval a)
  | .or p q, a => p.eval a || q.eval a

/-- What the application passed as `auth=` to `instrument()`. -/
inductive AuthArg where
  | missing                         -- `auth=None` (the default)
  | val (j : J)                     -- a JSON-shaped value: `False`, a dict, a list, ...
  | fn (p : J → Bool)               -- a callable (sync, or a coroutine function on the asyncio server)

/-- The four gates that `admin_connect` can be. -/
inductive AuthCfg where
  | disabled
  | dict (d : List (Str × J))
  | list (ds : List J)
  | pred (p : J → Bool)

/-- `InstrumentedServer.__init__` + the branch structure of `admin_connect`:
    `auth is None` → `ValueError('auth must be specified')` in the constructor (there is no
    "production" exception to this: the check is unconditional);
    anything falsy (`False`, `{}`, `[]`, `0`, `''`) → the gate is skipped (`if self.auth:`);
    a non-empty dict / list → `==` / `in`; anything else is *called* — a value that is not callable
    raises `TypeError` at the first connection attempt (outside the configuration domain). -/
def configure : AuthArg → Except Err AuthCfg
  | .missing => .error .valueError
  | .fn p => .ok (.pred p)
  | .val j =>
    if !j.truthy then .ok .disabled
    else match j with
      | .obj d => .ok (.dict d)
      | .arr ds => .ok (.list ds)
      | _ => .error .typeError

/-- the gate proper: `true` = the handler returns normally (the connection is accepted),
    `false` = `raise ConnectionRefusedError('authentication failed')` -/
def admits : AuthCfg → J → Bool
  | .disabled, _ => true
  | .dict d, a => pyEq a (.obj d)
  | .list ds, a => ds.any (fun d => pyEq a d)
  | .pred p, a => p a

/-- `admin_connect(sid, environ, client_auth)` transcribed line by line on the raw `auth=` value
    (`self.auth` is never `None`: the constructor has raised). -/
def adminConnect (auth : AuthArg) (clientAuth : J) : Except Err Bool :=
  match auth with
  | .missing => .error .valueError
  | .fn p =>
    -- a function object is truthy; not a dict, not a list
    let authenticated := p clientAuth
    .ok authenticated
  | .val j =>
    if j.truthy then
      match j with
      | .obj d => .ok (pyEq clientAuth (.obj d))          -- isinstance(self.auth, dict)
      | .arr ds => .ok (ds.any (fun d => pyEq clientAuth d))   -- isinstance(self.auth, list)
      | _ => .error .typeError                           -- self.auth(client_auth)
    else .ok true

/-- What `Server._handle_connect` hands to a connect handler with three parameters: the CONNECT
    packet's payload if it is truthy, otherwise `None` (`if data: ... else: retry with None`). -/
def present : Option J → J
  | some d => if d.truthy then d else .null
  | none => .null

/-- the gate as seen from the wire -/
def admitsWire (cfg : AuthCfg) (payload : Option J) : Bool := admits cfg (present payload)

/-! ### what `instrument()` registers -/

def development : Str := "development".toList

def isDev (mode : Str) : Bool := mode == development

/-- the admin events that act on the application -/
def mutators : List Str := ["emit".toList, "join".toList, "leave".toList, "_disconnect".toList]

/-- `instrument()`: the events with a handler on the admin namespace.
    ```
    self.sio.on('connect', self.admin_connect, namespace=self.admin_namespace)
    if self.mode == 'development':
        if not self.read_only:
            self.sio.on('emit', ...); on('join', ...); on('leave', ...); on('_disconnect', ...)
    ```
    In `production` mode the four are never registered, whatever `read_only` says. -/
def registered (mode : Str) (readOnly : Bool) : List Str :=
  "connect".toList :: (if isDev mode && !readOnly then mutators else [])

/-- the methods `instrument()` replaces by reporting wrappers on the server / manager instance -/
def wrapped (mode : Str) : List String :=
  if isDev mode then ["_trigger_event", "basic_enter_room", "basic_leave_room", "emit"] else []

/-- The server's handler registry after `instrument()`: `sio.on` stores into
    `handlers[admin_namespace][event]` (creating the namespace entry, replacing an existing
    handler of that name); nothing else is touched. -/
def instrumentReg (app : Server.Registry) (adminNs : Ns) (mode : Str) (readOnly : Bool) :
    Server.Registry :=
  { app with
    fn := fun ns ev => (ns == adminNs && (registered mode readOnly).contains ev) || app.fn ns ev
    fnNs := fun ns => ns == adminNs || app.fnNs ns }

/-- the connect handler's outcome, in the vocabulary of the server model's script -/
def connectOutcome (cfg : AuthCfg) (payload : Option J) : Server.ConnRes :=
  if admitsWire cfg payload then .accept
  else .refuse [.str "authentication failed".toList]

/-! ### the reporting wrappers: the instrumented server as a whole (transparency clause of C18)

`instrument()` replaces `sio._trigger_event`, `manager.basic_enter_room`, `manager.basic_leave_room`
and `manager.emit` (development mode), and hooks engine.io's connect / disconnect, by wrappers that
(a) call the original and (b) `sio.emit(<report>, ..., namespace=admin_namespace)` — never with a
callback.  In the model: one `Server.step` on the configuration whose registry is `instrumentReg`,
then what the registered admin handlers `emit / join / leave / _disconnect` do if the step invoked
one of them (API calls), then the reports, each one a `Server.step … (.emit ev d adminNs to [] none)`.
The *content* of the reports (timestamps, serialised sockets, statistics) is a parameter: the claim
of the property is about their absence from application namespaces. -/

open Sio.Server

/-- one `self.sio.emit(ev, data, to=…, namespace=self.admin_namespace)` of the instrumentation -/
structure Report where
  ev : Str
  data : Data
  to : Rooms.Target := .all

/-- what the wrappers put into their reports, left abstract -/
structure Payloads where
  /-- `datetime.now(timezone.utc).isoformat()` -/
  stamp : J
  /-- `serialize_socket(sid, namespace, eio_sid)` -/
  socket : Rooms.Sid → Ns → J
  /-- `{'supportedFeatures': [...]}` of the `config` task -/
  features : J
  /-- does the statistics task fire after this input, and with which `server_stats` payload -/
  stats : Srv → Input → Option J

/-- `slot.ns` -/
def slotNs : Slot → Ns
  | .fn ns _ => ns
  | .cls ns _ => ns

/-- The packet `_handle_eio_message` hands to `_handle_connect/_disconnect/_event/_ack` for this
    frame, if any: the decoded text frame, or the binary packet this frame completes (its type
    given as EVENT / ACK). -/
def arriving (dec : Str → Except Err (Packet × Nat)) (s : Srv) (t : Rooms.Eio) (v : J) : Option Packet :=
  match s.binbuf.find? (fun e => e.1 = t) with
  | some (_, part) =>
    if part.need ≤ part.got.length then none
    else
      let got := part.got ++ [v]
      if part.need = got.length then
        let ty := if part.pkt.type = BINARY_EVENT then EVENT else ACK
        match part.pkt.data with
        | some j =>
          match recon got j with
          | .ok d => some { part.pkt with type := ty, data := some d }
          | .error _ => none
        | none => some { part.pkt with type := ty }
      else none
  | none =>
    match v with
    | .str (c :: cs) =>
      match dec (c :: cs) with
      | .ok (p, _) => some p
      | .error _ => none
    | .bin (_ :: _) => none
    | other =>
      match decodeOdd other with
      | .ok (p, _) => some p
      | .error _ => none

def rStr (s : String) : Str := s.toList

/-- `_trigger_event('disconnect', ns, sid, reason)` followed by `basic_disconnect`'s
    `basic_leave_room` of every named room: `socket_disconnected`, then one `room_left` per room -/
def reportsDisconnect (P : Payloads) (s : Srv) (ns : Ns) (sid : Rooms.Sid) (reason : Str) : List Report :=
  { ev := rStr "socket_disconnected", data := .tuple [.str ns, .str sid, .str reason, P.stamp] } ::
  (Rooms.getRooms s.rooms ns sid).map (fun r =>
    { ev := rStr "room_left", data := .tuple [.str ns, .str r, .str sid, P.stamp] })

/-- What the wrappers report for one input (development mode; `s` is the state before the input,
    `s'` the state after it).  Transcribed from `_trigger_event`, `_basic_enter_room`,
    `_basic_leave_room`, `_emit` and the `config` task of `admin_connect`; in any other mode only
    `config` and the statistics are emitted. -/
def reports (dec : Str → Except Err (Packet × Nat)) (cfg : Cfg) (adminNs : Ns) (mode : Str)
    (P : Payloads) (s : Srv) (i : Input) (_outs : List Out) : List Report :=
  let s' := (Server.step dec cfg s i).1
  let dev := isDev mode
  let wrapped : List Report :=
    match i with
    | .frame t v =>
      match arriving dec s t v with
      | none => []
      | some p =>
        let ns := p.nsp.getD ['/']
        if p.type = CONNECT then
          if s'.nextSid = s.nextSid then [] else
          let sid := sidName s.nextSid
          let member := Rooms.isMember s'.rooms ns none sid
          (if dev then
            [{ ev := rStr "room_joined", data := .tuple [.str ns, .str sid, .str sid, P.stamp] }] ++
            (if s.environ.contains t then
              [{ ev := rStr "socket_connected", data := .tuple [P.socket sid ns, P.stamp] }] else []) ++
            (if member then [] else
              [{ ev := rStr "room_left", data := .tuple [.str ns, .str sid, .str sid, P.stamp] }])
           else []) ++
          -- the `config` background task of an admitted admin
          (if ns = adminNs ∧ member then
            ({ ev := rStr "config", data := .one P.features, to := .one sid } : Report) ::
            (if dev then
              [{ ev := rStr "all_sockets",
                 data := .one (.arr (s'.rooms.filterMap (fun e =>
                   if e.room = none then some (P.socket e.sid e.ns) else none))),
                 to := .one sid }] else [])
           else [])
        else if !dev then []
        else if p.type = DISCONNECT then
          match Rooms.sidOf s.rooms ns t with
          | none => []
          | some sid =>
            if isConnected s sid ns then reportsDisconnect P s ns sid (rStr "client disconnect") else []
        else if p.type = EVENT then
          match Rooms.sidOf s.rooms ns t, p.data with
          | some sid, some (.arr d) =>
            if isConnected s sid ns && !cfg.asyncHandlers then
              [{ ev := rStr "event_received", data := .tuple [.str ns, .str sid, .arr d, P.stamp] }]
            else []
          | _, _ => []
        else []
    | .eioLost t reason =>
      if !dev || !s.socks.contains t then [] else
      (namespacesOf s.rooms).flatMap (fun ns =>
        match Rooms.sidOf s.rooms ns t with
        | none => []
        | some sid => reportsDisconnect P s ns sid reason)
    | .settle =>
      if !dev then [] else
      s.bg.map (fun b =>
        { ev := rStr "event_received",
          data := .tuple [.str b.ns, .str b.sid, .arr (b.first :: b.rest), P.stamp] })
    | .emit ev d ns to skip _ =>
      if !dev || ns = adminNs || !Rooms.hasNs s.rooms ns then [] else
      (Rooms.recipients s.rooms ns to skip).map (fun r =>
        { ev := rStr "event_sent", data := .tuple [.str ns, .str r.1, .arr (.str ev :: d.pack), P.stamp] })
    | .call ev d ns sid _ =>
      if !dev || ns = adminNs || !cfg.asyncHandlers || !Rooms.hasNs s.rooms ns then [] else
      (Rooms.recipients s.rooms ns (.one sid) []).map (fun r =>
        { ev := rStr "event_sent", data := .tuple [.str ns, .str r.1, .arr (.str ev :: d.pack), P.stamp] })
    | .apiDisconnect sid ns =>
      if dev && isConnected s sid ns then reportsDisconnect P s ns sid (rStr "server disconnect") else []
    | .enterRoom sid ns room =>
      if dev && !room.isEmpty && (Rooms.enter s.rooms ns sid room).toBool then
        [{ ev := rStr "room_joined", data := .tuple [.str ns, .str room, .str sid, P.stamp] }]
      else []
    | .leaveRoom sid ns room =>
      if dev && !room.isEmpty then
        [{ ev := rStr "room_left", data := .tuple [.str ns, .str room, .str sid, P.stamp] }]
      else []
    | .closeRoom ns room =>
      if dev && !room.isEmpty then
        (Rooms.roomMembers s.rooms ns (some room)).map (fun m =>
          { ev := rStr "room_left", data := .tuple [.str ns, .str room, .str m.1, P.stamp] })
      else []
    | _ => []
  wrapped ++ (match P.stats s i with
    | some d => [{ ev := rStr "server_stats", data := .one d }]
    | none => [])

/-- `to=room_filter` as the admin UI sends it: `None`, a room / session id, or a list of them -/
def roomFilter : Option J → Option Rooms.Target
  | none => some .all
  | some .null => some .all
  | some (.str r) => some (.one r)
  | some (.arr rs) =>
    (rs.mapM (fun (j : J) => match j with | J.str r => some r | _ => none)).map Rooms.Target.many
  | _ => none

/-- What the handlers `admin_emit`, `admin_enter_room`, `admin_leave_room`, `admin_disconnect`
    do, as API calls, when the server invoked one of them with `args` (= `sid :: event arguments`)
    in state `s`; `[]` for every other output (and for argument shapes the handlers would choke
    on). -/
def mutatorCalls (adminNs : Ns) (s : Srv) : Out → List Input
  | .invoke (.fn ns ev) args =>
    if ns ≠ adminNs then [] else
    if ev = rStr "emit" then
      match args with
      | _ :: .str n :: rf :: .str event :: data =>
        match roomFilter (some rf) with
        | some to => [.emit event (.tuple data) n to [] none]
        | none => []
      | _ => []
    else if ev = rStr "join" then
      match args with
      | _ :: .str n :: .str room :: rest =>
        match roomFilter rest.head? with
        | some to => (Rooms.participants s.rooms n to).map (fun p => .enterRoom p.1 n room)
        | none => []
      | _ => []
    else if ev = rStr "leave" then
      match args with
      | _ :: .str n :: .str room :: rest =>
        match roomFilter rest.head? with
        | some to => (Rooms.participants s.rooms n to).map (fun p => .leaveRoom p.1 n room)
        | none => []
      | _ => []
    else if ev = rStr "_disconnect" then
      match args with
      | _ :: .str n :: _ :: rest =>
        match roomFilter rest.head? with
        | some to => (Rooms.participants s.rooms n to).map (fun p => .apiDisconnect p.1 n)
        | none => []
      | _ => []
    else []
  | _ => []

/-- is this output the invocation of one of the admin handlers that act on the application -/
def mutatorCalled (adminNs : Ns) : Out → Bool
  | .invoke (.fn ns ev) _ => ns == adminNs && mutators.contains ev
  | _ => false

namespace Instrumented

/-- the configuration after `instrument(mode=…, read_only=…, namespace=adminNs)` -/
def cfg (c : Cfg) (adminNs : Ns) (mode : Str) (ro : Bool) : Cfg :=
  { c with reg := instrumentReg c.reg adminNs mode ro }

/-- the reports, one `sio.emit(…, namespace=adminNs)` after the other -/
def emitReports (dec : Str → Except Err (Packet × Nat)) (c : Cfg) (adminNs : Ns) :
    Srv → List Report → Srv × List Out
  | s, [] => (s, [])
  | s, r :: rs =>
    let x := Server.step dec c s (.emit r.ev r.data adminNs r.to [] none)
    let y := emitReports dec c adminNs x.1 rs
    (y.1, x.2 ++ y.2)

/-- One input on the instrumented server, for an arbitrary reporting policy `rep`. -/
def stepWith (dec : Str → Except Err (Packet × Nat)) (c : Cfg) (adminNs : Ns) (mode : Str) (ro : Bool)
    (rep : Srv → Input → List Out → List Report) (s : Srv) (i : Input) : Srv × List Out :=
  let ci := cfg c adminNs mode ro
  let r := Server.step dec ci s i
  -- the API calls of the admin handlers this step invoked (none in read-only mode)
  let m := Server.run dec ci r.1 (r.2.flatMap (mutatorCalls adminNs r.1))
  let e := emitReports dec ci adminNs m.1 (rep s i (r.2 ++ m.2))
  (e.1, r.2 ++ m.2 ++ e.2)

/-- per-input outputs along a history -/
def traceWith (dec : Str → Except Err (Packet × Nat)) (c : Cfg) (adminNs : Ns) (mode : Str) (ro : Bool)
    (rep : Srv → Input → List Out → List Report) : Srv → List Input → Srv × List (Input × List Out)
  | s, [] => (s, [])
  | s, i :: is =>
    let r := stepWith dec c adminNs mode ro rep s i
    let rs := traceWith dec c adminNs mode ro rep r.1 is
    (rs.1, (i, r.2) :: rs.2)

/-- the instrumented server of `admin.py`: `stepWith` the transcribed reports -/
def step (dec : Str → Except Err (Packet × Nat)) (c : Cfg) (adminNs : Ns) (mode : Str) (ro : Bool)
    (P : Payloads) : Srv → Input → Srv × List Out :=
  stepWith dec c adminNs mode ro (reports dec (cfg c adminNs mode ro) adminNs mode P)

def trace (dec : Str → Except Err (Packet × Nat)) (c : Cfg) (adminNs : Ns) (mode : Str) (ro : Bool)
    (P : Payloads) : Srv → List Input → Srv × List (Input × List Out) :=
  traceWith dec c adminNs mode ro (reports dec (cfg c adminNs mode ro) adminNs mode P)

/-- all outputs of a history, in order -/
def run (dec : Str → Except Err (Packet × Nat)) (c : Cfg) (adminNs : Ns) (mode : Str) (ro : Bool)
    (P : Payloads) (s : Srv) (h : List Input) : Srv × List Out :=
  let r := trace dec c adminNs mode ro P s h
  (r.1, r.2.flatMap (·.2))

/-- does the queued handler resolve to a function or method -/
def handled (reg : Registry) (b : Bg) : Bool :=
  match resolve reg b.ns b.first (.str b.sid :: b.rest) with
  | .ok (.fn _ _) => true
  | .ok (.clsCall _ _) => true
  | _ => false

/-- The domain of the transparency theorem, per input: the step invoked none of
    `emit / join / leave / _disconnect` (they act on the application by design), and — when
    queued handlers are run — no queued admin event has a handler (the only one there can be
    then is an EVENT literally named `connect`, which would consume an outcome of the
    application's event script between two application events). -/
def quietStep (c : Cfg) (adminNs : Ns) (mode : Str) (ro : Bool) (s : Srv) (i : Input)
    (outs : List Out) : Bool :=
  !(outs.any (mutatorCalled adminNs)) &&
  (match i with
   | .settle => s.bg.all (fun b => b.ns != adminNs || !handled (cfg c adminNs mode ro).reg b)
   | _ => true)

/-- `quietStep` at every input of the history, along the instrumented run -/
def quiet (dec : Str → Except Err (Packet × Nat)) (c : Cfg) (adminNs : Ns) (mode : Str) (ro : Bool)
    (rep : Srv → Input → List Out → List Report) : Srv → List Input → Bool
  | _, [] => true
  | s, i :: is =>
    quietStep c adminNs mode ro s i (Server.step dec (cfg c adminNs mode ro) s i).2 &&
    quiet dec c adminNs mode ro rep (stepWith dec c adminNs mode ro rep s i).1 is

end Instrumented

/-! ### the reference: the same server without instrumentation -/

/-- Session ids and outcomes of handler invocations that one run consumes and the other does not:
    the admin CONNECTs draw session ids and run `admin_connect`.  `eio.generate_id()` only promises
    fresh ids and the script only says what the n-th invocation does, so the reference run is one
    in which the id generator and the script are advanced by as much (C12's `runSkip`). -/
structure Skip where
  sid : Nat := 0
  conn : Nat := 0
  ev : Nat := 0
  deriving Repr, DecidableEq

def bumpBy (k : Skip) (s : Srv) : Srv :=
  { s with nextSid := s.nextSid + k.sid, nConn := s.nConn + k.conn, nEv := s.nEv + k.ev }

namespace Plain

/-- per-input outputs of the uninstrumented server; before each input the generators skip -/
def traceSkip (dec : Str → Except Err (Packet × Nat)) (c : Cfg) :
    Srv → List (Skip × Input) → Srv × List (Input × List Out)
  | s, [] => (s, [])
  | s, (k, i) :: is =>
    let r := Server.step dec c (bumpBy k s) i
    let rs := traceSkip dec c r.1 is
    (rs.1, (i, r.2) :: rs.2)

def runSkip (dec : Str → Except Err (Packet × Nat)) (c : Cfg) (s : Srv) (h : List (Skip × Input)) :
    Srv × List Out :=
  let r := traceSkip dec c s h
  (r.1, r.2.flatMap (·.2))

end Plain

/-! ### what the application side observes -/

/-- exceptions of these inputs are *contained* (logged by engine.io / the background task): no
    client and no application code sees them; those of API calls propagate to the caller -/
def contained : Input → Bool
  | .frame _ _ => true
  | .eioLost _ _ => true
  | .settle => true
  | _ => false

/-- visible on the application side: packets of namespaces other than the admin namespace,
    invocations of handlers of other namespaces, callbacks, results of API calls and the
    exceptions they raise -/
def appVisible (adminNs : Ns) (cont : Bool) : Out → Bool
  | .send _ p => p.nsp != some adminNs
  | .invoke slot _ => slotNs slot != adminNs
  | .raised _ => !cont
  | _ => true

def appView (adminNs : Ns) (i : Input) (outs : List Out) : List Out :=
  outs.filter (appVisible adminNs (contained i))

/-- the application-side observation of a run, input by input -/
def observeTrace (adminNs : Ns) (tr : List (Input × List Out)) : List (Input × List Out) :=
  tr.map (fun x => (x.1, appView adminNs x.1 x.2))

/-- the state restricted to application namespaces: rooms and queued handlers of the admin
    namespace removed (callbacks, ack counters, sessions, environ, reassembly buffers are kept
    whole) -/
def appPart (adminNs : Ns) (s : Srv) : Srv :=
  { s with rooms := s.rooms.filter (fun e => e.ns != adminNs),
           bg := s.bg.filter (fun b => b.ns != adminNs) }

/-- … and without the generators' positions -/
def appState (adminNs : Ns) (s : Srv) : Srv :=
  { appPart adminNs s with nextSid := 0, nConn := 0, nEv := 0 }

/-- The application does not address the admin namespace through the server API, and the history
    has no blocking `call()` (its nested inputs cannot be given skips). -/
def appInput (adminNs : Ns) : Input → Bool
  | .emit _ _ ns _ _ _ => ns != adminNs
  | .call _ _ _ _ _ => false
  | .apiDisconnect _ ns => ns != adminNs
  | .enterRoom _ ns _ => ns != adminNs
  | .leaveRoom _ ns _ => ns != adminNs
  | .closeRoom ns _ => ns != adminNs
  | .rooms _ ns => ns != adminNs
  | .getSession _ ns => ns != adminNs
  | .saveSession _ ns _ => ns != adminNs
  | .sessionBlock _ ns _ _ => ns != adminNs
  | _ => true

end Sio.Admin
