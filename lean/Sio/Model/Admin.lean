/-
  K10 — the admin instrumentation: admin.py / async_admin.py.

  Three things are modelled, each a transcription of the Python text:

  * `pyEq`      — Python's `==` on JSON-shaped values (what `client_auth == self.auth` and
                  `client_auth in self.auth` compute),
  * `adminConnect` / `admits` — the credential gate of `admin_connect`,
  * `registered` / `instrumentReg` — which handlers `instrument()` registers on the admin namespace
                  as a function of `mode` and `read_only`, as an overlay on the server's registry
                  (K4/K8), so that `Sio.Server.resolve` / `Sio.Server.step` decide what an admin
                  request can do.

  Core Lean only.
-/
import Sio.Model.Json
import Sio.Model.Server
namespace Sio.Admin
open Sio.Rooms (Ns)

/-! ### floats: the exact integer value behind a `repr` literal

`1 == 1.0`, `True == 1.0`, `10**22 == 1e22` are true in Python, `10**23 == 1e23` is false (the
double nearest to 10^23 is 99999999999999991611392).  A float travels as its `repr`; the integer it
denotes, if any, is recomputed here: decimal value of the literal, rounded to the nearest double
(ties to even) the way `float(str)` does. -/

def digitVal (c : Char) : Nat := c.toNat - 48

def digitsNat (ds : List Char) : Nat := ds.foldl (fun n c => n * 10 + digitVal c) 0

def allDigits (ds : List Char) : Bool := !ds.isEmpty && ds.all Char.isDigit

/-- `round-half-even` of a natural number to 53 significant bits -/
def roundDouble (d : Nat) : Nat :=
  if d < 2 ^ 53 then d
  else
    let shift := (d.log2 + 1) - 53
    let q := d / 2 ^ shift
    let rem := d % 2 ^ shift
    let half := 2 ^ (shift - 1)
    let q' := if half < rem || (rem == half && q % 2 == 1) then q + 1 else q
    q' * 2 ^ shift

/-- exponent part of a float literal: `""`, `e+NN`, `e-NN`, `eNN` -/
def parseExp : List Char → Option Int
  | [] => some 0
  | 'e' :: '+' :: ds => if allDigits ds then some (Int.ofNat (digitsNat ds)) else none
  | 'e' :: '-' :: ds => if allDigits ds then some (- Int.ofNat (digitsNat ds)) else none
  | 'e' :: ds => if allDigits ds then some (Int.ofNat (digitsNat ds)) else none
  | _ => none

/-- The integer a float denotes, given its `repr` (`none`: not an integer — a fraction, `inf`,
    `nan`). -/
def fltInt (lit : Str) : Option Int :=
  let (neg, r) : Bool × List Char := match lit with
    | '-' :: r => (true, r)
    | r => (false, r)
  let ip := r.takeWhile Char.isDigit
  let r1 := r.dropWhile Char.isDigit
  if ip.isEmpty then none else
  let (fp, r2) : List Char × List Char := match r1 with
    | '.' :: t => (t.takeWhile Char.isDigit, t.dropWhile Char.isDigit)
    | _ => ([], r1)
  match parseExp r2 with
  | none => none
  | some e =>
    let m := digitsNat (ip ++ fp)
    let scale : Int := e - Int.ofNat fp.length
    let dec : Option Nat :=
      if 0 ≤ scale then some (m * 10 ^ scale.toNat)
      else
        let d := 10 ^ (-scale).toNat
        if m % d = 0 then some (m / d) else none
    match dec with
    | none => none
    | some d =>
      let v := roundDouble d
      some (if neg then - Int.ofNat v else Int.ofNat v)

def isNan (l : Str) : Bool := l == "nan".toList

def isZeroLit (l : Str) : Bool := l == "0.0".toList || l == "-0.0".toList

/-- `float == float` from the two `repr`s: `repr` is injective on floats except that `0.0 == -0.0`,
    and `nan` equals nothing. -/
def fltEq (a b : Str) : Bool :=
  if isNan a || isNan b then false
  else if isZeroLit a && isZeroLit b then true
  else a == b

/-- the numeric tower `bool ⊂ int`, and integer-valued floats -/
def numVal : J → Option Int
  | .bool b => some (if b then 1 else 0)
  | .int i => some i
  | .flt l => fltInt l
  | _ => none

/-- `==` between two values that are not both containers -/
def scalarEq : J → J → Bool
  | .null, .null => true
  | .str a, .str b => a == b
  | .bin a, .bin b => a == b
  | .flt a, .flt b => fltEq a b
  | .bool a, .bool b => a == b
  | .bool a, .int b => (if a then 1 else 0) == b
  | .int a, .bool b => a == (if b then 1 else 0)
  | .int a, .int b => a == b
  | .bool a, .flt b => fltInt b == some (if a then 1 else 0)
  | .flt a, .bool b => fltInt a == some (if b then 1 else 0)
  | .int a, .flt b => fltInt b == some a
  | .flt a, .int b => fltInt a == some b
  | _, _ => false

mutual
  /-- Python `a == b` on JSON-shaped values.  Structural recursion on the left operand; the right
      operand of a dict comparison is looked up by key (`dict.__eq__`: same length, and every key
      of the left is a key of the right with an equal value). -/
  def pyEq : J → J → Bool
    | .arr a, .arr b => pyEqL a b
    | .arr _, _ => false
    | .obj a, .obj b => a.length == b.length && pyEqO a b
    | .obj _, _ => false
    | .null, b => scalarEq .null b
    | .bool x, b => scalarEq (.bool x) b
    | .int x, b => scalarEq (.int x) b
    | .flt x, b => scalarEq (.flt x) b
    | .str x, b => scalarEq (.str x) b
    | .bin x, b => scalarEq (.bin x) b
  def pyEqL : List J → List J → Bool
    | [], [] => true
    | x :: xs, y :: ys => pyEq x y && pyEqL xs ys
    | _, _ => false
  def pyEqO : List (Str × J) → List (Str × J) → Bool
    | [], _ => true
    | (k, v) :: rest, b =>
      (match lookup k b with
       | some w => pyEq v w
       | none => false) && pyEqO rest b
end

/-! ### the credential gate -/

/-- Predicates the harness can configure (the theorems quantify over arbitrary `J → Bool`; this
    is only the vocabulary of the line protocol). The value is the truthiness of what the Python
    predicate returns. -/
inductive Pred where
  | const (b : Bool)
  | isNull                          -- `lambda a: a is None`
  | truthy                          -- `lambda a: a`
  | eq (v : J)                      -- `lambda a: a == v`
  | hasKey (k : Str) (v : J)        -- `lambda a: isinstance(a, dict) and a.get(k) == v`
  | getKey (k : Str)                -- `lambda a: isinstance(a, dict) and a.get(k)`   (a value, not a bool)
  | not (p : Pred)
  | or (p q : Pred)
  deriving Repr, Inhabited

def Pred.eval : Pred → J → Bool
  | .const b, _ => b
  | .isNull, a => match a with | .null => true | _ => false
  | .truthy, a => a.truthy
  | .eq v, a => pyEq a v
  | .hasKey k v, a => match a with
    | .obj kvs => (match lookup k kvs with | some w => pyEq w v | none => pyEq .null v)
    | _ => false
  | .getKey k, a => match a with
    | .obj kvs => (match lookup k kvs with | some w => w.truthy | none => false)
    | _ => false
  | .not p, a => !(p.eval a)
  | .or p q, a => p.eval a || q.eval a

/-- What the application passed as `auth=` to `instrument()`. -/
inductive AuthArg where
  | missing                         -- `auth=None` (the default)
  | val (j : J)                     -- a JSON-shaped value: `False`, a dict, a list, ...
  | fn (p : J → Bool)               -- a callable (sync, or a coroutine function on the asyncio server)

/-- The four gates that `admin_connect` can be. -/
inductive AuthCfg where
  | disabled
  | dict (d : List (Str × J))
  | list (ds : List J)
  | pred (p : J → Bool)

/-- `InstrumentedServer.__init__` + the branch structure of `admin_connect`:
    `auth is None` → `ValueError('auth must be specified')` in the constructor (there is no
    "production" exception to this: the check is unconditional);
    anything falsy (`False`, `{}`, `[]`, `0`, `''`) → the gate is skipped (`if self.auth:`);
    a non-empty dict / list → `==` / `in`; anything else is *called* — a value that is not callable
    raises `TypeError` at the first connection attempt (outside the configuration domain). -/
def configure : AuthArg → Except Err AuthCfg
  | .missing => .error .valueError
  | .fn p => .ok (.pred p)
  | .val j =>
    if !j.truthy then .ok .disabled
    else match j with
      | .obj d => .ok (.dict d)
      | .arr ds => .ok (.list ds)
      | _ => .error .typeError

/-- the gate proper: `true` = the handler returns normally (the connection is accepted),
    `false` = `raise ConnectionRefusedError('authentication failed')` -/
def admits : AuthCfg → J → Bool
  | .disabled, _ => true
  | .dict d, a => pyEq a (.obj d)
  | .list ds, a => ds.any (fun d => pyEq a d)
  | .pred p, a => p a

/-- `admin_connect(sid, environ, client_auth)` transcribed line by line on the raw `auth=` value
    (`self.auth` is never `None`: the constructor has raised). -/
def adminConnect (auth : AuthArg) (clientAuth : J) : Except Err Bool :=
  match auth with
  | .missing => .error .valueError
  | .fn p =>
    -- a function object is truthy; not a dict, not a list
    let authenticated := p clientAuth
    .ok authenticated
  | .val j =>
    if j.truthy then
      match j with
      | .obj d => .ok (pyEq clientAuth (.obj d))          -- isinstance(self.auth, dict)
      | .arr ds => .ok (ds.any (fun d => pyEq clientAuth d))   -- isinstance(self.auth, list)
      | _ => .error .typeError                           -- self.auth(client_auth)
    else .ok true

/-- What `Server._handle_connect` hands to a connect handler with three parameters: the CONNECT
    packet's payload if it is truthy, otherwise `None` (`if data: ... else: retry with None`). -/
def present : Option J → J
  | some d => if d.truthy then d else .null
  | none => .null

/-- the gate as seen from the wire -/
def admitsWire (cfg : AuthCfg) (payload : Option J) : Bool := admits cfg (present payload)

/-! ### what `instrument()` registers -/

def development : Str := "development".toList

def isDev (mode : Str) : Bool := mode == development

/-- the admin events that act on the application -/
def mutators : List Str := ["emit".toList, "join".toList, "leave".toList, "_disconnect".toList]

/-- `instrument()`: the events with a handler on the admin namespace.
    ```
    self.sio.on('connect', self.admin_connect, namespace=self.admin_namespace)
    if self.mode == 'development':
        if not self.read_only:
            self.sio.on('emit', ...); on('join', ...); on('leave', ...); on('_disconnect', ...)
    ```
    In `production` mode the four are never registered, whatever `read_only` says. -/
def registered (mode : Str) (readOnly : Bool) : List Str :=
  "connect".toList :: (if isDev mode && !readOnly then mutators else [])

/-- the methods `instrument()` replaces by reporting wrappers on the server / manager instance -/
def wrapped (mode : Str) : List String :=
  if isDev mode then ["_trigger_event", "basic_enter_room", "basic_leave_room", "emit"] else []

/-- The server's handler registry after `instrument()`: `sio.on` stores into
    `handlers[admin_namespace][event]` (creating the namespace entry, replacing an existing
    handler of that name); nothing else is touched. -/
def instrumentReg (app : Server.Registry) (adminNs : Ns) (mode : Str) (readOnly : Bool) :
    Server.Registry :=
  { app with
    fn := fun ns ev => (ns == adminNs && (registered mode readOnly).contains ev) || app.fn ns ev
    fnNs := fun ns => ns == adminNs || app.fnNs ns }

/-- the connect handler's outcome, in the vocabulary of the server model's script -/
def connectOutcome (cfg : AuthCfg) (payload : Option J) : Server.ConnRes :=
  if admitsWire cfg payload then .accept
  else .refuse [.str "authentication failed".toList]

end Sio.Admin
