/-
  A concrete JSON reader for the image of the Lean printer `J.dumps` (Sio/Model/Json.lean):
  compact JSON (no insignificant white space), strings with the escapes of RFC 8259 including
  `\uXXXX` surrogate pairs, integers exactly, and floating-point literals kept as their text
  (a float travels as its literal and is never recomputed).  Recursive descent with fuel (the
  length of the input suffices: every call consumes a character).  Core Lean only.
-/
import Sio.Model.Json
namespace Sio
namespace JP

/-! ### strings -/

def hexVal (c : Char) : Option Nat :=
  if c.isDigit then some (c.toNat - 48)
  else if 97 ≤ c.toNat ∧ c.toNat ≤ 102 then some (c.toNat - 87)
  else if 65 ≤ c.toNat ∧ c.toNat ≤ 70 then some (c.toNat - 55)
  else none

def hex4Val (a b c d : Char) : Option Nat :=
  match hexVal a, hexVal b, hexVal c, hexVal d with
  | some x, some y, some z, some w => some (((x * 16 + y) * 16 + z) * 16 + w)
  | _, _, _, _ => none

/-- the character a one-letter escape stands for -/
def simpleEsc (e : Char) : Option Char :=
  if e = '"' then some '"'
  else if e = '\\' then some '\\'
  else if e = '/' then some '/'
  else if e = 'n' then some '\n'
  else if e = 'r' then some '\r'
  else if e = 't' then some '\t'
  else if e = 'b' then some (Char.ofNat 8)
  else if e = 'f' then some (Char.ofNat 12)
  else none

/-- The inside of a string literal up to and including the closing quote.
    `hi` is a pending high surrogate (`\uD800`–`\uDBFF`) waiting for its low half. -/
def strBody (hi : Option Nat) : Str → Except Err (Str × Str)
  | [] => .error .jsonError
  | c :: r =>
    if c = '\\' then
      match r with
      | [] => .error .jsonError
      | e :: r1 =>
        if e = 'u' then
          match r1 with
          | x :: y :: z :: w :: r' =>
            match hex4Val x y z w with
            | none => .error .jsonError
            | some v =>
              match hi with
              | some h =>
                if 0xDC00 ≤ v ∧ v ≤ 0xDFFF then
                  match strBody none r' with
                  | .ok (cs, rest) =>
                    .ok (Char.ofNat (0x10000 + (h - 0xD800) * 1024 + (v - 0xDC00)) :: cs, rest)
                  | .error e => .error e
                else .error .jsonError
              | none =>
                if 0xD800 ≤ v ∧ v ≤ 0xDBFF then strBody (some v) r'
                else if 0xDC00 ≤ v ∧ v ≤ 0xDFFF then .error .jsonError
                else
                  match strBody none r' with
                  | .ok (cs, rest) => .ok (Char.ofNat v :: cs, rest)
                  | .error e => .error e
          | _ => .error .jsonError
        else
          match hi, simpleEsc e with
          | none, some ch =>
            (match strBody none r1 with
             | .ok (cs, rest) => .ok (ch :: cs, rest)
             | .error e => .error e)
          | _, _ => .error .jsonError
    else if hi.isSome then .error .jsonError
    else if c = '"' then .ok ([], r)
    else if c.toNat < 32 then .error .jsonError
    else
      match strBody none r with
      | .ok (cs, rest) => .ok (c :: cs, rest)
      | .error e => .error e

/-! ### numbers -/

def isNumChar (c : Char) : Bool :=
  c.isDigit || c == '-' || c == '+' || c == '.' || c == 'e' || c == 'E'

/-- `0` or a digit string without leading zero -/
def digitsOK (ds : Str) : Bool :=
  !ds.isEmpty && ds.all Char.isDigit && (ds.length == 1 || ds.head? != some '0')

/-- `-? (0 | [1-9][0-9]*)` -/
def isIntLit : Str → Bool
  | '-' :: ds => digitsOK ds
  | ds => digitsOK ds

def intVal : Str → Int
  | '-' :: ds => Int.negOfNat (Nat.ofDigitChars 10 ds 0)
  | ds => Int.ofNat (Nat.ofDigitChars 10 ds 0)

/-- `[0-9]+` and what follows -/
def someDigits (s : Str) : Option Str :=
  let ds := s.takeWhile Char.isDigit
  if ds.isEmpty then none else some (s.drop ds.length)

/-- `([eE][+-]?[0-9]+)?` up to the end of the token -/
def expPart : Str → Bool
  | [] => true
  | c :: r =>
    if c = 'e' ∨ c = 'E' then
      match r with
      | s :: r' => if s = '+' ∨ s = '-' then someDigits r' == some [] else someDigits r == some []
      | [] => false
    else false

/-- a JSON number with a fraction and/or an exponent: `int frac? exp?`, not an integer literal -/
def isFloatLit (tok : Str) : Bool :=
  let body := match tok with | '-' :: r => r | _ => tok
  let ds := body.takeWhile Char.isDigit
  let rest := body.drop ds.length
  digitsOK ds && !rest.isEmpty &&
    (match rest with
     | '.' :: r => (match someDigits r with | some r' => expPart r' | none => false)
     | _ => expPart rest)

/-- A number token is the longest run of number characters; it must be an integer literal
    (read exactly) or a float literal (kept as text). -/
def number (s : Str) : Except Err (J × Str) :=
  let tok := s.takeWhile isNumChar
  let rest := s.drop tok.length
  if isIntLit tok then .ok (.int (intVal tok), rest)
  else if isFloatLit tok then .ok (.flt tok, rest)
  else .error .jsonError

/-! ### values -/

mutual
  /-- one value and what follows it -/
  def value : Nat → Str → Except Err (J × Str)
    | 0, _ => .error .jsonError
    | f + 1, s =>
      match s with
      | [] => .error .jsonError
      | c :: r =>
        if c = '"' then
          match strBody none r with
          | .ok (cs, rest) => .ok (.str cs, rest)
          | .error e => .error e
        else if c = '[' then
          if r.head? = some ']' then .ok (.arr [], r.drop 1)
          else match elems f r with
            | .ok (xs, rest) => .ok (.arr xs, rest)
            | .error e => .error e
        else if c = '{' then
          if r.head? = some '}' then .ok (.obj [], r.drop 1)
          else match members f r with
            | .ok (kvs, rest) => .ok (.obj kvs, rest)
            | .error e => .error e
        else if c = 'n' then
          match r with
          | 'u' :: 'l' :: 'l' :: rest => .ok (.null, rest)
          | _ => .error .jsonError
        else if c = 't' then
          match r with
          | 'r' :: 'u' :: 'e' :: rest => .ok (.bool true, rest)
          | _ => .error .jsonError
        else if c = 'f' then
          match r with
          | 'a' :: 'l' :: 's' :: 'e' :: rest => .ok (.bool false, rest)
          | _ => .error .jsonError
        else if isNumChar c then number s
        else .error .jsonError
  /-- `value ("," value)* "]"` -/
  def elems : Nat → Str → Except Err (List J × Str)
    | 0, _ => .error .jsonError
    | f + 1, s =>
      match value f s with
      | .error e => .error e
      | .ok (x, r) =>
        match r with
        | ',' :: r' =>
          (match elems f r' with
           | .ok (xs, rest) => .ok (x :: xs, rest)
           | .error e => .error e)
        | ']' :: rest => .ok ([x], rest)
        | _ => .error .jsonError
  /-- `string ":" value ("," string ":" value)* "}"` -/
  def members : Nat → Str → Except Err (List (Str × J) × Str)
    | 0, _ => .error .jsonError
    | f + 1, s =>
      match s with
      | '"' :: r =>
        (match strBody none r with
         | .error e => .error e
         | .ok (k, r1) =>
           match r1 with
           | ':' :: r2 =>
             (match value f r2 with
              | .error e => .error e
              | .ok (x, r3) =>
                match r3 with
                | ',' :: r4 =>
                  (match members f r4 with
                   | .ok (kvs, rest) => .ok ((k, x) :: kvs, rest)
                   | .error e => .error e)
                | '}' :: rest => .ok ([(k, x)], rest)
                | _ => .error .jsonError)
           | _ => .error .jsonError)
      | _ => .error .jsonError
end

end JP

/-- `json.loads` on compact JSON text: one value, nothing after it. -/
def J.loads (s : Str) : Except Err J :=
  match JP.value (s.length + 1) s with
  | .ok (j, []) => .ok j
  | .ok (_, _ :: _) => .error .jsonError
  | .error e => .error e

end Sio
