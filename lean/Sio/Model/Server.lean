/-
  K4 — the socket.io server core: server.py / async_server.py / base_server.py on top of the
  client manager (K3) and the codec (K1).  One `step` per input; the application is data
  (`Script`), engine.io is the environment (`socks`, sessions).  Both server families refine this
  one model (property C14).
-/
import Sio.Model.Codec
import Sio.Model.Rooms
namespace Sio.Server
open Sio.Rooms

/-! ### the application, as data -/

inductive ConnRes where
  | accept                      -- returns None / True / anything that `is not False`
  | retFalse
  | refuse (args : List J)      -- raise ConnectionRefusedError(*args)
  | raise                       -- any other exception
  deriving Repr, Inhabited

inductive EvRes where
  | ret (d : Data)
  | raise
  deriving Repr, Inhabited

inductive DiscRes where
  | ok
  | raise
  deriving Repr, Inhabited

/-- Outcome of the n-th invocation of a connect / event / disconnect handler. -/
structure Script where
  onConnect : Nat → ConnRes
  onEvent : Nat → EvRes
  onDisconnect : Nat → DiscRes

/-- Handler registries (K8), arbitrary functions: `fn ns ev` — a function handler is registered
    under `handlers[ns][ev]` (both may be "*"); `fnNs ns` — `ns in self.handlers`; `cls ns` — a
    class-based namespace is registered for `ns` (or "*"); `clsMethod ns m` — it has attribute m. -/
structure Registry where
  fn : Ns → Str → Bool
  fnNs : Ns → Bool
  cls : Ns → Bool
  clsMethod : Ns → Str → Bool

structure Cfg where
  alwaysConnect : Bool
  served : Option (List Ns)        -- `none` = "*"
  asyncHandlers : Bool
  reg : Registry
  script : Script

/-! ### state -/

inductive CbTok where
  | user (n : Nat)        -- a callback the application passed to emit()
  | call (n : Nat)        -- the internal callback of the n-th call()
  deriving Repr, DecidableEq, Inhabited

/-- a queued background handler (`async_handlers=True`) -/
structure Bg where
  sid : Sid
  eio : Eio
  first : J
  rest : List J
  ns : Ns
  id : Option Nat
  deriving Repr

structure Srv where
  rooms : Rooms.St := []
  pending : List (Ns × Sid) := []
  cbs : List (Sid × Nat × CbTok) := []
  ctr : List (Sid × Nat) := []                -- ack_counters: last id handed out per sid
  environ : List Eio := []
  binbuf : List (Eio × Partial) := []
  sess : List (Eio × Ns × J) := []
  socks : List Eio := []                      -- open engine.io sockets
  bg : List Bg := []
  nextSid : Nat := 0
  nConn : Nat := 0
  nEv : Nat := 0
  nDisc : Nat := 0
  nCall : Nat := 0
  callDone : List (Nat × List J) := []        -- results delivered to pending call()s
  deriving Inhabited

inductive Slot where
  | fn (ns : Ns) (ev : Str)
  | cls (ns : Ns) (method : Str)
  deriving Repr, DecidableEq

inductive Out where
  | send (t : Eio) (p : Packet)
  | invoke (slot : Slot) (args : List J)
  | callback (tok : Nat) (args : List J)
  | raised (e : Err)
  | result (j : J)
  | timeout
  deriving Repr

def sidName (n : Nat) : Sid := 's' :: natStr n

def reserved : List Str := ["connect".toList, "disconnect".toList]

def star : Str := ['*']

/-! ### manager queries -/

def isConnected (s : Srv) (sid : Sid) (ns : Ns) : Bool :=
  !(s.pending.contains (ns, sid)) && (eioOf s.rooms ns sid).isSome

/-- `basic_disconnect` -/
def mgrDisconnect (s : Srv) (sid : Sid) (ns : Ns) : Srv :=
  { s with rooms := Rooms.disconnect s.rooms ns sid,
           cbs := s.cbs.filter (fun c => c.1 != sid),
           ctr := s.ctr.filter (fun c => c.1 != sid),
           pending := s.pending.filter (fun p => !(p.1 = ns ∧ p.2 = sid)) }

/-- `eio.send`: dropped when the socket is gone -/
def sendTo (s : Srv) (t : Option Eio) (p : Packet) : List Out :=
  match t with
  | some t => if s.socks.contains t then [.send t p] else []
  | none => []

/-! ### handler resolution (K8, server side) -/

inductive Resolved where
  | fn (slot : Slot) (args : List J)
  | clsCall (slot : Slot) (args : List J)
  | clsNoMethod                    -- class-based namespace without `on_<event>`: returns None
  | notHandled
  deriving Repr

def hashable : J → Bool
  | .arr _ => false
  | .obj _ => false
  | _ => true

def evStr : J → Option Str
  | .str s => some s
  | _ => none

/-- `event in d` for a dict with string keys -/
def inDict (has : Str → Bool) (ev : J) : Bool :=
  match evStr ev with
  | some s => has s
  | none => false

/-- `_get_event_handler` + `_get_namespace_handler` + `trigger_event`; `args` start with the sid.
    Unhashable event names raise `TypeError` at the first dict membership test. -/
def resolve (reg : Registry) (ns : Ns) (ev : J) (args : List J) : Except Err Resolved :=
  let isRes := match evStr ev with | some s => reserved.contains s | none => false
  -- '*' is the catch-all key, never an exact event name
  let isStar := match evStr ev with | some s => s == star | none => false
  let nsJ := J.str ns
  -- function handlers
  let step1 : Except Err (Option Resolved) :=
    if ns != star && reg.fnNs ns then
      if !hashable ev then .error .typeError
      else if !isStar && inDict (reg.fn ns) ev then .ok (some (.fn (.fn ns ((evStr ev).getD [])) args))
      else if !isRes && reg.fn ns star then .ok (some (.fn (.fn ns star) (ev :: args)))
      else .ok none
    else .ok none
  match step1 with
  | .error e => .error e
  | .ok (some r) => .ok r
  | .ok none =>
    let step2 : Except Err (Option Resolved) :=
      if reg.fnNs star then
        if !hashable ev then .error .typeError
        else if !isStar && inDict (reg.fn star) ev then .ok (some (.fn (.fn star ((evStr ev).getD [])) (nsJ :: args)))
        else if !isRes && reg.fn star star then .ok (some (.fn (.fn star star) (ev :: nsJ :: args)))
        else .ok none
      else .ok none
    match step2 with
    | .error e => .error e
    | .ok (some r) => .ok r
    | .ok none =>
      -- class-based namespaces
      let target : Option (Ns × List J) :=
        if ns != star && reg.cls ns then some (ns, args)
        else if reg.cls star then some (star, nsJ :: args)
        else none
      match target with
      | none => .ok .notHandled
      | some (cns, cargs) =>
        -- handler_name = 'on_' + (event or '')
        if ev.truthy then
          match evStr ev with
          | none => .error .typeError
          | some s =>
            let m := "on_".toList ++ s
            if reg.clsMethod cns m then .ok (.clsCall (.cls cns m) cargs) else .ok .clsNoMethod
        else
          let m := "on_".toList
          if reg.clsMethod cns m then .ok (.clsCall (.cls cns m) cargs) else .ok .clsNoMethod

/-! ### packets the server sends -/

def objOf (kvs : List (String × J)) : J := .obj (kvs.map (fun p => (p.1.toList, p.2)))

def pktConnect (ns : Ns) (sid : Sid) : Packet :=
  ⟨CONNECT, some ns, none, some (objOf [("sid", .str sid)])⟩

def pktConnectError (ns : Ns) (d : J) : Packet := ⟨CONNECT_ERROR, some ns, none, some d⟩

def pktDisconnect (ns : Ns) (d : Option J) : Packet := ⟨DISCONNECT, some ns, none, d⟩

/-- `ConnectionRefusedError(*args).error_args` (the first argument is a string in the domain) -/
def errorArgs : List J → J
  | [] => objOf [("message", .str "Connection rejected by server".toList)]
  | [m] => objOf [("message", m)]
  | [m, d] => objOf [("message", m), ("data", d)]
  | m :: ds => objOf [("message", m), ("data", .arr ds)]

/-- EVENT / ACK packets go through the constructor's binary detection. -/
def mkOut (type : Nat) (ns : Ns) (id : Option Nat) (data : List J) : Packet :=
  match mkPacket true type (some (.arr data)) (some ns) id none with
  | .ok p => p
  | .error _ => ⟨type, some ns, id, some (.arr data)⟩     -- unreachable for EVENT / ACK

/-! ### disconnect paths -/

/-- body shared by `_handle_disconnect` and `disconnect()` after the gate: mark, [send], handler,
    cleanup (in a `finally`).  Returns whether the handler raised. -/
def endSession (cfg : Cfg) (s : Srv) (sid : Sid) (ns : Ns) (reason : Str) (sendDisc : Bool) :
    Srv × List Out × Bool :=
  let eio := eioOf s.rooms ns sid
  let s1 := { s with pending := s.pending ++ [(ns, sid)] }
  let o1 := if sendDisc then sendTo s1 eio (pktDisconnect ns none) else []
  match resolve cfg.reg ns (.str "disconnect".toList) [.str sid, .str reason] with
  | .error _ => (mgrDisconnect s1 sid ns, o1 ++ [.raised .typeError], true)
  | .ok r =>
    let (o2, raised, s2) : List Out × Bool × Srv := match r with
      | .fn slot args | .clsCall slot args =>
        let res := cfg.script.onDisconnect s1.nDisc
        let s2 := { s1 with nDisc := s1.nDisc + 1 }
        match res with
        | .ok => ([.invoke slot args], false, s2)
        | .raise => ([.invoke slot args, .raised .other], true, s2)
      | _ => ([], false, s1)
    (mgrDisconnect s2 sid ns, o1 ++ o2, raised)

/-- `_handle_disconnect(eio_sid, namespace, reason)` -/
def handleDisconnect (cfg : Cfg) (s : Srv) (t : Eio) (ns : Ns) (reason : Str) : Srv × List Out × Bool :=
  match sidOf s.rooms ns t with
  | none => (s, [], false)
  | some sid =>
    if !isConnected s sid ns then (s, [], false)
    else endSession cfg s sid ns reason false

def namespacesOf (r : Rooms.St) : List Ns := (r.map (·.ns)).eraseDups

/-! ### connect -/

def isServed (cfg : Cfg) (ns : Ns) : Bool :=
  cfg.reg.fnNs ns || cfg.reg.cls ns ||
  (match cfg.served with | none => true | some l => l.contains ns)

def handleConnect (cfg : Cfg) (s : Srv) (t : Eio) (nsp : Option Str) (data : Option J) : Srv × List Out :=
  let ns := nsp.getD ['/']
  let sidNew := sidName s.nextSid
  let conn := if isServed cfg ns then Rooms.connect s.rooms ns t sidNew else none
  match conn with
  | none => (s, sendTo s (some t) (pktConnectError ns (.str "Unable to connect".toList)))
  | some rooms' =>
    let s := { s with rooms := rooms', nextSid := s.nextSid + 1 }
    let o0 := if cfg.alwaysConnect then sendTo s (some t) (pktConnect ns sidNew) else []
    let auth : List J := match data with
      | some d => if d.truthy then [d] else []
      | none => []
    -- `self.environ[eio_sid]` is evaluated as an argument of the handler call
    if !s.environ.contains t then (s, o0 ++ [.raised .keyError]) else
    match resolve cfg.reg ns (.str "connect".toList) (.str sidNew :: auth) with
    | .error _ => (s, o0 ++ [.raised .typeError])
    | .ok r =>
      -- success : none = handler raised (propagates), some b = `success is not False`
      let (oi, s, outcome) : List Out × Srv × Option (Bool × J) := match r with
        | .fn slot args | .clsCall slot args =>
          let res := cfg.script.onConnect s.nConn
          let s := { s with nConn := s.nConn + 1 }
          match res with
          | .accept => ([.invoke slot args], s, some (true, errorArgs []))
          | .retFalse => ([.invoke slot args], s, some (false, errorArgs []))
          | .refuse a => ([.invoke slot args], s, some (false, errorArgs a))
          | .raise => ([.invoke slot args, .raised .other], s, none)
        | _ => ([], s, some (true, errorArgs []))
      match outcome with
      | none => (s, o0 ++ oi)
      | some (true, _) =>
        (s, o0 ++ oi ++ (if cfg.alwaysConnect then [] else sendTo s (some t) (pktConnect ns sidNew)))
      | some (false, why) =>
        if cfg.alwaysConnect then
          let s1 := { s with pending := s.pending ++ [(ns, sidNew)] }
          (mgrDisconnect s1 sidNew ns, o0 ++ oi ++ sendTo s1 (some t) (pktDisconnect ns (some why)))
        else
          (mgrDisconnect s sidNew ns, o0 ++ oi ++ sendTo s (some t) (pktConnectError ns why))

/-! ### events and acknowledgements -/

/-- `data[0]`, `data[1:]` with Python's indexing on whatever the decoder produced -/
def splitEvent : Option J → Except Err (J × List J)
  | none => .error .typeError
  | some (.arr (x :: xs)) => .ok (x, xs)
  | some (.arr []) => .error .indexError
  | some (.str (c :: cs)) => .ok (.str [c], cs.map (fun c => .str [c]))
  | some (.str []) => .error .indexError
  | some (.bin (b :: bs)) => .ok (.int b.toNat, bs.map (fun b => .int b.toNat))
  | some (.bin []) => .error .indexError
  | some (.obj _) => .error .keyError
  | some _ => .error .typeError

/-- `_handle_event_internal` -/
def runHandler (cfg : Cfg) (s : Srv) (b : Bg) : Srv × List Out :=
  match resolve cfg.reg b.ns b.first (.str b.sid :: b.rest) with
  | .error e => (s, [.raised e])
  | .ok r =>
    let ack (s : Srv) (d : Data) : List Out :=
      match b.id with
      | some i => sendTo s (some b.eio) (mkOut ACK b.ns (some i) d.pack)
      | none => []
    match r with
    | .fn slot args | .clsCall slot args =>
      let res := cfg.script.onEvent s.nEv
      let s := { s with nEv := s.nEv + 1 }
      match res with
      | .ret d => (s, .invoke slot args :: ack s d)
      | .raise => (s, [.invoke slot args, .raised .other])
    | .clsNoMethod => (s, ack s .none)
    | .notHandled => (s, [])

def handleEvent (cfg : Cfg) (s : Srv) (t : Eio) (nsp : Option Str) (id : Option Nat) (data : Option J) :
    Srv × List Out :=
  let ns := nsp.getD ['/']
  match splitEvent data with
  | .error e => (s, [.raised e])
  | .ok (first, rest) =>
    match sidOf s.rooms ns t with
    | none => (s, [])
    | some sid =>
      if !isConnected s sid ns then (s, [])
      else
        let b : Bg := ⟨sid, t, first, rest, ns, id⟩
        if cfg.asyncHandlers then ({ s with bg := s.bg ++ [b] }, [])
        else runHandler cfg s b

/-- `callback(*data)` -/
def starArgs : Option J → Except Err (List J)
  | some (.arr xs) => .ok xs
  | some (.str cs) => .ok (cs.map (fun c => .str [c]))
  | some (.obj kvs) => .ok (kvs.map (fun p => .str p.1))
  | some (.bin bs) => .ok (bs.map (fun b => .int b.toNat))
  | _ => .error .typeError

/-- `_handle_ack` / `trigger_callback` -/
def handleAck (s : Srv) (t : Eio) (nsp : Option Str) (id : Option Nat) (data : Option J) : Srv × List Out :=
  let ns := nsp.getD ['/']
  match sidOf s.rooms ns t, id with
  | some sid, some i =>
    match s.cbs.find? (fun c => c.1 = sid ∧ c.2.1 = i) with
    | none => (s, [])
    | some (_, _, tok) =>
      let s := { s with cbs := s.cbs.filter (fun c => !(c.1 = sid ∧ c.2.1 = i)) }
      match starArgs data with
      | .error e => (s, [.raised e])
      | .ok args =>
        match tok with
        | .user n => (s, [.callback n args])
        | .call n => ({ s with callDone := s.callDone ++ [(n, args)] }, [])
  | _, _ => (s, [])

/-! ### incoming frames -/

/-- `Packet(encoded_packet=v)` for anything engine.io may hand up that is not a non-empty `str`:
    the constructor's `TypeError` fallback makes numbers packet types. -/
def decodeOdd : J → Except Err (Packet × Nat)
  | .int i => if i = 0 then .ok (⟨EVENT, none, none, none⟩, 0)
              else if 0 < i then .ok (⟨i.toNat, none, none, none⟩, 0) else .error .valueError
  | .bool true => .ok (⟨1, none, none, none⟩, 0)
  | .bool false => .ok (⟨EVENT, none, none, none⟩, 0)
  | .null => .ok (⟨EVENT, none, none, none⟩, 0)
  | .str [] => .ok (⟨EVENT, none, none, none⟩, 0)
  | .bin [] => .ok (⟨EVENT, none, none, none⟩, 0)
  | .arr [] => .ok (⟨EVENT, none, none, none⟩, 0)
  | .obj [] => .ok (⟨EVENT, none, none, none⟩, 0)
  | _ => .error .typeError

def dispatchPacket (cfg : Cfg) (s : Srv) (t : Eio) (p : Packet) (natt : Nat) : Srv × List Out :=
  if p.type = CONNECT then handleConnect cfg s t p.nsp p.data
  else if p.type = DISCONNECT then
    let r := handleDisconnect cfg s t (p.nsp.getD ['/']) "client disconnect".toList
    (r.1, r.2.1)
  else if p.type = EVENT then handleEvent cfg s t p.nsp p.id p.data
  else if p.type = ACK then handleAck s t p.nsp p.id p.data
  else if p.type = BINARY_EVENT || p.type = BINARY_ACK then
    ({ s with binbuf := s.binbuf ++ [(t, ⟨p, natt, []⟩)] }, [])
  else (s, [.raised .valueError])

def setBin (b : List (Eio × Partial)) (t : Eio) (p : Partial) : List (Eio × Partial) :=
  b.map (fun e => if e.1 = t then (t, p) else e)

/-- `_handle_eio_message` -/
def handleFrame (dec : Str → Except Err (Packet × Nat)) (cfg : Cfg) (s : Srv) (t : Eio) (v : J) :
    Srv × List Out :=
  match s.binbuf.find? (fun e => e.1 = t) with
  | some (_, part) =>
    -- `add_attachment(data)`: whatever arrives is appended, no type test
    if part.need ≤ part.got.length then (s, [.raised .valueError])
    else
      let got := part.got ++ [v]
      if part.need = got.length then
        let res : Except Err (Option J) := match part.pkt.data with
          | some j => (recon got j).map some
          | none => .ok none
        match res with
        | .error e => ({ s with binbuf := setBin s.binbuf t { part with got := got } }, [.raised e])
        | .ok d =>
          let s := { s with binbuf := s.binbuf.filter (fun e => e.1 != t) }
          if part.pkt.type = BINARY_EVENT then handleEvent cfg s t part.pkt.nsp part.pkt.id d
          else handleAck s t part.pkt.nsp part.pkt.id d
      else ({ s with binbuf := setBin s.binbuf t { part with got := got } }, [])
  | none =>
    let d : Except Err (Packet × Nat) := match v with
      | .str (c :: cs) => dec (c :: cs)
      | .bin (_ :: _) => .error .typeError
      | other => decodeOdd other
    match d with
    | .error e => (s, [.raised e])
    | .ok (p, n) => dispatchPacket cfg s t p n

/-! ### transport loss -/

def handleLost (cfg : Cfg) (s : Srv) (t : Eio) (reason : Str) : Srv × List Out :=
  if !s.socks.contains t then (s, [])
  else
    let rec go (s : Srv) (outs : List Out) : List Ns → Srv × List Out
      | [] => (s, outs)
      | ns :: rest =>
        let r := handleDisconnect cfg s t ns reason
        go r.1 (outs ++ r.2.1) rest
    let (s, outs) := go s [] (namespacesOf s.rooms)
    ({ s with environ := s.environ.filter (· != t),
              binbuf := s.binbuf.filter (fun e => e.1 != t),
              socks := s.socks.filter (· != t),
              sess := s.sess.filter (fun e => e.1 != t) }, outs)

/-! ### server API -/

def nextAckId (s : Srv) (sid : Sid) : Nat :=
  match s.ctr.find? (fun c => c.1 = sid) with
  | some c => c.2 + 1
  | none => 1

def setCtr (c : List (Sid × Nat)) (sid : Sid) (n : Nat) : List (Sid × Nat) :=
  if c.any (fun e => e.1 = sid) then c.map (fun e => if e.1 = sid then (sid, n) else e)
  else c ++ [(sid, n)]

/-- `emit` through `Manager.emit` -/
def emit (s : Srv) (ev : Str) (d : Data) (ns : Ns) (to : Target) (skip : List Sid) (cb : Option CbTok) :
    Srv × List Out :=
  if !hasNs s.rooms ns then (s, [])
  else
    let payload := J.str ev :: d.pack
    let recips := recipients s.rooms ns to skip
    match cb with
    | none =>
      let p := mkOut EVENT ns none payload
      (s, recips.flatMap (fun r => sendTo s (some r.2) p))
    | some tok =>
      recips.foldl (fun (acc : Srv × List Out) r =>
        let s := acc.1
        let i := nextAckId s r.1
        let s := { s with ctr := setCtr s.ctr r.1 i, cbs := s.cbs ++ [(r.1, i, tok)] }
        (s, acc.2 ++ sendTo s (some r.2) (mkOut EVENT ns (some i) payload))) (s, [])

/-- `disconnect(sid, namespace)` -/
def apiDisconnect (cfg : Cfg) (s : Srv) (sid : Sid) (ns : Ns) : Srv × List Out :=
  if !isConnected s sid ns then (s, [])
  else
    let r := endSession cfg s sid ns "server disconnect".toList true
    (r.1, r.2.1)

def sessGet (s : Srv) (t : Eio) (ns : Ns) : Option J :=
  (s.sess.find? (fun e => e.1 = t ∧ e.2.1 = ns)).map (·.2.2)

def sessSet (s : Srv) (t : Eio) (ns : Ns) (v : J) : Srv :=
  if s.sess.any (fun e => e.1 = t ∧ e.2.1 = ns) then
    { s with sess := s.sess.map (fun e => if e.1 = t ∧ e.2.1 = ns then (t, ns, v) else e) }
  else { s with sess := s.sess ++ [(t, ns, v)] }

/-- the engine.io socket of `sid` on `ns`, if it is still open -/
def sessSock (s : Srv) (sid : Sid) (ns : Ns) : Option Eio :=
  match eioOf s.rooms ns sid with
  | some t => if s.socks.contains t then some t else none
  | none => none

def setKey (k : Str) (v : J) : List (Str × J) → List (Str × J)
  | [] => [(k, v)]
  | (k', x) :: rest => if k' = k then (k, v) :: rest else (k', x) :: setKey k v rest

inductive Input where
  | eioConnect (t : Eio)
  | frame (t : Eio) (v : J)
  | eioLost (t : Eio) (reason : Str)
  | emit (ev : Str) (d : Data) (ns : Ns) (to : Target) (skip : List Sid) (cb : Option Nat)
  | call (ev : Str) (d : Data) (ns : Ns) (sid : Sid) (during : List Input)
  | apiDisconnect (sid : Sid) (ns : Ns)
  | enterRoom (sid : Sid) (ns : Ns) (room : Room)
  | leaveRoom (sid : Sid) (ns : Ns) (room : Room)
  | closeRoom (ns : Ns) (room : Room)
  | rooms (sid : Sid) (ns : Ns)
  | getSession (sid : Sid) (ns : Ns)
  | saveSession (sid : Sid) (ns : Ns) (v : J)
  | sessionBlock (sid : Sid) (ns : Ns) (k : Str) (v : J)
  | settle

/-- `call()`'s result from the acknowledged arguments -/
def callResult : List J → J
  | [] => .null
  | [x] => x
  | xs => .arr xs          -- a tuple (rendered as a list on the wire of the line protocol)

mutual
  def step (dec : Str → Except Err (Packet × Nat)) (cfg : Cfg) (s : Srv) : Input → Srv × List Out
    | .eioConnect t =>
      ({ s with environ := s.environ ++ [t], socks := s.socks ++ [t] }, [])
    | .frame t v => handleFrame dec cfg s t v
    | .eioLost t reason => handleLost cfg s t reason
    | .emit ev d ns to skip cb => emit s ev d ns to skip (cb.map CbTok.user)
    | .call ev d ns sid during =>
      if !cfg.asyncHandlers then (s, [.raised .other])
      else
        let n := s.nCall
        let (s, o1) := emit { s with nCall := n + 1 } ev d ns (.one sid) [] (some (.call n))
        let (s, o2) := run dec cfg s during
        match s.callDone.find? (fun c => c.1 = n) with
        | some (_, args) => (s, o1 ++ o2 ++ [.result (callResult args)])
        | none => (s, o1 ++ o2 ++ [.timeout])
    | .apiDisconnect sid ns => apiDisconnect cfg s sid ns
    | .enterRoom sid ns room =>
      match Rooms.enter s.rooms ns sid room with
      | .ok r => ({ s with rooms := r }, [])
      | .error e => (s, [.raised e])
    | .leaveRoom sid ns room => ({ s with rooms := Rooms.leave s.rooms ns sid (some room) }, [])
    | .closeRoom ns room => ({ s with rooms := Rooms.closeRoom s.rooms ns room }, [])
    | .rooms sid ns => (s, [.result (.arr ((getRooms s.rooms ns sid).map J.str))])
    | .getSession sid ns =>
      match sessSock s sid ns with
      | none => (s, [.raised .keyError])
      | some t =>
        match sessGet s t ns with
        | some v => (s, [.result v])
        | none => (sessSet s t ns (.obj []), [.result (.obj [])])
    | .saveSession sid ns v =>
      match sessSock s sid ns with
      | none => (s, [.raised .keyError])
      | some t => (sessSet s t ns v, [])
    | .sessionBlock sid ns k v =>
      match sessSock s sid ns with
      | none => (s, [.raised .keyError])
      | some t =>
        let cur := (sessGet s t ns).getD (.obj [])
        let new := match cur with
          | .obj kvs => J.obj (setKey k v kvs)
          | other => other
        (sessSet s t ns new, [.result new])
    | .settle =>
      let rec drain (s : Srv) (outs : List Out) : List Bg → Srv × List Out
        | [] => (s, outs)
        | b :: rest =>
          let r := runHandler cfg s b
          drain r.1 (outs ++ r.2) rest
      drain { s with bg := [] } [] s.bg

  def run (dec : Str → Except Err (Packet × Nat)) (cfg : Cfg) (s : Srv) : List Input → Srv × List Out
    | [] => (s, [])
    | i :: is =>
      let r := step dec cfg s i
      let rs := run dec cfg r.1 is
      (rs.1, r.2 ++ rs.2)
end

end Sio.Server
