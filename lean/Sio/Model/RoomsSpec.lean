/-
  K3 — the abstract specification of rooms (property C03).

  No lists, no dictionaries, no garbage collection of empty rooms: membership and connections are
  plain functions, every operation is a pointwise update.  The personal room of a session is
  *entered at connect*, like any other room (it can be left or closed like any other room).
  `owner` is the inverse direction of `conn` (the bidict of room `None`): which session lives on
  a transport in a namespace.

  Executable (the driver evaluates it next to the model so that the harness can compare the
  Python oracle with it), core Lean only.
-/
import Sio.Model.Rooms
namespace Sio.Rooms

structure Spec where
  /-- `member ns room sid`; `room = none` is "connected to the namespace" -/
  member : Ns → Option Room → Sid → Bool
  /-- the transport of a connected session -/
  conn : Ns → Sid → Option Eio
  /-- the session that a transport has on a namespace -/
  owner : Ns → Eio → Option Sid

namespace Spec

def init : Spec := ⟨fun _ _ _ => false, fun _ _ => none, fun _ _ => none⟩

def apply (σ : Spec) : Op → Spec
  | .connect ns eio sid =>
    -- refused: the transport already has a session on the namespace (bidict duplicate);
    -- impossible: the generated id is in use (ids never repeat)
    if (σ.owner ns eio).isSome || (σ.conn ns sid).isSome then σ
    else
      { member := fun n r x =>
          if n = ns ∧ x = sid ∧ (r = none ∨ r = some sid) then true else σ.member n r x
        conn := fun n x => if n = ns ∧ x = sid then some eio else σ.conn n x
        owner := fun n e => if n = ns ∧ e = eio then some sid else σ.owner n e }
  | .enter ns sid room =>
    if (σ.conn ns sid).isSome then
      { σ with member := fun n r x =>
          if n = ns ∧ r = some room ∧ x = sid then true else σ.member n r x }
    else σ
  | .leave ns sid room =>
    { σ with member := fun n r x =>
        if n = ns ∧ r = some room ∧ x = sid then false else σ.member n r x }
  | .closeRoom ns room =>
    { σ with member := fun n r x => if n = ns ∧ r = some room then false else σ.member n r x }
  | .disconnect ns sid =>
    { member := fun n r x => if n = ns ∧ x = sid then false else σ.member n r x
      conn := fun n x => if n = ns ∧ x = sid then none else σ.conn n x
      owner := fun n e => if n = ns ∧ σ.conn ns sid = some e then none else σ.owner n e }
  | .lost eio =>
    { member := fun n r x => if σ.owner n eio = some x then false else σ.member n r x
      conn := fun n x => if σ.owner n eio = some x then none else σ.conn n x
      owner := fun n e => if e = eio then none else σ.owner n e }

def run (σ : Spec) (ops : List Op) : Spec := ops.foldl apply σ

/-- "member of at least one addressed room" -/
def addressed (σ : Spec) (ns : Ns) (sid : Sid) : Target → Bool
  | .all => true
  | .one r => σ.member ns (some r) sid
  | .many rs => rs.any (fun r => σ.member ns (some r) sid)

/-- The statement of C03 for one client: connected to the namespace, addressed, not skipped. -/
def shouldReceive (σ : Spec) (ns : Ns) (t : Target) (skip : List Sid) (sid : Sid) : Bool :=
  (σ.conn ns sid).isSome && σ.addressed ns sid t && !(skip.contains sid)

end Spec

/-- The abstraction: what a model state says about membership and connections. -/
def abs (s : St) : Spec := ⟨isMember s, eioOf s, sidOf s⟩

end Sio.Rooms
