/-
  K1-spec — an independent codec written from the text of the Socket.IO v5 protocol
  (https://socket.io/docs/v4/socket-io-protocol/ — "Packet encoding"), as a *grammar*, not as a
  scanner and without looking at src/socketio/packet.py:

      packet      := type [ attachments "-" ] [ namespace "," ] [ id ] [ payload ]
      type        := "0" | "1" | "2" | "3" | "4" | "5" | "6"
      attachments := number                      -- present exactly for the binary types 5 and 6
      namespace   := "/" { any character but "," }   -- omitted for the main namespace "/"
      id          := number
      number      := digit { digit }             -- base ten, most significant digit first
      payload     := JSON text, every byte string replaced by {"_placeholder":true,"num":k},
                     k = 0, 1, 2, … in document (depth-first) order; the byte strings follow
                     the text frame as separate binary frames in that order

  Only the value types (`J`, `Packet`, `Err`) are shared with the model of the implementation;
  none of its functions is used.  Core Lean only.
-/
import Sio.Model.Codec
namespace Sio.Spec

/-! ### numbers -/

def digitChar (d : Nat) : Char := Char.ofNat (48 + d)

/-- `number`, printed -/
def dec (n : Nat) : Str :=
  if n < 10 then [digitChar n] else dec (n / 10) ++ [digitChar (n % 10)]
decreasing_by omega

def isDigit (c : Char) : Bool := '0' ≤ c && c ≤ '9'

def digitVal (c : Char) : Nat := c.toNat - 48

/-! ### binary payloads -/

/-- `{"_placeholder":true,"num":k}` -/
def ph (k : Nat) : J := .obj [("_placeholder".toList, .bool true), ("num".toList, .int k)]

mutual
  /-- the byte strings of a value in document order -/
  def blobs : J → List Bytes
    | .bin b => [b]
    | .arr xs => blobsL xs
    | .obj kvs => blobsO kvs
    | _ => []
  def blobsL : List J → List Bytes
    | [] => []
    | x :: xs => blobs x ++ blobsL xs
  def blobsO : List (Str × J) → List Bytes
    | [] => []
    | (_, x) :: xs => blobs x ++ blobsO xs
end

mutual
  /-- the value with its byte strings replaced by placeholders; the first one met gets number
      `k`, a sibling continues after the byte strings of its elder siblings -/
  def strip (k : Nat) : J → J
    | .bin _ => ph k
    | .arr xs => .arr (stripL k xs)
    | .obj kvs => .obj (stripO k kvs)
    | j => j
  def stripL (k : Nat) : List J → List J
    | [] => []
    | x :: xs => strip k x :: stripL (k + (blobs x).length) xs
  def stripO (k : Nat) : List (Str × J) → List (Str × J)
    | [] => []
    | (key, x) :: xs => (key, strip k x) :: stripO (k + (blobs x).length) xs
end

/-! ### producing a frame -/

def isBinaryType (t : Nat) : Bool := t == 5 || t == 6

/-- The text frame and the binary frames that follow it. -/
def frame (dumps : J → Str) (p : Packet) : Str × List Bytes :=
  let atts : List Bytes :=
    if isBinaryType p.type then (match p.data with | some j => blobs j | none => []) else []
  let payload : Option J := if isBinaryType p.type then p.data.map (strip 0) else p.data
  (dec p.type
    ++ (if isBinaryType p.type then dec atts.length ++ ['-'] else [])
    ++ (match p.nsp with
        | some ns => if ns = ['/'] then [] else ns ++ [',']
        | none => [])
    ++ (match p.id with | some i => dec i | none => [])
    ++ (match payload with | some j => dumps j | none => []),
   atts)

/-! ### reading a frame: one parser per production -/

/-- A parser consumes a prefix of the input or fails. -/
abbrev P (α : Type) := Str → Option (α × Str)

/-- `[ x ]` -/
def opt {α : Type} (p : P α) : Str → Option α × Str := fun s =>
  match p s with
  | some (a, r) => (some a, r)
  | none => (none, s)

/-- one terminal character -/
def lit (c : Char) : P Unit
  | d :: r => if d = c then some ((), r) else none
  | [] => none

/-- `{ digit }` continuing a number whose value so far is `acc` -/
def digits (acc : Nat) : Str → Nat × Str
  | c :: r => if isDigit c then digits (acc * 10 + digitVal c) r else (acc, c :: r)
  | [] => (acc, [])

/-- `number := digit { digit }` -/
def number : P Nat
  | c :: r => if isDigit c then some (digits (digitVal c) r) else none
  | [] => none

/-- `type` -/
def ptype : P Nat
  | c :: r => if isDigit c && digitVal c ≤ 6 then some (digitVal c, r) else none
  | [] => none

/-- `attachments "-"` -/
def attachments : P Nat := fun s =>
  match number s with
  | some (n, r) => (match lit '-' r with | some (_, r') => some (n, r') | none => none)
  | none => none

/-- `{ any character but "," }` -/
def nsChars : Str → Str × Str
  | c :: r => if c = ',' then ([], c :: r) else let (a, b) := nsChars r; (c :: a, b)
  | [] => ([], [])

/-- `namespace ","` — a query string (`?…`) is not part of the namespace name -/
def nspace : P Str
  | '/' :: r =>
    let (name, r') := nsChars r
    match lit ',' r' with
    | some (_, r'') => some (('/' :: name).takeWhile (· != '?'), r'')
    | none => none
  | _ => none

/-- `packet`; the payload is handed to the JSON reader.  The result is the packet as it travels
    in the text frame (placeholders in place) and the number of binary frames that follow. -/
def parse (loads : Str → Except Err J) (s : Str) : Except Err (Packet × Nat) :=
  match ptype s with
  | none => .error .valueError
  | some (t, r) =>
    match (if isBinaryType t then attachments r else some (0, r)) with
    | none => .error .valueError
    | some (n, r) =>
      let (ns, r) := opt nspace r
      let (id, r) := opt number r
      match r with
      | [] => .ok (⟨t, ns, id, none⟩, n)
      | _ => match loads r with
        | .ok j => .ok (⟨t, ns, id, some j⟩, n)
        | .error e => .error e

/-! ### putting the binary frames back -/

/-- `some k` iff the object is the placeholder number `k` -/
def isPh : List (Str × J) → Option Nat
  | [(k₁, .bool true), (k₂, .int (.ofNat n))] =>
    if k₁ = "_placeholder".toList ∧ k₂ = "num".toList then some n else none
  | _ => none

mutual
  /-- every placeholder replaced by the binary frame it names; `none` if one is missing -/
  def fill (atts : List Bytes) : J → Option J
    | .arr xs => (fillL atts xs).map .arr
    | .obj kvs =>
      match isPh kvs with
      | some n => atts[n]?.map .bin
      | none => (fillO atts kvs).map .obj
    | j => some j
  def fillL (atts : List Bytes) : List J → Option (List J)
    | [] => some []
    | x :: xs =>
      match fill atts x, fillL atts xs with
      | some y, some ys => some (y :: ys)
      | _, _ => none
  def fillO (atts : List Bytes) : List (Str × J) → Option (List (Str × J))
    | [] => some []
    | (k, x) :: xs =>
      match fill atts x, fillO atts xs with
      | some y, some ys => some ((k, y) :: ys)
      | _, _ => none
end

end Sio.Spec
