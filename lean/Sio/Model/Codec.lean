/-
  K1 — the packet codec of src/socketio/packet.py, transcribed branch by branch.
-/
import Sio.Model.Json
namespace Sio

/-- Class of a character for Python's `str.isdigit()` / `int()`.
    `dec v`  : `isdigit()` and `int()` accepts it with value `v`  (all Unicode Nd)
    `other`  : `isdigit()` but `int()` raises `ValueError`          (e.g. '²')
    `non`    : not `isdigit()`. -/
inductive DC where
  | non
  | dec (v : Nat)
  | other
  deriving Repr, DecidableEq

/-- ASCII part of the table; what the theorems need. -/
def asciiCls (c : Char) : DC :=
  if c.isDigit then .dec (c.toNat - 48) else .non

def DC.isDigit : DC → Bool
  | .non => false
  | _ => true

/-- Python `int(s)` on a string that contains only characters (no sign, no blanks, no `_`):
    `ValueError` when empty or when any character is not a decimal digit. -/
def pyIntGo (cls : Char → DC) : Str → Nat → Except Err Nat
  | [], acc => .ok acc
  | c :: cs, acc =>
    match cls c with
    | .dec v => pyIntGo cls cs (acc * 10 + v)
    | _ => .error .valueError

def pyInt (cls : Char → DC) (s : Str) : Except Err Nat :=
  if s.isEmpty then .error .valueError else pyIntGo cls s 0

def allDigits (cls : Char → DC) (s : Str) : Bool := !s.isEmpty && s.all (fun c => (cls c).isDigit)

structure Packet where
  type : Nat
  nsp : Option Str
  id : Option Nat
  data : Option J
  deriving Repr, Inhabited

def CONNECT := 0
def DISCONNECT := 1
def EVENT := 2
def ACK := 3
def CONNECT_ERROR := 4
def BINARY_EVENT := 5
def BINARY_ACK := 6

/-- `if dash > 10: raise ValueError('too many attachments')` — the most digits an attachment count
    may have (tied to the source by `Sio.GlueCodec.attDigitLimit_eq`) -/
abbrev attDigitLimit : Nat := 10
/-- `if not ep[i].isdigit() or i >= 100: break` — the most digits an id may have (tied to the source
    by `Sio.GlueCodec.idDigitLimit_eq`) -/
abbrev idDigitLimit : Nat := 100

/-! ### binary deconstruction / reconstruction -/

def placeholder (n : Nat) : J :=
  .obj [("_placeholder".toList, .bool true), ("num".toList, .int n)]

mutual
  /-- `_deconstruct_binary_internal`: the accumulator is appended to, the placeholder carries the
      index the leaf got. -/
  def decon : J → List Bytes → J × List Bytes
    | .bin b, acc => (placeholder acc.length, acc ++ [b])
    | .arr xs, acc => let r := deconL xs acc; (.arr r.1, r.2)
    | .obj kvs, acc => let r := deconO kvs acc; (.obj r.1, r.2)
    | j, acc => (j, acc)
  def deconL : List J → List Bytes → List J × List Bytes
    | [], acc => ([], acc)
    | x :: xs, acc =>
      let r := decon x acc
      let rs := deconL xs r.2
      (r.1 :: rs.1, rs.2)
  def deconO : List (Str × J) → List Bytes → List (Str × J) × List Bytes
    | [], acc => ([], acc)
    | (k, x) :: xs, acc =>
      let r := decon x acc
      let rs := deconO xs r.2
      ((k, r.1) :: rs.1, rs.2)
end

/-- `attachments[num]` with Python's index rules (`bool` is an `int`, negative indices count from
    the end, other types raise `TypeError`, a missing index `IndexError`).  Attachments are
    arbitrary values: the server appends whatever frame arrives while a binary packet is pending
    (a text frame too), without a type test. -/
def pyIndex (atts : List J) : J → Except Err J
  | .int i =>
    if 0 ≤ i then
      match atts[i.toNat]? with
      | some b => .ok b
      | none => .error .indexError
    else if i.natAbs ≤ atts.length then
      match atts[atts.length - i.natAbs]? with
      | some b => .ok b
      | none => .error .indexError
    else .error .indexError
  | .bool b =>
    match atts[if b then 1 else 0]? with
    | some x => .ok x
    | none => .error .indexError
  | _ => .error .typeError

mutual
  /-- `_reconstruct_binary_internal` -/
  def recon (atts : List J) : J → Except Err J
    | .arr xs => do let r ← reconL atts xs; pure (.arr r)
    | .obj kvs =>
      if (match lookup "_placeholder".toList kvs with | some v => v.truthy | none => false) then
        match lookup "num".toList kvs with
        | some n => pyIndex atts n
        | none => do let r ← reconO atts kvs; pure (.obj r)
      else do let r ← reconO atts kvs; pure (.obj r)
    | j => .ok j
  def reconL (atts : List J) : List J → Except Err (List J)
    | [] => .ok []
    | x :: xs => do
      let r ← recon atts x
      let rs ← reconL atts xs
      pure (r :: rs)
  def reconO (atts : List J) : List (Str × J) → Except Err (List (Str × J))
    | [] => .ok []
    | (k, x) :: xs => do
      let r ← recon atts x
      let rs ← reconO atts xs
      pure ((k, r) :: rs)
end

/-! ### construction and encoding -/

/-- `Packet.__init__` without `encoded_packet`: auto-detection of binary payloads and promotion
    of EVENT/ACK; anything else with a binary payload is a `ValueError`.
    `usesBinary = false` is the msgpack packet class. -/
def mkPacket (usesBinary : Bool) (type : Nat) (data : Option J) (nsp : Option Str)
    (id : Option Nat) (binary : Option Bool) : Except Err Packet :=
  let isBin : Bool := match binary with
    | some b => b
    | none => match data with | some d => d.isBinary | none => false
  if usesBinary && isBin then
    if type = EVENT then .ok ⟨BINARY_EVENT, nsp, id, data⟩
    else if type = ACK then .ok ⟨BINARY_ACK, nsp, id, data⟩
    else .error .valueError
  else .ok ⟨type, nsp, id, data⟩

def isBinType (t : Nat) : Bool := t = BINARY_EVENT || t = BINARY_ACK

def nspPart (nsp : Option Str) : Str :=
  match nsp with
  | none => []
  | some ns => if ns = ['/'] then [] else ns ++ [',']

def idPart (id : Option Nat) : Str :=
  match id with
  | none => []
  | some i => natStr i

/-- Everything `encode` writes before the JSON body. `natt` is `some n` for the binary types. -/
def encodeHdr (type : Nat) (nsp : Option Str) (id : Option Nat) (natt : Option Nat) : Str :=
  natStr type
    ++ (match natt with | some n => natStr n ++ ['-'] | none => [])
    ++ nspPart nsp ++ idPart id

/-- `Packet.encode`, parametric in the JSON printer. For a binary type the payload `None`
    deconstructs to `None` (which is then not printed). -/
def encode (dumps : J → Str) (p : Packet) : Str × Option (List Bytes) :=
  if isBinType p.type then
    let (d, atts) : Option J × List Bytes := match p.data with
      | some j => let r := decon j []; (some r.1, r.2)
      | none => (none, [])
    (encodeHdr p.type p.nsp p.id (some atts.length)
      ++ (match d with | some j => dumps j | none => []), some atts)
  else
    (encodeHdr p.type p.nsp p.id none
      ++ (match p.data with | some j => dumps j | none => []), none)

/-! ### decoding -/

structure Hdr where
  type : Nat
  nsp : Option Str
  id : Option Nat
  rest : Str
  natt : Nat
  deriving Repr

/-- `dash = ep.find('-')`; `if dash > 0 and ep[0:dash].isdigit(): …` — the attachment count.
    (`pre` is `ep[0:dash]` when a dash exists.) -/
def scanAtt (cls : Char → DC) (ep : Str) : Except Err (Nat × Str) :=
  let pre := ep.takeWhile (· != '-')
  let hasDash := pre.length < ep.length
  if hasDash && !pre.isEmpty && allDigits cls pre then
    if pre.length > attDigitLimit then .error .valueError
    else do
      let n ← pyInt cls pre
      pure (n, ep.drop (pre.length + 1))
  else pure (0, ep)

/-- `if ep and ep[0:1] == '/': …` — the namespace up to the first `,` (or the end), without the
    query string. -/
def scanNs (ep : Str) : Option Str × Str :=
  match ep with
  | '/' :: _ =>
    let raw := ep.takeWhile (· != ',')
    let ep' := if raw.length < ep.length then ep.drop (raw.length + 1) else []
    (some (raw.takeWhile (· != '?')), ep')
  | _ => (none, ep)

/-- `if ep and ep[0].isdigit(): …` — the id: at most 100 digits, a 101st is an error. -/
def scanId (cls : Char → DC) (ep : Str) : Except Err (Option Nat × Str) :=
  match ep with
  | c :: _ =>
    if (cls c).isDigit then
      let run := ep.takeWhile (fun c => (cls c).isDigit)
      let i := min run.length idDigitLimit
      do
        let v ← pyInt cls (ep.take i)
        let ep' := ep.drop i
        match ep' with
        | d :: _ => if (cls d).isDigit then .error .valueError else pure (some v, ep')
        | [] => pure (some v, ep')
    else pure (none, ep)
  | [] => pure (none, ep)

/-- The header scanner of `Packet.decode` (everything before `json.loads`). -/
def decodeHdr (cls : Char → DC) (s : Str) : Except Err Hdr := do
  let t ← pyInt cls (s.take 1)
  let (natt, ep) ← scanAtt cls (s.drop 1)
  let (nsp, ep) := scanNs ep
  let (id, ep) ← scanId cls ep
  pure ⟨t, nsp, id, ep, natt⟩

/-- `Packet(encoded_packet=text)` for a non-empty `str`: header, then `json.loads` of the rest. -/
def decode (cls : Char → DC) (loads : Str → Except Err J) (s : Str) : Except Err (Packet × Nat) := do
  let h ← decodeHdr cls s
  let d ← (if h.rest.isEmpty then pure none else do let j ← loads h.rest; pure (some j))
  pure (⟨h.type, h.nsp, h.id, d⟩, h.natt)

/-- A packet whose attachments are still being received. -/
structure Partial where
  pkt : Packet
  need : Nat
  got : List J
  deriving Repr, Inhabited

inductive AttRes where
  | more (p : Partial)
  | complete (p : Packet)
  deriving Repr

/-- `add_attachment`. (`data = None` stays `None`: `_reconstruct_binary_internal(None)` is `None`.) -/
def addAttachment (p : Partial) (b : J) : Except Err AttRes :=
  if p.need ≤ p.got.length then .error .valueError
  else
    let got := p.got ++ [b]
    if p.need = got.length then
      match p.pkt.data with
      | some j => do
        let r ← recon got j
        pure (.complete { p.pkt with data := some r })
      | none => pure (.complete p.pkt)
    else pure (.more { p with got := got })

/-- Hand back a list of attachments one by one. `none` while incomplete. -/
def feed (p : Partial) : List J → Except Err (Partial ⊕ Packet)
  | [] => .ok (.inl p)
  | b :: bs => do
    match ← addAttachment p b with
    | .more p' => feed p' bs
    | .complete pk => match bs with
      | [] => pure (.inr pk)
      | _ => .error .valueError

end Sio
